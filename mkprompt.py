#!/usr/bin/env python3
import sys
props, pkg, notes = sys.argv[1], sys.argv[2], sys.stdin.read()
t = open('/verif/agent_prompt.txt').read()
print(t.replace('__PROPS__', props).replace('__PKG__', pkg).replace('__NOTES__', 'SPECIAL NOTES:\n' + notes.strip()))

package pgp2

import (
	"bytes"
	"crypto"
	"fmt"
	"math/big"
	"math/rand/v2"
	"os"
	"runtime"
	"strings"
	"sync/atomic"
	"testing"
	"time"

	"golang.org/x/crypto/openpgp/elgamal"
	"golang.org/x/crypto/openpgp/packet"
	"verif/mon"
)

// C45: OpenPGP, armor and clearsign parsers are total: every entry point
// returns (result or error) without panicking and reading the returned bodies
// to EOF terminates.
func TestC45(t *testing.T) {
	m := mon.New(t, "C45")
	defer m.Done()
	m.Rule("case = (corpus item, packet-aware mutation operator(s), entry point, keyring ∈ {empty, public, public+secret, hostile = ReadKeyRing(mutated bytes)}, prompt ∈ {nil, right, wrong, none, error}, read-buffer size); corpus built at run time from gpg-made constants, hex/armored constants extracted from /repo/openpgp/**/*_test.go and deterministic fresh messages for every packet type; streams: 'baseline' (every corpus item unmutated through its natural entry points), 'directed' (hand-built boundary inputs: header forms, partial-length chains, MDC trailer/length boundaries × buffer sizes, forged session keys, nesting depths, armor/clearsign edge lines), 'truncation' (seed-independent: for every length encoding — packet new-format 1/2/5-octet and partial lengths, old-format 1/2/4-octet, signature subpacket 1/2/5-octet lengths in the hashed and the unhashed area, the signature's own area lengths, MPI bit-length prefixes, S2K specifiers, user-attribute subpacket lengths, ECC OID / ECDH KDF / literal file-name lengths — the enclosing area ends after exactly 0..k-1 bytes of the k-byte field or right after it with no body; signatures are presented detached, armored, on keys, in one-pass and signature-first messages, inside compression and as embedded signatures; packet headers also inside compressed and encrypted containers) 'unavailable-hash' (seed-independent: structurally valid signatures of every type the readers verify — 0x10-0x13, 0x18 with embedded 0x19, 0x1F, 0x20, 0x28, 0x30, 0x00/0x01, one-pass and v3 signatures, clearsigned text, S2K specifiers — at every position of a keyring / message with the hash octet ∈ {0,1,2,3,8..14,100,105,110,255}; RIPEMD-160 is not linked into the harness binary), 'mutation' (PRNG-chosen operator per case) and 'concurrent' (one shared EntityList/Entity with keys decrypted beforehand used by 4-8 barrier-started goroutines for ReadMessage decrypt+verify, CheckDetachedSignature, DetachSign, Encrypt→ReadMessage, clearsign→verify, and ReadKeyRing/ReadArmoredKeyRing/armor.Decode/armor.Encode/packet.Read on distinct yielding readers over shared read-only bytes; every result must equal the single-threaded result of the same call; every fourth group under GOMAXPROCS(1); the same stream runs alone in the -race build variant; interleavings are scheduler-chosen). Oracle: panic monitor (recover per case; key panic:<entry point>:<top x/crypto frame>) + termination monitor (input reader and output sink count bytes; hung only if 4 goroutine dumps 10 s apart show the case goroutine running inside x/crypto frames with both counters frozen, or a reader returns (0,nil) 2^20 times in a row with no input consumed). distinct key = entry|kind|operator|outcome class; non-trivial = the entry point was executed on the input")
	m.Assume("Go runtime panic/stack reporting; goroutine dumps name the case goroutine (pgp2.c45CaseBody); output above 64 MiB is a legitimate compression bomb (class 'capped', not judged); the documented endless re-prompting of ReadMessage is bounded by the harness prompt (error after 2 calls, counted)")
	if mon.RaceBuild {
		// race-detector variant: only the shared-value concurrency stream, in batch 0
		if m.Batch() == 0 {
			c45ConcurrentStreams(m, buildCorpus())
			c45ConcurrentGates(m)
		}
		return
	}
	cp := buildCorpus()
	for _, n := range cp.notes {
		m.Note(n)
	}
	for k, v := range cp.counts {
		if m.Batch() == 0 {
			m.Count(k, v)
		}
	}
	if m.Batch() == 0 {
		m.Count("corpus_items", len(cp.items))
	}
	st := &c45state{m: m, cp: cp, seenKeys: map[string]bool{}}
	stopGuard := st.memGuard(3 << 30)
	defer stopGuard()

	// ---- baseline: unmutated corpus through the natural entry points ----
	var base, dir []labelled
	if m.Batch() == 0 {
		base, dir = baselineCases(cp), directedCases(cp)
	}
	m.Each("baseline", len(base), func(i int64, r *rand.Rand) {
		c := base[i]
		out, ok := st.run(&c.in, "baseline", c.label)
		if !ok {
			return
		}
		m.Count("baseline_cases", 1)
		if out.Verified {
			m.Count("baseline_signatures_verified", 1)
		}
		if strings.Contains(out.Class, ":enc") && strings.HasPrefix(out.Class, "body:ok") {
			m.Count("baseline_messages_decrypted", 1)
		}
		if out.Entities > 0 && (c.in.Entry == eReadKeyRing || c.in.Entry == eReadArmoredK) {
			m.Count("baseline_keyrings_loaded", 1)
		}
		if i < 3 {
			m.Sample(map[string]any{"stream": "baseline", "item": c.label, "entry": c.in.Entry, "outcome": out.Class, "out_bytes": out.OutBytes})
		}
	})

	// ---- directed boundary inputs ----
	m.Each("directed", len(dir), func(i int64, r *rand.Rand) {
		c := dir[i]
		if _, ok := st.run(&c.in, "directed", c.label); ok {
			m.Count("directed_cases", 1)
			m.Count("directed:"+strings.SplitN(c.label, ":", 2)[0], 1)
		}
	})

	// ---- directed length-field truncation at every layer (seed-independent) ----
	trunc := truncationCases(cp) // the list is a constant; Cases only spreads it over the batches
	m.Cases("truncation", len(trunc), func(i int64, r *rand.Rand) {
		c := trunc[i]
		if _, ok := st.run(&c.in, "truncation", c.label); ok {
			m.Count("truncation_cases", 1)
			m.Count("trunc:"+truncKindOf(c.label), 1)
		}
	})

	// ---- unavailable-hash class (seed-independent) ----
	hcases := unavailableHashCases(cp)
	if m.Batch() == 0 {
		if !crypto.RIPEMD160.Available() {
			m.Count("ripemd160_not_linked", 1)
		} else {
			m.Note("RIPEMD-160 is linked into the harness binary: the unavailable-hash class cannot observe id 3")
		}
		if !crypto.MD5.Available() {
			m.Count("md5_not_linked", 1)
		}
	}
	m.Cases("unavailable-hash", len(hcases), func(i int64, r *rand.Rand) {
		c := hcases[i]
		if _, ok := st.run(&c.in, "unavailable-hash", c.label); ok {
			m.Count("unavailable_hash_cases", 1)
			m.Count("hash:"+hashClassOf(c.label), 1)
		}
	})

	// ---- structured mutation ----
	total := m.N(80000, 2400000)
	m.Cases("mutation", total, func(i int64, r *rand.Rand) {
		if st.aborted {
			return
		}
		var in *caseIn
		var kind, op string
		if pv, stk := mon.Panics(func() { in, kind, op = genCase(cp, r) }); pv != nil {
			// a defect of the workload generator is not a verdict on the property
			m.Count("generator_panics", 1)
			m.Inconclusive(fmt.Sprintf("workload generator panicked at case %d: %v\n%s", i, pv, trim(stk, 1500)))
			return
		}
		out, ok := st.run(in, kind, op)
		if !ok {
			return
		}
		m.Count("mutation_cases", 1)
		m.Count("entry:"+in.Entry, 1)
		m.Count("opfamily:"+opFamily(op), 1)
		if strings.HasPrefix(op, "inner:") {
			m.Count("mutated_inside_encryption", 1)
		}
		if i%9973 == 1 {
			m.Sample(map[string]any{"stream": "mutation", "entry": in.Entry, "kind": kind, "op": op, "ring": in.Ring, "prompt": in.Prompt, "buf": in.Buf, "input": mon.Hex(in.Data), "outcome": out.Class})
		}
	})

	// ---- shared-value concurrency (also run alone under the race detector) ----
	c45ConcurrentStreams(m, cp)
	c45ConcurrentGates(m)

	m.Gate("baseline_signatures_verified", 10, "valid signed corpus items verify end to end (the harness reaches the verification code)")
	m.Gate("baseline_messages_decrypted", 10, "valid encrypted corpus items decrypt with the harness keyring/prompt and are read to EOF")
	m.Gate("baseline_keyrings_loaded", 8, "valid keyrings load")
	m.Gate("corpus_repo_keyring", 5, "constants extracted from the repository's tests")
	m.Gate("corpus_repo_msg", 5, "constants extracted from the repository's tests")
	m.Gate("directed_cases", 500, "hand-built boundary inputs executed")
	m.Gate("ripemd160_not_linked", 1, "the harness binary does not link RIPEMD-160 (hash id 3 is known to the OpenPGP table but unavailable)")
	for _, k := range []string{"key-signature", "document-signature", "one-pass-signature", "s2k-hash"} {
		m.Gate("hash:"+k, hashGateMin[k], "hash-octet sweep at every position where this kind of object is verified")
	}
	for _, k := range truncKinds {
		m.Gate("trunc:"+k, truncGateMin[k], "directed length-field truncations of this encoding (area ends after 0..k-1 bytes of the field, or right after it with no body) in every context")
	}
	for _, e := range allEntries {
		m.Gate("entry:"+e, m.N(1500, 50000), "mutated inputs through this entry point")
	}
	m.Gate("entry:"+eHostileRing, m.N(500, 25000), "mutated keyrings used as the keyring of CheckDetachedSignature/ReadMessage")
	m.Gate("mutated_inside_encryption", m.N(1000, 50000), "packets mutated below the encryption layer and re-encrypted")
	m.Gate("bodies_read_to_eof", m.N(5000, 250000), "message/armor bodies drained by the termination monitor")
}

type c45state struct {
	m        *mon.M
	cp       *corpus
	seenKeys map[string]bool
	aborted  bool
	hangs    int
	cur      atomic.Pointer[runningCase]
}

type runningCase struct {
	in       *caseIn
	p        *progress
	kind, op string
}

// memGuard is the resource side of the termination monitor: a case that
// drives the heap above limit (inputs are < 100 KiB and outputs are capped at
// 64 MiB, so this is unbounded recursion/accumulation) is reported with its
// input and the child stops (the memory cannot be reclaimed from the runaway
// goroutine).
func (st *c45state) memGuard(limit uint64) (stop func()) {
	quit := make(chan struct{})
	go func() {
		t := time.NewTicker(250 * time.Millisecond)
		defer t.Stop()
		var ms runtime.MemStats
		for {
			select {
			case <-quit:
				return
			case <-t.C:
			}
			runtime.ReadMemStats(&ms)
			if ms.HeapInuse+ms.StackInuse < limit {
				continue
			}
			rc := st.cur.Load()
			w := map[string]any{"heap_inuse": ms.HeapInuse, "stack_inuse": ms.StackInuse, "limit": limit}
			entry := "?"
			if rc != nil {
				entry = rc.p.curEntry()
				w["entry"], w["flow"], w["kind"], w["op"] = entry, rc.in.Entry, rc.kind, rc.op
				w["ring"], w["prompt"], w["buf"] = rc.in.Ring, rc.in.Prompt, rc.in.Buf
				w["input_hex"] = mon.FullHex(rc.in.Data)
				w["in_bytes"], w["out_bytes"] = rc.p.in.Load(), rc.p.out.Load()
				if rc.in.RingData != nil {
					w["keyring_hex"] = mon.FullHex(rc.in.RingData)
				}
			}
			w["dump"] = trim(mon.GoroutineDump(), 20000)
			st.m.Count("runaway_memory_seen", 1)
			st.m.Violation("runaway-memory:"+entry, w)
			st.m.Note("child stopped: heap above the guard limit")
			st.m.Done()
			os.Exit(3)
		}
	}()
	return func() { close(quit) }
}

type labelled struct {
	in    caseIn
	label string
}

// run executes one case under both monitors and does the bookkeeping.
func (st *c45state) run(in *caseIn, kind, op string) (*caseOut, bool) {
	m := st.m
	if st.aborted {
		return nil, false
	}
	p := &progress{}
	out := &caseOut{}
	st.cur.Store(&runningCase{in: in, p: p, kind: kind, op: op})
	done := make(chan struct{})
	var pv any
	var pstack string
	go func() {
		defer close(done)
		pv, pstack = mon.Panics(func() { c45CaseBody(st.cp, in, p, out) })
	}()
	finished, hv := watch(done, p, 90*time.Second, 10*time.Second, 4, 15*time.Minute)
	m.Eval()
	wit := func() map[string]any {
		w := map[string]any{"entry": p.curEntry(), "flow": in.Entry, "kind": kind, "op": op, "ring": in.Ring, "prompt": in.Prompt, "buf": in.Buf, "armored_source": in.Armored,
			"input_hex": mon.FullHex(in.Data), "input_len": len(in.Data)}
		if in.Signed != nil {
			w["signed_hex"] = mon.FullHex(in.Signed)
		}
		if in.RingData != nil {
			w["keyring_hex"] = mon.FullHex(in.RingData)
		}
		return w
	}
	if !finished {
		w := wit()
		w["dump"] = hv.Dump
		w["reason"] = hv.Reason
		w["in_bytes"], w["out_bytes"] = p.in.Load(), p.out.Load()
		if hv.Hung {
			m.Count("hangs_seen", 1)
			m.Violation("hang:"+p.curEntry(), w)
		} else {
			m.Inconclusive("case did not finish within the give-up time but was not structurally hung: " + hv.Reason)
		}
		// a goroutine is left spinning: further measurements in this child are unreliable
		st.hangs++
		st.aborted = true
		m.Note("child stopped after a non-terminating case (leaked goroutine)")
		return nil, false
	}
	if pv != nil {
		m.Count("panics_seen", 1)
		site := mon.PanicSite(pstack)
		key := "panic:" + p.curEntry() + ":" + site
		w := wit()
		w["panic"] = fmt.Sprint(pv)
		w["stack"] = trim(pstack, 2500)
		if !st.seenKeys[key] {
			st.seenKeys[key] = true
			if min := st.minimise(in, p.curEntry(), site); min != nil {
				w["minimised_input_hex"] = mon.FullHex(min)
				w["minimised_len"] = len(min)
			}
		}
		m.Violation(key, w)
		m.Distinct(in.Entry + "|" + kind + "|" + opClass(op) + "|panic")
		return out, true
	}
	if out.ZeroSpin {
		m.Count("hangs_seen", 1)
		w := wit()
		w["reason"] = errZeroSpin.Error()
		m.Violation("hang:"+p.curEntry(), w)
		if st.hangs++; st.hangs >= 3 {
			st.aborted = true
			m.Note("child stopped after three non-terminating reads")
			return nil, false
		}
	}
	m.Distinct(in.Entry + "|" + kind + "|" + opClass(op) + "|" + out.Class)
	if out.BodyRead && !out.Capped {
		m.Count("bodies_read_to_eof", 1)
	}
	if out.Capped {
		m.Count("capped_outputs", 1)
	}
	if out.Verified {
		m.Count("signatures_verified", 1)
	}
	if p.prompts.Load() > promptBound {
		m.Count("prompt_bound_hit", 1)
	}
	if p.prompts.Load() > 0 {
		m.Count("prompt_called", 1)
	}
	if strings.HasPrefix(out.Class, "skipped:elgamal-p-zero") {
		m.Count("skipped_elgamal_p_zero", 1)
	}
	switch {
	case strings.HasPrefix(out.Class, "ok"), strings.HasPrefix(out.Class, "body:ok"), strings.HasPrefix(out.Class, "eof"):
		m.Count("outcome_result", 1)
	default:
		m.Count("outcome_error", 1)
	}
	return out, true
}

func trim(s string, n int) string {
	if len(s) > n {
		return s[:n] + "…"
	}
	return s
}

func opFamily(op string) string {
	op = strings.TrimPrefix(op, "inner:")
	if i := strings.IndexAny(op, "+:"); i >= 0 {
		op = op[:i]
	}
	return op
}

// opClass keeps the operator name low-cardinality for the distinct key.
func opClass(op string) string {
	if i := strings.Index(op, "+"); i >= 0 {
		op = op[:i] + "+"
	}
	if len(op) > 48 {
		op = op[:48]
	}
	return op
}

// minimise shrinks a panicking input while the same panic site reproduces
// (budgeted; best effort).
func (st *c45state) minimise(in *caseIn, entry, site string) []byte {
	target := &in.Data
	if in.Entry == eHostileRing {
		target = &in.RingData
	}
	orig := *target
	if len(orig) == 0 || len(orig) > 1<<16 {
		return nil
	}
	same := func(b []byte) bool {
		c := *in
		if in.Entry == eHostileRing {
			c.RingData = b
		} else {
			c.Data = b
		}
		p := &progress{}
		out := &caseOut{}
		var pv any
		var stk string
		done, _, _, _ := mon.RunTimed(30*time.Second, func() { pv, stk = mon.Panics(func() { c45CaseBody(st.cp, &c, p, out) }) })
		return done && pv != nil && mon.PanicSite(stk) == site && p.curEntry() == entry
	}
	cur := append([]byte(nil), orig...)
	budget := 250
	// whole packets first
	if ps, rest := splitPackets(cur); len(ps) > 1 && len(rest) == 0 && !in.Armored && !bytes.HasPrefix(cur, []byte("-----")) {
		for i := 0; i < len(ps) && budget > 0; {
			cand := append(append([]rawPkt{}, ps[:i]...), ps[i+1:]...)
			b := encodeSeq(cand, nil)
			budget--
			if same(b) {
				ps = cand
				cur = b
			} else {
				i++
			}
		}
	}
	for chunk := len(cur) / 2; chunk >= 1 && budget > 0; chunk /= 2 {
		for off := 0; off+chunk <= len(cur) && budget > 0; {
			cand := append(append([]byte(nil), cur[:off]...), cur[off+chunk:]...)
			budget--
			if same(cand) {
				cur = cand
			} else {
				off += chunk
			}
		}
	}
	if len(cur) < len(orig) {
		return cur
	}
	return nil
}

var bufSizes = []int{1, 2, 21, 22, 23, 24, 63, 512, 4096, 65536}

func pickW(r *rand.Rand, opts []string, w []int) string {
	t := 0
	for _, x := range w {
		t += x
	}
	k := r.IntN(t)
	for i, x := range w {
		if k < x {
			return opts[i]
		}
		k -= x
	}
	return opts[0]
}

var kindList = []string{kKeyring, kMsg, kSig, kArmored, kClearsign, kPkts}
var kindWeights = []int{26, 36, 9, 12, 8, 9}

// genCase draws one mutation case.
func genCase(cp *corpus, r *rand.Rand) (*caseIn, string, string) {
	var kind string
	for {
		kind = pickW(r, kindList, kindWeights)
		if len(cp.byKind[kind]) > 0 {
			break
		}
	}
	it := cp.items[mon.Pick(r, cp.byKind[kind])]
	in := &caseIn{Buf: mon.Pick(r, bufSizes), Signed: it.Signed, Ring: "empty", Prompt: "nil"}
	if in.Signed == nil {
		in.Signed = cp.text
	}
	var data []byte
	var op string
	switch kind {
	case kArmored:
		switch k := r.IntN(10); {
		case k < 4:
			data, op = mutateArmorText(it.Data, r)
		case k < 8:
			if bin, ok := dearmor(it.Data); ok {
				mb, o1 := mutatePackets(cp, bin, r, 0)
				ao, o2 := randArmorOpts(armorTypeOf(it.Data), r)
				data, op = armorEncode(mb, ao), o1+"+"+o2
			} else {
				data, op = mutateArmorText(it.Data, r)
			}
		default:
			bin, _ := dearmor(it.Data)
			ao, o2 := randArmorOpts(armorTypeOf(it.Data), r)
			data, op = armorEncode(bin, ao), o2
		}
	case kClearsign:
		data, op = mutateClearsign(cp, it.Data, r)
	default:
		if it.Rebuild != nil && r.IntN(5) < 3 {
			if r.IntN(6) == 0 {
				o := seOpts{MDC: r.IntN(4) > 0, Version: 1, TruncTo: -1}
				switch r.IntN(6) {
				case 0:
					o.BadMDCHash = true
					op = "inner:se:bad-mdc-hash"
				case 1:
					o.NoMDC = true
					op = "inner:se:no-mdc"
				case 2:
					o.BadMDCTag = true
					op = "inner:se:bad-mdc-tag"
				case 3:
					o.BadQuick = true
					op = "inner:se:bad-quick-check"
				case 4:
					o.Version = mon.Pick(r, versions)
					op = "inner:se:version"
				default:
					o.TruncTo = r.IntN(60)
					op = "inner:se:truncated"
				}
				data = it.Rebuild(it.Inner, r, &o)
			} else {
				mi, o1 := mutatePackets(cp, it.Inner, r, 0)
				data, op = it.Rebuild(mi, r, nil), "inner:"+o1
			}
		} else {
			data, op = mutatePackets(cp, it.Data, r, 0)
		}
		if r.IntN(7) == 0 { // stack a second operator
			d2, o2 := mutatePackets(cp, data, r, 0)
			data, op = d2, op+"+"+o2
		}
		if r.IntN(12) == 0 { // wrap in armor, run through the armored entry points
			typ := map[string]string{kKeyring: "PGP PUBLIC KEY BLOCK", kSig: "PGP SIGNATURE"}[kind]
			if typ == "" {
				typ = "PGP MESSAGE"
			}
			ao, o2 := randArmorOpts(typ, r)
			data, op = armorEncode(data, ao), op+"+"+o2
			kind = kind + "-armored"
		}
	}
	in.Data = data
	ringFor := func(w []int) string { return pickW(r, []string{"empty", "pub", "full"}, w) }
	promptFor := func() string {
		return pickW(r, []string{"right", "wrong", "none", "err", "nil"}, []int{50, 15, 10, 10, 15})
	}
	switch kind {
	case kKeyring:
		in.Entry = pickW(r, []string{eReadKeyRing, ePacketRead, eReadMessage, eHostileRing}, []int{55, 12, 5, 28})
		if in.Entry == eHostileRing {
			in.RingData = data
		}
	case kMsg:
		in.Entry = pickW(r, []string{eReadMessage, ePacketRead, eReadKeyRing}, []int{78, 18, 4})
	case kSig:
		in.Entry = pickW(r, []string{eCheckDetach, ePacketRead, eReadMessage}, []int{75, 15, 10})
	case kPkts:
		in.Entry = pickW(r, []string{ePacketRead, eReadKeyRing, eReadMessage, eCheckDetach}, []int{55, 20, 15, 10})
	case kClearsign:
		in.Entry = pickW(r, []string{eClearsign, eArmorDecode}, []int{92, 8})
	case kKeyring + "-armored":
		in.Entry = pickW(r, []string{eReadArmoredK, eArmorDecode}, []int{80, 20})
	case kSig + "-armored":
		in.Entry = pickW(r, []string{eCheckDetach, eArmorDecode}, []int{80, 20})
	case kArmored:
		typ := armorTypeOf(it.Data)
		switch {
		case strings.Contains(typ, "KEY BLOCK"):
			in.Entry = pickW(r, []string{eReadArmoredK, eArmorDecode}, []int{70, 30})
		case strings.Contains(typ, "SIGNATURE"):
			in.Entry = pickW(r, []string{eCheckDetach, eArmorDecode}, []int{65, 35})
		default:
			in.Entry = pickW(r, []string{eReadMessage, eArmorDecode}, []int{60, 40})
			in.Armored = in.Entry == eReadMessage
		}
	default: // msg-armored, pkts-armored
		in.Entry = pickW(r, []string{eReadMessage, eArmorDecode, eReadArmoredK}, []int{60, 30, 10})
		in.Armored = in.Entry == eReadMessage
	}
	if r.IntN(40) == 0 { // cross-feed: any input to any entry point
		in.Entry = mon.Pick(r, allEntries)
		in.Armored = false
	}
	switch in.Entry {
	case eReadMessage:
		in.Ring = ringFor([]int{20, 15, 65})
		in.Prompt = promptFor()
	case eCheckDetach, eClearsign:
		in.Ring = ringFor([]int{10, 75, 15})
	case eHostileRing:
		in.Ring = "hostile"
	}
	return in, kind, op
}

// baselineCases: every corpus item, unmutated, through its natural entry points.
func baselineCases(cp *corpus) []labelled {
	var out []labelled
	for _, it := range cp.items {
		add := func(in caseIn) {
			in.Data = it.Data
			if in.Buf == 0 {
				in.Buf = 4096
			}
			out = append(out, labelled{in, it.Name})
		}
		switch it.Kind {
		case kKeyring:
			add(caseIn{Entry: eReadKeyRing})
			add(caseIn{Entry: ePacketRead})
			add(caseIn{Entry: eHostileRing, RingData: it.Data, Ring: "hostile"})
		case kMsg:
			add(caseIn{Entry: eReadMessage, Ring: "full", Prompt: "right"})
			add(caseIn{Entry: eReadMessage, Ring: "full", Prompt: "right", Buf: 1})
			add(caseIn{Entry: eReadMessage, Ring: "full", Prompt: "wrong", Buf: 23})
			add(caseIn{Entry: eReadMessage, Ring: "empty", Prompt: "nil"})
			add(caseIn{Entry: ePacketRead})
		case kSig:
			add(caseIn{Entry: eCheckDetach, Ring: "pub", Signed: it.Signed})
			add(caseIn{Entry: ePacketRead})
		case kPkts:
			add(caseIn{Entry: ePacketRead})
			add(caseIn{Entry: eReadMessage, Ring: "full", Prompt: "right"})
			add(caseIn{Entry: eReadKeyRing})
		case kArmored:
			add(caseIn{Entry: eArmorDecode})
			typ := armorTypeOf(it.Data)
			switch {
			case strings.Contains(typ, "KEY BLOCK"):
				add(caseIn{Entry: eReadArmoredK})
			case strings.Contains(typ, "SIGNATURE"):
				s := it.Signed
				if s == nil {
					s = cp.text
				}
				add(caseIn{Entry: eCheckDetach, Ring: "pub", Signed: s})
			default:
				add(caseIn{Entry: eReadMessage, Armored: true, Ring: "full", Prompt: "right"})
			}
		case kClearsign:
			add(caseIn{Entry: eClearsign, Ring: "pub"})
		}
	}
	return out
}

// directedCases: hand-built boundary inputs.
func directedCases(cp *corpus) []labelled {
	var out []labelled
	r := rand.New(rand.NewPCG(4545, 45))
	add := func(label string, in caseIn) {
		if in.Buf == 0 {
			in.Buf = 4096
		}
		if in.Signed == nil {
			in.Signed = cp.text
		}
		out = append(out, labelled{in, label})
	}
	everyBinaryEntry := func(label string, data []byte) {
		add(label, caseIn{Entry: eReadKeyRing, Data: data})
		add(label, caseIn{Entry: ePacketRead, Data: data})
		add(label, caseIn{Entry: eReadMessage, Data: data, Ring: "full", Prompt: "right"})
		add(label, caseIn{Entry: eCheckDetach, Data: data, Ring: "pub"})
		add(label, caseIn{Entry: eReadArmoredK, Data: armorEncode(data, armorOpts{Type: "PGP PRIVATE KEY BLOCK", EndType: "PGP PRIVATE KEY BLOCK", EOL: "\n", CRC: "ok"})})
	}
	text := cp.text
	lit := literalPkt(true, "f", 0, text)
	// 1. header forms × every tag the reader knows, body = valid literal or empty
	for tag := byte(0); tag < 64; tag++ {
		for form := 0; form < hForms; form++ {
			for _, body := range [][]byte{nil, lit.Body, {4}, {3}} {
				b, _ := encodePkt(rawPkt{Tag: tag, NewFmt: true, Body: body}, form, nil)
				add("hdr:tag×form", caseIn{Entry: ePacketRead, Data: b})
			}
		}
	}
	// 2. partial-length chains around the literal body: every chunk power first, zero finals, missing finals
	for pow := 0; pow <= 12; pow++ {
		body := append(lit.Body[:0:0], lit.Body...)
		for len(body) < (1<<pow)+3 {
			body = append(body, body...)
		}
		b := []byte{0xc0 | 11, 224 + byte(pow)}
		b = append(b, body[:1<<pow]...)
		rest := body[1<<pow:]
		for _, fin := range []string{"final", "zero-final", "no-final", "partial-forever"} {
			c := append([]byte(nil), b...)
			switch fin {
			case "final":
				c = append(append(c, newLen(len(rest))...), rest...)
			case "zero-final":
				c = append(c, 0)
			case "partial-forever":
				for k := 0; k < 40; k++ {
					c = append(c, 224, 'x')
				}
			}
			for _, buf := range []int{1, 4096} {
				add("partial:first-chunk-pow", caseIn{Entry: ePacketRead, Data: c, Buf: buf})
				add("partial:first-chunk-pow", caseIn{Entry: eReadMessage, Data: c, Buf: buf})
			}
		}
	}
	// 3. MDC / CFB boundaries: inner literal sizes around the 22-byte trailer × damage × buffer sizes
	if cp.rsaEncPub != nil {
		for n := 0; n <= 48; n++ {
			inner := encodeDefault(literalPkt(true, "", 0, bytes.Repeat([]byte{'z'}, n)))
			for _, o := range []seOpts{{MDC: true, Version: 1, TruncTo: -1}, {MDC: true, Version: 1, TruncTo: -1, NoMDC: true}, {MDC: true, Version: 1, TruncTo: -1, BadMDCHash: true}, {MDC: false, TruncTo: -1}} {
				key := mon.Bytes(r, 16)
				pk := buildPKESKRSA(r, cp.rsaEncPub, cp.rsaEncPub.KeyId, sessionPayload(packet.CipherAES128, key))
				se := buildSE(r, packet.CipherAES128, key, inner, o)
				msg := append(encodeDefault(pk), encodeDefault(se)...)
				for _, buf := range []int{1, 21, 22, 23, 4096} {
					add("mdc:inner-len×damage×buf", caseIn{Entry: eReadMessage, Data: msg, Ring: "full", Prompt: "nil", Buf: buf})
				}
			}
		}
		// raw decrypted stream lengths 0..60 (no packet structure inside)
		for n := 0; n <= 60; n++ {
			key := mon.Bytes(r, 16)
			pk := buildPKESKRSA(r, cp.rsaEncPub, cp.rsaEncPub.KeyId, sessionPayload(packet.CipherAES128, key))
			for _, mdc := range []bool{true, false} {
				se := buildSE(r, packet.CipherAES128, key, nil, seOpts{MDC: mdc, NoMDC: true, Version: 1, TruncTo: n})
				add("se:ciphertext-len", caseIn{Entry: eReadMessage, Data: append(encodeDefault(pk), encodeDefault(se)...), Ring: "full", Buf: 22})
			}
		}
		// 4. forged session keys: payload lengths 0..40, every cipher id, wildcard key id
		for n := 0; n <= 40; n++ {
			for _, id := range []uint64{cp.rsaEncPub.KeyId, 0} {
				payload := mon.Bytes(r, n)
				if n > 0 {
					payload[0] = 7
				}
				pk := buildPKESKRSA(r, cp.rsaEncPub, id, payload)
				se := buildSE(r, packet.CipherAES128, mon.Bytes(r, 16), encodeDefault(lit), seOpts{MDC: true, Version: 1, TruncTo: -1})
				add("pkesk-forged:rsa:payload-len", caseIn{Entry: eReadMessage, Data: append(encodeDefault(pk), encodeDefault(se)...), Ring: "full", Prompt: "nil"})
			}
		}
		for c := 0; c < 256; c++ {
			key := mon.Bytes(r, 16)
			pk := buildPKESKRSA(r, cp.rsaEncPub, cp.rsaEncPub.KeyId, sessionPayload(packet.CipherFunction(c), key))
			se := buildSE(r, packet.CipherAES128, key, encodeDefault(lit), seOpts{MDC: true, Version: 1, TruncTo: -1})
			add("pkesk-forged:rsa:cipher-id", caseIn{Entry: eReadMessage, Data: append(encodeDefault(pk), encodeDefault(se)...), Ring: "full", Prompt: "nil"})
		}
	}
	if cp.elgEncPub != nil {
		for n := 0; n <= 24; n++ {
			pk := buildPKESKElGamal(r, cp.elgEncPub, cp.elgEncPub.KeyId, mon.Bytes(r, n))
			se := buildSE(r, packet.CipherAES128, mon.Bytes(r, 16), encodeDefault(lit), seOpts{MDC: true, Version: 1, TruncTo: -1})
			add("pkesk-forged:elgamal:payload-len", caseIn{Entry: eReadMessage, Data: append(encodeDefault(pk), encodeDefault(se)...), Ring: "full", Prompt: "right"})
		}
		ep := cp.elgEncPub.PublicKey.(*elgamal.PublicKey)
		for _, which := range []string{"c1=0", "c2=0", "c1=1", "c2=1", "c1=p", "c2=p", "c1=p-1"} {
			pk := buildPKESKElGamal(r, cp.elgEncPub, cp.elgEncPub.KeyId, sessionPayload(packet.CipherAES128, mon.Bytes(r, 16)))
			off := walkMPIs(pk.Body, 10)
			if len(off) != 2 {
				continue
			}
			c1 := append([]byte(nil), pk.Body[off[0]:off[1]]...)
			c2 := append([]byte(nil), pk.Body[off[1]:]...)
			var v []byte
			switch which[3:] {
			case "0":
				v = []byte{0, 0}
			case "1":
				v = []byte{0, 1, 1}
			case "p":
				v = mpiBytes(ep.P.Bytes())
			default:
				v = mpiBytes(new(big.Int).Sub(ep.P, big.NewInt(1)).Bytes())
			}
			if which[:2] == "c1" {
				c1 = v
			} else {
				c2 = v
			}
			pk.Body = append(append(append([]byte(nil), pk.Body[:10]...), c1...), c2...)
			se := buildSE(r, packet.CipherAES128, mon.Bytes(r, 16), encodeDefault(lit), seOpts{MDC: true, Version: 1, TruncTo: -1})
			add("pkesk-forged:elgamal:"+which, caseIn{Entry: eReadMessage, Data: append(encodeDefault(pk), encodeDefault(se)...), Ring: "full", Prompt: "right"})
		}
	}
	// 5. secret-key packets: every public-key algorithm id × s2k usage, from the valid key packets of the corpus
	for _, name := range []string{"sec_ECC.bin", "sec_RSA.bin", "sec_DSA.bin", "pub_ECC.bin", "pub_DSA.bin"} {
		data := gpgBin(name)
		everyBinaryEntry("key:valid:"+name, data)
		ps, _ := splitPackets(data)
		for i := range ps {
			if t := ps[i].Tag; t == 6 || t == 14 {
				// public key packet presented as an unprotected secret key packet
				q := clonePkts(ps)
				q[i].Tag = map[byte]byte{6: 5, 14: 7}[t]
				q[i].Body = append(q[i].Body, 0)
				q[i].Body = append(q[i].Body, mpiBytes(mon.Bytes(r, 32))...)
				q[i].Body = append(q[i].Body, 0, 0)
				everyBinaryEntry("key:pub-as-secret:"+name, encodeSeq(q, nil))
			}
			if t := ps[i].Tag; (t == 5 || t == 7) && len(ps[i].Body) > 6 {
				for _, a := range pkAlgos {
					q := clonePkts(ps)
					q[i].Body[5] = a
					add("key:secret-algo-sweep", caseIn{Entry: eReadKeyRing, Data: encodeSeq(q, nil)})
					everyBinaryEntry("key:secret-algo-sweep", encodeDefault(q[i]))
				}
			}
		}
	}
	// 6. nesting: compression depth around a literal (limit of packet.Reader is 32), embedded signatures
	for d := 1; d <= 40; d++ {
		b := encodeDefault(lit)
		for k := 0; k < d; k++ {
			b = encodeDefault(storedPkt(byte(1+k%2), b))
		}
		add("nest:compression-depth", caseIn{Entry: eReadMessage, Data: b})
		add("nest:compression-depth", caseIn{Entry: ePacketRead, Data: b})
	}
	for _, d := range []int{1, 2, 10, 100, 1000, 3000, 5000} {
		inner := []byte{4, 0x19, 1, 8, 0, 6, 5, 2, 0x60, 0, 0, 0, 0, 0, 0, 0, 0, 8, 0xff}
		for k := 0; k < d; k++ {
			h := encSubpkts([]subpkt{{2, []byte{0x60, 0, 0, 0}}, {32, inner}}, nil)
			if len(h) > 65000 {
				break
			}
			nb := []byte{4, 0x19, 1, 8, byte(len(h) >> 8), byte(len(h))}
			nb = append(nb, h...)
			inner = append(nb, 0, 0, 0, 0, 0, 8, 0xff)
		}
		sig := encodeDefault(rawPkt{Tag: 2, NewFmt: true, Body: inner})
		add("nest:embedded-signature-depth", caseIn{Entry: ePacketRead, Data: sig})
		add("nest:embedded-signature-depth", caseIn{Entry: eCheckDetach, Data: sig, Ring: "pub"})
	}
	// 7. signature subpacket areas: every subpacket type × data length 0..9 in hashed/unhashed, all three length forms
	for typ := 0; typ < 40; typ++ {
		for dl := 0; dl <= 9; dl++ {
			for form := 0; form < 3; form++ {
				for _, hashedArea := range []bool{true, false} {
					sp := append(encSubLen(dl+1, form), byte(typ))
					sp = append(sp, bytes.Repeat([]byte{1}, dl)...)
					ct := []byte{5, 2, 0x60, 0, 0, 0}
					h, u := ct, []byte(nil)
					if hashedArea {
						h = append(append([]byte(nil), ct...), sp...)
					} else {
						u = sp
					}
					b := []byte{4, 0, 1, 8, byte(len(h) >> 8), byte(len(h))}
					b = append(b, h...)
					b = append(b, byte(len(u)>>8), byte(len(u)))
					b = append(b, u...)
					b = append(b, 0, 0, 0, 8, 0xff)
					add("sig:subpacket-type×len×form", caseIn{Entry: ePacketRead, Data: encodeDefault(rawPkt{Tag: 2, NewFmt: true, Body: b})})
				}
			}
		}
	}
	// 8. armor edge lines
	bin := encodeDefault(lit)
	for _, typ := range armorTypes {
		for _, crc := range []string{"ok", "bad", "none", "short", "badb64", "long"} {
			for _, eol := range []string{"\n", "\r\n", "\r"} {
				for _, ll := range []int{1, 64, 96, 97, 100, 101} {
					o := armorOpts{Type: typ, EndType: typ, EOL: eol, CRC: crc, LineLen: ll}
					add("armor:type×crc×eol×linelen", caseIn{Entry: eArmorDecode, Data: armorEncode(bin, o), Buf: 1 + 4095*(ll%2)})
				}
			}
		}
	}
	for _, s := range []string{"", "\n", "-----BEGIN ", "-----BEGIN -----", "-----BEGIN -----\n", "-----BEGIN A-----", "-----BEGIN AB-----\n\n", "-----BEGIN PGP MESSAGE-----\n", "-----BEGIN PGP MESSAGE-----\n\n", "-----BEGIN PGP MESSAGE-----\n\n=", "-----BEGIN PGP MESSAGE-----\n\n=AAAA", "-----BEGIN PGP MESSAGE-----\n\n=AAAA\n", "-----BEGIN PGP MESSAGE-----\nA\n", "-----BEGIN PGP MESSAGE-----\n: \n\n", "-----BEGIN PGP MESSAGE-----\nK: " + strings.Repeat("v", 99) + "\nK2: v\n\nAAAA\n-----END PGP MESSAGE-----", "-----BEGIN PGP MESSAGE-----\n" + strings.Repeat("k", 120) + ": v\n\nAAAA\n", strings.Repeat("x", 99) + "\n-----BEGIN PGP MESSAGE-----\n\nAAAA\n-----END PGP MESSAGE-----\n", strings.Repeat("x", 100) + "-----BEGIN PGP MESSAGE-----\n\nAAAA\n-----END", "-----BEGIN PGP MESSAGE-----\n\n" + strings.Repeat("A", 97) + "\n", "-----BEGIN PGP MESSAGE-----\n\n\n\n\n-----END PGP MESSAGE-----", "-----BEGIN PGP MESSAGE-----\n\nAA==AAAA\n-----END PGP MESSAGE-----"} {
		for _, e := range []string{eArmorDecode, eReadArmoredK, eCheckDetach, eClearsign} {
			add("armor:edge-text", caseIn{Entry: e, Data: []byte(s), Buf: 3})
		}
		add("armor:edge-text", caseIn{Entry: eReadMessage, Armored: true, Data: []byte(s)})
	}
	// 9. clearsign edges
	sigblk := string(armorEncode(bin, armorOpts{Type: "PGP SIGNATURE", EndType: "PGP SIGNATURE", EOL: "\n", CRC: "ok"}))
	for _, s := range []string{"-----BEGIN PGP SIGNED MESSAGE-----", "-----BEGIN PGP SIGNED MESSAGE-----\n", "-----BEGIN PGP SIGNED MESSAGE-----\n\n", "-----BEGIN PGP SIGNED MESSAGE-----\nHash: SHA1\n", "-----BEGIN PGP SIGNED MESSAGE-----\nHash: SHA1\n\n" + sigblk, "-----BEGIN PGP SIGNED MESSAGE-----\n\n\n" + sigblk, "-----BEGIN PGP SIGNED MESSAGE-----\n\n-\n- \n-  \n" + sigblk, "-----BEGIN PGP SIGNED MESSAGE-----\r\nHash: MD5,SHA1\r\nHash: X\r\n\r\nx\r\n" + sigblk, "x\n-----BEGIN PGP SIGNED MESSAGE-----\n\nx\n-----BEGIN PGP SIGNATURE-----", "\n-----BEGIN PGP SIGNED MESSAGE-----\n\nx\n-----BEGIN PGP SIGNATURE-----\n-----END PGP SIGNATURE-----", "-----BEGIN PGP SIGNED MESSAGE-----\n\nx\n-----BEGIN PGP SIGNATURE-----\n\n-----END PGP SIGNATURE-----\r\r\n\n"} {
		add("clearsign:edge-text", caseIn{Entry: eClearsign, Data: []byte(s), Ring: "pub"})
	}
	return out
}

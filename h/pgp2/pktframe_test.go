package pgp2

// OpenPGP packet framing written from RFC 4880 §4.2 for the workload generator
// (independent of x/crypto: the mutator must be able to produce framings the
// library's own writer never emits). Not an oracle: nothing here decides a
// verdict.

import (
	"bytes"
	"encoding/binary"
	"math/rand/v2"
)

// rawPkt is one packet: tag + complete body (partial chunks joined).
type rawPkt struct {
	Tag     byte
	NewFmt  bool
	Body    []byte
	Indet   bool // old format, indeterminate length (body = rest of input)
	Partial bool // new format, was encoded with partial lengths
}

// splitPackets parses a packet sequence as far as it is well-formed.
// It returns the packets and the unparsed remainder (nil if all consumed).
func splitPackets(b []byte) (pkts []rawPkt, rest []byte) {
	for len(b) > 0 {
		h := b[0]
		if h&0x80 == 0 {
			return pkts, b
		}
		if h&0x40 == 0 { // old format
			tag := (h & 0x3f) >> 2
			lt := h & 3
			if lt == 3 {
				pkts = append(pkts, rawPkt{Tag: tag, Body: append([]byte(nil), b[1:]...), Indet: true})
				return pkts, nil
			}
			n := 1 << lt
			if len(b) < 1+n {
				return pkts, b
			}
			var l uint64
			for i := 0; i < n; i++ {
				l = l<<8 | uint64(b[1+i])
			}
			if uint64(len(b)-1-n) < l {
				return pkts, b
			}
			pkts = append(pkts, rawPkt{Tag: tag, Body: append([]byte(nil), b[1+n:1+n+int(l)]...)})
			b = b[1+n+int(l):]
			continue
		}
		tag := h & 0x3f
		p := rawPkt{Tag: tag, NewFmt: true}
		q := b[1:]
		ok := false
		for {
			if len(q) == 0 {
				break
			}
			c := q[0]
			var l uint64
			partial := false
			switch {
			case c < 192:
				l = uint64(c)
				q = q[1:]
			case c < 224:
				if len(q) < 2 {
					q = nil
					continue
				}
				l = uint64(c-192)<<8 + uint64(q[1]) + 192
				q = q[2:]
			case c < 255:
				l = 1 << (c & 0x1f)
				partial = true
				q = q[1:]
			default:
				if len(q) < 5 {
					q = nil
					continue
				}
				l = uint64(binary.BigEndian.Uint32(q[1:5]))
				q = q[5:]
			}
			if uint64(len(q)) < l {
				q = nil
				continue
			}
			p.Body = append(p.Body, q[:l]...)
			q = q[l:]
			if !partial {
				ok = true
				break
			}
			p.Partial = true
		}
		if !ok {
			return pkts, b
		}
		pkts = append(pkts, p)
		b = q
	}
	return pkts, nil
}

// header forms the encoder can produce
const (
	hNew1 = iota // new format, 1-octet length (body < 192)
	hNew2        // new format, 2-octet length (192..8383)
	hNew5        // new format, 5-octet length
	hNewPartial  // new format, partial-length chain (legal first chunk ≥ 512 when possible)
	hNewPartialTiny
	hOld1
	hOld2
	hOld4
	hOldIndet
	hForms
)

var hFormNames = []string{"new1", "new2", "new5", "newPartial", "newPartialTiny", "old1", "old2", "old4", "oldIndet"}

func newLen(l int) []byte {
	switch {
	case l < 192:
		return []byte{byte(l)}
	case l < 8384:
		l -= 192
		return []byte{192 + byte(l>>8), byte(l)}
	}
	return []byte{255, byte(l >> 24), byte(l >> 16), byte(l >> 8), byte(l)}
}

// encodePkt serialises with the requested header form; forms that cannot
// represent the body (e.g. 1-octet for 300 bytes, old format for tag > 15)
// fall back to the nearest legal one. The returned form is the one used.
func encodePkt(p rawPkt, form int, r *rand.Rand) ([]byte, int) {
	l := len(p.Body)
	if form >= hOld1 && p.Tag > 15 {
		form = hNew5
	}
	switch form {
	case hNew1:
		if l >= 192 {
			return encodePkt(p, hNew2, r)
		}
		return append([]byte{0xc0 | p.Tag, byte(l)}, p.Body...), hNew1
	case hNew2:
		if l < 192 || l >= 8384 {
			return encodePkt(p, hNew5, r)
		}
		return append(append([]byte{0xc0 | p.Tag}, newLen(l)...), p.Body...), hNew2
	case hNew5:
		return append([]byte{0xc0 | p.Tag, 255, byte(l >> 24), byte(l >> 16), byte(l >> 8), byte(l)}, p.Body...), hNew5
	case hNewPartial, hNewPartialTiny:
		out := []byte{0xc0 | p.Tag}
		b := p.Body
		first := true
		for {
			// choose a chunk power
			maxPow := 0
			for (1 << (maxPow + 1)) <= len(b) {
				maxPow++
			}
			if len(b) == 0 {
				break
			}
			pow := maxPow
			if form == hNewPartialTiny {
				pow = 0
				if r != nil && maxPow > 0 {
					pow = r.IntN(min(maxPow, 4) + 1)
				}
			} else if first {
				if maxPow < 9 {
					break // cannot make a legal ≥512 first chunk: final length carries everything
				}
				pow = 9
				if r != nil {
					pow = 9 + r.IntN(maxPow-9+1)
				}
			} else if r != nil {
				pow = r.IntN(maxPow + 1)
			}
			if pow > 30 {
				pow = 30
			}
			// keep at least nothing for the final (final may be zero-length)
			out = append(out, 224+byte(pow))
			out = append(out, b[:1<<pow]...)
			b = b[1<<pow:]
			first = false
			if r != nil && r.IntN(6) == 0 {
				break
			}
		}
		out = append(out, newLen(len(b))...)
		out = append(out, b...)
		return out, form
	case hOld1:
		if l > 0xff {
			return encodePkt(p, hOld2, r)
		}
		return append([]byte{0x80 | p.Tag<<2, byte(l)}, p.Body...), hOld1
	case hOld2:
		if l > 0xffff {
			return encodePkt(p, hOld4, r)
		}
		return append([]byte{0x80 | p.Tag<<2 | 1, byte(l >> 8), byte(l)}, p.Body...), hOld2
	case hOld4:
		return append([]byte{0x80 | p.Tag<<2 | 2, byte(l >> 24), byte(l >> 16), byte(l >> 8), byte(l)}, p.Body...), hOld4
	case hOldIndet:
		return append([]byte{0x80 | p.Tag<<2 | 3}, p.Body...), hOldIndet
	}
	return encodePkt(p, hNew5, r)
}

// encodeDefault uses the shortest new-format definite length.
func encodeDefault(p rawPkt) []byte {
	b, _ := encodePkt(p, hNew1, nil)
	return b
}

func joinPkts(ps []rawPkt) []byte {
	var out bytes.Buffer
	for _, p := range ps {
		out.Write(encodeDefault(p))
	}
	return out.Bytes()
}

// mpi helpers (RFC 4880 §3.2)
func mpiBytes(v []byte) []byte {
	for len(v) > 0 && v[0] == 0 {
		v = v[1:]
	}
	bits := 0
	if len(v) > 0 {
		bits = (len(v)-1)*8 + bitLen8(v[0])
	}
	return append([]byte{byte(bits >> 8), byte(bits)}, v...)
}

func bitLen8(b byte) int {
	n := 0
	for b != 0 {
		n++
		b >>= 1
	}
	return n
}

// walkMPIs returns the offsets of consecutive well-formed MPIs starting at off.
func walkMPIs(b []byte, off int) (offs []int) {
	for off+2 <= len(b) {
		bits := int(b[off])<<8 | int(b[off+1])
		n := (bits + 7) / 8
		if off+2+n > len(b) {
			break
		}
		offs = append(offs, off)
		off += 2 + n
	}
	return
}

package pgp2

import (
	"bytes"
	"encoding/base64"
	"fmt"
	"math/big"
	"math/rand/v2"
	"strings"

	"golang.org/x/crypto/otr"
	"verif/mon"
)

// ---------------------------------------------------------------------------
// smp-seq: every two-run sequence (initiator, equal?) × (initiator, equal?)
// ---------------------------------------------------------------------------

func c47SMPSeq(m *mon.M, i int64, r *rand.Rand) {
	b := newBus(m, r, int(i)%3, int(i/3)%3, 0, 0)
	b.handshake("query-to-b")
	if b.dead || !b.a.c.IsEncrypted() || !b.b.c.IsEncrypted() {
		if !b.dead {
			m.Violation("ake-not-encrypted:query-to-b", b.witness(nil))
		}
		return
	}
	bits := int(i) % 16
	for run := 0; run < 2 && !b.dead; run++ {
		x, y := b.a, b.b
		if bits&1 != 0 {
			x, y = b.b, b.a
		}
		equal := bits&2 != 0
		bits >>= 2
		sx := []byte(fmt.Sprintf("secret-%d-%d", i, run))
		sy := sx
		if !equal {
			sy = []byte(fmt.Sprintf("Secret-%d-%d", i, run))
		}
		q := ""
		if run == 1 && i%32 >= 16 {
			q = "question?"
		}
		if !c47SMP(m, b, x, y, q, sx, sy, equal, "smp-seq|") {
			return
		}
		m.Count("smp_seq_runs", 1)
	}
}

// ---------------------------------------------------------------------------
// smp-degenerate: one side's SMP exponents are zero (its entropy source returns
// zeros for the 16-byte reads); with UNEQUAL secrets nobody may see SMPComplete
// ---------------------------------------------------------------------------

func c47SMPDegenerate(m *mon.M, i int64, r *rand.Rand) {
	b := encryptedPair(m, r)
	if b.dead {
		return
	}
	x, y := b.a, b.b
	if i&1 != 0 {
		x, y = b.b, b.a
	}
	degInitiator := i&2 == 0
	count := 1 // only the first exponent (a2 resp. b2)
	pattern := "first-exponent-zero"
	if i&4 != 0 {
		count = 1000
		pattern = "all-exponents-zero"
	}
	deg := y
	if degInitiator {
		deg = x
	}
	who := map[bool]string{true: "initiator", false: "responder"}[degInitiator]
	sx, sy := []byte("the real secret"), []byte("a wrong guess")
	if degInitiator {
		sx, sy = sy, sx // the degenerate side is the one that does not know the secret
	}
	if degInitiator {
		*deg.zero = count
	}
	b.authenticate(x, "", sx)
	b.pump()
	if b.dead {
		return
	}
	if countChange(y.changesSince(0), otr.SMPSecretNeeded) == 1 {
		if !degInitiator {
			*deg.zero = count
		}
		b.authenticate(y, "", sy)
		b.pump()
	}
	*deg.zero = 0
	if b.dead {
		return
	}
	m.Count("smp_degenerate_runs", 1)
	cx, cy := x.changesSince(0), y.changesSince(0)
	complete := countChange(cx, otr.SMPComplete) + countChange(cy, otr.SMPComplete)
	m.Distinct(fmt.Sprintf("smp-degenerate|%s|%s|complete=%v", who, pattern, complete > 0))
	if complete > 0 {
		m.Violation("smp-complete-on-unequal-secrets:degenerate-exponents", b.witness(map[string]any{
			"degenerate_side": who, "pattern": pattern, "initiator": x.name,
			"initiator_changes": fmt.Sprint(cx), "responder_changes": fmt.Sprint(cy),
			"secret_initiator": string(sx), "secret_responder": string(sy)}))
	}
}

// ---------------------------------------------------------------------------
// data-mutation: every byte / base64 character of every data-message class
// ---------------------------------------------------------------------------

type dataClass struct {
	name string
	// build returns the pair, the receiver, the undelivered wire message and
	// the judge for the delivery of the unmodified message.
	build func(m *mon.M, r *rand.Rand) (b *bus, to *side, wire [][]byte, accept func(res []rcv) (bool, string))
}

func encryptedPair(m *mon.M, r *rand.Rand) *bus {
	b := newBus(m, r, 0, 1, 0, 0)
	b.handshake("query-to-b")
	if !b.dead && (!b.a.c.IsEncrypted() || !b.b.c.IsEncrypted()) {
		m.Violation("ake-not-encrypted:query-to-b", b.witness(nil))
		b.dead = true
	}
	return b
}

func takeInbox(s *side) [][]byte {
	w := s.inbox
	s.inbox = nil
	return w
}

func acceptChange(want otr.SecurityChange, wantReply bool) func(res []rcv) (bool, string) {
	return func(res []rcv) (bool, string) {
		last := res[len(res)-1]
		if last.panicked || last.err != nil || !last.encrypted || len(last.out) != 0 || last.change != want || (last.nSend > 0) != wantReply {
			return false, fmt.Sprintf("got out=%s enc=%v change=%s send=%d err=%v, want change=%s reply=%v", short(last.out), last.encrypted, changeName(last.change), last.nSend, last.err, changeName(want), wantReply)
		}
		return true, ""
	}
}

func smpUpTo(m *mon.M, r *rand.Rand, step int) (*bus, *side, [][]byte, func([]rcv) (bool, string)) {
	b := encryptedPair(m, r)
	if b.dead {
		return b, nil, nil, nil
	}
	sec := []byte("shared")
	b.authenticate(b.a, "q?", sec) // SMP1 -> B.inbox
	if step == 1 {
		return b, b.b, takeInbox(b.b), acceptChange(otr.SMPSecretNeeded, false)
	}
	b.pump()
	b.authenticate(b.b, "", sec) // SMP2 -> A.inbox
	if step == 2 {
		return b, b.a, takeInbox(b.a), acceptChange(otr.NoChange, true)
	}
	b.deliverAll(b.a, takeInbox(b.a)) // A: SMP3 -> B.inbox
	if step == 3 {
		return b, b.b, takeInbox(b.b), acceptChange(otr.SMPComplete, true)
	}
	b.deliverAll(b.b, takeInbox(b.b)) // B: SMP4 -> A.inbox
	return b, b.a, takeInbox(b.a), acceptChange(otr.SMPComplete, false)
}

var dataClasses = []dataClass{
	{"text", func(m *mon.M, r *rand.Rand) (*bus, *side, [][]byte, func([]rcv) (bool, string)) {
		b := encryptedPair(m, r)
		if b.dead {
			return b, nil, nil, nil
		}
		msg := []byte("the quick brown fox")
		w, _ := b.send(b.a, msg)
		return b, b.b, w, func(res []rcv) (bool, string) { return expectDelivered(res, msg) }
	}},
	{"text-with-revealed-mac-keys", func(m *mon.M, r *rand.Rand) (*bus, *side, [][]byte, func([]rcv) (bool, string)) {
		b := encryptedPair(m, r)
		if b.dead {
			return b, nil, nil, nil
		}
		msg := []byte("message carrying old MAC keys")
		for round := 0; round < 8 && !b.dead; round++ {
			w, _ := b.send(b.a, msg)
			if bin, ok := decodeWire(joinFragments(w)); ok {
				if rs, ok := dataRegions(bin); ok && rs[len(rs)-1].to-rs[len(rs)-1].from > 0 {
					return b, b.b, w, func(res []rcv) (bool, string) { return expectDelivered(res, msg) }
				}
			}
			b.deliverAll(b.b, w)
			w2, _ := b.send(b.b, []byte("pong"))
			b.deliverAll(b.a, w2)
		}
		if !b.dead {
			m.Inconclusive("data-mutation: no message with revealed MAC keys after 8 round trips")
			b.dead = true
		}
		return b, nil, nil, nil
	}},
	{"smp1", func(m *mon.M, r *rand.Rand) (*bus, *side, [][]byte, func([]rcv) (bool, string)) { return smpUpTo(m, r, 1) }},
	{"smp2", func(m *mon.M, r *rand.Rand) (*bus, *side, [][]byte, func([]rcv) (bool, string)) { return smpUpTo(m, r, 2) }},
	{"smp3", func(m *mon.M, r *rand.Rand) (*bus, *side, [][]byte, func([]rcv) (bool, string)) { return smpUpTo(m, r, 3) }},
	{"smp4", func(m *mon.M, r *rand.Rand) (*bus, *side, [][]byte, func([]rcv) (bool, string)) { return smpUpTo(m, r, 4) }},
	{"disconnect", func(m *mon.M, r *rand.Rand) (*bus, *side, [][]byte, func([]rcv) (bool, string)) {
		b := encryptedPair(m, r)
		if b.dead {
			return b, nil, nil, nil
		}
		w := b.end(b.a)
		return b, b.b, w, acceptChange(otr.ConversationEnded, false)
	}},
}

const b64chars = "ABCDEFGHIJKLMNOPQRSTUVWXYZabcdefghijklmnopqrstuvwxyz0123456789+/"

// rejected judges the delivery of a mutant of a data message.
//   strict: the mutant differs inside the authenticated part (or the MAC):
//           no plaintext, no signal, no reply.
func mutantRejected(res []rcv) (bool, string) { return nothingDelivered(res) }

func c47DataMutation(m *mon.M, ci int64, r *rand.Rand) {
	dc := dataClasses[int(ci)%len(dataClasses)]
	seed := r.Uint64()
	fresh := func() (*bus, *side, [][]byte, func([]rcv) (bool, string)) {
		return dc.build(m, rand.New(rand.NewPCG(seed, 47)))
	}
	b, to, wire, accept := fresh()
	if b.dead || to == nil {
		return
	}
	whole := joinFragments(wire)
	bin, ok := decodeWire(whole)
	if !ok {
		m.Violation("send-output-not-decodable", b.witness(map[string]any{"class": dc.name}))
		return
	}
	rs, ok := dataRegions(bin)
	if !ok {
		m.Violation("send-output-not-a-data-message", b.witness(map[string]any{"class": dc.name, "wire_hex": mon.FullHex(bin)}))
		return
	}
	viol := func(bb *bus, key string, extra map[string]any) {
		extra["class"] = dc.name
		extra["original_hex"] = mon.FullHex(bin)
		m.Violation(key, bb.witness(extra))
	}
	var unauth []int // positions in the unauthenticated revealed-MAC-keys field: each needs a fresh pair
	// --- every byte of the binary form ---
	for pos := 0; pos < len(bin) && !b.dead; pos++ {
		reg := regionOf(rs, pos)
		if reg == "oldmacs" {
			unauth = append(unauth, pos)
			continue
		}
		mut := append([]byte(nil), bin...)
		mut[pos] ^= byte(1 + r.IntN(255))
		res := b.deliverAll(to, [][]byte{encodeWire(mut)})
		if b.dead {
			return
		}
		m.Count("data_mutants_delivered", 1)
		m.Count("data_mutant_region:"+reg, 1)
		m.Distinct("data-mutation|" + dc.name + "|" + reg)
		if reg == "version" || reg == "type" {
			// no longer a v2 data message: nothing may be delivered as authentic
			for _, x := range res {
				if x.encrypted && x.err == nil && x.out != nil || x.change != otr.NoChange {
					viol(b, "mutated-data-message-accepted:"+reg, map[string]any{"pos": pos, "mutant_hex": mon.FullHex(mut)})
					return
				}
			}
			continue
		}
		if ok, why := mutantRejected(res); !ok {
			viol(b, "mutated-data-message-accepted:"+reg, map[string]any{"pos": pos, "why": why, "mutant_hex": mon.FullHex(mut)})
			return
		}
		m.Count("data_mutants_rejected", 1)
	}
	// --- every character of the base64 text (and the terminating '.') ---
	body := whole[5 : len(whole)-1]
	for pos := 0; pos <= len(body) && !b.dead; pos++ {
		mt := append([]byte(nil), whole...)
		kind := "b64-char"
		if pos == len(body) {
			mt[5+pos] = mon.Pick(r, []byte{',', ' ', 'A', '='})
			kind = "terminator"
		} else {
			c := b64chars[r.IntN(64)]
			for c == body[pos] {
				c = b64chars[r.IntN(64)]
			}
			if r.IntN(8) == 0 {
				c = mon.Pick(r, []byte{'!', ' ', '=', '.', '\n', 0})
				kind = "b64-invalid-char"
			}
			mt[5+pos] = c
		}
		// what does the mutant decode to?
		strict := true
		if dec, err := base64.StdEncoding.DecodeString(string(mt[5 : len(mt)-1])); err == nil && mt[len(mt)-1] == '.' {
			if bytes.Equal(dec, bin) {
				m.Count("b64_mutants_decoding_to_same_bytes", 1) // non-canonical padding bits: the same message, not delivered
				continue
			}
			if len(dec) == len(bin) {
				all := true
				for k := range dec {
					if dec[k] != bin[k] && regionOf(rs, k) != "oldmacs" {
						all = false
					}
				}
				if all {
					strict = false
				}
			}
		}
		if !strict {
			continue // only unauthenticated bytes differ: covered by the byte loop with fresh pairs
		}
		res := b.deliverAll(to, [][]byte{mt})
		if b.dead {
			return
		}
		m.Count("b64_mutants_delivered", 1)
		m.Distinct("data-mutation|" + dc.name + "|" + kind)
		for _, x := range res {
			if x.encrypted && x.err == nil && x.out != nil || x.change != otr.NoChange || x.nSend != 0 || (x.encrypted && len(x.out) != 0) {
				viol(b, "mutated-data-message-accepted:base64-text", map[string]any{"pos": pos, "mutant": string(mt)})
				return
			}
		}
		m.Count("b64_mutants_rejected", 1)
	}
	if b.dead {
		return
	}
	// --- the original must still be accepted with its proper effect ---
	res := b.deliverAll(to, wire)
	if b.dead {
		return
	}
	if ok, why := accept(res); !ok {
		viol(b, "original-rejected-after-mutants", map[string]any{"why": why})
		return
	}
	m.Count("original_accepted_after_all_mutants", 1)
	// --- unauthenticated field: fresh pair per position ---
	for _, pos := range unauth {
		b2, to2, wire2, accept2 := fresh()
		if b2.dead || to2 == nil {
			return
		}
		bin2, ok := decodeWire(joinFragments(wire2))
		if !ok || len(bin2) != len(bin) {
			m.Count("unauth_field_rebuild_differs", 1)
			continue
		}
		mut := append([]byte(nil), bin2...)
		mut[pos] ^= byte(1 + r.IntN(255))
		res := b2.deliverAll(to2, [][]byte{encodeWire(mut)})
		if b2.dead {
			return
		}
		m.Count("data_mutant_region:oldmacs", 1)
		if ok, _ := mutantRejected(res); ok {
			m.Count("unauth_field_mutants_rejected", 1)
			continue
		}
		if ok, why := accept2(res); !ok {
			viol(b2, "mutated-data-message-changes-plaintext:oldmacs", map[string]any{"pos": pos, "why": why})
			return
		}
		m.Count("unauth_field_mutants_accepted_unchanged", 1)
		m.Distinct("data-mutation|" + dc.name + "|oldmacs")
	}
}

// ---------------------------------------------------------------------------
// ake-mutation
// ---------------------------------------------------------------------------

var akeSteps = []string{"dh-commit", "dh-key", "reveal-sig", "sig"}

func c47AKEMutation(m *mon.M, i int64, r *rand.Rand) {
	step := int(i) % len(akeSteps)
	b := newBus(m, r, 0, 1, 0, 0)
	// drive the AKE until the message of this step is in flight
	b.recv(b.b, []byte(otr.QueryMessage)) // commit -> A
	target := b.a
	for k := 0; k < step && !b.dead; k++ {
		w := takeInbox(target)
		b.deliverAll(target, w)
		target = b.peer(target)
	}
	if b.dead {
		return
	}
	wire := takeInbox(target)
	if len(wire) != 1 {
		m.Violation("ake-step-missing:"+akeSteps[step], b.witness(nil))
		return
	}
	bin, ok := decodeWire(wire[0])
	if !ok {
		m.Violation("ake-message-not-decodable:"+akeSteps[step], b.witness(nil))
		return
	}
	// position sweep: consecutive cases of the same step walk over the message
	var mut []byte
	kind := "byte"
	if (i/int64(len(akeSteps)))%3 == 2 {
		kind = "b64"
		pos := int(i/int64(len(akeSteps))/3*7) % (len(wire[0]) - 6)
		mut = append([]byte(nil), wire[0]...)
		c := b64chars[r.IntN(64)]
		for c == mut[5+pos] {
			c = b64chars[r.IntN(64)]
		}
		mut[5+pos] = c
	} else {
		pos := int(i/int64(len(akeSteps))*5) % len(bin)
		mb := append([]byte(nil), bin...)
		switch r.IntN(4) {
		case 0:
			mb[pos] = 0
		case 1:
			mb[pos] = 0xff
		default:
			mb[pos] ^= byte(1 + r.IntN(255))
		}
		if r.IntN(10) == 0 {
			mb = mb[:pos] // truncation at this position
			kind = "truncate"
		}
		mut = encodeWire(mb)
	}
	ma, mb := b.a.mark(), b.b.mark()
	res := b.recv(target, mut)
	if b.dead {
		return
	}
	m.Count("ake_mutants_delivered", 1)
	m.Count("ake_mutants:"+akeSteps[step], 1)
	outcome := "ignored"
	if res.err != nil {
		outcome = "error"
	} else if res.nSend > 0 || res.change != otr.NoChange {
		outcome = "processed"
	}
	// the genuine message follows (retransmission), then everything queued
	b.recv(target, wire[0])
	b.pump()
	if b.dead {
		return
	}
	_ = ma
	_ = mb
	both := b.a.c.IsEncrypted() && b.b.c.IsEncrypted()
	if both {
		m.Count("ake_completed_despite_mutant", 1)
		if b.a.c.SSID != b.b.c.SSID || b.a.c.TheirPublicKey.Y.Cmp(b.b.key.PublicKey.Y) != 0 || b.b.c.TheirPublicKey.Y.Cmp(b.a.key.PublicKey.Y) != 0 {
			m.Count("ake_inconsistent_after_mutant", 1)
		}
	}
	m.Distinct(fmt.Sprintf("ake-mutation|%s|%s|%s|completed=%v", akeSteps[step], kind, outcome, both))
}

// ---------------------------------------------------------------------------
// smp-chaos
// ---------------------------------------------------------------------------

func c47SMPChaos(m *mon.M, i int64, r *rand.Rand) {
	b := newBus(m, r, r.IntN(3), r.IntN(3), mon.Pick(r, []int{0, 0, 100, 1000}), mon.Pick(r, []int{0, 0, 100, 1000}))
	b.handshake(mon.Pick(r, []string{"query-to-b", "simultaneous"}))
	if b.dead || !b.a.c.IsEncrypted() || !b.b.c.IsEncrypted() {
		return
	}
	equal := r.IntN(2) == 0
	sa := []byte("chaos-secret")
	sb := sa
	if !equal {
		sb = []byte("chaos-secreT")
	}
	secret := map[*side][]byte{b.a: sa, b.b: sb}
	n := 3 + r.IntN(8)
	var acts []string
	for k := 0; k < n && !b.dead; k++ {
		x := b.a
		if r.IntN(2) == 0 {
			x = b.b
		}
		switch r.IntN(6) {
		case 0, 1: // start or answer
			q := ""
			if r.IntN(3) == 0 {
				q = "q"
			}
			b.authenticate(x, q, secret[x])
			acts = append(acts, x.name+":auth")
		case 2: // deliver one queued message
			if len(x.inbox) > 0 {
				w := x.inbox[0]
				x.inbox = x.inbox[1:]
				b.recv(x, w)
				acts = append(acts, x.name+":recv1")
			}
		case 3: // deliver everything
			b.pump()
			acts = append(acts, "pump")
		case 4: // lose one queued message
			if len(x.inbox) > 0 {
				x.inbox = x.inbox[1:]
				acts = append(acts, x.name+":lose1")
			}
		default: // ordinary traffic in between
			w, err := b.send(x, []byte("chat"))
			if err == nil {
				b.peer(x).inbox = append(b.peer(x).inbox, w...)
			}
			acts = append(acts, x.name+":send")
		}
	}
	b.pump()
	if b.dead {
		return
	}
	complete := 0
	for _, s := range []*side{b.a, b.b} {
		complete += countChange(s.changesSince(0), otr.SMPComplete)
	}
	m.Count("smp_chaos_cases", 1)
	if complete > 0 {
		m.Count("smp_chaos_completed", 1)
		if !equal {
			m.Violation("smp-complete-on-unequal-secrets", b.witness(map[string]any{"actions": acts}))
			return
		}
	}
	m.Distinct(fmt.Sprintf("smp-chaos|equal=%v|complete=%v|n=%d", equal, complete > 0, len(acts)))
}

// ---------------------------------------------------------------------------
// hostile inputs
// ---------------------------------------------------------------------------

func u32b(v int) []byte { return []byte{byte(v >> 24), byte(v >> 16), byte(v >> 8), byte(v)} }
func otrData(b []byte) []byte { return append(u32b(len(b)), b...) }

var otrP, _ = new(big.Int).SetString("FFFFFFFFFFFFFFFFC90FDAA22168C234C4C6628B80DC1CD129024E088A67CC74020BBEA63B139B22514A08798E3404DDEF9519B3CD3A431B302B0A6DF25F14374FE1356D6D51C245E485B576625E7EC6F44C42E9A637ED6B0BFF5CB6F406B7EDEE386BFB5A899FA5AE9F24117C4B1FE649286651ECE45B3DC2007CB8A163BF0598DA48361C55D39A69163FA8FD24CF5F83655D23DCA3AD961C62F356208552BB9ED529077096966D670C354E4ABC9804F1746C08CA237327FFFFFFFFFFFFFFFF", 16)

type hostileMsg struct {
	name string
	gen  func(r *rand.Rand) []byte
}

func framed(typ byte, body []byte) []byte { return encodeWire(append([]byte{0, 2, typ}, body...)) }

// the alphabet of canonical hostile inputs (well-framed per the OTRv2 wire
// format, with hostile field contents)
var hostileAlphabet = []hostileMsg{
	{"query", func(r *rand.Rand) []byte { return []byte("?OTRv2?") }},
	{"commit-wellformed", func(r *rand.Rand) []byte {
		return framed(2, append(otrData(mon.Bytes(r, 196)), otrData(mon.Bytes(r, 32))...))
	}},
	{"commit-truncated", func(r *rand.Rand) []byte { return framed(2, otrData(mon.Bytes(r, 196))[:100]) }},
	{"commit-odd-lengths", func(r *rand.Rand) []byte {
		return framed(2, append(otrData(mon.Bytes(r, r.IntN(4))), otrData(mon.Bytes(r, r.IntN(70)))...))
	}},
	{"key-valid", func(r *rand.Rand) []byte {
		v := mon.Bytes(r, 190)
		v[0] |= 1
		return framed(10, otrData(v))
	}},
	{"key-out-of-range", func(r *rand.Rand) []byte {
		v := mon.Pick(r, [][]byte{{}, {0}, {1}, otrP.Bytes(), new(big.Int).Sub(otrP, big.NewInt(1)).Bytes(), bytes.Repeat([]byte{0xff}, 300)})
		return framed(10, otrData(v))
	}},
	{"key-truncated", func(r *rand.Rand) []byte { return framed(10, u32b(500)) }},
	{"revealsig-wellformed", func(r *rand.Rand) []byte {
		return framed(17, append(append(otrData(mon.Bytes(r, 16)), otrData(mon.Bytes(r, 400))...), mon.Bytes(r, 20)...))
	}},
	{"revealsig-bad-key-length", func(r *rand.Rand) []byte {
		return framed(17, append(append(otrData(mon.Bytes(r, mon.Pick(r, []int{0, 5, 15, 17, 24, 32}))), otrData(mon.Bytes(r, 50))...), mon.Bytes(r, 20)...))
	}},
	{"revealsig-truncated", func(r *rand.Rand) []byte { return framed(17, otrData(mon.Bytes(r, 16))) }},
	{"sig-wellformed", func(r *rand.Rand) []byte {
		return framed(18, append(otrData(mon.Bytes(r, 400)), mon.Bytes(r, 20)...))
	}},
	{"sig-truncated", func(r *rand.Rand) []byte { return framed(18, mon.Bytes(r, r.IntN(8))) }},
	{"data-wellformed", func(r *rand.Rand) []byte {
		body := []byte{byte(r.IntN(2))}
		body = append(body, u32b(mon.Pick(r, []int{0, 1, 2, 3}))...)
		body = append(body, u32b(mon.Pick(r, []int{0, 1, 2, 3}))...)
		body = append(body, otrData(mon.Bytes(r, 192))...)
		body = append(body, mon.Bytes(r, 8)...)
		body = append(body, otrData(mon.Bytes(r, 50))...)
		body = append(body, mon.Bytes(r, 20)...)
		body = append(body, otrData(mon.Bytes(r, mon.Pick(r, []int{0, 20, 40})))...)
		return framed(3, body)
	}},
	{"data-truncated", func(r *rand.Rand) []byte { return framed(3, mon.Bytes(r, r.IntN(30))) }},
	{"data-huge-lengths", func(r *rand.Rand) []byte {
		body := append([]byte{0}, u32b(1)...)
		body = append(body, u32b(1)...)
		body = append(body, 0xff, 0xff, 0xff, 0xff)
		return framed(3, append(body, mon.Bytes(r, 40)...))
	}},
	{"unknown-type-or-version", func(r *rand.Rand) []byte {
		return encodeWire(append([]byte{byte(r.IntN(2)), byte(r.IntN(4)), mon.Pick(r, []byte{0, 1, 4, 9, 11, 16, 19, 255})}, mon.Bytes(r, 30)...))
	}},
	{"short-or-empty", func(r *rand.Rand) []byte {
		return []byte(mon.Pick(r, []string{"?OTR:.", "?OTR:", "?OTR:AA==.", "?OTR:AAI=.", "?OTR:AAID.", "?OTR:!!!!.", "?OTR:AAIC", "?OTR", "?OTR?", "?OTRv", "?OTRv2", "?OTRv?", "?OTR?v2?", "?OTRv23?", "?OTRv 2?", "?OTR Error: boom", ""}))
	}},
	{"fragment-bad-header", func(r *rand.Rand) []byte {
		return []byte(mon.Pick(r, []string{"?OTR,", "?OTR,,", "?OTR,1,", "?OTR,1,1,", "?OTR,1,1,,", "?OTR,2,1,x,", "?OTR,0,1,x,", "?OTR,1,0,x,", "?OTR,-1,2,x,", "?OTR,1,99999999999999999999,x,", "?OTR,9223372036854775807,9223372036854775807,x,", "?OTR,1,2,x,y,", "?OTR,a,b,x,", "?OTR,1,2,x", "?OTR, 1,2,x,", "?OTR,65535,65535,x,"}))
	}},
	{"fragment-sequence-part", func(r *rand.Rand) []byte {
		k, n := 1+r.IntN(3), 1+r.IntN(3)
		return []byte(fmt.Sprintf("?OTR,%d,%d,%s,", k, n, mon.Pick(r, []string{"?OTR:AAIC", "AAAA", "", ".", "?OTR:AAIKAAAAAQI=."})))
	}},
	{"random", func(r *rand.Rand) []byte {
		p := mon.Pick(r, []string{"?OTR:", "?OTR,", "?OTR", ""})
		return append([]byte(p), mon.Bytes(r, r.IntN(60))...)
	}},
}

var hostileStates = []string{"fresh", "awaiting-dhkey", "awaiting-revealsig", "awaiting-sig", "encrypted", "encrypted-smp-pending", "finished"}

// hostileTarget builds a conversation in the requested state and returns the
// side the hostile inputs are fed to.
func hostileTarget(m *mon.M, r *rand.Rand, state string) (*bus, *side) {
	b := newBus(m, r, r.IntN(3), r.IntN(3), mon.Pick(r, []int{0, 0, 0, 40}), mon.Pick(r, []int{0, 0, 0, 40}))
	switch state {
	case "fresh":
		return b, b.a
	case "awaiting-dhkey":
		b.recv(b.a, []byte(otr.QueryMessage))
		b.b.inbox = nil
		return b, b.a
	case "awaiting-revealsig":
		b.recv(b.b, []byte(otr.QueryMessage))
		b.deliverAll(b.a, takeInbox(b.a))
		b.b.inbox = nil
		return b, b.a
	case "awaiting-sig":
		b.recv(b.a, []byte(otr.QueryMessage))
		b.deliverAll(b.b, takeInbox(b.b))
		b.deliverAll(b.a, takeInbox(b.a))
		b.b.inbox = nil
		return b, b.a
	}
	b.handshake("query-to-b")
	if b.dead || !b.a.c.IsEncrypted() {
		return b, b.a
	}
	switch state {
	case "encrypted-smp-pending":
		b.authenticate(b.b, "q", []byte("s"))
		b.pump()
	case "finished":
		b.deliverAll(b.a, b.end(b.b))
	}
	return b, b.a
}

func c47HostileRun(m *mon.M, b *bus, t *side, state string, names []string, inputs [][]byte) {
	for k, in := range inputs {
		res := b.recv(t, in)
		if b.dead {
			return
		}
		m.Count("hostile_inputs_delivered", 1)
		if res.encrypted && len(res.out) != 0 {
			m.Violation("hostile-input-delivered-as-encrypted-plaintext", b.witness(map[string]any{"state": state, "inputs": names, "index": k, "input_hex": mon.FullHex(in)}))
			return
		}
		if res.change == otr.SMPComplete {
			m.Violation("hostile-input-completes-smp", b.witness(map[string]any{"state": state, "inputs": names, "index": k}))
			return
		}
		if res.change == otr.NewKeys {
			m.Count("hostile_inputs_establishing_keys", 1)
		}
		b.b.inbox = nil // replies go nowhere
	}
}

// directed: every ordered pair of the alphabet in every state
func c47HostilePairs(m *mon.M, i int64, r *rand.Rand) {
	n := len(hostileAlphabet)
	state := hostileStates[int(i)%len(hostileStates)]
	k := int(i) / len(hostileStates)
	x, y := hostileAlphabet[k%n], hostileAlphabet[(k/n)%n]
	b, t := hostileTarget(m, r, state)
	if b.dead {
		return
	}
	c47HostileRun(m, b, t, state, []string{x.name, y.name}, [][]byte{x.gen(r), y.gen(r)})
	m.Count("hostile_pair_cases", 1)
	m.Distinct("hostile-pair|" + state + "|" + x.name + "|" + y.name)
}

func c47HostileRandom(m *mon.M, i int64, r *rand.Rand) {
	state := mon.Pick(r, hostileStates)
	b, t := hostileTarget(m, r, state)
	if b.dead {
		return
	}
	var names []string
	var ins [][]byte
	for k := 1 + r.IntN(8); k > 0; k-- {
		h := mon.Pick(r, hostileAlphabet)
		in := h.gen(r)
		name := h.name
		switch r.IntN(6) {
		case 0: // fragment it by hand with consistent or inconsistent headers
			pieces := 1 + r.IntN(4)
			for p := 0; p < pieces; p++ {
				lo, hi := len(in)*p/pieces, len(in)*(p+1)/pieces
				kk, nn := p+1, pieces
				if r.IntN(6) == 0 {
					kk, nn = r.IntN(5), r.IntN(5)
				}
				ins = append(ins, []byte(fmt.Sprintf("?OTR,%d,%d,%s,", kk, nn, in[lo:hi])))
				names = append(names, name+"/frag")
			}
			continue
		case 1: // byte noise on the text
			if len(in) > 0 {
				in = append([]byte(nil), in...)
				in[r.IntN(len(in))] ^= byte(1 + r.IntN(255))
				name += "/noise"
			}
		case 2: // noise below base64
			if bin, ok := decodeWire(in); ok && len(bin) > 0 {
				bin[r.IntN(len(bin))] ^= byte(1 + r.IntN(255))
				if r.IntN(3) == 0 {
					bin = bin[:r.IntN(len(bin))]
				}
				in = encodeWire(bin)
				name += "/bin-noise"
			}
		}
		ins = append(ins, in)
		names = append(names, name)
	}
	c47HostileRun(m, b, t, state, names, ins)
	m.Count("hostile_random_cases", 1)
	m.Distinct("hostile-random|" + state + "|" + strings.Join(names[:min(2, len(names))], ","))
}

// ---------------------------------------------------------------------------
// messages with an embedded NUL; FragmentSize 18
// ---------------------------------------------------------------------------

func c47NUL(m *mon.M, i int64, r *rand.Rand) {
	b := encryptedPair(m, r)
	if b.dead {
		return
	}
	msgs := [][]byte{[]byte("abc\x00def"), []byte("\x00"), []byte("trailing\x00"), []byte("two\x00\x00nuls"), append([]byte("tlv-like\x00"), 0, 6, 0, 0)}
	msg := msgs[int(i)%len(msgs)]
	w, err := b.send(b.a, msg)
	if b.dead || err != nil {
		return
	}
	res := b.deliverAll(b.b, w)
	if b.dead {
		return
	}
	m.Count("nul_messages", 1)
	m.Distinct(fmt.Sprintf("nul|%d", int(i)%len(msgs)))
	if ok, why := expectDelivered(res, msg); !ok {
		m.Violation("data-message-with-embedded-nul-not-received-unchanged", b.witness(map[string]any{"message_hex": mon.FullHex(msg), "why": why}))
	}
}

func c47Frag18(m *mon.M, i int64, r *rand.Rand) {
	unfragmented := func(b *bus, wire [][]byte, what string) bool {
		for _, w := range wire {
			if !bytes.HasPrefix(w, []byte("?OTR:")) {
				m.Violation("fragment-size-18-output-malformed", b.witness(map[string]any{"call": what, "wire": short(w)}))
				return false
			}
		}
		return true
	}
	m.Count("frag18_cases", 1)
	m.Distinct(fmt.Sprintf("frag18|%d", i))
	if i == 0 { // whole conversation configured with FragmentSize 18 from the start
		b := newBus(m, r, 0, 1, 18, 18)
		b.handshake("query-to-a")
		if b.dead {
			return
		}
		if !b.a.c.IsEncrypted() || !b.b.c.IsEncrypted() {
			m.Violation("ake-not-encrypted:fragment-size-18", b.witness(nil))
			return
		}
		for _, x := range []*side{b.a, b.b} {
			msg := []byte("with fragment size 18 from " + x.name)
			w, err := b.send(x, msg)
			if b.dead || err != nil || !unfragmented(b, w, "Send") {
				return
			}
			if ok, why := expectDelivered(b.deliverAll(b.peer(x), w), msg); !ok && !b.dead {
				m.Violation("data-message-not-received-unchanged:fragment-size-18", b.witness(map[string]any{"why": why}))
				return
			}
		}
		return
	}
	b := encryptedPair(m, r)
	if b.dead {
		return
	}
	b.a.c.FragmentSize = 18
	switch i {
	case 1:
		msg := []byte("hello")
		w, err := b.send(b.a, msg)
		if b.dead || err != nil || !unfragmented(b, w, "Send") {
			return
		}
		if ok, why := expectDelivered(b.deliverAll(b.b, w), msg); !ok && !b.dead {
			m.Violation("data-message-not-received-unchanged:fragment-size-18", b.witness(map[string]any{"why": why}))
		}
	case 2:
		w, err := b.authenticate(b.a, "", []byte("s"))
		if b.dead || err != nil {
			return
		}
		unfragmented(b, w, "Authenticate")
	case 3:
		w := b.end(b.a)
		if b.dead {
			return
		}
		unfragmented(b, w, "End")
	}
}

// ---------------------------------------------------------------------------
// smp-hostile-tlv: correctly MACed data messages carrying hostile SMP TLVs
// (hook otr.VerifSendTLV), against an honest side in every SMP state
// ---------------------------------------------------------------------------

var smpHonestStates = []string{"idle", "secret-pending", "expect-smp2", "expect-smp3", "expect-smp4"}

func otrMPI(v []byte) []byte { return append(u32b(len(v)), v...) }

// hostileSMPData builds TLV payloads: [question NUL] count MPIs…
func hostileSMPData(r *rand.Rand) ([]byte, string) {
	var out []byte
	name := ""
	if r.IntN(4) == 0 {
		out = append(out, mon.Pick(r, []string{"q\x00", "\x00", "no terminator", strings.Repeat("Q", 300) + "\x00"})...)
		name = "q+"
	}
	shape := r.IntN(8)
	cnt := mon.Pick(r, []int{0, 1, 3, 6, 8, 11, 20, 21, 1000})
	switch shape {
	case 0:
		return out, name + "empty"
	case 1:
		return append(out, 0, 0), name + "short-count"
	case 2:
		out = append(out, 0xff, 0xff, 0xff, 0xff)
		return out, name + "count=2^32-1"
	}
	out = append(out, u32b(cnt)...)
	vals := [][]byte{{}, {0}, {1}, {2}, otrP.Bytes(), new(big.Int).Sub(otrP, big.NewInt(1)).Bytes(), new(big.Int).Sub(otrP, big.NewInt(2)).Bytes(), bytes.Repeat([]byte{0xff}, 400)}
	n := cnt
	if shape == 3 && n > 0 {
		n-- // one MPI short
		name += "one-short:"
	}
	if n > 25 {
		n = 25
	}
	for k := 0; k < n; k++ {
		switch r.IntN(3) {
		case 0:
			out = append(out, otrMPI(mon.Pick(r, vals))...)
		default:
			out = append(out, otrMPI(mon.Bytes(r, 1+r.IntN(200)))...)
		}
	}
	if shape == 4 {
		out = append(out, 0xff, 0xff, 0xff, 0xf0) // MPI length beyond the data
		name += "mpi-overlong:"
	}
	if shape == 5 {
		out = append(out, mon.Bytes(r, 1+r.IntN(5))...) // trailing garbage
		name += "trailing:"
	}
	return out, fmt.Sprintf("%scount=%d", name, cnt)
}

func c47SMPHostileTLV(m *mon.M, i int64, r *rand.Rand) {
	state := smpHonestStates[int(i)%len(smpHonestStates)]
	b := encryptedPair(m, r)
	if b.dead {
		return
	}
	h, mal := b.a, b.b // honest side, malicious side (a real conversation: it owns the session keys)
	sec := []byte("secret")
	switch state {
	case "secret-pending":
		b.authenticate(mal, "q", sec)
		b.pump()
	case "expect-smp2":
		b.authenticate(h, "", sec)
		takeInbox(mal)
	case "expect-smp3":
		b.authenticate(mal, "", sec)
		b.pump()
		b.authenticate(h, "", sec)
		takeInbox(mal)
	case "expect-smp4":
		b.authenticate(h, "", sec)
		b.pump()
		b.authenticate(mal, "", []byte("other"))
		b.deliverAll(h, takeInbox(h)) // h: SMP2 -> sends SMP3, now expects SMP4
		takeInbox(mal)
	}
	if b.dead {
		return
	}
	mk := h.mark()
	var names []string
	for k := 1 + r.IntN(3); k > 0 && !b.dead; k-- {
		typ := mon.Pick(r, []uint16{2, 3, 4, 5, 6, 7, 2, 3, 4, 5, 7, 0, 1, 8, 0xffff})
		data, name := hostileSMPData(r)
		if len(data) > 60000 {
			data = data[:60000]
		}
		var wire [][]byte
		pv, stack := mon.Panics(func() { wire = otr.VerifSendTLV(mal.c, typ, data) })
		if pv != nil {
			b.apiPanic("VerifSendTLV", pv, stack, nil) // harness-side hook: not expected
			return
		}
		names = append(names, fmt.Sprintf("tlv%d:%s", typ, name))
		b.tr("hostile TLV type %d (%s, %d bytes)", typ, name, len(data))
		res := b.deliverAll(h, wire)
		if b.dead {
			return
		}
		m.Count("hostile_tlvs_delivered", 1)
		for _, x := range res {
			if len(x.out) != 0 {
				m.Violation("hostile-tlv-delivers-plaintext", b.witness(map[string]any{"state": state, "tlvs": names}))
				return
			}
		}
		if typ == 1 {
			break // disconnect: conversation over
		}
		takeInbox(mal)
	}
	if countChange(h.changesSince(mk), otr.SMPComplete) > 0 {
		m.Violation("hostile-tlv-completes-smp", b.witness(map[string]any{"state": state, "tlvs": names}))
		return
	}
	m.Distinct("smp-hostile-tlv|" + state + "|" + strings.Join(names, ","))
}

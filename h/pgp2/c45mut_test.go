package pgp2

// Packet-aware structured mutation for C45 (workload generation). Every
// operator has a short stable name used for the evidence classes.

import (
	"bytes"
	"compress/bzip2"
	"compress/flate"
	"compress/zlib"
	"encoding/base64"
	"fmt"
	"io"
	"math/rand/v2"
	"strings"

	"golang.org/x/crypto/openpgp/packet"
	"verif/mon"
)

var interestingTags = []byte{0, 1, 2, 3, 4, 5, 6, 7, 8, 9, 10, 11, 12, 13, 14, 17, 18, 19, 20, 60, 63}
var hashIDs = []byte{0, 1, 2, 3, 8, 9, 10, 11, 12, 100, 255}
var pkAlgos = []byte{0, 1, 2, 3, 16, 17, 18, 19, 20, 21, 22, 100, 255}
var cipherIDs = []byte{0, 1, 2, 3, 4, 7, 8, 9, 10, 11, 12, 13, 100, 255}
var versions = []byte{0, 1, 2, 3, 4, 5, 6, 255}
var lenDeltas = []int{1, -1, 2, -2, 3, 8, -8, 255, 256, -256, 65536}

func cloneB(b []byte) []byte { return append([]byte(nil), b...) }

func clonePkts(ps []rawPkt) []rawPkt {
	out := make([]rawPkt, len(ps))
	for i, p := range ps {
		out[i] = p
		out[i].Body = cloneB(p.Body)
	}
	return out
}

// encodeSeq serialises packets; enc[i] (if present) overrides the bytes of packet i.
func encodeSeq(ps []rawPkt, over map[int][]byte) []byte {
	var out bytes.Buffer
	for i, p := range ps {
		if b, ok := over[i]; ok {
			out.Write(b)
			continue
		}
		if p.Indet {
			b, _ := encodePkt(p, hOldIndet, nil)
			out.Write(b)
			continue
		}
		if !p.NewFmt {
			b, _ := encodePkt(p, hOld1, nil)
			out.Write(b)
			continue
		}
		out.Write(encodeDefault(p))
	}
	return out.Bytes()
}

// lieHeader writes a new-format header announcing length l (5-octet or the
// shortest form) for body b regardless of len(b).
func lieHeader(tag byte, l int64, five bool) []byte {
	if l < 0 {
		l = 0
	}
	if five || l >= 8384 {
		return []byte{0xc0 | tag, 255, byte(l >> 24), byte(l >> 16), byte(l >> 8), byte(l)}
	}
	return append([]byte{0xc0 | tag}, newLen(int(l))...)
}

// mutatePackets applies one packet-level operator; returns bytes and op name.
func mutatePackets(cp *corpus, data []byte, r *rand.Rand, depth int) ([]byte, string) {
	ps, rest := splitPackets(data)
	if len(ps) == 0 {
		return byteNoise(data, r), "noise"
	}
	ps = clonePkts(ps)
	i := r.IntN(len(ps))
	p := &ps[i]
	over := map[int][]byte{}
	tail := func(b []byte) []byte { return append(b, rest...) }
	switch op := r.IntN(26); op {
	case 0: // header form flip (meaning-preserving except indeterminate/tiny partial)
		form := r.IntN(hForms)
		b, used := encodePkt(*p, form, r)
		over[i] = b
		return tail(encodeSeq(ps, over)), "hdr:" + hFormNames[used]
	case 1: // length lies
		d := mon.Pick(r, lenDeltas)
		l := int64(len(p.Body) + d)
		switch r.IntN(6) {
		case 0:
			l = 0
		case 1:
			l = 0xffffffff
		case 2:
			l = 0x7fffffff
		}
		over[i] = append(lieHeader(p.Tag, l, r.IntN(2) == 0), p.Body...)
		return tail(encodeSeq(ps, over)), "len-lie"
	case 2: // old-format length lies
		if p.Tag > 15 {
			p.Tag &= 15
		}
		lt := r.IntN(3)
		l := uint32(len(p.Body) + mon.Pick(r, lenDeltas))
		if r.IntN(4) == 0 {
			l = 0xffffffff
		}
		h := []byte{0x80 | p.Tag<<2 | byte(lt)}
		switch lt {
		case 0:
			h = append(h, byte(l))
		case 1:
			h = append(h, byte(l>>8), byte(l))
		default:
			h = append(h, byte(l>>24), byte(l>>16), byte(l>>8), byte(l))
		}
		over[i] = append(h, p.Body...)
		return tail(encodeSeq(ps, over)), "old-len-lie"
	case 3: // hostile partial chains
		out := []byte{0xc0 | p.Tag}
		b := p.Body
		kind := r.IntN(5)
		switch kind {
		case 0: // chain of 1-byte chunks, no final length at all
			for len(b) > 0 {
				out = append(out, 224, b[0])
				b = b[1:]
			}
			over[i] = out
			return tail(encodeSeq(ps, over)), "partial:no-final"
		case 1: // announces a partial chunk bigger than what follows
			out = append(out, 224+byte(1+r.IntN(30)))
			out = append(out, b...)
			over[i] = out
			return tail(encodeSeq(ps, over)), "partial:overlong-chunk"
		case 2: // first chunk of 1 byte (illegal < 512), then zero-length finals repeated
			if len(b) > 0 {
				out = append(out, 224, b[0])
				b = b[1:]
			}
			out = append(out, newLen(len(b))...)
			out = append(out, b...)
			over[i] = out
			return tail(encodeSeq(ps, over)), "partial:tiny-first"
		case 3: // partial chunks then a final length of zero
			for len(b) > 0 {
				pow := 0
				for (1<<(pow+1)) <= len(b) && pow < 12 {
					pow++
				}
				pow = r.IntN(pow + 1)
				out = append(out, 224+byte(pow))
				out = append(out, b[:1<<pow]...)
				b = b[1<<pow:]
			}
			out = append(out, 0)
			over[i] = out
			return tail(encodeSeq(ps, over)), "partial:zero-final"
		default: // partial then final with lying length
			if len(b) >= 2 {
				out = append(out, 225)
				out = append(out, b[:2]...)
				b = b[2:]
			}
			out = append(out, newLen(len(b)+mon.Pick(r, lenDeltas)&0xffff)...)
			out = append(out, b...)
			over[i] = out
			return tail(encodeSeq(ps, over)), "partial:lying-final"
		}
	case 4: // indeterminate length at this packet (swallows the rest)
		b, _ := encodePkt(rawPkt{Tag: p.Tag & 15, Body: p.Body}, hOldIndet, nil)
		over[i] = b
		return tail(encodeSeq(ps, over)), "indeterminate"
	case 5: // duplicate
		n := 1 + r.IntN(3)
		var out []rawPkt
		out = append(out, ps[:i+1]...)
		for k := 0; k < n; k++ {
			out = append(out, ps[i])
		}
		out = append(out, ps[i+1:]...)
		return tail(encodeSeq(out, nil)), "dup"
	case 6: // swap / reorder
		j := r.IntN(len(ps))
		ps[i], ps[j] = ps[j], ps[i]
		return tail(encodeSeq(ps, nil)), "swap"
	case 7: // drop
		out := append(append([]rawPkt{}, ps[:i]...), ps[i+1:]...)
		return tail(encodeSeq(out, nil)), "drop"
	case 8: // truncate at a packet boundary
		return encodeSeq(ps[:i], nil), "trunc-boundary"
	case 9: // truncate inside packet i at a random / first / last byte
		full := encodeSeq(ps[:i+1], nil)
		plen := len(full) - len(encodeSeq(ps[:i], nil))
		if plen < 1 {
			return full, "trunc-mid"
		}
		cut := len(full) - plen + r.IntN(plen)
		switch r.IntN(4) {
		case 0:
			cut = len(full) - plen + 1
		case 1:
			cut = len(full) - 1
		}
		return full[:cut], "trunc-mid"
	case 10: // concatenate / insert packets of another corpus item
		ot := cp.items[r.IntN(len(cp.items))]
		ops, _ := splitPackets(ot.Data)
		if len(ops) == 0 {
			return tail(append(encodeSeq(ps, nil), ot.Data...)), "concat-raw"
		}
		q := ops[r.IntN(len(ops))]
		out := append(append(append([]rawPkt{}, ps[:i]...), q), ps[i:]...)
		return tail(encodeSeq(out, nil)), "insert-foreign"
	case 11: // tag substitution
		p.Tag = mon.Pick(r, interestingTags)
		p.NewFmt = true
		return tail(encodeSeq(ps, nil)), fmt.Sprintf("tag-subst:%d", p.Tag)
	case 12: // version byte sweep
		if len(p.Body) > 0 {
			p.Body[0] = mon.Pick(r, versions)
		}
		return tail(encodeSeq(ps, nil)), "version"
	case 13: // byte noise in the body
		p.Body = byteNoise(p.Body, r)
		return tail(encodeSeq(ps, nil)), "body-noise"
	case 14: // empty body / one byte body
		p.Body = p.Body[:min(len(p.Body), r.IntN(3))]
		return tail(encodeSeq(ps, nil)), "body-empty"
	case 15: // nested compression around the whole sequence
		d := 1 + r.IntN(40)
		if r.IntN(3) == 0 {
			d = mon.Pick(r, []int{30, 31, 32, 33, 34})
		}
		b := encodeSeq(ps, nil)
		for k := 0; k < d; k++ {
			if k == 0 && r.IntN(2) == 0 {
				b = encodeDefault(compressPkt(byte(1+r.IntN(2)), b))
			} else {
				b = encodeDefault(storedPkt(byte(1+k%2), b))
			}
		}
		return b, "nest-compress:" + nestBucket(d)
	case 16: // compressed packet: mutate the inner packets
		if depth < 3 {
			for k := range ps {
				if ps[k].Tag == 8 && len(ps[k].Body) > 1 {
					if inner, ok := decompress(ps[k].Body); ok {
						mi, op := mutatePackets(cp, inner, r, depth+1)
						algo := ps[k].Body[0]
						if algo == 3 || algo == 0 {
							algo = 2
						}
						if r.IntN(3) > 0 {
							ps[k] = storedPkt(1+algo%2, mi)
						} else {
							ps[k] = compressPkt(algo, mi)
						}
						return tail(encodeSeq(ps, nil)), "in-compressed:" + op
					}
				}
			}
		}
		p.Body = byteNoise(p.Body, r)
		return tail(encodeSeq(ps, nil)), "body-noise"
	default: // typed mutation by tag (most weight)
		b, name := mutateTyped(cp, ps, i, r)
		return tail(b), name
	}
}

func nestBucket(d int) string {
	switch {
	case d <= 29:
		return "1-29"
	case d <= 32:
		return fmt.Sprint(d)
	}
	return "33+"
}

func decompress(body []byte) ([]byte, bool) {
	var rd io.Reader
	switch body[0] {
	case 0:
		return body[1:], true
	case 1:
		rd = flate.NewReader(bytes.NewReader(body[1:]))
	case 2:
		z, err := zlib.NewReader(bytes.NewReader(body[1:]))
		if err != nil {
			return nil, false
		}
		rd = z
	case 3:
		rd = bzip2.NewReader(bytes.NewReader(body[1:]))
	default:
		return nil, false
	}
	b, err := io.ReadAll(io.LimitReader(rd, 1<<20))
	if err != nil && len(b) == 0 {
		return nil, false
	}
	return b, true
}

func byteNoise(b []byte, r *rand.Rand) []byte {
	b = cloneB(b)
	if len(b) == 0 {
		return mon.Bytes(r, 1+r.IntN(8))
	}
	n := 1 + r.IntN(3)
	for k := 0; k < n; k++ {
		pos := r.IntN(len(b))
		switch r.IntN(6) {
		case 0:
			b[pos] ^= 1 << r.IntN(8)
		case 1:
			b[pos] = mon.Pick(r, []byte{0, 1, 0x7f, 0x80, 0xbf, 0xc0, 0xdf, 0xe0, 0xfe, 0xff})
		case 2:
			b = append(b[:pos], b[pos+1:]...)
			if len(b) == 0 {
				return b
			}
		case 3:
			ins := mon.Bytes(r, 1+r.IntN(4))
			b = append(b[:pos], append(ins, b[pos:]...)...)
		case 4:
			b[pos] = byte(r.IntN(256))
		default:
			// copy a chunk over another place
			l := 1 + r.IntN(min(16, len(b)))
			src := r.IntN(len(b) - l + 1)
			dst := r.IntN(len(b) - l + 1)
			copy(b[dst:dst+l], b[src:src+l])
		}
	}
	return b
}

// mutateMPI edits the MPI number k (among the well-formed MPIs found from off).
func mutateMPI(b []byte, off int, r *rand.Rand) ([]byte, string) {
	offs := walkMPIs(b, off)
	if len(offs) == 0 {
		return byteNoise(b, r), "mpi:none"
	}
	o := offs[r.IntN(len(offs))]
	bits := int(b[o])<<8 | int(b[o+1])
	n := (bits + 7) / 8
	out := cloneB(b)
	set := func(v int) {
		out[o] = byte(v >> 8)
		out[o+1] = byte(v)
	}
	switch r.IntN(9) {
	case 0: // bit length says 0, bytes stay (following fields shift)
		set(0)
		return out, "mpi:bits=0"
	case 1:
		set(65535)
		return out, "mpi:bits=65535"
	case 2: // bit length within the same byte count but disagreeing with the top byte
		set((n-1)*8 + 1 + r.IntN(8))
		return out, "mpi:bits-disagree"
	case 3:
		set(bits + 8*(1+r.IntN(3)))
		return out, "mpi:bits+bytes"
	case 4:
		if bits > 8 {
			set(bits - 8)
		}
		return out, "mpi:bits-bytes"
	case 5: // value zero with consistent length
		out = append(cloneB(b[:o]), 0, 0)
		out = append(out, b[o+2+n:]...)
		return out, "mpi:value=0"
	case 6: // value one
		out = append(cloneB(b[:o]), 0, 1, 1)
		out = append(out, b[o+2+n:]...)
		return out, "mpi:value=1"
	case 7: // all ones
		for k := 0; k < n; k++ {
			out[o+2+k] = 0xff
		}
		return out, "mpi:value=ff"
	default: // leading zero bytes
		z := 1 + r.IntN(3)
		out = append(cloneB(b[:o]), byte((bits+8*z)>>8), byte(bits+8*z))
		out = append(out, make([]byte, z)...)
		out = append(out, b[o+2:]...)
		return out, "mpi:leading-zero"
	}
}

func keyIDOf(cp *corpus, r *rand.Rand) uint64 {
	switch r.IntN(5) {
	case 0:
		return 0
	case 1:
		return r.Uint64()
	}
	var ids []uint64
	for _, e := range cp.pubRing {
		ids = append(ids, e.PrimaryKey.KeyId)
		for _, s := range e.Subkeys {
			ids = append(ids, s.PublicKey.KeyId)
		}
	}
	if len(ids) == 0 {
		return 0
	}
	return ids[r.IntN(len(ids))]
}

func putKeyID(b []byte, id uint64) {
	for i := 0; i < 8 && i < len(b); i++ {
		b[i] = byte(id >> (8 * uint(7-i)))
	}
}

// subpacket helpers (RFC 4880 §5.2.3.1)
type subpkt struct {
	Typ  byte
	Data []byte
}

func parseSubpkts(b []byte) (out []subpkt, ok bool) {
	for len(b) > 0 {
		var l int
		switch {
		case b[0] < 192:
			l = int(b[0])
			b = b[1:]
		case b[0] < 255:
			if len(b) < 2 {
				return out, false
			}
			l = int(b[0]-192)<<8 + int(b[1]) + 192
			b = b[2:]
		default:
			if len(b) < 5 {
				return out, false
			}
			l = int(b[1])<<24 | int(b[2])<<16 | int(b[3])<<8 | int(b[4])
			b = b[5:]
		}
		if l < 1 || l > len(b) {
			return out, false
		}
		out = append(out, subpkt{b[0], cloneB(b[1:l])})
		b = b[l:]
	}
	return out, true
}

func encSubLen(l int, form int) []byte {
	switch {
	case form == 2 || l >= 16320:
		return []byte{255, byte(l >> 24), byte(l >> 16), byte(l >> 8), byte(l)}
	case form == 1 || l >= 192:
		if l < 192 {
			return []byte{255, 0, 0, 0, byte(l)}
		}
		l -= 192
		return []byte{192 + byte(l>>8), byte(l)}
	}
	return []byte{byte(l)}
}

func encSubpkts(sp []subpkt, r *rand.Rand) []byte {
	var out []byte
	for _, s := range sp {
		form := 0
		if r != nil && r.IntN(8) == 0 {
			form = 1 + r.IntN(2)
		}
		out = append(out, encSubLen(len(s.Data)+1, form)...)
		out = append(out, s.Typ)
		out = append(out, s.Data...)
	}
	return out
}

// sigV4Parts splits a v4 signature body.
type sigV4 struct {
	SigType, PkAlgo, Hash byte
	Hashed, Unhashed      []byte
	Tail                  []byte // hash tag + MPIs
	ok                    bool
}

func parseSigV4(b []byte) (s sigV4) {
	if len(b) < 6 || b[0] != 4 {
		return
	}
	s.SigType, s.PkAlgo, s.Hash = b[1], b[2], b[3]
	hl := int(b[4])<<8 | int(b[5])
	if len(b) < 6+hl+2 {
		return
	}
	s.Hashed = cloneB(b[6 : 6+hl])
	ul := int(b[6+hl])<<8 | int(b[7+hl])
	if len(b) < 8+hl+ul {
		return
	}
	s.Unhashed = cloneB(b[8+hl : 8+hl+ul])
	s.Tail = cloneB(b[8+hl+ul:])
	s.ok = true
	return
}

func (s sigV4) bytes(hlDelta, ulDelta int) []byte {
	hl := len(s.Hashed) + hlDelta
	ul := len(s.Unhashed) + ulDelta
	b := []byte{4, s.SigType, s.PkAlgo, s.Hash, byte(hl >> 8), byte(hl)}
	b = append(b, s.Hashed...)
	b = append(b, byte(ul>>8), byte(ul))
	b = append(b, s.Unhashed...)
	return append(b, s.Tail...)
}

func mutateSig(cp *corpus, body []byte, r *rand.Rand) ([]byte, string) {
	if len(body) > 0 && body[0] < 4 { // v2/v3
		out := cloneB(body)
		switch r.IntN(6) {
		case 0:
			if len(out) > 1 {
				out[1] = mon.Pick(r, []byte{0, 4, 6, 255})
			}
			return out, "sig3:hashed-len"
		case 1:
			if len(out) > 15 {
				out[15] = mon.Pick(r, pkAlgos)
			}
			return out, "sig3:pkalgo"
		case 2:
			if len(out) > 16 {
				out[16] = mon.Pick(r, hashIDs)
			}
			return out, "sig3:hash"
		case 3:
			if len(out) > 14 {
				putKeyID(out[7:15], keyIDOf(cp, r))
			}
			return out, "sig3:keyid"
		case 4:
			if len(out) > 2 {
				out[2] = mon.Pick(r, []byte{0, 1, 2, 0x10, 0x13, 0x18, 0x19, 0x20, 0x28, 0x30, 0xff})
			}
			return out, "sig3:sigtype"
		default:
			b, n := mutateMPI(out, 19, r)
			return b, "sig3:" + n
		}
	}
	s := parseSigV4(body)
	if !s.ok {
		return byteNoise(body, r), "sig:unparsed-noise"
	}
	switch r.IntN(16) {
	case 0:
		s.SigType = mon.Pick(r, []byte{0, 1, 2, 0x10, 0x11, 0x12, 0x13, 0x18, 0x19, 0x1f, 0x20, 0x28, 0x30, 0x40, 0x50, 0xff})
		return s.bytes(0, 0), "sig:sigtype"
	case 1:
		s.PkAlgo = mon.Pick(r, pkAlgos)
		return s.bytes(0, 0), "sig:pkalgo"
	case 2:
		s.Hash = mon.Pick(r, hashIDs)
		return s.bytes(0, 0), "sig:hash"
	case 3:
		return s.bytes(mon.Pick(r, lenDeltas), 0), "sig:hashed-area-len"
	case 4:
		return s.bytes(0, mon.Pick(r, lenDeltas)), "sig:unhashed-area-len"
	case 5:
		b := s.bytes(0, 0)
		b[4], b[5] = 0xff, 0xff
		return b, "sig:hashed-area-len=65535"
	case 6: // subpacket length overflow inside the area
		area := &s.Hashed
		if r.IntN(2) == 0 {
			area = &s.Unhashed
		}
		sp, ok := parseSubpkts(*area)
		if !ok || len(sp) == 0 {
			*area = byteNoise(*area, r)
			return s.bytes(0, 0), "sig:subpkt-noise"
		}
		k := r.IntN(len(sp))
		var out []byte
		for j, q := range sp {
			l := len(q.Data) + 1
			if j == k {
				switch r.IntN(6) {
				case 0:
					out = append(out, 0) // zero length subpacket
					continue
				case 1:
					out = append(out, 255, 0xff, 0xff, 0xff, 0xff)
				case 2:
					out = append(out, 255, 0x7f, 0xff, 0xff, 0xff)
				case 3:
					out = append(out, encSubLen(l+1+r.IntN(300), 0)...)
				case 4:
					out = append(out, 255) // truncated 5-octet length
					*area = out
					return s.bytes(len(out)-len(*area), 0), "sig:subpkt-len-truncated"
				default:
					out = append(out, 192+byte(r.IntN(63))) // truncated 2-octet form at the end
					*area = out
					return s.bytes(0, 0), "sig:subpkt-len-truncated"
				}
			} else {
				out = append(out, encSubLen(l, 0)...)
			}
			out = append(out, q.Typ)
			out = append(out, q.Data...)
		}
		*area = out
		return s.bytes(0, 0), "sig:subpkt-len-overflow"
	case 7: // subpacket type / critical bit / data length sweep
		area := &s.Hashed
		which := "hashed"
		if r.IntN(3) == 0 {
			area = &s.Unhashed
			which = "unhashed"
		}
		sp, ok := parseSubpkts(*area)
		if !ok || len(sp) == 0 {
			sp = nil
		}
		typ := mon.Pick(r, []byte{2, 3, 9, 11, 16, 21, 22, 25, 27, 29, 30, 32, 33, 100, 127})
		if r.IntN(3) == 0 {
			typ |= 0x80
		}
		dl := mon.Pick(r, []int{0, 1, 3, 4, 5, 7, 8, 9, 20})
		nsp := subpkt{typ, mon.Bytes(r, dl)}
		if len(sp) > 0 && r.IntN(2) == 0 {
			sp[r.IntN(len(sp))] = nsp
		} else {
			sp = append(sp, nsp)
		}
		*area = encSubpkts(sp, r)
		return s.bytes(0, 0), fmt.Sprintf("sig:subpkt-%s:type%d:len%d", which, typ&0x7f, dl)
	case 8: // drop creation time / move it to the unhashed area
		sp, ok := parseSubpkts(s.Hashed)
		if ok {
			var keep []subpkt
			var ct *subpkt
			for j := range sp {
				if sp[j].Typ&0x7f == 2 {
					ct = &sp[j]
				} else {
					keep = append(keep, sp[j])
				}
			}
			s.Hashed = encSubpkts(keep, nil)
			if ct != nil && r.IntN(2) == 0 {
				s.Unhashed = append(s.Unhashed, encSubpkts([]subpkt{*ct}, nil)...)
			}
		}
		return s.bytes(0, 0), "sig:no-creation-time"
	case 9: // issuer surgery
		usp, _ := parseSubpkts(s.Unhashed)
		hsp, _ := parseSubpkts(s.Hashed)
		var u2, h2 []subpkt
		for _, q := range usp {
			if q.Typ&0x7f != 16 {
				u2 = append(u2, q)
			}
		}
		for _, q := range hsp {
			if q.Typ&0x7f != 16 {
				h2 = append(h2, q)
			}
		}
		name := "sig:issuer-removed"
		if r.IntN(3) > 0 {
			id := make([]byte, 8)
			putKeyID(id, keyIDOf(cp, r))
			u2 = append(u2, subpkt{16, id})
			name = "sig:issuer-replaced"
		}
		s.Hashed, s.Unhashed = encSubpkts(h2, nil), encSubpkts(u2, nil)
		return s.bytes(0, 0), name
	case 10: // embedded signature nesting
		d := mon.Pick(r, []int{1, 2, 3, 5, 10, 30, 100})
		if r.IntN(25) == 0 {
			d = mon.Pick(r, []int{1000, 4000})
		}
		inner := s.bytes(0, 0)
		if len(inner) > 60 {
			// keep the nest small: minimal v4 signature body
			inner = []byte{4, 0x19, 1, 8, 0, 6, 5, 2, 0x60, 0, 0, 0, 0, 0, 0, 0, 0, 8}
			inner = append(inner, 0xff)
		}
		for k := 0; k < d; k++ {
			h := encSubpkts([]subpkt{{2, []byte{0x60, 0, 0, 0}}, {32, inner}}, nil)
			if len(h) > 65000 {
				break
			}
			nb := []byte{4, 0x19, 1, 8, byte(len(h) >> 8), byte(len(h))}
			nb = append(nb, h...)
			nb = append(nb, 0, 0, 0, 0, 0, 8, 0xff)
			inner = nb
		}
		sp, _ := parseSubpkts(s.Hashed)
		sp = append(sp, subpkt{32, inner})
		if r.IntN(4) == 0 {
			sp = append(sp, subpkt{32, inner})
		}
		h := encSubpkts(sp, nil)
		if len(h) > 65535 {
			h = h[:65535]
		}
		s.Hashed = h
		return s.bytes(0, 0), "sig:embedded-nest:" + nestBucket(d)
	case 11:
		if len(s.Tail) >= 2 {
			s.Tail[r.IntN(2)] ^= 0xff
		}
		return s.bytes(0, 0), "sig:hash-tag"
	case 12:
		s.Tail = s.Tail[:min(len(s.Tail), r.IntN(4))]
		return s.bytes(0, 0), "sig:mpi-missing"
	default:
		b := s.bytes(0, 0)
		off := len(b) - len(s.Tail) + 2
		nb, n := mutateMPI(b, off, r)
		return nb, "sig:" + n
	}
}

func mutateKeyPkt(body []byte, secret bool, r *rand.Rand) ([]byte, string) {
	out := cloneB(body)
	if len(out) < 6 {
		return byteNoise(out, r), "key:short-noise"
	}
	if out[0] < 4 { // v3 key: version(1) time(4) validity(2) algo(1)
		switch r.IntN(3) {
		case 0:
			if len(out) > 7 {
				out[7] = mon.Pick(r, pkAlgos)
			}
			return out, "key3:algo"
		case 1:
			b, n := mutateMPI(out, 8, r)
			return b, "key3:" + n
		}
		return byteNoise(out, r), "key3:noise"
	}
	algo := out[5]
	pubEnd := func() int { // end of the public MPIs (for RSA/DSA/ElGamal)
		want := map[byte]int{1: 2, 2: 2, 3: 2, 16: 3, 17: 4}[algo]
		offs := walkMPIs(out, 6)
		if want == 0 || len(offs) < want {
			return -1
		}
		o := offs[want-1]
		bits := int(out[o])<<8 | int(out[o+1])
		return o + 2 + (bits+7)/8
	}
	choice := r.IntN(12)
	if secret && r.IntN(2) == 0 {
		choice = 12 + r.IntN(8)
	}
	switch choice {
	case 0:
		out[5] = mon.Pick(r, pkAlgos)
		return out, fmt.Sprintf("key:algo:%d->%d", algo, out[5])
	case 1, 2, 3:
		if algo == 18 || algo == 19 || algo == 22 {
			// OID length / OID bytes / point MPI / KDF params
			switch r.IntN(6) {
			case 0:
				out[6] = mon.Pick(r, []byte{0, 1, 7, 9, 10, 200, 255})
				return out, "key:ecc-oid-len"
			case 1:
				if len(out) > 8 {
					out[7+r.IntN(min(int(out[6])+1, len(out)-7))] ^= 1
				}
				return out, "key:ecc-oid-bytes"
			case 2:
				ol := int(out[6])
				if 7+ol+3 < len(out) {
					out[7+ol+2] = mon.Pick(r, []byte{0, 2, 3, 4, 5, 0x40, 0xff}) // point format byte
				}
				return out, "key:ecc-point-format"
			case 3:
				ol := int(out[6])
				b, n := mutateMPI(out, 7+ol, r)
				return b, "key:ecc-" + n
			case 4:
				if algo == 18 && len(out) >= 4 {
					k := len(out) - 4
					out[k] = mon.Pick(r, []byte{0, 1, 2, 4, 5, 255})
				}
				return out, "key:ecdh-kdf-len"
			default:
				if algo == 18 && len(out) >= 3 {
					out[len(out)-3+r.IntN(3)] = mon.Pick(r, []byte{0, 1, 2, 7, 8, 9, 255})
				}
				return out, "key:ecdh-kdf-params"
			}
		}
		b, n := mutateMPI(out, 6, r)
		return b, "key:" + n
	case 4:
		out[0] = mon.Pick(r, versions)
		return out, "key:version"
	case 5:
		return out[:6+r.IntN(max(1, len(out)-6))], "key:truncated"
	case 6: // large public exponent
		if algo <= 3 {
			offs := walkMPIs(out, 6)
			if len(offs) >= 2 {
				o := offs[1]
				nb := append(cloneB(out[:o]), 0, 33, 1, 0, 0, 0, 1)
				bits := int(out[o])<<8 | int(out[o+1])
				nb = append(nb, out[o+2+(bits+7)/8:]...)
				return nb, "key:rsa-large-e"
			}
		}
		return byteNoise(out, r), "key:noise"
	case 7, 8, 9, 10, 11:
		return byteNoise(out, r), "key:noise"
	// ---- secret part ----
	case 12: // s2k usage byte
		if e := pubEnd(); e >= 0 && e < len(out) {
			out[e] = mon.Pick(r, []byte{0, 1, 2, 3, 7, 9, 100, 253, 254, 255})
			return out, fmt.Sprintf("seckey:s2k-usage:%d", out[e])
		}
	case 13: // cipher byte
		if e := pubEnd(); e >= 0 && e+1 < len(out) && out[e] >= 254 {
			out[e+1] = mon.Pick(r, cipherIDs)
			return out, "seckey:cipher"
		}
	case 14: // S2K type / hash / count sweep
		if e := pubEnd(); e >= 0 && e+4 < len(out) && out[e] >= 254 {
			switch r.IntN(3) {
			case 0:
				out[e+2] = mon.Pick(r, []byte{0, 1, 2, 3, 4, 100, 101, 110, 255})
				return out, fmt.Sprintf("seckey:s2k-type:%d", out[e+2])
			case 1:
				out[e+3] = mon.Pick(r, hashIDs)
				return out, "seckey:s2k-hash"
			default:
				if out[e+2] == 3 && e+12 < len(out) {
					out[e+12] = mon.Pick(r, []byte{0, 1, 15, 16, 96, 200})
					return out, "seckey:s2k-count"
				}
			}
		}
	case 15: // unprotected secret MPIs / checksum
		if e := pubEnd(); e >= 0 && e < len(out) && out[e] == 0 {
			b, n := mutateMPI(out, e+1, r)
			return b, "seckey:" + n
		}
	case 16: // make it "unprotected" while the material is encrypted
		if e := pubEnd(); e >= 0 && e < len(out) {
			nb := append(cloneB(out[:e]), 0)
			nb = append(nb, out[min(len(out), e+1+r.IntN(30)):]...)
			return nb, "seckey:usage0-garbage"
		}
	case 17: // truncate inside the secret part
		if e := pubEnd(); e >= 0 && e < len(out) {
			return out[:e+r.IntN(len(out)-e+1)], "seckey:truncated"
		}
	case 18: // IV / encrypted data cut
		if len(out) > 30 {
			return out[:len(out)-1-r.IntN(24)], "seckey:tail-cut"
		}
	}
	return byteNoise(out, r), "key:noise"
}

func mutateTyped(cp *corpus, ps []rawPkt, i int, r *rand.Rand) ([]byte, string) {
	p := &ps[i]
	name := "typed"
	switch p.Tag {
	case 2:
		p.Body, name = mutateSig(cp, p.Body, r)
	case 5, 7:
		p.Body, name = mutateKeyPkt(p.Body, true, r)
	case 6, 14:
		p.Body, name = mutateKeyPkt(p.Body, false, r)
		if r.IntN(12) == 0 { // public key packet re-tagged as secret with "unprotected" marker
			p.Tag = map[byte]byte{6: 5, 14: 7}[p.Tag]
			p.Body = append(p.Body, 0)
			p.Body = append(p.Body, mon.Bytes(r, r.IntN(40))...)
			name = "key:pub-as-secret"
		}
	case 4: // one-pass signature: v3 sigtype hash algo keyid(8) nested
		b := cloneB(p.Body)
		if len(b) >= 13 {
			switch r.IntN(6) {
			case 0:
				b[0] = mon.Pick(r, versions)
				name = "ops:version"
			case 1:
				b[1] = mon.Pick(r, []byte{0, 1, 2, 0x10, 0x18, 0xff})
				name = "ops:sigtype"
			case 2:
				b[2] = mon.Pick(r, hashIDs)
				name = "ops:hash"
			case 3:
				b[3] = mon.Pick(r, pkAlgos)
				name = "ops:pkalgo"
			case 4:
				putKeyID(b[4:12], keyIDOf(cp, r))
				name = "ops:keyid"
			default:
				b[12] = byte(r.IntN(2))
				name = "ops:nested-flag"
			}
		} else {
			b = byteNoise(b, r)
			name = "ops:noise"
		}
		p.Body = b
	case 3: // SKESK: v4 cipher s2k...
		b := cloneB(p.Body)
		if len(b) >= 4 {
			switch r.IntN(8) {
			case 0:
				b[0] = mon.Pick(r, versions)
				name = "skesk:version"
			case 1:
				b[1] = mon.Pick(r, cipherIDs)
				name = "skesk:cipher"
			case 2:
				b[2] = mon.Pick(r, []byte{0, 1, 2, 3, 4, 100, 101, 255})
				name = fmt.Sprintf("skesk:s2k-type:%d", b[2])
			case 3:
				b[3] = mon.Pick(r, hashIDs)
				name = "skesk:s2k-hash"
			case 4:
				if b[2] == 3 && len(b) >= 13 {
					b[12] = mon.Pick(r, []byte{0, 1, 15, 16, 96, 200})
					name = "skesk:s2k-count"
				} else {
					b = byteNoise(b, r)
					name = "skesk:noise"
				}
			case 5: // encrypted session key length sweep
				base := 4
				if b[2] == 1 {
					base = 12
				} else if b[2] == 3 {
					base = 13
				}
				if base <= len(b) {
					n := mon.Pick(r, []int{0, 1, 2, 16, 17, 24, 25, 32, 33, 34, 40, 100})
					b = append(b[:base], mon.Bytes(r, n)...)
					name = fmt.Sprintf("skesk:esk-len:%d", n)
				}
			case 6:
				b = b[:r.IntN(len(b))]
				name = "skesk:truncated"
			default:
				b = byteNoise(b, r)
				name = "skesk:noise"
			}
		} else {
			b = byteNoise(b, r)
			name = "skesk:noise"
		}
		p.Body = b
	case 1: // PKESK: v3 keyid(8) algo mpis
		b := cloneB(p.Body)
		switch r.IntN(8) {
		case 0:
			if len(b) > 0 {
				b[0] = mon.Pick(r, versions)
			}
			name = "pkesk:version"
		case 1:
			if len(b) >= 9 {
				putKeyID(b[1:9], keyIDOf(cp, r))
			}
			name = "pkesk:keyid"
		case 2:
			if len(b) >= 10 {
				b[9] = mon.Pick(r, pkAlgos)
			}
			name = "pkesk:algo"
		case 3, 4:
			b, name = mutateMPI(b, 10, r)
			name = "pkesk:" + name
		case 5, 6: // forged session-key payloads encrypted to a real recipient
			fb, fn := forgePKESK(cp, r)
			if fb != nil {
				*p = *fb
				name = fn
			} else {
				b = byteNoise(b, r)
				name = "pkesk:noise"
			}
			if fb != nil {
				return encodeSeq(ps, nil), name
			}
		default:
			b = byteNoise(b, r)
			name = "pkesk:noise"
		}
		p.Body = b
	case 8: // compressed
		b := cloneB(p.Body)
		switch r.IntN(4) {
		case 0:
			if len(b) > 0 {
				b[0] = mon.Pick(r, []byte{0, 1, 2, 3, 4, 100, 255})
			}
			name = "compressed:algo"
		case 1:
			b = b[:r.IntN(len(b)+1)]
			name = "compressed:truncated"
		default:
			if len(b) > 1 {
				nb := byteNoise(b[1:], r)
				b = append([]byte{b[0]}, nb...)
			}
			name = "compressed:stream-noise"
		}
		p.Body = b
	case 9, 18:
		b := cloneB(p.Body)
		switch r.IntN(5) {
		case 0:
			if p.Tag == 18 && len(b) > 0 {
				b[0] = mon.Pick(r, versions)
			}
			name = "se:version"
		case 1:
			b = b[:min(len(b), r.IntN(30))]
			name = "se:short"
		case 2:
			p.Tag = map[byte]byte{9: 18, 18: 9}[p.Tag]
			if p.Tag == 18 {
				b = append([]byte{1}, b...)
			} else if len(b) > 0 {
				b = b[1:]
			}
			name = "se:mdc-flip"
		case 3:
			if len(b) > 0 {
				b = b[:len(b)-1-r.IntN(min(len(b), 23))]
			}
			name = "se:tail-cut"
		default:
			b = byteNoise(b, r)
			name = "se:noise"
		}
		p.Body = b
	case 11: // literal
		b := cloneB(p.Body)
		switch r.IntN(5) {
		case 0:
			if len(b) > 0 {
				b[0] = mon.Pick(r, []byte{'b', 't', 'u', 'l', '1', 0, 255})
			}
			name = "literal:format"
		case 1:
			if len(b) > 1 {
				b[1] = mon.Pick(r, []byte{0, 1, 8, 255, byte(len(b)), byte(len(b) - 2), byte(len(b) - 6)})
			}
			name = "literal:name-len"
		case 2:
			b = b[:min(len(b), r.IntN(8))]
			name = "literal:header-cut"
		case 3:
			b = append(b[:min(len(b), 2)], []byte("_CONSOLE")...)
			if len(b) > 1 {
				b[1] = 8
			}
			name = "literal:console"
		default:
			b = byteNoise(b, r)
			name = "literal:noise"
		}
		p.Body = b
	case 13:
		switch r.IntN(4) {
		case 0:
			p.Body = nil
			name = "uid:empty"
		case 1:
			p.Body = []byte{0xff, 0xfe, 0xc0, 0x80, '<', '(', ')', '>', 0}
			name = "uid:bad-utf8"
		case 2:
			p.Body = bytes.Repeat([]byte("a (b) <c> "), 1+r.IntN(400))
			name = "uid:long"
		default:
			p.Body = byteNoise(p.Body, r)
			name = "uid:noise"
		}
	case 17:
		sp, ok := parseSubpkts(p.Body)
		if ok && len(sp) > 0 {
			switch r.IntN(4) {
			case 0:
				p.Body = append([]byte{255, 0xff, 0xff, 0xff, 0xff}, p.Body...)
				name = "uattr:sub-len-huge"
			case 1:
				p.Body = append([]byte{0}, p.Body...)
				name = "uattr:sub-len-zero"
			case 2:
				sp[0].Data = sp[0].Data[:min(len(sp[0].Data), r.IntN(18))]
				p.Body = encSubpkts(sp, r)
				name = "uattr:image-header-cut"
			default:
				p.Body = encSubpkts(append(sp, sp...), r)
				name = "uattr:dup"
			}
		} else {
			p.Body = byteNoise(p.Body, r)
			name = "uattr:noise"
		}
	default:
		p.Body = byteNoise(p.Body, r)
		name = "other:noise"
	}
	return encodeSeq(ps, nil), name
}

// forgePKESK makes a session-key packet for a key of the harness's ring
// whose decrypted payload is hostile: too short, bad checksum, unknown cipher,
// wrong key length.
func forgePKESK(cp *corpus, r *rand.Rand) (*rawPkt, string) {
	type rcpt struct {
		pub *packet.PublicKey
		elg bool
		n   string
	}
	var rc []rcpt
	if cp.rsaEncPub != nil {
		rc = append(rc, rcpt{cp.rsaEncPub, false, "rsa"})
	}
	if cp.protEncPub != nil {
		rc = append(rc, rcpt{cp.protEncPub, false, "rsa-prot"})
	}
	if cp.elgEncPub != nil {
		rc = append(rc, rcpt{cp.elgEncPub, true, "elg-prot"})
	}
	if len(rc) == 0 {
		return nil, ""
	}
	t := rc[r.IntN(len(rc))]
	var payload []byte
	var cls string
	switch k := r.IntN(8); k {
	case 0, 1, 2, 3:
		payload = mon.Bytes(r, k)
		cls = fmt.Sprintf("payload-len-%d", k)
	case 4:
		payload = sessionPayload(packet.CipherAES128, mon.Bytes(r, 16))
		payload[len(payload)-1] ^= 1
		cls = "bad-checksum"
	case 5:
		payload = sessionPayload(packet.CipherFunction(mon.Pick(r, []byte{0, 1, 4, 5, 6, 10, 255})), mon.Bytes(r, 16))
		cls = "unknown-cipher"
	case 6:
		payload = sessionPayload(packet.CipherAES256, mon.Bytes(r, mon.Pick(r, []int{0, 1, 15, 17, 31, 33})))
		cls = "wrong-key-len"
	default:
		payload = sessionPayload(packet.CipherAES128, mon.Bytes(r, 16))
		cls = "valid"
	}
	id := t.pub.KeyId
	if r.IntN(3) == 0 {
		id = 0
	}
	var p rawPkt
	if t.elg {
		p = buildPKESKElGamal(r, t.pub, id, payload)
		if r.IntN(4) == 0 { // c2 = 0 or c1 = 0
			off := walkMPIs(p.Body, 10)
			if len(off) == 2 {
				if r.IntN(2) == 0 {
					p.Body = append(cloneB(p.Body[:off[1]]), 0, 0)
					cls = "c2-zero"
				} else {
					p.Body = append(append(cloneB(p.Body[:10]), 0, 0), p.Body[off[1]:]...)
					cls = "c1-zero"
				}
			}
		}
	} else {
		p = buildPKESKRSA(r, t.pub, id, payload)
	}
	return &p, "pkesk-forged:" + t.n + ":" + cls
}

// ---- armor ----

func crc24(d []byte) uint32 {
	crc := uint32(0xb704ce)
	for _, b := range d {
		crc ^= uint32(b) << 16
		for i := 0; i < 8; i++ {
			crc <<= 1
			if crc&0x1000000 != 0 {
				crc ^= 0x1864cfb
			}
		}
	}
	return crc & 0xffffff
}

type armorOpts struct {
	Type, EndType string
	Headers       []string
	LineLen       int
	EOL           string
	NoBlank       bool
	CRC           string // "ok" | "bad" | "none" | "short" | "badb64" | "long"
	NoEnd         bool
	Prefix        string
}

func armorEncode(data []byte, o armorOpts) []byte {
	var sb strings.Builder
	sb.WriteString(o.Prefix)
	sb.WriteString("-----BEGIN " + o.Type + "-----" + o.EOL)
	for _, h := range o.Headers {
		sb.WriteString(h + o.EOL)
	}
	if !o.NoBlank {
		sb.WriteString(o.EOL)
	}
	b64 := base64.StdEncoding.EncodeToString(data)
	ll := o.LineLen
	if ll <= 0 {
		ll = 64
	}
	for len(b64) > 0 {
		n := min(ll, len(b64))
		sb.WriteString(b64[:n] + o.EOL)
		b64 = b64[n:]
	}
	c := crc24(data)
	cb := []byte{byte(c >> 16), byte(c >> 8), byte(c)}
	switch o.CRC {
	case "ok":
		sb.WriteString("=" + base64.StdEncoding.EncodeToString(cb) + o.EOL)
	case "bad":
		cb[1] ^= 0x10
		sb.WriteString("=" + base64.StdEncoding.EncodeToString(cb) + o.EOL)
	case "short":
		sb.WriteString("=" + base64.StdEncoding.EncodeToString(cb)[:3] + o.EOL)
	case "badb64":
		sb.WriteString("=!!!!" + o.EOL)
	case "long":
		sb.WriteString("=" + base64.StdEncoding.EncodeToString(append(cb, 1, 2, 3)) + o.EOL)
	}
	if !o.NoEnd {
		sb.WriteString("-----END " + o.EndType + "-----" + o.EOL)
	}
	return []byte(sb.String())
}

var armorTypes = []string{"PGP MESSAGE", "PGP PUBLIC KEY BLOCK", "PGP PRIVATE KEY BLOCK", "PGP SIGNATURE", "PGP MESSAGE, PART 1/2", "X", "", "PGP SIGNED MESSAGE"}

func randArmorOpts(typ string, r *rand.Rand) (armorOpts, string) {
	o := armorOpts{Type: typ, EndType: typ, EOL: "\n", CRC: "ok", LineLen: 64}
	name := "armor:clean"
	switch r.IntN(16) {
	case 0:
		o.NoBlank = true
		name = "armor:no-blank-line"
	case 1:
		o.CRC = mon.Pick(r, []string{"bad", "none", "short", "badb64", "long"})
		name = "armor:crc-" + o.CRC
	case 2:
		o.LineLen = mon.Pick(r, []int{1, 3, 4, 76, 95, 96, 97, 99, 100, 101, 200, 5000})
		name = fmt.Sprintf("armor:line-len-%d", o.LineLen)
	case 3:
		o.EOL = mon.Pick(r, []string{"\r\n", "\r", "\n\n", "\n\r", " \n", "\t\r\n"})
		name = "armor:eol-" + fmt.Sprintf("%q", o.EOL)
	case 4:
		o.NoEnd = true
		name = "armor:no-end"
	case 5:
		o.EndType = mon.Pick(r, armorTypes)
		name = "armor:end-type-mismatch"
	case 6:
		o.Type = mon.Pick(r, armorTypes)
		o.EndType = o.Type
		name = "armor:type-" + fmt.Sprintf("%q", o.Type)
	case 7:
		o.Headers = []string{mon.Pick(r, []string{"Version: x", "NoColonHere", "Key:NoSpace", ": empty key", "Comment: " + strings.Repeat("c", 95), "Comment: " + strings.Repeat("c", 300), "Hash: SHA1", "A: b\nC: d", " Leading: space"})}
		if r.IntN(2) == 0 {
			o.Headers = append(o.Headers, "Version: y")
		}
		name = "armor:headers"
	case 8:
		o.Prefix = mon.Pick(r, []string{"garbage\n", "-----BEGIN \n", "-----BEGIN -----\n", "-----BEGIN PGP-----\n", strings.Repeat("x", 250) + "\n", "-----BEGIN PGP MESSAGE-----\nNoColon\n", "\n\n\n", "-----BEGIN PGP MESSAGE-----", "  -----BEGIN PGP X-----  \nA: b\n\nAAAA\n-----END PGP X-----\n"})
		name = "armor:prefix"
	}
	return o, name
}

// mutateArmorText does line surgery on an existing armored text.
func mutateArmorText(txt []byte, r *rand.Rand) ([]byte, string) {
	lines := strings.SplitAfter(string(txt), "\n")
	if len(lines) < 3 {
		return byteNoise(txt, r), "armor-text:noise"
	}
	k := r.IntN(len(lines))
	switch r.IntN(10) {
	case 0:
		lines = append(lines[:k], lines[k+1:]...)
		return []byte(strings.Join(lines, "")), "armor-text:drop-line"
	case 1:
		lines = append(lines[:k+1], lines[k:]...)
		return []byte(strings.Join(lines, "")), "armor-text:dup-line"
	case 2:
		lines[k] = strings.Repeat(strings.TrimRight(lines[k], "\r\n"), 1+r.IntN(5)) + "\n"
		return []byte(strings.Join(lines, "")), "armor-text:long-line"
	case 3:
		lines[k] = "=" + mon.Pick(r, []string{"", "A", "AAAA", "AAA=", "====", "AAAAA"}) + "\n"
		return []byte(strings.Join(lines, "")), "armor-text:crc-line-anywhere"
	case 4:
		lines[k] = strings.Replace(lines[k], "\n", "\r\n", 1)
		return []byte(strings.Join(lines, "")), "armor-text:crlf-one-line"
	case 5:
		return []byte(strings.Join(lines[:k], "")), "armor-text:truncate-lines"
	case 6:
		s := strings.Join(lines, "")
		return []byte(s[:r.IntN(len(s))]), "armor-text:truncate-bytes"
	case 7:
		lines[k] = mon.Pick(r, []string{"-----END PGP MESSAGE-----\n", "-----END \n", "-----BEGIN PGP MESSAGE-----\n", "\n", "=\n", "   \n", "!@#$\n", "====\n"})
		return []byte(strings.Join(lines, "")), "armor-text:replace-line"
	case 8:
		s := strings.Join(lines, "")
		return []byte(s + s), "armor-text:two-blocks"
	default:
		return byteNoise(txt, r), "armor-text:noise"
	}
}

// ---- clearsign ----

func mutateClearsign(cp *corpus, txt []byte, r *rand.Rand) ([]byte, string) {
	s := string(txt)
	switch r.IntN(14) {
	case 0:
		return []byte(strings.Replace(s, "\n\n", "\n", 1)), "clearsign:no-blank-line"
	case 1:
		return []byte(strings.Replace(s, "Hash: ", mon.Pick(r, []string{"Hash:", "hash: ", "Hash : ", "Hash: SHA1\nHash: ", "Charset: x\nHash: ", "Hash: \x01", "Hash: é", "NoColon\nHash: "}), 1)), "clearsign:header"
	case 2:
		return []byte(strings.Replace(s, "-----BEGIN PGP SIGNED MESSAGE-----", "-----BEGIN PGP SIGNED MESSAGE-----"+mon.Pick(r, []string{" ", "x", "\r", "-"}), 1)), "clearsign:start-suffix"
	case 3:
		return []byte(strings.ReplaceAll(s, "\n", "\r\n")), "clearsign:crlf"
	case 4:
		return []byte(strings.Replace(s, "-----BEGIN PGP SIGNATURE-----", mon.Pick(r, []string{"- -----BEGIN PGP SIGNATURE-----", "-----BEGIN PGP SIGNATURE----- ", "-----BEGIN PGP SIGNATURE-----\n-----BEGIN PGP SIGNATURE-----", ""}), 1)), "clearsign:sig-marker"
	case 5:
		return []byte(strings.Replace(s, "-----END PGP SIGNATURE-----", mon.Pick(r, []string{"", "-----END PGP SIGNATURE", "-----END PGP MESSAGE-----"}), 1)), "clearsign:no-end"
	case 6:
		i := strings.Index(s, "\n\n")
		if i > 0 {
			return []byte(s[:i+2] + mon.Pick(r, []string{"- ", "-", "- - ", "-----BEGIN PGP SIGNED MESSAGE-----\n", "\t \n", "\r\n", strings.Repeat("-", 300) + "\n"}) + s[i+2:]), "clearsign:body-line"
		}
	case 7:
		return []byte(s[:r.IntN(len(s))]), "clearsign:truncated"
	case 8:
		return []byte("junk\n" + s + "\nmore junk\n" + s), "clearsign:two-messages"
	case 9: // replace the signature block by an armored mutated signature
		i := strings.Index(s, "-----BEGIN PGP SIGNATURE-----")
		if i > 0 {
			blk := s[i:]
			if bin, ok := dearmor([]byte(blk)); ok {
				mb, op := mutatePackets(cp, bin, r, 0)
				o, on := randArmorOpts("PGP SIGNATURE", r)
				return []byte(s[:i] + string(armorEncode(mb, o))), "clearsign:sig:" + op + "+" + on
			}
		}
	case 10:
		return []byte(strings.Replace(s, "\n\n", "\n\n"+strings.Repeat("line\n", 1+r.IntN(2000)), 1)), "clearsign:many-lines"
	case 11:
		i := strings.Index(s, "-----BEGIN PGP SIGNATURE-----")
		if i > 0 {
			nt, op := mutateArmorText([]byte(s[i:]), r)
			return []byte(s[:i] + string(nt)), "clearsign:" + op
		}
	}
	return byteNoise(txt, r), "clearsign:noise"
}

// dearmor is the harness's own minimal armor reader (base64 lines between the
// blank line and the checksum/END line).
func dearmor(txt []byte) ([]byte, bool) {
	lines := strings.Split(strings.ReplaceAll(string(txt), "\r", ""), "\n")
	i := 0
	for i < len(lines) && !strings.HasPrefix(lines[i], "-----BEGIN ") {
		i++
	}
	for i < len(lines) && strings.TrimSpace(lines[i]) != "" {
		i++
	}
	var b64 strings.Builder
	for i++; i < len(lines); i++ {
		l := strings.TrimSpace(lines[i])
		if strings.HasPrefix(l, "=") || strings.HasPrefix(l, "-----END") {
			break
		}
		b64.WriteString(l)
	}
	b, err := base64.StdEncoding.DecodeString(b64.String())
	if err != nil || len(b) == 0 {
		return nil, false
	}
	return b, true
}

func armorTypeOf(txt []byte) string {
	s := string(txt)
	i := strings.Index(s, "-----BEGIN ")
	if i < 0 {
		return "PGP MESSAGE"
	}
	s = s[i+11:]
	j := strings.Index(s, "-----")
	if j < 0 {
		return "PGP MESSAGE"
	}
	return s[:j]
}

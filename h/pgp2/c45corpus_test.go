package pgp2

// Corpus for C45, built at run time and deterministically: gpg-made constants
// (gpgdata_test.go), constants extracted from the repository's own openpgp
// tests (read-only), and fresh messages made here with deterministic
// randomness. Corpus construction is workload generation only.

import (
	"bytes"
	"crypto"
	"crypto/aes"
	"crypto/cipher"
	"crypto/des"
	"crypto/rsa"
	"crypto/sha1"
	"encoding/hex"
	"fmt"
	"io"
	"math/big"
	"math/rand/v2"
	"os"
	"path/filepath"
	"regexp"
	"sort"
	"strings"
	"time"

	"golang.org/x/crypto/cast5"
	"golang.org/x/crypto/openpgp"
	"golang.org/x/crypto/openpgp/armor"
	"golang.org/x/crypto/openpgp/clearsign"
	"golang.org/x/crypto/openpgp/elgamal"
	"golang.org/x/crypto/openpgp/packet"
	"golang.org/x/crypto/openpgp/s2k"
	"verif/mon"
)

const (
	kKeyring   = "keyring"   // binary transferable public/secret keys
	kMsg       = "msg"       // binary OpenPGP message
	kSig       = "sig"       // binary detached signature (Signed = text)
	kArmored   = "armored"   // one armored block (any type)
	kClearsign = "clearsign" // clearsigned text
	kPkts      = "pkts"      // other packet sequence
)

const corpusPass = "pgp2-pass"

type item struct {
	Name   string
	Kind   string
	Data   []byte
	Signed []byte // for kSig
	Origin string // gpg | repo | go
	// for harness-made encrypted messages: rebuild the message around a
	// (mutated) inner plaintext packet sequence
	Inner   []byte
	Rebuild func(inner []byte, r *rand.Rand, o *seOpts) []byte
}

type corpus struct {
	items   []item
	byKind  map[string][]int
	text    []byte
	pubRing openpgp.EntityList // every public key that loads
	// secret keyrings (binary); those with protected keys are re-parsed for
	// every case that may decrypt them
	secStatic    openpgp.EntityList // unprotected secret keys, parsed once
	secProtected [][]byte
	protCache    []openpgp.EntityList // parsed secProtected; an entry is re-parsed once a prompt decrypted one of its keys
	notes        []string
	counts       map[string]int
	rsaSigner    *openpgp.Entity
	rsaEncPub    *packet.PublicKey
	elgEncPub    *packet.PublicKey
	protEncPub   *packet.PublicKey
}

func fixedTime() time.Time { return time.Unix(1717200000, 0) } // 2024-06-01

func detConfig(r *rand.Rand) *packet.Config {
	return &packet.Config{Rand: mon.Reader{R: r}, Time: fixedTime}
}

// safely runs f, reporting a panic as an error (corpus loading must not die on
// a defect of the code under test; the defect is found by the check itself).
func safely(f func() error) (err error) {
	defer func() {
		if v := recover(); v != nil {
			err = fmt.Errorf("panic: %v", v)
		}
	}()
	return f()
}

func gpgGet(name string) gpgItem {
	for _, g := range gpgItems {
		if g.Name == name {
			return g
		}
	}
	panic("missing gpg item " + name)
}

func gpgBin(name string) []byte {
	b, err := hex.DecodeString(gpgGet(name).Hex)
	if err != nil {
		panic(err)
	}
	return b
}

func (c *corpus) add(it item) {
	if c.byKind == nil {
		c.byKind = map[string][]int{}
		c.counts = map[string]int{}
	}
	c.byKind[it.Kind] = append(c.byKind[it.Kind], len(c.items))
	c.items = append(c.items, it)
	c.counts["corpus_"+it.Origin+"_"+it.Kind]++
}

func sniffKind(b []byte) string {
	pk, _ := splitPackets(b)
	if len(pk) == 0 {
		return ""
	}
	switch pk[0].Tag {
	case 5, 6:
		return kKeyring
	case 2:
		allSig := true
		for _, p := range pk {
			if p.Tag != 2 {
				allSig = false
			}
		}
		if allSig {
			return kSig
		}
		return kPkts
	case 1, 3, 4, 8, 9, 11, 18:
		return kMsg
	}
	return kPkts
}

var (
	reHex       = regexp.MustCompile(`[0-9a-fA-F]{24,}`)
	reArmor     = regexp.MustCompile(`(?s)-----BEGIN PGP [A-Z ]+-----.*?-----END PGP [A-Z ]+-----\n?`)
	reClearsign = regexp.MustCompile(`(?s)-----BEGIN PGP SIGNED MESSAGE-----.*?-----END PGP SIGNATURE-----\n?`)
)

// extractRepo reads the repository's openpgp tests and keeps the constants
// that frame as packets / decode as armor / decode as clearsign.
func (c *corpus) extractRepo(root string) {
	var files []string
	filepath.Walk(filepath.Join(root, "openpgp"), func(p string, fi os.FileInfo, err error) error {
		if err == nil && !fi.IsDir() && strings.HasSuffix(p, "_test.go") {
			files = append(files, p)
		}
		return nil
	})
	sort.Strings(files)
	seen := map[string]bool{}
	for _, f := range files {
		src, err := os.ReadFile(f)
		if err != nil {
			continue
		}
		base := strings.TrimSuffix(filepath.Base(f), "_test.go")
		txt := string(src)
		n := 0
		for _, m := range reClearsign.FindAllString(txt, -1) {
			if seen[m] {
				continue
			}
			seen[m] = true
			var ok bool
			safely(func() error { b, _ := clearsign.Decode([]byte(m)); ok = b != nil; return nil })
			if ok {
				c.add(item{Name: fmt.Sprintf("repo:%s:clearsign%d", base, n), Kind: kClearsign, Data: []byte(m), Origin: "repo"})
				n++
			}
		}
		for _, m := range reArmor.FindAllString(txt, -1) {
			if seen[m] || strings.HasPrefix(m, "-----BEGIN PGP SIGNED MESSAGE") {
				continue
			}
			seen[m] = true
			var body []byte
			err := safely(func() error {
				blk, err := armor.Decode(strings.NewReader(m))
				if err != nil {
					return err
				}
				body, err = io.ReadAll(blk.Body)
				return err
			})
			if err != nil {
				continue
			}
			c.add(item{Name: fmt.Sprintf("repo:%s:armor%d", base, n), Kind: kArmored, Data: []byte(m), Origin: "repo"})
			if k := sniffKind(body); k != "" && k != kSig {
				c.add(item{Name: fmt.Sprintf("repo:%s:armor%d.bin", base, n), Kind: k, Data: body, Origin: "repo"})
			}
			n++
		}
		for _, m := range reHex.FindAllString(txt, -1) {
			if len(m)%2 != 0 || seen[m] {
				continue
			}
			seen[m] = true
			b, err := hex.DecodeString(m)
			if err != nil {
				continue
			}
			pk, rest := splitPackets(b)
			if len(pk) == 0 || len(rest) > len(b)/2 {
				continue // not a packet sequence (a well-framed prefix of at least half the bytes is required)
			}
			k := sniffKind(b)
			if k == "" {
				continue
			}
			it := item{Name: fmt.Sprintf("repo:%s:hex%d", base, n), Kind: k, Data: b, Origin: "repo"}
			if k == kSig {
				it.Signed = []byte("Signed message\nline 2\nline 3\n")
			}
			c.add(it)
			n++
		}
	}
}

func newBlock(cf packet.CipherFunction, key []byte) cipher.Block {
	var b cipher.Block
	switch cf {
	case packet.Cipher3DES:
		b, _ = des.NewTripleDESCipher(key)
	case packet.CipherCAST5:
		b, _ = cast5.NewCipher(key)
	default:
		b, _ = aes.NewCipher(key)
	}
	return b
}

// seOpts says how the Symmetrically Encrypted (Integrity Protected) Data
// packet is to be damaged.
type seOpts struct {
	MDC        bool
	BadMDCHash bool
	NoMDC      bool // tag 18 without trailer
	BadMDCTag  bool
	BadQuick   bool // quick-check bytes do not repeat
	Version    byte // tag 18 version byte (1 = legal)
	TruncTo    int  // truncate ciphertext body to this many bytes (-1: no)
}

// buildSE encrypts inner with OpenPGP CFB (written here from RFC 4880 §13.9 /
// §5.13 using the package's exported OCFB stream).
func buildSE(r *rand.Rand, cf packet.CipherFunction, key, inner []byte, o seOpts) rawPkt {
	blk := newBlock(cf, key)
	bs := blk.BlockSize()
	rnd := mon.Bytes(r, bs)
	resync := packet.OCFBResync
	if o.MDC {
		resync = packet.OCFBNoResync
	}
	st, prefix := packet.NewOCFBEncrypter(blk, rnd, resync)
	plain := append([]byte(nil), inner...)
	if o.MDC && !o.NoMDC {
		h := sha1.New()
		h.Write(rnd)
		h.Write(rnd[bs-2:])
		h.Write(inner)
		tagb := byte(0xd3)
		if o.BadMDCTag {
			tagb = 0xd4
		}
		h.Write([]byte{0xd3, 0x14})
		sum := h.Sum(nil)
		if o.BadMDCHash {
			sum[3] ^= 0x40
		}
		plain = append(plain, tagb, 0x14)
		plain = append(plain, sum...)
	}
	ct := make([]byte, len(plain))
	st.XORKeyStream(ct, plain)
	if o.BadQuick {
		prefix[bs+1] ^= 0x55
	}
	body := append(append([]byte(nil), prefix...), ct...)
	if o.TruncTo >= 0 && o.TruncTo < len(body) {
		body = body[:o.TruncTo]
	}
	if o.MDC {
		v := o.Version
		return rawPkt{Tag: 18, NewFmt: true, Body: append([]byte{v}, body...)}
	}
	return rawPkt{Tag: 9, NewFmt: true, Body: body}
}

func sessionPayload(cf packet.CipherFunction, key []byte) []byte {
	var ck uint16
	for _, b := range key {
		ck += uint16(b)
	}
	m := append([]byte{byte(cf)}, key...)
	return append(m, byte(ck>>8), byte(ck))
}

func pkcs1Type2(r *rand.Rand, k int, m []byte) []byte {
	// EM = 00 02 PS 00 M, len k; PS may be shorter than 8 when M is long (hostile)
	ps := k - 3 - len(m)
	if ps < 0 {
		ps = 0
	}
	em := []byte{0, 2}
	for i := 0; i < ps; i++ {
		em = append(em, byte(1+r.IntN(255)))
	}
	em = append(em, 0)
	em = append(em, m...)
	return em
}

// buildPKESKRSA makes a Public-Key Encrypted Session Key packet whose RSA
// plaintext is exactly payload (any length: the hostile cases use 0..3 bytes).
func buildPKESKRSA(r *rand.Rand, pub *packet.PublicKey, keyID uint64, payload []byte) rawPkt {
	rp := pub.PublicKey.(*rsa.PublicKey)
	k := (rp.N.BitLen() + 7) / 8
	em := pkcs1Type2(r, k, payload)
	c := new(big.Int).Exp(new(big.Int).SetBytes(em), big.NewInt(int64(rp.E)), rp.N)
	body := []byte{3}
	for i := 7; i >= 0; i-- {
		body = append(body, byte(keyID>>(8*uint(i))))
	}
	body = append(body, 1)
	body = append(body, mpiBytes(c.Bytes())...)
	return rawPkt{Tag: 1, NewFmt: true, Body: body}
}

func buildPKESKElGamal(r *rand.Rand, pub *packet.PublicKey, keyID uint64, payload []byte) rawPkt {
	ep := pub.PublicKey.(*elgamal.PublicKey)
	k := (ep.P.BitLen()+7)/8 - 1
	em := pkcs1Type2(r, k+1, payload)[1:]
	kk := new(big.Int).SetBytes(mon.Bytes(r, 32))
	kk.Add(kk, big.NewInt(2))
	c1 := new(big.Int).Exp(ep.G, kk, ep.P)
	s := new(big.Int).Exp(ep.Y, kk, ep.P)
	c2 := s.Mul(s, new(big.Int).SetBytes(em))
	c2.Mod(c2, ep.P)
	body := []byte{3}
	for i := 7; i >= 0; i-- {
		body = append(body, byte(keyID>>(8*uint(i))))
	}
	body = append(body, 16)
	body = append(body, mpiBytes(c1.Bytes())...)
	body = append(body, mpiBytes(c2.Bytes())...)
	return rawPkt{Tag: 1, NewFmt: true, Body: body}
}

type s2kSpec struct {
	Type  byte // 0,1,3
	Hash  byte // OpenPGP hash id
	Salt  []byte
	Count byte
}

func (s s2kSpec) bytes() []byte {
	b := []byte{s.Type, s.Hash}
	if s.Type == 1 || s.Type == 3 {
		b = append(b, s.Salt...)
	}
	if s.Type == 3 {
		b = append(b, s.Count)
	}
	return b
}

func (s s2kSpec) derive(pass []byte, n int) []byte {
	h, _ := s2k.HashIdToHash(s.Hash)
	out := make([]byte, n)
	switch s.Type {
	case 0:
		s2k.Simple(out, h.New(), pass)
	case 1:
		s2k.Salted(out, h.New(), pass, s.Salt)
	default:
		cnt := (16 + int(s.Count&15)) << (uint32(s.Count>>4) + 6)
		s2k.Iterated(out, h.New(), pass, s.Salt, cnt)
	}
	return out
}

// buildSKESK makes a Symmetric-Key Encrypted Session Key packet. With
// withESK the session key is encrypted under the S2K key (CFB, zero IV);
// otherwise the S2K output is the session key.
func buildSKESK(cf packet.CipherFunction, spec s2kSpec, pass []byte, withESK bool, sessCf packet.CipherFunction, sessKey []byte) (rawPkt, []byte, packet.CipherFunction) {
	body := []byte{4, byte(cf)}
	body = append(body, spec.bytes()...)
	k := spec.derive(pass, cf.KeySize())
	if !withESK {
		return rawPkt{Tag: 3, NewFmt: true, Body: body}, k, cf
	}
	blk := newBlock(cf, k)
	iv := make([]byte, blk.BlockSize())
	pt := append([]byte{byte(sessCf)}, sessKey...)
	ct := make([]byte, len(pt))
	cipher.NewCFBEncrypter(blk, iv).XORKeyStream(ct, pt)
	body = append(body, ct...)
	return rawPkt{Tag: 3, NewFmt: true, Body: body}, sessKey, sessCf
}

func literalPkt(binary bool, name string, t uint32, data []byte) rawPkt {
	f := byte('t')
	if binary {
		f = 'b'
	}
	b := []byte{f, byte(len(name))}
	b = append(b, name...)
	b = append(b, byte(t>>24), byte(t>>16), byte(t>>8), byte(t))
	b = append(b, data...)
	return rawPkt{Tag: 11, NewFmt: true, Body: b}
}

// compressPkt wraps inner packets in a Compressed Data packet using the
// package's writer (algo 0 = stored is made by hand).
func compressPkt(algo byte, inner []byte) rawPkt {
	if algo == 0 {
		return rawPkt{Tag: 8, NewFmt: true, Body: append([]byte{0}, inner...)}
	}
	var buf bytes.Buffer
	w, err := packet.SerializeCompressed(nopWC{&buf}, packet.CompressionAlgo(algo), nil)
	if err != nil {
		panic(err)
	}
	w.Write(inner)
	w.Close()
	pk, _ := splitPackets(buf.Bytes())
	return pk[0]
}

// storedPkt wraps inner in a Compressed Data packet whose deflate stream
// consists of stored (uncompressed) blocks, written by hand from RFC 1951
// §3.2.4 / RFC 1950 (cheap: used for deep nesting).
func storedPkt(algo byte, inner []byte) rawPkt {
	var d []byte
	b := inner
	for {
		n := min(len(b), 65535)
		fin := byte(0)
		if n == len(b) {
			fin = 1
		}
		d = append(d, fin, byte(n), byte(n>>8), ^byte(n), ^byte(n>>8))
		d = append(d, b[:n]...)
		b = b[n:]
		if fin == 1 {
			break
		}
	}
	if algo == 2 {
		a, c := uint32(1), uint32(0)
		for _, x := range inner {
			a = (a + uint32(x)) % 65521
			c = (c + a) % 65521
		}
		sum := c<<16 | a
		d = append(append([]byte{0x78, 0x01}, d...), byte(sum>>24), byte(sum>>16), byte(sum>>8), byte(sum))
		return rawPkt{Tag: 8, NewFmt: true, Body: append([]byte{2}, d...)}
	}
	return rawPkt{Tag: 8, NewFmt: true, Body: append([]byte{1}, d...)}
}

type nopWC struct{ io.Writer }

func (nopWC) Close() error { return nil }

func (c *corpus) loadKeys() {
	// public ring: every gpg public key + every repo keyring that loads
	for _, n := range []string{"pub_RSA.bin", "pub_PROT.bin", "pub_DSA.bin", "pub_ECC.bin"} {
		b := gpgBin(n)
		err := safely(func() error {
			el, err := openpgp.ReadKeyRing(bytes.NewReader(b))
			if err == nil {
				c.pubRing = append(c.pubRing, el...)
			}
			return err
		})
		if err != nil {
			c.notes = append(c.notes, "corpus: public key "+n+" does not load: "+err.Error())
		}
	}
	for _, i := range c.byKind[kKeyring] {
		it := c.items[i]
		if it.Origin != "repo" {
			continue
		}
		pk, _ := splitPackets(it.Data)
		sec := len(pk) > 0 && pk[0].Tag == 5
		safely(func() error {
			el, err := openpgp.ReadKeyRing(bytes.NewReader(it.Data))
			if err != nil {
				return err
			}
			if !sec {
				c.pubRing = append(c.pubRing, el...)
				return nil
			}
			prot := false
			for _, e := range el {
				if e.PrivateKey != nil && e.PrivateKey.Encrypted {
					prot = true
				}
				for _, s := range e.Subkeys {
					if s.PrivateKey != nil && s.PrivateKey.Encrypted {
						prot = true
					}
				}
			}
			if prot {
				c.secProtected = append(c.secProtected, it.Data)
			} else {
				c.secStatic = append(c.secStatic, el...)
			}
			return nil
		})
	}
	for _, n := range []string{"sec_RSA.bin"} {
		b := gpgBin(n)
		err := safely(func() error {
			el, err := openpgp.ReadKeyRing(bytes.NewReader(b))
			if err == nil {
				c.secStatic = append(c.secStatic, el...)
				c.rsaSigner = el[0]
			}
			return err
		})
		if err != nil {
			c.notes = append(c.notes, "corpus: secret key "+n+" does not load: "+err.Error())
		}
	}
	c.secProtected = append(c.secProtected, gpgBin("sec_PROT.bin"), gpgBin("sec_DSA.bin"))
	find := func(uid string) *openpgp.Entity {
		for _, e := range c.pubRing {
			for name := range e.Identities {
				if strings.Contains(name, uid) {
					return e
				}
			}
		}
		return nil
	}
	if e := find("rsa@pgp2.test"); e != nil && len(e.Subkeys) > 0 {
		c.rsaEncPub = e.Subkeys[0].PublicKey
	}
	if e := find("prot@pgp2.test"); e != nil && len(e.Subkeys) > 0 {
		c.protEncPub = e.Subkeys[0].PublicKey
	}
	if e := find("dsa@pgp2.test"); e != nil && len(e.Subkeys) > 0 {
		c.elgEncPub = e.Subkeys[0].PublicKey
	}
}

// secRing returns pub+sec keys; protected keys are parsed afresh (a prompt may
// decrypt them in place).
func (c *corpus) fullRing() openpgp.EntityList {
	el := append(openpgp.EntityList(nil), c.pubRing...)
	el = append(el, c.secStatic...)
	if c.protCache == nil {
		c.protCache = make([]openpgp.EntityList, len(c.secProtected))
	}
	for i, b := range c.secProtected {
		if c.protCache[i] == nil || !allEncrypted(c.protCache[i]) {
			c.protCache[i] = nil
			safely(func() error {
				e, err := openpgp.ReadKeyRing(bytes.NewReader(b))
				if err == nil {
					c.protCache[i] = e
				}
				return err
			})
		}
		el = append(el, c.protCache[i]...)
	}
	return el
}

// allEncrypted reports whether every protected secret key of el is still in
// its encrypted (as parsed) state.
func allEncrypted(el openpgp.EntityList) bool {
	for _, e := range el {
		if e.PrivateKey != nil && !e.PrivateKey.Encrypted {
			return false
		}
		for _, s := range e.Subkeys {
			if s.PrivateKey != nil && !s.PrivateKey.Encrypted {
				return false
			}
		}
	}
	return true
}

func (c *corpus) addGPG() {
	c.text = gpgBin("text.txt")
	for _, g := range gpgItems {
		switch {
		case g.Name == "text.txt":
		case strings.HasPrefix(g.Name, "pub_") || strings.HasPrefix(g.Name, "sec_"):
			if g.Hex != "" {
				c.add(item{Name: "gpg:" + g.Name, Kind: kKeyring, Data: gpgBin(g.Name), Origin: "gpg"})
			} else {
				c.add(item{Name: "gpg:" + g.Name, Kind: kArmored, Data: []byte(g.Text), Origin: "gpg"})
			}
		case strings.HasPrefix(g.Name, "msg_"):
			if g.Hex != "" {
				c.add(item{Name: "gpg:" + g.Name, Kind: kMsg, Data: gpgBin(g.Name), Origin: "gpg"})
			} else {
				c.add(item{Name: "gpg:" + g.Name, Kind: kArmored, Data: []byte(g.Text), Origin: "gpg"})
			}
		case strings.HasPrefix(g.Name, "sig_"):
			if g.Hex != "" {
				c.add(item{Name: "gpg:" + g.Name, Kind: kSig, Data: gpgBin(g.Name), Signed: c.text, Origin: "gpg"})
			} else {
				c.add(item{Name: "gpg:" + g.Name, Kind: kArmored, Data: []byte(g.Text), Signed: c.text, Origin: "gpg"})
			}
		case strings.HasPrefix(g.Name, "clear_"):
			c.add(item{Name: "gpg:" + g.Name, Kind: kClearsign, Data: []byte(g.Text), Origin: "gpg"})
		}
	}
}

// addFresh makes Go-made items with deterministic randomness (independent of
// VERIF_SEED: the corpus is the same for every seed, the mutations differ).
func (c *corpus) addFresh() {
	r := rand.New(rand.NewPCG(45, 4545))
	text := c.text
	bigText := bytes.Repeat([]byte("0123456789abcdef\n"), 200)
	lit := literalPkt(true, "f.txt", 1700000000, text)
	c.add(item{Name: "go:literal", Kind: kMsg, Data: encodeDefault(lit), Origin: "go"})
	for algo := byte(0); algo <= 2; algo++ {
		c.add(item{Name: fmt.Sprintf("go:compressed%d", algo), Kind: kMsg, Data: encodeDefault(compressPkt(algo, encodeDefault(literalPkt(false, "", 0, bigText)))), Origin: "go"})
	}
	// signed (one-pass) messages, detached signatures, clearsigned text
	var signedMsgs [][]byte
	if c.rsaSigner != nil {
		for _, h := range []crypto.Hash{crypto.SHA256, crypto.SHA512, crypto.SHA1} {
			cfg := detConfig(r)
			cfg.DefaultHash = h
			for _, txt := range []bool{false, true} {
				var buf bytes.Buffer
				err := safely(func() error {
					w, err := openpgp.Sign(&buf, c.rsaSigner, &openpgp.FileHints{IsBinary: !txt, FileName: "x"}, cfg)
					if err != nil {
						return err
					}
					w.Write(text)
					return w.Close()
				})
				if err == nil {
					signedMsgs = append(signedMsgs, buf.Bytes())
					c.add(item{Name: fmt.Sprintf("go:signed:%v:%v", h, txt), Kind: kMsg, Data: buf.Bytes(), Origin: "go"})
				} else {
					c.notes = append(c.notes, "corpus: openpgp.Sign failed: "+err.Error())
				}
				var sb bytes.Buffer
				err = safely(func() error {
					if txt {
						return openpgp.DetachSignText(&sb, c.rsaSigner, bytes.NewReader(text), cfg)
					}
					return openpgp.DetachSign(&sb, c.rsaSigner, bytes.NewReader(text), cfg)
				})
				if err == nil {
					c.add(item{Name: fmt.Sprintf("go:detached:%v:%v", h, txt), Kind: kSig, Data: sb.Bytes(), Signed: text, Origin: "go"})
				}
			}
		}
		if len(signedMsgs) > 0 {
			c.add(item{Name: "go:compressed-signed", Kind: kMsg, Data: encodeDefault(compressPkt(2, signedMsgs[0])), Origin: "go"})
		}
		var ab bytes.Buffer
		if safely(func() error {
			return openpgp.ArmoredDetachSign(&ab, c.rsaSigner, bytes.NewReader(text), detConfig(r))
		}) == nil {
			c.add(item{Name: "go:armored-detached", Kind: kArmored, Data: ab.Bytes(), Signed: text, Origin: "go"})
		}
		var cb bytes.Buffer
		if safely(func() error {
			w, err := clearsign.Encode(&cb, c.rsaSigner.PrivateKey, detConfig(r))
			if err != nil {
				return err
			}
			w.Write(text)
			return w.Close()
		}) == nil {
			c.add(item{Name: "go:clearsign", Kind: kClearsign, Data: cb.Bytes(), Origin: "go"})
		}
		// the Go writer's own key serialisations
		var kb, sb bytes.Buffer
		if safely(func() error { return c.rsaSigner.Serialize(&kb) }) == nil {
			c.add(item{Name: "go:entity-serialize", Kind: kKeyring, Data: kb.Bytes(), Origin: "go"})
			var ar bytes.Buffer
			if safely(func() error {
				w, err := armor.Encode(&ar, openpgp.PublicKeyType, map[string]string{"Comment": "pgp2", "Version": "x"})
				if err != nil {
					return err
				}
				w.Write(kb.Bytes())
				return w.Close()
			}) == nil {
				c.add(item{Name: "go:entity-armored", Kind: kArmored, Data: ar.Bytes(), Origin: "go"})
			}
		}
		if safely(func() error { return c.rsaSigner.SerializePrivate(&sb, detConfig(r)) }) == nil {
			c.add(item{Name: "go:entity-serialize-private", Kind: kKeyring, Data: sb.Bytes(), Origin: "go"})
		}
	}
	// the package's own symmetric writer (all ciphers, S2K hash/count variants)
	for i, cf := range []packet.CipherFunction{packet.Cipher3DES, packet.CipherCAST5, packet.CipherAES128, packet.CipherAES192, packet.CipherAES256} {
		cfg := detConfig(r)
		cfg.DefaultCipher = cf
		cfg.DefaultHash = []crypto.Hash{crypto.SHA1, crypto.SHA256, crypto.SHA512, crypto.SHA224, crypto.SHA384}[i]
		cfg.S2KCount = []int{1024, 65536, 2048, 70000, 1024}[i]
		cfg.DefaultCompressionAlgo = packet.CompressionAlgo(i % 3)
		var buf bytes.Buffer
		err := safely(func() error {
			w, err := openpgp.SymmetricallyEncrypt(&buf, []byte(corpusPass), &openpgp.FileHints{IsBinary: true}, cfg)
			if err != nil {
				return err
			}
			w.Write(bigText[:100+800*i])
			return w.Close()
		})
		if err == nil {
			c.add(item{Name: fmt.Sprintf("go:symmetric:%d", cf), Kind: kMsg, Data: buf.Bytes(), Origin: "go"})
		} else {
			c.notes = append(c.notes, "corpus: SymmetricallyEncrypt failed: "+err.Error())
		}
	}
	// harness-built encrypted messages with rebuildable inner plaintext
	inners := [][]byte{encodeDefault(lit), encodeDefault(compressPkt(1, encodeDefault(lit))), encodeDefault(compressPkt(2, encodeDefault(literalPkt(false, "n", 5, bigText))))}
	inners = append(inners, signedMsgs...)
	type esk struct {
		name string
		mk   func(r *rand.Rand, cf packet.CipherFunction, key []byte) (rawPkt, bool)
	}
	var esks []esk
	if c.rsaEncPub != nil {
		esks = append(esks, esk{"rsa", func(r *rand.Rand, cf packet.CipherFunction, key []byte) (rawPkt, bool) {
			return buildPKESKRSA(r, c.rsaEncPub, c.rsaEncPub.KeyId, sessionPayload(cf, key)), true
		}})
		esks = append(esks, esk{"rsa-wild", func(r *rand.Rand, cf packet.CipherFunction, key []byte) (rawPkt, bool) {
			return buildPKESKRSA(r, c.rsaEncPub, 0, sessionPayload(cf, key)), true
		}})
	}
	if c.protEncPub != nil {
		esks = append(esks, esk{"rsa-prot", func(r *rand.Rand, cf packet.CipherFunction, key []byte) (rawPkt, bool) {
			return buildPKESKRSA(r, c.protEncPub, c.protEncPub.KeyId, sessionPayload(cf, key)), true
		}})
	}
	if c.elgEncPub != nil {
		esks = append(esks, esk{"elg-prot", func(r *rand.Rand, cf packet.CipherFunction, key []byte) (rawPkt, bool) {
			return buildPKESKElGamal(r, c.elgEncPub, c.elgEncPub.KeyId, sessionPayload(cf, key)), true
		}})
	}
	ciphers := []packet.CipherFunction{packet.CipherAES128, packet.CipherAES256, packet.Cipher3DES, packet.CipherCAST5, packet.CipherAES192}
	n := 0
	for ei, e := range esks {
		for ii, inner := range inners {
			if (ei+ii)%2 == 1 && ii > 1 {
				continue
			}
			cf := ciphers[n%len(ciphers)]
			mdc := n%3 != 2
			e := e
			rebuild := func(in []byte, r *rand.Rand, o *seOpts) []byte {
				key := mon.Bytes(r, cf.KeySize())
				p, _ := e.mk(r, cf, key)
				so := seOpts{MDC: mdc, Version: 1, TruncTo: -1}
				if o != nil {
					so = *o
				}
				se := buildSE(r, cf, key, in, so)
				return append(encodeDefault(p), encodeDefault(se)...)
			}
			c.add(item{Name: fmt.Sprintf("go:pk:%s:inner%d:cf%d:mdc=%v", e.name, ii, cf, mdc), Kind: kMsg, Data: rebuild(inner, r, nil), Origin: "go", Inner: inner, Rebuild: rebuild})
			n++
		}
	}
	specs := []s2kSpec{{Type: 0, Hash: 2}, {Type: 1, Hash: 8, Salt: []byte("saltsalt")}, {Type: 3, Hash: 10, Salt: []byte("SALTSALT"), Count: 0}, {Type: 3, Hash: 2, Salt: []byte("12345678"), Count: 96}, {Type: 3, Hash: 11, Salt: []byte("abcdefgh"), Count: 16}}
	for si, spec := range specs {
		for _, withESK := range []bool{false, true} {
			cf := ciphers[(si+1)%len(ciphers)]
			sessCf := ciphers[(si+2)%len(ciphers)]
			mdc := si%2 == 0
			inner := inners[si%len(inners)]
			spec, withESK := spec, withESK
			rebuild := func(in []byte, r *rand.Rand, o *seOpts) []byte {
				sk := mon.Bytes(r, sessCf.KeySize())
				p, key, kcf := buildSKESK(cf, spec, []byte(corpusPass), withESK, sessCf, sk)
				so := seOpts{MDC: mdc, Version: 1, TruncTo: -1}
				if o != nil {
					so = *o
				}
				se := buildSE(r, kcf, key, in, so)
				return append(encodeDefault(p), encodeDefault(se)...)
			}
			c.add(item{Name: fmt.Sprintf("go:sk:s2k%d-h%d:esk=%v:cf%d:mdc=%v", spec.Type, spec.Hash, withESK, cf, mdc), Kind: kMsg, Data: rebuild(inner, r, nil), Origin: "go", Inner: inner, Rebuild: rebuild})
		}
	}
}

func buildCorpus() *corpus {
	c := &corpus{}
	c.addGPG()
	root := os.Getenv("VERIF_REPO")
	if root == "" {
		root = "/repo"
	}
	c.extractRepo(root)
	c.loadKeys()
	c.addFresh()
	return c
}

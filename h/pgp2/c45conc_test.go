package pgp2

// Shared-value concurrency for C45: ONE EntityList / Entity (public and
// decrypted private keys) used by 4-8 goroutines at once for ReadMessage
// (decrypt + verify), CheckDetachedSignature, DetachSign, Encrypt, and the
// package-level parsers (ReadKeyRing, ReadArmoredKeyRing, armor.Decode/Encode,
// packet.Read, clearsign.Decode) on distinct readers over shared read-only
// bytes. Expected results come from a single-threaded run of the same call
// (run twice: calls that are not deterministic are not used). Private keys are
// decrypted BEFORE sharing; no goroutine ever calls PrivateKey.Decrypt.

import (
	"bytes"
	"crypto"
	"fmt"
	"io"
	"math/rand/v2"
	"runtime"
	"strings"
	"sync"
	"sync/atomic"
	"time"

	"golang.org/x/crypto/openpgp"
	"golang.org/x/crypto/openpgp/armor"
	"golang.org/x/crypto/openpgp/clearsign"
	"golang.org/x/crypto/openpgp/packet"
	"verif/mon"
)

// yieldReader is the reader handed to the library: a legal suspension point
// before and after every Read (the buffer is filled, then the goroutine yields).
type yieldReader struct{ r io.Reader }

func (y *yieldReader) Read(p []byte) (int, error) {
	runtime.Gosched()
	n, err := y.r.Read(p)
	runtime.Gosched()
	return n, err
}

func yr(b []byte) io.Reader { return &yieldReader{bytes.NewReader(b)} }

type yieldRand struct{ r *rand.Rand }

func (y *yieldRand) Read(p []byte) (int, error) {
	runtime.Gosched()
	for i := range p {
		p[i] = byte(y.r.Uint32())
	}
	runtime.Gosched()
	return len(p), nil
}

type concJob struct {
	api   string // key suffix
	share string // "shared" (a keyring/entity is used) | "distinct" (package-level function, own reader)
	name  string
	run   func() string
	want  string
}

func safeRun(f func() string) (res string) {
	defer func() {
		if v := recover(); v != nil {
			res = fmt.Sprintf("PANIC %v", v)
		}
	}()
	return f()
}

func ringDigest(el openpgp.EntityList, err error) string {
	var sb strings.Builder
	fmt.Fprintf(&sb, "%s|n=%d", errClass(err), len(el))
	for _, e := range el {
		fmt.Fprintf(&sb, "|%x:%d:%d:%v", e.PrimaryKey.Fingerprint, len(e.Identities), len(e.Subkeys), e.PrivateKey != nil)
		for _, s := range e.Subkeys {
			fmt.Fprintf(&sb, ",%x", s.PublicKey.Fingerprint[:4])
		}
	}
	return sb.String()
}

// concPrompt never touches a key: it offers the passphrase once.
func concPrompt() openpgp.PromptFunction {
	n := 0
	return func(keys []openpgp.Key, symmetric bool) ([]byte, error) {
		n++
		if n > 1 || !symmetric {
			return nil, errPromptRefuses
		}
		return []byte(corpusPass), nil
	}
}

func readMessageDigest(src io.Reader, ring openpgp.KeyRing) string {
	md, err := openpgp.ReadMessage(src, ring, concPrompt(), nil)
	if err != nil {
		return "err:" + errClass(err)
	}
	p := &progress{private: true}
	var body bytes.Buffer
	_, capped, derr := drain(io.TeeReader(&yieldReader{md.UnverifiedBody}, &body), 0, p)
	if capped {
		return "capped"
	}
	id := uint64(0)
	if md.SignedBy != nil {
		id = md.SignedBy.PublicKey.KeyId
	}
	return fmt.Sprintf("body:%s|%s|n=%d|enc=%v|signed=%v|by=%x|sigerr=%s|sym=%v|to=%x", errClass(derr), sha8(body.Bytes()), body.Len(), md.IsEncrypted, md.IsSigned, id, errClass(md.SignatureError), md.IsSymmetricallyEncrypted, md.EncryptedToKeyIds)
}

// buildConcJobs builds the job pool and the shared values, single-threaded.
func buildConcJobs(cp *corpus) (jobs []concJob, notes []string) {
	// the shared keyring: public keys + unprotected secret keys + protected
	// secret keys parsed afresh and decrypted here, before anything is shared
	shared := append(openpgp.EntityList(nil), cp.pubRing...)
	shared = append(shared, cp.secStatic...)
	for _, b := range cp.secProtected {
		el, err := openpgp.ReadKeyRing(bytes.NewReader(b))
		if err != nil {
			continue
		}
		for _, e := range el {
			if e.PrivateKey != nil && e.PrivateKey.Encrypted {
				e.PrivateKey.Decrypt([]byte(corpusPass))
			}
			for _, s := range e.Subkeys {
				if s.PrivateKey != nil && s.PrivateKey.Encrypted {
					s.PrivateKey.Decrypt([]byte(corpusPass))
				}
			}
		}
		shared = append(shared, el...)
	}
	pub := cp.pubRing
	add := func(api, share, name string, run func() string) {
		jobs = append(jobs, concJob{api: api, share: share, name: name, run: run})
	}
	mr := rand.New(rand.NewPCG(45, 0xc0c0))
	for _, it := range cp.items {
		it := it
		switch it.Kind {
		case kMsg:
			add("ReadMessage", "shared", it.Name, func() string { return readMessageDigest(yr(it.Data), shared) })
			if mr.IntN(2) == 0 { // an error-path variant of the same message
				mut, op := mutatePackets(cp, it.Data, mr, 0)
				add("ReadMessage", "shared", it.Name+"+"+op, func() string { return readMessageDigest(yr(mut), shared) })
			}
			add("packet.Read", "distinct", it.Name, func() string {
				return readPackets(yr(it.Data), 0, &progress{private: true}, 0, &caseOut{})
			})
		case kSig:
			add("CheckDetachedSignature", "shared", it.Name, func() string {
				e, err := openpgp.CheckDetachedSignature(pub, yr(it.Signed), yr(it.Data))
				if err != nil {
					return "err:" + errClass(err)
				}
				return fmt.Sprintf("ok:%x", e.PrimaryKey.Fingerprint)
			})
			mut := byteNoise(it.Data, mr)
			add("CheckDetachedSignature", "shared", it.Name+"+noise", func() string {
				e, err := openpgp.CheckDetachedSignature(pub, yr(it.Signed), yr(mut))
				if err != nil {
					return "err:" + errClass(err)
				}
				return fmt.Sprintf("ok:%x", e.PrimaryKey.Fingerprint)
			})
		case kKeyring:
			add("ReadKeyRing", "distinct", it.Name, func() string { return ringDigest(openpgp.ReadKeyRing(yr(it.Data))) })
			arm := armorEncode(it.Data, armorOpts{Type: "PGP PUBLIC KEY BLOCK", EndType: "PGP PUBLIC KEY BLOCK", EOL: "\n", CRC: "ok"})
			add("ReadArmoredKeyRing", "distinct", it.Name, func() string { return ringDigest(openpgp.ReadArmoredKeyRing(yr(arm))) })
		case kArmored:
			add("armor.Decode", "distinct", it.Name, func() string {
				blk, err := armor.Decode(yr(it.Data))
				if err != nil {
					return "err:" + errClass(err)
				}
				b, err := io.ReadAll(&yieldReader{blk.Body})
				return fmt.Sprintf("%s|%s|%s|%d", blk.Type, errClass(err), sha8(b), len(blk.Header))
			})
			if bin, ok := dearmor(it.Data); ok {
				typ := armorTypeOf(it.Data)
				add("armor.Encode", "distinct", it.Name, func() string {
					var out bytes.Buffer
					w, err := armor.Encode(&out, typ, map[string]string{"Comment": "c45"})
					if err != nil {
						return "err:" + errClass(err)
					}
					for off := 0; off < len(bin); off += 97 {
						w.Write(bin[off:min(len(bin), off+97)])
						runtime.Gosched()
					}
					w.Close()
					return sha8(out.Bytes()) + fmt.Sprint(out.Len())
				})
			}
		case kClearsign:
			add("clearsign.Decode", "shared", it.Name, func() string {
				b, rest := clearsign.Decode(it.Data)
				if b == nil {
					return "no-block"
				}
				sig, err := io.ReadAll(&yieldReader{b.ArmoredSignature.Body})
				if err != nil {
					return "sigbody:" + errClass(err)
				}
				e, err := openpgp.CheckDetachedSignature(pub, yr(b.Bytes), yr(sig))
				if err != nil {
					return fmt.Sprintf("err:%s|%s|%d", errClass(err), sha8(b.Bytes), len(rest))
				}
				return fmt.Sprintf("ok:%x|%s|%d", e.PrimaryKey.Fingerprint[:6], sha8(b.Bytes), len(rest))
			})
		}
	}
	// signing and encrypting with the shared entities
	if cp.rsaSigner != nil {
		signer := cp.rsaSigner
		var rcpt *openpgp.Entity
		for _, e := range pub {
			for n := range e.Identities {
				if strings.Contains(n, "rsa@pgp2.test") {
					rcpt = e
				}
			}
		}
		for i, h := range []crypto.Hash{crypto.SHA256, crypto.SHA512, crypto.SHA1, crypto.SHA384} {
			h, i := h, i
			text := bytes.Repeat(cp.text, 1+i*7)
			add("DetachSign", "shared", fmt.Sprint(h), func() string {
				var out bytes.Buffer
				cfg := &packet.Config{DefaultHash: h, Time: fixedTime, Rand: &yieldRand{rand.New(rand.NewPCG(1, uint64(i)))}}
				var err error
				if i%2 == 0 {
					err = openpgp.DetachSign(&out, signer, yr(text), cfg)
				} else {
					err = openpgp.DetachSignText(&out, signer, yr(text), cfg)
				}
				if err != nil {
					return "err:" + errClass(err)
				}
				// the signature must verify against the shared public ring
				e, verr := openpgp.CheckDetachedSignature(pub, yr(text), yr(out.Bytes()))
				ok := verr == nil && e != nil
				return fmt.Sprintf("%s|%d|verified=%v", sha8(out.Bytes()), out.Len(), ok)
			})
			if rcpt != nil {
				add("Encrypt+ReadMessage", "shared", fmt.Sprint(h), func() string {
					var out bytes.Buffer
					cfg := &packet.Config{DefaultHash: h, Time: fixedTime, Rand: &yieldRand{rand.New(rand.NewPCG(2, uint64(i)))},
						DefaultCompressionAlgo: packet.CompressionAlgo(i % 3)}
					w, err := openpgp.Encrypt(&out, []*openpgp.Entity{rcpt}, signer, &openpgp.FileHints{IsBinary: true}, cfg)
					if err != nil {
						return "err:" + errClass(err)
					}
					for off := 0; off < len(text); off += 50 {
						w.Write(text[off:min(len(text), off+50)])
						runtime.Gosched()
					}
					if err := w.Close(); err != nil {
						return "close:" + errClass(err)
					}
					// the ciphertext differs from run to run (RSA padding); the round trip must not
					return readMessageDigest(yr(out.Bytes()), shared)
				})
			}
		}
	}
	// expected results: two single-threaded runs must agree
	var keep []concJob
	dropped := 0
	for _, j := range jobs {
		a, b := safeRun(j.run), safeRun(j.run)
		if a != b || strings.HasPrefix(a, "PANIC") || a == "capped" {
			dropped++
			continue
		}
		j.want = a
		keep = append(keep, j)
	}
	if dropped > 0 {
		notes = append(notes, fmt.Sprintf("concurrency: %d job(s) not used (not deterministic single-threaded, capped or panicking)", dropped))
	}
	return keep, notes
}

var concAPIs = []string{"ReadMessage", "CheckDetachedSignature", "DetachSign", "Encrypt+ReadMessage", "clearsign.Decode", "ReadKeyRing", "ReadArmoredKeyRing", "armor.Decode", "armor.Encode", "packet.Read"}

// c45ConcurrentCase runs one barrier-started group of goroutines.
func c45ConcurrentCase(m *mon.M, jobs []concJob, byAPI map[string][]int, i int64, r *rand.Rand) {
	g := 4 + r.IntN(5)
	per := 2 + r.IntN(3)
	mode := []string{"same-job", "same-api", "mixed"}[int(i)%3]
	api := concAPIs[int(i/3)%len(concAPIs)]
	one := gomaxprocs1(i)
	plan := make([][]int, g)
	pick := func() int {
		if ids := byAPI[api]; mode != "mixed" && len(ids) > 0 {
			return ids[r.IntN(len(ids))]
		}
		return r.IntN(len(jobs))
	}
	same := pick()
	for k := range plan {
		for n := 0; n < per; n++ {
			if mode == "same-job" {
				plan[k] = append(plan[k], same)
			} else {
				plan[k] = append(plan[k], pick())
			}
		}
	}
	if one {
		prev := runtime.GOMAXPROCS(1)
		defer runtime.GOMAXPROCS(prev)
	}
	var inflight, maxIn atomic.Int32
	got := make([][]string, g)
	start := make(chan struct{})
	var wg sync.WaitGroup
	for k := 0; k < g; k++ {
		wg.Add(1)
		go func(k int) {
			defer wg.Done()
			<-start
			for _, ji := range plan[k] {
				n := inflight.Add(1)
				for {
					old := maxIn.Load()
					if n <= old || maxIn.CompareAndSwap(old, n) {
						break
					}
				}
				got[k] = append(got[k], safeRun(jobs[ji].run))
				inflight.Add(-1)
			}
		}(k)
	}
	done := make(chan struct{})
	go func() { wg.Wait(); close(done) }()
	close(start)
	select {
	case <-done:
	case <-time.After(10 * time.Minute):
		m.Inconclusive(fmt.Sprintf("concurrent case %d did not finish within 10 minutes", i))
		return
	}
	m.Count("concurrent_cases", 1)
	if maxIn.Load() >= 2 {
		m.Count("concurrent_overlap_cases", 1)
	}
	if one {
		m.Count("concurrent_gomaxprocs1_cases", 1)
	}
	for k := range plan {
		for n, ji := range plan[k] {
			j := jobs[ji]
			m.Eval()
			m.Count("concurrent:"+j.api, 1)
			m.Distinct(fmt.Sprintf("concurrent|%s|%s|%s|procs1=%v", j.api, j.share, mode, one))
			if got[k][n] != j.want {
				m.Violation("concurrent-result-differs:"+j.share+":"+j.api, map[string]any{
					"job": j.name, "mode": mode, "goroutines": g, "gomaxprocs1": one, "max_in_flight": maxIn.Load(),
					"got": got[k][n], "want_single_threaded": j.want})
			}
		}
	}
}

func gomaxprocs1(i int64) bool { return i%4 == 3 }

// c45ConcurrentStreams registers the stream and its gates. In the race build
// it runs in batch 0 only (the corpus is built once there).
func c45ConcurrentStreams(m *mon.M, cp *corpus) {
	jobs, notes := buildConcJobs(cp)
	for _, n := range notes {
		m.Note(n)
	}
	byAPI := map[string][]int{}
	for i, j := range jobs {
		byAPI[j.api] = append(byAPI[j.api], i)
	}
	if m.Batch() == 0 {
		m.Count("concurrent_job_pool", len(jobs))
	}
	total := m.N(240, 6000)
	if mon.RaceBuild {
		total = m.N(60, 900)
		m.Each("concurrent", total, func(i int64, r *rand.Rand) { c45ConcurrentCase(m, jobs, byAPI, i, r) })
	} else {
		m.Cases("concurrent", total, func(i int64, r *rand.Rand) { c45ConcurrentCase(m, jobs, byAPI, i, r) })
	}
}

func c45ConcurrentGates(m *mon.M) {
	q, t := 240, 6000
	if mon.RaceBuild {
		q, t = 60, 900
	}
	m.Gate("concurrent_overlap_cases", m.N(q/2, t/2), "goroutine groups in which at least two calls were in flight at once (atomic in-flight counter)")
	m.Gate("concurrent_gomaxprocs1_cases", m.N(q/8, t/8), "groups run under GOMAXPROCS(1) (per-P pools collide)")
	for _, a := range concAPIs {
		m.Gate("concurrent:"+a, m.N(q/6, t/6), "concurrent calls of this API judged against the single-threaded result")
	}
}

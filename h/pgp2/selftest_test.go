package pgp2

// Unit tests of the harness's own workload machinery (framing codec, message
// builders, corpus): the builders must produce messages the real reader
// accepts, otherwise the mutation workload would only scratch the surface.

import (
	"bytes"
	"io"
	"math/rand/v2"
	"strings"
	"testing"

	"golang.org/x/crypto/openpgp"
	"golang.org/x/crypto/openpgp/packet"
	"verif/mon"
)

func TestFrameRoundTrip(t *testing.T) {
	r := rand.New(rand.NewPCG(1, 2))
	for _, g := range gpgItems {
		if g.Hex == "" || g.Name == "text.txt" {
			continue
		}
		b := gpgBin(g.Name)
		ps, rest := splitPackets(b)
		if len(ps) == 0 || len(rest) != 0 {
			t.Fatalf("%s: split failed (%d packets, %d rest)", g.Name, len(ps), len(rest))
		}
		for form := 0; form < hForms; form++ {
			if form == hOldIndet {
				continue
			}
			var out []byte
			for _, p := range ps {
				e, _ := encodePkt(p, form, r)
				out = append(out, e...)
			}
			ps2, rest2 := splitPackets(out)
			if len(rest2) != 0 || len(ps2) != len(ps) {
				t.Fatalf("%s form %s: re-split %d/%d rest %d", g.Name, hFormNames[form], len(ps2), len(ps), len(rest2))
			}
			for i := range ps {
				if ps[i].Tag != ps2[i].Tag || !bytes.Equal(ps[i].Body, ps2[i].Body) {
					t.Fatalf("%s form %s: packet %d differs", g.Name, hFormNames[form], i)
				}
			}
			// the real reader sees the same packet count
			or := packet.NewOpaqueReader(bytes.NewReader(out))
			n := 0
			for {
				op, err := or.Next()
				if err != nil {
					break
				}
				if !bytes.Equal(op.Contents, ps[n].Body) || op.Tag != ps[n].Tag {
					t.Fatalf("%s form %s: opaque packet %d differs", g.Name, hFormNames[form], n)
				}
				n++
			}
			if n != len(ps) {
				t.Fatalf("%s form %s: opaque reader saw %d of %d", g.Name, hFormNames[form], n, len(ps))
			}
		}
	}
}

func TestStoredPkt(t *testing.T) {
	inner := encodeDefault(literalPkt(true, "a", 1, bytes.Repeat([]byte("stored block "), 9000)))
	for algo := byte(1); algo <= 2; algo++ {
		b := encodeDefault(storedPkt(algo, inner))
		p, err := packet.Read(bytes.NewReader(b))
		if err != nil {
			t.Fatal(err)
		}
		got, err := io.ReadAll(p.(*packet.Compressed).Body)
		if err != nil || !bytes.Equal(got, inner) {
			t.Fatalf("algo %d: stored compressed packet does not read back (%v)", algo, err)
		}
	}
}

func TestCorpusSanity(t *testing.T) {
	cp := buildCorpus()
	for _, n := range cp.notes {
		t.Log("note:", n)
	}
	t.Logf("items=%d counts=%v", len(cp.items), cp.counts)
	if len(cp.pubRing) < 4 || len(cp.secStatic) < 1 || cp.rsaSigner == nil || cp.rsaEncPub == nil || cp.elgEncPub == nil || cp.protEncPub == nil {
		t.Fatalf("keyrings incomplete: pub=%d secStatic=%d", len(cp.pubRing), len(cp.secStatic))
	}
	dec, ver, bad := 0, 0, 0
	for _, it := range cp.items {
		if it.Kind != kMsg || it.Origin == "repo" {
			continue
		}
		p := &progress{}
		out := &caseOut{}
		in := &caseIn{Entry: eReadMessage, Data: it.Data, Ring: "full", Prompt: "right", Buf: 7}
		pv, _ := mon.Panics(func() { c45CaseBody(cp, in, p, out) })
		if pv != nil {
			t.Logf("%s: panic %v", it.Name, pv)
			continue
		}
		if strings.HasPrefix(out.Class, "body:ok") {
			if strings.Contains(out.Class, ":enc") {
				dec++
			}
			if out.Verified {
				ver++
			}
		} else {
			bad++
			t.Logf("%s: %s", it.Name, out.Class)
		}
	}
	t.Logf("decrypted=%d verified=%d not-ok=%d", dec, ver, bad)
	if dec < 20 || ver < 8 {
		t.Fatalf("builders do not produce readable messages")
	}
	// harness-built message content check
	for _, it := range cp.items {
		if it.Rebuild == nil {
			continue
		}
		md, err := openpgp.ReadMessage(bytes.NewReader(it.Data), cp.fullRing(), makePrompt("right", &progress{}), nil)
		if err != nil {
			t.Fatalf("%s: %v", it.Name, err)
		}
		if _, err := io.ReadAll(md.UnverifiedBody); err != nil {
			t.Fatalf("%s: body: %v", it.Name, err)
		}
	}
	sigs := 0
	for _, it := range cp.items {
		if it.Kind != kSig || it.Origin == "repo" {
			continue
		}
		if _, err := openpgp.CheckDetachedSignature(cp.pubRing, bytes.NewReader(it.Signed), bytes.NewReader(it.Data)); err != nil {
			t.Logf("%s: %v", it.Name, err)
		} else {
			sigs++
		}
	}
	if sigs < 8 {
		t.Fatalf("only %d detached signatures verify", sigs)
	}
}

package pgp2

// "unavailable-hash" class for C45 (seed-independent): structurally valid
// signature / one-pass / S2K packets at the position where each reader
// verifies them, with the hash algorithm octet swept over ids that the
// OpenPGP table knows but the binary may not link (1 MD5, 3 RIPEMD-160,
// 11 SHA-224), linked ones, reserved, private and invalid ids. Every reader
// must return, never panic. The harness binary does not link RIPEMD-160
// (crypto.RIPEMD160.Available() is counted and gated).

import (
	"fmt"
	"math/rand/v2"
)

var hashSweep = []byte{0, 1, 2, 3, 8, 9, 10, 11, 12, 13, 14, 100, 105, 110, 255}
var keySigTypes = []byte{0x10, 0x11, 0x12, 0x13, 0x18, 0x19, 0x1f, 0x20, 0x28, 0x30, 0x00, 0x01}

func unavailableHashCases(cp *corpus) []labelled {
	var out []labelled
	r := rand.New(rand.NewPCG(45, 0x68617368))
	add := func(class, detail string, in caseIn) {
		if in.Buf == 0 {
			in.Buf = 512
		}
		if in.Signed == nil {
			in.Signed = cp.text
		}
		out = append(out, labelled{in, "hash:" + class + ":" + detail})
	}
	armorKey := func(b []byte) []byte {
		return armorEncode(b, armorOpts{Type: "PGP PUBLIC KEY BLOCK", EndType: "PGP PUBLIC KEY BLOCK", EOL: "\n", CRC: "ok"})
	}
	pubRSA, _ := splitPackets(gpgBin("pub_RSA.bin")) // pubkey, uid, self-sig, subkey, binding
	dsaSigned, _ := splitPackets(gpgBin("msg_s_dsa_nocomp.bin"))
	var rsaID, dsaID, otherID [8]byte
	if cp.rsaSigner != nil {
		putKeyID(rsaID[:], cp.rsaSigner.PrimaryKey.KeyId)
	}
	if len(dsaSigned) >= 3 && len(dsaSigned[0].Body) >= 12 {
		copy(dsaID[:], dsaSigned[0].Body[4:12])
	}
	putKeyID(otherID[:], 0x1122334455667788)
	ctime := []byte{5, 2, 0x65, 0x92, 0x00, 0x00}
	issuer := func(id [8]byte) []byte { return append([]byte{9, 16}, id[:]...) }
	mkSig := func(sigType, algo, hash byte, id [8]byte, extraHashed []byte) rawPkt {
		b := sigV4Body(sigType, algo, append(append([]byte(nil), ctime...), extraHashed...), issuer(id), r)
		b[3] = hash
		return rawPkt{Tag: 2, NewFmt: true, Body: b}
	}
	if len(pubRSA) < 5 {
		return out
	}
	type pos struct {
		name string
		at   int  // insert before this index
		repl bool // replace the packet at at-1… (the signature that normally stands there)
	}
	positions := []pos{
		{"after-primary-key", 1, false},
		{"replace-uid-selfsig", 2, true},
		{"after-uid-selfsig", 3, false},
		{"replace-subkey-binding", 4, true},
		{"after-subkey-binding", 5, false},
	}
	for _, st := range keySigTypes {
		for _, h := range hashSweep {
			for _, issuerID := range [][8]byte{rsaID, otherID} {
				who := "self"
				if issuerID == otherID {
					who = "other"
				}
				var extra []byte
				if st == 0x18 { // signing-capable subkey: key flags + embedded primary-key binding with the same hash octet
					emb := mkSig(0x19, 1, h, rsaID, nil).Body
					extra = encSubpkts([]subpkt{{27, []byte{0x02}}, {32, emb}}, nil)
				}
				sig := mkSig(st, 1, h, issuerID, extra)
				for _, p := range positions {
					var q []rawPkt
					if p.repl {
						q = append(append(append(q, pubRSA[:p.at]...), sig), pubRSA[p.at+1:]...)
					} else {
						q = append(append(append(q, pubRSA[:p.at]...), sig), pubRSA[p.at:]...)
					}
					kb := encodeSeq(q, nil)
					d := fmt.Sprintf("type%02x:hash%d:%s:%s", st, h, who, p.name)
					add("key-signature", d, caseIn{Entry: eReadKeyRing, Data: kb})
					if who == "self" {
						add("key-signature", d, caseIn{Entry: eReadArmoredK, Data: armorKey(kb)})
						add("key-signature", d, caseIn{Entry: eHostileRing, RingData: kb, Ring: "hostile"})
					}
				}
				if who == "self" {
					add("key-signature", fmt.Sprintf("type%02x:hash%d:packet", st, h), caseIn{Entry: ePacketRead, Data: encodeDefault(sig)})
				}
			}
		}
	}
	// a second, hash-valid entity after the damaged one and a revocation with a linked hash (control)
	// document signatures: detached (v4 and v3), one-pass messages, signature-first messages, clearsigned
	lit := literalPkt(true, "f", 0, cp.text)
	for _, st := range []byte{0x00, 0x01, 0x02, 0x10} {
		for _, h := range hashSweep {
			for _, who := range []struct {
				n    string
				algo byte
				id   [8]byte
			}{{"rsa", 1, rsaID}, {"dsa", 17, dsaID}, {"unknown", 1, otherID}} {
				sig := mkSig(st, who.algo, h, who.id, nil)
				sb := encodeDefault(sig)
				d := fmt.Sprintf("type%02x:hash%d:%s", st, h, who.n)
				add("document-signature", d+":detached", caseIn{Entry: eCheckDetach, Data: sb, Ring: "pub"})
				add("document-signature", d+":detached-armored", caseIn{Entry: eCheckDetach, Ring: "pub", Data: armorEncode(sb, armorOpts{Type: "PGP SIGNATURE", EndType: "PGP SIGNATURE", EOL: "\n", CRC: "ok"})})
				// v3 signature: version 3, hashed length 5, type, time, key id, algo, hash, tag, MPI
				v3 := []byte{3, 5, st, 0x65, 0x92, 0, 0}
				v3 = append(v3, who.id[:]...)
				v3 = append(v3, who.algo, h, 0xab, 0xcd)
				v3 = append(v3, sig.Body[len(sig.Body)-min(len(sig.Body), 44):]...)
				if who.algo == 1 {
					v3 = append(v3[:19], mpiBytes(append([]byte{0x81}, make([]byte, 255)...))...)
				}
				add("document-signature", d+":detached-v3", caseIn{Entry: eCheckDetach, Data: encodeDefault(rawPkt{Tag: 2, NewFmt: true, Body: v3}), Ring: "pub"})
				// one-pass: hash octet in the one-pass packet, in the signature, or both
				for _, where := range []string{"ops", "sig", "both"} {
					oh, sh := h, h
					if where == "ops" {
						sh = 8
					} else if where == "sig" {
						oh = 8
					}
					ops := append([]byte{3, st, oh, who.algo}, who.id[:]...)
					ops = append(ops, 1)
					msg := encodeDefault(rawPkt{Tag: 4, NewFmt: true, Body: ops})
					msg = append(msg, encodeDefault(lit)...)
					msg = append(msg, encodeDefault(mkSig(st, who.algo, sh, who.id, nil))...)
					add("one-pass-signature", d+":"+where, caseIn{Entry: eReadMessage, Data: msg, Ring: "pub", Buf: 64})
					add("one-pass-signature", d+":"+where+":compressed", caseIn{Entry: eReadMessage, Data: encodeDefault(storedPkt(1, msg)), Ring: "full", Prompt: "right"})
				}
				add("document-signature", d+":sig-first-msg", caseIn{Entry: eReadMessage, Data: append(append([]byte(nil), sb...), encodeDefault(lit)...), Ring: "pub"})
				if st <= 0x01 && who.n != "unknown" {
					name := map[byte]string{1: "MD5", 2: "SHA1", 3: "RIPEMD160", 8: "SHA256", 9: "SHA384", 10: "SHA512", 11: "SHA224"}[h]
					if name == "" {
						name = fmt.Sprintf("H%d", h)
					}
					cs := "-----BEGIN PGP SIGNED MESSAGE-----\nHash: " + name + "\n\nhello\n" + string(armorEncode(sb, armorOpts{Type: "PGP SIGNATURE", EndType: "PGP SIGNATURE", EOL: "\n", CRC: "ok"}))
					add("document-signature", d+":clearsigned", caseIn{Entry: eClearsign, Data: []byte(cs), Ring: "pub"})
				}
			}
		}
	}
	// S2K hash octets (symmetric-key ESK and protected secret keys)
	for _, name := range []string{"msg_sym_aes256_s2k3.bin", "msg_sym_3des_s2k1.bin", "msg_sym_cast5_s2k0.bin"} {
		ps, _ := splitPackets(gpgBin(name))
		if len(ps) == 0 || ps[0].Tag != 3 || len(ps[0].Body) < 4 {
			continue
		}
		for _, h := range hashSweep {
			q := clonePkts(ps)
			q[0].Body[3] = h
			add("s2k-hash", fmt.Sprintf("%s:hash%d", name, h), caseIn{Entry: eReadMessage, Data: encodeSeq(q, nil), Ring: "empty", Prompt: "right"})
			add("s2k-hash", fmt.Sprintf("%s:hash%d", name, h), caseIn{Entry: ePacketRead, Data: encodeDefault(q[0])})
		}
	}
	for _, name := range []string{"sec_PROT.bin", "sec_DSA.bin"} {
		ps, _ := splitPackets(gpgBin(name))
		for i := range ps {
			if ps[i].Tag != 5 && ps[i].Tag != 7 {
				continue
			}
			body := ps[i].Body
			want := map[byte]int{1: 2, 16: 3, 17: 4}[body[5]]
			po := walkMPIs(body, 6)
			if want == 0 || len(po) < want {
				continue
			}
			o := po[want-1]
			end := o + 2 + (int(body[o])<<8|int(body[o+1])+7)/8
			if end+3 >= len(body) || body[end] < 254 {
				continue
			}
			for _, h := range hashSweep {
				q := clonePkts(ps)
				q[i].Body[end+3] = h
				kb := encodeSeq(q, nil)
				add("s2k-hash", fmt.Sprintf("%s:pkt%d:hash%d", name, i, h), caseIn{Entry: eReadKeyRing, Data: kb})
				add("s2k-hash", fmt.Sprintf("%s:pkt%d:hash%d", name, i, h), caseIn{Entry: eHostileRing, RingData: kb, Ring: "hostile"})
			}
		}
	}
	return out
}

func hashClassOf(label string) string {
	s := label[len("hash:"):]
	for i := 0; i < len(s); i++ {
		if s[i] == ':' {
			return s[:i]
		}
	}
	return s
}

var hashGateMin = map[string]int{"key-signature": 3000, "document-signature": 620, "one-pass-signature": 860, "s2k-hash": 160}

package pgp2

// Directed, seed-independent "length-field truncation" stream for C45: for
// every length encoding the parsers know, the enclosing area ends after
// exactly 0,1,…,k-1 bytes of a k-byte length field, or exactly at the end of
// the length field with no body. Every case must give an error or a value.

import (
	"bytes"
	"fmt"
	"math/rand/v2"

	"golang.org/x/crypto/openpgp/packet"
	"verif/mon"
)

// truncKinds are the length-encoding kinds (one gate each).
var truncKinds = []string{
	"pkt-new1", "pkt-new2", "pkt-new5", "pkt-partial", "pkt-old1", "pkt-old2", "pkt-old4",
	"sigsub-1", "sigsub-2", "sigsub-5", "mpi", "s2k", "uattr-1", "uattr-2", "uattr-5",
	"ecc-oid", "ecdh-kdf", "literal-header", "sig-area-len",
}

// truncated length fields for the 1/2/5-octet subpacket length forms
// (RFC 4880 §5.2.3.1): the bytes are the LAST bytes of the enclosing area.
type lenCut struct {
	form string // "1","2","5"
	name string
	b    []byte
}

func subLenCuts() []lenCut {
	var out []lenCut
	add := func(form, name string, b ...byte) { out = append(out, lenCut{form, name, b}) }
	// one-octet form (k=1)
	add("1", "len5-no-body", 5)
	add("1", "len1-no-body", 1)
	add("1", "len191-no-body", 191)
	add("1", "len0", 0)
	// two-octet form (k=2): 1 of 2 bytes, then the full field with no body
	for _, f := range []byte{192, 200, 254} {
		add("2", fmt.Sprintf("1of2:%d", f), f)
		add("2", fmt.Sprintf("2of2-no-body:%d", f), f, 0)
		add("2", fmt.Sprintf("2of2-no-body:%d-ff", f), f, 0xff)
	}
	// five-octet form (k=5): 1..4 of 5 bytes, then the full field with no body
	for _, fill := range []byte{0x00, 0xff, 0x01} {
		for j := 1; j <= 4; j++ {
			b := []byte{0xff}
			for len(b) < j {
				b = append(b, fill)
			}
			add("5", fmt.Sprintf("%dof5:fill%02x", j, fill), b...)
		}
	}
	add("5", "5of5-no-body:1", 0xff, 0, 0, 0, 1)
	add("5", "5of5-no-body:0", 0xff, 0, 0, 0, 0)
	add("5", "5of5-no-body:max", 0xff, 0xff, 0xff, 0xff, 0xff)
	add("5", "5of5-no-body:2^31", 0xff, 0x80, 0, 0, 0)
	return out
}

// v4 signature body from its parts.
func sigV4Body(sigType, pkAlgo byte, hashed, unhashed []byte, r *rand.Rand) []byte {
	b := []byte{4, sigType, pkAlgo, 8, byte(len(hashed) >> 8), byte(len(hashed))}
	b = append(b, hashed...)
	b = append(b, byte(len(unhashed)>>8), byte(len(unhashed)))
	b = append(b, unhashed...)
	b = append(b, 0xab, 0xcd)
	switch pkAlgo {
	case 17, 19:
		b = append(b, mpiBytes(append([]byte{0x81}, mon.Bytes(r, 19)...))...)
		b = append(b, mpiBytes(append([]byte{0x81}, mon.Bytes(r, 19)...))...)
	default:
		b = append(b, mpiBytes(append([]byte{0x81}, mon.Bytes(r, 255)...))...)
	}
	return b
}

func truncationCases(cp *corpus) []labelled {
	var out []labelled
	r := rand.New(rand.NewPCG(45, 0x7472756e63))
	add := func(kind, detail string, in caseIn) {
		if in.Buf == 0 {
			in.Buf = 512
		}
		if in.Signed == nil {
			in.Signed = cp.text
		}
		out = append(out, labelled{in, "trunc:" + kind + ":" + detail})
	}
	armorKey := func(b []byte) []byte {
		return armorEncode(b, armorOpts{Type: "PGP PUBLIC KEY BLOCK", EndType: "PGP PUBLIC KEY BLOCK", EOL: "\n", CRC: "ok"})
	}
	text := cp.text
	lit := literalPkt(true, "f", 0, text)

	// material from the gpg corpus
	pubRSA, _ := splitPackets(gpgBin("pub_RSA.bin"))
	dsaSigned, _ := splitPackets(gpgBin("msg_s_dsa_nocomp.bin")) // OPS, literal, signature (DSA key of the public ring)
	var rsaKeyID, dsaKeyID [8]byte
	if len(dsaSigned) >= 3 && len(dsaSigned[0].Body) >= 12 {
		copy(dsaKeyID[:], dsaSigned[0].Body[4:12])
	}
	if cp.rsaSigner != nil {
		putKeyID(rsaKeyID[:], cp.rsaSigner.PrimaryKey.KeyId)
	}
	ctime := []byte{5, 2, 0x65, 0x92, 0x00, 0x00}
	issuer := func(id [8]byte) []byte { return append([]byte{9, 16}, id[:]...) }

	// sigContexts presents one signature body in every place a signature is parsed
	sigContexts := func(kind, detail string, mk func(pkAlgo byte, id [8]byte) []byte) {
		s1 := encodeDefault(rawPkt{Tag: 2, NewFmt: true, Body: mk(1, rsaKeyID)})
		add(kind, detail+"|detached", caseIn{Entry: eCheckDetach, Data: s1, Ring: "pub"})
		add(kind, detail+"|detached-armored", caseIn{Entry: eCheckDetach, Ring: "pub", Data: armorEncode(s1, armorOpts{Type: "PGP SIGNATURE", EndType: "PGP SIGNATURE", EOL: "\n", CRC: "ok"})})
		add(kind, detail+"|packet", caseIn{Entry: ePacketRead, Data: s1})
		// signature on a key: replace the user-id self-signature and, separately, the subkey binding
		for i := range pubRSA {
			if pubRSA[i].Tag != 2 {
				continue
			}
			q := clonePkts(pubRSA)
			body := mk(1, rsaKeyID)
			if len(body) > 1 && len(pubRSA[i].Body) > 1 {
				body[1] = pubRSA[i].Body[1] // keep the signature type (0x13 / 0x18)
			}
			q[i].Body = body
			kb := encodeSeq(q, nil)
			add(kind, fmt.Sprintf("%s|key-sig%d", detail, i), caseIn{Entry: eReadKeyRing, Data: kb})
			add(kind, fmt.Sprintf("%s|key-sig%d-armored", detail, i), caseIn{Entry: eReadArmoredK, Data: armorKey(kb)})
		}
		// one-pass signed message whose signer is in the keyring (the trailing signature is parsed at EOF of the body)
		if len(dsaSigned) >= 3 {
			sd := encodeDefault(rawPkt{Tag: 2, NewFmt: true, Body: mk(17, dsaKeyID)})
			msg := append(encodeSeq(dsaSigned[:2], nil), sd...)
			add(kind, detail+"|onepass-msg", caseIn{Entry: eReadMessage, Data: msg, Ring: "pub"})
			add(kind, detail+"|onepass-msg-buf1", caseIn{Entry: eReadMessage, Data: msg, Ring: "full", Prompt: "right", Buf: 1})
			add(kind, detail+"|onepass-msg-compressed", caseIn{Entry: eReadMessage, Data: encodeDefault(storedPkt(2, msg)), Ring: "pub"})
			// old-style signed message: signature first, then the literal data
			add(kind, detail+"|sig-first-msg", caseIn{Entry: eReadMessage, Data: append(append([]byte(nil), sd...), encodeDefault(lit)...), Ring: "pub"})
		}
		// as an embedded signature (subpacket 32) of a well-formed signature
		emb := mk(1, rsaKeyID)
		if len(emb) > 1 {
			emb[1] = 0x19
		}
		if len(emb) < 60000 {
			h := append(append([]byte(nil), ctime...), encSubpkts([]subpkt{{32, emb}}, nil)...)
			outer := encodeDefault(rawPkt{Tag: 2, NewFmt: true, Body: sigV4Body(0x18, 1, h, issuer(rsaKeyID), r)})
			add(kind, detail+"|embedded", caseIn{Entry: ePacketRead, Data: outer})
			add(kind, detail+"|embedded-detached", caseIn{Entry: eCheckDetach, Data: outer, Ring: "pub"})
		}
	}

	// ---- 1. signature subpacket lengths, hashed and unhashed area ----
	for _, c := range subLenCuts() {
		for _, area := range []string{"hashed", "unhashed"} {
			for _, pre := range []string{"after-valid-subpacket", "alone"} {
				c, area, pre := c, area, pre
				sigContexts("sigsub-"+c.form, c.name+"|"+area+"|"+pre, func(pkAlgo byte, id [8]byte) []byte {
					h, u := append([]byte(nil), ctime...), issuer(id)
					switch {
					case area == "hashed" && pre == "alone":
						h = append([]byte(nil), c.b...)
					case area == "hashed":
						h = append(h, c.b...)
					case pre == "alone":
						u = append([]byte(nil), c.b...)
					default:
						u = append(u, c.b...)
					}
					return sigV4Body(0, pkAlgo, h, u, r)
				})
			}
		}
	}
	// ---- 1b. the two-octet area lengths of the signature itself ----
	{
		full := sigV4Body(0, 1, ctime, issuer(rsaKeyID), r)
		for cut := 1; cut <= 6+len(ctime)+2+10; cut++ {
			cut := cut
			sigContexts("sig-area-len", fmt.Sprintf("body-cut-at-%d", cut), func(pkAlgo byte, id [8]byte) []byte {
				b := sigV4Body(0, pkAlgo, ctime, issuer(id), r)
				return b[:min(cut, len(b))]
			})
		}
		for _, hl := range []int{0, 1, 5, 7, 255, 65535} { // hashed length field lies while the body ends right after it
			b := append([]byte(nil), full[:6]...)
			b[4], b[5] = byte(hl>>8), byte(hl)
			add("sig-area-len", fmt.Sprintf("hashed-len=%d-no-body", hl), caseIn{Entry: ePacketRead, Data: encodeDefault(rawPkt{Tag: 2, NewFmt: true, Body: b})})
			add("sig-area-len", fmt.Sprintf("hashed-len=%d-no-body", hl), caseIn{Entry: eCheckDetach, Ring: "pub", Data: encodeDefault(rawPkt{Tag: 2, NewFmt: true, Body: b})})
			b2 := append(append([]byte(nil), full[:6+len(ctime)]...), byte(hl>>8), byte(hl))
			add("sig-area-len", fmt.Sprintf("unhashed-len=%d-no-body", hl), caseIn{Entry: ePacketRead, Data: encodeDefault(rawPkt{Tag: 2, NewFmt: true, Body: b2})})
			add("sig-area-len", fmt.Sprintf("unhashed-len=%d-no-body", hl), caseIn{Entry: eCheckDetach, Ring: "pub", Data: encodeDefault(rawPkt{Tag: 2, NewFmt: true, Body: b2})})
		}
	}

	// ---- 2. packet header lengths ----
	type hdrCut struct {
		kind, name string
		b          []byte
	}
	hdrCuts := func(tag byte) []hdrCut {
		var hs []hdrCut
		n := 0xc0 | tag
		hs = append(hs,
			hdrCut{"pkt-new1", "0of1", []byte{n}},
			hdrCut{"pkt-new1", "1of1-no-body:5", []byte{n, 5}},
			hdrCut{"pkt-new1", "1of1-no-body:191", []byte{n, 191}},
			hdrCut{"pkt-new1", "1of1-len0", []byte{n, 0}},
			hdrCut{"pkt-new2", "1of2", []byte{n, 192}},
			hdrCut{"pkt-new2", "1of2:223", []byte{n, 223}},
			hdrCut{"pkt-new2", "2of2-no-body", []byte{n, 192, 0}},
			hdrCut{"pkt-new2", "2of2-no-body:max", []byte{n, 223, 255}},
		)
		for j := 1; j <= 4; j++ {
			for _, fill := range []byte{0, 0xff} {
				b := []byte{n, 255}
				for len(b) < 1+j {
					b = append(b, fill)
				}
				hs = append(hs, hdrCut{"pkt-new5", fmt.Sprintf("%dof5:fill%02x", j, fill), b})
			}
		}
		hs = append(hs,
			hdrCut{"pkt-new5", "5of5-no-body:1", []byte{n, 255, 0, 0, 0, 1}},
			hdrCut{"pkt-new5", "5of5-len0", []byte{n, 255, 0, 0, 0, 0}},
			hdrCut{"pkt-new5", "5of5-no-body:max", []byte{n, 255, 255, 255, 255, 255}},
		)
		for _, p := range []byte{0, 1, 9, 30} {
			hs = append(hs, hdrCut{"pkt-partial", fmt.Sprintf("first-chunk-2^%d-no-body", p), []byte{n, 224 + p}})
		}
		hs = append(hs,
			hdrCut{"pkt-partial", "chunk-then-nothing", []byte{n, 224, 4}},
			hdrCut{"pkt-partial", "chunk-then-1of2", []byte{n, 224, 4, 192}},
			hdrCut{"pkt-partial", "chunk-then-2of2-no-body", []byte{n, 224, 4, 192, 0}},
			hdrCut{"pkt-partial", "chunk-then-1of5", []byte{n, 224, 4, 255}},
			hdrCut{"pkt-partial", "chunk-then-3of5", []byte{n, 224, 4, 255, 0, 0}},
			hdrCut{"pkt-partial", "chunk-then-4of5", []byte{n, 224, 4, 255, 0, 0, 0}},
			hdrCut{"pkt-partial", "chunk-then-5of5-no-body", []byte{n, 224, 4, 255, 0, 0, 0, 9}},
			hdrCut{"pkt-partial", "chunk-then-partial-no-body", []byte{n, 225, 4, 4, 226}},
			hdrCut{"pkt-partial", "chunk-then-len1-no-body", []byte{n, 224, 4, 1}},
		)
		if tag <= 15 {
			o := 0x80 | tag<<2
			hs = append(hs,
				hdrCut{"pkt-old1", "0of1", []byte{o}},
				hdrCut{"pkt-old1", "1of1-no-body", []byte{o, 7}},
				hdrCut{"pkt-old1", "1of1-len0", []byte{o, 0}},
				hdrCut{"pkt-old2", "0of2", []byte{o | 1}},
				hdrCut{"pkt-old2", "1of2", []byte{o | 1, 1}},
				hdrCut{"pkt-old2", "2of2-no-body", []byte{o | 1, 1, 0}},
				hdrCut{"pkt-old2", "2of2-len0", []byte{o | 1, 0, 0}},
				hdrCut{"pkt-old4", "0of4", []byte{o | 2}},
				hdrCut{"pkt-old4", "1of4", []byte{o | 2, 0}},
				hdrCut{"pkt-old4", "2of4", []byte{o | 2, 0, 0}},
				hdrCut{"pkt-old4", "3of4", []byte{o | 2, 0, 0, 1}},
				hdrCut{"pkt-old4", "4of4-no-body", []byte{o | 2, 0, 0, 1, 0}},
				hdrCut{"pkt-old4", "4of4-no-body:max", []byte{o | 2, 255, 255, 255, 255}},
				hdrCut{"pkt-old4", "4of4-len0", []byte{o | 2, 0, 0, 0, 0}},
			)
		}
		return hs
	}
	var esk []byte
	var eskKey []byte
	if cp.rsaEncPub != nil {
		eskKey = mon.Bytes(r, 16)
		esk = encodeDefault(buildPKESKRSA(r, cp.rsaEncPub, cp.rsaEncPub.KeyId, sessionPayload(packet.CipherAES128, eskKey)))
	}
	for _, tag := range []byte{1, 2, 3, 4, 5, 6, 8, 9, 11, 13, 14, 17, 18, 19, 61} {
		for _, h := range hdrCuts(tag) {
			d := fmt.Sprintf("tag%d:%s", tag, h.name)
			add(h.kind, d+"|first", caseIn{Entry: ePacketRead, Data: h.b})
			add(h.kind, d+"|first", caseIn{Entry: eReadKeyRing, Data: h.b})
			add(h.kind, d+"|first", caseIn{Entry: eReadMessage, Data: h.b, Ring: "full"})
			add(h.kind, d+"|first", caseIn{Entry: eCheckDetach, Data: h.b, Ring: "pub"})
			// after well-formed packets of the matching context
			afterKey := append(encodeSeq(pubRSA[:min(3, len(pubRSA))], nil), h.b...)
			add(h.kind, d+"|after-key-uid-sig", caseIn{Entry: eReadKeyRing, Data: afterKey})
			add(h.kind, d+"|after-key-uid-sig", caseIn{Entry: eReadArmoredK, Data: armorKey(afterKey)})
			if len(dsaSigned) >= 3 {
				add(h.kind, d+"|after-onepass-literal", caseIn{Entry: eReadMessage, Data: append(encodeSeq(dsaSigned[:2], nil), h.b...), Ring: "pub", Buf: 7})
				add(h.kind, d+"|after-signature", caseIn{Entry: eCheckDetach, Data: append(encodeDefault(dsaSigned[2]), h.b...), Ring: "empty"})
			}
			// nested: inside a compressed packet and below the encryption layer
			add(h.kind, d+"|in-compressed", caseIn{Entry: eReadMessage, Data: encodeDefault(storedPkt(1, h.b)), Ring: "full"})
			add(h.kind, d+"|in-compressed", caseIn{Entry: ePacketRead, Data: encodeDefault(storedPkt(2, append(encodeDefault(lit), h.b...)))})
			if esk != nil {
				for _, mdc := range []bool{true, false} {
					se := buildSE(r, packet.CipherAES128, eskKey, h.b, seOpts{MDC: mdc, Version: 1, TruncTo: -1})
					add(h.kind, fmt.Sprintf("%s|encrypted-mdc=%v", d, mdc), caseIn{Entry: eReadMessage, Data: append(append([]byte(nil), esk...), encodeDefault(se)...), Ring: "full", Buf: 23})
				}
			}
		}
	}

	// ---- 3. MPI bit-length prefixes ----
	mpiCuts := func(kind, name string, ps []rawPkt, i, from int, run func(detail string, seq []byte, one []byte)) {
		body := ps[i].Body
		offs := walkMPIs(body, from)
		for k, o := range offs {
			bits := int(body[o])<<8 | int(body[o+1])
			n := (bits + 7) / 8
			for _, cut := range []int{o, o + 1, o + 2, o + 2 + n - 1} {
				if cut < 0 || cut > len(body) || (cut == o+2+n-1 && n < 2) {
					continue
				}
				q := clonePkts(ps)
				q[i].Body = append([]byte(nil), body[:cut]...)
				run(fmt.Sprintf("%s:mpi%d:cut+%d", name, k, cut-o), encodeSeq(q, nil), encodeDefault(q[i]))
			}
		}
	}
	keyRun := func(detail string, seq, one []byte) {
		add("mpi", detail+"|keyring", caseIn{Entry: eReadKeyRing, Data: seq})
		add("mpi", detail+"|packet", caseIn{Entry: ePacketRead, Data: one})
		add("mpi", detail+"|hostile-ring", caseIn{Entry: eHostileRing, RingData: seq, Ring: "hostile"})
	}
	for _, name := range []string{"pub_RSA.bin", "pub_DSA.bin", "pub_ECC.bin", "sec_RSA.bin", "sec_PROT.bin"} {
		ps, _ := splitPackets(gpgBin(name))
		for i := range ps {
			switch ps[i].Tag {
			case 5, 6, 7, 14:
				if len(ps[i].Body) < 7 {
					continue
				}
				from := 6
				if a := ps[i].Body[5]; a == 18 || a == 19 {
					from = 7 + int(ps[i].Body[6])
				}
				mpiCuts("mpi", fmt.Sprintf("%s:pkt%d-tag%d", name, i, ps[i].Tag), ps, i, from, keyRun)
				if (ps[i].Tag == 5 || ps[i].Tag == 7) && name == "sec_RSA.bin" {
					// unprotected secret MPIs: after the public MPIs and the usage octet
					po := walkMPIs(ps[i].Body, 6)
					if len(po) >= 2 {
						o := po[1]
						end := o + 2 + (int(ps[i].Body[o])<<8|int(ps[i].Body[o+1])+7)/8
						if end < len(ps[i].Body) && ps[i].Body[end] == 0 {
							mpiCuts("mpi", fmt.Sprintf("%s:pkt%d-secret", name, i), ps, i, end+1, keyRun)
						}
					}
				}
			case 2:
				s := parseSigV4(ps[i].Body)
				if s.ok {
					mpiCuts("mpi", fmt.Sprintf("%s:pkt%d-sig", name, i), ps, i, len(ps[i].Body)-len(s.Tail)+2, keyRun)
				}
			}
		}
	}
	for _, name := range []string{"sig_rsa.bin", "sig_dsa.bin", "sig_ecdsa.bin"} {
		ps, _ := splitPackets(gpgBin(name))
		if len(ps) == 0 {
			continue
		}
		s := parseSigV4(ps[0].Body)
		if !s.ok {
			continue
		}
		mpiCuts("mpi", name, ps, 0, len(ps[0].Body)-len(s.Tail)+2, func(detail string, seq, one []byte) {
			add("mpi", detail+"|detached", caseIn{Entry: eCheckDetach, Data: seq, Ring: "pub"})
			add("mpi", detail+"|packet", caseIn{Entry: ePacketRead, Data: one})
			if len(dsaSigned) >= 3 {
				add("mpi", detail+"|onepass-msg", caseIn{Entry: eReadMessage, Data: append(encodeSeq(dsaSigned[:2], nil), one...), Ring: "pub"})
			}
		})
	}
	for _, name := range []string{"msg_se_rsa.bin", "msg_se_elg.bin", "msg_e_prot.bin"} {
		ps, _ := splitPackets(gpgBin(name))
		if len(ps) == 0 || ps[0].Tag != 1 {
			continue
		}
		mpiCuts("mpi", name+":pkesk", ps, 0, 10, func(detail string, seq, one []byte) {
			add("mpi", detail+"|message", caseIn{Entry: eReadMessage, Data: seq, Ring: "full", Prompt: "right"})
			add("mpi", detail+"|packet", caseIn{Entry: ePacketRead, Data: one})
		})
	}

	// ---- 4. S2K specifiers ----
	for _, name := range []string{"msg_sym_aes256_s2k3.bin", "msg_sym_3des_s2k1.bin", "msg_sym_cast5_s2k0.bin"} {
		ps, _ := splitPackets(gpgBin(name))
		if len(ps) == 0 || ps[0].Tag != 3 {
			continue
		}
		for cut := 0; cut <= len(ps[0].Body); cut++ {
			q := clonePkts(ps)
			q[0].Body = append([]byte(nil), ps[0].Body[:cut]...)
			add("s2k", fmt.Sprintf("%s:skesk-cut-at-%d", name, cut), caseIn{Entry: eReadMessage, Data: encodeSeq(q, nil), Ring: "empty", Prompt: "right"})
			add("s2k", fmt.Sprintf("%s:skesk-cut-at-%d", name, cut), caseIn{Entry: ePacketRead, Data: encodeDefault(q[0])})
		}
	}
	for _, name := range []string{"sec_PROT.bin", "sec_DSA.bin"} {
		ps, _ := splitPackets(gpgBin(name))
		for i := range ps {
			if ps[i].Tag != 5 && ps[i].Tag != 7 {
				continue
			}
			body := ps[i].Body
			want := map[byte]int{1: 2, 16: 3, 17: 4}[body[5]]
			po := walkMPIs(body, 6)
			if want == 0 || len(po) < want {
				continue
			}
			o := po[want-1]
			end := o + 2 + (int(body[o])<<8|int(body[o+1])+7)/8
			for cut := end; cut <= min(len(body), end+1+1+11+16+3); cut++ {
				q := clonePkts(ps)
				q[i].Body = append([]byte(nil), body[:cut]...)
				d := fmt.Sprintf("%s:pkt%d:secret-part-cut-at+%d", name, i, cut-end)
				add("s2k", d, caseIn{Entry: eReadKeyRing, Data: encodeSeq(q, nil)})
				add("s2k", d, caseIn{Entry: ePacketRead, Data: encodeDefault(q[i])})
				add("s2k", d, caseIn{Entry: eHostileRing, RingData: encodeSeq(q, nil), Ring: "hostile"})
			}
		}
	}

	// ---- 5. user attribute subpacket lengths ----
	img := append([]byte{1}, append(make([]byte, 16), []byte("JFIF-data")...)...) // subtype 1 + 16-octet image header + data
	validUA := append(encSubLen(len(img), 0), img...)
	for _, c := range subLenCuts() {
		for _, pre := range []string{"after-valid-subpacket", "alone"} {
			body := append([]byte(nil), c.b...)
			if pre != "alone" {
				body = append(append([]byte(nil), validUA...), c.b...)
			}
			ua := rawPkt{Tag: 17, NewFmt: true, Body: body}
			d := c.name + "|" + pre
			add("uattr-"+c.form, d, caseIn{Entry: ePacketRead, Data: encodeDefault(ua)})
			if len(pubRSA) >= 3 {
				q := append(append(append([]rawPkt{}, pubRSA[:3]...), ua, pubRSA[2]), pubRSA[3:]...)
				add("uattr-"+c.form, d+"|in-key", caseIn{Entry: eReadKeyRing, Data: encodeSeq(q, nil)})
				add("uattr-"+c.form, d+"|in-key-armored", caseIn{Entry: eReadArmoredK, Data: armorKey(encodeSeq(q, nil))})
			}
			add("uattr-"+c.form, d+"|in-message", caseIn{Entry: eReadMessage, Data: append(encodeDefault(ua), encodeDefault(lit)...), Ring: "empty"})
		}
	}

	// ---- 6. other one-octet length fields: ECC OID, ECDH KDF parameters, literal file name ----
	ecc, _ := splitPackets(gpgBin("pub_ECC.bin"))
	for i := range ecc {
		if ecc[i].Tag != 6 && ecc[i].Tag != 14 {
			continue
		}
		body := ecc[i].Body
		ol := int(body[6])
		for cut := 6; cut <= 7+ol+2; cut++ {
			q := clonePkts(ecc)
			q[i].Body = append([]byte(nil), body[:cut]...)
			d := fmt.Sprintf("pkt%d:cut-at-%d", i, cut)
			add("ecc-oid", d, caseIn{Entry: eReadKeyRing, Data: encodeSeq(q, nil)})
			add("ecc-oid", d, caseIn{Entry: ePacketRead, Data: encodeDefault(q[i])})
		}
		for _, l := range []byte{0, 1, 7, 9, 200, 255} { // OID length octet lies, body ends where the OID should be
			q := clonePkts(ecc)
			q[i].Body = append(append([]byte(nil), body[:6]...), l)
			add("ecc-oid", fmt.Sprintf("pkt%d:oidlen=%d-no-body", i, l), caseIn{Entry: ePacketRead, Data: encodeDefault(q[i])})
			add("ecc-oid", fmt.Sprintf("pkt%d:oidlen=%d-no-body", i, l), caseIn{Entry: eReadKeyRing, Data: encodeSeq(q, nil)})
		}
		if body[5] == 18 {
			for back := 0; back <= 4; back++ {
				q := clonePkts(ecc)
				q[i].Body = append([]byte(nil), body[:len(body)-back]...)
				add("ecdh-kdf", fmt.Sprintf("pkt%d:%d-bytes-short", i, back), caseIn{Entry: eReadKeyRing, Data: encodeSeq(q, nil)})
				add("ecdh-kdf", fmt.Sprintf("pkt%d:%d-bytes-short", i, back), caseIn{Entry: ePacketRead, Data: encodeDefault(q[i])})
			}
			for _, l := range []byte{0, 1, 2, 3, 4, 255} {
				q := clonePkts(ecc)
				b := append([]byte(nil), body[:len(body)-4]...)
				q[i].Body = append(b, l)
				add("ecdh-kdf", fmt.Sprintf("pkt%d:kdflen=%d-no-body", i, l), caseIn{Entry: ePacketRead, Data: encodeDefault(q[i])})
				add("ecdh-kdf", fmt.Sprintf("pkt%d:kdflen=%d-no-body", i, l), caseIn{Entry: eReadKeyRing, Data: encodeSeq(q, nil)})
			}
		}
	}
	for cut := 0; cut <= 2+1+4; cut++ {
		b := append([]byte(nil), lit.Body[:cut]...)
		for _, l := range []int{-1, 0, 1, 5, 255} {
			bb := append([]byte(nil), b...)
			if l >= 0 && len(bb) >= 2 {
				bb[1] = byte(l)
			}
			p := encodeDefault(rawPkt{Tag: 11, NewFmt: true, Body: bb})
			d := fmt.Sprintf("cut-at-%d:namelen=%d", cut, l)
			add("literal-header", d, caseIn{Entry: eReadMessage, Data: p, Ring: "empty"})
			add("literal-header", d, caseIn{Entry: ePacketRead, Data: p})
			if len(dsaSigned) >= 3 {
				add("literal-header", d+"|after-onepass", caseIn{Entry: eReadMessage, Data: append(encodeDefault(dsaSigned[0]), p...), Ring: "pub"})
			}
		}
	}
	_ = bytes.Equal
	return out
}

// truncKindOf extracts the kind from a label "trunc:<kind>:…".
func truncKindOf(label string) string {
	s := label[len("trunc:"):]
	for i := 0; i < len(s); i++ {
		if s[i] == ':' {
			return s[:i]
		}
	}
	return s
}

// gate minimums (the stream is deterministic; the values are ~80 % of the
// number of cases built for each kind)
var truncGateMin = map[string]int{
	"ecc-oid": 57,
	"ecdh-kdf": 17,
	"literal-header": 96,
	"mpi": 491,
	"pkt-new1": 576,
	"pkt-new2": 576,
	"pkt-new5": 1584,
	"pkt-old1": 316,
	"pkt-old2": 422,
	"pkt-old4": 739,
	"pkt-partial": 1872,
	"s2k": 368,
	"sig-area-len": 268,
	"sigsub-1": 166,
	"sigsub-2": 374,
	"sigsub-5": 665,
	"uattr-1": 25,
	"uattr-2": 57,
	"uattr-5": 102,
}

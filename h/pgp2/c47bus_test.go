package pgp2

// Message bus and observation log for C47: two otr.Conversation objects whose
// outputs are carried by the harness (which may drop, duplicate, mutate or
// hold back messages) and every API call is logged with its results.

import (
	"bytes"
	"encoding/base64"
	"encoding/hex"
	"fmt"
	"math/rand/v2"
	"strings"

	"golang.org/x/crypto/otr"
	"verif/mon"
)

var otrKeys []*otr.PrivateKey

func loadOTRKeys() {
	if otrKeys != nil {
		return
	}
	for _, h := range otrKeyHex {
		b, err := hex.DecodeString(h)
		if err != nil {
			panic(err)
		}
		k := new(otr.PrivateKey)
		if rest, ok := k.Parse(b); !ok || len(rest) != 0 {
			panic("embedded OTR key does not parse")
		}
		otrKeys = append(otrKeys, k)
	}
}

type rcv struct {
	out       []byte
	encrypted bool
	change    otr.SecurityChange
	nSend     int
	err       error
	panicked  bool
}

type side struct {
	name   string
	c      *otr.Conversation
	key    *otr.PrivateKey
	inbox  [][]byte // wire messages waiting to be delivered to this side
	log    []rcv    // results of Receive since the last mark
	secret []byte   // last secret given to Authenticate
	zero   *int     // > 0: that many of the next 16-byte reads of Rand return zeros (degenerate SMP exponents)
	// smpStale: this side initiated an SMP run that failed and has neither
	// started nor been offered another one since (context for violation keys)
	smpStale bool
}

type bus struct {
	m     *mon.M
	a, b  *side
	trace []string
	dead  bool
	stats map[string]int
}

func changeName(c otr.SecurityChange) string {
	switch c {
	case otr.NoChange:
		return "NoChange"
	case otr.NewKeys:
		return "NewKeys"
	case otr.SMPSecretNeeded:
		return "SMPSecretNeeded"
	case otr.SMPComplete:
		return "SMPComplete"
	case otr.SMPFailed:
		return "SMPFailed"
	case otr.ConversationEnded:
		return "ConversationEnded"
	}
	return fmt.Sprint(int(c))
}

func newBus(m *mon.M, r *rand.Rand, ka, kb int, fa, fb int) *bus {
	loadOTRKeys()
	mk := func(name string, k *otr.PrivateKey, fs int, salt uint64) *side {
		rr := rand.New(rand.NewPCG(r.Uint64(), salt))
		z := new(int)
		return &side{name: name, key: k, zero: z, c: &otr.Conversation{PrivateKey: k, Rand: &switchReader{base: mon.Reader{R: rr}, zero: z}, FragmentSize: fs}}
	}
	return &bus{m: m, a: mk("A", otrKeys[ka], fa, 1), b: mk("B", otrKeys[kb], fb, 2), stats: map[string]int{}}
}

// switchReader is the Conversation's entropy source: the seeded PRNG, except
// that the harness can make the next 16-byte reads (the size of the SMP
// exponents) return zeros — a peer with degenerate randomness.
type switchReader struct {
	base mon.Reader
	zero *int
}

func (s *switchReader) Read(p []byte) (int, error) {
	if len(p) == 16 && *s.zero > 0 {
		*s.zero--
		for i := range p {
			p[i] = 0
		}
		return len(p), nil
	}
	return s.base.Read(p)
}

func (b *bus) peer(s *side) *side {
	if s == b.a {
		return b.b
	}
	return b.a
}

func (b *bus) tr(format string, args ...any) {
	if len(b.trace) < 400 {
		b.trace = append(b.trace, fmt.Sprintf(format, args...))
	}
}

func short(x []byte) string {
	if len(x) > 48 {
		return fmt.Sprintf("%q…(%d)", x[:48], len(x))
	}
	return fmt.Sprintf("%q", x)
}

func (b *bus) witness(extra map[string]any) map[string]any {
	w := map[string]any{"trace": append([]string(nil), b.trace...), "fragment_size_A": b.a.c.FragmentSize, "fragment_size_B": b.b.c.FragmentSize}
	for k, v := range extra {
		w[k] = v
	}
	return w
}

// apiPanic records a panic of an API call as a violation; the conversation
// pair is not used any further.
func (b *bus) apiPanic(entry string, pv any, stack string, extra map[string]any) {
	b.dead = true
	b.m.Count("panics_seen", 1)
	w := b.witness(extra)
	w["panic"] = fmt.Sprint(pv)
	w["stack"] = trim(stack, 2500)
	b.m.Violation("panic:"+entry+":"+mon.PanicSite(stack), w)
}

// recv delivers one wire message to s (never queued) and logs the result;
// replies are queued for the peer.
func (b *bus) recv(s *side, msg []byte) rcv {
	var res rcv
	if b.dead {
		res.panicked = true
		return res
	}
	var toSend [][]byte
	pv, stack := mon.Panics(func() {
		res.out, res.encrypted, res.change, toSend, res.err = s.c.Receive(msg)
	})
	b.m.Eval()
	b.stats["receive_calls"]++
	if pv != nil {
		res.panicked = true
		b.tr("%s.Receive(%s) PANIC %v", s.name, short(msg), pv)
		b.apiPanic("Receive", pv, stack, map[string]any{"input_hex": mon.FullHex(msg), "input": short(msg), "side": s.name})
		return res
	}
	res.nSend = len(toSend)
	if res.err != nil || res.change != otr.NoChange || res.out != nil || len(toSend) > 0 {
		b.tr("%s.Receive(%s) -> out=%s enc=%v change=%s send=%d err=%v", s.name, short(msg), short(res.out), res.encrypted, changeName(res.change), len(toSend), res.err)
	}
	p := b.peer(s)
	for _, t := range toSend {
		b.checkFragSize(s, t)
		p.inbox = append(p.inbox, t)
	}
	s.log = append(s.log, res)
	return res
}

func (b *bus) checkFragSize(s *side, wire []byte) {
	if fs := s.c.FragmentSize; fs > 18 { // 18 and below: fragmentation is off
		if len(wire) > fs {
			b.stats["fragment_over_size"]++
		} else {
			b.stats["fragment_within_size"]++
		}
	}
}

// pump delivers queued messages (alternating sides) until both inboxes are
// empty; the number of deliveries is bounded.
func (b *bus) pump() {
	for steps := 0; steps < 200000 && !b.dead; steps++ {
		var s *side
		switch {
		case len(b.a.inbox) > 0 && (steps%2 == 0 || len(b.b.inbox) == 0):
			s = b.a
		case len(b.b.inbox) > 0:
			s = b.b
		default:
			return
		}
		msg := s.inbox[0]
		s.inbox = s.inbox[1:]
		b.recv(s, msg)
	}
	if !b.dead {
		b.m.Inconclusive("bus: message exchange did not quiesce within 200000 deliveries")
		b.dead = true
	}
}

func (s *side) mark() int { return len(s.log) }

func (s *side) changesSince(k int) (out []otr.SecurityChange) {
	for _, r := range s.log[k:] {
		if r.change != otr.NoChange {
			out = append(out, r.change)
		}
	}
	return
}

func countChange(cs []otr.SecurityChange, c otr.SecurityChange) int {
	n := 0
	for _, x := range cs {
		if x == c {
			n++
		}
	}
	return n
}

// send calls s.Send(msg) and returns the wire messages (not yet delivered).
func (b *bus) send(s *side, msg []byte) ([][]byte, error) {
	if b.dead {
		return nil, fmt.Errorf("dead")
	}
	var wire [][]byte
	var err error
	pv, stack := mon.Panics(func() { wire, err = s.c.Send(msg) })
	b.m.Eval()
	b.stats["send_calls"]++
	if pv != nil {
		b.tr("%s.Send(%s) PANIC %v", s.name, short(msg), pv)
		b.apiPanic("Send", pv, stack, map[string]any{"message_hex": mon.FullHex(msg), "side": s.name})
		return nil, fmt.Errorf("panic")
	}
	b.tr("%s.Send(%s) -> %d wire message(s) err=%v", s.name, short(msg), len(wire), err)
	for _, w := range wire {
		b.checkFragSize(s, w)
	}
	return wire, err
}

func (b *bus) authenticate(s *side, question string, secret []byte) ([][]byte, error) {
	if b.dead {
		return nil, fmt.Errorf("dead")
	}
	var wire [][]byte
	var err error
	s.secret = secret
	pv, stack := mon.Panics(func() { wire, err = s.c.Authenticate(question, secret) })
	b.m.Eval()
	if pv != nil {
		b.tr("%s.Authenticate PANIC %v", s.name, pv)
		b.apiPanic("Authenticate", pv, stack, map[string]any{"question": question, "secret_hex": mon.FullHex(secret), "side": s.name})
		return nil, fmt.Errorf("panic")
	}
	b.tr("%s.Authenticate(q=%q, secret=%s) -> %d wire message(s) err=%v", s.name, question, short(secret), len(wire), err)
	p := b.peer(s)
	for _, w := range wire {
		b.checkFragSize(s, w)
		p.inbox = append(p.inbox, w)
	}
	return wire, err
}

func (b *bus) end(s *side) [][]byte {
	if b.dead {
		return nil
	}
	var wire [][]byte
	pv, stack := mon.Panics(func() { wire = s.c.End() })
	b.m.Eval()
	if pv != nil {
		b.apiPanic("End", pv, stack, map[string]any{"side": s.name})
		return nil
	}
	b.tr("%s.End() -> %d wire message(s)", s.name, len(wire))
	return wire
}

// deliverAll delivers wire (all fragments, in order) directly to s and returns
// the results.
func (b *bus) deliverAll(s *side, wire [][]byte) []rcv {
	var out []rcv
	for _, w := range wire {
		out = append(out, b.recv(s, w))
	}
	return out
}

// handshake starts an AKE. mode: "query-to-b" (B receives A's query),
// "query-to-a", "simultaneous" (both receive a query before any reply is
// delivered), "embedded" (query inside other text).
func (b *bus) handshake(mode string) {
	q := []byte(otr.QueryMessage)
	switch mode {
	case "query-to-a":
		b.recv(b.a, q)
	case "simultaneous":
		b.recv(b.a, q)
		b.recv(b.b, q)
	case "embedded":
		b.recv(b.b, []byte("hello ?OTR?v2? this client supports OTR"))
	default:
		b.recv(b.b, q)
	}
	b.pump()
}

// decodeWire returns the binary form of an unfragmented "?OTR:...." message.
func decodeWire(w []byte) ([]byte, bool) {
	if !bytes.HasPrefix(w, []byte("?OTR:")) || !bytes.HasSuffix(w, []byte(".")) {
		return nil, false
	}
	b, err := base64.StdEncoding.DecodeString(string(w[5 : len(w)-1]))
	if err != nil {
		return nil, false
	}
	return b, true
}

func encodeWire(b []byte) []byte {
	return []byte("?OTR:" + base64.StdEncoding.EncodeToString(b) + ".")
}

// joinFragments reassembles "?OTR,k,n,piece," fragments produced by encode.
func joinFragments(wire [][]byte) []byte {
	if len(wire) == 1 && bytes.HasPrefix(wire[0], []byte("?OTR:")) {
		return wire[0]
	}
	var sb bytes.Buffer
	for _, f := range wire {
		parts := strings.Split(string(f), ",")
		if len(parts) != 5 {
			return nil
		}
		sb.WriteString(parts[3])
	}
	return sb.Bytes()
}

// dataRegions splits a decoded data message into named byte regions
// (OTR v2 spec "Data Message"): header(3) flags(1) sender keyid(4) recipient
// keyid(4) dh-y MPI(4+n) ctr(8) enc-msg DATA(4+n) mac(20) old-mac-keys DATA(4+n).
type region struct {
	name     string
	from, to int
}

func dataRegions(b []byte) ([]region, bool) {
	var rs []region
	off := 0
	add := func(name string, n int) bool {
		if off+n > len(b) {
			return false
		}
		rs = append(rs, region{name, off, off + n})
		off += n
		return true
	}
	u32 := func() (int, bool) {
		if off+4 > len(b) {
			return 0, false
		}
		return int(b[off])<<24 | int(b[off+1])<<16 | int(b[off+2])<<8 | int(b[off+3]), true
	}
	if !add("version", 2) || !add("type", 1) || !add("flags", 1) || !add("sender-keyid", 4) || !add("recipient-keyid", 4) {
		return nil, false
	}
	n, ok := u32()
	if !ok || !add("dh-y-len", 4) || !add("dh-y", n) || !add("ctr", 8) {
		return nil, false
	}
	n, ok = u32()
	if !ok || !add("enc-len", 4) || !add("enc", n) || !add("mac", 20) {
		return nil, false
	}
	n, ok = u32()
	if !ok || !add("oldmacs-len", 4) || !add("oldmacs", n) || off != len(b) {
		return nil, false
	}
	return rs, true
}

func regionOf(rs []region, pos int) string {
	for _, r := range rs {
		if pos >= r.from && pos < r.to {
			return r.name
		}
	}
	return "?"
}

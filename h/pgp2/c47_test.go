package pgp2

import (
	"bytes"
	"fmt"
	"math/rand/v2"
	"strings"
	"testing"

	"golang.org/x/crypto/otr"
	"verif/mon"
)

var otrFragSizes = []int{0, 0, 17, 18, 19, 20, 21, 25, 40, 60, 100, 256, 1000, 100000}

// C47: OTR conversations deliver messages and authenticate secrets.
func TestC47(t *testing.T) {
	m := mon.New(t, "C47")
	defer m.Done()
	m.Rule("streams: 'conv' = PRNG-scripted conversation of two otr.Conversation objects over a harness bus (start ∈ {query to A, query to B, simultaneous, embedded query}; FragmentSize per side ∈ {0,17,18,19,20,21,25,40,60,100,256,1000,100000} (≤ 18 = fragmentation off); ops: send (content classes empty/short/random/padding-boundary/whitespace-tag/query-like/utf8/large), duplicate data message (now or delayed), drop data message, drop/duplicate one fragment, mutate-then-original, SMP with equal/unequal secrets with/without question in both directions, re-handshake, End + restart) judged by the model {both encrypted after AKE with equal SSID and the peer's real key; every Send(m) is received as exactly m once; duplicates and mutants deliver nothing; SMPComplete on both sides iff secrets equal else SMPFailed on both}; 'crossed' = both sides Send 1..3 messages before either Receives, delivery in every interleaving that keeps each direction FIFO, then follow-ups from both sides, over several key rotations with SMP runs and re-AKEs in between (every genuine message delivered unchanged; key genuine-message-rejected:crossed:<pattern>); 'data-mutation' = every byte of every encoded data-message class (text, with revealed MAC keys, SMP1..4, disconnect) mutated before base64 and every character of the base64 text (rejection judged per wire region; the unauthenticated revealed-MAC-keys field may be accepted but then the plaintext must be unchanged) followed by the original (must still be accepted); 'ake-mutation' = byte mutations of DH-commit/DH-key/reveal-sig/sig messages (panic-freedom; authentication consistency counted); 'smp-degenerate' = unequal secrets where one side's entropy source returns zeros for the SMP exponents (initiator/responder × first exponent/all exponents): never SMPComplete; 'smp-chaos' = SMP restarts/crossings/aborts (panic-freedom; never SMPComplete on unequal secrets); 'smp-hostile-tlv' = correctly MACed data messages carrying hostile SMP TLVs (counts 0..2^32-1, MPIs 0/1/p-1/p/huge/truncated, questions without NUL, unknown TLV types) sent through the verif hook otr.VerifSendTLV against an honest side in each SMP state (no panic, no plaintext, no SMPComplete); 'hostile' = grammar-generated inputs (well-framed OTR messages with hostile fields, fragments with k>n / n=0 / huge indices, query variants, random ?OTR:/?OTR, strings) against conversations in every state (no panic, no encrypted plaintext accepted); 'nul' = messages with an embedded NUL; 'frag18' = FragmentSize 18 (the documented minimum: every API call that encodes a message must work, unfragmented). distinct key = stream|op|content class|fragment sizes|outcome")
	m.Assume("no second OTR implementation in the image: only self-interoperation is observed; DSA keys are fixed embedded 1024-bit test keys; Conversation.Rand is a seeded PRNG (dsa.Sign may consume one byte more or less, so replays reproduce the script, not the exact wire bytes)")
	loadOTRKeys()

	convTotal := m.N(320, 16000)
	m.Cases("conv", convTotal, func(i int64, r *rand.Rand) { c47Conversation(m, i, r) })

	np := len(allCrossPlans())
	m.Cases("crossed-all", np, func(i int64, r *rand.Rand) { c47CrossedAll(m, i, r) })
	m.Cases("crossed-random", m.N(120, 6000), func(i int64, r *rand.Rand) { c47CrossedRandom(m, i, r) })
	m.Each("smp-seq", 32, func(i int64, r *rand.Rand) { c47SMPSeq(m, i, r) })
	m.Each("smp-degenerate", 8, func(i int64, r *rand.Rand) { c47SMPDegenerate(m, i, r) })
	m.Each("data-mutation", len(dataClasses)*m.N(1, 6), func(i int64, r *rand.Rand) { c47DataMutation(m, i, r) })
	m.Cases("ake-mutation", m.N(1600, 60000), func(i int64, r *rand.Rand) { c47AKEMutation(m, i, r) })
	m.Cases("smp-chaos", m.N(160, 8000), func(i int64, r *rand.Rand) { c47SMPChaos(m, i, r) })
	m.Cases("smp-hostile-tlv", m.N(400, 20000), func(i int64, r *rand.Rand) { c47SMPHostileTLV(m, i, r) })
	m.Cases("hostile-pairs", len(hostileStates)*len(hostileAlphabet)*len(hostileAlphabet), func(i int64, r *rand.Rand) { c47HostilePairs(m, i, r) })
	m.Cases("hostile-random", m.N(1500, 100000), func(i int64, r *rand.Rand) { c47HostileRandom(m, i, r) })
	m.Each("nul", 5, func(i int64, r *rand.Rand) { c47NUL(m, i, r) })
	m.Each("frag18", 4, func(i int64, r *rand.Rand) { c47Frag18(m, i, r) })

	m.Gate("ake_completed", m.N(250, 12000), "AKEs driven to the encrypted state on both sides")
	m.Gate("ake_simultaneous", m.N(30, 1500), "simultaneous AKE starts (SYN crossing)")
	m.Gate("messages_delivered_ok", m.N(600, 30000), "data messages received unchanged")
	m.Gate("fragmented_messages", m.N(250, 12000), "messages carried in more than one fragment")
	m.Gate("duplicates_rejected", m.N(60, 3000), "replayed data messages observed")
	m.Gate("smp_equal_runs", m.N(60, 3000), "SMP runs with equal secrets")
	m.Gate("smp_unequal_runs", m.N(60, 3000), "SMP runs with unequal secrets")
	m.Gate("rehandshakes", m.N(40, 2000), "re-handshakes in an encrypted conversation")
	m.Gate("conversations_ended", m.N(30, 1500), "End() observed by the peer")
	m.Gate("crossed_all_cases", np, "every FIFO-preserving interleaving of 1..3 × 1..3 crossed data messages, three rounds with SMP and re-AKE in between")
	m.Gate("crossed_rounds", m.N(300, 12000), "crossed exchanges with follow-ups delivered")
	m.Gate("smp_seq_runs", 40, "two-run SMP sequences (all initiator/equality combinations)")
	m.Gate("smp_degenerate_runs", 8, "SMP runs against a peer whose exponents are zero (unequal secrets)")
	m.Gate("data_mutants_delivered", 3000, "every byte of every data-message class mutated")
	m.Gate("b64_mutants_delivered", 3000, "every base64 character of every data-message class mutated")
	m.Gate("original_accepted_after_all_mutants", len(dataClasses), "the unmodified message is still accepted after all its mutants were rejected")
	m.Gate("data_mutant_region:oldmacs", 20, "revealed-MAC-keys field mutated")
	m.Gate("ake_mutants_delivered", m.N(1200, 45000), "AKE message mutants")
	m.Gate("smp_chaos_cases", m.N(100, 5000), "SMP restarts/crossings/losses")
	m.Gate("hostile_pair_cases", 2000, "ordered pairs of canonical hostile inputs in every conversation state")
	m.Gate("hostile_inputs_delivered", m.N(8000, 300000), "hostile inputs fed to Receive")
	m.Gate("hostile_tlvs_delivered", m.N(400, 20000), "correctly MACed hostile SMP TLVs (hook VerifSendTLV) against every SMP state")
	m.Gate("nul_messages", 5, "messages with an embedded NUL")
	m.Gate("frag18_cases", 4, "FragmentSize 18 (the documented minimum)")
}

type contentClass struct {
	name string
	gen  func(r *rand.Rand, id int, small bool) []byte
}

func noNUL(b []byte) []byte {
	for i := range b {
		if b[i] == 0 {
			b[i] = 0x80 | byte(i)
		}
	}
	return b
}

func stamp(id int, body []byte) []byte {
	return append([]byte(fmt.Sprintf("#%d:", id)), body...)
}

func padTo(id int, n int) []byte {
	b := stamp(id, nil)
	for len(b) < n {
		b = append(b, byte('a'+len(b)%26))
	}
	return b
}

var contentClasses = []contentClass{
	{"empty", func(r *rand.Rand, id int, small bool) []byte { return []byte{} }},
	{"short", func(r *rand.Rand, id int, small bool) []byte { return stamp(id, []byte("hello")) }},
	{"random", func(r *rand.Rand, id int, small bool) []byte {
		hi := 5000
		if small {
			hi = 300
		}
		return stamp(id, noNUL(mon.Bytes(r, mon.LogUniform(r, 1, hi))))
	}},
	{"pad-boundary", func(r *rand.Rand, id int, small bool) []byte {
		return padTo(id, mon.Pick(r, []int{250, 251, 252, 253, 506, 507, 508}))
	}},
	{"whitespace-tag", func(r *rand.Rand, id int, small bool) []byte {
		return stamp(id, []byte("hi \t  \t\t\t\t \t \t \t    \t\t  \t there"))
	}},
	{"query-like", func(r *rand.Rand, id int, small bool) []byte {
		return append([]byte(mon.Pick(r, []string{"?OTRv2?", "?OTR:AAMD", "?OTR,1,2,x,", "?OTR Error: x", "?OTR?v2?"})), stamp(id, nil)...)
	}},
	{"utf8", func(r *rand.Rand, id int, small bool) []byte { return stamp(id, []byte("grüße — 你好 \U0001F510")) }},
	{"large", func(r *rand.Rand, id int, small bool) []byte {
		n := 20000 + r.IntN(40000)
		if small {
			n = 700
		}
		return stamp(id, noNUL(mon.Bytes(r, n)))
	}},
}

// expectDelivered judges the results of delivering the wire form of Send(msg).
func expectDelivered(res []rcv, msg []byte) (ok bool, why string) {
	n := 0
	for i, r := range res {
		if r.panicked {
			return false, "panic"
		}
		if r.err != nil {
			return false, fmt.Sprintf("error on part %d: %v", i, r.err)
		}
		if r.change != otr.NoChange || r.nSend != 0 {
			return false, fmt.Sprintf("unexpected change/reply on part %d: %s send=%d", i, changeName(r.change), r.nSend)
		}
		if r.encrypted {
			n++
			if !bytes.Equal(r.out, msg) {
				return false, fmt.Sprintf("plaintext differs: got %s want %s", short(r.out), short(msg))
			}
			if i != len(res)-1 {
				return false, "plaintext produced before the last fragment"
			}
		} else if len(r.out) != 0 {
			return false, fmt.Sprintf("unencrypted output %s on part %d", short(r.out), i)
		}
	}
	if n != 1 {
		return false, fmt.Sprintf("delivered %d times", n)
	}
	return true, ""
}

// nothingDelivered: no plaintext, no state-change signal, no reply.
func nothingDelivered(res []rcv) (ok bool, why string) {
	for i, r := range res {
		if r.panicked {
			return false, "panic"
		}
		// an accepted data message always yields a non-nil plaintext slice
		// (possibly empty); (nil, encrypted, no error) is the silent drop of a
		// message whose IGNORE_UNREADABLE flag is set
		if r.encrypted && r.err == nil && r.out != nil {
			return false, fmt.Sprintf("part %d accepted as an encrypted message (out=%s)", i, short(r.out))
		}
		if r.nSend != 0 {
			return false, fmt.Sprintf("part %d triggered %d reply message(s)", i, r.nSend)
		}
		if len(r.out) != 0 {
			return false, fmt.Sprintf("part %d produced output %s", i, short(r.out))
		}
		if r.change != otr.NoChange {
			return false, fmt.Sprintf("part %d signalled %s", i, changeName(r.change))
		}
	}
	return true, ""
}

func fsClass(fs int) string {
	switch {
	case fs <= 18:
		return "off"
	case fs <= 21:
		return fmt.Sprint(fs)
	case fs <= 100:
		return "22-100"
	}
	return ">100"
}

func c47Conversation(m *mon.M, idx int64, r *rand.Rand) {
	fa, fb := mon.Pick(r, otrFragSizes), mon.Pick(r, otrFragSizes)
	ka, kb := r.IntN(len(otrKeyHex)), r.IntN(len(otrKeyHex))
	b := newBus(m, r, ka, kb, fa, fb)
	small := (fa > 18 && fa <= 25) || (fb > 18 && fb <= 25)
	mode := mon.Pick(r, []string{"query-to-b", "query-to-a", "simultaneous", "embedded", "query-to-b"})
	viol := func(key string, extra map[string]any) {
		m.Violation(key, b.witness(extra))
	}
	cls := fmt.Sprintf("conv|fa=%s|fb=%s|", fsClass(fa), fsClass(fb))
	establish := func(mode string, again bool) bool {
		ma, mb := b.a.mark(), b.b.mark()
		b.handshake(mode)
		if b.dead {
			return false
		}
		ca, cb := b.a.changesSince(ma), b.b.changesSince(mb)
		okA := b.a.c.IsEncrypted() && countChange(ca, otr.NewKeys) >= 1
		okB := b.b.c.IsEncrypted() && countChange(cb, otr.NewKeys) >= 1
		if !okA || !okB {
			viol("ake-not-encrypted:"+mode, map[string]any{"A_encrypted": b.a.c.IsEncrypted(), "B_encrypted": b.b.c.IsEncrypted(), "A_changes": fmt.Sprint(ca), "B_changes": fmt.Sprint(cb)})
			return false
		}
		for _, s := range []*side{b.a, b.b} {
			for _, x := range s.log[map[*side]int{b.a: ma, b.b: mb}[s]:] {
				if x.err != nil {
					viol("ake-error:"+mode, map[string]any{"side": s.name, "err": x.err.Error()})
					return false
				}
			}
		}
		if b.a.c.SSID != b.b.c.SSID {
			viol("ake-ssid-mismatch", nil)
			return false
		}
		if b.a.c.TheirPublicKey.Y.Cmp(b.b.key.PublicKey.Y) != 0 || b.b.c.TheirPublicKey.Y.Cmp(b.a.key.PublicKey.Y) != 0 {
			viol("ake-wrong-peer-key", nil)
			return false
		}
		m.Count("ake_completed", 1)
		if mode == "simultaneous" {
			m.Count("ake_simultaneous", 1)
		}
		m.Distinct(cls + "ake:" + mode + fmt.Sprintf("|again=%v", again))
		return true
	}
	if !establish(mode, false) {
		return
	}
	if idx < 2 {
		m.Sample(map[string]any{"stream": "conv", "start": mode, "fragment_sizes": []int{fa, fb}, "trace_head": b.trace[:min(len(b.trace), 12)]})
	}
	id := 0
	var old [][][]byte // wire forms of delivered data messages (for delayed duplicates), per direction index
	var oldTo []*side
	nops := 6 + r.IntN(16)
	for op := 0; op < nops && !b.dead; op++ {
		x := b.a
		if r.IntN(2) == 0 {
			x = b.b
		}
		y := b.peer(x)
		switch k := r.IntN(100); {
		case k < 40: // plain send
			cc := contentClasses[r.IntN(len(contentClasses))]
			id++
			msg := cc.gen(r, id, small)
			wire, err := b.send(x, msg)
			if b.dead {
				return
			}
			if err != nil {
				viol("send-error", map[string]any{"err": err.Error()})
				return
			}
			res := b.deliverAll(y, wire)
			if b.dead {
				return
			}
			if ok, why := expectDelivered(res, msg); !ok {
				viol("data-message-not-received-unchanged:"+cc.name, map[string]any{"why": why, "message_hex": mon.FullHex(msg), "fragments": len(wire)})
				return
			}
			m.Count("messages_delivered_ok", 1)
			m.Count("content:"+cc.name, 1)
			if len(wire) > 1 {
				m.Count("fragmented_messages", 1)
				if len(wire) > 100 {
					m.Count("messages_over_100_fragments", 1)
				}
			}
			m.Distinct(cls + "send:" + cc.name + fmt.Sprintf("|frags=%s", bucket(len(wire))))
			old = append(old, wire)
			oldTo = append(oldTo, y)
		case k < 50: // duplicate (replay) of an earlier data message: immediate or delayed
			if len(old) == 0 {
				continue
			}
			j := len(old) - 1
			kind := "immediate"
			if r.IntN(2) == 0 {
				j = r.IntN(len(old))
				kind = "delayed"
			}
			res := b.deliverAll(oldTo[j], old[j])
			if b.dead {
				return
			}
			if ok, why := nothingDelivered(res); !ok {
				viol("replayed-data-message-accepted:"+kind, map[string]any{"why": why})
				return
			}
			m.Count("duplicates_rejected", 1)
			m.Distinct(cls + "dup:" + kind)
		case k < 56: // drop a data message entirely
			id++
			msg := stamp(id, []byte("dropped"))
			if _, err := b.send(x, msg); err != nil && !b.dead {
				viol("send-error", map[string]any{"err": err.Error()})
				return
			}
			m.Count("messages_dropped", 1)
			m.Distinct(cls + "drop")
		case k < 62: // drop or duplicate one fragment of a fragmented message
			id++
			msg := stamp(id, noNUL(mon.Bytes(r, 200)))
			wire, err := b.send(x, msg)
			if b.dead || err != nil || len(wire) < 3 {
				if err == nil && !b.dead {
					// not fragmented: deliver normally
					if ok, why := expectDelivered(b.deliverAll(y, wire), msg); !ok && !b.dead {
						viol("data-message-not-received-unchanged:short", map[string]any{"why": why})
						return
					}
					m.Count("messages_delivered_ok", 1)
				}
				continue
			}
			j := r.IntN(len(wire))
			var w2 [][]byte
			kind := "frag-drop"
			if r.IntN(2) == 0 {
				w2 = append(append(w2, wire[:j]...), wire[j+1:]...)
			} else {
				kind = "frag-dup"
				w2 = append(append(append(w2, wire[:j+1]...), wire[j]), wire[j+1:]...)
			}
			res := b.deliverAll(y, w2)
			if b.dead {
				return
			}
			// either nothing at all or exactly the message
			okN, _ := nothingDelivered(res)
			okD := false
			if !okN {
				okD, _ = expectDeliveredLoose(res, msg)
			}
			if !okN && !okD {
				viol("fragment-loss-corrupts-delivery:"+kind, map[string]any{"message_hex": mon.FullHex(msg), "results": fmt.Sprint(len(res))})
				return
			}
			m.Count("fragment_faults", 1)
			m.Distinct(cls + kind + fmt.Sprintf("|delivered=%v", okD))
		case k < 72: // mutate a fresh data message, deliver the mutant, then the original
			id++
			msg := stamp(id, noNUL(mon.Bytes(r, 1+r.IntN(100))))
			wire, err := b.send(x, msg)
			if b.dead || err != nil {
				return
			}
			whole := joinFragments(wire)
			bin, ok := decodeWire(whole)
			if !ok {
				viol("send-output-not-decodable", map[string]any{"wire": short(whole)})
				return
			}
			rs, ok := dataRegions(bin)
			if !ok {
				viol("send-output-not-a-data-message", map[string]any{"wire_hex": mon.FullHex(bin)})
				return
			}
			pos := r.IntN(len(bin))
			reg := regionOf(rs, pos)
			mut := append([]byte(nil), bin...)
			mut[pos] ^= byte(1 + r.IntN(255))
			res := b.deliverAll(y, [][]byte{encodeWire(mut)})
			if b.dead {
				return
			}
			if reg == "oldmacs" {
				// unauthenticated field: accepted or not, but never a different plaintext
				if okN, _ := nothingDelivered(res); !okN {
					if okD, why := expectDelivered(res, msg); !okD {
						viol("mutated-data-message-changes-plaintext:"+reg, map[string]any{"why": why, "pos": pos})
						return
					}
					m.Count("messages_delivered_ok", 1)
					m.Count("mutant_in_unauthenticated_field_accepted", 1)
					continue
				}
			} else if ok, why := nothingDelivered(res); !ok {
				viol("mutated-data-message-accepted:"+reg, map[string]any{"why": why, "pos": pos, "original_hex": mon.FullHex(bin), "mutant_hex": mon.FullHex(mut)})
				return
			}
			m.Count("mutants_rejected", 1)
			if reg == "type" || reg == "version" {
				// the mutant may have been a different (AKE) message type: state under-determined
				m.Count("mutants_changing_message_type", 1)
				return
			}
			res = b.deliverAll(y, wire)
			if b.dead {
				return
			}
			if ok, why := expectDelivered(res, msg); !ok {
				viol("original-rejected-after-mutant:"+reg, map[string]any{"why": why, "pos": pos})
				return
			}
			m.Count("messages_delivered_ok", 1)
			m.Count("original_accepted_after_mutant", 1)
			m.Distinct(cls + "mutant:" + reg)
			old = append(old, wire)
			oldTo = append(oldTo, y)
		case k < 86: // SMP
			equal := r.IntN(2) == 0
			q := ""
			if r.IntN(2) == 0 {
				q = mon.Pick(r, []string{"what?", "q with \xc3\xa9", strings.Repeat("long question ", 20)})
			}
			sx := noNUL(mon.Bytes(r, 1+r.IntN(20)))
			sy := append([]byte(nil), sx...)
			if !equal {
				switch r.IntN(3) {
				case 0:
					sy[r.IntN(len(sy))] ^= 1
				case 1:
					sy = append(sy, 'x')
				default:
					sy = noNUL(mon.Bytes(r, 1+r.IntN(20)))
					if bytes.Equal(sx, sy) {
						sy = append(sy, 'y')
					}
				}
			}
			if !c47SMP(m, b, x, y, q, sx, sy, equal, cls) {
				return
			}
		case k < 93: // re-handshake
			mode := mon.Pick(r, []string{"query-to-b", "query-to-a", "simultaneous"})
			if !establish(mode, true) {
				return
			}
			m.Count("rehandshakes", 1)
			old, oldTo = nil, nil // messages under the previous keys are a different matter (not judged)
		default: // End
			wire := b.end(x)
			if b.dead {
				return
			}
			my := y.mark()
			b.deliverAll(y, wire)
			if b.dead {
				return
			}
			cy := y.changesSince(my)
			if countChange(cy, otr.ConversationEnded) != 1 || y.c.IsEncrypted() || x.c.IsEncrypted() {
				viol("end-not-observed", map[string]any{"peer_changes": fmt.Sprint(cy), "peer_encrypted": y.c.IsEncrypted(), "self_encrypted": x.c.IsEncrypted()})
				return
			}
			if w, err := b.send(y, []byte("after end")); err == nil && !b.dead {
				viol("send-after-peer-ended-not-refused", map[string]any{"wire": fmt.Sprint(len(w))})
				return
			}
			m.Count("conversations_ended", 1)
			m.Distinct(cls + "end")
			b.end(y)
			if r.IntN(2) == 0 {
				return
			}
			if !establish(mon.Pick(r, []string{"query-to-b", "query-to-a", "simultaneous"}), true) {
				return
			}
			m.Count("restarts_after_end", 1)
			old, oldTo = nil, nil
		}
	}
	for k, v := range b.stats {
		m.Count(k, v)
	}
}

// expectDeliveredLoose: exactly one encrypted plaintext equal to msg; errors on
// other parts are tolerated (used when fragments were lost/duplicated).
func expectDeliveredLoose(res []rcv, msg []byte) (bool, string) {
	n := 0
	for _, r := range res {
		if r.panicked {
			return false, "panic"
		}
		if r.encrypted && r.err == nil {
			n++
			if !bytes.Equal(r.out, msg) {
				return false, "plaintext differs"
			}
		} else if len(r.out) != 0 {
			return false, "stray output"
		}
		if r.change != otr.NoChange {
			return false, "stray change"
		}
	}
	return n == 1, fmt.Sprintf("delivered %d times", n)
}

// c47SMP runs one complete SMP exchange initiated by x and judges the outcome.
// The key of a completeness violation carries the context: whether the
// responder had itself initiated an SMP that failed and has not started or
// been offered one since ("responder-after-own-failed-run"), or not ("clean").
func c47SMP(m *mon.M, b *bus, x, y *side, q string, sx, sy []byte, equal bool, cls string) bool {
	viol := func(key string, extra map[string]any) {
		if extra == nil {
			extra = map[string]any{}
		}
		extra["initiator"] = x.name
		extra["question"] = q
		extra["secrets_equal"] = equal
		extra["secret_initiator_hex"] = mon.FullHex(sx)
		extra["secret_responder_hex"] = mon.FullHex(sy)
		m.Violation(key, b.witness(extra))
	}
	ctx := "clean"
	if y.smpStale {
		ctx = "responder-after-own-failed-run"
	}
	x.smpStale, y.smpStale = false, false // starting resets the initiator, an SMP1 resets the responder
	mx, my := x.mark(), y.mark()
	if _, err := b.authenticate(x, q, sx); err != nil {
		if !b.dead {
			viol("smp-authenticate-error", map[string]any{"err": err.Error()})
		}
		return false
	}
	b.pump()
	if b.dead {
		return false
	}
	cy := y.changesSince(my)
	asked := countChange(cy, otr.SMPSecretNeeded) == 1
	if asked {
		if got := y.c.SMPQuestion(); got != q {
			m.Count("smp_question_differs_from_sent", 1) // not part of the property (a question of an earlier run is kept)
		}
		if _, err := b.authenticate(y, "", sy); err != nil {
			if !b.dead {
				viol("smp-authenticate-error", map[string]any{"err": err.Error(), "side": "responder"})
			}
			return false
		}
		b.pump()
		if b.dead {
			return false
		}
	}
	cx, cy := x.changesSince(mx), y.changesSince(my)
	xc, xf := countChange(cx, otr.SMPComplete), countChange(cx, otr.SMPFailed)
	yc, yf := countChange(cy, otr.SMPComplete), countChange(cy, otr.SMPFailed)
	det := map[string]any{"initiator_changes": fmt.Sprint(cx), "responder_changes": fmt.Sprint(cy), "context": ctx, "responder_asked_for_secret": asked}
	for _, s := range []*side{x, y} {
		mk := mx
		if s == y {
			mk = my
		}
		for _, rr := range s.log[mk:] {
			if rr.err != nil {
				det["error_"+s.name] = rr.err.Error()
			}
			if len(rr.out) != 0 {
				viol("smp-message-delivers-plaintext", det)
				return false
			}
		}
	}
	if xc != 0 || yc != 0 {
		if !equal {
			viol("smp-complete-on-unequal-secrets", det)
			return false
		}
	}
	if equal {
		if xc != 1 || yc != 1 || xf != 0 || yf != 0 {
			viol("smp-equal-secrets-not-complete:"+ctx, det)
			return false
		}
		m.Count("smp_equal_runs", 1)
	} else {
		if asked && (xf < 1 || yf < 1) {
			viol("smp-unequal-secrets-not-failed:"+ctx, det)
			return false
		}
		if !asked {
			m.Count("smp_unequal_aborted_before_secret", 1)
		}
		m.Count("smp_unequal_runs", 1)
		if asked {
			x.smpStale = true // (observed behaviour of the unchanged tree; only selects the key suffix)
		}
	}
	m.Distinct(cls + fmt.Sprintf("smp|equal=%v|question=%v|initiator=%s|%s", equal, q != "", x.name, ctx))
	return true
}

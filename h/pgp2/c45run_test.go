package pgp2

// Entry-point runners for C45 with the two monitors: panic (recover per case,
// keyed by entry point + top x/crypto frame) and termination (progress
// counters on the input reader and the output sink; a goroutine dump decides
// together with the counters, never the clock alone).

import (
	"bytes"
	"crypto/sha256"
	"errors"
	"fmt"
	"io"
	"strings"
	"sync/atomic"
	"time"

	"golang.org/x/crypto/openpgp"
	"golang.org/x/crypto/openpgp/armor"
	"golang.org/x/crypto/openpgp/clearsign"
	"golang.org/x/crypto/openpgp/elgamal"
	pgperrors "golang.org/x/crypto/openpgp/errors"
	"golang.org/x/crypto/openpgp/packet"
	"verif/mon"
)

const (
	eReadKeyRing  = "ReadKeyRing"
	eReadArmoredK = "ReadArmoredKeyRing"
	eReadMessage  = "ReadMessage"
	eCheckDetach  = "CheckDetachedSignature"
	ePacketRead   = "packet.Read"
	eArmorDecode  = "armor.Decode"
	eClearsign    = "clearsign.Decode"
)

var allEntries = []string{eReadKeyRing, eReadArmoredK, eReadMessage, eCheckDetach, ePacketRead, eArmorDecode, eClearsign}

const outputCap = 64 << 20

type progress struct {
	in, out atomic.Int64
	zeroRun atomic.Int64 // consecutive (0,nil) reads seen by the sink
	prompts atomic.Int64
	entry   atomic.Value // string: entry point currently executing (panic/hang keys)
	private bool         // drain must not use the shared (sequential-case) buffers: concurrent streams
}

func (p *progress) setEntry(e string) { p.entry.Store(e) }
func (p *progress) curEntry() string {
	if v, ok := p.entry.Load().(string); ok {
		return v
	}
	return "?"
}

type countingReader struct {
	r *bytes.Reader
	p *progress
}

func (c *countingReader) Read(b []byte) (int, error) {
	n, err := c.r.Read(b)
	c.p.in.Add(int64(n))
	return n, err
}

// drain buffers are reused (cases run one at a time; after a hang the child
// stops running cases)
var drainBufs = map[int][]byte{}

var errZeroSpin = errors.New("pgp2: reader returned (0,nil) 2^20 times in a row without consuming input")

// drain reads r to EOF (or error, or the output cap) with the given buffer
// size, counting output bytes.
func drain(r io.Reader, bufSize int, p *progress) (n int64, capped bool, err error) {
	if bufSize <= 0 {
		bufSize = 4096
	}
	var buf []byte
	if p.private {
		buf = make([]byte, bufSize)
	} else if buf = drainBufs[bufSize]; buf == nil {
		buf = make([]byte, bufSize)
		drainBufs[bufSize] = buf
	}
	zero := 0
	lastIn := p.in.Load()
	for {
		k, e := r.Read(buf)
		n += int64(k)
		p.out.Add(int64(k))
		if k == 0 && e == nil {
			zero++
			p.zeroRun.Store(int64(zero))
			if in := p.in.Load(); in != lastIn {
				lastIn = in
				zero = 0
			}
			if zero >= 1<<20 {
				return n, false, errZeroSpin
			}
		} else {
			zero = 0
		}
		if e == io.EOF {
			return n, false, nil
		}
		if e != nil {
			return n, false, e
		}
		if n > outputCap {
			return n, true, nil
		}
	}
}

// caseIn describes one execution.
type caseIn struct {
	Entry    string
	Data     []byte
	Signed   []byte
	Ring     string // "empty" | "pub" | "full" | "hostile"
	RingData []byte // hostile: keyring bytes to load with ReadKeyRing first
	Prompt   string // "nil" | "right" | "wrong" | "none" | "err"
	Buf      int
	Armored  bool // ReadMessage: the message is read from armor.Decode(...).Body
}

const eHostileRing = "hostile-ring" // composite flow: ReadKeyRing(bytes) then use the result as the keyring

type caseOut struct {
	Class    string // low-cardinality outcome class
	OutBytes int64
	Prompts  int64
	Capped   bool
	BodyRead bool
	Entities int
	Verified bool
	ZeroSpin bool
}

func errClass(err error) string {
	if err == nil {
		return "ok"
	}
	switch err.(type) {
	case pgperrors.StructuralError:
		return "err:structural"
	case pgperrors.UnsupportedError:
		return "err:unsupported"
	case pgperrors.InvalidArgumentError:
		return "err:invalidarg"
	case pgperrors.SignatureError:
		return "err:signature"
	case pgperrors.UnknownPacketTypeError:
		return "err:unknownpacket"
	}
	switch err {
	case io.EOF:
		return "err:eof"
	case io.ErrUnexpectedEOF:
		return "err:unexpectedeof"
	case pgperrors.ErrKeyIncorrect:
		return "err:keyincorrect"
	case pgperrors.ErrUnknownIssuer:
		return "err:unknownissuer"
	case errPromptBound:
		return "err:promptbound"
	case errPromptRefuses:
		return "err:promptrefuses"
	case errZeroSpin:
		return "zero-spin"
	}
	s := err.Error()
	switch {
	case strings.HasPrefix(s, "flate"), strings.HasPrefix(s, "zlib"), strings.HasPrefix(s, "bzip2"):
		return "err:decompress"
	case strings.HasPrefix(s, "illegal base64"):
		return "err:base64"
	case strings.HasPrefix(s, "crypto/rsa"):
		return "err:rsa"
	case strings.HasPrefix(s, "elgamal"):
		return "err:elgamal"
	}
	return "err:other"
}

var (
	errPromptBound   = errors.New("pgp2: prompt called more often than the harness bound")
	errPromptRefuses = errors.New("pgp2: prompt refuses")
)

const promptBound = 2

// makePrompt returns the PromptFunction for a mode. Every mode is bounded: the
// package documents that it re-prompts forever on wrong answers, so after
// promptBound calls the harness answers with an error (counted).
func makePrompt(mode string, p *progress) openpgp.PromptFunction {
	if mode == "nil" {
		return nil
	}
	return func(keys []openpgp.Key, symmetric bool) ([]byte, error) {
		n := p.prompts.Add(1)
		if n > promptBound {
			return nil, errPromptBound
		}
		switch mode {
		case "right":
			for _, k := range keys {
				if k.PrivateKey != nil && k.PrivateKey.Encrypted {
					k.PrivateKey.Decrypt([]byte(corpusPass))
				}
			}
			return []byte(corpusPass), nil
		case "wrong":
			if len(keys) > 0 && keys[0].PrivateKey != nil && keys[0].PrivateKey.Encrypted {
				keys[0].PrivateKey.Decrypt([]byte("not the passphrase"))
			}
			return []byte("not the passphrase"), nil
		case "none":
			return nil, nil
		}
		return nil, errPromptRefuses
	}
}

// hostileRingUnsafe reports whether el contains an ElGamal private key with
// modulus zero: elgamal.Decrypt would then compute c1**x without a modulus
// (unbounded memory). Such cases are not executed (counted by the caller).
func hostileRingUnsafe(el openpgp.EntityList) bool {
	chk := func(pk *packet.PrivateKey) bool {
		if pk == nil {
			return false
		}
		if ep, ok := pk.PrivateKey.(*elgamal.PrivateKey); ok && ep != nil && ep.P != nil && ep.P.Sign() == 0 {
			return true
		}
		if ep, ok := pk.PublicKey.PublicKey.(*elgamal.PublicKey); ok && ep != nil && ep.P != nil && ep.P.Sign() == 0 {
			return true
		}
		return false
	}
	for _, e := range el {
		if chk(e.PrivateKey) {
			return true
		}
		for _, s := range e.Subkeys {
			if chk(s.PrivateKey) {
				return true
			}
		}
	}
	return false
}

func touchRing(el openpgp.EntityList) {
	for _, e := range el {
		if e.PrimaryKey != nil {
			_ = e.PrimaryKey.KeyIdString()
			_ = e.PrimaryKey.KeyIdShortString()
			e.PrimaryKey.BitLength()
			el.KeysById(e.PrimaryKey.KeyId)
			el.KeysByIdUsage(e.PrimaryKey.KeyId, packet.KeyFlagSign)
			el.KeysByIdUsage(e.PrimaryKey.KeyId, packet.KeyFlagEncryptCommunications|packet.KeyFlagEncryptStorage)
		}
		for _, s := range e.Subkeys {
			if s.PublicKey != nil {
				el.KeysById(s.PublicKey.KeyId)
				el.KeysByIdUsage(s.PublicKey.KeyId, packet.KeyFlagSign)
				s.PublicKey.BitLength()
			}
		}
	}
	el.DecryptionKeys()
}

// c45CaseBody runs one case. Its name is looked for in goroutine dumps.
func c45CaseBody(cp *corpus, in *caseIn, p *progress, out *caseOut) {
	if in.Entry == eHostileRing {
		hostileFlow(cp, in, p, out)
		return
	}
	p.setEntry(in.Entry)
	cr := &countingReader{bytes.NewReader(in.Data), p}
	var ring openpgp.EntityList
	switch in.Ring {
	case "pub":
		ring = cp.pubRing
	case "full":
		ring = cp.fullRing()
	case "hostile":
		el, err := openpgp.ReadKeyRing(&countingReader{bytes.NewReader(in.RingData), p})
		if err != nil || len(el) == 0 {
			out.Class = "hostile-ring-unloadable:" + errClass(err)
			return
		}
		if hostileRingUnsafe(el) {
			out.Class = "skipped:elgamal-p-zero"
			return
		}
		ring = el
	default:
		ring = openpgp.EntityList{}
	}
	switch in.Entry {
	case eReadKeyRing, eReadArmoredK:
		var el openpgp.EntityList
		var err error
		if in.Entry == eReadKeyRing {
			el, err = openpgp.ReadKeyRing(cr)
		} else {
			el, err = openpgp.ReadArmoredKeyRing(cr)
		}
		out.Entities = len(el)
		touchRing(el)
		out.Class = errClass(err)
	case eReadMessage:
		var src io.Reader = cr
		if in.Armored {
			blk, err := armor.Decode(cr)
			if err != nil {
				out.Class = "armor:" + errClass(err)
				return
			}
			src = blk.Body
		}
		md, err := openpgp.ReadMessage(src, ring, makePrompt(in.Prompt, p), nil)
		out.Prompts = p.prompts.Load()
		if err != nil {
			out.Class = errClass(err)
			return
		}
		n, capped, derr := drain(md.UnverifiedBody, in.Buf, p)
		out.OutBytes, out.Capped, out.BodyRead = n, capped, true
		if md.LiteralData != nil {
			_ = md.LiteralData.ForEyesOnly()
		}
		switch {
		case capped:
			out.Class = "body:capped"
		case derr == errZeroSpin:
			out.Class = "zero-spin"
			out.ZeroSpin = true
		case derr != nil:
			out.Class = "body:" + errClass(derr)
		case md.IsSigned && md.SignedBy != nil && md.SignatureError == nil:
			out.Class = "body:ok:verified"
			out.Verified = true
		case md.IsSigned && md.SignedBy != nil:
			out.Class = "body:ok:sig-" + errClass(md.SignatureError)
		case md.IsSigned:
			out.Class = "body:ok:signer-unknown"
		default:
			out.Class = "body:ok:unsigned"
		}
		if md.IsEncrypted {
			out.Class += ":enc"
		}
	case eCheckDetach:
		signed := &countingReader{bytes.NewReader(in.Signed), p}
		var e *openpgp.Entity
		var err error
		if bytes.HasPrefix(bytes.TrimSpace(in.Data), []byte("-----BEGIN")) {
			e, err = openpgp.CheckArmoredDetachedSignature(ring, signed, cr)
		} else {
			e, err = openpgp.CheckDetachedSignature(ring, signed, cr)
		}
		out.Verified = e != nil && err == nil
		out.Class = errClass(err)
		if out.Verified {
			out.Class = "ok:verified"
		}
	case ePacketRead:
		out.Class = readPackets(cr, in.Buf, p, 0, out)
		// the opaque reader over the same bytes
		or := packet.NewOpaqueReader(&countingReader{bytes.NewReader(in.Data), p})
		for {
			op, err := or.Next()
			if err != nil {
				break
			}
			if pk, err := op.Parse(); err == nil {
				if ua, ok := pk.(*packet.UserAttribute); ok {
					ua.ImageData()
				}
			}
		}
	case eArmorDecode:
		blk, err := armor.Decode(cr)
		if err != nil {
			out.Class = errClass(err)
			return
		}
		n, capped, derr := drain(blk.Body, in.Buf, p)
		out.OutBytes, out.Capped, out.BodyRead = n, capped, true
		out.Class = "body:" + errClass(derr)
		if derr == errZeroSpin {
			out.ZeroSpin = true
		}
	case eClearsign:
		data := in.Data
		p.in.Add(int64(len(data)))
		blocks := 0
		for {
			b, rest := clearsign.Decode(data)
			if b == nil {
				break
			}
			blocks++
			p.out.Add(int64(len(b.Bytes)))
			var sig bytes.Buffer
			_, _, derr := drainTo(&sig, b.ArmoredSignature.Body, in.Buf, p)
			if derr == nil {
				_, err := openpgp.CheckDetachedSignature(ring, bytes.NewReader(b.Bytes), bytes.NewReader(sig.Bytes()))
				if err == nil {
					out.Verified = true
				}
			}
			if len(rest) >= len(data) {
				break // no progress (cannot happen when b != nil); avoid a harness-made loop
			}
			data = rest
		}
		out.Entities = blocks
		switch {
		case blocks == 0:
			out.Class = "no-block"
		case out.Verified:
			out.Class = "ok:verified"
		default:
			out.Class = "ok:unverified"
		}
	}
}

func drainTo(w io.Writer, r io.Reader, bufSize int, p *progress) (int64, bool, error) {
	return drain(io.TeeReader(r, w), bufSize, p)
}

// readPackets is the packet.Read loop: every packet until EOF or a
// non-"unknown packet type" error; bodies of literal/compressed packets are
// read to EOF, compressed bodies are parsed as packets again (bounded depth:
// the harness, unlike packet.Reader, does not need a limit for termination —
// every level consumes input — but keeps the stack shallow).
func readPackets(r io.Reader, buf int, p *progress, depth int, out *caseOut) string {
	n := 0
	for {
		pk, err := packet.Read(r)
		if err != nil {
			if _, ok := err.(pgperrors.UnknownPacketTypeError); ok {
				n++
				continue
			}
			if err == io.EOF {
				return fmt.Sprintf("eof:%s", bucket(n))
			}
			return errClass(err)
		}
		n++
		switch v := pk.(type) {
		case *packet.LiteralData:
			k, capped, derr := drain(v.Body, buf, p)
			out.OutBytes += k
			out.BodyRead = true
			if capped {
				out.Capped = true
				return "body:capped"
			}
			if derr == errZeroSpin {
				out.ZeroSpin = true
				return "zero-spin"
			}
		case *packet.Compressed:
			if v.Body == nil {
				continue
			}
			if depth < 40 {
				c := readPackets(v.Body, buf, p, depth+1, out)
				if c == "zero-spin" || c == "body:capped" {
					return c
				}
			} else {
				_, capped, derr := drain(v.Body, buf, p)
				if capped {
					out.Capped = true
					return "body:capped"
				}
				if derr == errZeroSpin {
					out.ZeroSpin = true
					return "zero-spin"
				}
			}
		case *packet.UserAttribute:
			v.ImageData()
		case *packet.PublicKey:
			_ = v.KeyIdString()
			v.BitLength()
		case *packet.PrivateKey:
			_ = v.KeyIdString()
		case *packet.SymmetricallyEncrypted:
			// contents cannot be read without a key; the rest of the packet
			// is consumed by the next Read through the shared reader
		}
	}
}

func bucket(n int) string {
	switch {
	case n == 0:
		return "0"
	case n == 1:
		return "1"
	case n < 5:
		return "2-4"
	case n < 20:
		return "5-19"
	}
	return "20+"
}

// verdict of the termination monitor
type hangVerdict struct {
	Hung   bool
	Reason string
	Dump   string
}

// watch waits for done; if the case does not finish within first, it takes
// dumps gap apart. The case is "hung" only if in `need` consecutive dumps the
// case goroutine is running/runnable inside x/crypto frames and neither
// progress counter moved. Anything else keeps waiting (up to giveUp, then
// inconclusive).
func watch(done <-chan struct{}, p *progress, first, gap time.Duration, need int, giveUp time.Duration) (finished bool, v hangVerdict) {
	t := time.NewTimer(first)
	defer t.Stop()
	select {
	case <-done:
		return true, v
	case <-t.C:
	}
	start := time.Now()
	still := 0
	lastIn, lastOut, lastZ := p.in.Load(), p.out.Load(), p.zeroRun.Load()
	for {
		select {
		case <-done:
			return true, v
		case <-time.After(gap):
		}
		in, out, z := p.in.Load(), p.out.Load(), p.zeroRun.Load()
		dump := mon.GoroutineDump()
		inside := false
		state := ""
		for _, g := range mon.ParseDump(dump) {
			if g.Has("pgp2.c45CaseBody") {
				state = g.State
				if (g.State == "running" || g.State == "runnable") && len(g.Frames) > 0 {
					// innermost non-runtime frame must be x/crypto or below it
					for _, f := range g.Frames {
						if strings.HasPrefix(f, "golang.org/x/crypto/") {
							inside = true
							break
						}
						if strings.HasPrefix(f, "verif/") {
							break
						}
					}
				}
			}
		}
		if in == lastIn && out == lastOut && z == lastZ && inside {
			still++
			if still >= need {
				return false, hangVerdict{Hung: true, Reason: fmt.Sprintf("no input consumed and no output produced over %d dumps %s apart; goroutine %s inside x/crypto frames", need, gap, state), Dump: dump}
			}
		} else {
			still = 0
		}
		lastIn, lastOut, lastZ = in, out, z
		if time.Since(start) > giveUp {
			return false, hangVerdict{Reason: "case did not finish but kept making progress or was not inside x/crypto (state " + state + ")", Dump: dump}
		}
	}
}

func sha8(b []byte) string {
	s := sha256.Sum256(b)
	return fmt.Sprintf("%x", s[:4])
}

// ---- hostile keyring flow ----

func forgeSigBody(pk *packet.PublicKey, text []byte, r interface{ Uint64() uint64 }, sigType byte) []byte {
	algo := byte(pk.PubKeyAlgo)
	switch pk.PubKeyAlgo {
	case packet.PubKeyAlgoRSA, packet.PubKeyAlgoRSASignOnly, packet.PubKeyAlgoDSA, packet.PubKeyAlgoECDSA:
	default:
		algo = 1
	}
	hashed := []byte{5, 2, 0x65, 0x92, 0, 0}
	id := make([]byte, 8)
	putKeyID(id, pk.KeyId)
	unhashed := append([]byte{9, 16}, id...)
	b := []byte{4, sigType, algo, 8, 0, byte(len(hashed))}
	b = append(b, hashed...)
	l := len(b)
	h := sha256.New()
	h.Write(text)
	h.Write(b)
	h.Write([]byte{4, 0xff, byte(l >> 24), byte(l >> 16), byte(l >> 8), byte(l)})
	d := h.Sum(nil)
	b = append(b, 0, byte(len(unhashed)))
	b = append(b, unhashed...)
	b = append(b, d[0], d[1])
	rnd := func(n int) []byte {
		o := make([]byte, n)
		for i := range o {
			o[i] = byte(r.Uint64())
		}
		o[0] |= 0x80
		return o
	}
	switch algo {
	case 1, 3:
		n := 128
		if bl, err := pk.BitLength(); err == nil && bl >= 8 && bl <= 8192 {
			n = int(bl+7) / 8
		}
		b = append(b, mpiBytes(rnd(n))...)
	case 17:
		b = append(b, mpiBytes(rnd(20))...)
		b = append(b, mpiBytes(rnd(20))...)
	default:
		b = append(b, mpiBytes(rnd(32))...)
		b = append(b, mpiBytes(rnd(32))...)
	}
	return b
}

// hostileFlow loads in.RingData with ReadKeyRing and then uses the resulting
// EntityList as the keyring of CheckDetachedSignature and ReadMessage with
// inputs addressed to exactly those keys.
func hostileFlow(cp *corpus, in *caseIn, p *progress, out *caseOut) {
	p.setEntry(eReadKeyRing)
	el, err := openpgp.ReadKeyRing(&countingReader{bytes.NewReader(in.RingData), p})
	if err != nil || len(el) == 0 {
		out.Class = "hostile:unloadable:" + errClass(err)
		return
	}
	touchRing(el)
	out.Entities = len(el)
	if hostileRingUnsafe(el) {
		out.Class = "skipped:elgamal-p-zero"
		return
	}
	seed := uint64(len(in.RingData))
	for _, b := range in.RingData[:min(len(in.RingData), 64)] {
		seed = seed*131 + uint64(b)
	}
	rr := &splitmix{seed}
	text := cp.text
	classes := map[string]bool{}
	for _, e := range el {
		keys := []*packet.PublicKey{e.PrimaryKey}
		for _, s := range e.Subkeys {
			keys = append(keys, s.PublicKey)
		}
		for _, pk := range keys {
			if pk == nil {
				continue
			}
			// detached signature by this key
			p.setEntry(eCheckDetach)
			sig := encodeDefault(rawPkt{Tag: 2, NewFmt: true, Body: forgeSigBody(pk, text, rr, 0)})
			_, err := openpgp.CheckDetachedSignature(el, &countingReader{bytes.NewReader(text), p}, &countingReader{bytes.NewReader(sig), p})
			classes["detached:"+errClass(err)] = true
			// one-pass signed message by this key
			p.setEntry(eReadMessage)
			ops := []byte{3, 0, 8, byte(pk.PubKeyAlgo)}
			id := make([]byte, 8)
			putKeyID(id, pk.KeyId)
			ops = append(append(ops, id...), 1)
			msg := encodeDefault(rawPkt{Tag: 4, NewFmt: true, Body: ops})
			msg = append(msg, encodeDefault(literalPkt(true, "", 0, text))...)
			msg = append(msg, sig...)
			md, err := openpgp.ReadMessage(&countingReader{bytes.NewReader(msg), p}, el, nil, nil)
			if err == nil {
				_, _, derr := drain(md.UnverifiedBody, in.Buf, p)
				classes["signedmsg:"+errClass(derr)+":"+errClass(md.SignatureError)] = true
			} else {
				classes["signedmsg:"+errClass(err)] = true
			}
		}
	}
	// session keys addressed to every decryption-capable secret key
	for _, k := range el.DecryptionKeys() {
		if k.PrivateKey == nil {
			continue
		}
		p.setEntry(eReadMessage)
		body := []byte{3}
		id := make([]byte, 8)
		putKeyID(id, k.PublicKey.KeyId)
		body = append(body, id...)
		var algo byte
		switch k.PublicKey.PubKeyAlgo {
		case packet.PubKeyAlgoElGamal:
			algo = 16
		default:
			algo = 1
		}
		body = append(body, algo)
		n := 128
		if bl, err := k.PublicKey.BitLength(); err == nil && bl >= 16 && bl <= 8192 {
			n = int(bl+7)/8 - 1
		}
		m := make([]byte, n)
		for i := range m {
			m[i] = byte(rr.Uint64())
		}
		body = append(body, mpiBytes(m)...)
		if algo == 16 {
			for i := range m {
				m[i] = byte(rr.Uint64())
			}
			body = append(body, mpiBytes(m)...)
		}
		msg := encodeDefault(rawPkt{Tag: 1, NewFmt: true, Body: body})
		se := make([]byte, 60)
		for i := range se {
			se[i] = byte(rr.Uint64())
		}
		se[0] = 1
		msg = append(msg, encodeDefault(rawPkt{Tag: 18, NewFmt: true, Body: se})...)
		md, err := openpgp.ReadMessage(&countingReader{bytes.NewReader(msg), p}, el, makePrompt("right", p), nil)
		if err == nil {
			_, _, derr := drain(md.UnverifiedBody, in.Buf, p)
			classes["decrypt:"+errClass(derr)] = true
		} else {
			classes["decrypt:"+errClass(err)] = true
		}
	}
	var cl []string
	for c := range classes {
		cl = append(cl, c)
	}
	sortStrings(cl)
	out.Class = "hostile:" + strings.Join(cl, ",")
}

type splitmix struct{ s uint64 }

func (s *splitmix) Uint64() uint64 {
	s.s += 0x9e3779b97f4a7c15
	z := s.s
	z = (z ^ (z >> 30)) * 0xbf58476d1ce4e5b9
	z = (z ^ (z >> 27)) * 0x94d049bb133111eb
	return z ^ (z >> 31)
}

func sortStrings(s []string) {
	for i := 1; i < len(s); i++ {
		for j := i; j > 0 && s[j] < s[j-1]; j-- {
			s[j], s[j-1] = s[j-1], s[j]
		}
	}
}

package pgp2

import (
	"fmt"
	"math/rand/v2"

	"verif/mon"
)

// crossed-messages: after the AKE both sides Send (1..3 messages each) before
// either Receives; the messages are then delivered in an interleaving that
// keeps each direction FIFO; follow-up messages from each side come next;
// repeated over several rounds (key rotations) with SMP runs and re-AKEs in
// between. Every genuine message must be delivered unchanged.

// interleavings returns all sequences with na 'A' (deliver the next A→B
// message) and nb 'B'.
func interleavings(na, nb int) []string {
	if na == 0 && nb == 0 {
		return []string{""}
	}
	var out []string
	if na > 0 {
		for _, s := range interleavings(na-1, nb) {
			out = append(out, "A"+s)
		}
	}
	if nb > 0 {
		for _, s := range interleavings(na, nb-1) {
			out = append(out, "B"+s)
		}
	}
	return out
}

type crossPlan struct {
	na, nb int
	order  string
}

func allCrossPlans() []crossPlan {
	var ps []crossPlan
	for na := 1; na <= 3; na++ {
		for nb := 1; nb <= 3; nb++ {
			for _, o := range interleavings(na, nb) {
				ps = append(ps, crossPlan{na, nb, o})
			}
		}
	}
	return ps
}

// crossRound runs one crossed exchange plus follow-ups; returns false after a violation.
func crossRound(m *mon.M, b *bus, r *rand.Rand, p crossPlan, id *int, round int) bool {
	pat := fmt.Sprintf("a%db%d", p.na, p.nb)
	var wa, wb [][][]byte
	var ma, mb [][]byte
	mk := func(from string) []byte {
		*id++
		return stamp(*id, noNUL(mon.Bytes(r, 1+r.IntN(60))))
	}
	for k := 0; k < p.na && !b.dead; k++ {
		msg := mk("A")
		w, err := b.send(b.a, msg)
		if err != nil {
			if !b.dead {
				m.Violation("send-error", b.witness(map[string]any{"err": err.Error()}))
			}
			return false
		}
		wa, ma = append(wa, w), append(ma, msg)
	}
	for k := 0; k < p.nb && !b.dead; k++ {
		msg := mk("B")
		w, err := b.send(b.b, msg)
		if err != nil {
			if !b.dead {
				m.Violation("send-error", b.witness(map[string]any{"err": err.Error()}))
			}
			return false
		}
		wb, mb = append(wb, w), append(mb, msg)
	}
	ia, ib := 0, 0
	for step, c := range p.order {
		var res []rcv
		var msg []byte
		if c == 'A' {
			res, msg = b.deliverAll(b.b, wa[ia]), ma[ia]
			ia++
		} else {
			res, msg = b.deliverAll(b.a, wb[ib]), mb[ib]
			ib++
		}
		if b.dead {
			return false
		}
		if ok, why := expectDelivered(res, msg); !ok {
			m.Violation("genuine-message-rejected:crossed:"+pat+":crossed-delivery", b.witness(map[string]any{"order": p.order, "step": step, "round": round, "why": why, "message_hex": mon.FullHex(msg)}))
			return false
		}
		m.Count("crossed_messages_delivered", 1)
	}
	// follow-ups from each side, twice (the second pair runs on the rotated keys)
	for f := 0; f < 2; f++ {
		sides := []*side{b.a, b.b}
		if r.IntN(2) == 0 {
			sides[0], sides[1] = sides[1], sides[0]
		}
		for _, x := range sides {
			msg := mk(x.name)
			w, err := b.send(x, msg)
			if err != nil || b.dead {
				return false
			}
			res := b.deliverAll(b.peer(x), w)
			if b.dead {
				return false
			}
			if ok, why := expectDelivered(res, msg); !ok {
				m.Violation("genuine-message-rejected:crossed:"+pat+":followup", b.witness(map[string]any{"order": p.order, "followup": f, "from": x.name, "round": round, "why": why, "message_hex": mon.FullHex(msg)}))
				return false
			}
			m.Count("crossed_followups_delivered", 1)
		}
	}
	m.Count("crossed_rounds", 1)
	m.Distinct(fmt.Sprintf("crossed|%s|%s|round=%d", pat, p.order, min(round, 3)))
	return true
}

func crossReAKE(m *mon.M, b *bus, mode string) bool {
	b.handshake(mode)
	if b.dead {
		return false
	}
	if !b.a.c.IsEncrypted() || !b.b.c.IsEncrypted() || b.a.c.SSID != b.b.c.SSID {
		m.Violation("ake-not-encrypted:"+mode, b.witness(map[string]any{"context": "re-AKE between crossed rounds"}))
		return false
	}
	m.Count("crossed_reakes", 1)
	return true
}

// c47CrossedAll: every interleaving of 1..3 × 1..3 crossed messages, three
// rounds each, an SMP run after the first and a re-AKE after the second.
func c47CrossedAll(m *mon.M, i int64, r *rand.Rand) {
	plans := allCrossPlans()
	p := plans[int(i)%len(plans)]
	b := newBus(m, r, int(i)%3, int(i/3)%3, []int{0, 100, 0, 40}[int(i)%4], []int{0, 0, 100, 1000}[int(i/4)%4])
	b.handshake([]string{"query-to-b", "query-to-a", "simultaneous"}[int(i)%3])
	if b.dead || !b.a.c.IsEncrypted() || !b.b.c.IsEncrypted() {
		if !b.dead {
			m.Violation("ake-not-encrypted:crossed-setup", b.witness(nil))
		}
		return
	}
	id := 0
	if !crossRound(m, b, r, p, &id, 0) {
		return
	}
	x, y := b.a, b.b
	if i%2 == 1 {
		x, y = y, x
	}
	if !c47SMP(m, b, x, y, "", []byte("s"), []byte("s"), true, "crossed|") {
		return
	}
	if !crossRound(m, b, r, p, &id, 1) {
		return
	}
	if !crossReAKE(m, b, []string{"query-to-a", "simultaneous", "query-to-b"}[int(i)%3]) {
		return
	}
	if !crossRound(m, b, r, p, &id, 2) {
		return
	}
	m.Count("crossed_all_cases", 1)
}

// c47CrossedRandom: PRNG-chosen plans per round, 2..6 rounds.
func c47CrossedRandom(m *mon.M, i int64, r *rand.Rand) {
	plans := allCrossPlans()
	b := newBus(m, r, r.IntN(3), r.IntN(3), mon.Pick(r, otrFragSizes), mon.Pick(r, otrFragSizes))
	b.handshake(mon.Pick(r, []string{"query-to-b", "query-to-a", "simultaneous", "embedded"}))
	if b.dead || !b.a.c.IsEncrypted() || !b.b.c.IsEncrypted() {
		if !b.dead {
			m.Violation("ake-not-encrypted:crossed-setup", b.witness(nil))
		}
		return
	}
	id := 0
	for round, n := 0, 2+r.IntN(5); round < n && !b.dead; round++ {
		if !crossRound(m, b, r, plans[r.IntN(len(plans))], &id, round) {
			return
		}
		switch r.IntN(5) {
		case 0:
			x, y := b.a, b.b
			if r.IntN(2) == 0 {
				x, y = y, x
			}
			eq := r.IntN(2) == 0
			sy := []byte("secret")
			if !eq {
				sy = []byte("Secret")
			}
			if !c47SMP(m, b, x, y, "", []byte("secret"), sy, eq, "crossed|") {
				return
			}
		case 1:
			if !crossReAKE(m, b, mon.Pick(r, []string{"query-to-b", "query-to-a", "simultaneous"})) {
				return
			}
		}
	}
	m.Count("crossed_random_cases", 1)
}

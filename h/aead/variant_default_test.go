//go:build !purego

package aead

const isPurego = false

package aead

import (
	"bytes"
	"fmt"
	"math/big"
	"math/rand/v2"
	"testing"

	"golang.org/x/crypto/nacl/box"
	"golang.org/x/crypto/nacl/secretbox"
	"verif/clib/sodiumaead"
	"verif/guard"
	"verif/mon"
	"verif/ref/aead8439"
)

// payload lengths of the fault enumeration (192/193 and 320/321 are the
// assembly's short-path thresholds, 8 the shortest length the leak clause
// can be judged on).
var c02Lens = []int{0, 1, 8, 15, 16, 17, 32, 33, 63, 64, 65, 127, 128, 129, 192, 193, 255, 256, 257, 320, 321, 511, 512, 513, 1024, 4096}
var c02ADLens = []int{13, 0, 1, 16, 17, 64, 12, 33}
var c02BoxLens = []int{0, 1, 16, 33, 64, 129}

// c02Exp is one sealed AEAD message and the machinery to present tampered
// variants of it to Open on every path.
type c02Exp struct {
	m     *mon.M
	kind  int
	key   []byte
	nonce []byte
	ad    []byte
	pt    []byte
	seal  []byte // ct ‖ tag from the executable spec
	ks    []byte // payload key stream for (key, nonce), long enough for any extension
	ctA   *guard.Arena
	adA   *guard.Arena
	dstA  *guard.Arena
	r     *rand.Rand
	seq   int
	ps    []string
}

const c02MaxExt = 32

// try presents (key, nonce, sealed, ad) — which differs from the sealed tuple
// in the way `class`/`what` describes — to Open on every path and judges the
// outcome: must be rejected; nothing resembling the would-be plaintext may be
// left in the destination window.
func (x *c02Exp) try(class, what string, key, nonce, sealed, ad []byte) {
	m := x.m
	n := len(sealed) - 16
	var wb []byte // would-be plaintext: keystream decryption of the presented ciphertext
	if n >= 8 {
		ks := x.ks
		if !bytes.Equal(key, x.key) || !bytes.Equal(nonce, x.nonce) {
			ks = aead8439.PayloadKeystream(key, nonce, n)
		}
		wb = make([]byte, n)
		for i := range wb {
			wb[i] = sealed[i] ^ ks[i]
		}
	}
	a := newAEAD(x.kind, key)
	nonceCopy := append([]byte(nil), nonce...)
	x.seq++
	for pi, path := range x.ps {
		// dst mode 7: nil dst; 2,5: in place; else guarded window. Mode and guard
		// alignment rotate with the tamper sequence number and the path so that
		// every bit position of a byte and every path meets every mode.
		mode := (x.seq + x.seq/8 + 3*pi) % 8
		align := (x.seq/3 + pi) % 2
		gct := place(x.ctA, align, len(sealed), sealed)
		gad := place(x.adA, align, len(ad), ad)
		var d *dstBuf
		var dst, window []byte
		switch {
		case mode == 7:
			dst = nil
		case mode == 2 || mode == 5:
			dst = gct[:0]
			if n > 0 {
				window = gct[:n]
			}
		default:
			w := n
			if w < 0 {
				w = 0
			}
			d = mkDst(x.dstA, align, 3, w, 4, x.r, 0)
			window = d.window()
			for i := range window { // per-position sentinel that differs from the would-be plaintext
				if wb != nil {
					window[i] = ^wb[i]
				} else {
					window[i] = 0xEE
				}
			}
			dst = d.dst()
		}
		var out []byte
		var err error
		var fault *guard.Fault
		var pv any
		onPath(path, func() {
			fault, pv = guard.Run(func() { out, err = a.Open(dst, nonce, gct, gad) })
		})
		m.Eval()
		m.Count(path+"_"+class, 1)
		// inputs are not outputs: nonce, ad, the presented ciphertext (in-place
		// mode: its tag bytes; the payload part is the documented output window)
		// must be unchanged, whatever the verdict
		if fault == nil {
			changed := ""
			switch {
			case !bytes.Equal(gad, ad):
				changed = "ad"
			case !bytes.Equal(nonce, nonceCopy):
				changed = "nonce"
			case mode == 2 || mode == 5:
				if n >= 0 && !bytes.Equal(gct[n:], sealed[n:]) {
					changed = "ciphertext-tag(in-place)"
				}
			case !bytes.Equal(gct, sealed):
				changed = "ciphertext"
			}
			m.Count("inputs_verified_unchanged", 1)
			if changed != "" {
				m.Violation("input-modified:open-tampered:"+path+":"+changed, map[string]any{"path": path, "kind": kindName(x.kind), "class": class, "modification": what, "dst_mode": mode,
					"key": mon.FullHex(key), "nonce": mon.FullHex(nonceCopy), "ad": mon.FullHex(ad), "sealed": mon.FullHex(sealed)})
			}
		}
		if len(x.pt) == 129 && (class == "ct-bit" || class == "tag-bit") {
			m.Count(path+"_len129_bits_flipped", 1)
		}
		if len(sealed) < 16 {
			m.Count(path+"_inputs_shorter_than_tag", 1)
		}
		m.Distinct(fmt.Sprintf("%s %s %s %s mode=%d", path, kindName(x.kind), class, asmBranch(len(x.pt)), mode))
		wit := func() map[string]any {
			return map[string]any{"path": path, "kind": kindName(x.kind), "class": class, "modification": what, "dst_mode": mode,
				"key": mon.FullHex(key), "nonce": mon.FullHex(nonce), "ad": mon.FullHex(ad), "sealed": mon.FullHex(sealed),
				"orig_key": mon.FullHex(x.key), "orig_nonce": mon.FullHex(x.nonce), "orig_ad": mon.FullHex(x.ad), "orig_sealed": mon.FullHex(x.seal)}
		}
		if fault != nil {
			w := wit()
			w["fault"] = fault.Err
			m.Violation("guard-fault:open-tampered:"+path, w)
			continue
		}
		if pv != nil {
			w := wit()
			w["panic"] = fmt.Sprint(pv)
			m.Violation("panic:open-tampered:"+path, w)
			continue
		}
		if err == nil {
			w := wit()
			w["returned"] = mon.Hex(out)
			m.Violation(fmt.Sprintf("forgery-accepted:aead:%s:%s:%s", path, kindName(x.kind), class), w)
			continue
		}
		m.Count("rejected", 1)
		// leak clause
		if wb != nil {
			leak := -1
			if window != nil {
				m.Count(path+"_leak_windows_inspected", 1)
				leak = runOfEqual(window, wb, 8)
			}
			if leak < 0 && len(out) >= 8 {
				// a non-nil return on failure: whatever follows dst's own bytes is "returned region"
				off := 0
				if d != nil {
					off = d.p
				}
				if len(out) > off {
					leak = runOfEqual(out[off:], wb, 8)
				}
			}
			if leak >= 0 {
				w := wit()
				w["would_be_plaintext"] = mon.Hex(wb)
				w["window_after"] = mon.Hex(window)
				w["leak_at"] = leak
				m.Violation("plaintext-left-in-dst:"+path, w)
			}
		}
		if d != nil && (!d.prefixIntact() || !d.spareIntact()) {
			w := wit()
			w["prefix_now"], w["spare_now"] = mon.Hex(d.region[:d.p]), mon.Hex(d.region[d.p+d.win:])
			m.Violation("failed-open-damaged-canary:"+path, w)
		}
	}
}

// authenticRejected records that Open refused (or garbled) the unmodified,
// spec-sealed message: the same Open code C02 anchors rejects an authentic
// input; the tamper results of that unit on that path are then vacuous.
func (x *c02Exp) authenticRejected(path, what string, err error) {
	w := map[string]any{"path": path, "kind": kindName(x.kind), "what": what, "key": mon.FullHex(x.key), "nonce": mon.FullHex(x.nonce), "ad": mon.FullHex(x.ad), "pt": mon.FullHex(x.pt), "sealed_by_spec": mon.FullHex(x.seal)}
	if err != nil {
		w["err"] = err.Error()
	}
	x.m.Violation("authentic-rejected:aead:"+path+":"+kindName(x.kind), w)
}

// selfSealed runs enumerate a second time, per path, on the message as the
// implementation's OWN Seal on that path produces it — but only when that
// differs from the spec-sealed one (then C01 is violated, and the statement
// "Open rejects what differs from the values used by Seal" has to be judged
// against what Seal really emitted; on a conforming tree this never happens and
// costs one Seal per path).
func (x *c02Exp) selfSealed(enumerate func(x *c02Exp)) {
	a := newAEAD(x.kind, x.key)
	for _, path := range x.ps {
		var own, back []byte
		var err error
		onPath(path, func() {
			own = a.Seal(nil, x.nonce, x.pt, x.ad)
			back, err = a.Open(nil, x.nonce, own, x.ad)
		})
		x.m.Count("self_sealed_compared", 1)
		if bytes.Equal(own, x.seal) {
			continue
		}
		x.m.Count("self_sealed_differs_from_spec:"+path, 1)
		if err != nil || !bytes.Equal(back, x.pt) {
			y := *x
			y.seal = own
			y.authenticRejected(path, "the message as this path's own Seal emitted it (which also differs from the spec)", err)
			continue
		}
		y := *x
		y.seal = own
		y.ps = []string{path}
		enumerate(&y)
	}
}

// runOfEqual returns the start of the first run of >= k positions where
// a[i]==b[i], or -1.
func runOfEqual(a, b []byte, k int) int {
	n := len(a)
	if len(b) < n {
		n = len(b)
	}
	run := 0
	for i := 0; i < n; i++ {
		if a[i] == b[i] {
			run++
			if run >= k {
				return i - k + 1
			}
		} else {
			run = 0
		}
	}
	return -1
}

func nonzero(b []byte) []byte {
	for i := range b {
		if b[i] == 0 {
			b[i] = byte(1 + i%250)
		}
	}
	return b
}

// bitPositions returns every bit of nbytes, or (quick tier, long inputs) a
// fixed-size sample that always contains the first and last 24 bytes.
func bitPositions(r *rand.Rand, nbytes int, all bool, sample int) []int {
	total := nbytes * 8
	if all || total <= sample {
		out := make([]int, total)
		for i := range out {
			out[i] = i
		}
		return out
	}
	seen := map[int]bool{}
	var out []int
	add := func(b int) {
		if b >= 0 && b < total && !seen[b] {
			seen[b] = true
			out = append(out, b)
		}
	}
	for b := 0; b < 24*8; b++ {
		add(b)
		add(total - 1 - b)
	}
	for len(out) < sample {
		add(r.IntN(total))
	}
	return out
}

func cat(bs ...[]byte) []byte {
	var out []byte
	for _, b := range bs {
		out = append(out, b...)
	}
	return out
}

// C02: Open rejects every input it did not produce; a failed
// ChaCha20-Poly1305 Open leaves no decrypted bytes in dst.
func TestC02(t *testing.T) {
	m := mon.New(t, "C02")
	defer m.Done()
	m.Rule("fault enumeration: for each kind (chacha, xchacha) and payload length in {0,1,8,15,16,17,32,33,63..65,127..129,192,193,255..257,320,321,511..513,1024,4096} a message sealed by the executable spec is modified by the harness in exactly one way and presented to Open on every path (asm, generic; purego build): every single bit of ct‖tag (quick tier: every bit up to 1 KiB sealed size, 2000 positions incl. both ends above), every bit of nonce, key and ad, truncation/extension by 1..32 at either end (zero and random bytes), bytes removed/inserted in front of the tag, ad shortened/zero-extended, long additional data (255, 256, 257, 272, 511..513, 1000, 4096, 65552 bytes: one bit in every byte position up to 1000 bytes and stride-sampled above, all bits at both ends and at positions 0/15/16 mod 16 and mod 256, truncation/extension by 1..32, AD cut to its first len mod 256 / mod 65536 bytes), every prefix shorter than a tag, swapped ad/ct, random multi-byte edits; additionally messages whose true final Poly1305 accumulator is constructed at the edges of the final reduction / tag addition (h in 0..4, p-1, p-5, carry into 2^128, limb boundaries) with every tag bit and the arithmetic neighbours of the tag (+-1, +-5, +-2^64, +-(2^64+-5), +-2^32, +-2^96); the same for secretbox.Open and box.Open/OpenAfterPrecomputation/OpenAnonymous (Curve25519's ignored key bits excluded). A last stream shares ONE AEAD value between 8 goroutines that Open one spec-sealed message per round, valid or with one bit flipped in nonce/ad/ct/tag (fixed counts), so tampered and valid Opens of the same message overlap. Oracle: by construction every presented tuple differs from the sealed one => must be rejected; leak clause: dst window pre-filled with the complement of the would-be plaintext (ref key stream), a run of >= 8 would-be plaintext bytes after a failed Open is a violation. distinct = (path, kind, tamper class, asm length branch, dst mode)")
	m.Assume("the sealed messages come from h/ref/aead8439 (AEAD) and are confirmed authentic by an unmodified Open on each path before tampering; NaCl boxes are sealed by the package itself and cross-checked against libsodium " + sodiumaead.Version())
	m.Assume("Curve25519 ignores bit 255 of a public key and clamps bits 0,1,2,254,255 of a private key: flips of those bits give an equivalent key and are not presented as modifications")

	if mon.RaceBuild {
		// -race build: only the shared-value concurrency stream
		c02Concurrent(m, paths())
		return
	}
	ps := paths()
	ctA := guard.New(8192)
	adA := guard.New(c02MaxAD + 64)
	dstA := guard.New(8192)
	defer ctA.Free()
	defer adA.Free()
	defer dstA.Free()
	allBits := m.Thorough()
	const groups = 3
	nAEAD := 2 * len(c02Lens) * groups
	nSB := len(c02Lens)
	nBox := 3 * len(c02BoxLens)
	conTargets := c02ConTargets()
	nCon := 2 * len(c02ConLens) * len(conTargets)
	nLongAD := 2 * len(c02LongADLens)
	total := nAEAD + nSB + nBox + nCon + nLongAD

	m.Cases("units", total, func(i int64, r *rand.Rand) {
		u := int(i)
		switch {
		case u < nAEAD:
			kind := u / (len(c02Lens) * groups)
			li := (u / groups) % len(c02Lens)
			c02AEADUnit(m, r, ps, kind, li, u%groups, allBits, ctA, adA, dstA)
		case u < nAEAD+nSB:
			c02SecretboxUnit(m, r, c02Lens[u-nAEAD], allBits)
		case u < nAEAD+nSB+nBox:
			v := u - nAEAD - nSB
			c02BoxUnit(m, r, v/len(c02BoxLens), c02BoxLens[v%len(c02BoxLens)])
		case u >= nAEAD+nSB+nBox+nCon:
			v := u - nAEAD - nSB - nBox - nCon
			c02LongADUnit(m, r, ps, v/len(c02LongADLens), v%len(c02LongADLens), ctA, adA, dstA)
		default:
			v := u - nAEAD - nSB - nBox
			ti := v % len(conTargets)
			v /= len(conTargets)
			c02ConstructedUnit(m, r, ps, v/len(c02ConLens), c02ConLens[v%len(c02ConLens)], conTargets[ti], ctA, adA, dstA)
		}
	})
	c02Concurrent(m, ps)
	for _, p := range []string{"asm", "generic", "purego"} {
		m.Gate(p+"_len129_bits_flipped", 2*145*8, "every bit of every byte of the 129-byte message's ct‖tag flipped, both kinds, on the "+p+" path")
		m.Gate(p+"_inputs_shorter_than_tag", 32, "inputs shorter than a tag on the "+p+" path")
		m.Gate(p+"_leak_windows_inspected", 10000, "dst windows inspected after a failed Open on the "+p+" path")
		m.Gate(p+"_key-bit", 2*256*len(c02Lens), "every key bit, every message, on the "+p+" path")
		m.Gate(p+"_nonce-bit", (96+192)*len(c02Lens), "every nonce bit, every message, on the "+p+" path")
		m.Gate(p+"_trunc", 2*len(c02Lens)*16, "truncations on the "+p+" path")
		m.Gate(p+"_ext", 2*len(c02Lens)*32, "extensions on the "+p+" path")
	}
	for _, p := range []string{"asm", "generic", "purego"} {
		m.Gate(p+"_constructed_authentic_accepted", nCon*9/10, "authentic messages with a constructed final Poly1305 accumulator accepted before tampering on the "+p+" path")
		m.Gate(p+"_tag-arith", nCon*9/10*len(c02TagDeltas()), "arithmetic neighbours of the tag of constructed messages presented on the "+p+" path")
	}
	for _, p := range []string{"asm", "generic", "purego"} {
		m.Gate(p+"_long-ad-bit", c02LongADGate["bit"], "bit flips in additional data of 255..65552 bytes on the "+p+" path")
		m.Gate(p+"_long-ad-trunc", c02LongADGate["trunc"], "truncations of long additional data on the "+p+" path")
		m.Gate(p+"_long-ad-ext", c02LongADGate["ext"], "extensions of long additional data on the "+p+" path")
		m.Gate(p+"_long-ad-prefix", c02LongADGate["prefix"], "long additional data replaced by its first (len mod 256 / mod 65536) bytes on the "+p+" path")
		m.Gate(p+"_long_ad_authentic_accepted", nLongAD, "authentic long-AD messages accepted before tampering on the "+p+" path")
	}
	m.Gate("secretbox_box-bit", 2*8*(16+129), "secretbox box bits flipped (both builds)")
	m.Gate("secretbox_key-bit", 2*256*len(c02Lens), "secretbox key bits flipped")
	m.Gate("box.Open_box-bit", 2*8*(16+129), "box.Open box bits flipped")
	m.Gate("box.OpenAfterPrecomputation_box-bit", 2*8*(16+129), "box.OpenAfterPrecomputation box bits flipped")
	m.Gate("box.OpenAnonymous_box-bit", 2*8*(48+129), "box.OpenAnonymous box bits flipped")
	if allBits {
		m.SetExhaustive(true)
	}
}

func c02AEADUnit(m *mon.M, r *rand.Rand, ps []string, kind, li, group int, allBits bool, ctA, adA, dstA *guard.Arena) {
	n := c02Lens[li]
	x := &c02Exp{m: m, kind: kind, ctA: ctA, adA: adA, dstA: dstA, r: r, ps: ps}
	x.key = mon.Bytes(r, 32)
	x.nonce = mon.Bytes(r, nonceLen(kind))
	x.ad = mon.Bytes(r, c02ADLens[(li+kind)%len(c02ADLens)])
	x.pt = nonzero(mon.Bytes(r, n))
	x.seal = aead8439.SealN(x.key, x.nonce, x.pt, x.ad)
	x.ks = aead8439.PayloadKeystream(x.key, x.nonce, n+2*c02MaxExt+16)
	if li < 2 && group == 0 {
		m.Sample(map[string]any{"kind": kindName(kind), "ptlen": n, "key": mon.FullHex(x.key), "nonce": mon.FullHex(x.nonce), "ad": mon.FullHex(x.ad), "sealed": mon.Hex(x.seal), "group": "every bit of ct‖tag"})
	}
	// baseline: the unmodified tuple is authentic on every path
	a := newAEAD(kind, x.key)
	for _, path := range ps {
		var out []byte
		var err error
		onPath(path, func() { out, err = a.Open(nil, x.nonce, x.seal, x.ad) })
		if err != nil || !bytes.Equal(out, x.pt) {
			x.authenticRejected(path, fmt.Sprintf("payload %d bytes, ad %d bytes", n, len(x.ad)), err)
			continue
		}
	}
	m.Count("baseline_authentic", len(ps))
	enumerate := func(x *c02Exp) {
		n := len(x.seal) - 16
		switch group {
		case 0: // every bit of ct ‖ tag
			for _, b := range bitPositions(r, len(x.seal), allBits || len(x.seal) <= 1024+16, 2000) {
				class := "ct-bit"
				if b/8 >= n {
					class = "tag-bit"
				}
				x.try(class, fmt.Sprintf("sealed bit %d flipped", b), x.key, x.nonce, flipBit(x.seal, b), x.ad)
			}
		case 1: // every bit of nonce, key, ad
			for b := 0; b < len(x.nonce)*8; b++ {
				x.try("nonce-bit", fmt.Sprintf("nonce bit %d flipped", b), x.key, flipBit(x.nonce, b), x.seal, x.ad)
			}
			for b := 0; b < 256; b++ {
				x.try("key-bit", fmt.Sprintf("key bit %d flipped", b), flipBit(x.key, b), x.nonce, x.seal, x.ad)
			}
			for b := 0; b < len(x.ad)*8; b++ {
				x.try("ad-bit", fmt.Sprintf("ad bit %d flipped", b), x.key, x.nonce, x.seal, flipBit(x.ad, b))
			}
		case 2: // length changes and structural edits
			ct, tag := x.seal[:n], x.seal[n:]
			for k := 1; k <= c02MaxExt; k++ {
				if k <= len(x.seal) {
					x.try("trunc", fmt.Sprintf("last %d bytes removed", k), x.key, x.nonce, x.seal[:len(x.seal)-k], x.ad)
					x.try("trunc", fmt.Sprintf("first %d bytes removed", k), x.key, x.nonce, x.seal[k:], x.ad)
				}
				x.try("ext", fmt.Sprintf("%d zero bytes appended", k), x.key, x.nonce, cat(x.seal, make([]byte, k)), x.ad)
				x.try("ext", fmt.Sprintf("%d random bytes appended", k), x.key, x.nonce, cat(x.seal, mon.Bytes(r, k)), x.ad)
				x.try("ext", fmt.Sprintf("%d zero bytes prepended", k), x.key, x.nonce, cat(make([]byte, k), x.seal), x.ad)
				x.try("ext", fmt.Sprintf("%d random bytes prepended", k), x.key, x.nonce, cat(mon.Bytes(r, k), x.seal), x.ad)
				if k <= 16 {
					if k <= n {
						x.try("ct-shortened", fmt.Sprintf("%d bytes removed in front of the tag", k), x.key, x.nonce, cat(ct[:n-k], tag), x.ad)
					}
					x.try("ct-zero-padded", fmt.Sprintf("%d zero bytes inserted in front of the tag", k), x.key, x.nonce, cat(ct, make([]byte, k), tag), x.ad)
					if k <= len(x.ad) {
						x.try("ad-shortened", fmt.Sprintf("last %d ad bytes removed", k), x.key, x.nonce, x.seal, x.ad[:len(x.ad)-k])
					}
					x.try("ad-zero-padded", fmt.Sprintf("%d zero bytes appended to ad", k), x.key, x.nonce, x.seal, cat(x.ad, make([]byte, k)))
				}
			}
			for k := 0; k < 16 && k < len(x.seal); k++ {
				x.try("short-input", fmt.Sprintf("only the first %d bytes", k), x.key, x.nonce, x.seal[:k], x.ad)
				x.try("short-input", fmt.Sprintf("only the last %d bytes", k), x.key, x.nonce, x.seal[len(x.seal)-k:], x.ad)
			}
			if !bytes.Equal(ct, x.ad) {
				x.try("swap-ad-ct", "ad and ciphertext exchanged", x.key, x.nonce, cat(x.ad, tag), ct)
			}
			if len(x.ad) > 0 {
				x.try("ad-moved-into-ct", "ad prepended to ct, ad emptied", x.key, x.nonce, cat(x.ad, x.seal), nil)
			}
			x.try("tag-zero", "tag replaced by zeros", x.key, x.nonce, cat(ct, make([]byte, 16)), x.ad)
			x.try("tag-ff", "tag replaced by ff", x.key, x.nonce, cat(ct, bytes.Repeat([]byte{0xff}, 16)), x.ad)
			for e := 0; e < 32; e++ {
				mod := append([]byte(nil), x.seal...)
				w := 1 + r.IntN(8)
				at := r.IntN(len(mod))
				changed := false
				for j := at; j < at+w && j < len(mod); j++ {
					nb := byte(r.Uint32())
					if nb != mod[j] {
						changed = true
					}
					mod[j] = nb
				}
				if !changed {
					mod[at] ^= 0x80
				}
				x.try("multi-byte", fmt.Sprintf("%d bytes rewritten at %d", w, at), x.key, x.nonce, mod, x.ad)
			}
		}
	}
	enumerate(x)
	x.selfSealed(enumerate)
}

func c02SecretboxUnit(m *mon.M, r *rand.Rand, n int, allBits bool) {
	var key [32]byte
	var nonce [24]byte
	copy(key[:], mon.Bytes(r, 32))
	copy(nonce[:], mon.Bytes(r, 24))
	msg := nonzero(mon.Bytes(r, n))
	sealed := secretbox.Seal(nil, msg, &nonce, &key)
	if w := sodiumaead.SecretboxSeal(msg, nonce[:], key[:]); !bytes.Equal(w, sealed) {
		m.Inconclusive(fmt.Sprintf("baseline: secretbox.Seal differs from libsodium crypto_secretbox_easy (len %d); tamper experiment skipped", n))
		return
	}
	if out, ok := secretbox.Open(nil, sealed, &nonce, &key); !ok || !bytes.Equal(out, msg) {
		m.Violation("authentic-rejected:secretbox.Open", map[string]any{"fn": "secretbox.Open", "box": mon.FullHex(sealed), "nonce": mon.FullHex(nonce[:]), "key": mon.FullHex(key[:]), "msg": mon.FullHex(msg)})
		return
	}
	m.Count("baseline_authentic", 1)
	try := func(class, what string, bx []byte, nn *[24]byte, kk *[32]byte) {
		var out []byte
		var ok bool
		pv, _ := mon.Panics(func() { out, ok = secretbox.Open(nil, bx, nn, kk) })
		m.Eval()
		m.Count("secretbox_"+class, 1)
		if len(bx) < 16 {
			m.Count("secretbox_inputs_shorter_than_tag", 1)
		}
		m.Distinct(fmt.Sprintf("secretbox %s n%%64=%d", class, n%64))
		wit := map[string]any{"fn": "secretbox.Open", "class": class, "modification": what, "box": mon.FullHex(bx), "nonce": mon.FullHex(nn[:]), "key": mon.FullHex(kk[:]),
			"orig_box": mon.FullHex(sealed), "orig_nonce": mon.FullHex(nonce[:]), "orig_key": mon.FullHex(key[:])}
		switch {
		case pv != nil:
			wit["panic"] = fmt.Sprint(pv)
			m.Violation("panic:secretbox.Open-tampered", wit)
		case ok:
			wit["returned"] = mon.Hex(out)
			m.Violation("forgery-accepted:secretbox:"+class, wit)
		default:
			m.Count("rejected", 1)
			if out != nil {
				m.Count("nacl_nonnil_slice_on_failure", 1)
			}
		}
	}
	for _, b := range bitPositions(r, len(sealed), allBits || len(sealed) <= 1024+16, 2000) {
		try("box-bit", fmt.Sprintf("box bit %d flipped", b), flipBit(sealed, b), &nonce, &key)
	}
	for b := 0; b < 192; b++ {
		var nn [24]byte
		copy(nn[:], flipBit(nonce[:], b))
		try("nonce-bit", fmt.Sprintf("nonce bit %d flipped", b), sealed, &nn, &key)
	}
	for b := 0; b < 256; b++ {
		var kk [32]byte
		copy(kk[:], flipBit(key[:], b))
		try("key-bit", fmt.Sprintf("key bit %d flipped", b), sealed, &nonce, &kk)
	}
	for k := 1; k <= c02MaxExt; k++ {
		if k <= len(sealed) {
			try("trunc", fmt.Sprintf("last %d bytes removed", k), sealed[:len(sealed)-k], &nonce, &key)
			try("trunc", fmt.Sprintf("first %d bytes removed", k), sealed[k:], &nonce, &key)
		}
		try("ext", fmt.Sprintf("%d zero bytes appended", k), cat(sealed, make([]byte, k)), &nonce, &key)
		try("ext", fmt.Sprintf("%d random bytes appended", k), cat(sealed, mon.Bytes(r, k)), &nonce, &key)
		try("ext", fmt.Sprintf("%d zero bytes prepended", k), cat(make([]byte, k), sealed), &nonce, &key)
	}
	for k := 0; k < 16 && k < len(sealed); k++ {
		try("short-input", fmt.Sprintf("only the first %d bytes", k), sealed[:k], &nonce, &key)
	}
	// the AEAD layout (tag last) presented to the tag-first format
	if n > 0 {
		try("tag-moved-to-end", "tag moved behind the ciphertext", cat(sealed[16:], sealed[:16]), &nonce, &key)
	}
}

func c02BoxUnit(m *mon.M, r *rand.Rand, fn, n int) {
	rd := mon.Reader{R: r}
	pubA, privA, _ := box.GenerateKey(rd)
	pubB, privB, _ := box.GenerateKey(rd)
	var nonce [24]byte
	copy(nonce[:], mon.Bytes(r, 24))
	msg := nonzero(mon.Bytes(r, n))
	name := []string{"box.Open", "box.OpenAfterPrecomputation", "box.OpenAnonymous"}[fn]
	var shared [32]byte
	box.Precompute(&shared, pubA, privB)
	var sealed []byte
	switch fn {
	case 0, 1:
		sealed = box.Seal(nil, msg, &nonce, pubB, privA)
		if w, ok := sodiumaead.BoxSeal(msg, nonce[:], pubB[:], privA[:]); ok && !bytes.Equal(w, sealed) {
			m.Inconclusive(fmt.Sprintf("baseline: box.Seal differs from libsodium crypto_box_easy (len %d)", n))
			return
		}
	case 2:
		var err error
		sealed, err = box.SealAnonymous(nil, msg, pubB, rd)
		if err != nil {
			m.Inconclusive("baseline: SealAnonymous failed: " + err.Error())
			return
		}
		if w, ok := sodiumaead.BoxOpenAnonymous(sealed, pubB[:], privB[:]); !ok || !bytes.Equal(w, msg) {
			m.Inconclusive(fmt.Sprintf("baseline: libsodium crypto_box_seal_open rejects box.SealAnonymous output (len %d)", n))
			return
		}
	}
	// open(box, nonce, pub, priv/shared)
	open := func(bx []byte, nn *[24]byte, pub, priv *[32]byte) ([]byte, bool) {
		switch fn {
		case 0:
			return box.Open(nil, bx, nn, pub, priv)
		case 1:
			return box.OpenAfterPrecomputation(nil, bx, nn, priv) // priv carries the shared key
		}
		return box.OpenAnonymous(nil, bx, pub, priv)
	}
	pub0, priv0 := pubA, privB // Open: sender's public, recipient's private
	if fn == 1 {
		priv0 = &shared
	}
	if fn == 2 {
		pub0 = pubB // OpenAnonymous: recipient's own key pair
	}
	if out, ok := open(sealed, &nonce, pub0, priv0); !ok || !bytes.Equal(out, msg) {
		m.Violation("authentic-rejected:"+name, map[string]any{"fn": name, "box": mon.FullHex(sealed), "nonce": mon.FullHex(nonce[:]), "public": mon.FullHex(pub0[:]), "private_or_shared": mon.FullHex(priv0[:]), "msg": mon.FullHex(msg)})
		return
	}
	m.Count("baseline_authentic", 1)
	try := func(class, what string, bx []byte, nn *[24]byte, pub, priv *[32]byte) {
		var out []byte
		var ok bool
		pv, _ := mon.Panics(func() { out, ok = open(bx, nn, pub, priv) })
		m.Eval()
		m.Count(name+"_"+class, 1)
		m.Distinct(fmt.Sprintf("%s %s n=%d", name, class, n))
		wit := map[string]any{"fn": name, "class": class, "modification": what, "box": mon.FullHex(bx), "nonce": mon.FullHex(nn[:]), "public": mon.FullHex(pub[:]), "private_or_shared": mon.FullHex(priv[:]),
			"orig_box": mon.FullHex(sealed), "orig_nonce": mon.FullHex(nonce[:]), "orig_public": mon.FullHex(pub0[:]), "orig_private_or_shared": mon.FullHex(priv0[:])}
		switch {
		case pv != nil:
			wit["panic"] = fmt.Sprint(pv)
			m.Violation("panic:"+name+"-tampered", wit)
		case ok:
			wit["returned"] = mon.Hex(out)
			m.Violation("forgery-accepted:"+name+":"+class, wit)
		default:
			m.Count("rejected", 1)
		}
	}
	for b := 0; b < len(sealed)*8; b++ {
		try("box-bit", fmt.Sprintf("box bit %d flipped", b), flipBit(sealed, b), &nonce, pub0, priv0)
	}
	if fn != 2 {
		for b := 0; b < 192; b++ {
			var nn [24]byte
			copy(nn[:], flipBit(nonce[:], b))
			try("nonce-bit", fmt.Sprintf("nonce bit %d flipped", b), sealed, &nn, pub0, priv0)
		}
	}
	if fn != 1 {
		for b := 0; b < 256; b++ {
			if b == 255 && fn == 0 {
				m.Count("equivalent_key_bits_skipped", 1) // Curve25519 masks the top bit of u
				continue
			}
			var pp [32]byte
			copy(pp[:], flipBit(pub0[:], b))
			try("public-key-bit", fmt.Sprintf("public key bit %d flipped", b), sealed, &nonce, &pp, priv0)
		}
	}
	for b := 0; b < 256; b++ {
		if fn != 1 && (b <= 2 || b >= 254) {
			m.Count("equivalent_key_bits_skipped", 1) // clamped scalar bits
			continue
		}
		var kk [32]byte
		copy(kk[:], flipBit(priv0[:], b))
		cls := "private-key-bit"
		if fn == 1 {
			cls = "shared-key-bit"
		}
		try(cls, fmt.Sprintf("%s %d flipped", cls, b), sealed, &nonce, pub0, &kk)
	}
	for k := 1; k <= c02MaxExt; k++ {
		if k <= len(sealed) {
			try("trunc", fmt.Sprintf("last %d bytes removed", k), sealed[:len(sealed)-k], &nonce, pub0, priv0)
			try("trunc", fmt.Sprintf("first %d bytes removed", k), sealed[k:], &nonce, pub0, priv0)
		}
		try("ext", fmt.Sprintf("%d zero bytes appended", k), cat(sealed, make([]byte, k)), &nonce, pub0, priv0)
		try("ext", fmt.Sprintf("%d random bytes prepended", k), cat(mon.Bytes(r, k), sealed), &nonce, pub0, priv0)
	}
	for k := 0; k < 16; k++ {
		try("short-input", fmt.Sprintf("only the first %d bytes", k), sealed[:k], &nonce, pub0, priv0)
	}
}

// ---- constructed accumulator messages (shared with C01) ----

var c02ConLens = []int{16, 64, 129, 192, 193, 320, 321, 513}

func c02ConTargets() []polyTarget {
	var out []polyTarget
	for _, t := range polyTargets() {
		switch {
		case t.fam == "band[p,2^130)",
			t.name == "h=p-1", t.name == "h=p-5",
			t.name == "h=0*2^128+(2^128-s+0)", t.name == "h=3*2^128+(2^128-s+1)",
			t.name == "h=2*2^128+2^128-5+4", t.name == "h=2^64-5":
			out = append(out, t)
		}
	}
	return out
}

// c02TagDeltas are the tag offsets a faulty final reduction / tag addition
// would produce: +-p mod 2^128 = -+5 (missing or extra subtraction of p), a
// lost or spurious borrow/carry between the 64-bit limbs (+-2^64, +-(2^64+-5)),
// +-1, and limb-internal +-2^32, +-2^96.
func c02TagDeltas() []*big.Int {
	var out []*big.Int
	add := func(v *big.Int) {
		out = append(out, v, new(big.Int).Neg(v))
	}
	add(big.NewInt(1))
	add(big.NewInt(5))
	add(new(big.Int).Set(big2p64))
	add(new(big.Int).Add(big2p64, big.NewInt(5)))
	add(new(big.Int).Sub(big2p64, big.NewInt(5)))
	add(new(big.Int).Lsh(big.NewInt(1), 32))
	add(new(big.Int).Lsh(big.NewInt(1), 96))
	return out
}

func leAdd128(tag []byte, delta *big.Int) []byte {
	be := make([]byte, 16)
	for i := range tag {
		be[15-i] = tag[i]
	}
	v := new(big.Int).SetBytes(be)
	v.Add(v, delta)
	v.Mod(v, big2p128)
	out := make([]byte, 16)
	b := v.Bytes()
	for i := range b {
		out[i] = b[len(b)-1-i]
	}
	return out
}

// c02ConstructedUnit: a message whose true final Poly1305 accumulator sits at
// an edge of the final reduction / tag addition. It must be accepted unmodified
// on every path (otherwise the experiment is reported inconclusive: acceptance
// is C01's clause) and every tag bit flip and every arithmetic neighbour of its
// tag must be rejected.
func c02ConstructedUnit(m *mon.M, r *rand.Rand, ps []string, kind, n int, tgt polyTarget, ctA, adA, dstA *guard.Arena) {
	adlen := []int{0, 13, 16}[(n+kind)%3]
	c, ok := constructAEAD(r, kind, n, adlen, tgt)
	if !ok {
		m.Count("constructed_unsolved", 1)
		return
	}
	x := &c02Exp{m: m, kind: kind, ctA: ctA, adA: adA, dstA: dstA, r: r, ps: ps}
	x.key, x.nonce, x.ad, x.pt = c.key, c.nonce, c.ad, c.pt
	x.seal = aead8439.SealN(x.key, x.nonce, x.pt, x.ad)
	x.ks = aead8439.PayloadKeystream(x.key, x.nonce, n+2*c02MaxExt+16)
	a := newAEAD(kind, x.key)
	for _, path := range ps {
		var out []byte
		var err error
		onPath(path, func() { out, err = a.Open(nil, x.nonce, x.seal, x.ad) })
		if err != nil || !bytes.Equal(out, x.pt) {
			x.authenticRejected(path, fmt.Sprintf("constructed accumulator %s (%s), payload %d bytes", tgt.name, tgt.fam, n), err)
			continue
		}
		m.Count(path+"_constructed_authentic_accepted", 1)
	}
	ct, tag := x.seal[:n], x.seal[n:]
	for b := 0; b < 128; b++ {
		x.try("tag-bit", fmt.Sprintf("constructed %s: tag bit %d flipped", tgt.name, b), x.key, x.nonce, cat(ct, flipBit(tag, b)), x.ad)
	}
	for _, d := range c02TagDeltas() {
		x.try("tag-arith", fmt.Sprintf("constructed %s: tag %+d (mod 2^128)", tgt.name, d), x.key, x.nonce, cat(ct, leAdd128(tag, d)), x.ad)
	}
}

// ---- long additional data ----

// AD lengths around the 8-bit and 16-bit length boundaries (the assembly
// hashes AD in a loop of its own, controlled by the remaining-length register).
var c02LongADLens = []int{255, 256, 257, 272, 511, 512, 513, 1000, 4096, 65535 + 17}

const c02MaxAD = 65535 + 17 + c02MaxExt

// minimum per-path long-AD tamper counts (the enumeration is seed-independent;
// these are ~90% of what it yields).
var c02LongADGate = map[string]int{"bit": 33000, "trunc": 1150, "ext": 1150, "prefix": 30}

// c02LongADUnit: a message with long additional data, sealed by the spec and
// confirmed authentic on every path; then the AD is modified: one bit in every
// byte position (lengths <= 1000; stride-sampled above), all 8 bits in the first
// and last 32 bytes and at positions = 0, 15, 16 mod 16 (<= 1000) / mod 256,
// truncation/extension by 1..32, and the AD cut to its first len mod 256 (mod
// 65536) bytes — what a length register compared on 8 (16) bits would hash.
func c02LongADUnit(m *mon.M, r *rand.Rand, ps []string, kind, li int, ctA, adA, dstA *guard.Arena) {
	adlen := c02LongADLens[li]
	n := []int{16, 200, 0, 64, 321}[(li+kind)%5]
	x := &c02Exp{m: m, kind: kind, ctA: ctA, adA: adA, dstA: dstA, r: r, ps: ps}
	x.key = mon.Bytes(r, 32)
	x.nonce = mon.Bytes(r, nonceLen(kind))
	x.ad = mon.Bytes(r, adlen)
	x.pt = nonzero(mon.Bytes(r, n))
	x.seal = aead8439.SealN(x.key, x.nonce, x.pt, x.ad)
	x.ks = aead8439.PayloadKeystream(x.key, x.nonce, n+2*c02MaxExt+16)
	a := newAEAD(kind, x.key)
	for _, path := range ps {
		var out []byte
		var err error
		onPath(path, func() { out, err = a.Open(nil, x.nonce, x.seal, x.ad) })
		if err != nil || !bytes.Equal(out, x.pt) {
			x.authenticRejected(path, fmt.Sprintf("%d bytes of AD, payload %d bytes", adlen, n), err)
			continue
		}
		m.Count(path+"_long_ad_authentic_accepted", 1)
	}
	enumerate := func(x *c02Exp) {
		// bit flips
		allBits := func(pos int) bool {
			if pos < 32 || pos >= adlen-32 {
				return true
			}
			if m256 := pos % 256; m256 == 0 || m256 == 15 || m256 == 16 {
				return true
			}
			return adlen <= 1000 && (pos%16 == 0 || pos%16 == 15)
		}
		stride := 1
		switch {
		case adlen > 10000:
			stride = 131
		case adlen > 1000:
			stride = 7
		}
		for pos := 0; pos < adlen; pos++ {
			switch {
			case allBits(pos):
				for b := 0; b < 8; b++ {
					x.try("long-ad-bit", fmt.Sprintf("ad (%d bytes) bit %d of byte %d flipped", adlen, b, pos), x.key, x.nonce, x.seal, flipBit(x.ad, 8*pos+b))
				}
			case pos%stride == 0:
				x.try("long-ad-bit", fmt.Sprintf("ad (%d bytes) bit %d of byte %d flipped", adlen, pos%8, pos), x.key, x.nonce, x.seal, flipBit(x.ad, 8*pos+pos%8))
			}
		}
		for k := 1; k <= c02MaxExt; k++ {
			x.try("long-ad-trunc", fmt.Sprintf("last %d of %d ad bytes removed", k, adlen), x.key, x.nonce, x.seal, x.ad[:adlen-k])
			x.try("long-ad-trunc", fmt.Sprintf("first %d of %d ad bytes removed", k, adlen), x.key, x.nonce, x.seal, x.ad[k:])
			x.try("long-ad-ext", fmt.Sprintf("%d zero bytes appended to %d ad bytes", k, adlen), x.key, x.nonce, x.seal, cat(x.ad, make([]byte, k)))
			x.try("long-ad-ext", fmt.Sprintf("%d random bytes appended to %d ad bytes", k, adlen), x.key, x.nonce, x.seal, cat(x.ad, mon.Bytes(r, k)))
		}
		for _, mod := range []int{256, 65536} {
			if adlen >= mod {
				x.try("long-ad-prefix", fmt.Sprintf("ad cut to its first %d mod %d = %d bytes", adlen, mod, adlen%mod), x.key, x.nonce, x.seal, x.ad[:adlen%mod])
				// and the complementary cut: only whole multiples kept
				if adlen%mod != 0 {
					x.try("long-ad-prefix", fmt.Sprintf("ad cut to its first %d bytes (multiple of %d)", adlen-adlen%mod, mod), x.key, x.nonce, x.seal, x.ad[:adlen-adlen%mod])
				}
			}
		}
	}
	enumerate(x)
	x.selfSealed(enumerate)
}

package aead

import (
	"crypto/cipher"
	"math/rand/v2"

	"golang.org/x/crypto/chacha20poly1305"
	"verif/guard"
	"verif/mon"
)

// ---- dispatch paths ----

// paths returns the implementation paths observable in this build: "asm" and
// "generic" in the default build on a CPU with AVX2+BMI2 ("generic" only
// otherwise), "purego" in the -tags purego build (only the portable code, with
// the reflect-based alias package and the portable poly1305).
func paths() []string {
	if isPurego {
		return []string{"purego"}
	}
	if chacha20poly1305.VerifCPUHasAVX2() {
		return []string{"asm", "generic"}
	}
	return []string{"generic"}
}

// onPath runs fn with the named path selected (single goroutine per child:
// the switch is a package variable).
func onPath(path string, fn func()) {
	prev := chacha20poly1305.VerifSetAVX2(path == "asm")
	defer chacha20poly1305.VerifSetAVX2(prev)
	fn()
}

const (
	kindChaCha = 0
	kindX      = 1
)

func kindName(k int) string {
	if k == kindX {
		return "xchacha"
	}
	return "chacha"
}

func nonceLen(k int) int {
	if k == kindX {
		return 24
	}
	return 12
}

func newAEAD(kind int, key []byte) cipher.AEAD {
	var a cipher.AEAD
	var err error
	if kind == kindX {
		a, err = chacha20poly1305.NewX(key)
	} else {
		a, err = chacha20poly1305.New(key)
	}
	if err != nil {
		panic("harness: New: " + err.Error())
	}
	return a
}

// ---- guarded destination buffers ----

// dstBuf is a destination laid out in a guard arena:
// [prefix p bytes][window win bytes][spare s bytes], either ending exactly at
// the trailing PROT_NONE page (align 0) or starting right after the leading one
// (align 1). prefix and spare hold canaries.
type dstBuf struct {
	region   []byte
	p, win   int
	prefix   []byte // expected prefix content
	spare    []byte // expected spare content
	sentinel byte
}

const (
	alignEnd   = 0
	alignStart = 1
)

func alignName(a int) string {
	if a == alignStart {
		return "start"
	}
	return "end"
}

func place(a *guard.Arena, align, n int, src []byte) []byte {
	if align == alignStart {
		return a.Start(n, src)
	}
	return a.End(n, src)
}

func mkDst(a *guard.Arena, align, p, win, s int, r *rand.Rand, sentinel byte) *dstBuf {
	d := &dstBuf{p: p, win: win, sentinel: sentinel}
	d.region = place(a, align, p+win+s, nil)
	d.prefix = mon.Bytes(r, p)
	d.spare = mon.Bytes(r, s)
	copy(d.region, d.prefix)
	for i := p; i < p+win; i++ {
		d.region[i] = sentinel
	}
	copy(d.region[p+win:], d.spare)
	return d
}

// dst is the slice handed to the function under test: len p, cap p+win+s.
func (d *dstBuf) dst() []byte { return d.region[:d.p:len(d.region)] }

// window is the memory the function may write.
func (d *dstBuf) window() []byte { return d.region[d.p : d.p+d.win] }

func (d *dstBuf) prefixIntact() bool { return string(d.region[:d.p]) == string(d.prefix) }
func (d *dstBuf) spareIntact() bool  { return string(d.region[d.p+d.win:]) == string(d.spare) }

// sameBacking reports whether ret shares dst's array (no reallocation).
func sameBacking(ret, dst []byte) bool {
	return cap(ret) > 0 && cap(dst) > 0 && &ret[:1][0] == &dst[:1][0]
}

// ---- misc ----

func flipBit(b []byte, bit int) []byte {
	c := append([]byte(nil), b...)
	c[bit/8] ^= 1 << (bit % 8)
	return c
}

func firstDiff(a, b []byte) int {
	n := len(a)
	if len(b) < n {
		n = len(b)
	}
	for i := 0; i < n; i++ {
		if a[i] != b[i] {
			return i
		}
	}
	if len(a) != len(b) {
		return n
	}
	return -1
}

// asmBranch names the length class of the amd64 assembly the payload length
// selects (<=192: one 3-block pass; <=320: 5-block pass; above: 512-byte main
// loop followed by a tail of <=128/256/384/512 bytes).
func asmBranch(n int) string {
	switch {
	case n == 0:
		return "0"
	case n <= 192:
		return "<=192"
	case n <= 320:
		return "<=320"
	}
	t := n % 512
	switch {
	case t == 0:
		return "main+0"
	case t <= 128:
		return "main+<=128"
	case t <= 256:
		return "main+<=256"
	case t <= 384:
		return "main+<=384"
	}
	return "main+<=512"
}

func adClass(n int) string {
	switch {
	case n == 0:
		return "0"
	case n == 13:
		return "13"
	case n < 16:
		return "<16"
	case n%16 == 0:
		return "k16"
	}
	return "k16+r"
}

package aead

import (
	"crypto/cipher"
	"fmt"
	"math/big"
	"math/rand/v2"

	"golang.org/x/crypto/chacha20poly1305"
	"verif/guard"
	"verif/mon"
	"verif/ref/aead8439"
)

// ---- dispatch paths ----

// paths returns the implementation paths observable in this build: "asm" and
// "generic" in the default build on a CPU with AVX2+BMI2 ("generic" only
// otherwise), "purego" in the -tags purego build (only the portable code, with
// the reflect-based alias package and the portable poly1305).
func paths() []string {
	if isPurego {
		return []string{"purego"}
	}
	if chacha20poly1305.VerifCPUHasAVX2() {
		return []string{"asm", "generic"}
	}
	return []string{"generic"}
}

// onPath runs fn with the named path selected (single goroutine per child:
// the switch is a package variable).
func onPath(path string, fn func()) {
	prev := chacha20poly1305.VerifSetAVX2(path == "asm")
	defer chacha20poly1305.VerifSetAVX2(prev)
	fn()
}

const (
	kindChaCha = 0
	kindX      = 1
)

func kindName(k int) string {
	if k == kindX {
		return "xchacha"
	}
	return "chacha"
}

func nonceLen(k int) int {
	if k == kindX {
		return 24
	}
	return 12
}

func newAEAD(kind int, key []byte) cipher.AEAD {
	var a cipher.AEAD
	var err error
	if kind == kindX {
		a, err = chacha20poly1305.NewX(key)
	} else {
		a, err = chacha20poly1305.New(key)
	}
	if err != nil {
		panic("harness: New: " + err.Error())
	}
	return a
}

// ---- guarded destination buffers ----

// dstBuf is a destination laid out in a guard arena:
// [prefix p bytes][window win bytes][spare s bytes], either ending exactly at
// the trailing PROT_NONE page (align 0) or starting right after the leading one
// (align 1). prefix and spare hold canaries.
type dstBuf struct {
	region   []byte
	p, win   int
	prefix   []byte // expected prefix content
	spare    []byte // expected spare content
	sentinel byte
}

const (
	alignEnd   = 0
	alignStart = 1
)

func alignName(a int) string {
	if a == alignStart {
		return "start"
	}
	return "end"
}

func place(a *guard.Arena, align, n int, src []byte) []byte {
	if align == alignStart {
		return a.Start(n, src)
	}
	return a.End(n, src)
}

func mkDst(a *guard.Arena, align, p, win, s int, r *rand.Rand, sentinel byte) *dstBuf {
	d := &dstBuf{p: p, win: win, sentinel: sentinel}
	d.region = place(a, align, p+win+s, nil)
	d.prefix = mon.Bytes(r, p)
	d.spare = mon.Bytes(r, s)
	copy(d.region, d.prefix)
	for i := p; i < p+win; i++ {
		d.region[i] = sentinel
	}
	copy(d.region[p+win:], d.spare)
	return d
}

// dst is the slice handed to the function under test: len p, cap p+win+s.
func (d *dstBuf) dst() []byte { return d.region[:d.p:len(d.region)] }

// window is the memory the function may write.
func (d *dstBuf) window() []byte { return d.region[d.p : d.p+d.win] }

func (d *dstBuf) prefixIntact() bool { return string(d.region[:d.p]) == string(d.prefix) }
func (d *dstBuf) spareIntact() bool  { return string(d.region[d.p+d.win:]) == string(d.spare) }

// sameBacking reports whether ret shares dst's array (no reallocation).
func sameBacking(ret, dst []byte) bool {
	return cap(ret) > 0 && cap(dst) > 0 && &ret[:1][0] == &dst[:1][0]
}

// ---- misc ----

func flipBit(b []byte, bit int) []byte {
	c := append([]byte(nil), b...)
	c[bit/8] ^= 1 << (bit % 8)
	return c
}

func firstDiff(a, b []byte) int {
	n := len(a)
	if len(b) < n {
		n = len(b)
	}
	for i := 0; i < n; i++ {
		if a[i] != b[i] {
			return i
		}
	}
	if len(a) != len(b) {
		return n
	}
	return -1
}

// asmBranch names the length class of the amd64 assembly the payload length
// selects (<=192: one 3-block pass; <=320: 5-block pass; above: 512-byte main
// loop followed by a tail of <=128/256/384/512 bytes).
func asmBranch(n int) string {
	switch {
	case n == 0:
		return "0"
	case n <= 192:
		return "<=192"
	case n <= 320:
		return "<=320"
	}
	t := n % 512
	switch {
	case t == 0:
		return "main+0"
	case t <= 128:
		return "main+<=128"
	case t <= 256:
		return "main+<=256"
	case t <= 384:
		return "main+<=384"
	}
	return "main+<=512"
}

func adClass(n int) string {
	switch {
	case n == 0:
		return "0"
	case n == 13:
		return "13"
	case n < 16:
		return "<16"
	case n%16 == 0:
		return "k16"
	}
	return "k16+r"
}

// ---- constructed Poly1305 accumulator values ----

// polyTarget names a value the TRUE final Poly1305 accumulator h (fully
// reduced, before s is added) is steered to. val may depend on s.
type polyTarget struct {
	fam, name string
	val       func(s *big.Int) *big.Int
}

var (
	big2p64  = new(big.Int).Lsh(big.NewInt(1), 64)
	big2p128 = new(big.Int).Lsh(big.NewInt(1), 128)
)

// polyTargets: (1) h in {0..4}: an implementation that reduces lazily holds
// h+p in [p, 2^130) when it reaches the final conditional subtraction (low limb
// >= 2^64-5, middle limb all ones, top limb 3); (2) h in {p-5..p-1}: largest
// values for which the subtraction must NOT happen; (3) h whose low 128 bits
// plus s are 2^128-1, 2^128, 2^128+1 (carry out of the tag addition), with top
// bits 0, 1, 3; (4) limb boundaries of the subtraction's borrow chain.
func polyTargets() []polyTarget {
	var ts []polyTarget
	for t := int64(0); t < 5; t++ {
		t := t
		ts = append(ts, polyTarget{"band[p,2^130)", fmt.Sprintf("h=%d", t), func(*big.Int) *big.Int { return big.NewInt(t) }})
	}
	for t := int64(1); t <= 5; t++ {
		t := t
		ts = append(ts, polyTarget{"below-p", fmt.Sprintf("h=p-%d", t), func(*big.Int) *big.Int { return new(big.Int).Sub(aead8439.P1305(), big.NewInt(t)) }})
	}
	for _, k := range []int64{0, 1, 3} {
		for _, d := range []int64{-1, 0, 1} {
			k, d := k, d
			ts = append(ts, polyTarget{"tag-add-carry", fmt.Sprintf("h=%d*2^128+(2^128-s%+d)", k, d), func(s *big.Int) *big.Int {
				lo := new(big.Int).Sub(big2p128, s)
				lo.Add(lo, big.NewInt(d))
				lo.Mod(lo, big2p128)
				h := new(big.Int).Mul(big.NewInt(k), big2p128)
				h.Add(h, lo)
				if h.Cmp(aead8439.P1305()) >= 0 {
					return lo
				}
				return h
			}})
		}
	}
	for _, k := range []int64{0, 1, 2} {
		for _, d := range []int64{0, 4} {
			k, d := k, d
			ts = append(ts, polyTarget{"limb-boundary", fmt.Sprintf("h=%d*2^128+2^128-5+%d", k, d), func(*big.Int) *big.Int {
				h := new(big.Int).Mul(big.NewInt(k+1), big2p128)
				return h.Add(h, big.NewInt(d-5))
			}})
		}
	}
	for _, d := range []int64{-5, -1} {
		d := d
		ts = append(ts, polyTarget{"limb-boundary", fmt.Sprintf("h=2^64%+d", d), func(*big.Int) *big.Int { return new(big.Int).Add(big2p64, big.NewInt(d)) }})
	}
	return ts
}

// constructedMsg is an AEAD input whose Poly1305 accumulator ends at a chosen value.
type constructedMsg struct {
	key, nonce, ad, pt []byte
	target             *big.Int
	tries              int
	solvedIn           string // "ct" or "ad"
}

// constructAEAD picks key/nonce/ad/plaintext at random and then solves one
// 16-byte block — the last full ciphertext block (the plaintext is the
// ciphertext XOR the ref key stream), or for payloads shorter than 16 bytes the
// last full AD block — so that the executable spec's final accumulator equals
// tgt. About one attempt in four yields a 128-bit solution; attempts are
// bounded. The result is verified against aead8439.Poly1305Acc.
func constructAEAD(r *rand.Rand, kind, n, adlen int, tgt polyTarget) (*constructedMsg, bool) {
	if n < 16 && adlen < 16 {
		panic("harness: constructAEAD needs a full 16-byte block to solve")
	}
	key := mon.Bytes(r, 32)
	for try := 1; try <= 400; try++ {
		nonce := mon.Bytes(r, nonceLen(kind))
		sk, n12 := key, nonce
		if kind == kindX {
			sk, n12 = aead8439.XParams(key, nonce)
		}
		otk := aead8439.PolyKeyGen(sk, n12)
		ks := aead8439.Keystream(sk, 1, n12, n)
		ad := mon.Bytes(r, adlen)
		ct := mon.Bytes(r, n)
		target := tgt.val(aead8439.PolyS(otk))
		mac := aead8439.MacData(ad, ct)
		j, in := 0, "ct"
		if n >= 16 {
			j = (adlen+15)/16 + n/16 - 1
		} else {
			j, in = adlen/16-1, "ad"
		}
		x, ok := aead8439.SolveBlock(otk, mac, j, target)
		if !ok {
			continue
		}
		if in == "ct" {
			copy(ct[16*(n/16-1):], x[:])
		} else {
			copy(ad[16*j:], x[:])
		}
		if aead8439.Poly1305Acc(otk, aead8439.MacData(ad, ct)).Cmp(target) != 0 {
			panic("harness: constructed accumulator does not match the target")
		}
		pt := make([]byte, n)
		for i := range pt {
			pt[i] = ct[i] ^ ks[i]
		}
		return &constructedMsg{key: key, nonce: nonce, ad: ad, pt: pt, target: target, tries: try, solvedIn: in}, true
	}
	return nil, false
}

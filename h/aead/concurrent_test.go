package aead

import (
	"bytes"
	"crypto/cipher"
	"fmt"
	"math/rand/v2"
	"sync"
	"sync/atomic"

	"verif/mon"
	"verif/ref/aead8439"
)

// Shared-AEAD concurrency stream (C01 and C02): cipher.AEAD values of this
// package carry only the key and are used from many goroutines at once; one
// value is shared by concGoroutines goroutines that each run a fixed,
// PRNG-determined list of operations whose expected results were computed
// beforehand, single-threaded, by the executable spec. The verdict is the value
// comparison only; scheduling decides which interleavings happen, never what
// is judged.

const concGoroutines = 8

const (
	concSeal = iota
	concOpenValid
	concOpenTampered
)

type concOp struct {
	op     int
	nonce  []byte
	in     []byte // plaintext (Seal) or presented ciphertext‖tag (Open)
	ad     []byte
	want   []byte // Seal: ct‖tag; valid Open: plaintext; tampered Open: nil (must fail)
	class  string // length class / tamper class
	what   string
	msg    int
	out    []byte
	err    error
	pv     any
	inflit int32 // operations in flight (including this one) when it started
}

// barrier is a reusable rendezvous for n goroutines.
type barrier struct {
	mu    sync.Mutex
	cond  *sync.Cond
	n     int
	count int
	gen   int
}

func newBarrier(n int) *barrier {
	b := &barrier{n: n}
	b.cond = sync.NewCond(&b.mu)
	return b
}

func (b *barrier) wait() {
	b.mu.Lock()
	gen := b.gen
	b.count++
	if b.count == b.n {
		b.count = 0
		b.gen++
		b.cond.Broadcast()
	} else {
		for gen == b.gen {
			b.cond.Wait()
		}
	}
	b.mu.Unlock()
}

// runShared executes plans[g] on goroutine g against the one shared AEAD. The
// goroutines meet at a barrier every `chunk` operations so that all of them are
// inside the same stretch of work at the same time. Returns the number of
// operations that started while at least one other was in flight.
func runShared(a cipher.AEAD, plans [][]concOp, chunk int) (overlapping int64) {
	var inflight atomic.Int32
	var overlapped atomic.Int64
	bar := newBarrier(len(plans))
	var wg sync.WaitGroup
	for g := range plans {
		wg.Add(1)
		go func(ops []concOp) {
			defer wg.Done()
			for j := range ops {
				if j%chunk == 0 {
					bar.wait()
				}
				o := &ops[j]
				func() {
					o.inflit = inflight.Add(1)
					defer inflight.Add(-1)
					defer func() {
						if v := recover(); v != nil {
							o.pv = v
						}
					}()
					if o.op == concSeal {
						o.out = a.Seal(nil, o.nonce, o.in, o.ad)
					} else {
						o.out, o.err = a.Open(nil, o.nonce, o.in, o.ad)
					}
				}()
				if o.inflit >= 2 {
					overlapped.Add(1)
				}
			}
		}(plans[g])
	}
	wg.Wait()
	return overlapped.Load()
}

var concLens = []int{0, 1, 8, 16, 17, 31, 32, 33, 63, 64, 65, 100, 129, 193, 321, 513, 1024}

func concLenClass(n int) string {
	switch {
	case n == 0:
		return "0"
	case n <= 16:
		return "<=16"
	case n <= 64:
		return "<=64"
	case n <= 192:
		return "<=192"
	case n <= 320:
		return "<=320"
	}
	return ">320"
}

// pickConcLen favours short messages (the key-dependent set-up is then a larger
// share of each call) but reaches every assembly size class.
func pickConcLen(r *rand.Rand) int {
	if r.IntN(4) != 0 {
		return concLens[r.IntN(9)]
	}
	return mon.Pick(r, concLens)
}

func concWitness(kind int, path string, key []byte, g int, o *concOp) map[string]any {
	w := map[string]any{"stream": "shared-aead-concurrent", "kind": kindName(kind), "path": path, "goroutine": g, "class": o.class, "modification": o.what,
		"key": mon.FullHex(key), "nonce": mon.FullHex(o.nonce), "ad": mon.FullHex(o.ad), "input": mon.FullHex(o.in), "want": mon.FullHex(o.want), "got": mon.FullHex(o.out),
		"in_flight_at_start": o.inflit, "note": "interleaving-dependent: re-run the stream, a single replayed case need not reproduce"}
	if o.err != nil {
		w["err"] = o.err.Error()
	}
	if o.pv != nil {
		w["panic"] = fmt.Sprint(o.pv)
	}
	return w
}

// c01Concurrent is C01's shared-AEAD stream: every goroutine alternates Seal of
// its own message and Open of its own spec-sealed message.
func c01Concurrent(m *mon.M, ps []string) {
	rounds := m.N(6, 24)
	opsPerG := m.N(1200, 3000)
	m.Cases("shared-aead-concurrent", rounds, func(i int64, r *rand.Rand) {
		kind := int(i) % 2
		key := mon.Bytes(r, 32)
		// the operation lists (with their spec results) are built once and run on every path
		master := make([][]concOp, concGoroutines)
		for g := range master {
			gr := rand.New(rand.NewPCG(r.Uint64(), uint64(g)))
			for j := 0; j < opsPerG; j++ {
				n := pickConcLen(gr)
				pt, ad, nonce := mon.Bytes(gr, n), mon.Bytes(gr, mon.Pick(gr, []int{0, 13, 16, 33})), mon.Bytes(gr, nonceLen(kind))
				sealed := aead8439.SealN(key, nonce, pt, ad)
				o := concOp{nonce: nonce, ad: ad, class: concLenClass(n)}
				if j%2 == 0 {
					o.op, o.in, o.want = concSeal, pt, sealed
				} else {
					o.op, o.in, o.want = concOpenValid, sealed, pt
				}
				master[g] = append(master[g], o)
			}
		}
		for _, path := range ps {
			plans := make([][]concOp, concGoroutines)
			for g := range plans {
				plans[g] = append([]concOp(nil), master[g]...)
			}
			a := newAEAD(kind, key)
			var overlapping int64
			onPath(path, func() { overlapping = runShared(a, plans, 200) })
			m.Count("concurrent_overlapping_ops", int(overlapping))
			m.Count(path+"_concurrent_overlapping_ops", int(overlapping))
			for g := range plans {
				for j := range plans[g] {
					o := &plans[g][j]
					m.Eval()
					m.Count(path+"_concurrent_ops:"+kindName(kind), 1)
					m.Distinct(fmt.Sprintf("concurrent %s %s g=%d len=%s op=%d", path, kindName(kind), g, o.class, o.op))
					switch {
					case o.pv != nil:
						m.Violation("concurrent-shared-aead:panic:"+kindName(kind), concWitness(kind, path, key, g, o))
					case o.op == concSeal && !bytes.Equal(o.out, o.want):
						m.Violation("concurrent-shared-aead:seal-mismatch:"+kindName(kind), concWitness(kind, path, key, g, o))
					case o.op == concOpenValid && o.err != nil:
						m.Violation("concurrent-shared-aead:open-rejected-valid:"+kindName(kind), concWitness(kind, path, key, g, o))
					case o.op == concOpenValid && !bytes.Equal(o.out, o.want):
						m.Violation("concurrent-shared-aead:open-mismatch:"+kindName(kind), concWitness(kind, path, key, g, o))
					}
				}
			}
		}
	})
	for _, p := range []string{"asm", "generic", "purego"} {
		m.Gate(p+"_concurrent_overlapping_ops", 1, "operations on the shared AEAD that started while another goroutine's operation was in flight, "+p+" path")
		m.Gate(p+"_concurrent_ops:xchacha", rounds/2*concGoroutines*opsPerG, "Seal/Open operations on one shared XChaCha20-Poly1305 value, "+p+" path")
		m.Gate(p+"_concurrent_ops:chacha", rounds/2*concGoroutines*opsPerG, "Seal/Open operations on one shared ChaCha20-Poly1305 value, "+p+" path")
	}
}

// c02Concurrent is C02's shared-AEAD stream: the goroutines work on a small
// pool of spec-sealed messages; each operation is either a valid Open or an
// Open with exactly one bit flipped in nonce, ad, ciphertext or tag. Because
// the pool is small, a tampered Open regularly runs at the same time as a valid
// Open of the same message on the same AEAD value.
func c02Concurrent(m *mon.M, ps []string) {
	rounds := m.N(8, 24)
	opsPerG := m.N(4000, 8000)
	const pool = 1 // every goroutine works on the same message: valid and tampered Opens of it overlap
	m.Cases("shared-aead-concurrent", rounds, func(i int64, r *rand.Rand) {
		kind := int(i) % 2
		key := mon.Bytes(r, 32)
		type msg struct{ nonce, ad, pt, sealed []byte }
		var msgs []msg
		for k := 0; k < pool; k++ {
			n := []int{16, 1, 64, 33, 129, 0}[(int(i)/2+k)%6]
			x := msg{nonce: mon.Bytes(r, nonceLen(kind)), ad: mon.Bytes(r, 13), pt: mon.Bytes(r, n)}
			x.sealed = aead8439.SealN(key, x.nonce, x.pt, x.ad)
			msgs = append(msgs, x)
		}
		for _, path := range ps {
			plans := make([][]concOp, concGoroutines)
			for g := range plans {
				gr := rand.New(rand.NewPCG(r.Uint64(), uint64(g)))
				for j := 0; j < opsPerG; j++ {
					k := gr.IntN(pool)
					x := msgs[k]
					o := concOp{op: concOpenTampered, nonce: x.nonce, in: x.sealed, ad: x.ad, msg: k}
					n := len(x.pt)
					switch c := gr.IntN(20); {
					case c < 9:
						o.op, o.want, o.class = concOpenValid, x.pt, "valid"
					case c < 16: // the part of the nonce that selects the subkey (XChaCha: bytes 0..15)
						lim := len(x.nonce)
						if kind == kindX {
							lim = 16
						}
						b := gr.IntN(lim * 8)
						o.nonce, o.class, o.what = flipBit(x.nonce, b), "nonce-bit", fmt.Sprintf("nonce bit %d flipped", b)
					case c == 16 && kind == kindX: // the part that becomes the inner nonce
						b := 128 + gr.IntN(64)
						o.nonce, o.class, o.what = flipBit(x.nonce, b), "nonce-bit", fmt.Sprintf("nonce bit %d flipped", b)
					case c <= 17 || c == 18 && n == 0:
						b := gr.IntN(len(x.ad) * 8)
						o.ad, o.class, o.what = flipBit(x.ad, b), "ad-bit", fmt.Sprintf("ad bit %d flipped", b)
					case c == 18:
						b := gr.IntN(n * 8)
						o.in, o.class, o.what = flipBit(x.sealed, b), "ct-bit", fmt.Sprintf("sealed bit %d flipped", b)
					default:
						b := n*8 + gr.IntN(128)
						o.in, o.class, o.what = flipBit(x.sealed, b), "tag-bit", fmt.Sprintf("sealed bit %d flipped", b)
					}
					plans[g] = append(plans[g], o)
				}
			}
			a := newAEAD(kind, key)
			var overlapping int64
			onPath(path, func() { overlapping = runShared(a, plans, 500) })
			m.Count(path+"_concurrent_overlapping_ops", int(overlapping))
			reported := false
			for g := range plans {
				for j := range plans[g] {
					o := &plans[g][j]
					m.Eval()
					m.Distinct(fmt.Sprintf("concurrent %s %s g=%d %s msglen=%s", path, kindName(kind), g, o.class, concLenClass(len(msgs[o.msg].pt))))
					switch {
					case o.pv != nil:
						m.Violation("concurrent-shared-aead:panic:"+kindName(kind), concWitness(kind, path, key, g, o))
					case o.op == concOpenTampered:
						m.Count(path+"_concurrent_tampered_opens:"+kindName(kind), 1)
						if o.err == nil {
							m.Violation("concurrent-shared-aead:open-accepted-forgery:"+kindName(kind), concWitness(kind, path, key, g, o))
						}
					default:
						m.Count(path+"_concurrent_valid_opens:"+kindName(kind), 1)
						if o.err != nil || !bytes.Equal(o.out, o.want) {
							// acceptance of authentic input is C01's clause; here it only means the
							// concurrent tamper experiment ran next to failing valid Opens
							m.Count(path+"_concurrent_valid_open_failed:"+kindName(kind), 1)
							if reported {
								continue
							}
							reported = true
							m.Inconclusive(fmt.Sprintf("shared-aead-concurrent: a valid %s Open failed on %s while other goroutines used the same AEAD value (C01's clause; key=%s nonce=%s)", kindName(kind), path, mon.FullHex(key), mon.FullHex(o.nonce)))
						}
					}
				}
			}
		}
	})
	for _, p := range []string{"asm", "generic", "purego"} {
		m.Gate(p+"_concurrent_overlapping_ops", 1, "Opens on the shared AEAD that started while another goroutine's Open was in flight, "+p+" path")
		for _, k := range []string{"chacha", "xchacha"} {
			m.Gate(p+"_concurrent_tampered_opens:"+k, rounds/2*concGoroutines*opsPerG/3, "single-bit-tampered Opens on one shared "+k+" AEAD value next to valid Opens of the same message, "+p+" path")
			m.Gate(p+"_concurrent_valid_opens:"+k, rounds/2*concGoroutines*opsPerG/5, "valid Opens on one shared "+k+" AEAD value, "+p+" path")
		}
	}
}

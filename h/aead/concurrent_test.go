package aead

import (
	"bytes"
	"crypto/cipher"
	"fmt"
	"math/rand/v2"
	"runtime"
	"sync"
	"sync/atomic"

	"verif/mon"
	"verif/ref/aead8439"
)

// Shared-AEAD concurrency stream (C01 and C02): cipher.AEAD values of this
// package carry only the key and are used from many goroutines at once; one
// value is shared by concGoroutines goroutines that each run a fixed,
// PRNG-determined list of operations whose expected results were computed
// beforehand, single-threaded, by the executable spec. The verdict is the value
// comparison only; scheduling decides which interleavings happen, never what
// is judged.

const concGoroutines = 8

const (
	concSeal = iota
	concOpenValid
	concOpenTampered
)

type concOp struct {
	op    int
	nonce []byte
	in    []byte // plaintext (Seal) or presented ciphertext‖tag (Open)
	ad    []byte
	want  []byte // Seal: ct‖tag; valid Open: plaintext; tampered Open: nil (must fail)
	class string // length class / tamper class
	what  string
	msg   int
	out   []byte
	err   error
	pv    any
}

// barrier is a reusable rendezvous for n goroutines.
type barrier struct {
	mu    sync.Mutex
	cond  *sync.Cond
	n     int
	count int
	gen   int
}

func newBarrier(n int) *barrier {
	b := &barrier{n: n}
	b.cond = sync.NewCond(&b.mu)
	return b
}

func (b *barrier) wait() {
	b.mu.Lock()
	gen := b.gen
	b.count++
	if b.count == b.n {
		b.count = 0
		b.gen++
		b.cond.Broadcast()
	} else {
		for gen == b.gen {
			b.cond.Wait()
		}
	}
	b.mu.Unlock()
}

// runJobs executes plans[g] (a list of closures that perform one call each and
// keep its result) on goroutine g. The goroutines meet at a barrier every
// `chunk` jobs. With singleP the pass runs under runtime.GOMAXPROCS(1) and
// every goroutine yields after each job: all goroutines then share one P (and
// its sync.Pool shard) and interleave call by call. Returns the number of jobs
// that started while at least one other was in flight. A panic escaping a job
// is the job's own business (jobs recover what they expect).
func runJobs(plans [][]func(), chunk int, singleP bool) (overlapping int64) {
	if singleP {
		prev := runtime.GOMAXPROCS(1)
		defer runtime.GOMAXPROCS(prev)
	}
	var inflight atomic.Int32
	var overlapped atomic.Int64
	bar := newBarrier(len(plans))
	var wg sync.WaitGroup
	for g := range plans {
		wg.Add(1)
		go func(jobs []func()) {
			defer wg.Done()
			for j, job := range jobs {
				if j%chunk == 0 {
					bar.wait()
				}
				if inflight.Add(1) >= 2 {
					overlapped.Add(1)
				}
				job()
				inflight.Add(-1)
				if singleP {
					runtime.Gosched()
				}
			}
		}(plans[g])
	}
	wg.Wait()
	return overlapped.Load()
}

// runShared executes plans[g] on goroutine g against aeads[g%len(aeads)]: one
// element = one value shared by all goroutines, one element per goroutine =
// distinct values used at the same time.
func runShared(aeads []cipher.AEAD, plans [][]concOp, chunk int, singleP bool) int64 {
	jobs := make([][]func(), len(plans))
	for g := range plans {
		a := aeads[g%len(aeads)]
		for j := range plans[g] {
			o := &plans[g][j]
			jobs[g] = append(jobs[g], func() {
				defer func() {
					if v := recover(); v != nil {
						o.pv = v
					}
				}()
				if o.op == concSeal {
					o.out = a.Seal(nil, o.nonce, o.in, o.ad)
				} else {
					o.out, o.err = a.Open(nil, o.nonce, o.in, o.ad)
				}
			})
		}
	}
	return runJobs(jobs, chunk, singleP)
}

// concScale shrinks the streams in the -race build (the detector costs 5-15x).
func concScale(n int) int {
	if mon.RaceBuild {
		return n / 10
	}
	return n
}

var concPasses = []struct {
	name    string
	singleP bool
}{{"parallel", false}, {"gomaxprocs1", true}}

var concLens = []int{0, 1, 8, 16, 17, 31, 32, 33, 63, 64, 65, 100, 129, 193, 321, 513, 1024}

func concLenClass(n int) string {
	switch {
	case n == 0:
		return "0"
	case n <= 16:
		return "<=16"
	case n <= 64:
		return "<=64"
	case n <= 192:
		return "<=192"
	case n <= 320:
		return "<=320"
	}
	return ">320"
}

// pickConcLen favours short messages (the key-dependent set-up is then a larger
// share of each call) but reaches every assembly size class.
func pickConcLen(r *rand.Rand) int {
	if r.IntN(4) != 0 {
		return concLens[r.IntN(9)]
	}
	return mon.Pick(r, concLens)
}

func concWitness(kind int, path string, key []byte, g int, o *concOp) map[string]any {
	w := map[string]any{"stream": "shared-aead-concurrent", "kind": kindName(kind), "path": path, "goroutine": g, "class": o.class, "modification": o.what,
		"key": mon.FullHex(key), "nonce": mon.FullHex(o.nonce), "ad": mon.FullHex(o.ad), "input": mon.FullHex(o.in), "want": mon.FullHex(o.want), "got": mon.FullHex(o.out),
		"note": "interleaving-dependent: re-run the stream, a single replayed case need not reproduce"}
	if o.err != nil {
		w["err"] = o.err.Error()
	}
	if o.pv != nil {
		w["panic"] = fmt.Sprint(o.pv)
	}
	return w
}

// c01Concurrent is C01's concurrency stream: every goroutine alternates Seal of
// its own message and Open of its own spec-sealed message, on ONE AEAD value
// shared by all goroutines ("shared") or on one value per goroutine used at the
// same time ("distinct": hidden package-level state), in a parallel pass and in
// a GOMAXPROCS(1) pass.
func c01Concurrent(m *mon.M, ps []string) {
	rounds := m.N(8, 24)
	fullOps := m.N(1200, 3000)
	opsPerG := concScale(fullOps)
	m.Cases("shared-aead-concurrent", rounds, func(i int64, r *rand.Rand) {
		kind := int(i) % 2
		mode := []string{"shared", "distinct"}[int(i)/2%2]
		keys := [][]byte{mon.Bytes(r, 32)}
		if mode == "distinct" {
			for g := 1; g < concGoroutines; g++ {
				keys = append(keys, mon.Bytes(r, 32))
			}
		}
		// the operation lists (with their spec results) are built once and run on every path and pass
		master := make([][]concOp, concGoroutines)
		for g := range master {
			key := keys[g%len(keys)]
			gr := rand.New(rand.NewPCG(r.Uint64(), uint64(g)))
			for j := 0; j < opsPerG; j++ {
				n := pickConcLen(gr)
				pt, ad, nonce := mon.Bytes(gr, n), mon.Bytes(gr, mon.Pick(gr, []int{0, 13, 16, 33})), mon.Bytes(gr, nonceLen(kind))
				sealed := aead8439.SealN(key, nonce, pt, ad)
				o := concOp{nonce: nonce, ad: ad, class: concLenClass(n)}
				if j%2 == 0 {
					o.op, o.in, o.want = concSeal, pt, sealed
				} else {
					o.op, o.in, o.want = concOpenValid, sealed, pt
				}
				master[g] = append(master[g], o)
			}
		}
		for _, path := range ps {
			for _, pass := range concPasses {
				plans := make([][]concOp, concGoroutines)
				for g := range plans {
					plans[g] = append([]concOp(nil), master[g]...)
				}
				var aeads []cipher.AEAD
				for _, k := range keys {
					aeads = append(aeads, newAEAD(kind, k))
				}
				var overlapping int64
				onPath(path, func() { overlapping = runShared(aeads, plans, 200, pass.singleP) })
				m.Count("concurrent_overlapping_ops:"+pass.name, int(overlapping))
				if !pass.singleP {
					m.Count(path+"_concurrent_overlapping_ops", int(overlapping))
				}
				for g := range plans {
					key := keys[g%len(keys)]
					for j := range plans[g] {
						o := &plans[g][j]
						m.Eval()
						m.Count(path+"_concurrent_ops:"+kindName(kind), 1)
						m.Count("concurrent_ops:"+mode+":"+pass.name, 1)
						m.Distinct(fmt.Sprintf("concurrent %s %s %s %s g=%d len=%s op=%d", mode, pass.name, path, kindName(kind), g, o.class, o.op))
						pfx := "concurrent-" + mode + "-aead:"
						switch {
						case o.pv != nil:
							m.Violation(pfx+"panic:"+kindName(kind), concWitness(kind, path, key, g, o))
						case o.op == concSeal && !bytes.Equal(o.out, o.want):
							m.Violation(pfx+"seal-mismatch:"+kindName(kind), concWitness(kind, path, key, g, o))
						case o.op == concOpenValid && o.err != nil:
							m.Violation(pfx+"open-rejected-valid:"+kindName(kind), concWitness(kind, path, key, g, o))
						case o.op == concOpenValid && !bytes.Equal(o.out, o.want):
							m.Violation(pfx+"open-mismatch:"+kindName(kind), concWitness(kind, path, key, g, o))
						}
					}
				}
			}
		}
	})
	for _, p := range []string{"asm", "generic", "purego"} {
		m.Gate(p+"_concurrent_overlapping_ops", 1, "operations that started while another goroutine's operation on the AEAD value(s) was in flight (parallel pass), "+p+" path")
		m.Gate(p+"_concurrent_ops:xchacha", rounds/2*concGoroutines*fullOps, "Seal/Open operations by 8 goroutines at once on XChaCha20-Poly1305 values, "+p+" path")
		m.Gate(p+"_concurrent_ops:chacha", rounds/2*concGoroutines*fullOps, "Seal/Open operations by 8 goroutines at once on ChaCha20-Poly1305 values, "+p+" path")
	}
	m.Gate("concurrent_ops:shared:parallel", rounds/2*concGoroutines*fullOps, "operations on ONE shared AEAD value, parallel pass")
	m.Gate("concurrent_ops:shared:gomaxprocs1", rounds/2*concGoroutines*fullOps, "operations on ONE shared AEAD value, GOMAXPROCS(1) pass")
	m.Gate("concurrent_ops:distinct:parallel", rounds/2*concGoroutines*fullOps, "operations on one AEAD value per goroutine, parallel pass")
}

// c02Concurrent is C02's shared-AEAD stream: the goroutines work on a small
// pool of spec-sealed messages; each operation is either a valid Open or an
// Open with exactly one bit flipped in nonce, ad, ciphertext or tag. Because
// the pool is small, a tampered Open regularly runs at the same time as a valid
// Open of the same message on the same AEAD value.
func c02Concurrent(m *mon.M, ps []string) {
	rounds := m.N(8, 24)
	fullOps := m.N(4000, 8000)
	opsPerG := concScale(fullOps)
	const pool = 1 // every goroutine works on the same message: valid and tampered Opens of it overlap
	m.Cases("shared-aead-concurrent", rounds, func(i int64, r *rand.Rand) {
		kind := int(i) % 2
		key := mon.Bytes(r, 32)
		type msg struct{ nonce, ad, pt, sealed []byte }
		var msgs []msg
		for k := 0; k < pool; k++ {
			n := []int{16, 1, 64, 33, 129, 0}[(int(i)/2+k)%6]
			x := msg{nonce: mon.Bytes(r, nonceLen(kind)), ad: mon.Bytes(r, 13), pt: mon.Bytes(r, n)}
			x.sealed = aead8439.SealN(key, x.nonce, x.pt, x.ad)
			msgs = append(msgs, x)
		}
		for _, path := range ps {
			plans := make([][]concOp, concGoroutines)
			for g := range plans {
				gr := rand.New(rand.NewPCG(r.Uint64(), uint64(g)))
				for j := 0; j < opsPerG; j++ {
					k := gr.IntN(pool)
					x := msgs[k]
					o := concOp{op: concOpenTampered, nonce: x.nonce, in: x.sealed, ad: x.ad, msg: k}
					n := len(x.pt)
					switch c := gr.IntN(20); {
					case c < 9:
						o.op, o.want, o.class = concOpenValid, x.pt, "valid"
					case c < 16: // the part of the nonce that selects the subkey (XChaCha: bytes 0..15)
						lim := len(x.nonce)
						if kind == kindX {
							lim = 16
						}
						b := gr.IntN(lim * 8)
						o.nonce, o.class, o.what = flipBit(x.nonce, b), "nonce-bit", fmt.Sprintf("nonce bit %d flipped", b)
					case c == 16 && kind == kindX: // the part that becomes the inner nonce
						b := 128 + gr.IntN(64)
						o.nonce, o.class, o.what = flipBit(x.nonce, b), "nonce-bit", fmt.Sprintf("nonce bit %d flipped", b)
					case c <= 17 || c == 18 && n == 0:
						b := gr.IntN(len(x.ad) * 8)
						o.ad, o.class, o.what = flipBit(x.ad, b), "ad-bit", fmt.Sprintf("ad bit %d flipped", b)
					case c == 18:
						b := gr.IntN(n * 8)
						o.in, o.class, o.what = flipBit(x.sealed, b), "ct-bit", fmt.Sprintf("sealed bit %d flipped", b)
					default:
						b := n*8 + gr.IntN(128)
						o.in, o.class, o.what = flipBit(x.sealed, b), "tag-bit", fmt.Sprintf("sealed bit %d flipped", b)
					}
					plans[g] = append(plans[g], o)
				}
			}
			for _, pass := range concPasses {
				if pass.singleP { // same operations again, all goroutines on one P
					for g := range plans {
						for j := range plans[g] {
							plans[g][j].out, plans[g][j].err, plans[g][j].pv = nil, nil, nil
						}
					}
				}
				a := newAEAD(kind, key)
				var overlapping int64
				onPath(path, func() { overlapping = runShared([]cipher.AEAD{a}, plans, 500, pass.singleP) })
				m.Count("concurrent_overlapping_ops:"+pass.name, int(overlapping))
				if !pass.singleP {
					m.Count(path+"_concurrent_overlapping_ops", int(overlapping))
				}
				for g := range plans {
					for j := range plans[g] {
						o := &plans[g][j]
						m.Eval()
						m.Distinct(fmt.Sprintf("concurrent %s %s g=%d %s msglen=%s", path, kindName(kind), g, o.class, concLenClass(len(msgs[o.msg].pt))))
						switch {
						case o.pv != nil:
							m.Violation("concurrent-shared-aead:panic:"+kindName(kind), concWitness(kind, path, key, g, o))
						case o.op == concOpenTampered:
							m.Count(path+"_concurrent_tampered_opens:"+kindName(kind), 1)
							if o.err == nil {
								m.Violation("concurrent-shared-aead:open-accepted-forgery:"+kindName(kind), concWitness(kind, path, key, g, o))
							}
						default:
							m.Count(path+"_concurrent_valid_opens:"+kindName(kind), 1)
							switch {
							case o.err != nil:
								// rejecting an authentic message under concurrency is a defect of the same Open code
								m.Violation("concurrent-shared-aead:open-rejected-valid:"+kindName(kind), concWitness(kind, path, key, g, o))
							case !bytes.Equal(o.out, o.want):
								m.Violation("concurrent-shared-aead:open-mismatch:"+kindName(kind), concWitness(kind, path, key, g, o))
							}
						}
					}
				}
			}
		}
	})
	for _, p := range []string{"asm", "generic", "purego"} {
		m.Gate(p+"_concurrent_overlapping_ops", 1, "Opens on the shared AEAD that started while another goroutine's Open was in flight, "+p+" path")
		for _, k := range []string{"chacha", "xchacha"} {
			m.Gate(p+"_concurrent_tampered_opens:"+k, rounds/2*concGoroutines*fullOps/3, "single-bit-tampered Opens on one shared "+k+" AEAD value next to valid Opens of the same message, "+p+" path")
			m.Gate(p+"_concurrent_valid_opens:"+k, rounds/2*concGoroutines*fullOps/5, "valid Opens on one shared "+k+" AEAD value, "+p+" path")
		}
	}
}

package aead

import (
	"bytes"
	"crypto/aes"
	"fmt"
	"math/rand/v2"

	"golang.org/x/crypto/chacha20"
	"golang.org/x/crypto/xts"
	"verif/mon"
	"verif/ref/aead8439"
)

// Constructor-argument retention: a constructor that takes its key as a slice
// must copy it. The caller's buffer (content and spare capacity) is scribbled
// right after construction and again between calls; the value must keep working
// under the ORIGINAL key, and two values built one after the other from one
// reused buffer must keep their own keys.

// scribble overwrites the whole backing array of b (length and spare capacity).
func scribble(r *rand.Rand, b []byte, how int) string {
	full := b[:cap(b)]
	switch how % 4 {
	case 0:
		for i := range full {
			full[i] = 0
		}
		return "zeroed"
	case 1:
		copy(full, mon.Bytes(r, len(full)))
		return "randomised"
	case 2:
		for i := range full {
			full[i] ^= 0xff
		}
		return "complemented"
	}
	full[r.IntN(len(b))] ^= 1 << r.IntN(8)
	return "one bit flipped"
}

// c01Retention is the C01 stream for chacha20poly1305.New / NewX.
func c01Retention(m *mon.M, ps []string) {
	total := m.N(240, 2400)
	m.Cases("constructor-argument-retention", total, func(i int64, r *rand.Rand) {
		kind := int(i) % 2
		reuse := int(i)/2%2 == 1 // two AEADs from one reused key buffer
		k1, k2 := mon.Bytes(r, 32), mon.Bytes(r, 32)
		buf := make([]byte, 32, 32+[]int{0, 1, 32, 100}[int(i)/4%4])
		copy(buf[:cap(buf)], mon.Bytes(r, cap(buf)))
		copy(buf, k1)
		a1 := newAEAD(kind, buf)
		keys := [][]byte{k1}
		aeads := []interface {
			Seal(dst, nonce, plaintext, additionalData []byte) []byte
			Open(dst, nonce, ciphertext, additionalData []byte) ([]byte, error)
		}{a1}
		if reuse {
			copy(buf, k2)
			aeads = append(aeads, newAEAD(kind, buf))
			keys = append(keys, k2)
		}
		how := scribble(r, buf, int(i)/16)
		for round := 0; round < 2; round++ {
			for ai, a := range aeads {
				key := keys[ai]
				n := mon.Pick(r, []int{0, 1, 16, 33, 200, 600})
				nonce, ad, pt := mon.Bytes(r, nonceLen(kind)), mon.Bytes(r, mon.Pick(r, []int{0, 13})), mon.Bytes(r, n)
				want := aead8439.SealN(key, nonce, pt, ad)
				for _, path := range ps {
					var sealed, opened []byte
					var err error
					pv, _ := mon.Panics(func() {
						onPath(path, func() {
							sealed = a.Seal(nil, nonce, pt, ad)
							opened, err = a.Open(nil, nonce, want, ad)
						})
					})
					m.Eval()
					m.Count(path+"_constructor_retention_cases", 1)
					if reuse {
						m.Count(path+"_constructor_retention_reused_buffer", 1)
					}
					m.Distinct(fmt.Sprintf("retention %s %s reuse=%v %s cap+%d round=%d aead#%d", path, kindName(kind), reuse, how, cap(buf)-32, round, ai))
					if pv != nil || !bytes.Equal(sealed, want) || err != nil || !bytes.Equal(opened, pt) {
						w := map[string]any{"stream": "constructor-argument-retention", "kind": kindName(kind), "path": path, "caller_buffer_after_construction": how, "spare_capacity": cap(buf) - 32,
							"two_aeads_from_one_buffer": reuse, "which_aead": ai, "original_key": mon.FullHex(key), "buffer_now": mon.FullHex(buf[:cap(buf)]),
							"nonce": mon.FullHex(nonce), "ad": mon.FullHex(ad), "pt": mon.FullHex(pt), "want": mon.FullHex(want), "got": mon.FullHex(sealed), "open_ok": err == nil}
						if pv != nil {
							w["panic"] = fmt.Sprint(pv)
						}
						m.Violation("constructor-retains-caller-key:"+kindName(kind), w)
					}
				}
			}
			how = scribble(r, buf, int(i)/16+1+round) // and again between calls
		}
	})
	for _, p := range []string{"asm", "generic", "purego"} {
		m.Gate(p+"_constructor_retention_cases", total*2, "Seal+Open under the original key after the caller's key buffer was overwritten, "+p+" path")
		m.Gate(p+"_constructor_retention_reused_buffer", total, "two AEAD values built one after the other from one reused key buffer, "+p+" path")
	}
}

// c53Retention: the stateful / constructed values of C53's function set that
// take key material as slices: chacha20.NewUnauthenticatedCipher(key, nonce)
// and xts.NewCipher(_, key). In-place calls after the caller's buffers were
// overwritten must still give the reference result.
func c53Retention(m *mon.M) {
	total := m.N(200, 1000)
	m.Cases("constructor-argument-retention", total, func(i int64, r *rand.Rand) {
		how := ""
		switch int(i) % 2 {
		case 0:
			key, nonce := mon.Bytes(r, 32), mon.Bytes(r, []int{12, 24}[int(i)/2%2])
			kb, nb := append(make([]byte, 0, 40), key...), append(make([]byte, 0, 40), nonce...)
			c, err := chacha20.NewUnauthenticatedCipher(kb, nb)
			if err != nil {
				panic("harness: " + err.Error())
			}
			how = scribble(r, kb, int(i)/4)
			scribble(r, nb, int(i)/4)
			pos := 0
			for call := 0; call < 3; call++ {
				n := mon.Pick(r, []int{1, 17, 64, 100, 300})
				in := mon.Bytes(r, n)
				var want []byte
				if len(nonce) == 24 {
					sk, n12 := aead8439.XParams(key, nonce)
					want = aead8439.Keystream(sk, 0, n12, pos+n)[pos:]
				} else {
					want = aead8439.Keystream(key, 0, nonce, pos+n)[pos:]
				}
				for k := range want {
					want[k] ^= in[k]
				}
				pos += n
				buf := append([]byte(nil), in...)
				c.XORKeyStream(buf, buf) // in place
				m.Eval()
				m.Count("constructor_retention_cases:chacha20", 1)
				m.Distinct(fmt.Sprintf("retention chacha20 nonce%d %s call=%d", len(nonce), how, call))
				if !bytes.Equal(buf, want) {
					m.Violation("constructor-retains-caller-key:chacha20.NewUnauthenticatedCipher", map[string]any{"caller_buffers_after_construction": how, "original_key": mon.FullHex(key), "original_nonce": mon.FullHex(nonce),
						"stream_position": pos - n, "in": mon.FullHex(in), "want": mon.FullHex(want), "got": mon.FullHex(buf)})
				}
				scribble(r, kb, int(i)/4+call+1)
				scribble(r, nb, int(i)/4+call+1)
			}
		case 1:
			key := mon.Bytes(r, []int{32, 64}[int(i)/2%2])
			kb := append(make([]byte, 0, 80), key...)
			ref, err := xts.NewCipher(aes.NewCipher, append([]byte(nil), key...)) // never-touched key: the reference instance
			if err != nil {
				panic("harness: " + err.Error())
			}
			c, err := xts.NewCipher(aes.NewCipher, kb)
			if err != nil {
				panic("harness: " + err.Error())
			}
			how = scribble(r, kb, int(i)/4)
			for call := 0; call < 2; call++ {
				n := mon.Pick(r, c53XTSLens)
				in, sector := mon.Bytes(r, n), r.Uint64()
				want := make([]byte, n)
				ref.Encrypt(want, in, sector)
				buf := append([]byte(nil), in...)
				c.Encrypt(buf, buf, sector) // in place
				back := append([]byte(nil), buf...)
				c.Decrypt(back, back, sector)
				m.Eval()
				m.Count("constructor_retention_cases:xts", 1)
				m.Distinct(fmt.Sprintf("retention xts key%d %s call=%d", len(key), how, call))
				if !bytes.Equal(buf, want) || !bytes.Equal(back, in) {
					m.Violation("constructor-retains-caller-key:xts.NewCipher", map[string]any{"caller_buffer_after_construction": how, "original_key": mon.FullHex(key), "sector": sector,
						"in": mon.FullHex(in), "want": mon.FullHex(want), "got": mon.FullHex(buf), "decrypt_round_trip": bytes.Equal(back, in)})
				}
				scribble(r, kb, int(i)/4+call+1)
			}
		}
	})
	m.Gate("constructor_retention_cases:chacha20", total/2*3*2, "in-place chacha20 calls after the caller's key and nonce buffers were overwritten (both non-race builds)")
	m.Gate("constructor_retention_cases:xts", total/2*2*2, "in-place xts calls after the caller's key buffer was overwritten (both non-race builds)")
}

package aead

import (
	"bytes"
	"crypto/aes"
	"encoding/binary"
	"fmt"
	"math/rand/v2"
	"testing"

	"golang.org/x/crypto/chacha20"
	"golang.org/x/crypto/nacl/box"
	"golang.org/x/crypto/nacl/secretbox"
	"golang.org/x/crypto/nacl/sign"
	"golang.org/x/crypto/salsa20"
	"golang.org/x/crypto/salsa20/salsa"
	"golang.org/x/crypto/xts"
	"verif/clib/sodiumaead"
	"verif/guard"
	"verif/mon"
	"verif/ref/aead8439"
)

// What the documentation of a function says about overlapping buffers.
const (
	docExactOrNone  = iota // "must overlap entirely or not at all" / cipher.AEAD: dst = in[:0] or no overlap; the function checks
	docNone                // "must not overlap"; the function checks (nacl)
	docExactNoCheck        // "must overlap entirely or not at all", no check promised or made (salsa low level): only exact/disjoint are presented
)

// c53inst is one prepared function instance for a payload length.
type c53inst struct {
	in     []byte // input bytes (placed at the fixed position)
	want   []byte // reference: what a call with separate buffers writes/appends
	wantOK bool
	// call runs the function: stream type: out has len >= len(in), result is
	// out[:len(in)]; append type: out is dst (len = prefix), result is the
	// returned slice. ad is only used by the AEAD functions.
	call func(out, in, ad []byte) (ret []byte, ok bool)
}

type c53fn struct {
	name    string
	stream  bool
	doc     int
	path    string // AEAD: dispatch path
	opener  bool   // returns ok=false/err on failure ("fails closed" is possible)
	extraOK bool   // stream: documented that out may be longer than in
	lens    []int
	// state names, for a stateful primitive, the relation of a call of n bytes
	// to the key stream buffered by earlier calls ("" = stateless / fresh)
	state func(n int) string
	mk    func(r *rand.Rand, n int, ad []byte) (*c53inst, string) // string: non-empty = oracle conflict
}

var c53Lens = []int{1, 15, 16, 17, 63, 64, 65, 200, 1000}
var c53XTSLens = []int{16, 32, 48, 64, 80, 208, 1008}

const (
	c53Arena = 3 * 4096
	c53B     = 3000 // position of the input
	c53D     = 6000 // position of the output window in the ad-overlap enumeration
)

func arr32(b []byte) *[32]byte { var a [32]byte; copy(a[:], b); return &a }
func arr24(b []byte) *[24]byte { var a [24]byte; copy(a[:], b); return &a }

func c53Functions() []c53fn {
	var fns []c53fn
	// ---- stream ciphers ----
	// chacha20.Cipher is stateful: a call that does not end on a 64-byte
	// boundary leaves key stream buffered, and the next call is served from
	// that buffer first. The enumeration runs on a fresh cipher, after a priming
	// XORKeyStream of 1/17/63/65/100 bytes (63/47/1/63/28 bytes buffered) and
	// after SetCounter (fresh, and after a priming call whose buffer it drops).
	type chachaState struct {
		name       string
		prime      int
		setCounter int // -1: none
	}
	for _, st := range []chachaState{
		{"chacha20.XORKeyStream", 0, -1},
		{"chacha20.XORKeyStream[primed1]", 1, -1},
		{"chacha20.XORKeyStream[primed17]", 17, -1},
		{"chacha20.XORKeyStream[primed63]", 63, -1},
		{"chacha20.XORKeyStream[primed65]", 65, -1},
		{"chacha20.XORKeyStream[primed100]", 100, -1},
		{"chacha20.XORKeyStream[SetCounter7]", 0, 7},
		{"chacha20.XORKeyStream[primed17+SetCounter3]", 17, 3},
	} {
		st := st
		buffered := 0
		if st.setCounter < 0 {
			buffered = (64 - st.prime%64) % 64
		}
		lens := append([]int(nil), c53Lens...)
		if buffered > 0 {
			for _, extra := range []int{buffered, buffered + 1} {
				have := false
				for _, l := range lens {
					have = have || l == extra
				}
				if !have {
					lens = append(lens, extra)
				}
			}
		}
		fns = append(fns, c53fn{name: st.name, stream: true, doc: docExactOrNone, extraOK: true, lens: lens,
			state: func(n int) string {
				switch {
				case st.setCounter >= 0:
					return "after-setcounter"
				case buffered == 0:
					return ""
				case n < buffered:
					return "fits-in-buffer"
				case n == buffered:
					return "exhausts-buffer"
				}
				return "straddles-buffer"
			},
			mk: func(r *rand.Rand, n int, _ []byte) (*c53inst, string) {
				key, nonce, in := mon.Bytes(r, 32), mon.Bytes(r, 12), mon.Bytes(r, n)
				call := func(out, in, _ []byte) ([]byte, bool) {
					c, err := chacha20.NewUnauthenticatedCipher(key, nonce)
					if err != nil {
						panic("harness: " + err.Error())
					}
					if st.prime > 0 {
						tmp := make([]byte, st.prime)
						c.XORKeyStream(tmp, tmp)
					}
					if st.setCounter >= 0 {
						c.SetCounter(uint32(st.setCounter))
					}
					c.XORKeyStream(out, in)
					return out[:len(in)], true
				}
				want, _ := call(make([]byte, n), append([]byte(nil), in...), nil)
				pos := st.prime
				if st.setCounter >= 0 {
					pos = 64 * st.setCounter
				}
				ks := aead8439.Keystream(key, 0, nonce, pos+n)[pos:]
				for i := range in {
					if want[i] != in[i]^ks[i] {
						return nil, "chacha20 separate-buffer result differs from the RFC 8439 key stream at the modelled position"
					}
				}
				return &c53inst{in: in, want: want, wantOK: true, call: call}, ""
			}})
	}
	for _, nl := range []int{8, 24} {
		nl := nl
		fns = append(fns, c53fn{name: fmt.Sprintf("salsa20.XORKeyStream[nonce%d]", nl), stream: true, doc: docExactOrNone, lens: c53Lens,
			mk: func(r *rand.Rand, n int, _ []byte) (*c53inst, string) {
				key, nonce, in := mon.Bytes(r, 32), mon.Bytes(r, nl), mon.Bytes(r, n)
				call := func(out, in, _ []byte) ([]byte, bool) {
					salsa20.XORKeyStream(out, in, nonce, arr32(key))
					return out[:len(in)], true
				}
				want, _ := call(make([]byte, n), append([]byte(nil), in...), nil)
				if !bytes.Equal(want, sodiumaead.Salsa20Xor(in, nonce, key)) {
					return nil, "salsa20 separate-buffer result differs from libsodium"
				}
				return &c53inst{in: in, want: want, wantOK: true, call: call}, ""
			}})
	}
	fns = append(fns, c53fn{name: "salsa.XORKeyStream", stream: true, doc: docExactNoCheck, lens: c53Lens,
		mk: func(r *rand.Rand, n int, _ []byte) (*c53inst, string) {
			key, in := mon.Bytes(r, 32), mon.Bytes(r, n)
			var counter [16]byte
			copy(counter[:8], mon.Bytes(r, 8))
			ic := uint64(r.IntN(1000))
			binary.LittleEndian.PutUint64(counter[8:], ic)
			call := func(out, in, _ []byte) ([]byte, bool) {
				c := counter
				salsa.XORKeyStream(out, in, &c, arr32(key))
				return out[:len(in)], true
			}
			want, _ := call(make([]byte, n), append([]byte(nil), in...), nil)
			if !bytes.Equal(want, sodiumaead.Salsa20XorIC(in, counter[:8], ic, key)) {
				return nil, "salsa low-level separate-buffer result differs from libsodium"
			}
			return &c53inst{in: in, want: want, wantOK: true, call: call}, ""
		}})
	// ---- XTS ----
	for _, dec := range []bool{false, true} {
		dec := dec
		name := "xts.Encrypt"
		if dec {
			name = "xts.Decrypt"
		}
		fns = append(fns, c53fn{name: name, stream: true, doc: docExactOrNone, lens: c53XTSLens,
			mk: func(r *rand.Rand, n int, _ []byte) (*c53inst, string) {
				key, in := mon.Bytes(r, 32), mon.Bytes(r, n)
				sector := r.Uint64()
				c, err := xts.NewCipher(aes.NewCipher, key)
				if err != nil {
					panic("harness: " + err.Error())
				}
				call := func(out, in, _ []byte) ([]byte, bool) {
					if dec {
						c.Decrypt(out, in, sector)
					} else {
						c.Encrypt(out, in, sector)
					}
					return out[:len(in)], true
				}
				want, _ := call(make([]byte, n), append([]byte(nil), in...), nil)
				return &c53inst{in: in, want: want, wantOK: true, call: call}, ""
			}})
	}
	// ---- AEAD, every path ----
	for _, path := range paths() {
		for _, kind := range []int{kindChaCha, kindX} {
			path, kind := path, kind
			fns = append(fns, c53fn{name: "aead.Seal[" + kindName(kind) + "]", path: path, doc: docExactOrNone, lens: c53Lens,
				mk: func(r *rand.Rand, n int, ad []byte) (*c53inst, string) {
					key, nonce, in := mon.Bytes(r, 32), mon.Bytes(r, nonceLen(kind)), mon.Bytes(r, n)
					a := newAEAD(kind, key)
					call := func(dst, in, ad []byte) (ret []byte, ok bool) {
						onPath(path, func() { ret = a.Seal(dst, nonce, in, ad) })
						return ret, true
					}
					want, _ := call(nil, append([]byte(nil), in...), append([]byte(nil), ad...))
					if !bytes.Equal(want, aead8439.SealN(key, nonce, in, ad)) {
						return nil, "AEAD Seal separate-buffer result differs from the RFC 8439 spec"
					}
					return &c53inst{in: in, want: want, wantOK: true, call: call}, ""
				}})
			fns = append(fns, c53fn{name: "aead.Open[" + kindName(kind) + "]", path: path, doc: docExactOrNone, opener: true, lens: c53Lens,
				mk: func(r *rand.Rand, n int, ad []byte) (*c53inst, string) {
					key, nonce, pt := mon.Bytes(r, 32), mon.Bytes(r, nonceLen(kind)), mon.Bytes(r, n)
					a := newAEAD(kind, key)
					in := aead8439.SealN(key, nonce, pt, ad)
					call := func(dst, in, ad []byte) (ret []byte, ok bool) {
						var err error
						onPath(path, func() { ret, err = a.Open(dst, nonce, in, ad) })
						return ret, err == nil
					}
					want, ok := call(nil, append([]byte(nil), in...), append([]byte(nil), ad...))
					if !ok || !bytes.Equal(want, pt) {
						return nil, "AEAD Open separate-buffer result differs from the plaintext"
					}
					return &c53inst{in: in, want: pt, wantOK: true, call: call}, ""
				}})
		}
	}
	// ---- NaCl ----
	fns = append(fns, c53fn{name: "secretbox.Seal", doc: docNone, lens: c53Lens,
		mk: func(r *rand.Rand, n int, _ []byte) (*c53inst, string) {
			key, nonce, in := mon.Bytes(r, 32), mon.Bytes(r, 24), mon.Bytes(r, n)
			call := func(dst, in, _ []byte) ([]byte, bool) { return secretbox.Seal(dst, in, arr24(nonce), arr32(key)), true }
			want, _ := call(nil, append([]byte(nil), in...), nil)
			if !bytes.Equal(want, sodiumaead.SecretboxSeal(in, nonce, key)) {
				return nil, "secretbox.Seal separate-buffer result differs from libsodium"
			}
			return &c53inst{in: in, want: want, wantOK: true, call: call}, ""
		}})
	fns = append(fns, c53fn{name: "secretbox.Open", doc: docNone, opener: true, lens: c53Lens,
		mk: func(r *rand.Rand, n int, _ []byte) (*c53inst, string) {
			key, nonce, pt := mon.Bytes(r, 32), mon.Bytes(r, 24), mon.Bytes(r, n)
			in := sodiumaead.SecretboxSeal(pt, nonce, key)
			call := func(dst, in, _ []byte) ([]byte, bool) { return secretbox.Open(dst, in, arr24(nonce), arr32(key)) }
			want, ok := call(nil, append([]byte(nil), in...), nil)
			if !ok || !bytes.Equal(want, pt) {
				return nil, "secretbox.Open rejects/garbles a libsodium box"
			}
			return &c53inst{in: in, want: pt, wantOK: true, call: call}, ""
		}})
	type boxKeys struct{ pubA, privA, pubB, privB *[32]byte }
	mkKeys := func(r *rand.Rand) boxKeys {
		rd := mon.Reader{R: r}
		pa, sa, _ := box.GenerateKey(rd)
		pb, sb, _ := box.GenerateKey(rd)
		return boxKeys{pa, sa, pb, sb}
	}
	for _, pre := range []bool{false, true} {
		pre := pre
		sfx := ""
		if pre {
			sfx = "AfterPrecomputation"
		}
		fns = append(fns, c53fn{name: "box.Seal" + sfx, doc: docNone, lens: c53Lens,
			mk: func(r *rand.Rand, n int, _ []byte) (*c53inst, string) {
				k := mkKeys(r)
				nonce, in := mon.Bytes(r, 24), mon.Bytes(r, n)
				var shared [32]byte
				box.Precompute(&shared, k.pubB, k.privA)
				call := func(dst, in, _ []byte) ([]byte, bool) {
					if pre {
						return box.SealAfterPrecomputation(dst, in, arr24(nonce), &shared), true
					}
					return box.Seal(dst, in, arr24(nonce), k.pubB, k.privA), true
				}
				want, _ := call(nil, append([]byte(nil), in...), nil)
				if w, ok := sodiumaead.BoxSeal(in, nonce, k.pubB[:], k.privA[:]); ok && !bytes.Equal(want, w) {
					return nil, "box.Seal separate-buffer result differs from libsodium"
				}
				return &c53inst{in: in, want: want, wantOK: true, call: call}, ""
			}})
		fns = append(fns, c53fn{name: "box.Open" + sfx, doc: docNone, opener: true, lens: c53Lens,
			mk: func(r *rand.Rand, n int, _ []byte) (*c53inst, string) {
				k := mkKeys(r)
				nonce, pt := mon.Bytes(r, 24), mon.Bytes(r, n)
				in, ok := sodiumaead.BoxSeal(pt, nonce, k.pubB[:], k.privA[:])
				if !ok {
					in = box.Seal(nil, pt, arr24(nonce), k.pubB, k.privA)
				}
				var shared [32]byte
				box.Precompute(&shared, k.pubA, k.privB)
				call := func(dst, in, _ []byte) ([]byte, bool) {
					if pre {
						return box.OpenAfterPrecomputation(dst, in, arr24(nonce), &shared)
					}
					return box.Open(dst, in, arr24(nonce), k.pubA, k.privB)
				}
				want, ok := call(nil, append([]byte(nil), in...), nil)
				if !ok || !bytes.Equal(want, pt) {
					return nil, "box.Open rejects/garbles a libsodium box"
				}
				return &c53inst{in: in, want: pt, wantOK: true, call: call}, ""
			}})
	}
	fns = append(fns, c53fn{name: "box.SealAnonymous", doc: docNone, lens: c53Lens,
		mk: func(r *rand.Rand, n int, _ []byte) (*c53inst, string) {
			k := mkKeys(r)
			in := mon.Bytes(r, n)
			s1, s2 := r.Uint64(), r.Uint64()
			call := func(dst, in, _ []byte) ([]byte, bool) {
				ret, err := box.SealAnonymous(dst, in, k.pubB, mon.Reader{R: rand.New(rand.NewPCG(s1, s2))})
				return ret, err == nil
			}
			want, ok := call(nil, append([]byte(nil), in...), nil)
			if pt, ok2 := sodiumaead.BoxOpenAnonymous(want, k.pubB[:], k.privB[:]); !ok || !ok2 || !bytes.Equal(pt, in) {
				return nil, "libsodium crypto_box_seal_open rejects box.SealAnonymous output"
			}
			return &c53inst{in: in, want: want, wantOK: true, call: call}, ""
		}})
	fns = append(fns, c53fn{name: "box.OpenAnonymous", doc: docNone, opener: true, lens: c53Lens,
		mk: func(r *rand.Rand, n int, _ []byte) (*c53inst, string) {
			k := mkKeys(r)
			pt := mon.Bytes(r, n)
			in := sodiumaead.BoxSealAnonymous(pt, k.pubB[:])
			call := func(dst, in, _ []byte) ([]byte, bool) { return box.OpenAnonymous(dst, in, k.pubB, k.privB) }
			want, ok := call(nil, append([]byte(nil), in...), nil)
			if !ok || !bytes.Equal(want, pt) {
				return nil, "box.OpenAnonymous rejects/garbles a libsodium sealed box"
			}
			return &c53inst{in: in, want: pt, wantOK: true, call: call}, ""
		}})
	fns = append(fns, c53fn{name: "sign.Sign", doc: docNone, lens: c53Lens,
		mk: func(r *rand.Rand, n int, _ []byte) (*c53inst, string) {
			_, sk := sodiumaead.SignKeypair(mon.Bytes(r, 32))
			var priv [64]byte
			copy(priv[:], sk)
			in := mon.Bytes(r, n)
			call := func(dst, in, _ []byte) ([]byte, bool) { return sign.Sign(dst, in, &priv), true }
			want, _ := call(nil, append([]byte(nil), in...), nil)
			if !bytes.Equal(want, sodiumaead.Sign(in, sk)) {
				return nil, "sign.Sign separate-buffer result differs from libsodium"
			}
			return &c53inst{in: in, want: want, wantOK: true, call: call}, ""
		}})
	fns = append(fns, c53fn{name: "sign.Open", doc: docNone, opener: true, lens: c53Lens,
		mk: func(r *rand.Rand, n int, _ []byte) (*c53inst, string) {
			pk, sk := sodiumaead.SignKeypair(mon.Bytes(r, 32))
			pt := mon.Bytes(r, n)
			in := sodiumaead.Sign(pt, sk)
			call := func(dst, in, _ []byte) ([]byte, bool) { return sign.Open(dst, in, arr32(pk)) }
			want, ok := call(nil, append([]byte(nil), in...), nil)
			if !ok || !bytes.Equal(want, pt) {
				return nil, "sign.Open rejects/garbles a libsodium signed message"
			}
			return &c53inst{in: in, want: pt, wantOK: true, call: call}, ""
		}})
	return fns
}

// minimum numbers of stateful chacha20 presentations (about half of what the
// enumeration yields by construction; summed over both builds).
var c53StateGate = map[string]int{"fits-in-buffer": 800, "exhausts-buffer": 800, "straddles-buffer": 6000, "after-setcounter": 2900}

func overlap(a0, a1, b0, b1 int) bool { return a0 < a1 && b0 < b1 && a0 < b1 && b0 < a1 }

// C53: exact overlap (or the documented dst prefix) = separate-buffer result;
// inexact overlap panics rather than producing a wrong result.
func TestC53(t *testing.T) {
	m := mon.New(t, "C53")
	defer m.Done()
	m.Rule("exhaustive over the stated space: for every function (chacha20.XORKeyStream on a fresh cipher, on a cipher primed by a 1/17/63/65/100-byte call (63/47/1/63/28 key-stream bytes buffered; lengths equal to and one above the buffered amount are added, so calls fit in, exhaust and straddle the buffer) and after SetCounter; salsa20.XORKeyStream 8/24-byte nonce, xts.Encrypt/Decrypt, cipher.AEAD Seal/Open for chacha and xchacha on every path, secretbox/box(+AfterPrecomputation, Anonymous)/sign Seal|Sign and Open; salsa/salsa.XORKeyStream for exact/disjoint only) and every length in {1,15,16,17,63,64,65,200,1000} (xts: {16,32,48,64,80,208,1008}) the input sits at a fixed place of one guard-bordered arena and the output window starts at every offset -64..+64 from it, with dst prefix/capacity variations (empty prefix exact capacity, 5-byte prefix, spare capacity, capacity one byte short; stream functions: out longer than in where documented); AEAD additionally with the additional data placed at every offset -64..+64 from the output window. Expectation from the documentation, computed by the harness's own interval arithmetic: same start with the documented form (out==in, dst=in[:0]) or disjoint => no panic and the separate-buffer result; any other overlap => panic or the separate-buffer result (an authentication error from an Open-type function is recorded as failed-closed), never a wrong result without panic; no byte outside the output window may change. cipher.AEAD Open: every forbidden layout on which the authentic input panicked is presented again with a forged input (last tag bit flipped) and must panic again — the overlap check may not depend on authenticity (the failure path wipes the window, i.e. the overlapping caller-owned ciphertext or additional data). A concurrency stream repeats in-place, disjoint and inexactly overlapping calls from 8 goroutines at once, each in its own buffers: on shared values where sharing is legitimate (one cipher.AEAD, one *xts.Cipher, the salsa20 package function) and on one value per goroutine (AEAD, *chacha20.Cipher, *xts.Cipher), in a parallel pass and a GOMAXPROCS(1) pass, results judged after join against precomputed references. distinct = (function, path, length, expectation class, variation)")
	m.Assume("reference = the same function on separate heap buffers, cross-checked where an independent oracle exists (RFC 8439 spec for chacha20/AEAD, libsodium " + sodiumaead.Version() + " for salsa20, secretbox, box, sign); xts has no independent oracle here (C13's concern)")
	m.Assume("an Open-type function that returns its authentication error (no plaintext) for a forbidden overlap has failed closed: recorded (forbidden_overlap_failed_closed), not a violation — observed for the asm AEAD Open when dst overlaps only the tag bytes of the ciphertext")

	if mon.RaceBuild {
		// -race build: only the concurrency stream
		c53Concurrent(m, paths())
		return
	}
	fns := c53Functions()
	// unit list: (function, length) for the in/out enumeration, then (AEAD function, length) for the ad enumeration
	type unit struct {
		f  int
		n  int
		ad bool
	}
	var units []unit
	for fi, f := range fns {
		for _, n := range f.lens {
			units = append(units, unit{fi, n, false})
		}
	}
	for fi, f := range fns {
		if f.path != "" {
			for _, n := range f.lens {
				units = append(units, unit{fi, n, true})
			}
		}
	}
	A := guard.New(c53Arena)
	defer A.Free()
	arena := A.Data()
	snap := make([]byte, len(arena))

	m.Cases("units", len(units), func(i int64, r *rand.Rand) {
		u := units[i]
		f := fns[u.f]
		label := f.name
		if f.path != "" {
			label += ":" + f.path
		}
		var adBytes []byte
		adLen := 0
		if f.path != "" {
			adLen = []int{13, 16, 40}[int(i)%3]
			adBytes = mon.Bytes(r, adLen)
		}
		inst, conflict := f.mk(r, u.n, adBytes)
		if conflict != "" {
			m.Inconclusive(fmt.Sprintf("oracle conflict (%s, n=%d): %s", label, u.n, conflict))
			return
		}
		inLen, outLen := len(inst.in), len(inst.want)
		// the reference output (memory the function under test allocated or
		// filled in the separate-buffer call) and the input template are
		// re-verified after the whole enumeration: no retained alias may change them
		wantCopy, inCopy, adCopy := append([]byte(nil), inst.want...), append([]byte(nil), inst.in...), append([]byte(nil), adBytes...)
		defer func() {
			m.Count("earlier_outputs_reverified", 1)
			if !bytes.Equal(inst.want, wantCopy) {
				m.Violation("earlier-output-changed:"+label, map[string]any{"function": label, "n": u.n, "was": mon.FullHex(wantCopy), "now": mon.FullHex(inst.want)})
			}
			if !bytes.Equal(inst.in, inCopy) || !bytes.Equal(adBytes, adCopy) {
				m.Violation("input-modified:"+label, map[string]any{"function": label, "n": u.n, "which": "heap copy of in/ad handed to the function"})
			}
		}()
		if i < 2 {
			m.Sample(map[string]any{"function": label, "n": u.n, "in": mon.Hex(inst.in), "reference_out": mon.Hex(inst.want), "offsets": "-64..+64"})
		}
		template := mon.Bytes(r, len(arena))
		// one presentation: out window at wStart with (prefix p, spare s, short, extra), ad at adStart (or heap copy)
		present := func(off int, p, s int, short bool, extra int, adStart int, variation string) {
			// fill arena with canary bytes, then the input (and ad)
			copy(arena, template)
			in := arena[c53B : c53B+inLen : c53B+inLen]
			copy(in, inst.in)
			wStart := c53B + off
			if u.ad {
				wStart = c53D
			}
			var ad []byte
			if f.path != "" {
				if u.ad {
					ad = arena[adStart : adStart+adLen : adStart+adLen]
					copy(ad, adBytes)
				} else {
					ad = append([]byte(nil), adBytes...)
				}
			}
			var out []byte
			capEnd := wStart + outLen + s
			if f.stream {
				out = arena[wStart : wStart+outLen+extra : wStart+outLen+extra]
				capEnd = wStart + outLen + extra
			} else {
				if short {
					capEnd = wStart + outLen - 1
				}
				out = arena[wStart-p : wStart : capEnd]
			}
			prefix := append([]byte(nil), arena[wStart-p:wStart]...)
			// expectation class from the documentation
			class := "disjoint"
			inOv := overlap(wStart-p, capEnd, c53B, c53B+inLen)
			adOv := u.ad && overlap(wStart-p, capEnd, adStart, adStart+adLen) // cipher.AEAD: dst and additionalData may not overlap
			switch {
			case adOv:
				class = "forbidden-ad"
			case !inOv:
				class = "disjoint"
			case wStart == c53B && p == 0 && (f.doc == docExactOrNone || f.doc == docExactNoCheck):
				class = "exact"
			default:
				class = "forbidden"
			}
			if f.doc == docExactNoCheck && class == "forbidden" {
				return // undocumented territory: not presented
			}
			copy(snap, arena)
			var ret []byte
			var ok bool
			var fault *guard.Fault
			var pv any
			fault, pv = guard.Run(func() { ret, ok = inst.call(out, in, ad) })
			m.Eval()
			m.Count(class+"_calls", 1)
			stateTag := ""
			if f.state != nil {
				stateTag = f.state(u.n)
			}
			if stateTag != "" {
				m.Count("chacha20_"+stateTag+":"+class, 1)
			}
			if f.path != "" {
				m.Count(f.path+"_"+class+"_calls", 1)
			}
			m.Distinct(fmt.Sprintf("%s n=%d %s %s %s", label, u.n, class, variation, stateTag))
			wit := func() map[string]any {
				return map[string]any{"function": label, "n": u.n, "class": class, "variation": variation, "cipher_state": stateTag,
					"in_at": c53B, "in_len": inLen, "window_at": wStart, "window_len": outLen, "dst_prefix": p, "dst_cap_end": capEnd,
					"ad_at": adStart, "ad_len": adLen, "offset_out_minus_in": wStart - c53B, "in": mon.FullHex(inst.in), "reference": mon.FullHex(inst.want)}
			}
			if fault != nil {
				w := wit()
				w["fault"] = fault.Err
				m.Violation("guard-fault:"+label, w)
				return
			}
			strict := class == "exact" || class == "disjoint"
			if pv != nil {
				if strict {
					w := wit()
					w["panic"] = fmt.Sprint(pv)
					m.Violation("unexpected-panic:"+label+":"+class, w)
				} else {
					m.Count("panic_on_forbidden_overlap", 1)
					m.Count("panic_on_forbidden_overlap:"+f.name, 1)
				}
			} else {
				var body []byte
				if f.stream {
					body = ret
				} else if len(ret) >= p {
					body = ret[p:]
				}
				correct := ok == inst.wantOK && bytes.Equal(body, inst.want) && (f.stream || (len(ret) >= p && bytes.Equal(ret[:p], prefix)))
				switch {
				case correct && strict:
					m.Count("correct_"+class, 1)
				case correct:
					m.Count("forbidden_overlap_correct_result", 1)
				case strict:
					w := wit()
					w["ok"], w["got"] = ok, mon.FullHex(ret)
					m.Violation("wrong-result:"+label+":"+class, w)
				case f.opener && !ok:
					m.Count("forbidden_overlap_failed_closed", 1)
					m.Count("forbidden_overlap_failed_closed:"+label, 1)
				default:
					w := wit()
					w["ok"], w["got"] = ok, mon.FullHex(ret)
					m.Violation("silent-wrong-result-on-overlap:"+label, w)
				}
			}
			// nothing outside the output window may change (inputs included, unless they lie in the window)
			w0, w1 := wStart, wStart+outLen
			if !bytes.Equal(arena[:w0], snap[:w0]) || !bytes.Equal(arena[w1:], snap[w1:]) {
				for k := range arena {
					if (k < w0 || k >= w1) && arena[k] != snap[k] {
						w := wit()
						w["first_changed_at"], w["was"], w["now"] = k, snap[k], arena[k]
						m.Violation("wrote-outside-window:"+label, w)
						break
					}
				}
			}
			// cipher.AEAD Open: the overlap panic is a function of the layout, not of
			// the content. Where the authentic input made Open panic, the same
			// layout with a forged input (one tag bit flipped) must panic too
			// instead of taking the authentication-failure path, which wipes the
			// output window and with it the overlapping caller-owned ciphertext/ad.
			if f.opener && f.path != "" && !strict && pv != nil {
				copy(arena, template)
				copy(in, inst.in)
				in[inLen-1] ^= 0x01
				if u.ad {
					copy(ad, adBytes)
				}
				var ok2 bool
				fault2, pv2 := guard.Run(func() { _, ok2 = inst.call(out, in, ad) })
				m.Eval()
				m.Count("forged_input_forbidden_overlap_calls", 1)
				m.Count(f.path+"_forged_input_forbidden_overlap_calls", 1)
				switch {
				case fault2 != nil:
					w := wit()
					w["fault"], w["input"] = fault2.Err, "forged (last tag bit flipped)"
					m.Violation("guard-fault:"+label, w)
				case pv2 == nil:
					w := wit()
					w["input"], w["ok"], w["authentic_input_panic"] = "forged (last tag bit flipped)", ok2, fmt.Sprint(pv)
					m.Violation("forged-input-skips-overlap-panic:"+label, w)
				default:
					m.Count("forged_input_forbidden_overlap_panics", 1)
				}
			}
		}
		for off := -64; off <= 64; off++ {
			if u.ad {
				present(0, 0, 0, false, 0, c53D+off, "ad-offset exact-cap")
				present(0, 4, 6, false, 0, c53D+off, "ad-offset prefix+spare")
				continue
			}
			if f.stream {
				present(off, 0, 0, false, 0, 0, "out=len(in)")
				if f.extraOK {
					present(off, 0, 0, false, 7, 0, "out=len(in)+7")
				}
				continue
			}
			present(off, 0, 0, false, 0, 0, "p=0 exact-cap")
			present(off, 5, 0, false, 0, 0, "p=5 exact-cap")
			present(off, 0, 11, false, 0, 0, "p=0 spare=11")
			present(off, 3, 0, true, 0, 0, "p=3 cap-one-short")
		}
		if f.doc == docExactNoCheck {
			// a far-away disjoint output for the lengths whose +-64 window cannot be disjoint
			present(2000, 0, 0, false, 0, 0, "far")
		}
	})
	if m.Get("forbidden_overlap_failed_closed") > 0 {
		m.Note("observed (accepted, not a violation): an Open-type function returned its authentication error, without panic, for an authentic input presented with a forbidden overlap; see the forbidden_overlap_failed_closed:<function> counters (asm AEAD Open with dst overlapping only the tag: the assembly writes the plaintext before it compares the tag, and the alias check excludes the tag bytes)")
	}
	c53Concurrent(m, paths())
	c53Retention(m)
	nAEAD := 4 // Seal/Open x chacha/xchacha per path
	for _, p := range []string{"asm", "generic", "purego"} {
		m.Gate(p+"_exact_calls", nAEAD*len(c53Lens)*2, "AEAD in-place calls (dst = in[:0]) on the "+p+" path")
		m.Gate(p+"_forbidden_calls", nAEAD*len(c53Lens)*100, "AEAD calls with inexactly overlapping dst/in on the "+p+" path")
		m.Gate(p+"_forbidden-ad_calls", nAEAD*len(c53Lens)*20, "AEAD calls with additional data overlapping the output on the "+p+" path")
		m.Gate(p+"_forged_input_forbidden_overlap_calls", 2*len(c53Lens)*100, "AEAD Open calls with a forged input on a forbidden layout on the "+p+" path")
		m.Gate(p+"_disjoint_calls", nAEAD*len(c53Lens)*10, "AEAD calls with disjoint buffers on the "+p+" path")
	}
	for _, st := range []string{"fits-in-buffer", "exhausts-buffer", "straddles-buffer", "after-setcounter"} {
		m.Gate("chacha20_"+st+":forbidden", c53StateGate[st], "chacha20.XORKeyStream calls with inexactly overlapping buffers on a cipher whose state is '"+st+"' (both builds)")
		m.Gate("chacha20_"+st+":exact", c53StateGate[st]/100, "chacha20.XORKeyStream in-place calls on a cipher whose state is '"+st+"' (both builds)")
	}
	m.Gate("exact_calls", 2*(5*len(c53Lens)+2*len(c53XTSLens)), "exactly overlapping calls over all functions, both builds")
	m.Gate("forbidden_calls", 2*20*len(c53Lens)*128, "inexactly overlapping calls over all functions, both builds")
	m.SetExhaustive(true)
}

package aead

import (
	"bytes"
	"fmt"
	"testing"

	"golang.org/x/crypto/chacha20poly1305"
	"golang.org/x/crypto/nacl/box"
	"verif/mon"
)

func TestProbe(t *testing.T) {
	key := bytes.Repeat([]byte{7}, 32)
	nonce := make([]byte, 12)
	a, _ := chacha20poly1305.New(key)
	for _, n := range []int{1, 16, 17, 63, 200} {
		pt := bytes.Repeat([]byte{0x41}, n)
		sealed := a.Seal(nil, nonce, pt, nil)
		for _, path := range paths() {
			for off := n; off < n+16; off += 5 {
				buf := make([]byte, 4096)
				ct := buf[1000 : 1000+n+16]
				copy(ct, sealed)
				dst := buf[1000+off : 1000+off : 4096]
				var out []byte
				var err error
				var pv any
				onPath(path, func() { pv, _ = mon.Panics(func() { out, err = a.Open(dst, nonce, ct, nil) }) })
				fmt.Printf("open n=%d path=%s off=%d panic=%v err=%v ok=%v\n", n, path, off, pv, err, bytes.Equal(out, pt))
			}
		}
	}
	// SealAnonymous
	rd := mon.Reader{R: nil}
	_ = rd
	pub, priv, _ := box.GenerateKey(bytes.NewReader(bytes.Repeat([]byte{9}, 64)))
	for _, off := range []int{-20, -33, -10, 0} {
		buf := make([]byte, 4096)
		msg := buf[1000:1001]
		msg[0] = 0x55
		out := buf[1000+off : 1000+off : 4096]
		var res []byte
		pv, _ := mon.Panics(func() { res, _ = box.SealAnonymous(out, msg, pub, bytes.NewReader(bytes.Repeat([]byte{3}, 64))) })
		var dec []byte
		var ok bool
		if pv == nil {
			dec, ok = box.OpenAnonymous(nil, append([]byte(nil), res...), pub, priv)
		}
		fmt.Printf("sealanon off=%d panic=%v ok=%v dec=%x\n", off, pv, ok, dec)
	}
}

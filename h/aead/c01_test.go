package aead

import (
	"bytes"
	"fmt"
	"math/rand/v2"
	"sort"
	"testing"

	"verif/clib/sodiumaead"
	"verif/guard"
	"verif/mon"
	"verif/ref/aead8439"
)

// ad lengths named by the quantifier (13 is the assembly's special case).
var c01ADSet = []int{0, 1, 12, 13, 14, 15, 16, 17, 31, 32, 33, 63, 64, 65, 127, 128, 129, 255, 256, 600}

// c01PtLens is the seed-independent list of payload lengths of a tier.
func c01PtLens(thorough bool) []int {
	set := map[int]bool{}
	dense := 520
	top := 2048
	if thorough {
		dense, top = 1100, 4096
	}
	for n := 0; n <= dense; n++ {
		set[n] = true
	}
	for base := 64; base <= top; base += 64 {
		for _, d := range []int{0, 1, 2, 15, 16, 17} {
			set[base+d] = true
			if base-d >= 0 {
				set[base-d] = true
			}
		}
	}
	var out []int
	for n := range set {
		out = append(out, n)
	}
	sort.Ints(out)
	return out
}

const c01MaxLen = 70000

// C01: Seal = dst ‖ RFC 8439 (XChaCha draft) ciphertext ‖ tag on every
// implementation path; Open of that returns dst ‖ plaintext.
func TestC01(t *testing.T) {
	m := mon.New(t, "C01")
	defer m.Done()
	m.Rule("case = (kind chacha|xchacha, payload length, ad length, dst layout, guard alignment) with random key/nonce/content; payload lengths: every value 0..520 (thorough 0..1100) plus k*64±{0,1,2,15,16,17} up to 2048 (4096), each combined with ad=13 and a rotation through {0,1,12..17,31..33,63..65,127..129,255,256,600} and random ad<=600, plus log-uniform lengths up to 70000; dst layouts: nil, exact capacity, canary prefix, prefix+canary spare, capacity one byte short, in place (Seal dst = pt[:0] with room for the tag, Open dst = ct[:0]), in place behind a 6-byte prefix (dst = buf[:6], input = buf[6:]); every case is executed on each path of the build (asm and generic via VerifSetAVX2; purego build) with payload, ad and dst placed against PROT_NONE pages (end-aligned or start-aligned). A third stream shares ONE AEAD value (New and NewX alternately) between 8 goroutines that each alternate Seal and Open of their own PRNG-determined messages (fixed counts, barrier every 200 operations), every result compared with the precomputed spec result. A fourth stream overwrites the caller's key buffer (content and spare capacity) right after New/NewX and between calls, and builds two AEADs from one reused buffer: Seal/Open must keep using the original key. Oracle: executable RFC 8439 spec (h/ref/aead8439), cross-checked per case against libsodium. distinct = (path, kind, asm length branch, len%16, ad class, dst layout, alignment)")
	m.Assume("h/ref/aead8439 reproduces RFC 8439 §2.3.2/2.4.2/2.5.2/2.6.2/2.8.2/A.3 and draft-xchacha §2.2.1/A.3 vectors (its own unit test); libsodium " + sodiumaead.Version() + " is used as a second witness, a disagreement between the two oracles is reported as inconclusive")
	m.Assume("guard pages catch out-of-bounds accesses that cross the operand's page boundary side being tested (end- or start-aligned); canaries catch writes inside dst's own capacity")

	if mon.RaceBuild {
		// -race build: only the shared-value concurrency stream (the detector
		// costs 5-15x; the other streams are single-goroutine)
		c01Concurrent(m, paths())
		return
	}
	P := c01PtLens(m.Thorough())
	K := m.N(20, 80)
	nLarge := m.N(20, 400)
	firstOfClass := map[int]int{} // len%64 -> index in P
	for pi, n := range P {
		if _, ok := firstOfClass[n%64]; !ok {
			firstOfClass[n%64] = pi
		}
	}
	ps := paths()
	for _, p := range ps {
		m.Count("path_available:"+p, 1)
	}
	ptA := guard.New(c01MaxLen + 64)
	adA := guard.New(4096)
	dstA := guard.New(c01MaxLen + 256)
	defer ptA.Free()
	defer adA.Free()
	defer dstA.Free()

	// earlier outputs that live in memory the implementation allocated (nil dst,
	// capacity one byte short) are kept and re-verified after later calls: the
	// implementation must not retain and later write through an alias
	type kept struct {
		out, expect []byte
		desc        string
	}
	var ring []kept
	verifyRing := func() {
		for _, k := range ring {
			m.Count("earlier_outputs_reverified", 1)
			if !bytes.Equal(k.out, k.expect) {
				m.Violation("earlier-output-changed:"+k.desc, map[string]any{"which": k.desc, "now": mon.Hex(k.out), "was": mon.Hex(k.expect)})
			}
		}
	}
	keep := func(out []byte, desc string) {
		ring = append(ring, kept{out, append([]byte(nil), out...), desc})
		if len(ring) > 6 {
			ring = ring[1:]
		}
	}
	defer verifyRing()

	// exec runs one (kind, key, nonce, pt, ad, dst layout, alignment) case on
	// every path and judges Seal and Open against the spec. tag names the
	// constructed accumulator family ("" for the random stream).
	exec := func(i int64, r *rand.Rand, kind int, key, nonce, pt, ad []byte, dstv, align int, classFirst bool, tag, tagDetail string) {
		n, adlen := len(pt), len(ad)
		want := aead8439.SealN(key, nonce, pt, ad)
		if w2 := sodiumaead.AEADSeal(key, nonce, pt, ad); !bytes.Equal(want, w2) {
			m.Inconclusive(fmt.Sprintf("oracle conflict: ref vs libsodium at case %d (kind=%s n=%d ad=%d)", i, kindName(kind), n, adlen))
			return
		}
		m.Count("oracle_ref_sodium_agree", 1)
		wit := func(path, op string) map[string]any {
			return map[string]any{"path": path, "op": op, "kind": kindName(kind), "ptlen": n, "adlen": adlen, "dst_layout": dstv, "align": alignName(align),
				"key": mon.FullHex(key), "nonce": mon.FullHex(nonce), "ad": mon.FullHex(ad), "pt": hexUpTo(pt, 4096), "constructed": tag + " " + tagDetail}
		}
		if i < 3 {
			w := wit("all", "seal+open")
			w["want"] = mon.Hex(want)
			m.Sample(w)
		}
		// dst layout: prefix p, spare s, short = capacity one byte too small;
		// 5: in place (Seal dst = pt[:0] with room for the tag, Open dst = ct[:0]);
		// 6: in place behind a prefix (dst = buf[:6], input = buf[6:]: the output
		// window starts exactly at the input)
		p, s, short, inplace := 0, 0, false, false
		switch dstv {
		case 2:
			p = 7
		case 3:
			p, s = 7, 9
		case 4:
			p, short = 5, true
		case 5:
			inplace = true
		case 6:
			p, inplace = 6, true
		}
		// in-place buffer in the payload arena: [prefix p][input][room]
		mkInPlace := func(input []byte, room, win int) (d *dstBuf, dst, src []byte) {
			region := place(ptA, align, p+len(input)+room, nil)
			prefix := mon.Bytes(r, p)
			copy(region, prefix)
			copy(region[p:], input)
			for k := p + len(input); k < len(region); k++ {
				region[k] = 0xEE
			}
			d = &dstBuf{region: region[:p+win], p: p, win: win, prefix: prefix}
			return d, region[:p:len(region)], region[p : p+len(input) : p+len(input)]
		}
		// cipher.AEAD documents dst = input[:0]; the prefix form has the same
		// output window but is not spelled out there: a panic is accepted for it
		// (never a wrong result).
		panicAccepted := func(pv any) bool {
			if pv != nil && inplace && p > 0 {
				m.Count("inplace_prefix_panic_accepted", 1)
				return true
			}
			return false
		}
		keyCopy, nonceCopy := append([]byte(nil), key...), append([]byte(nil), nonce...)
		aeadv := newAEAD(kind, key)
		// inputs are not outputs: after every call nonce, ad and (unless it is
		// the documented in-place output) the source must be unchanged
		inputsIntact := func(op, path string, gsrc, src, gad []byte) {
			changed := ""
			switch {
			case !bytes.Equal(gad, ad):
				changed = "ad"
			case !bytes.Equal(nonce, nonceCopy):
				changed = "nonce"
			case !bytes.Equal(key, keyCopy):
				changed = "key"
			case !bytes.Equal(gsrc, src):
				changed = "source"
			}
			m.Count("inputs_verified_unchanged", 1)
			if changed != "" {
				w := wit(path, op)
				w["changed"] = changed
				m.Violation("input-modified:"+op+":"+path+":"+changed, w)
			}
		}
		verifyRing()
		for _, path := range ps {
			cls := fmt.Sprintf("%s %s %s n%%16=%d ad=%s dst=%d %s %s", path, kindName(kind), asmBranch(n), n%16, adClass(adlen), dstv, alignName(align), tag)
			// ---------- Seal ----------
			gpt := place(ptA, align, n, pt)
			gad := place(adA, align, adlen, ad)
			var d *dstBuf
			var dst []byte
			if inplace {
				d, dst, gpt = mkInPlace(pt, 16, n+16)
				m.Count(path+"_inplace_seal", 1)
			} else if dstv != 0 {
				win := n + 16
				if short {
					win--
				}
				d = mkDst(dstA, align, p, win, s, r, 0xEE)
				dst = d.dst()
			}
			var out []byte
			var fault *guard.Fault
			var pv any
			onPath(path, func() {
				fault, pv = guard.Run(func() { out = aeadv.Seal(dst, nonce, gpt, gad) })
			})
			m.Eval()
			m.Distinct(cls)
			m.Count(path+"_seal", 1)
			m.Count(path+"_branch:"+asmBranch(n), 1)
			if adlen == 13 {
				m.Count(path+"_ad13", 1)
			}
			if classFirst {
				m.Count(path+"_ptlen_mod64_classes", 1)
			}
			if tag != "" {
				m.Count(path+"_constructed", 1)
				m.Count(path+"_constructed:"+tag, 1)
			}
			if n > 2048 {
				m.Count(path+"_large", 1)
			}
			switch {
			case fault != nil:
				w := wit(path, "seal")
				w["fault"] = fault.Err
				m.Violation("guard-fault:seal:"+path, w)
			case panicAccepted(pv):
			case pv != nil:
				w := wit(path, "seal")
				w["panic"] = fmt.Sprint(pv)
				m.Violation("panic:seal:"+path, w)
			default:
				c01Judge(m, "seal", path, d, out, want, wit)
				if inplace {
					inputsIntact("seal", path, nil, nil, gad)
				} else {
					inputsIntact("seal", path, gpt, pt, gad)
				}
				if dstv == 0 || (short && !sameBacking(out, dst)) {
					keep(out, "seal:"+path)
				}
				if d != nil && !short && sameBacking(out, dst) {
					m.Count("seal_in_capacity", 1)
				}
			}
			// ---------- Open (of the reference ciphertext) ----------
			gct := place(ptA, align, n+16, want)
			gad = place(adA, align, adlen, ad)
			d, dst = nil, nil
			if inplace {
				d, dst, gct = mkInPlace(want, 0, n)
				m.Count(path+"_inplace_open", 1)
			} else if dstv != 0 {
				win := n
				if short {
					if win == 0 {
						win = 0
					} else {
						win--
					}
				}
				d = mkDst(dstA, align, p, win, s, r, 0xEE)
				dst = d.dst()
			}
			var err error
			out = nil
			onPath(path, func() {
				fault, pv = guard.Run(func() { out, err = aeadv.Open(dst, nonce, gct, gad) })
			})
			m.Eval()
			m.Count(path+"_open", 1)
			switch {
			case fault != nil:
				w := wit(path, "open")
				w["fault"] = fault.Err
				m.Violation("guard-fault:open:"+path, w)
			case panicAccepted(pv):
			case pv != nil:
				w := wit(path, "open")
				w["panic"] = fmt.Sprint(pv)
				m.Violation("panic:open:"+path, w)
			case err != nil:
				w := wit(path, "open")
				w["err"] = err.Error()
				m.Violation("open-rejects-authentic:"+path+":"+kindName(kind), w)
			default:
				c01Judge(m, "open", path, d, out, pt, wit)
				if inplace {
					inputsIntact("open", path, gct[n:], want[n:], gad) // the tag bytes are input only
				} else {
					inputsIntact("open", path, gct, want, gad)
				}
				if dstv == 0 || (short && !sameBacking(out, dst)) { // short with an empty payload fits dst: that result lives in the harness arena
					keep(out, "open:"+path)
				}
			}
		}

	}

	total := len(P)*K + nLarge
	m.Cases("main", total, func(i int64, r *rand.Rand) {
		var n, adlen, kind, dstv, align int
		classFirst := false
		if int(i) < len(P)*K {
			pi, j := int(i)/K, int(i)%K
			n = P[pi]
			switch {
			case j == 0:
				adlen = 13
				classFirst = firstOfClass[n%64] == pi
			case K >= 40 && j <= len(c01ADSet):
				adlen = c01ADSet[j-1]
			case K < 40 && j <= 6:
				adlen = c01ADSet[(pi*6+j-1)%len(c01ADSet)]
			default:
				adlen = r.IntN(601)
			}
			kind = (pi + j) % 2
			dstv = (pi + j) % 7
			align = ((pi + j) / 7) % 2
		} else {
			n = mon.LogUniform(r, 2049, c01MaxLen)
			adlen = mon.Pick(r, []int{0, 13, 16, r.IntN(601)})
			kind, dstv, align = r.IntN(2), r.IntN(7), r.IntN(2)
		}
		exec(i, r, kind, mon.Bytes(r, 32), mon.Bytes(r, nonceLen(kind)), mon.Bytes(r, n), mon.Bytes(r, adlen), dstv, align, classFirst, "", "")
	})

	// ---- constructed stream: the true final Poly1305 accumulator is steered
	// to the edges of the final reduction and of the tag addition ----
	targets := polyTargets()
	conLens := []int{1, 15, 16, 17, 31, 32, 100, 128, 129, 160, 192, 193, 250, 256, 257, 320, 321, 384, 385, 448, 449, 512, 513, 600, 1024, 1100, 2049}
	conADs := []int{0, 13, 16, 33}
	conADsShort := []int{16, 32, 33, 48} // payload < 16 bytes: the solved block is an AD block
	reps := m.N(1, 3)
	perRep := 2 * len(conLens) * len(conADs) * len(targets)
	famCount := map[string]int{}
	for _, t := range targets {
		famCount[t.fam] += 2 * len(conLens) * len(conADs) * reps
	}
	m.Cases("constructed", perRep*reps, func(i int64, r *rand.Rand) {
		u := int(i) % perRep
		ti := u % len(targets)
		u /= len(targets)
		ai := u % len(conADs)
		u /= len(conADs)
		li := u % len(conLens)
		kind := u / len(conLens)
		n, tgt := conLens[li], targets[ti]
		adlen := conADs[ai]
		if n < 16 {
			adlen = conADsShort[ai]
		}
		c, ok := constructAEAD(r, kind, n, adlen, tgt)
		if !ok {
			m.Count("constructed_unsolved", 1)
			return
		}
		m.Count("constructed_attempts", c.tries)
		if i < 2 {
			m.Sample(map[string]any{"stream": "constructed", "kind": kindName(kind), "ptlen": n, "adlen": adlen, "target": tgt.fam + " " + tgt.name, "accumulator": c.target.Text(16),
				"key": mon.FullHex(c.key), "nonce": mon.FullHex(c.nonce), "ad": mon.FullHex(c.ad), "pt": mon.Hex(c.pt), "solved_block_in": c.solvedIn, "attempts": c.tries})
		}
		exec(i, r, kind, c.key, c.nonce, c.pt, c.ad, int(i)%7, int(i/7)%2, false, tgt.fam, tgt.name+" acc=0x"+c.target.Text(16))
	})
	c01Concurrent(m, ps)
	c01Retention(m, ps)
	for _, p := range []string{"asm", "generic", "purego"} {
		m.Gate(p+"_seal", len(P)*K/2, "Seal executions on the "+p+" path compared with the RFC 8439 spec")
		m.Gate(p+"_open", len(P)*K/2, "Open executions on the "+p+" path")
		m.Gate(p+"_ptlen_mod64_classes", 64, "every payload length class mod 64 seen on the "+p+" path")
		m.Gate(p+"_ad13", len(P)/2, "additional data of 13 bytes (assembly special case) on the "+p+" path")
		for fam, cnt := range famCount {
			m.Gate(p+"_constructed:"+fam, cnt*9/10, "Seal+Open on the "+p+" path of messages whose true final Poly1305 accumulator was constructed in family "+fam)
		}
		m.Gate(p+"_inplace_seal", len(P)*K/7, "in-place Seal (dst = pt[:0] or prefix form) on the "+p+" path")
		m.Gate(p+"_inplace_open", len(P)*K/7, "in-place Open (dst = ct[:0] or prefix form) on the "+p+" path")
		m.Gate(p+"_large", nLarge/2, "payloads above 2 KiB (multi-iteration main loop) on the "+p+" path")
	}
}

// c01Judge compares the returned slice with prefix ‖ want and inspects the canaries.
func c01Judge(m *mon.M, op, path string, d *dstBuf, out, want []byte, wit func(path, op string) map[string]any) {
	var prefix []byte
	if d != nil {
		prefix = d.prefix
	}
	bad := func(key string, extra map[string]any) {
		w := wit(path, op)
		for k, v := range extra {
			w[k] = v
		}
		m.Violation(key, w)
	}
	if len(out) != len(prefix)+len(want) {
		bad(op+"-wrong-length:"+path, map[string]any{"got_len": len(out), "want_len": len(prefix) + len(want)})
		return
	}
	if !bytes.Equal(out[:len(prefix)], prefix) {
		bad(op+"-prefix-clobbered:"+path, map[string]any{"got_prefix": mon.Hex(out[:len(prefix)]), "want_prefix": mon.Hex(prefix)})
	}
	body := out[len(prefix):]
	if k := firstDiff(body, want); k >= 0 {
		part := "body"
		if op == "seal" && k >= len(want)-16 {
			part = "tag"
		}
		bad(op+"-wrong-"+part+":"+path, map[string]any{"first_diff_at": k, "got": hexUpTo(body, 4096), "want": hexUpTo(want, 4096)})
	}
	if d != nil {
		if !d.prefixIntact() {
			bad(op+"-dst-prefix-damaged:"+path, map[string]any{"prefix_now": mon.Hex(d.region[:d.p])})
		}
		if !d.spareIntact() {
			bad(op+"-spare-capacity-damaged:"+path, map[string]any{"spare_now": mon.Hex(d.region[d.p+d.win:])})
		}
	}
}

func hexUpTo(b []byte, max int) string {
	if len(b) <= max {
		return mon.FullHex(b)
	}
	return mon.Hex(b)
}

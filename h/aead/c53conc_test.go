package aead

import (
	"bytes"
	"crypto/aes"
	"crypto/cipher"
	"fmt"
	"math/rand/v2"
	"runtime"

	"golang.org/x/crypto/chacha20"
	"golang.org/x/crypto/salsa20"
	"golang.org/x/crypto/xts"
	"verif/clib/sodiumaead"
	"verif/mon"
	"verif/ref/aead8439"
)

// C53's concurrency stream: the in-place / overlapping-buffer calls of the
// main enumeration, made by 8 goroutines at once. Values that programs share
// because they are immutable after construction (cipher.AEAD, *xts.Cipher, the
// package-level salsa20.XORKeyStream) are shared; stateful values
// (*chacha20.Cipher) are never shared: one per goroutine, used at the same time
// (hidden package-level state, pools). Every goroutine works in its own
// buffers. Expected results are precomputed single-threaded.

// overlapJob is one call with its own buffer layout.
type overlapJob struct {
	api    string
	layout string // "exact", "disjoint", "forbidden"
	opener bool
	want   []byte
	wantOK bool
	run    func() (out []byte, ok bool) // performs the call in the job's own buffers
	out    []byte
	ok     bool
	pv     any
	detail map[string]any
}

const c53ConcOff = 64 // position of the input inside a job's private buffer

// layoutBuf builds a private buffer holding `in` at c53ConcOff with `room`
// spare bytes behind it, and returns the input slice and the output slice for
// the layout: exact = same start (stream: same slice; append style: in[:0] with
// capacity), disjoint = a second private buffer, forbidden = shifted by shift.
func layoutBuf(in []byte, outLen int, layout string, shift int, appendStyle bool) (src, dst []byte) {
	buf := make([]byte, c53ConcOff+len(in)+outLen+2*c53ConcOff)
	src = buf[c53ConcOff : c53ConcOff+len(in) : c53ConcOff+len(in)]
	copy(src, in)
	start := c53ConcOff
	switch layout {
	case "disjoint":
		other := make([]byte, outLen+8)
		if appendStyle {
			return src, other[:0:outLen]
		}
		return src, other[:outLen:outLen]
	case "forbidden":
		start += shift
	}
	if appendStyle {
		return src, buf[start : start : start+outLen]
	}
	return src, buf[start : start+outLen : start+outLen]
}

func pickLayout(r *rand.Rand) (string, int) {
	switch r.IntN(8) {
	case 0, 1, 2, 3:
		return "exact", 0
	case 4, 5:
		return "disjoint", 0
	}
	return "forbidden", mon.Pick(r, []int{1, 2, 7, 15, 16, 17, -1, -3, -16})
}

var c53ConcLens = []int{1, 15, 16, 17, 63, 64, 65, 200, 1000}

func c53Concurrent(m *mon.M, ps []string) {
	type family struct {
		name string
		mode string // shared | distinct
		path string
		// build returns the jobs of goroutine g (own PRNG)
		build func(r *rand.Rand, nG, nOps int) [][]*overlapJob
	}
	nOps := concScale(m.N(300, 600))
	aeadFam := func(mode, path string, kind int) family {
		return family{name: "aead[" + kindName(kind) + "]", mode: mode, path: path, build: func(r *rand.Rand, nG, nOps int) [][]*overlapJob {
			var aeads []cipher.AEAD
			var keys [][]byte
			for g := 0; g < nG; g++ {
				if g == 0 || mode == "distinct" {
					keys = append(keys, mon.Bytes(r, 32))
					aeads = append(aeads, newAEAD(kind, keys[len(keys)-1]))
				}
			}
			plans := make([][]*overlapJob, nG)
			for g := range plans {
				a, key := aeads[g%len(aeads)], keys[g%len(keys)]
				gr := rand.New(rand.NewPCG(r.Uint64(), uint64(g)))
				for j := 0; j < nOps; j++ {
					n := mon.Pick(gr, c53ConcLens)
					nonce, ad, pt := mon.Bytes(gr, nonceLen(kind)), mon.Bytes(gr, mon.Pick(gr, []int{0, 13, 16})), mon.Bytes(gr, n)
					sealed := aead8439.SealN(key, nonce, pt, ad)
					layout, shift := pickLayout(gr)
					job := &overlapJob{layout: layout, wantOK: true, detail: map[string]any{"key": mon.FullHex(key), "nonce": mon.FullHex(nonce), "ad": mon.FullHex(ad), "n": n, "shift": shift}}
					if j%2 == 0 {
						job.api, job.want = "aead.Seal["+kindName(kind)+"]", sealed
						src, dst := layoutBuf(pt, n+16, layout, shift, true)
						job.run = func() ([]byte, bool) { return a.Seal(dst, nonce, src, ad), true }
					} else {
						job.api, job.want, job.opener = "aead.Open["+kindName(kind)+"]", pt, true
						src, dst := layoutBuf(sealed, n, layout, shift, true)
						job.run = func() ([]byte, bool) {
							out, err := a.Open(dst, nonce, src, ad)
							return out, err == nil
						}
					}
					plans[g] = append(plans[g], job)
				}
			}
			return plans
		}}
	}
	var fams []family
	for _, path := range ps {
		for _, kind := range []int{kindChaCha, kindX} {
			fams = append(fams, aeadFam("shared", path, kind), aeadFam("distinct", path, kind))
		}
	}
	// chacha20.Cipher: stateful, one per goroutine, a sequence of calls on it
	fams = append(fams, family{name: "chacha20.XORKeyStream", mode: "distinct", build: func(r *rand.Rand, nG, nOps int) [][]*overlapJob {
		plans := make([][]*overlapJob, nG)
		for g := range plans {
			gr := rand.New(rand.NewPCG(r.Uint64(), uint64(g)))
			key, nonce := mon.Bytes(gr, 32), mon.Bytes(gr, 12)
			c, err := chacha20.NewUnauthenticatedCipher(key, nonce)
			if err != nil {
				panic("harness: " + err.Error())
			}
			pos := 0
			for j := 0; j < nOps; j++ {
				n := mon.Pick(gr, c53ConcLens)
				in := mon.Bytes(gr, n)
				layout, shift := pickLayout(gr)
				if layout == "forbidden" {
					layout, shift = "exact", 0 // a panicking call must not advance the modelled position ambiguously: keep the stateful sequence to legal layouts
				}
				ks := aead8439.Keystream(key, 0, nonce, pos+n)[pos:]
				want := make([]byte, n)
				for k := range want {
					want[k] = in[k] ^ ks[k]
				}
				pos += n
				src, dst := layoutBuf(in, n, layout, shift, false)
				plans[g] = append(plans[g], &overlapJob{api: "chacha20.XORKeyStream", layout: layout, want: want, wantOK: true,
					detail: map[string]any{"key": mon.FullHex(key), "nonce": mon.FullHex(nonce), "n": n, "stream_position": pos - n},
					run:    func() ([]byte, bool) { c.XORKeyStream(dst, src); return dst, true }})
			}
		}
		return plans
	}})
	// salsa20.XORKeyStream: package-level function, shared by nature
	fams = append(fams, family{name: "salsa20.XORKeyStream", mode: "shared", build: func(r *rand.Rand, nG, nOps int) [][]*overlapJob {
		plans := make([][]*overlapJob, nG)
		for g := range plans {
			gr := rand.New(rand.NewPCG(r.Uint64(), uint64(g)))
			for j := 0; j < nOps; j++ {
				n := mon.Pick(gr, c53ConcLens)
				key, nonce, in := mon.Bytes(gr, 32), mon.Bytes(gr, mon.Pick(gr, []int{8, 24})), mon.Bytes(gr, n)
				layout, shift := pickLayout(gr)
				src, dst := layoutBuf(in, n, layout, shift, false)
				plans[g] = append(plans[g], &overlapJob{api: "salsa20.XORKeyStream", layout: layout, want: sodiumaead.Salsa20Xor(in, nonce, key), wantOK: true,
					detail: map[string]any{"key": mon.FullHex(key), "nonce": mon.FullHex(nonce), "n": n, "shift": shift},
					run:    func() ([]byte, bool) { salsa20.XORKeyStream(dst, src, nonce, arr32(key)); return dst, true }})
			}
		}
		return plans
	}})
	// xts: *xts.Cipher is immutable after NewCipher (and uses a package-level pool): shared and distinct
	for _, mode := range []string{"shared", "distinct"} {
		mode := mode
		fams = append(fams, family{name: "xts", mode: mode, build: func(r *rand.Rand, nG, nOps int) [][]*overlapJob {
			var cs []*xts.Cipher
			var keys [][]byte
			for g := 0; g < nG; g++ {
				if g == 0 || mode == "distinct" {
					keys = append(keys, mon.Bytes(r, 32))
					c, err := xts.NewCipher(yieldingAES, keys[len(keys)-1])
					if err != nil {
						panic("harness: " + err.Error())
					}
					cs = append(cs, c)
				}
			}
			plans := make([][]*overlapJob, nG)
			for g := range plans {
				c, key := cs[g%len(cs)], keys[g%len(keys)]
				gr := rand.New(rand.NewPCG(r.Uint64(), uint64(g)))
				for j := 0; j < nOps; j++ {
					n := mon.Pick(gr, c53XTSLens)
					in, sector := mon.Bytes(gr, n), gr.Uint64()
					// reference: the same cipher, single-threaded, separate buffers (no independent oracle for xts here)
					want := make([]byte, n)
					dec := j%2 == 1
					if dec {
						c.Decrypt(want, append([]byte(nil), in...), sector)
					} else {
						c.Encrypt(want, append([]byte(nil), in...), sector)
					}
					layout, shift := pickLayout(gr)
					src, dst := layoutBuf(in, n, layout, shift, false)
					api := "xts.Encrypt"
					if dec {
						api = "xts.Decrypt"
					}
					plans[g] = append(plans[g], &overlapJob{api: api, layout: layout, want: want, wantOK: true,
						detail: map[string]any{"key": mon.FullHex(key), "sector": sector, "n": n, "shift": shift},
						run: func() ([]byte, bool) {
							if dec {
								c.Decrypt(dst, src, sector)
							} else {
								c.Encrypt(dst, src, sector)
							}
							return dst, true
						}})
				}
			}
			return plans
		}})
	}

	reps := m.N(1, 2)
	m.Cases("concurrent-overlap", len(fams)*reps, func(i int64, r *rand.Rand) {
		f := fams[int(i)%len(fams)]
		label := f.name
		if f.path != "" {
			label += ":" + f.path
		}
		for _, pass := range concPasses {
			plans := f.build(r, concGoroutines, nOps)
			jobs := make([][]func(), len(plans))
			for g := range plans {
				for _, job := range plans[g] {
					job := job
					jobs[g] = append(jobs[g], func() {
						defer func() {
							if v := recover(); v != nil {
								job.pv = v
							}
						}()
						out, ok := job.run()
						job.out, job.ok = append([]byte(nil), out...), ok
					})
				}
			}
			var overlapping int64
			run := func() { overlapping = runJobs(jobs, 100, pass.singleP) }
			if f.path != "" {
				onPath(f.path, run)
			} else {
				run()
			}
			m.Count("concurrent_overlapping_calls:"+pass.name, int(overlapping))
			for g := range plans {
				for _, job := range plans[g] {
					m.Eval()
					m.Count("concurrent_"+f.mode+"_calls:"+job.layout, 1)
					m.Count("concurrent_calls:"+f.mode+":"+pass.name, 1)
					m.Distinct(fmt.Sprintf("concurrent %s %s %s %s %s g=%d", f.mode, pass.name, label, job.api, job.layout, g))
					wit := func() map[string]any {
						w := map[string]any{"stream": "concurrent-overlap", "mode": f.mode, "pass": pass.name, "family": label, "api": job.api, "layout": job.layout, "goroutine": g,
							"want": mon.FullHex(job.want), "got": mon.FullHex(job.out), "ok": job.ok, "note": "interleaving-dependent: re-run the stream"}
						for k, v := range job.detail {
							w[k] = v
						}
						if job.pv != nil {
							w["panic"] = fmt.Sprint(job.pv)
						}
						return w
					}
					strict := job.layout != "forbidden"
					correct := job.pv == nil && job.ok == job.wantOK && bytes.Equal(job.out, job.want)
					switch {
					case job.pv != nil && strict:
						m.Violation("concurrent-unexpected-panic:"+f.mode+":"+job.api, wit())
					case job.pv != nil:
						m.Count("concurrent_panic_on_forbidden_overlap", 1)
					case correct:
					case !strict && job.opener && !job.ok:
						m.Count("concurrent_forbidden_overlap_failed_closed", 1)
					default:
						m.Violation("concurrent-result-differs:"+f.mode+":"+job.api, wit())
					}
				}
			}
		}
	})
	m.Gate("concurrent_overlapping_calls:parallel", 1, "in-place/overlapping-buffer calls that started while another goroutine's call was in flight")
	full := m.N(300, 600)
	m.Gate("concurrent_shared_calls:exact", concGoroutines*full*4, "in-place calls on shared values (cipher.AEAD, *xts.Cipher, salsa20 function) by 8 goroutines at once")
	m.Gate("concurrent_distinct_calls:exact", concGoroutines*full*4, "in-place calls on one value per goroutine (AEAD, *chacha20.Cipher, *xts.Cipher) at once")
	m.Gate("concurrent_shared_calls:forbidden", concGoroutines*full, "inexactly overlapping calls on shared values by 8 goroutines at once")
	m.Gate("concurrent_calls:shared:gomaxprocs1", concGoroutines*full*4, "calls on shared values in the GOMAXPROCS(1) pass")
}

// yieldingBlock is the user-supplied block cipher handed to xts.NewCipher in the
// concurrent streams: it yields in every call, a legal suspension point inside a
// sector operation, so that goroutines sharing a P (and its sync.Pool shard)
// interleave mid-operation.
type yieldingBlock struct{ cipher.Block }

func (y yieldingBlock) Encrypt(dst, src []byte) { runtime.Gosched(); y.Block.Encrypt(dst, src) }
func (y yieldingBlock) Decrypt(dst, src []byte) { runtime.Gosched(); y.Block.Decrypt(dst, src) }

func yieldingAES(key []byte) (cipher.Block, error) {
	b, err := aes.NewCipher(key)
	if err != nil {
		return nil, err
	}
	return yieldingBlock{b}, nil
}

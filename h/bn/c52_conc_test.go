package bn

import (
	"bytes"
	"math/big"
	"math/rand/v2"
	"runtime"
	"sync"
	"sync/atomic"

	"golang.org/x/crypto/bn256"
	"verif/mon"
	"verif/ref/bnref"
)

// Shared-value concurrency: group elements used as *arguments* (never as
// receivers, never Marshal'ed while shared: Marshal normalises its receiver in
// place) by several goroutines at once, and independent computations running at
// once (hidden package-level state). Every expected value is computed
// single-threaded beforehand: G1/G2 from the affine reference, GT/pairings from
// a single-threaded run of the same call. Judged after join.

type concOp struct {
	kind string   // g1mul g1base g1add g1neg g2mul g2base gtmul pair
	k    *big.Int // scalar (shared read-only for "shared" cases)
	want []byte
	got  []byte
}

func concStreams(m *mon.M, G1 bnref.P1, G2 bnref.P2) {
	e11 := bn256.Pair(new(bn256.G1).ScalarBaseMult(big1), new(bn256.G2).ScalarBaseMult(big1))
	var overlapCases atomic.Int64
	run := func(stream string, procs int) {
		m.Cases(stream, m.N(24, 400), func(i int64, r *rand.Rand) {
			if procs > 0 {
				defer runtime.GOMAXPROCS(runtime.GOMAXPROCS(procs))
			}
			shared := i%2 == 0
			mode := "distinct"
			if shared {
				mode = "shared"
			}
			nG := 4 + r.IntN(5)
			// shared arguments
			a0 := posScalar(r)
			refA := bnref.Mul1(G1, a0)
			refB := bnref.Mul1(G1, posScalar(r))
			ref2 := bnref.Mul2(G2, posScalar(r))
			mk1 := func(p bnref.P1) *bn256.G1 { g, _ := new(bn256.G1).Unmarshal(bnref.Enc1(p)); return g }
			mk2 := func(p bnref.P2) *bn256.G2 { g, _ := new(bn256.G2).Unmarshal(bnref.Enc2(p)); return g }
			sA, sB, s2 := mk1(refA), mk1(refB), mk2(ref2)
			sGT := new(bn256.GT).ScalarMult(e11, posScalar(r))
			if sA == nil || sB == nil || s2 == nil {
				m.Violation("concurrent-setup-unmarshal-rejects-valid", nil)
				return
			}
			sK, _ := scalar(r)
			encA, encB, enc2, encGT := sA.Marshal(), sB.Marshal(), s2.Marshal(), sGT.Marshal()
			encA, encB, enc2, encGT = bytes.Clone(encA), bytes.Clone(encB), bytes.Clone(enc2), bytes.Clone(encGT)
			kCopy := new(big.Int).Set(sK)
			pairWant := bn256.Pair(sA, s2).Marshal()

			type gstate struct {
				a, b *bn256.G1
				q    *bn256.G2
				t    *bn256.GT
				ops  []*concOp
			}
			gs := make([]*gstate, nG)
			for g := range gs {
				st := &gstate{a: sA, b: sB, q: s2, t: sGT}
				if !shared {
					st.a, st.b, st.q = mk1(refA), mk1(refB), mk2(ref2)
					st.t, _ = new(bn256.GT).Unmarshal(encGT)
				}
				nOps := 3 + r.IntN(4)
				for o := 0; o < nOps; o++ {
					k, _ := scalar(r)
					if shared && r.IntN(3) == 0 {
						k = sK
					}
					op := &concOp{k: k}
					switch r.IntN(8) {
					case 0:
						op.kind, op.want = "g1mul", bnref.Enc1(bnref.Mul1(refA, k))
					case 1:
						op.kind, op.want = "g1base", bnref.Enc1(bnref.Mul1(G1, k))
					case 2:
						if bytes.Equal(encA, encB) {
							op.kind, op.want = "g1neg", bnref.Enc1(bnref.Neg1(refA))
						} else {
							op.kind, op.want = "g1add", bnref.Enc1(bnref.Add1(refA, refB))
						}
					case 3:
						op.kind, op.want = "g1neg", bnref.Enc1(bnref.Neg1(refA))
					case 4:
						op.kind, op.want = "g2mul", bnref.Enc2(bnref.Mul2(ref2, k))
					case 5:
						op.kind, op.want = "g2base", bnref.Enc2(bnref.Mul2(G2, k))
					case 6:
						op.kind = "gtmul"
						op.want = new(bn256.GT).ScalarMult(sGT, k).Marshal()
					default:
						op.kind, op.want = "pair", pairWant
					}
					st.ops = append(st.ops, op)
				}
				gs[g] = st
			}
			var inflight, maxSeen atomic.Int32
			var wg sync.WaitGroup
			start := make(chan struct{})
			panics := make([]any, nG)
			for g := range gs {
				wg.Add(1)
				go func(g int, st *gstate) {
					defer wg.Done()
					defer func() { panics[g] = recover() }()
					<-start
					for _, op := range st.ops {
						n := inflight.Add(1)
						for {
							o := maxSeen.Load()
							if n <= o || maxSeen.CompareAndSwap(o, n) {
								break
							}
						}
						switch op.kind {
						case "g1mul":
							op.got = new(bn256.G1).ScalarMult(st.a, op.k).Marshal()
						case "g1base":
							op.got = new(bn256.G1).ScalarBaseMult(op.k).Marshal()
						case "g1add":
							op.got = new(bn256.G1).Add(st.a, st.b).Marshal()
						case "g1neg":
							op.got = new(bn256.G1).Neg(st.a).Marshal()
						case "g2mul":
							op.got = new(bn256.G2).ScalarMult(st.q, op.k).Marshal()
						case "g2base":
							op.got = new(bn256.G2).ScalarBaseMult(op.k).Marshal()
						case "gtmul":
							op.got = new(bn256.GT).ScalarMult(st.t, op.k).Marshal()
						case "pair":
							op.got = bn256.Pair(st.a, st.q).Marshal()
						}
						inflight.Add(-1)
						runtime.Gosched()
					}
				}(g, gs[g])
			}
			close(start)
			wg.Wait()
			if maxSeen.Load() >= 2 {
				overlapCases.Add(1)
				m.Count("concurrent_cases_with_overlap", 1)
			}
			for g, st := range gs {
				if panics[g] != nil {
					m.Violation("concurrent-bn256-panics:"+mode, map[string]any{"panic": panics[g]})
					continue
				}
				for _, op := range st.ops {
					m.Eval()
					m.Count("concurrent_ops_compared", 1)
					m.Distinct("conc " + mode + " " + op.kind)
					if !bytes.Equal(op.got, op.want) {
						m.Violation("concurrent-bn256-differs:"+mode+":"+op.kind, map[string]any{"goroutine": g, "k": op.k.String(), "got": mon.Hex(op.got), "want": mon.Hex(op.want), "goroutines": nG})
					}
				}
			}
			// shared arguments untouched
			if !bytes.Equal(sA.Marshal(), encA) || !bytes.Equal(sB.Marshal(), encB) || !bytes.Equal(s2.Marshal(), enc2) ||
				!bytes.Equal(sGT.Marshal(), encGT) || sK.Cmp(kCopy) != 0 {
				m.Violation("concurrent-bn256-modifies-shared-argument:"+mode, nil)
			}
			if i < 1 {
				m.Sample(map[string]any{"stream": stream, "mode": mode, "goroutines": nG, "ops_first": gs[0].ops[0].kind})
			}
		})
	}
	run("conc-pN", 0)
	run("conc-p1", 1)
	m.Gate("concurrent_ops_compared", m.N(150, 2500), "results of operations run from several goroutines compared with precomputed values")
	m.Gate("concurrent_cases_with_overlap", m.N(12, 200), "cases in which at least two operations were observed in flight together")
}

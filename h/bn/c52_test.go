package bn

import (
	"bytes"
	"fmt"
	"math/big"
	"math/rand/v2"
	"testing"

	"golang.org/x/crypto/bn256"
	"verif/mon"
	"verif/ref/bnref"
)

// C52: bn256 group laws, bilinearity/non-degeneracy, Marshal/Unmarshal
// identity, and canonical-only acceptance of G1/G2 encodings.

var (
	big0, big1 = big.NewInt(0), big.NewInt(1)
)

func scalar(r *rand.Rand) (*big.Int, string) {
	n := bnref.N
	switch r.IntN(14) {
	case 0:
		return big.NewInt(0), "0"
	case 1:
		return big.NewInt(1), "1"
	case 2:
		return big.NewInt(2), "2"
	case 3:
		return new(big.Int).Sub(n, big1), "n-1"
	case 4:
		return new(big.Int).Set(n), "n"
	case 5:
		return new(big.Int).Add(n, big1), "n+1"
	case 6:
		return new(big.Int).Sub(new(big.Int).Lsh(big1, 256), big1), "2^256-1"
	case 7:
		return big.NewInt(-1), "-1"
	case 8:
		return new(big.Int).Neg(n), "-n"
	case 9:
		k := new(big.Int).SetBytes(mon.Bytes(r, 1+r.IntN(32)))
		return k.Neg(k), "neg-random"
	case 10:
		return big.NewInt(int64(r.IntN(1000))), "small"
	case 11:
		return new(big.Int).SetBytes(mon.Bytes(r, 40)), "320-bit"
	default:
		return new(big.Int).SetBytes(mon.Bytes(r, 32)), "random"
	}
}

func posScalar(r *rand.Rand) *big.Int {
	k := new(big.Int).SetBytes(mon.Bytes(r, 32))
	return k.Mod(k, bnref.N)
}

func g1FromRef(t testing.TB, p bnref.P1) *bn256.G1 {
	g, ok := new(bn256.G1).Unmarshal(bnref.Enc1(p))
	if !ok {
		return nil
	}
	return g
}

func TestC52(t *testing.T) {
	m := mon.New(t, "C52")
	defer m.Done()
	m.Rule("streams: g1/g2 (scalar mult, add, neg vs affine math/big reference over boundary scalars {0,1,2,n-1,n,n+1,2^256-1,-1,-n,neg-random,320-bit,random}), gt (bilinearity e([a]P,[b]Q)=e(P,Q)^(ab), e(g1,g2)!=1, e^n=1, e(inf,Q)=1, marshal round trip), enc1/enc2 (canonical-encoding monitor: valid point with coordinate+p that fits in 32 bytes, off-curve neighbours, wrong lengths, random bytes; accepted => on curve per reference AND Marshal(result)==input). distinct key = stream + scalar classes / encoding class; non-trivial = reached an oracle comparison")
	m.Assume("reference: h/ref/bnref (p,n derived from u=1868033^3; affine arithmetic in math/big; generator of G2 taken from the implementation's ScalarBaseMult(1) and validated by the reference: on twist, order n)")
	m.Assume("pairing values are judged only algebraically (bilinear, non-degenerate, order n), not against an independent optimal-ate implementation")
	m.Assume("G1.Add/G2.Add are documented as incomplete for a == b; that case is not judged")

	// G2 generator as produced by the implementation, validated by the reference.
	g2enc := new(bn256.G2).ScalarBaseMult(big1).Marshal()
	gx, gy := bnref.Dec2(g2enc)
	if !bnref.OnCurve2(gx, gy) {
		m.Violation("g2-generator-off-twist", map[string]any{"enc": mon.FullHex(g2enc)})
		return
	}
	G2 := bnref.P2{X: gx, Y: gy}
	if m.Batch() == 0 {
		if !bnref.MulRaw2(G2, bnref.N).Inf {
			m.Violation("g2-generator-order-not-n", map[string]any{"enc": mon.FullHex(g2enc)})
		}
		m.Eval()
	}
	G1 := bnref.G1Gen()
	if mon.RaceBuild {
		// race variant: only the shared-value concurrency streams (c52_conc_test.go)
		concStreams(m, G1, G2)
		return
	}
	defer concStreams(m, G1, G2)

	// ---- G1 group laws vs reference ----
	m.Cases("g1", m.N(600, 20000), func(i int64, r *rand.Rand) {
		a, ca := scalar(r)
		b, cb := scalar(r)
		wit := map[string]any{"a": a.String(), "b": b.String()}
		if i < 2 {
			m.Sample(map[string]any{"stream": "g1", "a": a.String(), "b": b.String()})
		}
		neg := a.Sign() < 0 || b.Sign() < 0
		cls := "g1 a:" + ca + " b:" + cb
		P := new(bn256.G1).ScalarBaseMult(a)
		refP := bnref.Mul1(G1, a)
		m.Eval()
		m.Distinct(cls)
		kp := "g1-scalarbasemult-wrong"
		if neg {
			kp = "g1-negative-scalar-wrong"
		}
		if !bytes.Equal(P.Marshal(), bnref.Enc1(refP)) {
			wit["got"], wit["want"] = mon.Hex(P.Marshal()), mon.Hex(bnref.Enc1(refP))
			m.Violation(kp, wit)
			return
		}
		// ScalarMult of a reference-made point
		base := g1FromRef(t, bnref.Mul1(G1, posScalar(r)))
		if base == nil {
			m.Violation("g1-unmarshal-rejects-valid", wit)
			return
		}
		bx, by := new(big.Int).SetBytes(base.Marshal()[:32]), new(big.Int).SetBytes(base.Marshal()[32:])
		refBase := bnref.P1{X: bx, Y: by, Inf: bx.Sign() == 0 && by.Sign() == 0}
		Q := new(bn256.G1).ScalarMult(base, b)
		m.Eval()
		if !bytes.Equal(Q.Marshal(), bnref.Enc1(bnref.Mul1(refBase, b))) {
			wit["base"] = mon.Hex(base.Marshal())
			if b.Sign() < 0 {
				m.Violation("g1-negative-scalar-wrong", wit)
			} else {
				m.Violation("g1-scalarmult-wrong", wit)
			}
			return
		}
		// Add (a != b documented), Neg
		refQ := bnref.Mul1(refBase, b)
		if !bytes.Equal(bnref.Enc1(refP), bnref.Enc1(refQ)) {
			S := new(bn256.G1).Add(P, Q)
			m.Eval()
			if refP.Inf || refQ.Inf {
				m.Count("g1_add_with_infinity", 1)
			}
			if bytes.Equal(bnref.Enc1(refP), bnref.Enc1(bnref.Neg1(refQ))) {
				m.Count("g1_add_inverse", 1)
			}
			if !bytes.Equal(S.Marshal(), bnref.Enc1(bnref.Add1(refP, refQ))) {
				m.Violation("g1-add-wrong", wit)
			}
		}
		Ng := new(bn256.G1).Neg(P)
		m.Eval()
		if !bytes.Equal(Ng.Marshal(), bnref.Enc1(bnref.Neg1(refP))) {
			m.Violation("g1-neg-wrong", wit)
		}
		// P + (-P) = infinity
		if !refP.Inf {
			Z := new(bn256.G1).Add(P, Ng)
			if !bytes.Equal(Z.Marshal(), make([]byte, 64)) {
				// for points of order 2 P == -P (none exist on this curve: odd order)
				m.Violation("g1-add-inverse-not-infinity", wit)
			}
			m.Count("g1_add_inverse", 1)
		}
		// receiver aliases an argument (e.ScalarMult(e,k), e.Add(e,q), e.Add(q,e), e.Neg(e)); arguments unchanged
		{
			baseEnc := append([]byte(nil), base.Marshal()...)
			bCopy := new(big.Int).Set(b)
			X, _ := new(bn256.G1).Unmarshal(baseEnc)
			X.ScalarMult(X, b)
			m.Eval()
			m.Count("aliased_receiver_cases", 1)
			if !bytes.Equal(X.Marshal(), bnref.Enc1(refQ)) {
				m.Violation("g1-scalarmult-aliased-receiver-wrong", wit)
			}
			if b.Cmp(bCopy) != 0 || !bytes.Equal(base.Marshal(), baseEnc) {
				m.Violation("g1-scalarmult-modifies-argument", wit)
			}
			if !bytes.Equal(bnref.Enc1(refBase), bnref.Enc1(refP)) {
				pEnc := append([]byte(nil), P.Marshal()...)
				Y, _ := new(bn256.G1).Unmarshal(baseEnc)
				Y.Add(Y, P)
				Z, _ := new(bn256.G1).Unmarshal(baseEnc)
				Z.Add(P, Z)
				want := bnref.Enc1(bnref.Add1(refBase, refP))
				m.Count("aliased_receiver_cases", 2)
				if !bytes.Equal(Y.Marshal(), want) || !bytes.Equal(Z.Marshal(), want) {
					m.Violation("g1-add-aliased-receiver-wrong", wit)
				}
				if !bytes.Equal(P.Marshal(), pEnc) {
					m.Violation("g1-add-modifies-argument", wit)
				}
			}
			W, _ := new(bn256.G1).Unmarshal(baseEnc)
			W.Neg(W)
			m.Count("aliased_receiver_cases", 1)
			if !bytes.Equal(W.Marshal(), bnref.Enc1(bnref.Neg1(refBase))) {
				m.Violation("g1-neg-aliased-receiver-wrong", wit)
			}
		}
		// round trip
		U, ok := new(bn256.G1).Unmarshal(P.Marshal())
		if !ok || !bytes.Equal(U.Marshal(), P.Marshal()) {
			m.Violation("g1-marshal-roundtrip", wit)
		}
		if neg {
			m.Count("negative_scalar_cases", 1)
		}
	})

	// ---- G2 group laws vs reference ----
	m.Cases("g2", m.N(150, 5000), func(i int64, r *rand.Rand) {
		a, ca := scalar(r)
		b, cb := scalar(r)
		wit := map[string]any{"a": a.String(), "b": b.String()}
		neg := a.Sign() < 0 || b.Sign() < 0
		cls := "g2 a:" + ca + " b:" + cb
		P := new(bn256.G2).ScalarBaseMult(a)
		refP := bnref.Mul2(G2, a)
		m.Eval()
		m.Distinct(cls)
		if !bytes.Equal(P.Marshal(), bnref.Enc2(refP)) {
			wit["got"], wit["want"] = mon.Hex(P.Marshal()), mon.Hex(bnref.Enc2(refP))
			if neg {
				m.Violation("g2-negative-scalar-wrong", wit)
			} else {
				m.Violation("g2-scalarbasemult-wrong", wit)
			}
			return
		}
		refBase := bnref.Mul2(G2, posScalar(r))
		base, ok := new(bn256.G2).Unmarshal(bnref.Enc2(refBase))
		if !ok {
			m.Violation("g2-unmarshal-rejects-valid", wit)
			return
		}
		Q := new(bn256.G2).ScalarMult(base, b)
		refQ := bnref.Mul2(refBase, b)
		m.Eval()
		if !bytes.Equal(Q.Marshal(), bnref.Enc2(refQ)) {
			if b.Sign() < 0 {
				m.Violation("g2-negative-scalar-wrong", wit)
			} else {
				m.Violation("g2-scalarmult-wrong", wit)
			}
			return
		}
		if !bytes.Equal(bnref.Enc2(refP), bnref.Enc2(refQ)) {
			S := new(bn256.G2).Add(P, Q)
			m.Eval()
			if !bytes.Equal(S.Marshal(), bnref.Enc2(bnref.Add2(refP, refQ))) {
				m.Violation("g2-add-wrong", wit)
			}
		}
		{
			baseEnc := append([]byte(nil), base.Marshal()...)
			X, _ := new(bn256.G2).Unmarshal(baseEnc)
			X.ScalarMult(X, b)
			m.Eval()
			m.Count("aliased_receiver_cases", 1)
			if !bytes.Equal(X.Marshal(), bnref.Enc2(refQ)) {
				m.Violation("g2-scalarmult-aliased-receiver-wrong", wit)
			}
			if !bytes.Equal(base.Marshal(), baseEnc) {
				m.Violation("g2-scalarmult-modifies-argument", wit)
			}
			if !bytes.Equal(bnref.Enc2(refBase), bnref.Enc2(refP)) {
				Y, _ := new(bn256.G2).Unmarshal(baseEnc)
				Y.Add(Y, P)
				Z, _ := new(bn256.G2).Unmarshal(baseEnc)
				Z.Add(P, Z)
				want := bnref.Enc2(bnref.Add2(refBase, refP))
				m.Count("aliased_receiver_cases", 2)
				if !bytes.Equal(Y.Marshal(), want) || !bytes.Equal(Z.Marshal(), want) {
					m.Violation("g2-add-aliased-receiver-wrong", wit)
				}
			}
		}
		U, ok := new(bn256.G2).Unmarshal(P.Marshal())
		if !ok || !bytes.Equal(U.Marshal(), P.Marshal()) {
			m.Violation("g2-marshal-roundtrip", wit)
		}
		if neg {
			m.Count("negative_scalar_cases", 1)
		}
	})

	// ---- pairing ----
	gtOne := new(bn256.GT).ScalarMult(bn256.Pair(new(bn256.G1).ScalarBaseMult(big1), new(bn256.G2).ScalarBaseMult(big1)), big0).Marshal()
	e11 := bn256.Pair(new(bn256.G1).ScalarBaseMult(big1), new(bn256.G2).ScalarBaseMult(big1))
	if m.Batch() == 0 {
		m.Eval()
		if bytes.Equal(e11.Marshal(), gtOne) {
			m.Violation("pairing-degenerate", map[string]any{"e(g1,g2)": mon.Hex(e11.Marshal())})
		}
		if !bytes.Equal(new(bn256.GT).ScalarMult(e11, bnref.N).Marshal(), gtOne) {
			m.Violation("pairing-order-not-n", nil)
		}
		inf1 := new(bn256.G1).ScalarBaseMult(big0)
		inf2 := new(bn256.G2).ScalarBaseMult(big0)
		if !bytes.Equal(bn256.Pair(inf1, new(bn256.G2).ScalarBaseMult(big1)).Marshal(), gtOne) ||
			!bytes.Equal(bn256.Pair(new(bn256.G1).ScalarBaseMult(big1), inf2).Marshal(), gtOne) {
			m.Violation("pairing-with-infinity-not-one", nil)
		}
		m.Count("pairing_infinity_cases", 2)
	}
	m.Cases("gt", m.N(120, 4000), func(i int64, r *rand.Rand) {
		a, ca := scalar(r)
		b, cb := scalar(r)
		if a.Sign() < 0 {
			a.Mod(a, bnref.N) // negative scalars are judged in g1/g2/gtneg; keep this stream on the pairing itself
			ca = "negmod"
		}
		if b.Sign() < 0 {
			b.Mod(b, bnref.N)
			cb = "negmod"
		}
		wit := map[string]any{"a": a.String(), "b": b.String()}
		if i < 2 {
			m.Sample(map[string]any{"stream": "gt", "a": a.String(), "b": b.String()})
		}
		ab := new(big.Int).Mul(a, b)
		ab.Mod(ab, bnref.N)
		P := new(bn256.G1).ScalarBaseMult(a)
		Q := new(bn256.G2).ScalarBaseMult(b)
		e := bn256.Pair(P, Q)
		want := new(bn256.GT).ScalarMult(e11, ab)
		m.Eval()
		m.Distinct("gt a:" + ca + " b:" + cb)
		if !bytes.Equal(e.Marshal(), want.Marshal()) {
			m.Violation("pairing-not-bilinear", wit)
			return
		}
		m.Count("bilinearity_checks", 1)
		// e([ab]g1, g2) and e(g1,[ab]g2)
		if r.IntN(3) == 0 {
			l := bn256.Pair(new(bn256.G1).ScalarBaseMult(ab), new(bn256.G2).ScalarBaseMult(big1))
			rr := bn256.Pair(new(bn256.G1).ScalarBaseMult(big1), new(bn256.G2).ScalarBaseMult(ab))
			m.EvalN(2)
			if !bytes.Equal(l.Marshal(), want.Marshal()) || !bytes.Equal(rr.Marshal(), want.Marshal()) {
				m.Violation("pairing-not-bilinear-sides", wit)
			}
		}
		// GT group: Add = multiplication of pairing values, Neg = inverse, marshal round trip
		c := posScalar(r)
		ec := new(bn256.GT).ScalarMult(e11, c)
		sum := new(bn256.GT).Add(e, ec)
		abc := new(big.Int).Add(ab, c)
		if !bytes.Equal(sum.Marshal(), new(bn256.GT).ScalarMult(e11, abc.Mod(abc, bnref.N)).Marshal()) {
			m.Violation("gt-add-wrong", wit)
		}
		ng := new(bn256.GT).Neg(e)
		if !bytes.Equal(new(bn256.GT).Add(e, ng).Marshal(), gtOne) {
			m.Violation("gt-neg-wrong", wit)
		}
		u, ok := new(bn256.GT).Unmarshal(e.Marshal())
		if !ok || !bytes.Equal(u.Marshal(), e.Marshal()) {
			m.Violation("gt-marshal-roundtrip", wit)
		}
		// receiver aliases an argument in GT
		{
			eEnc := append([]byte(nil), e.Marshal()...)
			x, _ := new(bn256.GT).Unmarshal(eEnc)
			x.ScalarMult(x, c)
			abcm := new(big.Int).Mul(ab, c)
			if !bytes.Equal(x.Marshal(), new(bn256.GT).ScalarMult(e11, abcm.Mod(abcm, bnref.N)).Marshal()) {
				m.Violation("gt-scalarmult-aliased-receiver-wrong", wit)
			}
			y, _ := new(bn256.GT).Unmarshal(eEnc)
			y.Add(y, ec)
			z, _ := new(bn256.GT).Unmarshal(eEnc)
			z.Add(ec, z)
			if !bytes.Equal(y.Marshal(), sum.Marshal()) || !bytes.Equal(z.Marshal(), sum.Marshal()) {
				m.Violation("gt-add-aliased-receiver-wrong", wit)
			}
			w, _ := new(bn256.GT).Unmarshal(eEnc)
			w.Neg(w)
			if !bytes.Equal(w.Marshal(), ng.Marshal()) {
				m.Violation("gt-neg-aliased-receiver-wrong", wit)
			}
			if !bytes.Equal(e.Marshal(), eEnc) {
				m.Violation("gt-op-modifies-argument", wit)
			}
			m.Count("aliased_receiver_cases", 4)
		}
		// negative exponent in GT: e^(-k) must be the inverse of e^k
		k := big.NewInt(int64(1 + r.IntN(1000)))
		en := new(bn256.GT).ScalarMult(e11, new(big.Int).Neg(k))
		ep := new(bn256.GT).ScalarMult(e11, k)
		m.Eval()
		m.Count("negative_scalar_cases", 1)
		if !bytes.Equal(new(bn256.GT).Add(en, ep).Marshal(), gtOne) {
			wit["k"] = k.String()
			m.Violation("gt-negative-scalar-wrong", wit)
		}
	})

	// ---- G1 encodings ----
	limit := new(big.Int).Lsh(big1, 256)
	m.Cases("enc1", m.N(3000, 200000), func(i int64, r *rand.Rand) {
		pt := bnref.Mul1(G1, posScalar(r))
		if pt.Inf {
			return
		}
		x, y := new(big.Int).Set(pt.X), new(big.Int).Set(pt.Y)
		cls := ""
		switch r.IntN(11) {
		case 10:
			cls = "special-coords"
			sp := func() *big.Int {
				switch r.IntN(7) {
				case 0:
					return big.NewInt(0)
				case 1:
					return big.NewInt(1)
				case 2:
					return big.NewInt(2)
				case 3:
					return new(big.Int).Sub(bnref.P, big1)
				case 4:
					return new(big.Int).Sub(bnref.P, big.NewInt(2))
				case 5:
					return new(big.Int).Set(bnref.P)
				}
				return new(big.Int).SetBytes(mon.Bytes(r, 32))
			}
			x, y = sp(), sp()
		case 0:
			cls = "valid"
		case 1, 2:
			cls = "x+p"
			x.Add(x, bnref.P)
		case 3, 4:
			cls = "y+p"
			y.Add(y, bnref.P)
		case 5:
			cls = "x+p,y+p"
			x.Add(x, bnref.P)
			y.Add(y, bnref.P)
		case 6:
			cls = "y+1"
			y.Add(y, big1).Mod(y, bnref.P)
		case 7:
			cls = "x+1"
			x.Add(x, big1).Mod(x, bnref.P)
		case 8:
			cls = "random"
			x.SetBytes(mon.Bytes(r, 32))
			y.SetBytes(mon.Bytes(r, 32))
		case 9:
			cls = "infinity-alias"
			switch r.IntN(4) {
			case 0:
				x.SetInt64(0)
				y.SetInt64(0)
				cls = "infinity"
			case 1:
				x.Set(bnref.P)
				y.SetInt64(0)
			case 2:
				x.SetInt64(0)
				y.Set(bnref.P)
			default:
				x.Set(bnref.P)
				y.Set(bnref.P)
			}
		}
		if x.Cmp(limit) >= 0 || y.Cmp(limit) >= 0 {
			m.Count("enc_does_not_fit_32_bytes", 1)
			return
		}
		enc := append(x.FillBytes(make([]byte, 32)), y.FillBytes(make([]byte, 32))...)
		if r.IntN(40) == 0 {
			cls = "wrong-length"
			enc = mon.Bytes(r, mon.Pick(r, []int{0, 1, 32, 63, 65, 96, 127, 128}))
		}
		g, ok := new(bn256.G1).Unmarshal(enc)
		m.Eval()
		m.Distinct("enc1 " + cls)
		m.Count("enc1:"+cls, 1)
		if i < 3 {
			m.Sample(map[string]any{"stream": "enc1", "class": cls, "enc": mon.FullHex(enc)})
		}
		wit := map[string]any{"class": cls, "enc": mon.FullHex(enc)}
		if cls == "wrong-length" {
			x, y = big.NewInt(1), big.NewInt(1) // irrelevant: length decides
		}
		isInf := len(enc) == 64 && x.Sign() == 0 && y.Sign() == 0
		valid := len(enc) == 64 && (isInf || bnref.OnCurve1(x, y))
		if ok != valid {
			if ok {
				k := "g1-unmarshal-accepts-invalid:" + cls
				if cls == "x+p" || cls == "y+p" || cls == "x+p,y+p" {
					k = "g1-unmarshal-accepts-noncanonical"
				}
				wit["remarshal"] = mon.Hex(g.Marshal())
				m.Violation(k, wit)
			} else {
				m.Violation("g1-unmarshal-rejects-valid", wit)
			}
			return
		}
		if ok && !bytes.Equal(g.Marshal(), enc) {
			wit["remarshal"] = mon.Hex(g.Marshal())
			m.Violation("g1-accepted-encoding-not-canonical", wit)
		}
	})

	// ---- G2 encodings ----
	m.Cases("enc2", m.N(600, 40000), func(i int64, r *rand.Rand) {
		pt := bnref.Mul2(G2, posScalar(r))
		if pt.Inf {
			return
		}
		c := []*big.Int{new(big.Int).Set(pt.X.Im), new(big.Int).Set(pt.X.Re), new(big.Int).Set(pt.Y.Im), new(big.Int).Set(pt.Y.Re)}
		cls := "valid"
		switch r.IntN(9) {
		case 8:
			cls = "special-coords"
			for j := range c {
				switch r.IntN(6) {
				case 0:
					c[j].SetInt64(0)
				case 1:
					c[j].SetInt64(1)
				case 2:
					c[j].Sub(bnref.P, big1)
				case 3:
					c[j].Set(bnref.P)
				}
			}
		case 0:
		case 1, 2, 3:
			j := r.IntN(4)
			cls = fmt.Sprintf("coord%d+p", j)
			c[j].Add(c[j], bnref.P)
		case 4:
			cls = "two-coords+p"
			j := r.IntN(4)
			c[j].Add(c[j], bnref.P)
			k := (j + 1 + r.IntN(3)) % 4
			c[k].Add(c[k], bnref.P)
		case 5:
			j := r.IntN(4)
			cls = "coord+1"
			c[j].Add(c[j], big1).Mod(c[j], bnref.P)
		case 6:
			cls = "random"
			for j := range c {
				c[j].SetBytes(mon.Bytes(r, 32))
			}
		case 7:
			cls = "infinity"
			for j := range c {
				c[j].SetInt64(0)
			}
			if r.IntN(2) == 0 {
				cls = "infinity-alias"
				c[r.IntN(4)].Set(bnref.P)
			}
		}
		for _, v := range c {
			if v.Cmp(limit) >= 0 {
				m.Count("enc_does_not_fit_32_bytes", 1)
				return
			}
		}
		var enc []byte
		for _, v := range c {
			enc = append(enc, v.FillBytes(make([]byte, 32))...)
		}
		if r.IntN(40) == 0 {
			cls = "wrong-length"
			enc = mon.Bytes(r, mon.Pick(r, []int{0, 1, 64, 96, 127, 129, 160, 256}))
		}
		g, ok := new(bn256.G2).Unmarshal(enc)
		m.Eval()
		m.Distinct("enc2 " + cls)
		m.Count("enc2:"+cls, 1)
		wit := map[string]any{"class": cls, "enc": mon.FullHex(enc)}
		isInf := len(enc) == 128 && c[0].Sign() == 0 && c[1].Sign() == 0 && c[2].Sign() == 0 && c[3].Sign() == 0
		x := bnref.F2{Re: c[1], Im: c[0]}
		y := bnref.F2{Re: c[3], Im: c[2]}
		valid := len(enc) == 128 && (isInf || bnref.OnCurve2(x, y))
		if ok != valid {
			if ok {
				k := "g2-unmarshal-accepts-invalid:" + cls
				if cls == "two-coords+p" || (len(cls) > 5 && cls[:5] == "coord" && cls != "coord+1") {
					k = "g2-unmarshal-accepts-noncanonical"
				}
				wit["remarshal"] = mon.Hex(g.Marshal())
				m.Violation(k, wit)
			} else {
				m.Violation("g2-unmarshal-rejects-valid", wit)
			}
			return
		}
		if ok && !bytes.Equal(g.Marshal(), enc) {
			wit["remarshal"] = mon.Hex(g.Marshal())
			m.Violation("g2-accepted-encoding-not-canonical", wit)
		}
	})

	m.Gate("bilinearity_checks", m.N(100, 3000), "pairings compared with e(g1,g2)^(ab)")
	m.Gate("negative_scalar_cases", m.N(100, 3000), "negative scalars exercised in G1/G2/GT")
	m.Gate("enc1:x+p", m.N(300, 20000), "G1 encodings with x+p that fit in 32 bytes")
	m.Gate("enc1:y+p", m.N(300, 20000), "G1 encodings with y+p that fit in 32 bytes")
	m.Gate("g1_add_inverse", m.N(300, 10000), "P + (-P) observed")
	m.Gate("aliased_receiver_cases", m.N(1500, 50000), "operations whose receiver is also an argument")
}

package kdf3

import (
	"bytes"

	"verif/mon"
)

// ---------- output-retention monitor ----------
//
// A returned slice/object belongs to the caller. The monitor keeps the last K
// results (the very slices the package returned, not copies) with the value
// they had when they were judged correct, and re-verifies all of them after
// every later call into the package — a result that aliases recycled or shared
// internal memory is correct when compared straight away and wrong later.

type retEntry struct {
	label string
	got   []byte      // the slice the package returned / filled (not a copy)
	want  []byte      // its value when it was judged correct
	check func() bool // alternative: arbitrary re-verification
	wit   map[string]any
}

type retMon struct {
	m    *mon.M
	k    int
	ring []retEntry
}

func newRetMon(m *mon.M, k int) *retMon { return &retMon{m: m, k: k} }

func (r *retMon) push(e retEntry) {
	if len(r.ring) == r.k {
		copy(r.ring, r.ring[1:])
		r.ring = r.ring[:r.k-1]
	}
	r.ring = append(r.ring, e)
	r.m.Count("retained_outputs", 1)
}

// add retains a result that has just been judged correct.
func (r *retMon) add(label string, got []byte, wit map[string]any) {
	r.push(retEntry{label: label, got: got, want: append([]byte{}, got...), wit: wit})
}

func (r *retMon) addCheck(label string, check func() bool, wit map[string]any) {
	r.push(retEntry{label: label, check: check, wit: wit})
}

// verify re-verifies every retained result; call it after every later call
// into the package and at the end of the case.
func (r *retMon) verify(after string) {
	for i := range r.ring {
		e := &r.ring[i]
		ok := true
		if e.check != nil {
			ok = e.check()
		} else {
			ok = bytes.Equal(e.got, e.want)
		}
		r.m.Count("retention_reverifications", 1)
		if !ok {
			w := map[string]any{"retained": e.label, "changed_after": after, "age_in_calls": len(r.ring) - i}
			if e.check == nil {
				w["value_when_returned"], w["value_now"] = mon.Hex(e.want), mon.Hex(e.got)
			}
			for k, v := range e.wit {
				w[k] = v
			}
			r.m.Violation("returned-output-changed-after-later-call:"+e.label, w)
			// re-baseline so that one defect gives one witness, not one per later call
			if e.check == nil {
				e.want = append(e.want[:0], e.got...)
			}
		}
	}
}

// ---------- input-immutability monitor ----------

const guardSpare = 24
const guardSentinel = 0xa5

// guarded is a caller-owned input (or output buffer) with spare capacity
// pre-filled with a sentinel: the package may neither modify the input octets
// nor write into the capacity behind them.
type guarded struct {
	full []byte
	snap []byte
	n    int
}

func guard(b []byte) *guarded {
	g := &guarded{n: len(b), full: make([]byte, len(b)+guardSpare)}
	copy(g.full, b)
	for i := len(b); i < len(g.full); i++ {
		g.full[i] = guardSentinel
	}
	g.snap = append([]byte{}, g.full...)
	return g
}

// b is the slice handed to the package: len n, cap n+spare.
func (g *guarded) b() []byte { return g.full[:g.n] }

// intact: input octets and spare capacity unchanged.
func (g *guarded) intact() bool { return bytes.Equal(g.full, g.snap) }

// spareIntact: only the capacity behind the slice (for output buffers).
func (g *guarded) spareIntact() bool { return bytes.Equal(g.full[g.n:], g.snap[g.n:]) }

// checkInputs judges a set of guarded inputs after a call.
func checkInputs(m *mon.M, where string, wit map[string]any, in map[string]*guarded) {
	for name, g := range in {
		m.Count("input_immutability_checks", 1)
		if !g.intact() {
			w := map[string]any{"input": name, "before": mon.Hex(g.snap), "after": mon.Hex(g.full)}
			for k, v := range wit {
				w[k] = v
			}
			m.Violation("input-modified:"+where+":"+name, w)
		}
	}
}

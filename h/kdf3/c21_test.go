package kdf3

import (
	"bytes"
	"crypto"
	"crypto/ecdsa"
	"crypto/rsa"
	"crypto/x509"
	"encoding/pem"
	"errors"
	"fmt"
	"math/rand/v2"
	"os"
	"path/filepath"
	"strings"
	"sync"
	"testing"

	"golang.org/x/crypto/pkcs12"
	"verif/ext"
	"verif/mon"
	kdf "verif/ref/pkcs12kdf"
)

type p12Key struct {
	name    string
	pkcs8   []byte
	certDER []byte
	priv    crypto.PrivateKey
	keyFile string // OpenSSL pool only
	crtFile string
}

func loadKey(name, keyPEM, certPEM string) (*p12Key, error) {
	kb, _ := pem.Decode([]byte(keyPEM))
	cb, _ := pem.Decode([]byte(certPEM))
	if kb == nil || cb == nil {
		return nil, errors.New("bad PEM")
	}
	priv, err := x509.ParsePKCS8PrivateKey(kb.Bytes)
	if err != nil {
		return nil, err
	}
	return &p12Key{name: name, pkcs8: kb.Bytes, certDER: cb.Bytes, priv: priv}, nil
}

type equaler interface {
	Equal(x crypto.PrivateKey) bool
}

// ---------- passwords ----------

var c21Classes = []string{"ascii", "latin1", "cjk", "bmp-edge", "empty", "ascii40", "mixed"}

func c21Runes(r *rand.Rand, class string, crafted bool) []rune {
	n := 1 + r.IntN(40)
	pick := func(lo, hi int) rune { return rune(lo + r.IntN(hi-lo+1)) }
	var out []rune
	switch class {
	case "empty":
		return []rune{}
	case "ascii40":
		n = 40
		fallthrough
	case "ascii":
		for i := 0; i < n; i++ {
			out = append(out, pick(0x21, 0x7e))
		}
	case "latin1":
		for i := 0; i < n; i++ {
			if r.IntN(3) == 0 {
				out = append(out, pick(0x21, 0x7e))
			} else {
				out = append(out, pick(0xa1, 0xff))
			}
		}
	case "cjk":
		for i := 0; i < n; i++ {
			switch r.IntN(3) {
			case 0:
				out = append(out, pick(0x3041, 0x3096))
			case 1:
				out = append(out, pick(0xac00, 0xd7a3))
			default:
				out = append(out, pick(0x4e00, 0x9fff))
			}
		}
	case "bmp-edge":
		set := []rune{0x7e, 0x80, 0xff, 0x100, 0x17f, 0x7ff, 0x800, 0xfff, 0x1000, 0xd7ff, 0xe000, 0xfffd}
		if crafted {
			set = append(set, 0x0000, 0x0001, 0x000a, 0x007f, 0xfeff, 0xfffe, 0xffff)
		}
		for i := 0; i < n; i++ {
			out = append(out, mon.Pick(r, set))
		}
	case "mixed":
		for i := 0; i < n; i++ {
			switch r.IntN(4) {
			case 0:
				out = append(out, pick(0x21, 0x7e))
			case 1:
				out = append(out, pick(0xa1, 0xff))
			case 2:
				out = append(out, pick(0x4e00, 0x9fff))
			default:
				out = append(out, pick(0x0400, 0x04ff))
			}
		}
	}
	return out
}

// kdfSamePassword reports whether two passwords are indistinguishable to the
// RFC 7292 B.2 KDF: it sees only P = the formatted password repeated to a
// multiple of 64 octets, so e.g. "" (0000) and "\x00" (0000 0000) coincide.
// Such a pair is not a "wrong password".
func kdfSamePassword(a, b []rune) bool {
	ext := func(p []rune) []byte {
		o := bmpOf(p)
		n := 64 * ((len(o) + 63) / 64)
		out := make([]byte, n)
		for i := range out {
			out[i] = o[i%len(o)]
		}
		return out
	}
	return bytes.Equal(ext(a), ext(b))
}

// c21Wrong returns a BMP-encodable password that differs from pw (also after
// the KDF's cyclic extension).
func c21Wrong(r *rand.Rand, pw []rune) (string, string) {
	w, how := c21WrongRaw(r, pw)
	if kdfSamePassword([]rune(w), pw) {
		m := append(append([]rune{}, pw...), 'x')
		return string(m), "append"
	}
	return w, how
}

func c21WrongRaw(r *rand.Rand, pw []rune) (string, string) {
	if len(pw) == 0 {
		return mon.Pick(r, []string{"a", " ", "0", "é"}), "nonempty-for-empty"
	}
	switch r.IntN(5) {
	case 0:
		return string(pw) + "x", "append"
	case 1:
		return string(pw[:len(pw)-1]), "drop-last"
	case 2:
		return "", "empty-for-nonempty"
	case 3:
		q := append([]rune{}, pw...)
		k := r.IntN(len(q))
		if q[k] == 0xffff || q[k] == 0xd7ff {
			q[k]--
		} else {
			q[k]++
		}
		return string(q), "codepoint+1"
	default:
		q := append([]rune{}, pw...)
		k := r.IntN(len(q))
		q[k] ^= 0x100 // same low octet, other high octet: catches encodings that drop the high byte
		if q[k] >= 0xd800 && q[k] <= 0xdfff {
			q[k] = 0x41
		}
		if string(q) == string(pw) {
			return string(pw) + "y", "append"
		}
		return string(q), "high-octet"
	}
}

func errClass(err error) string {
	var ni pkcs12.NotImplementedError
	switch {
	case err == nil:
		return "ok"
	case errors.Is(err, pkcs12.ErrIncorrectPassword):
		return "ErrIncorrectPassword"
	case errors.Is(err, pkcs12.ErrDecryption) || strings.Contains(err.Error(), "incorrect padding"):
		return "ErrDecryption"
	case errors.As(err, &ni):
		return "NotImplemented"
	}
	return "other-error"
}

// c21Judge: Decode and ToPEM must return exactly key k and its certificate.
func c21Judge(m *mon.M, pfx []byte, password string, k *p12Key, tag string, wit map[string]any) bool {
	wit["pfx"] = mon.FullHex(pfx)
	wit["password_utf8"] = mon.FullHex([]byte(password))
	gp := guard(pfx)
	priv, cert, err := pkcs12.Decode(gp.b(), password)
	m.Eval()
	checkInputs(m, "Decode", map[string]any{"tag": tag}, map[string]*guarded{"pfx": gp})
	c21Ret.verify("Decode")
	if err != nil {
		wit["err"] = err.Error()
		m.Violation("decode-failed:"+tag+":"+errClass(err), wit)
		return false
	}
	eq, ok := priv.(equaler)
	if !ok || !eq.Equal(k.priv) {
		m.Violation("decode-wrong-key:"+tag, wit)
		return false
	}
	if cert == nil || !bytes.Equal(cert.Raw, k.certDER) {
		m.Violation("decode-wrong-certificate:"+tag, wit)
		return false
	}
	gp2 := guard(pfx)
	blocks, err := pkcs12.ToPEM(gp2.b(), password)
	m.Eval()
	checkInputs(m, "ToPEM", map[string]any{"tag": tag}, map[string]*guarded{"pfx": gp2})
	c21Ret.verify("ToPEM")
	if err != nil {
		wit["err"] = err.Error()
		m.Violation("topem-failed:"+tag+":"+errClass(err), wit)
		return false
	}
	var nCert, nKey int
	for _, b := range blocks {
		switch b.Type {
		case "CERTIFICATE":
			nCert++
			if !bytes.Equal(b.Bytes, k.certDER) {
				m.Violation("topem-wrong-certificate:"+tag, wit)
				return false
			}
		case "PRIVATE KEY":
			nKey++
			var p crypto.PrivateKey
			var perr error
			switch k.priv.(type) {
			case *rsa.PrivateKey:
				p, perr = x509.ParsePKCS1PrivateKey(b.Bytes) // documented: PKCS#1 for RSA
			case *ecdsa.PrivateKey:
				p, perr = x509.ParseECPrivateKey(b.Bytes) // documented: SEC 1 for ECDSA
			}
			if perr != nil {
				wit["err"] = perr.Error()
				m.Violation("topem-key-block-not-in-documented-format:"+tag, wit)
				return false
			}
			if e, ok := p.(equaler); !ok || !e.Equal(k.priv) {
				m.Violation("topem-wrong-key:"+tag, wit)
				return false
			}
		}
	}
	if nCert != 1 || nKey != 1 || len(blocks) != 2 {
		wit["blocks"] = len(blocks)
		m.Violation("topem-wrong-block-set:"+tag, wit)
		return false
	}
	// the results now belong to the caller: keep them and watch them across later calls
	rw := map[string]any{"tag": tag, "key": k.name}
	c21Ret.add("Decode.certificate.Raw", cert.Raw, rw)
	c21Ret.addCheck("Decode.privateKey", func() bool { return eq.Equal(k.priv) }, rw)
	for _, b := range blocks {
		c21Ret.add("ToPEM.block."+b.Type, b.Bytes, rw)
	}
	return true
}

// c21Ret retains the last results (certificate bytes, key, PEM block bytes).
var c21Ret *retMon

// c21JudgeWrong: a wrong password yields ErrIncorrectPassword from both entry points.
func c21JudgeWrong(m *mon.M, pfx []byte, wrong, how, tag string, wit map[string]any) {
	gp := guard(pfx)
	_, _, err := pkcs12.Decode(gp.b(), wrong)
	m.Eval()
	checkInputs(m, "Decode-wrong-password", nil, map[string]*guarded{"pfx": gp})
	c21Ret.verify("Decode with a wrong password")
	m.Count("wrong_password_cases", 1)
	m.Count("wrong_password:"+how, 1)
	if !errors.Is(err, pkcs12.ErrIncorrectPassword) {
		w := map[string]any{"wrong_password_utf8": mon.FullHex([]byte(wrong)), "how": how, "err": fmt.Sprint(err)}
		for k, v := range wit {
			w[k] = v
		}
		w["pfx"] = mon.FullHex(pfx)
		m.Violation("wrong-password-not-ErrIncorrectPassword:decode:"+errClass(err), w)
		return
	}
	_, err = pkcs12.ToPEM(pfx, wrong)
	m.Eval()
	if !errors.Is(err, pkcs12.ErrIncorrectPassword) {
		w := map[string]any{"wrong_password_utf8": mon.FullHex([]byte(wrong)), "how": how, "err": fmt.Sprint(err), "pfx": mon.FullHex(pfx)}
		m.Violation("wrong-password-not-ErrIncorrectPassword:topem:"+errClass(err), w)
	}
}

// ---------- OpenSSL key pool (per process) ----------

type osslPool struct {
	once sync.Once
	dir  string
	keys []*p12Key
	err  error
}

func (p *osslPool) init() {
	p.once.Do(func() {
		p.dir, p.err = ext.TempDir("c21-")
		if p.err != nil {
			return
		}
		gen := func(name string, cmds ...[]string) {
			if p.err != nil {
				return
			}
			for _, c := range cmds {
				if _, se, err := ext.Run(nil, nil, "openssl", c...); err != nil {
					p.err = fmt.Errorf("openssl %v: %v %s", c, err, se)
					return
				}
			}
			kp, _ := os.ReadFile(filepath.Join(p.dir, name+".key"))
			cp, _ := os.ReadFile(filepath.Join(p.dir, name+".crt"))
			k, err := loadKey(name, string(kp), string(cp))
			if err != nil {
				p.err = err
				return
			}
			k.keyFile, k.crtFile = filepath.Join(p.dir, name+".key"), filepath.Join(p.dir, name+".crt")
			p.keys = append(p.keys, k)
		}
		f := func(s string) string { return filepath.Join(p.dir, s) }
		gen("rsa", []string{"req", "-x509", "-newkey", "rsa:2048", "-nodes", "-keyout", f("rsa.key"), "-out", f("rsa.crt"), "-subj", "/CN=c21 rsa", "-days", "30"})
		gen("ec",
			[]string{"ecparam", "-genkey", "-name", "prime256v1", "-noout", "-out", f("ec.sec1")},
			[]string{"pkcs8", "-topk8", "-nocrypt", "-in", f("ec.sec1"), "-out", f("ec.key")},
			[]string{"req", "-x509", "-new", "-key", f("ec.key"), "-out", f("ec.crt"), "-subj", "/CN=c21 ec/O=é密", "-utf8", "-days", "30"})
	})
}

func bmpOf(pw []rune) []byte {
	b, err := kdf.BMP(pw)
	if err != nil {
		panic(err)
	}
	return b
}

// C21: pkcs12.Decode / ToPEM interoperate with OpenSSL legacy PFX files.
func TestC21(t *testing.T) {
	m := mon.New(t, "C21")
	defer m.Done()
	m.Rule("streams: (openssl) the OpenSSL 3.0 CLI generates RSA-2048/P-256 keys with certificates and exports legacy PFX files (PBE-SHA1-RC2-40 / PBE-SHA1-3DES in both roles, HMAC-SHA1, -iter {1,2,2048,4096, random 1..4096}, -nomaciter, -name) under passwords of 0..40 characters from ASCII, Latin-1, CJK, BMP edge code points and mixtures (via -passout file:); each file is first opened with the harness' own reference stack (RFC 7292 App. B KDF + 3DES/RC2 + HMAC) — disagreement there is an oracle conflict — then pkcs12.Decode and ToPEM must return exactly that key (Equal) and certificate (DER), a derived wrong password must give ErrIncorrectPassword from both, and a non-BMP password must give an error; (crafted) PFX files assembled by the harness (own DER writer, reference KDF) sweep what the CLI cannot: salt lengths 0..200 around the 64-octet block, password lengths around the block, iterations 1..4096, both empty-password conventions (BMP 0x0000 and empty octet string), NUL and noncharacter code points, omitted DEFAULT mac iterations, all four PBE algorithm assignments; a sample is read back by OpenSSL; (shortblocks) a search with the reference KDF's step-6.C observer over 4M+ (password, salt, iterations 1..3) triples finds 3DES key derivations whose I-blocks come out of I_j+B+1 short by one / by two or more octets, several short blocks in one derivation (equal, later one shorter, later one longer) and carry-out with a leading zero octet — classes of probability 2^-8…2^-16 that bignum implementations must pad or truncate — and each witness is presented in a crafted 3DES/3DES file that must decode to key and certificate; (padding) crafted files whose PKCS#7 padding is wrong (0, > 8, inconsistent octets) on either bag must yield an error; (mutations) fault enumeration over three crafted base files at four layers — L0 raw file octets, L1 AuthenticatedSafe octets with the MAC recomputed, L2c certificate SafeContents plaintext re-encrypted and re-MACed, L2k PKCS#8 plaintext likewise — each octet × {xor 1, xor 0x80, set 0, set 0xff} plus every truncation, plus random 2-4 octet mutations, plus sampled L0 mutations of an OpenSSL-made file: Decode and ToPEM must return (value or error), never panic; every strict prefix of a file must be an error. distinct key = (stream, key type, password class, length classes, algorithms) resp. (base, layer, op, outcome class); non-trivial = the file was opened by the reference stack or built by it, and the result was judged. (concurrent) 6 goroutines released from a barrier call Decode, ToPEM and Decode-with-a-wrong-password — three on the very same PFX slice and password, three on their own crafted files; results judged after the join; one case in four under GOMAXPROCS(1); the same stream alone is run in a -race build. Cross-cutting monitors: the last 12 results (certificate Raw bytes, private key, PEM block bytes) are re-verified after every later call; the PFX octets carry sentinel spare capacity and must be unchanged after every call")
	m.Assume("ref/pkcs12kdf is validated against OpenSSL's PKCS12KDF provider in its unit test and, in every openssl-stream case here, by opening OpenSSL's file; 3DES comes from the Go standard library (a primitive pkcs12 uses too), RC2 from nettle, HMAC-SHA1 and X.509/PKCS#8 parsing from the Go standard library; OpenSSL 3.0 with the legacy provider is the interoperability witness")
	m.Assume("success on a mutated file is accepted (the statement demands error-not-panic only); trailing garbage after the PFX and unknown attributes are observed, not judged")

	rsaFix, err1 := loadKey("rsa", fixRSAKeyPEM, fixRSACertPEM)
	ecFix, err2 := loadKey("ec", fixECKeyPEM, fixECCertPEM)
	if err1 != nil || err2 != nil {
		m.Inconclusive(fmt.Sprintf("fixtures do not load: %v %v", err1, err2))
		return
	}

	c21Ret = newRetMon(m, 12)
	if mon.RaceBuild {
		// race-detector variant: only the shared-value concurrency stream
		c21Concurrent(m, rsaFix, ecFix)
		concGates(m, c21ConcN(m))
		return
	}
	c21Concurrent(m, rsaFix, ecFix)
	concGates(m, c21ConcN(m))
	c21OpenSSL(m)
	c21Crafted(m, rsaFix, ecFix)
	c21Padding(m, rsaFix, ecFix)
	c21ShortBlocks(m, ecFix)
	c21Mutations(m, rsaFix, ecFix)

	c21Ret.verify("end of run")
	m.Gate("retention_reverifications", m.N(100000, 5000000), "earlier results (certificate bytes, key, PEM block bytes) re-verified after later calls (ring of 12)")
	m.Gate("input_immutability_checks", m.N(20000, 900000), "PFX octets (with sentinel-filled spare capacity) unchanged after the call")
	m.Gate("openssl_files_decoded", m.N(50, 500), "OpenSSL-made PFX files decoded to exactly key and certificate")
	m.Gate("openssl:rsa", m.N(15, 150), "RSA-2048 files")
	m.Gate("openssl:ec", m.N(15, 150), "P-256 files")
	for _, c := range c21Classes {
		m.Gate("openssl_class:"+c, m.N(5, 50), "OpenSSL files with password class "+c)
	}
	m.Gate("openssl_nonbmp_cases", m.N(2, 20), "non-BMP password must be an error")
	m.Gate("crafted_files_decoded", m.N(1400, 28000), "harness-crafted PFX files decoded")
	m.Gate("crafted_empty_password:bmp-null", m.N(40, 800), "empty password MACed/encrypted with BMP 0x0000")
	m.Gate("crafted_empty_password:empty-array", m.N(40, 800), "empty password MACed/encrypted with the empty octet string (retry path)")
	m.Gate("crafted_salt_block_edge", m.N(100, 2000), "salt length 63/64/65/127/128/129 or 0")
	m.Gate("crafted_read_by_openssl", m.N(6, 60), "crafted files confirmed by OpenSSL")
	m.Gate("wrong_password_cases", m.N(1400, 28000), "wrong passwords judged")
	for _, c := range c21BlockClasses {
		if c == "one-short:2+" || c == "several-short:later-longer-number" {
			continue // 2^-16 and rarer for the generator's shapes: counted and judged when found, not demanded
		}
		m.Gate("shortblocks:"+c, m.N(3, 20), "3DES key derivations whose step-6.C blocks are of class "+c+" (found with the reference KDF's observer), decoded")
	}
	m.Gate("bad_padding_cases", m.N(250, 2500), "wrong PKCS#7 padding must be an error")
	m.Gate("mut_cases", m.N(20000, 900000), "mutated files run through Decode and ToPEM")
	m.Gate("mut_past_mac", m.N(8000, 400000), "mutations below the MAC (re-MACed) that reached the parsers behind it")
	m.Gate("truncation_cases", m.N(500, 4000), "strict prefixes must be errors")
}

func c21OpenSSL(m *mon.M) {
	var pool osslPool
	defer func() {
		if pool.dir != "" {
			os.RemoveAll(pool.dir)
		}
	}()
	iters := []int{1, 2, 2048, 4096}
	m.Cases("openssl", m.N(60, 600), func(i int64, r *rand.Rand) {
		pool.init()
		if pool.err != nil {
			m.Inconclusive("openssl key generation failed: " + pool.err.Error())
			return
		}
		k := pool.keys[int(i)%2]
		class := c21Classes[int(i/2)%len(c21Classes)]
		nonBMP := int(i)%30 == 29
		pw := c21Runes(r, class, false)
		if nonBMP {
			class = "non-bmp"
			pw = append(c21Runes(r, "ascii", false)[:1], mon.Pick(r, []rune{0x10000, 0x1f600, 0x10ffff, 0x20000}))
			pw = append(pw, 'z')
		}
		iter := 1 + r.IntN(4096)
		if r.IntN(2) == 0 {
			iter = mon.LogUniform(r, 1, 4096)
		}
		if i < int64(2*len(iters)) {
			iter = iters[i/2] // forced: the iteration counts the design names, for both key types
		}
		certPBE, keyPBE := "PBE-SHA1-RC2-40", "PBE-SHA1-3DES"
		variant := "rc2+3des"
		switch int(i) % 10 {
		case 7:
			certPBE, variant = "PBE-SHA1-3DES", "3des+3des"
		case 8:
			keyPBE, variant = "PBE-SHA1-RC2-40", "rc2+rc2"
		}
		pwFile := filepath.Join(pool.dir, fmt.Sprintf("pw-%d", i))
		out := filepath.Join(pool.dir, fmt.Sprintf("f-%d.pfx", i))
		os.WriteFile(pwFile, []byte(string(pw)+"\n"), 0o600)
		args := []string{"pkcs12", "-export", "-legacy", "-certpbe", certPBE, "-keypbe", keyPBE, "-macalg", "sha1",
			"-iter", fmt.Sprint(iter), "-inkey", k.keyFile, "-in", k.crtFile, "-passout", "file:" + pwFile, "-out", out}
		if int(i)%10 == 9 {
			args = append(args, "-nomaciter")
			variant += "+nomaciter"
		}
		if int(i)%3 == 0 {
			args = append(args, "-name", "friendly é "+fmt.Sprint(i))
		}
		_, se, err := ext.Run(nil, nil, "openssl", args...)
		pfx, rerr := os.ReadFile(out)
		os.Remove(out)
		os.Remove(pwFile)
		if err != nil || rerr != nil {
			m.Inconclusive(fmt.Sprintf("openssl pkcs12 -export failed (class %s): %v %s", class, err, strings.TrimSpace(se)))
			return
		}
		wit := map[string]any{"key": k.name, "class": class, "iter": iter, "variant": variant, "password_runes": fmt.Sprintf("%U", pw)}
		if nonBMP {
			// documented limitation: cannot be encoded in UCS-2 → error, not panic, not success
			_, _, derr := pkcs12.Decode(pfx, string(pw))
			_, perr := pkcs12.ToPEM(pfx, string(pw))
			m.EvalN(2)
			m.Count("openssl_nonbmp_cases", 1)
			m.Distinct("openssl non-bmp " + k.name)
			if derr == nil || perr == nil {
				wit["pfx"] = mon.FullHex(pfx)
				m.Violation("non-bmp-password-accepted", wit)
			}
			return
		}
		// the reference stack must open OpenSSL's file, else the witnesses disagree
		forms := [][]byte{bmpOf(pw)}
		if len(pw) == 0 {
			forms = append(forms, nil)
		}
		rd, form, rerr2 := refReadPFX(pfx, forms)
		sameKey := false
		if rerr2 == nil {
			if p, e := x509.ParsePKCS8PrivateKey(rd.pkcs8); e == nil {
				if eq, y := p.(equaler); y && eq.Equal(k.priv) {
					sameKey = true
				}
			}
		}
		if rerr2 != nil || !bytes.Equal(rd.certDER, k.certDER) || !sameKey {
			m.Inconclusive(fmt.Sprintf("oracle conflict: reference stack does not reproduce OpenSSL's file (class %s, %U): %v", class, pw, rerr2))
			return
		}
		m.Count("openssl_files_opened_by_ref", 1)
		if len(pw) == 0 {
			m.Count(fmt.Sprintf("openssl_empty_password_form:%d", form), 1)
		}
		tag := "openssl"
		if !c21Judge(m, pfx, string(pw), k, tag, wit) {
			return
		}
		m.Count("openssl_files_decoded", 1)
		m.Count("openssl:"+k.name, 1)
		m.Count("openssl_class:"+class, 1)
		m.Count("openssl_variant:"+variant, 1)
		m.Distinct(fmt.Sprintf("openssl %s %s %s len=%s iter=%s", k.name, class, variant, lenClass(len(pw), 0, 31, 32, 40), lenClass(iter, 1, 2, 2048, 4096)))
		if i < 3 {
			m.Sample(map[string]any{"stream": "openssl", "key": k.name, "class": class, "password_runes": fmt.Sprintf("%U", pw), "iter": iter, "variant": variant, "pfx_len": len(pfx)})
		}
		wrong, how := c21Wrong(r, pw)
		c21JudgeWrong(m, pfx, wrong, how, tag, wit)
		// sampled raw mutations of an OpenSSL-made file (panic monitor)
		for j := 0; j < 40; j++ {
			mut := append([]byte{}, pfx...)
			pos := r.IntN(len(mut))
			op := r.IntN(5)
			mut = applyOp(mut, pos, op)
			c21Mutant(m, mut, string(pw), "ossl", "L0", opNames[op], op == 4)
		}
	})
}

// ---------- crafted files ----------

var c21SaltLens = []int{0, 1, 7, 8, 9, 16, 20, 63, 64, 65, 127, 128, 129, 200}

func c21Salt(r *rand.Rand) []byte {
	if r.IntN(3) == 0 {
		return mon.Bytes(r, mon.Pick(r, c21SaltLens))
	}
	b := mon.Bytes(r, r.IntN(41))
	if r.IntN(6) == 0 {
		for i := range b {
			b[i] = 0xff // carries ripple through I_j + B + 1
		}
	}
	return b
}

func c21Iter(r *rand.Rand) int {
	if r.IntN(4) == 0 {
		return mon.Pick(r, []int{1, 2, 3, 1000, 2048, 4096})
	}
	return mon.LogUniform(r, 1, 4096)
}

func saltEdge(n int) bool {
	switch n {
	case 0, 63, 64, 65, 127, 128, 129:
		return true
	}
	return false
}

func c21Crafted(m *mon.M, rsaFix, ecFix *p12Key) {
	var dir string
	defer func() {
		if dir != "" {
			os.RemoveAll(dir)
		}
	}()
	classes := append(append([]string{}, c21Classes...), "empty") // empty twice: both conventions
	m.Cases("crafted", m.N(1500, 30000), func(i int64, r *rand.Rand) {
		k := ecFix
		if i%8 == 5 {
			k = rsaFix
		}
		class := classes[int(i)%len(classes)]
		osslCheck := i%199 == 3 // a constrained sample is read back by OpenSSL
		pw := c21Runes(r, class, !osslCheck)
		if osslCheck && len(pw) == 0 {
			pw = []rune("ossl-check")
		}
		pwOctets := bmpOf(pw)
		conv := ""
		if len(pw) == 0 {
			conv = "bmp-null"
			if int(i)%len(classes) == len(classes)-1 {
				conv, pwOctets = "empty-array", nil
			}
		}
		s := &p12Spec{
			pw: pwOctets, macSalt: c21Salt(r), macIter: c21Iter(r), omitMacIter: r.IntN(2) == 0,
			certAlg: r.IntN(2), certSalt: c21Salt(r), certIter: c21Iter(r),
			keyAlg: r.IntN(2), keySalt: c21Salt(r), keyIter: c21Iter(r),
			certDER: k.certDER, pkcs8: k.pkcs8,
		}
		if r.IntN(2) == 0 {
			s.friendly = c21Runes(r, mon.Pick(r, []string{"ascii", "latin1", "cjk"}), false)
		}
		if r.IntN(2) == 0 {
			s.localID = mon.Bytes(r, 20)
		}
		if r.IntN(10) == 0 {
			s.macIter = 1
		}
		if osslCheck {
			for _, p := range []*[]byte{&s.macSalt, &s.certSalt, &s.keySalt} {
				if len(*p) == 0 {
					*p = mon.Bytes(r, 8)
				}
			}
		}
		pfx, _, err := s.build()
		if err != nil {
			m.Inconclusive("crafter failed: " + err.Error())
			return
		}
		wit := map[string]any{"key": k.name, "class": class, "password_runes": fmt.Sprintf("%U", pw), "empty_convention": conv,
			"mac_salt": mon.Hex(s.macSalt), "mac_iter": s.macIter, "cert_alg": algName[s.certAlg], "cert_salt": mon.Hex(s.certSalt), "cert_iter": s.certIter,
			"key_alg": algName[s.keyAlg], "key_salt": mon.Hex(s.keySalt), "key_iter": s.keyIter}
		tag := "crafted"
		if !c21Judge(m, pfx, string(pw), k, tag, wit) {
			return
		}
		m.Count("crafted_files_decoded", 1)
		m.Count("crafted:"+k.name, 1)
		if conv != "" {
			m.Count("crafted_empty_password:"+conv, 1)
		}
		if saltEdge(len(s.macSalt)) || saltEdge(len(s.certSalt)) || saltEdge(len(s.keySalt)) {
			m.Count("crafted_salt_block_edge", 1)
		}
		if len(pwOctets) >= 62 && len(pwOctets) <= 66 {
			m.Count("crafted_password_at_block_edge", 1)
		}
		if s.omitMacIter && s.macIter == 1 {
			m.Count("crafted_mac_iterations_omitted", 1)
		}
		m.Distinct(fmt.Sprintf("crafted %s %s%s %s/%s pwlen=%s macsalt=%s", k.name, class, conv, algName[s.certAlg], algName[s.keyAlg], lenClass(len(pw), 0, 30, 31, 32, 40), lenClass(len(s.macSalt), 0, 63, 64, 65, 127, 128, 129)))
		if i < 2 {
			m.Sample(wit)
		}
		wrong, how := c21Wrong(r, pw)
		c21JudgeWrong(m, pfx, wrong, how, tag, wit)

		if osslCheck {
			if dir == "" {
				if dir, err = ext.TempDir("c21c-"); err != nil {
					m.Inconclusive("no scratch dir")
					return
				}
			}
			f := filepath.Join(dir, fmt.Sprintf("c-%d.pfx", i))
			pf := filepath.Join(dir, fmt.Sprintf("c-%d.pw", i))
			os.WriteFile(f, pfx, 0o600)
			os.WriteFile(pf, []byte(string(pw)+"\n"), 0o600)
			so, se, err := ext.Run(nil, nil, "openssl", "pkcs12", "-in", f, "-legacy", "-passin", "file:"+pf, "-nodes")
			os.Remove(f)
			os.Remove(pf)
			ok := false
			if err == nil {
				rest := []byte(so)
				var gotCert, gotKey bool
				for {
					var b *pem.Block
					b, rest = pem.Decode(rest)
					if b == nil {
						break
					}
					if b.Type == "CERTIFICATE" && bytes.Equal(b.Bytes, k.certDER) {
						gotCert = true
					}
					if b.Type == "PRIVATE KEY" {
						if p, e := x509.ParsePKCS8PrivateKey(b.Bytes); e == nil {
							if eq, y := p.(equaler); y && eq.Equal(k.priv) {
								gotKey = true
							}
						}
					}
				}
				ok = gotCert && gotKey
			}
			if ok {
				m.Count("crafted_read_by_openssl", 1)
			} else {
				m.Inconclusive(fmt.Sprintf("oracle conflict: OpenSSL does not read a crafted file (case %d): %v %s", i, err, strings.TrimSpace(se)))
			}
		}
	})
}

// ---------- wrong padding ----------

func c21Padding(m *mon.M, rsaFix, ecFix *p12Key) {
	m.Cases("padding", m.N(360, 3600), func(i int64, r *rand.Rand) {
		k := ecFix
		if i%12 == 7 {
			k = rsaFix
		}
		pw := c21Runes(r, "ascii", false)
		s := &p12Spec{pw: bmpOf(pw), macSalt: mon.Bytes(r, 8), macIter: 1 + r.IntN(3),
			certAlg: r.IntN(2), certSalt: mon.Bytes(r, 8), certIter: 1 + r.IntN(3),
			keyAlg: r.IntN(2), keySalt: mon.Bytes(r, 8), keyIter: 1 + r.IntN(3),
			certDER: k.certDER, pkcs8: k.pkcs8}
		if r.IntN(2) == 0 {
			s.friendly = c21Runes(r, "ascii", false)[:1+r.IntN(1)] // varies the plaintext length mod 8
			for j := r.IntN(8); j > 0; j-- {
				s.friendly = append(s.friendly, 'p')
			}
		}
		kind := []string{"last=0", "last>8", "inconsistent", "valid"}[int(i)%4]
		side := []string{"cert", "key"}[int(i/4)%2]
		hook := func(p []byte) []byte {
			n := int(p[len(p)-1])
			switch kind {
			case "last=0":
				p[len(p)-1] = 0
			case "last>8":
				p[len(p)-1] = byte(9 + r.IntN(247))
			case "inconsistent":
				if n >= 2 {
					p[len(p)-2-r.IntN(n-1)] ^= byte(1 + r.IntN(255))
				} else {
					// single pad octet: claim two, the octet before is plaintext (made different from 2)
					p[len(p)-1] = 2
					if p[len(p)-2] == 2 {
						p[len(p)-2] = 3
					}
				}
			}
			return p
		}
		if side == "cert" {
			s.certPad = hook
		} else {
			s.keyPad = hook
		}
		pfx, _, err := s.build()
		if err != nil {
			m.Inconclusive("crafter failed: " + err.Error())
			return
		}
		wit := map[string]any{"kind": kind, "side": side, "key": k.name, "cert_alg": algName[s.certAlg], "key_alg": algName[s.keyAlg], "password_runes": fmt.Sprintf("%U", pw)}
		if kind == "valid" {
			m.Count("padding_control_cases", 1)
			c21Judge(m, pfx, string(pw), k, "padding-control", wit)
			return
		}
		var derr, perr error
		pv, stack := mon.Panics(func() {
			_, _, derr = pkcs12.Decode(pfx, string(pw))
			_, perr = pkcs12.ToPEM(pfx, string(pw))
		})
		m.EvalN(2)
		m.Count("bad_padding_cases", 1)
		m.Count("bad_padding:"+kind+":"+side, 1)
		m.Distinct(fmt.Sprintf("padding %s %s %s/%s", kind, side, algName[s.certAlg], algName[s.keyAlg]))
		wit["pfx"] = mon.FullHex(pfx)
		if pv != nil {
			wit["panic"] = fmt.Sprint(pv)
			m.Violation("panic:"+mon.PanicSite(stack), wit)
			return
		}
		m.Count("bad_padding_outcome:"+errClass(derr), 1)
		if derr == nil || perr == nil {
			m.Violation("bad-padding-accepted:"+kind, wit)
		}
	})
}

// ---------- mutations ----------

var opNames = []string{"xor01", "xor80", "set00", "setff", "trunc"}

func applyOp(b []byte, pos, op int) []byte {
	switch op {
	case 0:
		b[pos] ^= 0x01
	case 1:
		b[pos] ^= 0x80
	case 2:
		if b[pos] == 0 {
			b[pos] = 0x55 // keep it a mutation
		} else {
			b[pos] = 0
		}
	case 3:
		if b[pos] == 0xff {
			b[pos] = 0xaa
		} else {
			b[pos] = 0xff
		}
	case 4:
		return b[:pos] // strict prefix (pos < len)
	}
	return b
}

// c21Mutant runs both entry points on a mutated file: panic monitor; strict
// prefixes of the raw file must be errors.
func c21Mutant(m *mon.M, pfx []byte, password, base, layer, op string, strictPrefix bool) {
	var derr, perr error
	gp := guard(pfx)
	pv, stack := mon.Panics(func() {
		_, _, derr = pkcs12.Decode(gp.b(), password)
		_, perr = pkcs12.ToPEM(gp.b(), password)
	})
	m.EvalN(2)
	checkInputs(m, "mutant", nil, map[string]*guarded{"pfx": gp})
	c21Ret.verify("Decode/ToPEM on a mutated file")
	m.Count("mut_cases", 1)
	m.Count("mut:"+layer, 1)
	oc := errClass(derr)
	m.Count("mut_outcome:"+layer+":"+oc, 1)
	if layer != "L0" && oc != "ErrIncorrectPassword" {
		m.Count("mut_past_mac", 1)
	}
	m.Distinct(fmt.Sprintf("mut %s %s %s %s", base, layer, op, oc))
	if pv != nil {
		m.Violation("panic:"+mon.PanicSite(stack), map[string]any{"base": base, "layer": layer, "op": op, "panic": fmt.Sprint(pv), "pfx": mon.FullHex(pfx), "password_utf8": mon.FullHex([]byte(password)), "stack": stack[:min(len(stack), 2500)]})
		return
	}
	if strictPrefix {
		m.Count("truncation_cases", 1)
		if derr == nil || perr == nil {
			m.Violation("truncated-pfx-accepted", map[string]any{"base": base, "pfx": mon.FullHex(pfx), "password_utf8": mon.FullHex([]byte(password))})
		}
	}
}

type mutBase struct {
	name     string
	spec     *p12Spec
	password string
	pfx      []byte
	regions  [4]int // lengths of L0 (file), L1 (AuthenticatedSafe), L2c (cert SafeContents), L2k (PKCS#8)
}

var layerNames = []string{"L0", "L1", "L2c", "L2k"}

func c21Mutations(m *mon.M, rsaFix, ecFix *p12Key) {
	// base files: fixed shapes (so that the enumeration space does not depend on the seed), seeded salts
	mk := func(name string, k *p12Key, pw []rune, pwOctets []byte, certAlg, keyAlg int, attrs bool) *mutBase {
		r := m.Rand("mut-base:"+name, 0)
		s := &p12Spec{pw: pwOctets, macSalt: mon.Bytes(r, 8), macIter: 2, certAlg: certAlg, certSalt: mon.Bytes(r, 8), certIter: 1,
			keyAlg: keyAlg, keySalt: mon.Bytes(r, 8), keyIter: 3, certDER: k.certDER, pkcs8: k.pkcs8}
		if attrs {
			s.friendly = []rune("mut é密")
			s.localID = mon.Bytes(r, 20)
		}
		pfx, auth, err := s.build()
		if err != nil {
			return nil
		}
		return &mutBase{name: name, spec: s, password: string(pw), pfx: pfx, regions: [4]int{len(pfx), len(auth), len(s.certSafeContents()), len(k.pkcs8)}}
	}
	pw0 := []rune("mut-é密")
	bases := []*mutBase{
		mk("ec-rc2-3des", ecFix, pw0, bmpOf(pw0), algRC240, alg3DES, true),
		mk("rsa-rc2-3des", rsaFix, []rune("rsa base"), bmpOf([]rune("rsa base")), algRC240, alg3DES, true),
		mk("ec-3des-rc2-emptypw", ecFix, nil, nil, alg3DES, algRC240, false),
	}
	type region struct {
		b     *mutBase
		layer int
		n     int
		start int64
	}
	var regions []region
	var space int64
	for _, b := range bases {
		if b == nil {
			m.Inconclusive("cannot build mutation base files")
			return
		}
		// sanity: the unmutated base must decode (else the enumeration below would be vacuous)
		if _, _, err := pkcs12.Decode(b.pfx, b.password); err != nil {
			m.Violation("decode-failed:mutation-base:"+errClass(err), map[string]any{"base": b.name, "pfx": mon.FullHex(b.pfx), "err": err.Error()})
			return
		}
		for l := 0; l < 4; l++ {
			regions = append(regions, region{b, l, b.regions[l], space})
			space += int64(b.regions[l]) * 5
		}
	}
	// run one mutation: idx in [0,space) = single-octet op; extra = random multi-octet mutation
	run := func(idx int64, multi bool, r *rand.Rand) {
		var rg region
		for _, x := range regions {
			if idx >= x.start && idx < x.start+int64(x.n)*5 {
				rg = x
			}
		}
		off := idx - rg.start
		pos, op := int(off/5), int(off%5)
		mutate := func(p []byte) []byte {
			if len(p) != rg.n {
				return p // cannot happen: region lengths are those of this base
			}
			if multi {
				for j := 2 + r.IntN(3); j > 0; j-- {
					p[r.IntN(len(p))] = byte(r.UintN(256))
				}
				if r.IntN(8) == 0 {
					p = p[:r.IntN(len(p))]
				}
				return p
			}
			return applyOp(p, pos, op)
		}
		opn := opNames[op]
		if multi {
			opn = "multi"
		}
		b := rg.b
		if rg.layer == 0 {
			c21Mutant(m, mutate(append([]byte{}, b.pfx...)), b.password, b.name, "L0", opn, !multi && op == 4)
			return
		}
		s := *b.spec
		switch rg.layer {
		case 1:
			s.authSafe = mutate
		case 2:
			s.certPlain = mutate
		case 3:
			s.keyPlain = mutate
		}
		pfx, _, err := s.build()
		if err != nil {
			m.Inconclusive("crafter failed on a mutation: " + err.Error())
			return
		}
		c21Mutant(m, pfx, b.password, b.name, layerNames[rg.layer], opn, false)
	}
	m.Note(fmt.Sprintf("mutation space: %d single-octet mutations over %d regions of %d base files", space, len(regions), len(bases)))
	if m.Thorough() {
		m.Cases("mut-enum", int(space), func(i int64, r *rand.Rand) {
			m.Count("mut_enumerated", 1)
			run(i, false, r)
		})
		m.Cases("mut-multi", 940000, func(i int64, r *rand.Rand) { run(r.Int64N(space), true, r) })
	} else {
		m.Cases("mut-sample", 13000, func(i int64, r *rand.Rand) { run(r.Int64N(space), false, r) })
		m.Cases("mut-multi", 6000, func(i int64, r *rand.Rand) { run(r.Int64N(space), true, r) })
		// every truncation length of the smallest base in quick as well
		b := bases[0]
		m.Cases("mut-trunc", len(b.pfx), func(i int64, r *rand.Rand) {
			c21Mutant(m, append([]byte{}, b.pfx[:i]...), b.password, b.name, "L0", "trunc", true)
		})
	}
}

// ---------- short / wrapping blocks in step 6.C ----------

// c21BlockClass names what step 6.C of the key derivation did to the v-octet
// blocks of I in the round that feeds the second half of a 24-octet 3DES key:
// implementations that add with bignums must left-pad results that came out
// short (leading zero octets) and truncate results that carried out.
func c21BlockClass(zs []int, carry []bool) string {
	var short []int // leading-zero counts of the blocks that did not carry out, in block order
	wrapZero := false
	for k, z := range zs {
		if carry[k] {
			if z > 0 {
				wrapZero = true
			}
			continue
		}
		if z > 0 {
			short = append(short, z)
		}
	}
	switch {
	case len(short) >= 2:
		inc, dec := false, false
		for k := 1; k < len(short); k++ {
			inc = inc || short[k] > short[k-1]
			dec = dec || short[k] < short[k-1]
		}
		switch {
		case inc && dec:
			return "several-short:mixed"
		case inc:
			return "several-short:later-shorter-number"
		case dec:
			return "several-short:later-longer-number"
		}
		return "several-short:equal"
	case len(short) == 1 && short[0] >= 2:
		return "one-short:2+"
	case len(short) == 1:
		return "one-short:1"
	case wrapZero:
		return "carry-out-with-leading-zero"
	}
	return ""
}

var c21BlockClasses = []string{"one-short:1", "one-short:2+", "several-short:equal", "several-short:later-shorter-number", "several-short:later-longer-number", "carry-out-with-leading-zero"}

// c21ShortBlocks searches, with the reference KDF's step-6.C observer, for
// (password, salt, iterations) whose 3DES key derivation hits each block class
// and presents each witness to pkcs12.Decode inside a crafted PFX (both bags
// PBE-SHA1-3DES under that salt). The classes have probability 2^-8 … 2^-16 per
// derivation, which is why random files never reach them.
func c21ShortBlocks(m *mon.M, ecFix *p12Key) {
	const trials = 8192
	m.Cases("shortblocks", m.N(512, 4096), func(i int64, r *rand.Rand) {
		seen := map[string]int{}
		for t := 0; t < trials; t++ {
			// 32 ASCII characters: BMP+terminator = 66 octets = two password blocks
			// starting 00 c and 00 00 00 c; other lengths and scripts mixed in
			var pw []rune
			switch t % 4 {
			case 0, 1:
				pw = make([]rune, 32)
				for k := range pw {
					pw[k] = rune(0x21 + r.IntN(0x5e))
				}
			case 2:
				pw = make([]rune, 31+r.IntN(4))
				for k := range pw {
					pw[k] = rune(0x21 + r.IntN(0x5e))
				}
			default:
				pw = make([]rune, 1+r.IntN(40))
				for k := range pw {
					pw[k] = rune(r.IntN(0x300))
				}
			}
			salt := mon.Bytes(r, mon.Pick(r, []int{8, 8, 8, 16, 20, 64, 65}))
			if t%2 == 0 {
				salt[0] = 0
			}
			if t%8 >= 6 {
				salt[0], salt[1] = 0, 0
			}
			iter := 1 + t%3
			pwOctets := bmpOf(pw)
			var zs []int
			var carry []bool
			kdf.SHA1Trace(kdf.IDKey, pwOctets, salt, iter, 24, func(round, block, z int, c bool) {
				if round == 1 {
					zs, carry = append(zs, z), append(carry, c)
				}
			})
			m.Count("shortblocks_derivations_searched", 1)
			class := c21BlockClass(zs, carry)
			if class == "" || seen[class] >= 2 {
				continue
			}
			seen[class]++
			s := &p12Spec{
				pw: pwOctets, macSalt: mon.Bytes(r, 8), macIter: 1,
				certAlg: alg3DES, certSalt: salt, certIter: iter,
				keyAlg: alg3DES, keySalt: salt, keyIter: iter,
				certDER: ecFix.certDER, pkcs8: ecFix.pkcs8,
			}
			pfx, _, err := s.build()
			if err != nil {
				m.Inconclusive("crafter failed: " + err.Error())
				return
			}
			wit := map[string]any{"key": ecFix.name, "block_class": class, "leading_zero_octets_per_block": fmt.Sprint(zs), "carry_out_per_block": fmt.Sprint(carry),
				"password_runes": fmt.Sprintf("%U", pw), "salt": mon.Hex(salt), "iterations": iter, "alg": "3DES/3DES"}
			if !c21Judge(m, pfx, string(pw), ecFix, "shortblocks:"+class, wit) {
				return
			}
			m.Count("shortblocks_files_decoded", 1)
			m.Count("shortblocks:"+class, 1)
			m.Distinct(fmt.Sprintf("shortblocks %s blocks=%d iter=%d", class, len(zs), iter))
			if i < 1 && seen[class] == 1 {
				m.Sample(wit)
			}
		}
	})
}

package kdf3

import (
	"bytes"
	"crypto"
	"crypto/md5"
	"crypto/sha1"
	"crypto/sha256"
	"crypto/sha512"
	"fmt"
	"math/rand/v2"
	"testing"

	"golang.org/x/crypto/openpgp/s2k"
	_ "golang.org/x/crypto/ripemd160" // registers crypto.RIPEMD160 for the package under test
	"verif/clib/gcrypts2k"
	"verif/mon"
	"verif/ref/md4rmd"
	"verif/ref/s2kref"
)

// RFC 4880 §9.4 hash ids the property names, with the harness' own mapping
// (not s2k.HashIdToHash) to one-shot hash functions for the reference.
var c20Hashes = []struct {
	id   byte
	name string
	size int
	ch   crypto.Hash
	h    s2kref.HashFunc
}{
	{1, "MD5", 16, crypto.MD5, func(m []byte) []byte { s := md5.Sum(m); return s[:] }},
	{2, "SHA1", 20, crypto.SHA1, func(m []byte) []byte { s := sha1.Sum(m); return s[:] }},
	{3, "RIPEMD160", 20, crypto.RIPEMD160, md4rmd.RIPEMD160},
	{8, "SHA256", 32, crypto.SHA256, func(m []byte) []byte { s := sha256.Sum256(m); return s[:] }},
	{9, "SHA384", 48, crypto.SHA384, func(m []byte) []byte { s := sha512.Sum384(m); return s[:] }},
	{10, "SHA512", 64, crypto.SHA512, func(m []byte) []byte { s := sha512.Sum512(m); return s[:] }},
	{11, "SHA224", 28, crypto.SHA224, func(m []byte) []byte { s := sha256.Sum224(m); return s[:] }},
}

var c20Modes = map[int]string{0: "simple", 1: "salted", 3: "iterated"}

// key sizes of the quantifier plus sizes beyond 64 so that SHA-384/512 also need several contexts
var c20KeySizes = []int{1, 16, 20, 21, 32, 33, 64, 65, 128, 129}

// c20Run parses spec (followed by trailing bytes), runs the returned function
// and judges it against the reference (and libgcrypt when usable).
func c20Run(m *mon.M, spec []byte, pass []byte, keyLen int, r *rand.Rand, tag string) {
	hidx := -1
	for k, h := range c20Hashes {
		if h.id == spec[1] {
			hidx = k
		}
	}
	H := c20Hashes[hidx]
	trailing := mon.Bytes(r, r.IntN(4))
	rd := bytes.NewReader(append(append([]byte{}, spec...), trailing...))
	f, err := s2k.Parse(rd)
	m.Eval()
	mode := int(spec[0])
	mname := c20Modes[mode]
	ctx := "single-context"
	if keyLen > H.size {
		ctx = "multi-context"
	}
	sp, _ := s2kref.ParseSpec(spec)
	count := 0
	short := ""
	if mode == 3 {
		count = s2kref.DecodeCount(sp.CountC)
		if count < 8+len(pass) {
			short = ":count<len"
		}
	}
	wit := map[string]any{"spec": mon.FullHex(spec), "hash": H.name, "mode": mname, "passphrase": mon.FullHex(pass), "keyLen": keyLen}
	if err != nil || f == nil {
		wit["err"] = fmt.Sprint(err)
		m.Violation("valid-specifier-rejected:"+mname+":"+H.name, wit)
		return
	}
	if consumed := len(spec) + len(trailing) - rd.Len(); consumed == len(spec) {
		m.Count("parse_consumed_exactly_the_specifier", 1)
	} else {
		m.Count("parse_consumed_other_length", 1)
	}
	gpass, gout := guard(pass), guard(make([]byte, keyLen))
	out := gout.b()
	f(out, gpass.b())
	checkInputs(m, "s2k-function", wit, map[string]*guarded{"passphrase": gpass})
	m.Count("output_overrun_checks", 1)
	if !gout.spareIntact() {
		m.Violation("output-buffer-overrun:"+mname, wit)
	}
	c20Ret.verify("s2k function " + mname)
	c20Recheck(m, mname)
	want := sp.Derive(H.h, pass, keyLen)
	m.Count("ref_comparisons", 1)
	m.Count("mode:"+mname, 1)
	if keyLen > H.size {
		m.Count("multi_context:"+H.name, 1)
		if (keyLen+H.size-1)/H.size >= 3 {
			m.Count("three_or_more_contexts", 1)
		}
	}
	if short != "" {
		m.Count("count_below_salt_plus_passphrase", 1)
	}
	if len(pass) == 0 {
		m.Count("empty_passphrase", 1)
	}
	cc := ""
	if mode == 3 {
		cc = fmt.Sprintf(" c>>4=%d", sp.CountC>>4)
	}
	m.Distinct(fmt.Sprintf("%s %s %s ctxs=%d%s%s pl=%s", tag, mname, H.name, (keyLen+H.size-1)/H.size, cc, short, lenClass(len(pass), 0, 55, 56, 64)))
	if !bytes.Equal(out, want) {
		wit["got"], wit["want"] = mon.Hex(out), mon.Hex(want)
		if mode == 3 {
			wit["count"] = count
		}
		m.Violation("wrong-key:"+mname+":"+ctx+short, wit)
		return
	}
	c20Ret.add("s2k-output:"+mname, out, map[string]any{"spec": wit["spec"], "keyLen": keyLen})
	if mode != 3 || count <= 1<<16 {
		// keep the returned function: it must still compute the same key after later Parse calls
		c20Funcs = append(c20Funcs, c20Func{f: f, pass: append([]byte{}, pass...), want: append([]byte{}, want...), mname: mname, spec: mon.FullHex(spec)})
		if len(c20Funcs) > 8 {
			c20Funcs = c20Funcs[1:]
		}
	}
	// the function must be reusable: second call, other passphrase and length
	if r.IntN(4) == 0 {
		kl2 := mon.Pick(r, c20KeySizes)
		p2 := mon.Bytes(r, r.IntN(40))
		if mode == 3 && count > 1<<20 {
			kl2 = min(kl2, H.size)
		}
		out2 := make([]byte, kl2)
		f(out2, p2)
		m.Eval()
		m.Count("second_call_comparisons", 1)
		if !bytes.Equal(out2, sp.Derive(H.h, p2, kl2)) {
			wit["second_passphrase"], wit["second_keyLen"], wit["second_got"] = mon.FullHex(p2), kl2, mon.Hex(out2)
			m.Violation("wrong-key-on-second-call:"+mname, wit)
			return
		}
	}
	// libgcrypt witness (rejects empty passphrases)
	if len(pass) > 0 {
		g, gerr := gcrypts2k.Derive(mode, H.id, pass, sp.Salt, uint64(count), keyLen)
		if gerr != nil {
			m.Count("gcrypt_unusable", 1)
		} else {
			m.Count("gcrypt_comparisons", 1)
			if !bytes.Equal(g, want) {
				m.Inconclusive(fmt.Sprintf("oracle conflict: ref vs libgcrypt on spec %x keyLen %d passlen %d", spec, keyLen, len(pass)))
			}
		}
	}
}

// retention monitors of the process: outputs written by earlier calls, and
// functions returned by earlier Parse calls.
var c20Ret *retMon

type c20Func struct {
	f     func(out, in []byte)
	pass  []byte
	want  []byte
	mname string
	spec  string
}

var (
	c20Funcs  []c20Func
	c20Rotate int
)

// c20Recheck re-invokes one retained function (rotating): a function returned
// by an earlier Parse must not be affected by later Parse calls.
func c20Recheck(m *mon.M, after string) {
	if len(c20Funcs) == 0 {
		return
	}
	c20Rotate++
	e := c20Funcs[c20Rotate%len(c20Funcs)]
	out := make([]byte, len(e.want))
	e.f(out, e.pass)
	m.Count("retained_function_reinvocations", 1)
	if !bytes.Equal(out, e.want) {
		m.Violation("returned-function-changed-after-later-parse:"+e.mname, map[string]any{"spec": e.spec, "passphrase": mon.FullHex(e.pass), "want": mon.Hex(e.want), "got": mon.Hex(out), "after": after})
	}
}

func c20Pass(r *rand.Rand) []byte {
	switch r.IntN(8) {
	case 0:
		return mon.Bytes(r, mon.Pick(r, []int{0, 1, 47, 48, 55, 56, 57, 63, 64, 65, 100, 111, 112, 119, 120}))
	case 1:
		return nil
	}
	return mon.Bytes(r, r.IntN(101))
}

// C20: s2k.Parse + returned function derive the RFC 4880 §3.7 key; Serialize
// output parses back to the same function.
func TestC20(t *testing.T) {
	m := mon.New(t, "C20")
	defer m.Done()
	m.Rule("streams: (simple-salted) modes 0/1 × 7 hash ids × key sizes {1,16,20,21,32,33,64,65,128,129} as a forced grid, then random 1..64, passphrases 0..100 weighted to hash-padding edges; (iterated) every coded count byte (quick: all 176 bytes with count ≤ 2 MiB for each hash plus 9 larger ones up to 0xff = 65 011 712 octets; thorough: all 256 × 7 hashes, ×3 below 4 MiB), key sizes from the set (one context above 1 MiB except 1 in 8), passphrases 0..100; (short-count) coded counts 0..20 with passphrases of count−8+{−2..2} and up to 3×count octets, where the RFC requires the whole salt‖passphrase to be hashed once; (serialize) s2k.Serialize under nil and explicit Configs → Parse → same key as Serialize wrote and as the ref derives from the emitted specifier; (unsupported) all 249 hash ids outside RFC 4880 §9.4's {1,2,3,8,9,10,11} × modes {0,1,3} must make Parse fail. Every valid case: s2k.Parse(spec‖random trailing bytes) then f(out, passphrase) compared with an RFC 4880 §3.7.1 executable spec (explicit message construction, one-shot hashes) and libgcrypt gcry_kdf_derive; 1 in 4 cases call f a second time with other arguments. distinct key = (stream, mode, hash, number of contexts, count exponent, count<len flag, passphrase length class); non-trivial = a key comparison was made or an expected error observed. (concurrent) 6 goroutines released from a barrier each Parse (through a yielding reader) and run their own returned function, or call Simple/Salted/Iterated with their own hash.Hash, then Serialize through yielding reader/writer — three goroutines with the same specifier and passphrase slices, three with their own; results precomputed from the ref and judged after the join; one case in four under GOMAXPROCS(1); the same stream alone is run in a -race build. Cross-cutting monitors: the last 8 output buffers are re-verified after every later call, one of the last 8 returned functions (cheap ones) is re-invoked after every later Parse and must give its old key, passphrases carry sentinel spare capacity and must be unchanged, the capacity behind the output buffer must be untouched")
	m.Assume("ref/s2kref is validated by hashlib-computed vectors and a libgcrypt grid in its unit test; it uses the Go standard library MD5/SHA-1/SHA-2 one-shot functions (trusted primitives; s2k uses the same through crypto.Hash) and ref/md4rmd's RIPEMD-160 (independent of x/crypto/ripemd160); libgcrypt 1.10 (GnuPG's S2K) is the fully independent witness and refuses empty passphrases")
	m.Assume("specifier types other than 0, 1, 3 and truncated specifiers are outside the statement: observed (counters) but not judged")

	nh := len(c20Hashes)
	nk := len(c20KeySizes)
	c20Ret = newRetMon(m, 8)
	c20Funcs = nil
	if mon.RaceBuild {
		// race-detector variant: only the shared-value concurrency stream
		c20Concurrent(m)
		concGates(m, c20ConcN(m))
		return
	}
	c20Concurrent(m)
	concGates(m, c20ConcN(m))

	// ---------- simple and salted ----------
	m.Cases("simple-salted", m.N(2100, 42000), func(i int64, r *rand.Rand) {
		mode := int(i % 2)
		H := c20Hashes[int(i/2)%nh]
		var kl int
		if g := int(i / int64(2*nh)); g < nk {
			kl = c20KeySizes[g] // forced grid: every (mode, hash, key size)
		} else if r.IntN(3) == 0 {
			kl = mon.Pick(r, c20KeySizes)
		} else {
			kl = 1 + r.IntN(64)
		}
		spec := []byte{byte(mode), H.id}
		if mode == 1 {
			spec = append(spec, mon.Bytes(r, 8)...)
		}
		pass := c20Pass(r)
		if i < int64(2*nh*nk) && i%5 == 0 {
			pass = nil // forced: empty passphrases inside the grid
		}
		if i < 3 {
			m.Sample(map[string]any{"spec": mon.FullHex(spec), "hash": H.name, "keyLen": kl, "passlen": len(pass)})
		}
		c20Run(m, spec, pass, kl, r, "ss")
	})

	// ---------- iterated: all coded counts ----------
	type itCase struct {
		c    byte
		hidx int
		rep  int
	}
	var its []itCase
	if m.Quick() {
		for c := 0; c <= 0xaf; c++ {
			for h := 0; h < nh; h++ {
				its = append(its, itCase{byte(c), h, 0})
			}
		}
		for k, c := range []byte{0xb0, 0xbf, 0xc0, 0xcf, 0xd0, 0xe0, 0xef, 0xf0, 0xff} {
			// fast hashes only (SHA-1, SHA-256), one RIPEMD-160 at the smallest
			its = append(its, itCase{c, 1, 0}, itCase{c, 3, 1})
			if k == 0 {
				its = append(its, itCase{c, 2, 1}, itCase{c, 0, 1})
			}
		}
	} else {
		for c := 0; c < 256; c++ {
			reps := 3
			if s2kref.DecodeCount(byte(c)) > 4<<20 {
				reps = 1
			}
			for h := 0; h < nh; h++ {
				for rep := 0; rep < reps; rep++ {
					its = append(its, itCase{byte(c), h, rep})
				}
			}
		}
	}
	m.Cases("iterated", len(its), func(i int64, r *rand.Rand) {
		ic := its[i]
		H := c20Hashes[ic.hidx]
		count := s2kref.DecodeCount(ic.c)
		var kl int
		switch {
		case count > 1<<20 && r.IntN(8) != 0:
			kl = mon.Pick(r, []int{1, 16, H.size - 1, H.size})
		case count > 1<<20:
			kl = H.size + 1 + r.IntN(8) // two contexts
		case r.IntN(2) == 0:
			kl = mon.Pick(r, c20KeySizes)
		default:
			kl = 1 + r.IntN(64)
		}
		spec := append([]byte{3, H.id}, mon.Bytes(r, 8)...)
		spec = append(spec, ic.c)
		pass := c20Pass(r)
		if ic.hidx == 1 && ic.rep == 0 {
			m.Count("count_bytes_covered", 1) // exactly one (c, SHA-1, rep 0) case per covered count byte
		}
		if count > 2<<20 {
			m.Count("counts_above_2MiB", 1)
		}
		if ic.c == 0xff {
			m.Count("count_byte_0xff", 1)
			m.Sample(map[string]any{"spec": mon.FullHex(spec), "hash": H.name, "count": count, "keyLen": kl, "passlen": len(pass)})
		}
		if ic.c == 0 {
			m.Count("count_byte_0x00", 1)
		}
		c20Run(m, spec, pass, kl, r, "it")
	})

	// ---------- iterated with count < len(salt‖passphrase) ----------
	m.Cases("short-count", m.N(420, 6300), func(i int64, r *rand.Rand) {
		H := c20Hashes[int(i)%nh]
		c := byte(r.IntN(21))
		count := s2kref.DecodeCount(c)
		var pl int
		switch int(i/int64(nh)) % 6 {
		case 0:
			pl = count - 8 + 1 // one octet more than the count
		case 1:
			pl = count - 8 // exactly the count: a single full copy
		case 2:
			pl = count - 8 - 1 - r.IntN(2) // just below: second copy truncated to 1-2 octets
		case 3:
			pl = count - 8 + 2 + r.IntN(64)
		case 4:
			pl = count + r.IntN(2*count)
		default:
			pl = count/2 - 8 + r.IntN(3) - 1 // exactly two copies ±1
		}
		kl := mon.Pick(r, c20KeySizes)
		spec := append([]byte{3, H.id}, mon.Bytes(r, 8)...)
		spec = append(spec, c)
		pass := mon.Bytes(r, pl)
		if i < 2 {
			m.Sample(map[string]any{"spec": mon.FullHex(spec), "hash": H.name, "count": count, "keyLen": kl, "passlen": pl})
		}
		c20Run(m, spec, pass, kl, r, "sc")
	})

	// ---------- Serialize → Parse ----------
	counts := []int{0, 1, 1023, 1024, 1025, 1088, 1089, 2048, 65535, 65536, 65537, 69632, 100000, 1 << 20, (1 << 20) + 1}
	bigCounts := []int{3 << 20, 65011712, 65011713, 1 << 30, 60000000}
	m.Cases("serialize", m.N(210, 3150), func(i int64, r *rand.Rand) {
		var cfg *s2k.Config
		H := c20Hashes[1] // nil config: SHA-1 is the documented default
		wantCount := 65536
		cls := "nil-config"
		if i%7 != 0 {
			H = c20Hashes[int(i)%nh]
			n := mon.Pick(r, counts)
			if r.IntN(4) == 0 {
				n = 1024 + r.IntN(1<<20)
			}
			if i%30 == 1 {
				n = bigCounts[int(i/30)%len(bigCounts)]
				if H.id == 3 {
					H = c20Hashes[3] // the RIPEMD-160 reference is slow: large counts use SHA-256 here (covered in the iterated stream)
				}
			}
			cfg = &s2k.Config{Hash: H.ch, S2KCount: n}
			wantCount = n
			cls = "config"
			if i%11 == 3 {
				cfg.Hash = 0 // zero Hash: documented default SHA-1
				H = c20Hashes[1]
				cls = "config-default-hash"
			}
		}
		kl := mon.Pick(r, c20KeySizes)
		if wantCount > 1<<20 {
			kl = min(kl, H.size)
		}
		pass := c20Pass(r)
		saltSrc := mon.Bytes(r, 8)
		var w bytes.Buffer
		gkey, gpass := guard(make([]byte, kl)), guard(pass)
		key := gkey.b()
		err := s2k.Serialize(&w, key, bytes.NewReader(saltSrc), gpass.b(), cfg)
		m.Eval()
		checkInputs(m, "Serialize", map[string]any{"keyLen": kl}, map[string]*guarded{"passphrase": gpass})
		m.Count("output_overrun_checks", 1)
		if !gkey.spareIntact() {
			m.Violation("output-buffer-overrun:serialize", map[string]any{"keyLen": kl})
		}
		c20Ret.verify("Serialize")
		wit := map[string]any{"class": cls, "hash": H.name, "S2KCount": wantCount, "keyLen": kl, "passphrase": mon.FullHex(pass), "rand": mon.FullHex(saltSrc), "spec": mon.FullHex(w.Bytes())}
		if err != nil {
			wit["err"] = err.Error()
			m.Violation("serialize-failed", wit)
			return
		}
		spec := w.Bytes()
		sp, perr := s2kref.ParseSpec(spec)
		if perr != nil || sp.Len != len(spec) {
			m.Violation("serialize-emits-malformed-specifier", wit)
			return
		}
		f, err := s2k.Parse(bytes.NewReader(spec))
		if err != nil {
			wit["err"] = err.Error()
			m.Violation("serialize-output-does-not-parse", wit)
			return
		}
		out := make([]byte, kl)
		f(out, pass)
		m.Count("serialize_roundtrips", 1)
		m.Count("serialize:"+cls, 1)
		m.Distinct(fmt.Sprintf("serialize %s %s c>>4=%d ctxs=%d", cls, H.name, sp.CountC>>4, (kl+H.size-1)/H.size))
		if !bytes.Equal(out, key) {
			wit["serialize_key"], wit["parsed_key"] = mon.Hex(key), mon.Hex(out)
			m.Violation("serialize-parse-different-function", wit)
			return
		}
		// the emitted specifier, read by the RFC, must give the key Serialize wrote
		hidx := -1
		for k, h := range c20Hashes {
			if h.id == sp.HashID {
				hidx = k
			}
		}
		if hidx < 0 {
			m.Violation("serialize-emits-unknown-hash-id", wit)
			return
		}
		want := sp.Derive(c20Hashes[hidx].h, pass, kl)
		m.Count("ref_comparisons", 1)
		if !bytes.Equal(key, want) {
			wit["serialize_key"], wit["want"] = mon.Hex(key), mon.Hex(want)
			m.Violation("serialize-key-differs-from-its-specifier", wit)
			return
		}
		// observations about documented Config behaviour (not part of the statement): hash id and count rounding
		if sp.HashID == H.id {
			m.Count("serialize_hash_id_as_configured", 1)
		} else {
			m.Count("serialize_hash_id_other", 1)
		}
		if i < 1 {
			m.Sample(map[string]any{"class": cls, "spec": mon.FullHex(spec), "keyLen": kl, "passlen": len(pass)})
		}
	})

	// ---------- unsupported hash ids ----------
	m.Each("unsupported", 256*3, func(i int64, r *rand.Rand) {
		id := byte(i % 256)
		mode := []byte{0, 1, 3}[i/256]
		supported := false
		for _, h := range c20Hashes {
			if h.id == id {
				supported = true
			}
		}
		spec := append([]byte{mode, id}, mon.Bytes(r, 9)...)
		f, err := s2k.Parse(bytes.NewReader(spec))
		m.Eval()
		if supported {
			m.Count("supported_hash_id_parsed", 1)
			if err != nil || f == nil {
				m.Violation(fmt.Sprintf("valid-specifier-rejected:%s:id=%d", c20Modes[int(mode)], id), map[string]any{"spec": mon.FullHex(spec), "err": fmt.Sprint(err)})
			}
			return
		}
		m.Count("unsupported_hash_id_cases", 1)
		m.Distinct(fmt.Sprintf("unsupported id=%d mode=%d", id, mode))
		if err == nil {
			m.Violation("unsupported-hash-id-accepted", map[string]any{"spec": mon.FullHex(spec), "hash_id": id, "mode": mode})
		}
	})
	// observations only: unknown specifier types, truncated specifiers
	m.Each("observe", 256, func(i int64, r *rand.Rand) {
		mode := byte(i)
		if mode == 0 || mode == 1 || mode == 3 {
			for cut := 0; cut < 11; cut++ {
				full := append([]byte{mode, 8}, mon.Bytes(r, 9)...)
				need := map[byte]int{0: 2, 1: 10, 3: 11}[mode]
				if cut >= need {
					break
				}
				_, err := s2k.Parse(bytes.NewReader(full[:cut]))
				if err != nil {
					m.Count("observed_truncated_specifier_error", 1)
				} else {
					m.Count("observed_truncated_specifier_accepted", 1)
				}
			}
			return
		}
		_, err := s2k.Parse(bytes.NewReader(append([]byte{mode, 8}, mon.Bytes(r, 9)...)))
		if err != nil {
			m.Count("observed_unknown_type_error", 1)
		} else {
			m.Count("observed_unknown_type_accepted", 1)
		}
	})

	c20Ret.verify("end of run")
	m.Gate("retention_reverifications", m.N(10000, 200000), "outputs of earlier calls re-verified after later calls (ring of 8)")
	m.Gate("retained_function_reinvocations", m.N(2000, 30000), "functions returned by earlier Parse calls re-invoked after later Parse calls")
	m.Gate("input_immutability_checks", m.N(3000, 50000), "passphrase (with sentinel-filled spare capacity) unchanged after the call")
	m.Gate("output_overrun_checks", m.N(3000, 50000), "capacity behind the output buffer untouched")
	for _, H := range c20Hashes {
		m.Gate("multi_context:"+H.name, 6, "keyLen > hash size: extra contexts preloaded with zero octets ("+H.name+")")
	}
	m.Gate("three_or_more_contexts", 20, "third and later contexts (2, 3, … zero octets)")
	m.Gate("count_bytes_covered", m.N(185, 256), "distinct coded count bytes run through Parse and compared")
	m.Gate("count_byte_0xff", 1, "largest count 65 011 712")
	m.Gate("count_byte_0x00", 1, "smallest count 1024")
	m.Gate("count_below_salt_plus_passphrase", m.N(200, 3000), "octet count smaller than salt‖passphrase: whole string hashed once")
	m.Gate("empty_passphrase", 20, "empty passphrase")
	m.Gate("gcrypt_comparisons", m.N(2500, 40000), "cases confirmed by libgcrypt")
	m.Gate("serialize_roundtrips", m.N(210, 3150), "Serialize → Parse round trips")
	m.Gate("unsupported_hash_id_cases", 249*3, "unsupported hash ids × modes")
}

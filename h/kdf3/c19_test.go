package kdf3

import (
	"bytes"
	"crypto/ecdsa"
	"crypto/ed25519"
	"crypto/elliptic"
	"encoding/pem"
	"fmt"
	"math"
	"math/rand/v2"
	"os"
	"os/exec"
	"path/filepath"
	"strings"
	"testing"

	"golang.org/x/crypto/ssh"
	"verif/ext"
	"verif/mon"
	ref "verif/ref/bcryptpbkdf"
)

// C19: ssh/internal/bcrypt_pbkdf.Key equals OpenBSD bcrypt_pbkdf for every
// non-empty password, salt 1..2^20, rounds >= 1, keyLen <= 1024; error exactly
// for the documented invalid arguments.
func TestC19(t *testing.T) {
	m := mon.New(t, "C19")
	defer m.Done()
	m.Rule("streams: (main) (password, salt, rounds, keyLen) with lengths drawn from boundary sets — password 1..100 plus SHA-512 padding edges {111,112,127,128,129,300}, salt 1..64 plus {107,108,124,200} (salt‖be32 crossing SHA-512 blocks), rounds 1..32 weighted to {1,2,3}, keyLen 32k+{-1,0,1} for k=1..7, uniform 1..200, and {1,1023,1024} — Key via the ssh.VerifBcryptPBKDF re-export compared byte for byte with an executable spec of OpenBSD bcrypt_pbkdf on π-derived Blowfish; (invalid) every documented invalid class (empty password, empty salt, salt > 2^20, rounds < 1, keyLen > 1024) alone and combined must return an error, the adjacent valid boundary (salt = 2^20, keyLen = 1024, rounds = 1) must not; (openssh→go) ssh-keygen -a R writes a bcrypt-protected key that ssh.ParseRawPrivateKeyWithPassphrase must open to the same public key and reject under a wrong passphrase, with the ref and Key agreeing on the 48 derived bytes for the file's salt/rounds; (go→openssh) ssh.MarshalPrivateKeyWithPassphrase output must be opened by ssh-keygen -y -P. distinct key = (pwlen class, saltlen class, rounds class, blocks, keyLen mod 32 class) resp. (direction, R, key type, passphrase class); non-trivial = an oracle comparison or an expected-error observation was made. Cross-cutting monitors on every call: (retention) the last 8 returned keys are kept as returned and re-verified after every later call into the package (dedicated sequences alternate larger/smaller keyLen incl. 1024, and an error-returning call); (concurrent) 6 goroutines released from a barrier call Key twice each — three of them with the very same password/salt slices and arguments, three with their own — results (precomputed from the ref) judged after the join, one case in four under GOMAXPROCS(1) with yields between calls; the same stream alone is run in a -race build; (inputs) password and salt carry 24 sentinel octets of spare capacity and must be bit-identical after the call")
	m.Assume("ref/bcryptpbkdf (own Blowfish from π via math/big, own eksblowfish and stride/fold logic transcribed from the OpenBSD description) is validated by Schneier's Blowfish vectors, the OpenBSD bcrypt_pbkdf vectors and by decrypting ssh-keygen output in its unit test; it uses the Go standard library SHA-512 and AES, which are trusted here; OpenSSH 9.2 ssh-keygen is the end-to-end witness")
	m.Assume("keyLen = 0 is rejected by OpenBSD and accepted (empty key) by the package, which documents no such error: both outcomes are accepted; negative keyLen is outside the statement and only observed (counter), not judged")

	c19Ret = newRetMon(m, 8)
	if mon.RaceBuild {
		// race-detector variant: only the shared-value concurrency stream
		c19Concurrent(m)
		concGates(m, c19ConcN(m))
		return
	}

	// ---------- main: ref comparison ----------
	pwSpecial := []int{1, 2, 55, 56, 63, 64, 65, 100, 111, 112, 127, 128, 129, 300}
	saltSpecial := []int{1, 2, 16, 59, 60, 61, 64, 107, 108, 123, 124, 125, 200}
	m.Cases("main", m.N(600, 20000), func(i int64, r *rand.Rand) {
		var pl, sl, rounds, kl int
		if r.IntN(4) == 0 {
			pl = mon.Pick(r, pwSpecial)
		} else {
			pl = 1 + r.IntN(100)
		}
		if r.IntN(4) == 0 {
			sl = mon.Pick(r, saltSpecial)
		} else {
			sl = 1 + r.IntN(64)
		}
		switch r.IntN(5) {
		case 0, 1:
			rounds = 1 + r.IntN(3)
		default:
			rounds = 1 + r.IntN(32)
		}
		switch r.IntN(10) {
		case 0, 1, 2, 3:
			kl = 32*(1+r.IntN(7)) + r.IntN(3) - 1
		case 4:
			kl = mon.Pick(r, []int{1, 2, 31, 32, 33, 48, 200, 1023, 1024, 992, 993})
		default:
			kl = 1 + r.IntN(200)
		}
		// the first cases force every boundary class the gates name
		switch i {
		case 0:
			rounds, kl = 1, 1024
		case 1:
			rounds, kl = 2, 1023
		case 2:
			rounds, kl = 1, 1
		case 3:
			rounds, kl = 32, 33
		case 4:
			rounds, kl = 2, 64
		case 5:
			rounds, kl = 3, 65
		case 6:
			rounds, kl, pl, sl = 1, 48, 129, 125
		case 7:
			rounds, kl = 1, 32
		}
		blocks := (kl + 31) / 32
		if blocks > 8 && rounds > 2 {
			rounds = 1 + rounds%2 // 1024-byte keys cost 32 blocks: keep them cheap
		}
		pw, salt := mon.Bytes(r, pl), mon.Bytes(r, sl)
		if r.IntN(8) == 0 {
			pw = bytes.Repeat([]byte{byte(r.IntN(256))}, pl) // includes all-zero passwords
		}
		c19Compare(m, pw, salt, rounds, kl, i < 3)
	})

	// ---------- invalid arguments / adjacent valid boundaries ----------
	m.Cases("invalid", m.N(240, 2400), func(i int64, r *rand.Rand) {
		pl, sl, rounds, kl := 1+r.IntN(20), 1+r.IntN(20), 1+r.IntN(2), 1+r.IntN(64)
		class := int(i % 12)
		var name string
		switch class {
		case 0:
			name, pl = "empty-password", 0
		case 1:
			name, sl = "empty-salt", 0
		case 2:
			name, rounds = "rounds<1", mon.Pick(r, []int{0, -1, -2, -16, math.MinInt, math.MinInt32})
		case 3:
			name, kl = "keyLen>1024", mon.Pick(r, []int{1025, 1026, 1056, 2048, 1 << 20, math.MaxInt32, math.MaxInt})
		case 4:
			name, sl, rounds, kl = "salt>2^20", (1<<20)+1+r.IntN(3), 1, 32
		case 5:
			name = "combined"
			pl, sl, rounds, kl = 0, 0, 0, 1025
			// drop one of the four defects at random so that every check order is exercised
			switch r.IntN(5) {
			case 0:
				pl = 3
			case 1:
				sl = 3
			case 2:
				rounds = 1
			case 3:
				kl = 32
			}
		case 6:
			name, sl, rounds, kl = "valid:salt=2^20", 1<<20, 1, 1+r.IntN(40)
		case 7:
			name, rounds, kl = "valid:keyLen=1024", 1, 1024
		case 8:
			name, rounds = "valid:rounds=1", 1
		case 9:
			name, kl = "keyLen=0", 0
		case 10:
			name, kl = "keyLen<0", mon.Pick(r, []int{-1, -31, -32, -33, -100, math.MinInt})
		case 11:
			name, pl, sl, rounds, kl = "valid:minimal", 1, 1, 1, 1
		}
		pw, salt := mon.Bytes(r, pl), mon.Bytes(r, sl)
		wit := map[string]any{"class": name, "pwlen": pl, "saltlen": sl, "rounds": rounds, "keyLen": kl, "pw": mon.Hex(pw), "salt": mon.Hex(salt)}
		switch {
		case strings.HasPrefix(name, "valid:"):
			m.Count("valid_boundary_cases", 1)
			c19Compare(m, pw, salt, rounds, kl, false)
		case name == "keyLen=0":
			var key []byte
			var err error
			pv, _ := mon.Panics(func() { key, err = ssh.VerifBcryptPBKDF(pw, salt, rounds, kl) })
			m.Eval()
			m.Distinct("keyLen=0")
			m.Count("zero_keylen_cases", 1)
			if pv != nil {
				wit["panic"] = fmt.Sprint(pv)
				m.Violation("panic:keyLen=0", wit)
			} else if err == nil && len(key) != 0 {
				m.Violation("keyLen=0-nonempty-key", wit)
			}
		case name == "keyLen<0":
			// outside the statement (no documented error, OpenBSD's size_t cannot be negative): observe only
			var err error
			pv, _ := mon.Panics(func() { _, err = ssh.VerifBcryptPBKDF(pw, salt, rounds, kl) })
			m.Count("negative_keylen_observed", 1)
			if pv != nil {
				m.Count("negative_keylen_observed_panic", 1)
			} else if err != nil {
				m.Count("negative_keylen_observed_error", 1)
			}
		default:
			key, err := ssh.VerifBcryptPBKDF(pw, salt, rounds, kl) // a panic here is caught by Cases as a violation
			m.Eval()
			m.Distinct("invalid:" + name)
			m.Count("invalid_arg_cases", 1)
			m.Count("invalid:"+name, 1)
			if err == nil {
				wit["got"] = mon.Hex(key)
				m.Violation("invalid-args-accepted:"+name, wit)
			}
			if _, rerr := ref.Key(pw, salt, rounds, kl); rerr == nil {
				m.Inconclusive("ref accepts a documented-invalid argument set: " + name)
			}
		}
	})

	// ---------- retention sequences and concurrent callers ----------
	c19Retention(m)
	c19Concurrent(m)

	// ---------- end to end with OpenSSH ----------
	c19OpenSSH(m)
	c19Ret.verify("end of run")

	m.Gate("ref_comparisons", m.N(500, 15000), "valid argument sets compared with the OpenBSD executable spec")
	m.Gate("multi_block_cases", m.N(100, 3000), "keyLen > 32: strided output over several blocks")
	m.Gate("partial_last_block_cases", m.N(50, 1500), "keyLen not a multiple of 32 and > 32: stride with truncated tail")
	m.Gate("rounds_1_cases", 20, "rounds = 1: no folding iteration")
	m.Gate("rounds_gt1_cases", m.N(100, 3000), "rounds > 1: XOR folding")
	m.Gate("keylen_1024_cases", 1, "maximum key length (32 blocks)")
	m.Gate("invalid_arg_cases", m.N(100, 1000), "documented invalid arguments observed")
	m.Gate("valid_boundary_cases", m.N(60, 600), "valid arguments adjacent to the documented limits")
	m.Gate("retention_reverifications", m.N(3000, 100000), "earlier returned keys re-verified after later calls (ring of 8)")
	m.Gate("retention_next_call_larger", m.N(80, 800), "a later call with a larger keyLen")
	m.Gate("retention_next_call_smaller", m.N(80, 800), "a later call with a smaller keyLen")
	m.Gate("concurrent_calls", m.N(288, 2880), "calls made from 6 concurrent goroutines, verified after all returned")
	concGates(m, c19ConcN(m))
	m.Gate("input_immutability_checks", m.N(1500, 40000), "password/salt (with sentinel-filled spare capacity) unchanged after the call")
	m.Gate("openssh_to_go_opened", m.N(10, 40), "ssh-keygen written keys opened by ParseRawPrivateKeyWithPassphrase")
	m.Gate("go_to_openssh_opened", m.N(6, 30), "MarshalPrivateKeyWithPassphrase output opened by ssh-keygen")
}

func lenClass(n int, edges ...int) string {
	for _, e := range edges {
		if n == e {
			return fmt.Sprint(n)
		}
	}
	switch {
	case n <= 8:
		return "1-8"
	case n <= 64:
		return "9-64"
	case n <= 128:
		return "65-128"
	}
	return ">128"
}

// c19Ret retains the last 8 keys Key returned (per process) and re-verifies
// them after every later call into the package.
var c19Ret *retMon

// c19Compare runs Key on a valid argument set and compares with the ref.
func c19Compare(m *mon.M, pw, salt []byte, rounds, kl int, sample bool) {
	gpw, gsalt := guard(pw), guard(salt)
	got, err := ssh.VerifBcryptPBKDF(gpw.b(), gsalt.b(), rounds, kl)
	m.Eval()
	checkInputs(m, "Key", map[string]any{"rounds": rounds, "keyLen": kl}, map[string]*guarded{"password": gpw, "salt": gsalt})
	c19Ret.verify(fmt.Sprintf("Key(keyLen=%d)", kl))
	blocks := (kl + 31) / 32
	rcls := "r=1"
	if rounds == 2 {
		rcls = "r=2"
	} else if rounds > 2 {
		rcls = "r>2"
	}
	bcls := "blocks=1"
	if blocks > 1 {
		bcls = "blocks>1"
	}
	slc := lenClass(len(salt), 107, 108, 123, 124, 125)
	if len(salt) >= 1<<20 {
		slc = "2^20"
	}
	m.Distinct(fmt.Sprintf("pw=%s salt=%s %s blocks=%d kl%%32=%s", lenClass(len(pw), 111, 112, 127, 128, 129), slc, rcls, blocks, []string{"0", "1", "2+"}[min(kl%32, 2)]))
	wit := map[string]any{"pw": mon.FullHex(pw), "rounds": rounds, "keyLen": kl}
	if len(salt) <= 4096 {
		wit["salt"] = mon.FullHex(salt)
	} else {
		wit["salt"] = mon.Hex(salt)
	}
	if err != nil {
		wit["err"] = err.Error()
		m.Violation("valid-args-rejected:"+bcls+":"+rcls, wit)
		return
	}
	want, rerr := ref.Key(pw, salt, rounds, kl)
	if rerr != nil {
		m.Inconclusive("ref rejects a valid argument set")
		return
	}
	m.Count("ref_comparisons", 1)
	if blocks > 1 {
		m.Count("multi_block_cases", 1)
		if kl%32 != 0 {
			m.Count("partial_last_block_cases", 1)
		}
	}
	if rounds == 1 {
		m.Count("rounds_1_cases", 1)
	} else {
		m.Count("rounds_gt1_cases", 1)
	}
	if kl == 1024 {
		m.Count("keylen_1024_cases", 1)
	}
	if (len(salt)+4)%128 == 112 || (len(salt)+4)%128 == 0 || (len(salt)+4)%128 == 1 {
		m.Count("salt_counter_at_sha512_edge", 1)
	}
	if sample {
		m.Sample(map[string]any{"pwlen": len(pw), "saltlen": len(salt), "rounds": rounds, "keyLen": kl, "key_prefix": mon.Hex(got[:min(len(got), 16)])})
	}
	if !bytes.Equal(got, want) {
		wit["got"], wit["want"] = mon.Hex(got), mon.Hex(want)
		if len(got) != len(want) {
			m.Violation("wrong-length", wit)
		} else {
			m.Violation("wrong-key:"+bcls+":"+rcls, wit)
		}
		return
	}
	// the returned key now belongs to the caller: keep it and watch it
	c19Ret.add("bcrypt_pbkdf.Key", got, map[string]any{"pw": wit["pw"], "salt": wit["salt"], "rounds": rounds, "keyLen": kl})
}

// c19Retention: sequences of calls whose keyLen goes up and down; every key
// returned earlier must survive every later call.
func c19Retention(m *mon.M) {
	lens := []int{32, 200, 1, 48, 33, 64, 16, 96, 31, 65}
	m.Cases("retention", m.N(48, 480), func(i int64, r *rand.Rand) {
		prev := -1
		n := 6
		for j := 0; j < n; j++ {
			kl := lens[(int(i)+j*3)%len(lens)]
			if j == 2 && i%8 == 0 {
				kl = 1024 // the largest buffer the package ever needs
			}
			rounds := 1
			if j == 4 {
				rounds = 2
			}
			if prev >= 0 {
				if kl > prev {
					m.Count("retention_next_call_larger", 1)
				} else if kl < prev {
					m.Count("retention_next_call_smaller", 1)
				}
			}
			prev = kl
			c19Compare(m, mon.Bytes(r, 1+r.IntN(40)), mon.Bytes(r, 1+r.IntN(32)), rounds, kl, false)
		}
		// an error-returning call in between must not disturb retained keys either
		ssh.VerifBcryptPBKDF(nil, []byte("s"), 1, 32)
		c19Ret.verify("Key(empty password)")
		m.Count("retention_sequences", 1)
	})
}

var c19Pass = []struct{ cls, s string }{
	{"ascii", "correct horse"},
	{"spaces+punct", "  p@ss w0rd!  ~$'\"\\"},
	{"utf8", "пароль-密碼-ключ"},
	{"short", "abcde"},
	{"len100", strings.Repeat("0123456789", 10)},
	{"len73", strings.Repeat("x", 72) + "y"}, // classic bcrypt truncates at 72: bcrypt_pbkdf must not
	{"single", "z"},
	{"latin1-bytes", "caf\xe9 \xff\xfe"}, // not valid UTF-8: passphrases are bytes
}

func c19OpenSSH(m *mon.M) {
	dir, err := ext.TempDir("c19-")
	if err != nil {
		m.Inconclusive("no scratch dir: " + err.Error())
		return
	}
	defer os.RemoveAll(dir)
	roundsList := []int{1, 2, 16, 17, 32}
	types := []string{"ed25519", "ecdsa", "rsa"}

	// OpenSSH → Go
	m.Cases("openssh-to-go", m.N(10, 40), func(i int64, r *rand.Rand) {
		R := roundsList[int(i)%len(roundsList)]
		pc := c19Pass[int(i/int64(len(roundsList)))%len(c19Pass)]
		kt := types[0]
		if m.Thorough() || i >= 5 {
			kt = types[int(i/5)%len(types)]
		}
		f := filepath.Join(dir, fmt.Sprintf("o2g-%d", i))
		args := []string{"-q", "-t", kt, "-a", fmt.Sprint(R), "-N", pc.s, "-C", "c19", "-f", f}
		if kt == "rsa" {
			args = append(args, "-b", "2048")
		}
		_, se, err := ext.Run(nil, nil, "ssh-keygen", args...)
		if err != nil {
			m.Count("sshkeygen_failed", 1)
			m.Note("ssh-keygen failed (" + pc.cls + "): " + strings.TrimSpace(se))
			return
		}
		pemBytes, _ := os.ReadFile(f)
		pubLine, _ := os.ReadFile(f + ".pub")
		wantPub, _, _, _, perr := ssh.ParseAuthorizedKey(pubLine)
		wit := map[string]any{"rounds": R, "type": kt, "passphrase": mon.FullHex([]byte(pc.s)), "file": string(pemBytes)}
		// the ref must open the file: otherwise the witnesses disagree among themselves
		info, rerr := ref.DecryptOpenSSHKey(pemBytes, []byte(pc.s))
		if rerr != nil || !info.CheckOK || info.Rounds != R {
			m.Inconclusive(fmt.Sprintf("ref cannot open an ssh-keygen key (R=%d %s): %v", R, pc.cls, rerr))
			return
		}
		m.Count("ref_opened_openssh_key", 1)
		// direct: Key on the file's own salt/rounds, 48 bytes (2 blocks, stride 2)
		c19Compare(m, []byte(pc.s), info.Salt, info.Rounds, 48, false)

		key, err := ssh.ParseRawPrivateKeyWithPassphrase(pemBytes, []byte(pc.s))
		m.Eval()
		m.Distinct(fmt.Sprintf("openssh->go R=%d %s %s", R, kt, pc.cls))
		if err != nil {
			wit["err"] = err.Error()
			m.Violation(fmt.Sprintf("openssh-key-not-opened:R=%d", R), wit)
			return
		}
		signer, err := ssh.NewSignerFromKey(key)
		if err != nil || perr != nil {
			m.Inconclusive(fmt.Sprintf("cannot compare public keys: %v %v", err, perr))
			return
		}
		if !bytes.Equal(signer.PublicKey().Marshal(), wantPub.Marshal()) {
			m.Violation("openssh-key-opened-to-wrong-key", wit)
			return
		}
		c19Ret.verify("ParseRawPrivateKeyWithPassphrase")
		m.Count("openssh_to_go_opened", 1)
		m.Count(fmt.Sprintf("openssh_to_go_R=%d", R), 1)
		if i < 2 {
			m.Sample(map[string]any{"dir": "openssh->go", "rounds": R, "type": kt, "passphrase_class": pc.cls, "saltlen": len(info.Salt)})
		}
		// wrong passphrase must not open the key
		wrong := []byte(pc.s + "x")
		if r.IntN(2) == 0 {
			wrong = []byte(pc.s[:len(pc.s)-1] + "\x01")
		}
		_, werr := ssh.ParseRawPrivateKeyWithPassphrase(pemBytes, wrong)
		m.Eval()
		m.Count("wrong_passphrase_cases", 1)
		if werr == nil {
			wit["wrong"] = mon.FullHex(wrong)
			m.Violation("openssh-key-opened-with-wrong-passphrase", wit)
		}
	})

	// Go → OpenSSH
	m.Cases("go-to-openssh", m.N(6, 30), func(i int64, r *rand.Rand) {
		pc := c19Pass[int(i)%len(c19Pass)]
		if strings.ContainsRune(pc.s, 0) {
			return
		}
		var priv any
		var kt string
		if i%2 == 0 {
			kt = "ed25519"
			k := ed25519.NewKeyFromSeed(mon.Bytes(r, 32))
			priv = k
		} else {
			kt = "ecdsa-p256"
			d := mon.Bytes(r, 32)
			d[0] &= 0x7f // < group order
			d[31] |= 1   // non-zero
			k, err := ecdsa.ParseRawPrivateKey(elliptic.P256(), d)
			if err != nil {
				m.Inconclusive("cannot build P-256 key: " + err.Error())
				return
			}
			priv = k
		}
		blk, err := ssh.MarshalPrivateKeyWithPassphrase(priv, "c19 comment", []byte(pc.s))
		m.Eval()
		m.Distinct(fmt.Sprintf("go->openssh %s %s", kt, pc.cls))
		if err != nil {
			m.Violation("marshal-with-passphrase-failed:"+kt, map[string]any{"err": err.Error()})
			return
		}
		c19Ret.verify("MarshalPrivateKeyWithPassphrase")
		pemBytes := pem.EncodeToMemory(blk)
		signer, err := ssh.NewSignerFromKey(priv)
		if err != nil {
			m.Inconclusive("NewSignerFromKey: " + err.Error())
			return
		}
		f := filepath.Join(dir, fmt.Sprintf("g2o-%d", i))
		if err := os.WriteFile(f, pemBytes, 0o600); err != nil {
			m.Inconclusive("write: " + err.Error())
			return
		}
		wit := map[string]any{"type": kt, "passphrase": mon.FullHex([]byte(pc.s)), "file": string(pemBytes)}
		// ref must be able to open it as well (agreement of witnesses) — if the ref cannot but ssh-keygen can, the ref is off
		info, rerr := ref.DecryptOpenSSHKey(pemBytes, []byte(pc.s))
		refOK := rerr == nil && info.CheckOK
		so, se, err := ext.Run(nil, nil, "ssh-keygen", "-y", "-P", pc.s, "-f", f)
		if err != nil {
			if _, lerr := exec.LookPath("ssh-keygen"); lerr != nil {
				m.Inconclusive("ssh-keygen unavailable")
				return
			}
			wit["stderr"] = strings.TrimSpace(se)
			wit["ref_opens"] = refOK
			if refOK {
				// ref (validated against OpenSSH) opens it but ssh-keygen does not: not a KDF problem → cannot decide here
				m.Inconclusive("ssh-keygen rejects a key the ref opens: " + strings.TrimSpace(se))
				return
			}
			m.Violation("go-key-not-opened-by-openssh:"+kt, wit)
			return
		}
		if !refOK {
			m.Inconclusive("ssh-keygen opens a Go-written key that the ref cannot")
			return
		}
		fields := strings.Fields(so)
		want := strings.Fields(string(ssh.MarshalAuthorizedKey(signer.PublicKey())))
		if len(fields) < 2 || fields[0] != want[0] || fields[1] != want[1] {
			wit["ssh-keygen -y"] = so
			m.Violation("go-key-opened-to-wrong-key-by-openssh:"+kt, wit)
			return
		}
		m.Count("go_to_openssh_opened", 1)
		if i < 1 {
			m.Sample(map[string]any{"dir": "go->openssh", "type": kt, "passphrase_class": pc.cls, "rounds": info.Rounds, "saltlen": len(info.Salt)})
		}
		// and a wrong passphrase must be refused by ssh-keygen (sanity of the witness; not a verdict)
		if _, _, err := ext.Run(nil, nil, "ssh-keygen", "-y", "-P", pc.s+"x", "-f", f); err == nil {
			m.Count("openssh_accepts_wrong_passphrase", 1)
		}
	})
}

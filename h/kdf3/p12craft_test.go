package kdf3

import (
	"crypto/des"
	"crypto/hmac"
	"crypto/sha1"
	"errors"
	"fmt"

	"verif/clib/nettlecipher"
	kdf "verif/ref/pkcs12kdf"
)

// ---------- minimal DER writer/reader (definite lengths), independent of encoding/asn1 ----------

func derLen(n int) []byte {
	if n < 0x80 {
		return []byte{byte(n)}
	}
	var b []byte
	for v := n; v > 0; v >>= 8 {
		b = append([]byte{byte(v)}, b...)
	}
	return append([]byte{0x80 | byte(len(b))}, b...)
}

func tlv(tag byte, parts ...[]byte) []byte {
	n := 0
	for _, p := range parts {
		n += len(p)
	}
	out := append([]byte{tag}, derLen(n)...)
	for _, p := range parts {
		out = append(out, p...)
	}
	return out
}

func derInt(n int) []byte {
	if n < 0 {
		panic("derInt: negative")
	}
	b := []byte{byte(n)}
	for v := n >> 8; v > 0; v >>= 8 {
		b = append([]byte{byte(v)}, b...)
	}
	if b[0]&0x80 != 0 {
		b = append([]byte{0}, b...)
	}
	return tlv(0x02, b)
}

func derOID(arcs ...int) []byte {
	c := []byte{byte(arcs[0]*40 + arcs[1])}
	for _, a := range arcs[2:] {
		var t []byte
		t = append(t, byte(a&0x7f))
		for v := a >> 7; v > 0; v >>= 7 {
			t = append([]byte{byte(v&0x7f) | 0x80}, t...)
		}
		c = append(c, t...)
	}
	return tlv(0x06, c)
}

var (
	oidData      = derOID(1, 2, 840, 113549, 1, 7, 1)
	oidEncData   = derOID(1, 2, 840, 113549, 1, 7, 6)
	oidPBE3DES   = derOID(1, 2, 840, 113549, 1, 12, 1, 3)
	oidPBERC240  = derOID(1, 2, 840, 113549, 1, 12, 1, 6)
	oidKeyBag    = derOID(1, 2, 840, 113549, 1, 12, 10, 1, 2)
	oidCertBag   = derOID(1, 2, 840, 113549, 1, 12, 10, 1, 3)
	oidX509Cert  = derOID(1, 2, 840, 113549, 1, 9, 22, 1)
	oidFriendly  = derOID(1, 2, 840, 113549, 1, 9, 20)
	oidLocalKey  = derOID(1, 2, 840, 113549, 1, 9, 21)
	oidSHA1      = derOID(1, 3, 14, 3, 2, 26)
	derNull      = []byte{0x05, 0x00}
	errDERSyntax = errors.New("der: syntax")
)

type derNode struct {
	tag     byte
	content []byte
	full    []byte
}

func derParse(b []byte) (n derNode, rest []byte, err error) {
	if len(b) < 2 {
		return n, nil, errDERSyntax
	}
	n.tag = b[0]
	l := int(b[1])
	off := 2
	if l&0x80 != 0 {
		k := l & 0x7f
		if k == 0 || k > 3 || len(b) < 2+k {
			return n, nil, errDERSyntax
		}
		l = 0
		for i := 0; i < k; i++ {
			l = l<<8 | int(b[2+i])
		}
		off = 2 + k
	}
	if len(b) < off+l {
		return n, nil, errDERSyntax
	}
	n.content, n.full = b[off:off+l], b[:off+l]
	return n, b[off+l:], nil
}

func derChildren(content []byte) ([]derNode, error) {
	var out []derNode
	for len(content) > 0 {
		n, rest, err := derParse(content)
		if err != nil {
			return nil, err
		}
		out = append(out, n)
		content = rest
	}
	return out, nil
}

func derIntValue(n derNode) int {
	v := 0
	for _, b := range n.content {
		v = v<<8 | int(b)
	}
	return v
}

// ---------- PKCS#12 PBE (RFC 7292 App. C: pbeWithSHAAnd3-KeyTripleDES-CBC, pbeWithSHAAnd40BitRC2-CBC) ----------

const (
	alg3DES  = 0
	algRC240 = 1
)

var algName = []string{"3DES", "RC2-40"}

func algOID(a int) []byte {
	if a == algRC240 {
		return oidPBERC240
	}
	return oidPBE3DES
}

// ecb returns a single-block encrypt/decrypt function for the PBE scheme,
// keyed from the password with the reference KDF. 3DES: Go standard library
// crypto/des (a primitive pkcs12 also uses); RC2: nettle's arctwo via cgo.
func pbeBlock(a int, pw, salt []byte, iter int, enc bool) (blk func(dst, src []byte), iv []byte, err error) {
	iv = kdf.SHA1(kdf.IDIV, pw, salt, iter, 8)
	switch a {
	case alg3DES:
		key := kdf.SHA1(kdf.IDKey, pw, salt, iter, 24)
		c, err := des.NewTripleDESCipher(key)
		if err != nil {
			return nil, nil, err
		}
		if enc {
			return c.Encrypt, iv, nil
		}
		return c.Decrypt, iv, nil
	case algRC240:
		key := kdf.SHA1(kdf.IDKey, pw, salt, iter, 5)
		return func(dst, src []byte) {
			o, e := nettlecipher.RC2(enc, key, 40, src[:8])
			if e != nil {
				panic(e)
			}
			copy(dst, o)
		}, iv, nil
	}
	return nil, nil, fmt.Errorf("bad alg")
}

func pkcs7Pad(p []byte) []byte {
	n := 8 - len(p)%8
	out := append([]byte{}, p...)
	for i := 0; i < n; i++ {
		out = append(out, byte(n))
	}
	return out
}

// cbcEncrypt encrypts already padded plaintext.
func cbcEncrypt(a int, pw, salt []byte, iter int, padded []byte) ([]byte, error) {
	if len(padded)%8 != 0 {
		return nil, fmt.Errorf("cbcEncrypt: unpadded input")
	}
	blk, iv, err := pbeBlock(a, pw, salt, iter, true)
	if err != nil {
		return nil, err
	}
	out := make([]byte, len(padded))
	prev := iv
	var x [8]byte
	for off := 0; off < len(padded); off += 8 {
		for k := 0; k < 8; k++ {
			x[k] = padded[off+k] ^ prev[k]
		}
		blk(out[off:off+8], x[:])
		prev = out[off : off+8]
	}
	return out, nil
}

// cbcDecrypt decrypts and strips PKCS#7 padding (all pad octets checked).
func cbcDecrypt(a int, pw, salt []byte, iter int, ct []byte) ([]byte, error) {
	if len(ct) == 0 || len(ct)%8 != 0 {
		return nil, fmt.Errorf("cbcDecrypt: bad length")
	}
	blk, iv, err := pbeBlock(a, pw, salt, iter, false)
	if err != nil {
		return nil, err
	}
	out := make([]byte, len(ct))
	prev := iv
	for off := 0; off < len(ct); off += 8 {
		blk(out[off:off+8], ct[off:off+8])
		for k := 0; k < 8; k++ {
			out[off+k] ^= prev[k]
		}
		prev = ct[off : off+8]
	}
	n := int(out[len(out)-1])
	if n < 1 || n > 8 {
		return nil, fmt.Errorf("bad padding")
	}
	for _, b := range out[len(out)-n:] {
		if int(b) != n {
			return nil, fmt.Errorf("bad padding")
		}
	}
	return out[:len(out)-n], nil
}

func macOver(pw, salt []byte, iter int, content []byte) []byte {
	key := kdf.SHA1(kdf.IDMAC, pw, salt, iter, 20)
	h := hmac.New(sha1.New, key)
	h.Write(content)
	return h.Sum(nil)
}

// ---------- crafting a PFX ----------

type p12Spec struct {
	pw          []byte // formatted password octets (BMP‖0000, or nil for the empty-array convention)
	macSalt     []byte
	macIter     int
	omitMacIter bool // encode DEFAULT 1 by omission (only meaningful when macIter == 1)
	certAlg     int
	certSalt    []byte
	certIter    int
	keyAlg      int
	keySalt     []byte
	keyIter     int
	certDER     []byte
	pkcs8       []byte
	friendly    []rune // friendlyName attribute on both bags when non-nil
	localID     []byte

	// mutation hooks (nil = identity)
	certPlain func(safeContents []byte) []byte // cert SafeContents before padding/encryption
	keyPlain  func(pkcs8 []byte) []byte        // PKCS#8 PrivateKeyInfo before padding/encryption
	certPad   func(padded []byte) []byte       // after padding, before encryption
	keyPad    func(padded []byte) []byte
	authSafe  func(a []byte) []byte // AuthenticatedSafe DER before MAC (MAC is computed over the result)
}

func (s *p12Spec) attrs() []byte {
	var set [][]byte
	if s.friendly != nil {
		var bmp []byte
		for _, c := range s.friendly {
			bmp = append(bmp, byte(c>>8), byte(c))
		}
		set = append(set, tlv(0x30, oidFriendly, tlv(0x31, tlv(0x1e, bmp))))
	}
	if s.localID != nil {
		set = append(set, tlv(0x30, oidLocalKey, tlv(0x31, tlv(0x04, s.localID))))
	}
	if set == nil {
		return nil
	}
	return tlv(0x31, set...)
}

func pbeAlgID(a int, salt []byte, iter int) []byte {
	return tlv(0x30, algOID(a), tlv(0x30, tlv(0x04, salt), derInt(iter)))
}

// certSafeContents is the plaintext SafeContents holding the certificate bag.
func (s *p12Spec) certSafeContents() []byte {
	bag := tlv(0x30, oidCertBag, tlv(0xa0, tlv(0x30, oidX509Cert, tlv(0xa0, tlv(0x04, s.certDER)))), s.attrs())
	return tlv(0x30, bag)
}

// build assembles the PFX. Returns the file and the AuthenticatedSafe DER (as MAC'd).
func (s *p12Spec) build() (pfx, auth []byte, err error) {
	apply := func(f func([]byte) []byte, b []byte) []byte {
		if f == nil {
			return b
		}
		return f(append([]byte{}, b...))
	}
	// certificate side: EncryptedData
	cpad := apply(s.certPad, pkcs7Pad(apply(s.certPlain, s.certSafeContents())))
	cct, err := cbcEncrypt(s.certAlg, s.pw, s.certSalt, s.certIter, cpad)
	if err != nil {
		return nil, nil, err
	}
	encData := tlv(0x30, derInt(0), tlv(0x30, oidData, pbeAlgID(s.certAlg, s.certSalt, s.certIter), tlv(0x80, cct)))
	ci1 := tlv(0x30, oidEncData, tlv(0xa0, encData))
	// key side: Data containing a shrouded key bag
	kpad := apply(s.keyPad, pkcs7Pad(apply(s.keyPlain, s.pkcs8)))
	kct, err := cbcEncrypt(s.keyAlg, s.pw, s.keySalt, s.keyIter, kpad)
	if err != nil {
		return nil, nil, err
	}
	epki := tlv(0x30, pbeAlgID(s.keyAlg, s.keySalt, s.keyIter), tlv(0x04, kct))
	keyBag := tlv(0x30, oidKeyBag, tlv(0xa0, epki), s.attrs())
	ci2 := tlv(0x30, oidData, tlv(0xa0, tlv(0x04, tlv(0x30, keyBag))))
	auth = apply(s.authSafe, tlv(0x30, ci1, ci2))
	// MAC
	digest := macOver(s.pw, s.macSalt, s.macIter, auth)
	var iterField []byte
	if !(s.omitMacIter && s.macIter == 1) {
		iterField = derInt(s.macIter)
	}
	macData := tlv(0x30, tlv(0x30, tlv(0x30, oidSHA1, derNull), tlv(0x04, digest)), tlv(0x04, s.macSalt), iterField)
	pfx = tlv(0x30, derInt(3), tlv(0x30, oidData, tlv(0xa0, tlv(0x04, auth))), macData)
	return pfx, auth, nil
}

// ---------- reading a PFX with the reference stack (used to check that OpenSSL and the reference agree) ----------

type p12Read struct {
	auth               []byte
	macDigest, macSalt []byte
	macIter            int
	certDER, pkcs8     []byte
	certAlg, keyAlg    int
}

func algFromOID(o derNode) (int, error) {
	switch string(o.full) {
	case string(oidPBE3DES):
		return alg3DES, nil
	case string(oidPBERC240):
		return algRC240, nil
	}
	return 0, fmt.Errorf("unsupported PBE OID %x", o.content)
}

func pbeParams(algID derNode) (a int, salt []byte, iter int, err error) {
	ch, err := derChildren(algID.content)
	if err != nil || len(ch) != 2 {
		return 0, nil, 0, errDERSyntax
	}
	if a, err = algFromOID(ch[0]); err != nil {
		return
	}
	pp, err := derChildren(ch[1].content)
	if err != nil || len(pp) != 2 {
		return 0, nil, 0, errDERSyntax
	}
	return a, pp[0].content, derIntValue(pp[1]), nil
}

// refReadPFX opens a PFX of the OpenSSL legacy shape (EncryptedData with the
// certificate, Data with one shrouded key bag) with the reference KDF. pwForms
// are tried in order (e.g. BMP("") then the empty array). Returns which form matched.
func refReadPFX(pfx []byte, pwForms [][]byte) (*p12Read, int, error) {
	top, rest, err := derParse(pfx)
	if err != nil || len(rest) != 0 {
		return nil, -1, errDERSyntax
	}
	tc, err := derChildren(top.content)
	if err != nil || len(tc) != 3 {
		return nil, -1, fmt.Errorf("pfx: want 3 fields")
	}
	ac, err := derChildren(tc[1].content)
	if err != nil || len(ac) != 2 {
		return nil, -1, errDERSyntax
	}
	oct, _, err := derParse(ac[1].content)
	if err != nil {
		return nil, -1, err
	}
	rd := &p12Read{auth: oct.content, macIter: 1}
	mc, err := derChildren(tc[2].content)
	if err != nil || len(mc) < 2 {
		return nil, -1, errDERSyntax
	}
	di, err := derChildren(mc[0].content)
	if err != nil || len(di) != 2 {
		return nil, -1, errDERSyntax
	}
	rd.macDigest, rd.macSalt = di[1].content, mc[1].content
	if len(mc) > 2 {
		rd.macIter = derIntValue(mc[2])
	}
	form := -1
	for k, pw := range pwForms {
		if hmac.Equal(macOver(pw, rd.macSalt, rd.macIter, rd.auth), rd.macDigest) {
			form = k
			break
		}
	}
	if form < 0 {
		return rd, -1, fmt.Errorf("reference MAC check fails under every password form")
	}
	pw := pwForms[form]
	seq, _, err := derParse(rd.auth)
	if err != nil {
		return rd, form, err
	}
	cis, err := derChildren(seq.content)
	if err != nil {
		return rd, form, err
	}
	for _, ci := range cis {
		f, err := derChildren(ci.content)
		if err != nil || len(f) != 2 {
			return rd, form, errDERSyntax
		}
		inner, _, err := derParse(f[1].content)
		if err != nil {
			return rd, form, err
		}
		var safe []byte
		switch string(f[0].full) {
		case string(oidData):
			safe = inner.content
		case string(oidEncData):
			ed, err := derChildren(inner.content)
			if err != nil || len(ed) != 2 {
				return rd, form, errDERSyntax
			}
			eci, err := derChildren(ed[1].content)
			if err != nil || len(eci) != 3 {
				return rd, form, errDERSyntax
			}
			a, salt, iter, err := pbeParams(eci[1])
			if err != nil {
				return rd, form, err
			}
			rd.certAlg = a
			if safe, err = cbcDecrypt(a, pw, salt, iter, eci[2].content); err != nil {
				return rd, form, fmt.Errorf("reference cannot decrypt the certificate SafeContents: %v", err)
			}
		default:
			return rd, form, fmt.Errorf("unknown content type")
		}
		sc, _, err := derParse(safe)
		if err != nil {
			return rd, form, err
		}
		bags, err := derChildren(sc.content)
		if err != nil {
			return rd, form, err
		}
		for _, bag := range bags {
			bf, err := derChildren(bag.content)
			if err != nil || len(bf) < 2 {
				return rd, form, errDERSyntax
			}
			val, _, err := derParse(bf[1].content)
			if err != nil {
				return rd, form, err
			}
			switch string(bf[0].full) {
			case string(oidCertBag):
				cb, err := derChildren(val.content)
				if err != nil || len(cb) != 2 {
					return rd, form, errDERSyntax
				}
				o, _, err := derParse(cb[1].content)
				if err != nil {
					return rd, form, err
				}
				rd.certDER = o.content
			case string(oidKeyBag):
				ep, err := derChildren(val.content)
				if err != nil || len(ep) != 2 {
					return rd, form, errDERSyntax
				}
				a, salt, iter, err := pbeParams(ep[0])
				if err != nil {
					return rd, form, err
				}
				rd.keyAlg = a
				if rd.pkcs8, err = cbcDecrypt(a, pw, salt, iter, ep[1].content); err != nil {
					return rd, form, fmt.Errorf("reference cannot decrypt the key bag: %v", err)
				}
			}
		}
	}
	return rd, form, nil
}

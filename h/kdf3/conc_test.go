package kdf3

import (
	"bytes"
	"crypto"
	"crypto/x509"
	"fmt"
	"io"
	"math/rand/v2"
	"runtime"
	"sync"
	"sync/atomic"

	"golang.org/x/crypto/openpgp/s2k"
	"golang.org/x/crypto/pkcs12"
	"golang.org/x/crypto/ssh"
	"verif/mon"
	ref "verif/ref/bcryptpbkdf"
	"verif/ref/s2kref"
)

// ---------- shared-value concurrency: common driver ----------
//
// Package-level functions (Key, Parse, Serialize, Simple/Salted/Iterated,
// Decode, ToPEM) are called at once by several goroutines, with identical
// arguments (the very same read-only input slices) and with different
// arguments. Stateful values (the function returned by Parse, hash.Hash) are
// never shared: one per goroutine. Expected values are computed beforehand,
// single-threaded, from the references; goroutines meet at a barrier and the
// results are judged after the join. Which interleavings occur is the
// scheduler's choice; the monitor only records that calls did overlap.

type concTask struct {
	shared bool   // uses the case's shared input slices / identical arguments
	run    func() // the calls; stores its results for judge
	judge  func() // after join
	pv     any
}

// concRun releases all tasks at once. oneP runs the case under GOMAXPROCS(1)
// (sync.Pool is per-P: that is where pooled-buffer slips collide); tasks are
// expected to call runtime.Gosched() between their own calls.
func concRun(m *mon.M, tasks []*concTask, oneP bool) {
	if oneP {
		prev := runtime.GOMAXPROCS(1)
		defer runtime.GOMAXPROCS(prev)
		m.Count("concurrent_gomaxprocs1_cases", 1)
	}
	var ready, done sync.WaitGroup
	start := make(chan struct{})
	var inflight, maxSeen atomic.Int32
	for _, t := range tasks {
		ready.Add(1)
		done.Add(1)
		go func(t *concTask) {
			defer done.Done()
			ready.Done()
			<-start
			n := inflight.Add(1)
			for {
				o := maxSeen.Load()
				if n <= o || maxSeen.CompareAndSwap(o, n) {
					break
				}
			}
			t.pv, _ = mon.Panics(t.run)
			inflight.Add(-1)
		}(t)
	}
	ready.Wait()
	close(start)
	done.Wait()
	m.Count("concurrent_cases", 1)
	if maxSeen.Load() >= 2 {
		m.Count("concurrent_overlap_cases", 1)
	}
	for _, t := range tasks {
		if t.shared {
			m.Count("concurrent_tasks_identical_args", 1)
		} else {
			m.Count("concurrent_tasks_distinct_args", 1)
		}
		if t.pv != nil {
			m.Violation("panic:concurrent-call", map[string]any{"panic": fmt.Sprint(t.pv)})
			continue
		}
		t.judge()
	}
}

func sd(shared bool) string {
	if shared {
		return "shared"
	}
	return "distinct"
}

// yieldReader / yieldWriter: user code the library calls back into — a legal
// suspension point.
type yieldReader struct{ r io.Reader }

func (y yieldReader) Read(p []byte) (int, error) { runtime.Gosched(); return y.r.Read(p) }

type yieldWriter struct{ w io.Writer }

func (y yieldWriter) Write(p []byte) (int, error) { runtime.Gosched(); return y.w.Write(p) }

func concGates(m *mon.M, cases int) {
	m.Gate("concurrent_cases", cases, "cases in which several goroutines called the package at once")
	m.Gate("concurrent_overlap_cases", cases/4, "cases in which at least two calls were observed in flight together")
	m.Gate("concurrent_gomaxprocs1_cases", cases/5, "cases run under GOMAXPROCS(1) with yields between calls")
	m.Gate("concurrent_tasks_identical_args", cases*2, "goroutines sharing the same read-only input slices")
	m.Gate("concurrent_tasks_distinct_args", cases*2, "goroutines with their own arguments")
}

// ---------- C19: bcrypt_pbkdf.Key ----------

func c19ConcN(m *mon.M) int {
	if mon.RaceBuild {
		return m.N(8, 40)
	}
	return m.N(24, 240)
}

func c19Concurrent(m *mon.M) {
	m.Cases("concurrent", c19ConcN(m), func(i int64, r *rand.Rand) {
		type args struct {
			pw, salt   *guarded
			rounds, kl int
			want       []byte
		}
		mk := func() *args {
			a := &args{pw: guard(mon.Bytes(r, 1+r.IntN(40))), salt: guard(mon.Bytes(r, 1+r.IntN(32))),
				rounds: 1 + r.IntN(2), kl: mon.Pick(r, []int{1, 16, 32, 33, 48, 64, 65, 96})}
			w, err := ref.Key(a.pw.snap[:a.pw.n], a.salt.snap[:a.salt.n], a.rounds, a.kl)
			if err != nil {
				m.Inconclusive("ref rejects a valid argument set")
			}
			a.want = w
			return a
		}
		sharedArgs := mk()
		const G = 6
		var tasks []*concTask
		for g := 0; g < G; g++ {
			a := sharedArgs
			shared := g%2 == 0
			var second *args
			if !shared {
				a = mk()
			}
			second = mk() // every goroutine also makes a second call of its own
			var got [2][]byte
			var errs [2]error
			t := &concTask{shared: shared}
			t.run = func() {
				got[0], errs[0] = ssh.VerifBcryptPBKDF(a.pw.b(), a.salt.b(), a.rounds, a.kl)
				runtime.Gosched()
				got[1], errs[1] = ssh.VerifBcryptPBKDF(second.pw.b(), second.salt.b(), second.rounds, second.kl)
			}
			t.judge = func() {
				for c, x := range []*args{a, second} {
					m.Eval()
					m.Count("concurrent_calls", 1)
					wit := map[string]any{"goroutine": g, "call": c, "pw": mon.FullHex(x.pw.snap[:x.pw.n]), "salt": mon.FullHex(x.salt.snap[:x.salt.n]), "rounds": x.rounds, "keyLen": x.kl}
					if errs[c] != nil {
						wit["err"] = errs[c].Error()
						m.Violation("concurrent-key-differs:"+sd(shared && c == 0)+":bcrypt_pbkdf.Key", wit)
						continue
					}
					m.Count("ref_comparisons", 1)
					if !bytes.Equal(got[c], x.want) {
						wit["got"], wit["want"] = mon.Hex(got[c]), mon.Hex(x.want)
						m.Violation("concurrent-key-differs:"+sd(shared && c == 0)+":bcrypt_pbkdf.Key", wit)
					}
				}
				if !shared {
					checkInputs(m, "Key-concurrent", nil, map[string]*guarded{"password": a.pw, "salt": a.salt})
				}
				checkInputs(m, "Key-concurrent", nil, map[string]*guarded{"password": second.pw, "salt": second.salt})
			}
			tasks = append(tasks, t)
		}
		concRun(m, tasks, i%4 == 3)
		checkInputs(m, "Key-concurrent-shared", nil, map[string]*guarded{"password": sharedArgs.pw, "salt": sharedArgs.salt})
		if c19Ret != nil {
			c19Ret.verify("concurrent Key calls")
		}
		m.Distinct(fmt.Sprintf("concurrent 6x2 oneP=%v", i%4 == 3))
	})
}

// ---------- C20: s2k ----------

func c20ConcN(m *mon.M) int {
	if mon.RaceBuild {
		return m.N(40, 200)
	}
	return m.N(120, 1200)
}

func c20Concurrent(m *mon.M) {
	m.Cases("concurrent", c20ConcN(m), func(i int64, r *rand.Rand) {
		type args struct {
			spec   []byte // read-only
			pass   *guarded
			kl     int
			hidx   int
			want   []byte
			direct bool // call s2k.Simple/Salted/Iterated with an own hash.Hash instead of Parse
		}
		mk := func() *args {
			hidx := r.IntN(len(c20Hashes))
			H := c20Hashes[hidx]
			mode := []byte{0, 1, 3, 3}[r.IntN(4)]
			spec := []byte{mode, H.id}
			if mode != 0 {
				spec = append(spec, mon.Bytes(r, 8)...)
			}
			if mode == 3 {
				spec = append(spec, byte(r.IntN(0x70))) // counts up to 126976 octets
			}
			a := &args{spec: spec, pass: guard(c20Pass(r)), kl: mon.Pick(r, c20KeySizes), hidx: hidx, direct: r.IntN(3) == 0}
			sp, _ := s2kref.ParseSpec(spec)
			a.want = sp.Derive(H.h, a.pass.snap[:a.pass.n], a.kl)
			return a
		}
		call := func(a *args) ([]byte, error) {
			H := c20Hashes[a.hidx]
			out := make([]byte, a.kl)
			if a.direct {
				h := H.ch.New() // one hash.Hash per call: never shared
				switch a.spec[0] {
				case 0:
					s2k.Simple(out, h, a.pass.b())
				case 1:
					s2k.Salted(out, h, a.pass.b(), a.spec[2:10])
				case 3:
					s2k.Iterated(out, h, a.pass.b(), a.spec[2:10], s2kref.DecodeCount(a.spec[10]))
				}
				return out, nil
			}
			f, err := s2k.Parse(yieldReader{bytes.NewReader(a.spec)})
			if err != nil {
				return nil, err
			}
			f(out, a.pass.b()) // the returned function is this goroutine's own
			return out, nil
		}
		sharedArgs := mk()
		const G = 6
		var tasks []*concTask
		for g := 0; g < G; g++ {
			shared := g%2 == 0
			a := sharedArgs
			if !shared {
				a = mk()
			}
			second := mk()
			// Serialize as third call: own rand/writer, shared or own passphrase
			serHash := c20Hashes[r.IntN(len(c20Hashes))]
			serCount := 1024 + r.IntN(60000)
			serSalt := mon.Bytes(r, 8)
			serKL := mon.Pick(r, c20KeySizes)
			var got [2][]byte
			var errs [2]error
			var serKey, serSpec []byte
			var serErr error
			t := &concTask{shared: shared}
			t.run = func() {
				got[0], errs[0] = call(a)
				runtime.Gosched()
				got[1], errs[1] = call(second)
				runtime.Gosched()
				var w bytes.Buffer
				serKey = make([]byte, serKL)
				serErr = s2k.Serialize(yieldWriter{&w}, serKey, yieldReader{bytes.NewReader(serSalt)}, a.pass.b(), &s2k.Config{Hash: serHash.ch, S2KCount: serCount})
				serSpec = w.Bytes()
			}
			t.judge = func() {
				for c, x := range []*args{a, second} {
					m.Eval()
					m.Count("concurrent_calls", 1)
					api := "s2k.Parse+func"
					if x.direct {
						api = "s2k." + map[byte]string{0: "Simple", 1: "Salted", 3: "Iterated"}[x.spec[0]]
					}
					wit := map[string]any{"goroutine": g, "call": c, "spec": mon.FullHex(x.spec), "passphrase": mon.FullHex(x.pass.snap[:x.pass.n]), "keyLen": x.kl, "api": api}
					if errs[c] != nil {
						wit["err"] = errs[c].Error()
						m.Violation("concurrent-key-differs:"+sd(shared && c == 0)+":"+api, wit)
						continue
					}
					m.Count("ref_comparisons", 1)
					if !bytes.Equal(got[c], x.want) {
						wit["got"], wit["want"] = mon.Hex(got[c]), mon.Hex(x.want)
						m.Violation("concurrent-key-differs:"+sd(shared && c == 0)+":"+api, wit)
					}
				}
				// Serialize: the emitted specifier, read by the RFC, must give the key written
				m.Eval()
				m.Count("concurrent_calls", 1)
				wit := map[string]any{"goroutine": g, "hash": serHash.name, "S2KCount": serCount, "spec": mon.FullHex(serSpec), "keyLen": serKL}
				sp, perr := s2kref.ParseSpec(serSpec)
				if serErr != nil || perr != nil || sp.HashID != serHash.id || !bytes.Equal(sp.Salt, serSalt) {
					wit["err"] = fmt.Sprint(serErr, perr)
					m.Violation("concurrent-specifier-differs:"+sd(shared)+":s2k.Serialize", wit)
				} else if want := sp.Derive(serHash.h, a.pass.snap[:a.pass.n], serKL); !bytes.Equal(serKey, want) {
					wit["got"], wit["want"] = mon.Hex(serKey), mon.Hex(want)
					m.Violation("concurrent-key-differs:"+sd(shared)+":s2k.Serialize", wit)
				}
				if !shared {
					checkInputs(m, "s2k-concurrent", nil, map[string]*guarded{"passphrase": a.pass})
				}
				checkInputs(m, "s2k-concurrent", nil, map[string]*guarded{"passphrase": second.pass})
			}
			tasks = append(tasks, t)
		}
		concRun(m, tasks, i%4 == 3)
		checkInputs(m, "s2k-concurrent-shared", nil, map[string]*guarded{"passphrase": sharedArgs.pass})
		m.Distinct(fmt.Sprintf("concurrent mode=%d %s oneP=%v", sharedArgs.spec[0], c20Hashes[sharedArgs.hidx].name, i%4 == 3))
	})
}

// ---------- C21: pkcs12.Decode / ToPEM ----------

func c21ConcN(m *mon.M) int {
	if mon.RaceBuild {
		return m.N(40, 200)
	}
	return m.N(120, 1200)
}

func c21Concurrent(m *mon.M, rsaFix, ecFix *p12Key) {
	m.Cases("concurrent", c21ConcN(m), func(i int64, r *rand.Rand) {
		type file struct {
			pfx *guarded
			pw  string
			k   *p12Key
		}
		mk := func() *file {
			k := ecFix
			if r.IntN(6) == 0 {
				k = rsaFix
			}
			pw := c21Runes(r, mon.Pick(r, []string{"ascii", "latin1", "cjk", "empty", "mixed"}), true)
			s := &p12Spec{pw: bmpOf(pw), macSalt: mon.Bytes(r, 1+r.IntN(20)), macIter: 1 + r.IntN(200),
				certAlg: r.IntN(2), certSalt: mon.Bytes(r, 8), certIter: 1 + r.IntN(100),
				keyAlg: r.IntN(2), keySalt: mon.Bytes(r, 8), keyIter: 1 + r.IntN(100),
				certDER: k.certDER, pkcs8: k.pkcs8}
			if len(pw) == 0 && r.IntN(2) == 0 {
				s.pw = nil // empty-array convention: the retry path
			}
			pfx, _, err := s.build()
			if err != nil {
				m.Inconclusive("crafter failed: " + err.Error())
			}
			return &file{pfx: guard(pfx), pw: string(pw), k: k}
		}
		sharedFile := mk()
		const G = 6
		var tasks []*concTask
		for g := 0; g < G; g++ {
			shared := g%2 == 0
			f := sharedFile
			if !shared {
				f = mk()
			}
			var priv any
			var cert *x509.Certificate
			var derr, perr, werr error
			var blocks [][2][]byte // type, bytes
			t := &concTask{shared: shared}
			t.run = func() {
				priv, cert, derr = pkcs12.Decode(f.pfx.b(), f.pw)
				runtime.Gosched()
				bl, e := pkcs12.ToPEM(f.pfx.b(), f.pw)
				perr = e
				for _, b := range bl {
					blocks = append(blocks, [2][]byte{[]byte(b.Type), b.Bytes})
				}
				runtime.Gosched()
				_, _, werr = pkcs12.Decode(f.pfx.b(), f.pw+"x")
			}
			t.judge = func() {
				m.EvalN(3)
				m.Count("concurrent_calls", 3)
				wit := map[string]any{"goroutine": g, "pfx": mon.FullHex(f.pfx.snap[:f.pfx.n]), "password_utf8": mon.FullHex([]byte(f.pw)), "key": f.k.name}
				eq, ok := priv.(equaler)
				switch {
				case derr != nil:
					wit["err"] = derr.Error()
					m.Violation("concurrent-result-differs:"+sd(shared)+":pkcs12.Decode", wit)
				case !ok || !eq.Equal(f.k.priv) || cert == nil || !bytes.Equal(cert.Raw, f.k.certDER):
					m.Violation("concurrent-result-differs:"+sd(shared)+":pkcs12.Decode", wit)
				}
				good := perr == nil && len(blocks) == 2
				if good {
					for _, b := range blocks {
						switch string(b[0]) {
						case "CERTIFICATE":
							good = good && bytes.Equal(b[1], f.k.certDER)
						case "PRIVATE KEY":
							var p crypto.PrivateKey
							var e error
							if f.k.name == "rsa" {
								p, e = x509.ParsePKCS1PrivateKey(b[1])
							} else {
								p, e = x509.ParseECPrivateKey(b[1])
							}
							pe, y := p.(equaler)
							good = good && e == nil && y && pe.Equal(f.k.priv)
						default:
							good = false
						}
					}
				}
				if !good {
					wit["err"] = fmt.Sprint(perr)
					m.Violation("concurrent-result-differs:"+sd(shared)+":pkcs12.ToPEM", wit)
				}
				if werr != pkcs12.ErrIncorrectPassword {
					wit["err"] = fmt.Sprint(werr)
					m.Violation("concurrent-wrong-password-result-differs:"+sd(shared)+":pkcs12.Decode", wit)
				}
				if !shared {
					checkInputs(m, "pkcs12-concurrent", nil, map[string]*guarded{"pfx": f.pfx})
				}
			}
			tasks = append(tasks, t)
		}
		concRun(m, tasks, i%4 == 3)
		checkInputs(m, "pkcs12-concurrent-shared", nil, map[string]*guarded{"pfx": sharedFile.pfx})
		if c21Ret != nil {
			c21Ret.verify("concurrent Decode/ToPEM")
		}
		m.Distinct(fmt.Sprintf("concurrent %s oneP=%v", sharedFile.k.name, i%4 == 3))
	})
}

package acmeh

// Scripted fake ACME server for C50, written from RFC 8555 (sections 6.2-6.5,
// 7.1-7.6). It shares no code with golang.org/x/crypto/acme or its internal
// acmetest package. It is transport agnostic (an http.Handler): the harness
// fronts it with a loopback httptest.Server or with an in-memory RoundTripper
// inside a testing/synctest bubble.
//
// The server is the observation point ("client boundary"): it decodes the JWS
// protected header of every POST, keeps the nonce ledger, and appends every
// request/reply to a per-operation event log in one logical clock (seq).

import (
	"bytes"
	"context"
	"encoding/base64"
	"encoding/json"
	"encoding/pem"
	"fmt"
	"io"
	"net/http"
	"strings"
	"sync"
	"time"
)

// ---- script actions ---------------------------------------------------------

type action struct {
	Kind       string  `json:"kind"`                  // ok | err | hold | reset
	Status     int     `json:"status,omitempty"`      // for err
	Problem    string  `json:"problem,omitempty"`     // problem type URN for err ("" → non-JSON body)
	NoNonce    bool    `json:"no_nonce,omitempty"`    // reply carries no Replay-Nonce
	RetryAfter string  `json:"retry_after,omitempty"` // header value ("" → absent)
	RADateIn   int     `json:"ra_date_in,omitempty"`  // Retry-After as HTTP-date this many seconds after the reply (bubble runs)
	Garbage    bool    `json:"garbage,omitempty"`     // ok status but undecodable body
	Then       *action `json:"then,omitempty"`        // for hold: what to do when released
}

func (a action) sig() string {
	switch a.Kind {
	case "err":
		s := fmt.Sprint(a.Status)
		if strings.HasSuffix(strings.ToLower(a.Problem), ":badnonce") {
			s = "badNonce"
		}
		if a.NoNonce {
			s += "-nn"
		}
		if a.RetryAfter != "" {
			s += "-ra"
		}
		return s
	case "ok":
		s := "ok"
		if a.NoNonce {
			s += "-nn"
		}
		if a.Garbage {
			s += "-garbage"
		}
		return s
	case "hold":
		if a.Then != nil {
			return "hold>" + a.Then.sig()
		}
		return "hold"
	}
	return a.Kind
}

const badNonceURN = "urn:ietf:params:acme:error:badNonce"

func isBadNonceProblem(p string) bool {
	return strings.HasSuffix(strings.ToLower(p), ":badnonce")
}

// retriableStatus is the documented retry rule of Client.RetryBackoff: 4xx are
// not retried except 429 (and badNonce, handled by the caller); everything
// that is not the wanted status below 400 or at/above 500 is.
func retriableStatus(code int) bool { return code < 400 || code >= 500 || code == 429 }

// ---- event log ---------------------------------------------------------------

type event struct {
	Seq      int64  `json:"seq"`
	T        string `json:"t"` // req | reply | hold | abort | backoff | cancel | ret
	Op       string `json:"op"`
	Method   string `json:"method,omitempty"`
	Path     string `json:"path,omitempty"`
	Class    string `json:"class,omitempty"` // dir | nonce | kidlookup | main
	Nonce    string `json:"nonce,omitempty"` // nonce used (req) / issued (reply)
	Status   int    `json:"status,omitempty"`
	Final    string `json:"final,omitempty"` // reply: ok | cont | err | invalid | garbage | reset
	Problem  string `json:"problem,omitempty"`
	Detail   string `json:"detail,omitempty"`
	Marker   string `json:"marker,omitempty"`
	N        int    `json:"n,omitempty"`      // backoff: n argument
	RespSeq  int64  `json:"resp_seq,omitempty"` // backoff: X-Verif-Reply of resp argument
	RetNs    int64  `json:"ret_ns,omitempty"` // backoff: returned duration
	VT       int64  `json:"vt_ns,omitempty"`  // virtual time (bubble runs), ns since bubble start
	Note     string `json:"note,omitempty"`
	Phase    string `json:"phase,omitempty"`
	Untagged bool   `json:"untagged,omitempty"`
}

type nonceRec struct {
	IssuedAt int64
	UsedAt   int64 // 0: unused
	UsedBy   string
}

// opPlan is what the server should answer for one client operation.
type opPlan struct {
	ID   string
	Kind string // client API method name
	// scripts consumed one entry per request of the class; exhausted → ok
	Post    []action
	Head    []action
	KidLook []action
	// resource behaviour
	AcctExists   bool     // newAccount answers 200 instead of 201
	Polls        []string // successive statuses for order/authz POST-as-GET; last one repeats
	FinalizeStat string   // status in the finalize reply (valid | processing | ready | invalid)
	Phase        string

	onReply  func(e event) // harness hook, called after a reply of this op was written
	held     chan struct{} // server → harness: a request of this op is being held
	release  chan struct{} // harness → server
	events   []event
	pollIdx  int
	cancelAt int64 // seq of the harness' cancel (0: none)
}

type fakeCA struct {
	base string // URL prefix, no trailing slash

	mu       sync.Mutex
	seq      int64
	nonceCtr int64
	nonces   map[string]*nonceRec
	ops      map[string]*opPlan
	dirPlan  []action // script for GET directory
	noNonceURL bool   // directory omits newNonce
	dirNoNonce bool   // directory reply carries no Replay-Nonce
	curOp    string   // sequential phases: op to attribute untagged requests to
	all      []event  // bounded global log (witness context)
	viol     []violation
	counts   map[string]int
	now      func() int64 // virtual time source (bubble), nil otherwise
	pollRetryAfter string // Retry-After on pending poll replies
}

type violation struct {
	Key    string
	Detail map[string]any
}

func newFakeCA(base string) *fakeCA {
	return &fakeCA{base: base, nonces: map[string]*nonceRec{}, ops: map[string]*opPlan{}, counts: map[string]int{},
		pollRetryAfter: "Thu, 01 Jan 1970 00:00:01 GMT"}
}

func (s *fakeCA) addOp(p *opPlan) {
	p.held = make(chan struct{}, 8)
	p.release = make(chan struct{})
	s.mu.Lock()
	s.ops[p.ID] = p
	s.mu.Unlock()
}

// logLocked appends an event (s.mu held) and returns its seq.
func (s *fakeCA) logLocked(op *opPlan, e event) int64 {
	s.seq++
	e.Seq = s.seq
	if s.now != nil {
		e.VT = s.now()
	}
	if op != nil {
		e.Op = op.ID
		op.events = append(op.events, e)
	}
	if len(s.all) < 400 {
		s.all = append(s.all, e)
	}
	return e.Seq
}

func (s *fakeCA) violate(key string, d map[string]any) {
	s.viol = append(s.viol, violation{key, d})
}

func (s *fakeCA) count(k string) { s.counts[k]++ }

// harness-side log entries
func (s *fakeCA) logCancel(op *opPlan) {
	s.mu.Lock()
	op.cancelAt = s.logLocked(op, event{T: "cancel"})
	s.mu.Unlock()
}

func (s *fakeCA) logBackoff(opID string, n int, path string, respSeq int64, status int, ret time.Duration) {
	s.mu.Lock()
	op := s.ops[opID]
	s.logLocked(op, event{T: "backoff", N: n, Path: path, RespSeq: respSeq, Status: status, RetNs: int64(ret)})
	s.mu.Unlock()
}

func (s *fakeCA) logReturn(op *opPlan, note string) {
	s.mu.Lock()
	s.logLocked(op, event{T: "ret", Note: note})
	s.mu.Unlock()
}

func (s *fakeCA) opEvents(op *opPlan) []event {
	s.mu.Lock()
	defer s.mu.Unlock()
	return append([]event(nil), op.events...)
}

// ---- JWS decoding (RFC 7515 flattened JSON serialization) --------------------

type jwsReq struct {
	Nonce   string
	URL     string
	KID     string
	HasJWK  bool
	Payload map[string]any
	RawPay  []byte
	OK      bool
}

func decodeJWS(body []byte) jwsReq {
	var outer struct {
		Protected string `json:"protected"`
		Payload   string `json:"payload"`
		Signature string `json:"signature"`
	}
	var r jwsReq
	if json.Unmarshal(body, &outer) != nil || outer.Protected == "" {
		return r
	}
	ph, err := base64.RawURLEncoding.DecodeString(outer.Protected)
	if err != nil {
		return r
	}
	var head struct {
		Nonce string          `json:"nonce"`
		URL   string          `json:"url"`
		KID   string          `json:"kid"`
		JWK   json.RawMessage `json:"jwk"`
	}
	if json.Unmarshal(ph, &head) != nil {
		return r
	}
	r.OK = true
	r.Nonce, r.URL, r.KID, r.HasJWK = head.Nonce, head.URL, head.KID, len(head.JWK) > 0
	if pay, err := base64.RawURLEncoding.DecodeString(outer.Payload); err == nil {
		r.RawPay = pay
		json.Unmarshal(pay, &r.Payload)
	}
	return r
}

// ---- the handler ---------------------------------------------------------------

type resetWriter interface{ VerifReset() }

const opHeader = "X-Verif-Op"
const replyHeader = "X-Verif-Reply"

func (s *fakeCA) ServeHTTP(w http.ResponseWriter, r *http.Request) {
	body, _ := io.ReadAll(r.Body)
	opID := r.Header.Get(opHeader)
	path := r.URL.Path

	s.mu.Lock()
	untagged := false
	if opID == "" {
		untagged = true
		opID = s.curOp
	}
	op := s.ops[opID]
	if op == nil {
		// a request nobody asked for: still answer sanely, but remember it
		s.count("requests_unattributed")
		op = &opPlan{ID: "?" + opID, held: make(chan struct{}, 8), release: make(chan struct{})}
		s.ops[op.ID] = op
	}
	class := "main"
	var jr jwsReq
	switch {
	case r.Method == "HEAD":
		class = "nonce"
	case r.Method == "GET":
		class = "dir"
	case r.Method == "POST":
		jr = decodeJWS(body)
		if path == "/new-acct" && jr.Payload["onlyReturnExisting"] == true && op.Kind != "GetReg" {
			class = "kidlookup"
		}
	}
	reqSeq := s.logLocked(op, event{T: "req", Method: r.Method, Path: path, Class: class, Nonce: jr.Nonce, Phase: op.Phase, Untagged: untagged})
	if untagged {
		s.count("requests_untagged")
	}
	// ---- nonce ledger (every POST must spend exactly one fresh server nonce)
	if r.Method == "POST" {
		s.count("posts")
		wit := func() map[string]any {
			return map[string]any{"op": op.ID, "op_kind": op.Kind, "path": path, "nonce": jr.Nonce, "req_seq": reqSeq, "op_log": tailEvents(op.events, 40)}
		}
		switch rec := s.nonces[jr.Nonce]; {
		case !jr.OK:
			s.violate("post-not-jws", wit())
		case jr.Nonce == "":
			s.violate("nonce-missing", wit())
		case rec == nil:
			s.violate("nonce-not-issued-by-server", wit())
		case rec.UsedAt != 0:
			d := wit()
			d["first_use_seq"], d["first_use_op"], d["issued_at_seq"] = rec.UsedAt, rec.UsedBy, rec.IssuedAt
			d["phase"] = op.Phase
			s.violate("nonce-reused", d)
		default:
			rec.UsedAt, rec.UsedBy = reqSeq, op.ID
			s.count("nonces_spent")
		}
		// cancellation: a request that reaches the server after the harness
		// cancelled the operation's context at a quiescent point
	}
	if op.cancelAt != 0 {
		s.violate("request-after-cancel", map[string]any{"op": op.ID, "op_kind": op.Kind, "method": r.Method, "path": path,
			"cancel_seq": op.cancelAt, "req_seq": reqSeq, "op_log": tailEvents(op.events, 40)})
	}
	// ---- choose the scripted action
	var act action
	pop := func(q *[]action) action {
		if len(*q) == 0 {
			return action{Kind: "ok"}
		}
		a := (*q)[0]
		*q = (*q)[1:]
		return a
	}
	switch class {
	case "nonce":
		act = pop(&op.Head)
	case "dir":
		act = pop(&s.dirPlan)
	case "kidlookup":
		act = pop(&op.KidLook)
	default:
		act = pop(&op.Post)
	}
	s.mu.Unlock()

	for act.Kind == "hold" {
		s.mu.Lock()
		s.logLocked(op, event{T: "hold", Method: r.Method, Path: path, Class: class})
		s.count("holds")
		s.mu.Unlock()
		op.held <- struct{}{}
		select {
		case <-op.release:
		case <-r.Context().Done():
			s.mu.Lock()
			s.logLocked(op, event{T: "abort", Method: r.Method, Path: path, Class: class, Final: "reset"})
			s.count("holds_aborted_by_client")
			s.mu.Unlock()
			if rw, ok := w.(resetWriter); ok {
				rw.VerifReset()
			}
			return
		}
		if act.Then != nil {
			act = *act.Then
		} else {
			act = action{Kind: "ok"}
		}
	}
	s.reply(w, r, op, class, path, act, jr)
}

func tailEvents(ev []event, n int) []event {
	if len(ev) > n {
		ev = ev[len(ev)-n:]
	}
	return append([]event(nil), ev...)
}

// reply composes and sends one scripted reply; the event is logged (and the
// fresh nonce entered in the ledger) before the first byte is written, so the
// log order is consistent with what the client can have seen.
func (s *fakeCA) reply(w http.ResponseWriter, r *http.Request, op *opPlan, class, path string, act action, jr jwsReq) {
	s.mu.Lock()
	s.seq++
	rseq := s.seq
	ev := event{Seq: rseq, T: "reply", Op: op.ID, Method: r.Method, Path: path, Class: class}
	if s.now != nil {
		ev.VT = s.now()
	}
	if act.Kind == "reset" {
		ev.Final = "reset"
		op.events = append(op.events, ev)
		if len(s.all) < 400 {
			s.all = append(s.all, ev)
		}
		s.count("conn_resets")
		s.mu.Unlock()
		if rw, ok := w.(resetWriter); ok {
			rw.VerifReset()
			return
		}
		if hj, ok := w.(http.Hijacker); ok {
			if c, _, err := hj.Hijack(); err == nil {
				c.Close()
			}
		}
		return
	}
	h := w.Header()
	h.Set(replyHeader, fmt.Sprint(rseq))
	noNonce := act.NoNonce
	if class == "dir" && act.Kind == "ok" && s.dirNoNonce {
		noNonce = true
	}
	if !noNonce {
		s.nonceCtr++
		n := fmt.Sprintf("n-%d", s.nonceCtr)
		s.nonces[n] = &nonceRec{IssuedAt: rseq}
		h.Set("Replay-Nonce", n)
		ev.Nonce = n
		s.count("nonces_issued")
		if r.Method == "HEAD" {
			s.count("nonce_fetch_heads")
		}
	} else {
		s.count("replies_without_replay_nonce")
	}
	if act.RetryAfter != "" {
		h.Set("Retry-After", act.RetryAfter)
	}
	if act.RADateIn > 0 {
		h.Set("Retry-After", time.Now().Add(time.Duration(act.RADateIn)*time.Second).UTC().Format(http.TimeFormat))
	}
	status := 200
	var bodyOut []byte
	marker := fmt.Sprintf("r%d", rseq)
	switch {
	case act.Kind == "err":
		status = act.Status
		ev.Final = "err"
		ev.Problem = act.Problem
		if act.Problem != "" {
			ev.Detail = "reply-" + marker
			h.Set("Content-Type", "application/problem+json")
			bodyOut, _ = json.Marshal(map[string]any{"type": act.Problem, "detail": ev.Detail, "status": status})
		} else {
			ev.Detail = "plain-" + marker
			bodyOut = []byte(ev.Detail)
		}
		if r.Method == "HEAD" {
			bodyOut = nil
		}
		if isBadNonceProblem(act.Problem) {
			s.count("badnonce_replies")
		} else if status == 429 {
			s.count("replies_429")
		} else if status >= 500 {
			s.count("replies_5xx")
		} else if status >= 400 {
			s.count("replies_4xx_nonretriable")
		} else {
			s.count("replies_unexpected_2xx3xx")
		}
	case r.Method == "HEAD":
		ev.Final = "cont"
		if noNonce {
			ev.Final = "err" // a nonce fetch without a nonce is a failed fetch
		}
		status = 200
		if strings.HasSuffix(path, "/new-nonce") {
			status = 200 // RFC 8555 7.2: 200 for HEAD
		}
	default:
		status, bodyOut, ev.Final = s.resource(h, r, op, class, path, marker, jr)
		if act.Garbage {
			bodyOut = []byte("<html>not json " + marker)
			if ev.Final == "ok" || ev.Final == "invalid" {
				ev.Final = "garbage"
			}
			s.count("garbage_bodies")
		}
	}
	ev.Status = status
	ev.Marker = marker
	op.events = append(op.events, ev)
	if len(s.all) < 400 {
		s.all = append(s.all, ev)
	}
	hook := op.onReply
	s.mu.Unlock()
	w.WriteHeader(status)
	if r.Method != "HEAD" {
		w.Write(bodyOut)
	}
	if hook != nil {
		hook(ev)
	}
}

// resource renders the success reply for the addressed resource (s.mu held).
// Every reply embeds marker in a field the client API hands back to its caller.
func (s *fakeCA) resource(h http.Header, r *http.Request, op *opPlan, class, path, marker string, jr jwsReq) (int, []byte, string) {
	js := func(v any) []byte { b, _ := json.Marshal(v); return b }
	h.Set("Content-Type", "application/json")
	nextPoll := func() string {
		if len(op.Polls) == 0 {
			return "valid"
		}
		st := op.Polls[min(op.pollIdx, len(op.Polls)-1)]
		op.pollIdx++
		return st
	}
	pollFinal := func(kind, st string) string {
		// which statuses complete the client operation
		switch op.Kind {
		case "WaitOrder":
			switch st {
			case "ready", "valid":
				return "ok"
			case "invalid":
				return "invalid"
			}
			return "cont"
		case "CreateOrderCert": // polls the order after finalize
			switch st {
			case "valid":
				return "cont" // goes on to fetch the certificate
			case "ready", "invalid":
				return "invalid" // "the only acceptable status is valid"
			}
			return "cont"
		case "WaitAuthorization":
			switch st {
			case "valid":
				return "ok"
			case "invalid":
				return "invalid"
			}
			return "cont"
		}
		return "ok" // GetOrder, GetAuthorization: any decodable reply completes
	}
	switch {
	case class == "dir":
		d := map[string]any{
			"newAccount": s.base + "/new-acct", "newOrder": s.base + "/new-order", "newAuthz": s.base + "/new-authz",
			"revokeCert": s.base + "/revoke", "keyChange": s.base + "/key-change",
			"meta": map[string]any{"website": "https://ca.test/" + marker},
		}
		if !s.noNonceURL {
			d["newNonce"] = s.base + "/new-nonce"
		}
		return 200, js(d), "cont"
	case path == "/new-acct":
		h.Set("Location", s.base+"/acct/1")
		acct := map[string]any{"status": "valid", "orders": s.base + "/orders-of/1/" + marker}
		if class == "kidlookup" {
			return 200, js(acct), "cont"
		}
		if op.Kind == "GetReg" || op.AcctExists {
			return 200, js(acct), "ok"
		}
		return 201, js(acct), "ok"
	case strings.HasPrefix(path, "/acct/"):
		st := "valid"
		if op.Kind == "DeactivateReg" {
			st = "deactivated"
		}
		h.Set("Location", s.base+path)
		return 200, js(map[string]any{"status": st, "orders": s.base + "/orders-of/1/" + marker}), "ok"
	case path == "/new-order":
		h.Set("Location", s.base+"/order/"+op.ID)
		return 201, js(map[string]any{"status": "pending", "identifiers": jr.Payload["identifiers"],
			"authorizations": []string{s.base + "/authz/" + op.ID}, "finalize": s.base + "/finalize/" + op.ID + "/" + marker}), "ok"
	case strings.HasPrefix(path, "/order/"):
		st := nextPoll()
		o := map[string]any{"status": st, "authorizations": []string{s.base + "/authz/" + op.ID},
			"finalize": s.base + "/finalize/" + op.ID + "/" + marker}
		if st == "valid" {
			o["certificate"] = s.base + "/cert/" + op.ID
		}
		if st == "invalid" {
			o["error"] = map[string]any{"type": "urn:ietf:params:acme:error:unauthorized", "detail": "order-" + marker, "status": 403}
		}
		if st != "ready" && st != "valid" && st != "invalid" && s.pollRetryAfter != "" {
			h.Set("Retry-After", s.pollRetryAfter)
		}
		h.Set("Location", s.base+path)
		return 200, js(o), pollFinal("order", st)
	case strings.HasPrefix(path, "/finalize/"):
		st := op.FinalizeStat
		if st == "" {
			st = "valid"
		}
		o := map[string]any{"status": st, "finalize": s.base + path}
		if st == "valid" {
			o["certificate"] = s.base + "/cert/" + op.ID
		}
		h.Set("Location", s.base+"/order/"+op.ID)
		fin := "cont"
		if st == "invalid" {
			// CreateOrderCert goes to WaitOrder only if status != valid; an
			// invalid order is reported by WaitOrder after one more poll, or at once
			fin = "cont"
		}
		return 200, js(o), fin
	case strings.HasPrefix(path, "/cert/"):
		h.Set("Content-Type", "application/pem-certificate-chain")
		h.Add("Link", "<"+s.base+"/cert-alt/"+marker+">;rel=\"alternate\"")
		var b bytes.Buffer
		pem.Encode(&b, &pem.Block{Type: "CERTIFICATE", Bytes: []byte("leaf-" + marker)})
		pem.Encode(&b, &pem.Block{Type: "CERTIFICATE", Bytes: []byte("issuer-" + marker)})
		return 200, b.Bytes(), "ok"
	case path == "/new-authz":
		h.Set("Location", s.base+"/authz/"+op.ID)
		return 201, js(s.authzObj(op, "pending", marker)), "ok"
	case strings.HasPrefix(path, "/authz/"):
		if jr.Payload["status"] == "deactivated" { // RevokeAuthorization
			return 200, js(s.authzObj(op, "deactivated", marker)), "ok"
		}
		st := nextPoll()
		if st != "valid" && st != "invalid" && s.pollRetryAfter != "" {
			h.Set("Retry-After", s.pollRetryAfter)
		}
		return 200, js(s.authzObj(op, st, marker)), pollFinal("authz", st)
	case strings.HasPrefix(path, "/chal/"):
		return 200, js(map[string]any{"type": "http-01", "url": s.base + path, "status": "processing", "token": "tok-" + marker}), "ok"
	case path == "/revoke", path == "/key-change":
		return 200, []byte("{}"), "ok"
	}
	return 404, js(map[string]any{"type": "urn:ietf:params:acme:error:malformed", "detail": "no such resource " + path}), "err"
}

func (s *fakeCA) authzObj(op *opPlan, st, marker string) map[string]any {
	ch := map[string]any{"type": "http-01", "url": s.base + "/chal/" + op.ID, "status": "pending", "token": "tok-" + marker}
	if st == "invalid" {
		ch["status"] = "invalid"
		ch["error"] = map[string]any{"type": "urn:ietf:params:acme:error:unauthorized", "detail": "chal-" + marker, "status": 403}
	}
	return map[string]any{"status": st, "identifier": map[string]any{"type": "dns", "value": op.ID + ".example"},
		"challenges": []any{ch}}
}

// ---- transports ------------------------------------------------------------------

type opKey struct{}

func withOp(ctx context.Context, id string) context.Context { return context.WithValue(ctx, opKey{}, id) }

func opOf(ctx context.Context) string {
	if v, ok := ctx.Value(opKey{}).(string); ok {
		return v
	}
	return ""
}

// tagTransport stamps every outgoing request with the operation id carried by
// the caller's context, so the server can attribute requests of concurrent
// operations. A request whose context does not descend from the caller's
// context arrives untagged.
type tagTransport struct{ base http.RoundTripper }

func (t *tagTransport) RoundTrip(req *http.Request) (*http.Response, error) {
	r2 := req.Clone(req.Context())
	if id := opOf(req.Context()); id != "" {
		r2.Header.Set(opHeader, id)
	}
	return t.base.RoundTrip(r2)
}

// memTransport delivers requests to the handler in-process (no sockets), for
// runs inside a synctest bubble. Like net/http it refuses to start a request
// whose context is already done and aborts a blocked one when it becomes done.
type memTransport struct{ h http.Handler }

type memWriter struct {
	hdr    http.Header
	status int
	body   bytes.Buffer
	reset  bool
}

func (w *memWriter) Header() http.Header { return w.hdr }
func (w *memWriter) WriteHeader(c int) {
	if w.status == 0 {
		w.status = c
	}
}
func (w *memWriter) Write(b []byte) (int, error) {
	if w.status == 0 {
		w.status = 200
	}
	return w.body.Write(b)
}
func (w *memWriter) VerifReset() { w.reset = true }

func (t *memTransport) RoundTrip(req *http.Request) (*http.Response, error) {
	if err := req.Context().Err(); err != nil {
		return nil, err
	}
	var body []byte
	if req.Body != nil {
		body, _ = io.ReadAll(req.Body)
		req.Body.Close()
	}
	sreq, err := http.NewRequestWithContext(req.Context(), req.Method, req.URL.String(), bytes.NewReader(body))
	if err != nil {
		return nil, err
	}
	sreq.Header = req.Header.Clone()
	w := &memWriter{hdr: http.Header{}}
	t.h.ServeHTTP(w, sreq)
	if w.reset {
		if err := req.Context().Err(); err != nil {
			return nil, err
		}
		return nil, io.ErrUnexpectedEOF
	}
	if w.status == 0 {
		w.status = 200
	}
	resp := &http.Response{
		StatusCode: w.status, Status: fmt.Sprintf("%d %s", w.status, http.StatusText(w.status)),
		Proto: "HTTP/1.1", ProtoMajor: 1, ProtoMinor: 1,
		Header: w.hdr, Body: io.NopCloser(bytes.NewReader(w.body.Bytes())), ContentLength: int64(w.body.Len()), Request: req,
	}
	if req.Method == "HEAD" {
		resp.Body = http.NoBody
	}
	return resp, nil
}

package acmeh

import (
	"bytes"
	"context"
	"crypto"
	"crypto/ecdsa"
	"crypto/rsa"
	"crypto/tls"
	"crypto/x509"
	"fmt"
	"math/rand/v2"
	"os"
	"path/filepath"
	"strings"
	"sync"
	"testing"
	"time"

	"golang.org/x/crypto/acme/autocert"
	"verif/ext"
	"verif/mon"
	"verif/ref/punycode"
)

// ---- names -------------------------------------------------------------------------------

// IDN labels from alphabets whose UTS #46 mapping is plain lower-casing, so
// that ref/punycode.ToASCIISimple is an exact independent expectation.
var idnLabels = []string{"bücher", "BÜCHER", "éÉ", "münchen", "例え", "пример", "ПРИМЕР", "παράδειγμα", "ñandú", "ÅÄÖ"}

type nameCase struct {
	Name   string
	Class  string
	Expect string // "" → no independent expectation for the normalised name
}

func randCase(r *rand.Rand, s string) string {
	b := []byte(s)
	for i, c := range b {
		if c >= 'a' && c <= 'z' && r.IntN(2) == 0 {
			b[i] = c - 32
		}
	}
	return string(b)
}

// benign: spellings of base that a TLS client may legitimately send.
func benignName(r *rand.Rand, base string) nameCase {
	n := nameCase{Name: base, Class: "plain"}
	switch r.IntN(6) {
	case 1:
		n = nameCase{Name: randCase(r, base), Class: "mixed-case"}
	case 2:
		n = nameCase{Name: base + ".", Class: "trailing-dot"}
	case 3:
		n = nameCase{Name: strings.ToUpper(base) + ".", Class: "upper+dot"}
	case 4:
		n = nameCase{Name: strings.ToUpper(base), Class: "upper"}
	}
	n.Expect, _ = punycode.ToASCIISimple(n.Name)
	return n
}

func idnName(r *rand.Rand, base string) nameCase {
	l := mon.Pick(r, idnLabels)
	n := nameCase{Name: l + "." + base, Class: "idn"}
	switch r.IntN(4) {
	case 0:
		n.Name, n.Class = l+"."+randCase(r, base)+".", "idn+case+dot"
	case 1:
		a, _ := punycode.ToASCIISimple(l)
		n.Name, n.Class = strings.ToUpper(a)+"."+base, "a-label-upper"
	}
	n.Expect, _ = punycode.ToASCIISimple(n.Name)
	return n
}

// hostileNames are spellings that must be refused or normalised; no cert is
// expected, and whatever happens the invariants must hold.
func hostileNames(base string) []nameCase {
	h := func(class string, names ...string) []nameCase {
		var out []nameCase
		for _, n := range names {
			out = append(out, nameCase{Name: n, Class: class})
		}
		return out
	}
	var l []nameCase
	l = append(l, h("empty-or-dots", "", ".", "..", "...", ". .", base+"..", "."+base, ".."+base, "a.."+base, "com", "localhost", "localhost.")...)
	l = append(l, h("host-port", base+":443", base+":", base+".:443", "["+base+"]", "["+base+"]:443")...)
	l = append(l, h("ip-literal", "1.2.3.4", "127.0.0.1", "1.2.3.4.", "::1", "[::1]", "[::1]:443", "2001:db8::1", "0x7f.0.0.1", "1.2.3.4."+base, "::ffff:1.2.3.4")...)
	l = append(l, h("path", "../"+base, "../../"+base, base+"/../x", base+"/..", "..\\"+base, base+"\\..\\x", "a/b."+base, "/"+base, base+"/", "/etc/passwd", "../../etc/passwd.example.org",
		"..%2f"+base, "%2e%2e."+base, "%2e%2e%2f"+base, "..."+base+"/", "C:\\"+base, "\\\\"+base+"\\share")...)
	l = append(l, h("key-suffix", base+"+rsa", base+"+token", base+"+http-01", "acme_account+key", "acme_account+key."+base, base+"+", "+"+base)...)
	l = append(l, h("control", base+"\x00", "a\x00."+base, " "+base, base+" ", "a b."+base, "\t"+base, base+"\n", base+"\r\n", "\x7f."+base, "\x1b[2J."+base)...)
	l = append(l, h("ldh", "*."+base, "*", "*.*", "_x."+base, "-a."+base, "a-."+base, "a_b."+base, "a!."+base, "a@"+base, "user:pw@"+base, "a#."+base, "a?."+base, "a,b."+base, "a;b."+base, "a=b."+base, "a~."+base, "`id`."+base, "$(id)."+base, "a'b."+base, "a\"b."+base, "<x>."+base, "a|b."+base)...)
	l = append(l, h("punycode", "xn--."+base, "xn--a."+base, "xn---."+base, "xn--9caa\u00e9."+base, "xn--zz-zz-zz."+base, "XN--."+base, "ab--cd."+base)...)
	l = append(l, h("length", strings.Repeat("a", 64)+"."+base, strings.Repeat("a", 63)+"."+base, strings.Repeat("a.", 140)+base, strings.Repeat("a", 300)+"."+base, strings.Repeat("a", 5000)+".example")...)
	l = append(l, h("unicode", "ｅｘａｍｐｌｅ."+base, "a\u200d."+base, "a\u200c."+base, "a\u00ad."+base, "ß."+base, "σς."+base, "İ."+base, "\u212a."+base, "a\u0301."+base, "\u202e"+base,
		"ａ．"+base, "a。"+base, "a．．b."+base, "\ufeff"+base, "a\u0338."+base, "\u0627\u0628a."+base, "🙂."+base, "\xff\xfe."+base, "a\xc0\xaf."+base, "\u2024\u2024/"+base, "a\uff0fb."+base, "a\u2215b."+base, "a\uff3cb."+base, "a\u2044."+base)...)
	return l
}

// ---- what the monitor observes for one GetCertificate call --------------------------------------

type callObs struct {
	in       nameCase
	helloK   string
	hello    *tls.ClientHelloInfo
	g        int64
	startSeq int
	endSeq   int
	cert     *tls.Certificate
	err      error
	panicV   any
	stack    string
	first    bool // first call on a fresh manager (no background activity can exist yet)
}

func (e *mgrEnv) call(in nameCase, helloKind string, first bool) callObs {
	o := callObs{in: in, helloK: helloKind, hello: helloFor(in.Name, helloKind), g: goid(), first: first}
	o.startSeq = e.log.add(cev{T: "call", Name: in.Name, G: o.g, Note: helloKind})
	o.panicV, o.stack = mon.Panics(func() { o.cert, o.err = e.man.GetCertificate(o.hello) })
	note := "cert"
	if o.err != nil {
		note = "err: " + o.err.Error()
	}
	o.endSeq = e.log.add(cev{T: "ret", Name: in.Name, G: o.g, Note: note})
	return o
}

type hostileSeed struct {
	Kind string
	Path string // where the pair is validated: cache | renewal-cache | ca | renewal-ca ("" → from the scenario name)
	DERs [][]byte // leaf encodings that must never be served in this scenario
}

func pubEqual(a crypto.PublicKey, b crypto.PublicKey) bool {
	switch a := a.(type) {
	case *ecdsa.PublicKey:
		return a.Equal(b)
	case *rsa.PublicKey:
		return a.Equal(b)
	}
	return false
}

// judgeCall applies the GetCertificate monitors to one observed call.
func judgeCall(m *mon.M, e *mgrEnv, o callObs, hostile *hostileSeed, scen string) {
	m.Eval()
	m.Distinct(fmt.Sprintf("%s|name:%s|hello:%s|served:%v", scen, o.in.Class, o.helloK, o.cert != nil))
	m.Sample(map[string]any{"scenario": scen, "server_name": o.in.Name, "name_class": o.in.Class, "hello": o.helloK, "served": o.cert != nil, "err": fmt.Sprint(o.err)})
	ev := e.log.snapshot()
	wit := func(extra map[string]any) map[string]any {
		d := map[string]any{"scenario": scen, "server_name": o.in.Name, "server_name_hex": mon.Hex([]byte(o.in.Name)), "name_class": o.in.Class, "hello": o.helloK,
			"now": e.now.Format(time.RFC3339Nano), "err": fmt.Sprint(o.err), "events": tailCev(ev, 40)}
		if hostile != nil {
			d["cache_seed"] = hostile.Kind
		}
		for k, v := range extra {
			d[k] = v
		}
		return d
	}
	if o.panicV != nil {
		m.Violation("getcertificate-panics:"+mon.PanicSite(o.stack), wit(map[string]any{"panic": fmt.Sprint(o.panicV), "stack": o.stack}))
		return
	}
	// cache key contract (all keys seen so far in the scenario)
	e.log.mu.Lock()
	bad := append([]string(nil), e.log.bad...)
	e.log.mu.Unlock()
	for _, b := range bad {
		p := strings.SplitN(b, "\x00", 2)
		m.Violation("cache-key-"+p[0], wit(map[string]any{"key": p[1], "key_hex": mon.Hex([]byte(p[1]))}))
	}
	if (o.cert == nil) == (o.err == nil) {
		m.Violation("getcertificate-cert-and-error-inconsistent", wit(nil))
		return
	}
	// this call's own synchronous activity
	var own []cev
	for _, x := range ev {
		if x.Seq > o.startSeq && x.Seq < o.endSeq && x.G == o.g {
			own = append(own, x)
		}
	}
	var accept *cev
	refused := false
	for i := range own {
		if own[i].T == "policy" {
			if own[i].OK && accept == nil {
				accept = &own[i]
			}
			if !own[i].OK {
				refused = true
			}
		}
	}
	if o.cert == nil {
		m.Count("calls_refused_or_failed", 1)
		if refused {
			m.Count("calls_refused_by_policy", 1)
		}
		if accept == nil && !refused {
			m.Count("calls_refused_before_policy", 1)
		}
		return
	}
	m.Count("certs_returned", 1)
	m.Count("certs_returned_name_"+o.in.Class, 1)
	// --- policy
	if accept == nil {
		k := "cert-without-policy-accept"
		if refused {
			k = "cert-for-name-refused-by-policy"
		}
		m.Violation(k, wit(nil))
		return
	}
	for _, x := range own {
		if x.Seq < accept.Seq && strings.HasPrefix(x.T, "cache-") {
			m.Violation("cache-access-before-policy-accept", wit(map[string]any{"cache_event": x, "policy_event": *accept}))
			break
		}
	}
	if o.first {
		for _, x := range ev {
			if x.T == "ca-order" && x.Seq > o.startSeq && x.Seq < accept.Seq {
				m.Violation("ca-order-before-policy-accept", wit(map[string]any{"order_event": x, "policy_event": *accept}))
			}
		}
	}
	m.Count("policy_order_checked", 1)
	P := accept.Name
	switch {
	case o.in.Expect != "":
		m.Count("normalised_name_compared_with_ref", 1)
		if P != o.in.Expect {
			m.Violation("policy-saw-unexpected-normalisation", wit(map[string]any{"policy_name": P, "expected": o.in.Expect}))
		}
	default:
		// hostile spelling: "normalised or refused" — whatever the policy accepted must at least be
		// in normal form itself (ASCII, lower case), otherwise exact-match policies cannot work
		if !isASCII(P) || P != strings.ToLower(P) {
			m.Violation("policy-saw-non-normalised-name", wit(map[string]any{"policy_name": P, "policy_name_hex": mon.Hex([]byte(P))}))
		}
	}
	domain := strings.TrimSuffix(P, ".")
	// --- the certificate itself
	if len(o.cert.Certificate) == 0 {
		m.Violation("served-empty-chain", wit(nil))
		return
	}
	leaf, err := x509.ParseCertificate(o.cert.Certificate[0])
	if err != nil {
		m.Violation("served-unparsable-leaf", wit(map[string]any{"parse_error": err.Error()}))
		return
	}
	lw := map[string]any{"leaf_not_before": leaf.NotBefore.Format(time.RFC3339), "leaf_not_after": leaf.NotAfter.Format(time.RFC3339), "leaf_dns": leaf.DNSNames,
		"leaf_key": fmt.Sprintf("%T", leaf.PublicKey), "policy_name": P, "leaf_der": mon.Hex(o.cert.Certificate[0])}
	if hostile != nil {
		for _, d := range hostile.DERs {
			if bytes.Equal(d, o.cert.Certificate[0]) {
				m.Violation("hostile-cache-content-served:"+hostile.Kind, wit(lw))
			}
		}
	}
	if e.now.Before(leaf.NotBefore) {
		m.Violation("served-cert-not-yet-valid", wit(lw))
	}
	if e.now.After(leaf.NotAfter) {
		m.Violation("served-cert-expired", wit(lw))
	}
	if err := leaf.VerifyHostname(domain); err != nil {
		lw["verify_hostname"] = err.Error()
		m.Violation("served-cert-for-other-name", wit(lw))
	}
	signer, ok := o.cert.PrivateKey.(crypto.Signer)
	// invariant on every certificate any stream gets back: the leaf's public key is the private key's
	if !ok || !pubEqual(signer.Public(), leaf.PublicKey) {
		path, class := strings.SplitN(scen, "/", 2)[0], "unplanted"
		if hostile != nil {
			class = hostile.Kind
			if hostile.Path != "" {
				path = hostile.Path
			}
		}
		if ok {
			lw["private_key_public"] = fmt.Sprintf("%+v", signer.Public())
			lw["leaf_public"] = fmt.Sprintf("%+v", leaf.PublicKey)
		}
		m.Violation("served-cert-key-mismatch:"+path+":"+class, wit(lw))
	} else {
		m.Count("key_match_invariant_checked", 1)
	}
	if why := canUse(o.hello, leaf); why != "" {
		lw["why"] = why
		m.Violation("served-cert-key-type-unusable-by-client", wit(lw))
	} else {
		m.Count("key_type_checked_"+o.helloK, 1)
	}
	m.Count("certs_fully_checked", 1)
}

func isASCII(s string) bool {
	for i := 0; i < len(s); i++ {
		if s[i] >= 0x80 {
			return false
		}
	}
	return true
}

func tailCev(ev []cev, n int) []cev {
	if len(ev) > n {
		ev = ev[len(ev)-n:]
	}
	return ev
}

// ---- hostile cache content ------------------------------------------------------------------------

var seedKinds = []string{"valid", "valid-pkcs8", "valid-at-not-after", "valid-at-not-before", "valid-wildcard", "valid-with-chain",
	"expired-1s", "expired-long", "expired-1ns", "not-yet-valid-1s", "not-yet-valid-1ns-short", "other-name", "subdomain-name", "parent-name", "no-names",
	"key-mismatch", "key-type-pair-mismatch", "wrong-key-type-for-slot", "swapped-chain", "cert-before-key", "truncated", "garbage", "empty", "only-key", "only-cert",
	"trailing-garbage", "two-keys", "expired-then-valid"}

// seedCache plants content of the given kind for (domain, rsa slot) and returns
// the clock offset the scenario must use, whether the content is acceptable,
// and the leaves that must not be served if it is not.
func seedCache(r *rand.Rand, c *memCache, domain string, rsaSlot bool, kind string, now0 time.Time) (delta time.Duration, acceptable bool, hs *hostileSeed) {
	c51Init()
	key := domain
	var k, k2 crypto.Signer = c51EC[1+r.IntN(4)], c51EC[5]
	var other crypto.Signer = c51RSA[0]
	if rsaSlot {
		key += "+rsa"
		k, k2, other = c51RSA[0], c51RSA[1], c51EC[1]
	}
	day := 24 * time.Hour
	nb, na := now0.Add(-time.Hour), now0.Add(60*day)
	hs = &hostileSeed{Kind: kind}
	leaf := func(pub crypto.PublicKey, nb, na time.Time, names ...string) []byte {
		d := mkLeaf(pub, nb, na, names...)
		hs.DERs = append(hs.DERs, d)
		return d
	}
	put := func(b []byte) { c.m[key] = b }
	cat := func(bs ...[]byte) []byte { return bytes.Join(bs, nil) }
	switch kind {
	case "valid":
		put(cat(pemKey(k, ""), pemCerts(leaf(k.Public(), nb, na, domain))))
		acceptable = true
	case "valid-pkcs8":
		put(cat(pemKey(k, "pkcs8"), pemCerts(leaf(k.Public(), nb, na, domain))))
		acceptable = true
	case "valid-at-not-after":
		put(cat(pemKey(k, ""), pemCerts(leaf(k.Public(), nb, now0, domain))))
		acceptable = true
	case "valid-at-not-before":
		put(cat(pemKey(k, ""), pemCerts(leaf(k.Public(), now0, na, domain))))
		acceptable = true
	case "valid-wildcard":
		i := strings.IndexByte(domain, '.')
		put(cat(pemKey(k, ""), pemCerts(leaf(k.Public(), nb, na, "*"+domain[i:]))))
		acceptable = true
	case "valid-with-chain":
		put(cat(pemKey(k, ""), pemCerts(leaf(k.Public(), nb, na, domain), c51RootDE)))
		acceptable = true
	case "expired-1s":
		put(cat(pemKey(k, ""), pemCerts(leaf(k.Public(), now0.Add(-90*day), now0.Add(-time.Second), domain))))
	case "expired-long":
		put(cat(pemKey(k, ""), pemCerts(leaf(k.Public(), now0.Add(-800*day), now0.Add(-400*day), domain))))
	case "expired-1ns":
		put(cat(pemKey(k, ""), pemCerts(leaf(k.Public(), nb, now0, domain))))
		delta = mon.Pick(r, []time.Duration{1, 999 * time.Millisecond})
	case "not-yet-valid-1s":
		put(cat(pemKey(k, ""), pemCerts(leaf(k.Public(), now0.Add(time.Second), na, domain))))
		delta = mon.Pick(r, []time.Duration{0, 999999999})
	case "not-yet-valid-1ns-short":
		put(cat(pemKey(k, ""), pemCerts(leaf(k.Public(), now0.Add(365*day), now0.Add(400*day), domain))))
	case "other-name":
		put(cat(pemKey(k, ""), pemCerts(leaf(k.Public(), nb, na, "evil-"+domain))))
	case "subdomain-name":
		put(cat(pemKey(k, ""), pemCerts(leaf(k.Public(), nb, na, "www."+domain))))
	case "parent-name":
		i := strings.IndexByte(domain, '.')
		put(cat(pemKey(k, ""), pemCerts(leaf(k.Public(), nb, na, domain[i+1:]))))
	case "no-names":
		put(cat(pemKey(k, ""), pemCerts(leaf(k.Public(), nb, na))))
	case "key-mismatch":
		put(cat(pemKey(k2, ""), pemCerts(leaf(k.Public(), nb, na, domain))))
	case "key-type-pair-mismatch":
		put(cat(pemKey(other, ""), pemCerts(leaf(k.Public(), nb, na, domain))))
	case "wrong-key-type-for-slot":
		put(cat(pemKey(other, ""), pemCerts(leaf(other.Public(), nb, na, domain))))
	case "swapped-chain":
		leaf(k.Public(), nb, na, domain)
		put(cat(pemKey(k, ""), pemCerts(c51RootDE, hs.DERs[0])))
		hs.DERs = append(hs.DERs, c51RootDE)
	case "cert-before-key":
		put(cat(pemCerts(leaf(k.Public(), nb, na, domain)), pemKey(k, "")))
	case "truncated":
		b := cat(pemKey(k, ""), pemCerts(leaf(k.Public(), nb, na, domain)))
		put(b[:1+r.IntN(len(b)-8)])
	case "garbage":
		put(mon.Bytes(r, 1+r.IntN(600)))
	case "empty":
		put([]byte{})
	case "only-key":
		put(pemKey(k, ""))
	case "only-cert":
		put(pemCerts(leaf(k.Public(), nb, na, domain)))
	case "trailing-garbage":
		put(cat(pemKey(k, ""), pemCerts(leaf(k.Public(), nb, na, domain)), []byte("trailing junk\n")))
	case "two-keys":
		put(cat(pemKey(k2, ""), pemKey(k, ""), pemCerts(leaf(k.Public(), nb, na, domain))))
	case "expired-then-valid":
		put(cat(pemKey(k, ""), pemCerts(leaf(k.Public(), now0.Add(-90*day), now0.Add(-day), domain), mkLeaf(k.Public(), nb, na, domain))))
	default:
		panic("unknown seed kind " + kind)
	}
	if acceptable {
		hs = nil
	}
	return
}

// ---- the check ---------------------------------------------------------------------------------------

func TestC51(t *testing.T) {
	m := mon.New(t, "C51")
	defer m.Done()
	m.Rule("stream getcert: case = one fresh autocert.Manager (logging Cache + logging HostPolicy, manager clock fixed by VerifSetNow, ACME client pointed at a counting reverse proxy in front of the repo's fake CA, or at a 'CA down' endpoint) and 1..32 GetCertificate calls; classes: benign/IDN/hostile server names, 28 kinds of planted cache content (valid, boundary instants, expired, not yet valid, other names, key mismatches, wrong slot key type, swapped/truncated/garbage PEM), 7 ClientHello capability shapes, policy refusals with a tempting valid cached certificate, G=2..32 goroutines asking for one new name. Every returned non-challenge certificate is judged: a policy accept for the normalised name precedes the call's own cache accesses (and CA orders on a fresh manager); normalised name equals ref/punycode expectation; leaf valid at the manager clock, VerifyHostname, public key = private key, key type usable by the hello per TLS 1.2 rules; planted hostile leaf never served; cache keys obey the documented key contract; new-order POSTs per name counted at the proxy. stream renewal-grid: exhaustive lifetimes x RenewBefore x clock grid through VerifRenewalNext, repeated for the jitter. stream dircache: hostile names against a real DirCache. distinct = (scenario, name class, hello shape, served?)")
	m.Assume("crypto/x509 parsing, VerifyHostname and crypto/tls types are trusted; the repo's internal fake CA (reached through hooks) issues what it is asked for; ref/punycode (RFC 3492 vectors) gives the expected A-labels for the chosen alphabets")
	m.Assume("TLS 1.2 capability rules used by the key-type monitor: ECDSA leaf needs an ECDHE_ECDSA suite, an ECDSA signature scheme if signature_algorithms is present, and the leaf's curve if supported_groups is present; RSA leaf needs a non-ECDSA suite")
	c51Init()
	px := sharedProxy(t)
	batchTag := fmt.Sprintf("b%d", m.Batch())

	m.Cases("getcert", m.N(1200, 16000), func(i int64, r *rand.Rand) {
		tag := fmt.Sprintf("s%d%s", i, batchTag)
		base := tag + ".example.org"
		defer px.unregister(tag)
		log := &scenLog{}
		// fixed manager clock: certificates issued by the fake CA during the scenario (NotBefore = wall
		// clock at issuance, 90 days) are valid at it, and their renewal timers are weeks away
		now0 := time.Now().Truncate(time.Second).Add(time.Hour + time.Duration(r.Int64N(int64(40*24*time.Hour)))).Truncate(time.Second)
		switch i % 7 {
		case 6: // related-key mismatches at every validation point
			relatedKeyScenario(t, m, px, r, i/7, tag, base, now0)
		case 0: // names
			hn := hostileNames(base)
			var seq []nameCase
			for range 1 + r.IntN(3) {
				switch r.IntN(10) {
				case 0, 1, 2:
					seq = append(seq, benignName(r, base))
				case 3, 4:
					seq = append(seq, idnName(r, base))
				default:
					seq = append(seq, mon.Pick(r, hn))
				}
			}
			var pol autocert.HostPolicy = func(context.Context, string) error { return nil }
			polKind := "accept-all"
			switch r.IntN(3) {
			case 1:
				var allow []string
				for _, n := range seq {
					if n.Expect != "" && r.IntN(4) > 0 {
						allow = append(allow, n.Expect)
					}
				}
				pol, polKind = setPolicy(allow...), "exact-set"
			case 2:
				var allow []string
				for _, n := range seq {
					allow = append(allow, n.Name)
				}
				pol, polKind = autocert.HostWhitelist(allow...), "HostWhitelist"
			}
			e := newManager(t, px, tag, log, newMemCache(), pol, true, now0)
			for k, n := range seq {
				o := e.call(n, mon.Pick(r, []string{"both", "both", "both-explicit", "ecdsa-only"}), k == 0)
				judgeCall(m, e, o, nil, "names/"+polKind)
				if n.Expect == "" {
					m.Count("hostile_names_tried", 1)
					if o.cert != nil {
						m.Count("hostile_names_normalised_and_served", 1)
					}
				} else if o.cert != nil {
					m.Count("benign_or_idn_names_served", 1)
				}
			}
		case 1: // planted cache content
			kind := seedKinds[int(i/7)%len(seedKinds)]
			rsaSlot := r.IntN(4) == 0
			mc := newMemCache()
			delta, acceptable, hs := seedCache(r, mc, base, rsaSlot, kind, now0)
			caUp := r.IntN(3) == 0 && !rsaSlot
			e := newManager(t, px, tag, log, mc, func(context.Context, string) error { return nil }, caUp, now0.Add(delta))
			hk := mon.Pick(r, []string{"both", "ecdsa-only", "both-explicit"})
			if rsaSlot {
				hk = mon.Pick(r, []string{"rsa-only-suites", "rsa-only-sigalgs", "rsa-only-curves", "rsa-only-all"})
			}
			in := benignName(r, base)
			o := e.call(in, hk, true)
			judgeCall(m, e, o, hs, "cache/"+kind)
			read := false
			for _, x := range log.snapshot() {
				if x.T == "cache-get" && strings.HasPrefix(x.Name, base) {
					read = true
				}
			}
			if read {
				m.Count("planted_cache_entry_was_read", 1)
			}
			if acceptable {
				m.Count("acceptable_cache_content_cases", 1)
				if o.cert != nil {
					m.Count("acceptable_cache_content_served", 1)
				}
			} else {
				m.Count("hostile_cache_content_cases", 1)
				m.Count("hostile_cache_"+kind, 1)
				if o.cert == nil {
					m.Count("hostile_cache_content_refused", 1)
				} else {
					m.Count("hostile_cache_content_replaced_by_fresh_cert", 1)
				}
			}
		case 2: // key types
			mc := newMemCache()
			haveEC, haveRSA := r.IntN(5) > 0, r.IntN(5) > 0
			if haveEC {
				seedCache(r, mc, base, false, mon.Pick(r, []string{"valid", "valid-pkcs8", "valid-with-chain"}), now0)
			}
			if haveRSA {
				seedCache(r, mc, base, true, mon.Pick(r, []string{"valid", "valid-pkcs8"}), now0)
			}
			caUp := r.IntN(12) == 0
			e := newManager(t, px, tag, log, mc, func(context.Context, string) error { return nil }, caUp, now0)
			for k := range 2 + r.IntN(3) {
				hk := helloKinds[(int(i/7)+k)%len(helloKinds)]
				o := e.call(benignName(r, base), hk, k == 0)
				judgeCall(m, e, o, nil, "keytype")
				if strings.HasPrefix(hk, "rsa-only") {
					m.Count("rsa_only_hellos", 1)
					if o.cert != nil {
						m.Count("rsa_only_hellos_served", 1)
					}
				}
			}
		case 3: // single flight
			G := 2 + r.IntN(31)
			twoTypes := r.IntN(5) == 0
			e := newManager(t, px, tag, log, newMemCache(), func(context.Context, string) error { return nil }, true, now0)
			ins := make([]nameCase, G)
			hks := make([]string, G)
			for g := range ins {
				ins[g] = benignName(r, base)
				hks[g] = mon.Pick(r, []string{"both", "ecdsa-only", "both-explicit"})
				if twoTypes && g%2 == 1 {
					hks[g] = "rsa-only-suites"
				}
			}
			obs := make([]callObs, G)
			start := make(chan struct{})
			var wg sync.WaitGroup
			for g := 0; g < G; g++ {
				wg.Add(1)
				go func(g int) {
					defer wg.Done()
					<-start
					obs[g] = e.call(ins[g], hks[g], false)
				}(g)
			}
			close(start)
			wg.Wait()
			served := 0
			for _, o := range obs {
				judgeCall(m, e, o, nil, "single-flight")
				if o.cert != nil {
					served++
				}
			}
			n, idents := px.ordersWithTag(tag)
			nf := px.finalsWithTag(tag)
			bound := 1
			if twoTypes {
				bound = 2
			}
			m.Count("single_flight_groups", 1)
			m.Count("single_flight_callers", G)
			m.Count("single_flight_callers_served", served)
			if n >= 1 {
				m.Count("single_flight_groups_with_an_order", 1)
			}
			m.Eval()
			// one issuance per certificate key type. With a single key type nothing can disturb the
			// tls-alpn-01 validation, so the CA sees exactly one order; with two key types the two
			// issuances share the per-domain challenge token and may each legitimately re-order.
			if nf > bound || (!twoTypes && n > 1) {
				m.Violation("concurrent-requests-started-multiple-issuances", map[string]any{"goroutines": G, "key_types": bound, "new_order_posts": n, "finalize_posts": nf, "identifiers": idents,
					"served": served, "events": tailCev(log.snapshot(), 60)})
			}
			if twoTypes {
				m.Count("single_flight_groups_two_key_types", 1)
				if n > 2 {
					m.Count("two_key_type_groups_with_reorders", 1)
				}
			}
			// a later sequential request is served from state
			o := e.call(benignName(r, base), "both", false)
			judgeCall(m, e, o, nil, "single-flight-followup")
			if n2, _ := px.ordersWithTag(tag); n2 == n {
				m.Count("followup_served_without_new_order", 1)
			}
		case 4: // policy refusal with a tempting valid cached certificate
			mc := newMemCache()
			rsaSlot := r.IntN(5) == 0
			seedCache(r, mc, base, rsaSlot, "valid", now0)
			in := benignName(r, base)
			if r.IntN(4) == 0 {
				in = nameCase{Name: base, Class: "plain", Expect: base}
			}
			refuse := r.IntN(3) > 0
			var pol autocert.HostPolicy
			polKind := ""
			switch {
			case refuse && r.IntN(2) == 0:
				pol, polKind = setPolicy("other."+base, base+"x"), "refuse/exact-set"
			case refuse:
				pol, polKind = autocert.HostWhitelist("other."+base), "refuse/HostWhitelist"
			case r.IntN(2) == 0:
				pol, polKind = setPolicy(in.Expect), "accept/exact-set"
			default:
				pol, polKind = autocert.HostWhitelist(strings.TrimSuffix(in.Name, ".")), "accept/HostWhitelist"
				if strings.HasSuffix(in.Name, ".") {
					polKind = "refuse/HostWhitelist-trailing-dot" // the policy sees the dot; either outcome satisfies the property
				}
			}
			e := newManager(t, px, tag, log, mc, pol, r.IntN(4) == 0, now0)
			hk := "both"
			if rsaSlot {
				hk = "rsa-only-suites"
			}
			o := e.call(in, hk, true)
			judgeCall(m, e, o, nil, "policy/"+polKind)
			if strings.HasPrefix(polKind, "refuse/exact") || polKind == "refuse/HostWhitelist" {
				m.Count("refusing_policy_with_valid_cached_cert", 1)
				if o.cert == nil {
					m.Count("refusing_policy_respected", 1)
				}
			} else if o.cert != nil {
				m.Count("accepting_policy_served_from_cache", 1)
			}
		case 5: // two managers sharing one cache; spellings of one name
			mc := newMemCache()
			e1 := newManager(t, px, tag, log, mc, func(context.Context, string) error { return nil }, true, now0)
			var first []byte
			for k := range 2 + r.IntN(2) {
				in := benignName(r, base)
				if r.IntN(3) == 0 {
					in = idnName(r, base)
				}
				o := e1.call(in, "both", k == 0)
				judgeCall(m, e1, o, nil, "shared-cache/m1")
				if o.cert != nil && first == nil && in.Class != "idn" && !strings.HasPrefix(in.Class, "idn") && in.Class != "a-label-upper" {
					first = o.cert.Certificate[0]
				}
			}
			log2 := &scenLog{}
			e2 := newManager(t, px, tag+"zz", log2, mc, func(context.Context, string) error { return nil }, false, now0)
			defer px.unregister(tag + "zz")
			o := e2.call(benignName(r, base), "both", true)
			judgeCall(m, e2, o, nil, "shared-cache/m2")
			if o.cert != nil && first != nil && bytes.Equal(first, o.cert.Certificate[0]) {
				m.Count("second_manager_served_cached_cert", 1)
			}
		}
	})

	dirCacheNames(t, m, px, batchTag)
	renewalGrid(m)
	tinyRenewal(t, m, px, batchTag)

	m.Gate("certs_fully_checked", 300, "returned certificates were judged")
	m.Gate("policy_order_checked", 300, "policy-before-cache/CA order was evaluated")
	m.Gate("hostile_cache_content_cases", 100, "hostile cache content was planted (every 7th scenario)")
	m.Gate("planted_cache_entry_was_read", 100, "the manager actually read the planted cache entry")
	m.Gate("rsa_only_hellos_served", 50, "RSA-only clients were served a certificate (every 7th scenario)")
	m.Gate("single_flight_groups_with_an_order", 50, "concurrent callers for one new name reached the CA (every 7th scenario)")
	m.Gate("refusing_policy_with_valid_cached_cert", 50, "a refusing policy met a valid cached certificate (every 7th scenario)")
	m.Gate("related_key_scenarios", 100, "related-key mismatch pairs were planted (every 7th scenario)")
	m.Gate("related_key_cache", 40, "related-key pairs in the cache on first load")
	m.Gate("related_key_renewal_cache_rereads", 20, "the renewal loop re-read a cache entry that had been swapped for a related-key pair / removed")
	m.Gate("related_key_ca_chains_substituted", 10, "the CA path returned a chain for a related key")
	m.Gate("key_match_invariant_checked", 300, "leaf public key == private key was checked on returned certificates")
	m.Gate("hostile_names_tried", 100, "hostile server names were tried")
	m.Gate("normalised_name_compared_with_ref", 100, "IDN/mixed-case normalisation was compared with ref/punycode")
	m.Gate("renewal_grid_points", 363, "the whole renewal grid was evaluated")
	m.Gate("dircache_names", 100, "hostile names were run against a real DirCache")
}

// ---- renewal scheduler grid ---------------------------------------------------------------------------

func renewalGrid(m *mon.M) {
	day := 24 * time.Hour
	lifetimes := []time.Duration{0, 1, 9, 10, 11, 29, 30, time.Second, time.Hour, 90 * day, 3650 * day}
	type rb struct {
		name string
		d    func(life time.Duration) time.Duration
	}
	fixed := func(d time.Duration) func(time.Duration) time.Duration {
		return func(time.Duration) time.Duration { return d }
	}
	renewBefores := []rb{{"unset", fixed(0)}, {"1ns", fixed(1)}, {"5ns", fixed(5)}, {"9ns", fixed(9)}, {"10ns", fixed(10)}, {"11ns", fixed(11)},
		{"1us", fixed(time.Microsecond)}, {"1h", fixed(time.Hour)}, {"30d", fixed(30 * day)}, {"60d", fixed(60 * day)},
		{">lifetime", func(l time.Duration) time.Duration { return l + 1 + l/2 }}}
	nows := []string{"before", "inside", "after"}
	total := len(lifetimes) * len(renewBefores) * len(nows)
	reps := m.N(60, 1000)
	notBefore := time.Date(2031, 3, 1, 12, 0, 0, 0, time.UTC)
	// grid points whose documented jitter bound is positive come first: the expected defect
	// (zero bound) leaves a package-level lock held, after which no further point can be evaluated
	thrOf := func(idx int) time.Duration {
		life := lifetimes[idx%len(lifetimes)]
		rbd := renewBefores[idx/len(lifetimes)%len(renewBefores)].d(life)
		thr := min(life/3, 30*day)
		if rbd > 0 {
			thr = min(rbd, 30*day)
		}
		return thr
	}
	order := make([]int, 0, total)
	for idx := 0; idx < total; idx++ {
		if thrOf(idx) >= 10 {
			order = append(order, idx)
		}
	}
	for idx := 0; idx < total; idx++ {
		if thrOf(idx) < 10 {
			order = append(order, idx)
		}
	}
	m.Each("renewal-grid", total, func(pos int64, r *rand.Rand) {
		if renewalLockPoisoned {
			m.Count("renewal_grid_points_skipped_lock_held", 1)
			return
		}
		i := order[pos]
		life := lifetimes[int(i)%len(lifetimes)]
		rbc := renewBefores[int(i)/len(lifetimes)%len(renewBefores)]
		nowK := nows[int(i)/len(lifetimes)/len(renewBefores)]
		renewBefore := rbc.d(life)
		notAfter := notBefore.Add(life)
		// documented: threshold = RenewBefore capped at 30 d, or min(lifetime/3, 30 d) if unset;
		// jitter = up to 10% of the threshold capped at 1 h
		thr := min(life/3, 30*day)
		if renewBefore > 0 {
			thr = min(renewBefore, 30*day)
		}
		maxJ := min(thr/10, time.Hour)
		m.Count("renewal_grid_points", 1)
		m.Distinct(fmt.Sprintf("renewal|life=%v|rb=%s|now=%s", life, rbc.name, nowK))
		if maxJ == 0 {
			m.Count("renewal_grid_points_zero_jitter", 1)
		}
		man := &autocert.Manager{RenewBefore: renewBefore}
		for k := 0; k < reps; k++ {
			var now time.Time
			switch nowK {
			case "before":
				now = notBefore.Add(-time.Duration(1 + r.Int64N(int64(100*day))))
				if k == 0 {
					now = notBefore.Add(-1)
				}
			case "inside":
				now = notBefore
				if life > 0 {
					now = notBefore.Add(time.Duration(r.Int64N(int64(life) + 1)))
				}
				if k == 0 {
					now = notAfter.Add(-thr) // exactly at the earliest renewal instant
				}
				if k == 1 {
					now = notAfter
				}
			case "after":
				now = notAfter.Add(time.Duration(1 + r.Int64N(int64(100*day))))
				if k == 0 {
					now = notAfter.Add(1)
				}
			}
			autocert.VerifSetNow(man, func() time.Time { return now })
			var d time.Duration
			pv, stack := mon.Panics(func() { d = autocert.VerifRenewalNext(man, notBefore, notAfter) })
			m.Eval()
			wit := map[string]any{"lifetime": life.String(), "lifetime_ns": int64(life), "renew_before": rbc.name, "renew_before_ns": int64(renewBefore),
				"not_before": notBefore.Format(time.RFC3339Nano), "not_after": notAfter.Format(time.RFC3339Nano), "now": now.Format(time.RFC3339Nano),
				"threshold_ns": int64(thr), "max_jitter_ns": int64(maxJ)}
			if pv != nil {
				wit["panic"] = fmt.Sprint(pv)
				wit["site"] = mon.PanicSite(stack)
				wit["stack"] = stack
				key := "renewal-next-panics:other"
				if maxJ == 0 {
					key = "renewal-next-panics:zero-jitter"
				}
				m.Count("renewal_panics", 1)
				m.Violation(key, wit)
				probeRenewalLock(m, wit)
				return // every repetition of this grid point panics the same way
			}
			wit["next"] = d.String()
			wit["next_ns"] = int64(d)
			if d < 0 {
				m.Violation("renewal-next-negative", wit)
				continue
			}
			// renewal instant; the jitter direction is not documented: accept both
			lo, hi := notAfter.Add(-thr-maxJ), notAfter.Add(-thr+maxJ)
			at := now.Add(d)
			switch {
			case d > 0 && (at.Before(lo) || at.After(hi)):
				wit["renew_at"] = at.Format(time.RFC3339Nano)
				m.Violation("renewal-outside-documented-window", wit)
			case d == 0 && now.Before(lo):
				m.Violation("renewal-immediately-although-window-not-reached", wit)
			default:
				m.Count("renewal_window_ok", 1)
				if d > 0 && at.Before(notAfter.Add(-thr)) {
					m.Count("renewal_jitter_earlier_than_threshold", 1)
				}
			}
		}
	})
	if m.Batch() == 0 && !m.Replaying() {
		m.SetExhaustive(false) // the grid is enumerated completely, the getcert stream is sampled
	}
}

// renewalLockPoisoned is set once a call into the renewal scheduler was seen
// to leave the package-level pseudoRand lock held (the holder panicked); from
// then on every call that needs a jitter value would block forever.
var renewalLockPoisoned bool

// probeRenewalLock checks, after a panic in next(), whether the scheduler is
// still usable in this process: a call with an ordinary lifetime must return.
func probeRenewalLock(m *mon.M, panicWit map[string]any) {
	man := &autocert.Manager{}
	nb := time.Date(2031, 3, 1, 12, 0, 0, 0, time.UTC)
	autocert.VerifSetNow(man, func() time.Time { return nb })
	done, _, _, _ := mon.RunTimed(20*time.Second, func() { autocert.VerifRenewalNext(man, nb, nb.Add(90*24*time.Hour)) })
	if done {
		m.Count("renewal_usable_after_panic", 1)
		return
	}
	renewalLockPoisoned = true
	// structural evidence: the probe is parked on the mutex inside int63n in successive dumps
	// and no live goroutine is inside int63n holding it
	parked, holders := 0, 0
	var raw string
	for k := 0; k < 3; k++ {
		if k > 0 {
			time.Sleep(200 * time.Millisecond)
		}
		p, h := 0, 0
		for _, g := range mon.ParseDump(mon.GoroutineDump()) {
			if !g.Has("lockedMathRand).int63n") {
				continue
			}
			if g.State == "sync.Mutex.Lock" {
				p++
				raw = g.Raw
			} else {
				h++
			}
		}
		if p > 0 {
			parked++
		}
		holders += h
	}
	if parked == 3 && holders == 0 {
		m.Violation("renewal-next-blocks-forever-after-panic:pseudoRand-lock-held", map[string]any{
			"after_panic_at": panicWit, "probe": "VerifRenewalNext(Manager{}, 90 day certificate) did not return",
			"diagnosis": "lockedMathRand.int63n locks, panics inside math/rand.Int63n(0), and never unlocks; no live goroutine holds the lock", "parked_goroutine": raw})
	} else {
		m.Inconclusive(fmt.Sprintf("renewal probe after panic did not return within 20s but the lock evidence is not conclusive (parked in %d/3 dumps, %d possible holders)", parked, holders))
	}
}

// tinyRenewal reaches the same scheduler through the public API: a valid
// cached certificate and a configuration whose renewal threshold is tiny
// (RenewBefore of a few nanoseconds, or a certificate valid for one instant).
func tinyRenewal(t *testing.T, m *mon.M, px *caProxy, batchTag string) {
	type tc struct {
		name        string
		renewBefore time.Duration
		life        time.Duration
	}
	cases := []tc{{"RenewBefore=5ns", 5, 60 * 24 * time.Hour}, {"RenewBefore=1ns", 1, time.Hour}, {"RenewBefore=9ns", 9, 90 * 24 * time.Hour}, {"lifetime=0", 0, 0},
		{"lifetime=1s", 0, time.Second}, {"RenewBefore=10ns", 10, time.Hour}, {"RenewBefore=11ns", 11, time.Hour}, {"RenewBefore=1us", time.Microsecond, time.Hour}}
	m.Cases("tiny-renewal", len(cases), func(i int64, r *rand.Rand) {
		if renewalLockPoisoned {
			m.Count("tiny_renewal_skipped_lock_held", 1)
			return
		}
		c := cases[i]
		tag := fmt.Sprintf("tr%d%s", i, batchTag)
		base := tag + ".example.org"
		now0 := time.Now().Truncate(time.Second).Add(3 * time.Hour)
		mc := newMemCache()
		k := c51EC[2]
		nb := now0.Add(-c.life / 2).Truncate(time.Second)
		mc.m[base] = append(pemKey(k, ""), pemCerts(mkLeaf(k.Public(), nb, nb.Add(c.life), base))...)
		log := &scenLog{}
		e := newManager(t, px, tag, log, mc, func(context.Context, string) error { return nil }, false, nb.Add(c.life/2))
		defer px.unregister(tag)
		e.man.RenewBefore = c.renewBefore
		var o callObs
		done, _, _, dump := mon.RunTimed(60*time.Second, func() { o = e.call(nameCase{Name: base, Class: "plain", Expect: base}, "both", true) })
		if !done {
			renewalLockPoisoned = true
			m.Inconclusive("tiny-renewal " + c.name + ": GetCertificate did not return within 60s; dump head: " + dump[:min(len(dump), 1500)])
			return
		}
		m.Count("tiny_renewal_cases", 1)
		judgeCall(m, e, o, nil, "tiny-renewal/"+c.name)
		if o.panicV != nil {
			renewalLockPoisoned = true
		}
	})
}

// ---- hostile names against a real DirCache -----------------------------------------------------------------

func dirCacheNames(t *testing.T, m *mon.M, px *caProxy, batchTag string) {
	tag := "dc" + batchTag
	base := tag + ".example.org"
	names := hostileNames(base)
	names = append(names, nameCase{Name: base, Class: "plain", Expect: base}, nameCase{Name: strings.ToUpper(base) + ".", Class: "upper+dot", Expect: base + "."})
	m.Each("dircache", len(names), func(i int64, r *rand.Rand) {
		in := names[i]
		outer, err := ext.TempDir("acmeh-dc")
		if err != nil {
			m.Inconclusive("TempDir: " + err.Error())
			return
		}
		defer os.RemoveAll(outer)
		dir := filepath.Join(outer, "outer", "cache")
		os.MkdirAll(dir, 0o700)
		os.WriteFile(filepath.Join(outer, "sentinel"), []byte("x"), 0o600)
		log := &scenLog{}
		now0 := time.Now().Truncate(time.Second).Add(2 * time.Hour)
		e := newManager(t, px, tag, log, autocert.DirCache(dir), func(context.Context, string) error { return nil }, true, now0)
		defer px.unregister(tag)
		o := e.call(in, "both", true)
		judgeCall(m, e, o, nil, "dircache")
		m.Count("dircache_names", 1)
		if in.Expect == "" {
			m.Count("hostile_names_tried", 1)
			if o.cert != nil {
				m.Count("hostile_names_normalised_and_served", 1)
			}
		}
		// nothing may appear outside outer/cache
		var stray []string
		filepath.Walk(outer, func(p string, info os.FileInfo, err error) error {
			if err != nil {
				return nil
			}
			rel, _ := filepath.Rel(outer, p)
			switch {
			case rel == ".", rel == "outer", rel == "sentinel", rel == filepath.Join("outer", "cache"):
			case strings.HasPrefix(rel, filepath.Join("outer", "cache")+string(filepath.Separator)):
				if info.IsDir() {
					stray = append(stray, rel+"/ (directory inside the cache)")
				}
			default:
				stray = append(stray, rel)
			}
			return nil
		})
		if len(stray) > 0 {
			m.Violation("dircache-path-escapes-cache-dir", map[string]any{"server_name": in.Name, "server_name_hex": mon.Hex([]byte(in.Name)), "stray": stray, "events": tailCev(log.snapshot(), 30)})
		}
	})
}

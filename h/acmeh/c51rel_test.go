package acmeh

// "Related-key mismatch" classes for C51: certificate/private-key pairs whose
// public keys are not equal but share part of their representation (same X
// coordinate, same Y coordinate, same integer X on another curve, same RSA
// modulus with another exponent, ...). They are planted at every place where
// autocert validates a pair: the first cache load, the renewal loop's cache
// re-read, and the chain fetched from the CA (first issuance and renewal).
// The oracle is the invariant monitor in judgeCall: no certificate returned by
// GetCertificate may have Leaf.PublicKey != PrivateKey.Public() (stdlib Equal).

import (
	"bytes"
	"context"
	"crypto"
	"crypto/ecdsa"
	"crypto/elliptic"
	crand "crypto/rand"
	"crypto/rsa"
	"crypto/x509"
	"fmt"
	"math/big"
	"math/rand/v2"
	"sync"
	"testing"
	"time"

	"golang.org/x/crypto/acme/autocert"
	"verif/mon"
)

// ecRelated derives from pub a different public key of the given class; ok is
// false if the class is not constructible for this particular point.
func ecRelated(pub *ecdsa.PublicKey, class string) (*ecdsa.PublicKey, bool) {
	cv := pub.Curve
	P := cv.Params().P
	switch class {
	case "negated": // (X, p-Y): the public key of n-d
		return &ecdsa.PublicKey{Curve: cv, X: new(big.Int).Set(pub.X), Y: new(big.Int).Sub(P, pub.Y)}, true
	case "same-y":
		// other roots of x^3 - 3x + b = Y^2: x^2 + x1*x + (x1^2 - 3) = 0 (mod p)
		x1 := pub.X
		disc := new(big.Int).Mul(x1, x1)
		disc.Mul(disc, big.NewInt(3))
		disc.Sub(big.NewInt(12), disc)
		disc.Mod(disc, P)
		rt := new(big.Int).ModSqrt(disc, P)
		if rt == nil {
			return nil, false
		}
		x2 := new(big.Int).Sub(rt, x1)
		x2.Mul(x2, new(big.Int).ModInverse(big.NewInt(2), P))
		x2.Mod(x2, P)
		if x2.Cmp(x1) == 0 || !cv.IsOnCurve(x2, pub.Y) {
			return nil, false
		}
		return &ecdsa.PublicKey{Curve: cv, X: x2, Y: new(big.Int).Set(pub.Y)}, true
	case "d-plus-1": // P + G
		g := cv.Params()
		x, y := cv.Add(pub.X, pub.Y, g.Gx, g.Gy)
		return &ecdsa.PublicKey{Curve: cv, X: x, Y: y}, true
	case "other-curve-same-x":
		var oc elliptic.Curve = elliptic.P384()
		if cv.Params().Name == "P-384" {
			oc = elliptic.P256()
		}
		op := oc.Params()
		if pub.X.Cmp(op.P) >= 0 {
			return nil, false
		}
		// y^2 = x^3 - 3x + b on the other curve
		y2 := new(big.Int).Exp(pub.X, big.NewInt(3), op.P)
		y2.Sub(y2, new(big.Int).Mul(pub.X, big.NewInt(3)))
		y2.Add(y2, op.B)
		y2.Mod(y2, op.P)
		y := new(big.Int).ModSqrt(y2, op.P)
		if y == nil || !oc.IsOnCurve(pub.X, y) {
			return nil, false
		}
		return &ecdsa.PublicKey{Curve: oc, X: new(big.Int).Set(pub.X), Y: y}, true
	}
	panic("ecRelated: unknown class " + class)
}

func rsaRelated(pub *rsa.PublicKey, class string) *rsa.PublicKey {
	switch class {
	case "same-n-other-e":
		return &rsa.PublicKey{N: new(big.Int).Set(pub.N), E: 3}
	case "n-one-bit":
		n := new(big.Int).Set(pub.N)
		n.SetBit(n, 9, n.Bit(9)^1)
		return &rsa.PublicKey{N: n, E: pub.E}
	case "n-times-3":
		return &rsa.PublicKey{N: new(big.Int).Mul(pub.N, big.NewInt(3)), E: pub.E}
	}
	panic("rsaRelated: unknown class " + class)
}

// pool of EC keys for which a class is constructible (per process)
var (
	relMu   sync.Mutex
	relKeys = map[string]*ecdsa.PrivateKey{}
)

func ecKeyFor(curve elliptic.Curve, class string) (*ecdsa.PrivateKey, *ecdsa.PublicKey) {
	relMu.Lock()
	defer relMu.Unlock()
	id := curve.Params().Name + "/" + class
	if k, ok := relKeys[id]; ok {
		p, _ := ecRelated(&k.PublicKey, class)
		return k, p
	}
	for {
		k, err := ecdsa.GenerateKey(curve, crand.Reader)
		if err != nil {
			panic(err)
		}
		if p, ok := ecRelated(&k.PublicKey, class); ok {
			relKeys[id] = k
			return k, p
		}
	}
}

// relBundle is one planted key/certificate pair.
type relBundle struct {
	Class    string
	RSASlot  bool
	Hello    string
	PEM      []byte
	Leaf     []byte
	Mismatch bool
}

var relCacheClasses = []string{"control-ec256", "control-ec384", "control-rsa", "ec256-negated", "ec384-negated", "ec256-same-y", "ec384-same-y",
	"ec256-d-plus-1", "ec384-d-plus-1", "ec256-other-curve-same-x", "rsa-same-n-other-e", "rsa-n-one-bit", "rsa-n-times-3", "alg-rsa-key-ec-leaf", "alg-ec-key-rsa-leaf"}

// mkRelBundle builds the PEM bundle of the class for domain, valid from nb to na.
func mkRelBundle(class, domain string, nb, na time.Time) relBundle {
	c51Init()
	b := relBundle{Class: class, Hello: "both", Mismatch: true}
	var priv crypto.Signer
	var leafPub crypto.PublicKey
	curveOf := func() elliptic.Curve {
		if class[:5] == "ec384" {
			return elliptic.P384()
		}
		return elliptic.P256()
	}
	switch class {
	case "control-ec256":
		priv, leafPub, b.Mismatch = c51EC[3], c51EC[3].Public(), false
	case "control-ec384":
		k, _ := ecKeyFor(elliptic.P384(), "negated")
		priv, leafPub, b.Mismatch = k, k.Public(), false
	case "control-rsa":
		priv, leafPub, b.Mismatch, b.RSASlot = c51RSA[0], c51RSA[0].Public(), false, true
	case "ec256-negated", "ec384-negated", "ec256-same-y", "ec384-same-y", "ec256-d-plus-1", "ec384-d-plus-1", "ec256-other-curve-same-x":
		k, p := ecKeyFor(curveOf(), class[6:])
		priv, leafPub = k, p
	case "rsa-same-n-other-e", "rsa-n-one-bit", "rsa-n-times-3":
		priv, leafPub, b.RSASlot = c51RSA[0], rsaRelated(&c51RSA[0].PublicKey, class[4:]), true
	case "alg-rsa-key-ec-leaf":
		priv, leafPub = c51RSA[1], c51EC[3].Public()
	case "alg-ec-key-rsa-leaf":
		priv, leafPub, b.RSASlot = c51EC[3], c51RSA[1].Public(), true
	default:
		panic("mkRelBundle: unknown class " + class)
	}
	if b.RSASlot {
		b.Hello = "rsa-only-suites"
	}
	b.Leaf = mkLeaf(leafPub, nb, na, domain)
	b.PEM = append(pemKey(priv, ""), pemCerts(b.Leaf)...)
	return b
}

// switchCache answers the first Get of key with first and later ones with then
// (nil: miss), until something is Put under the key. It tells when the second
// Get (the renewal loop's re-read) happened.
type switchCache struct {
	mu     sync.Mutex
	key    string
	first  []byte
	then   []byte
	n      int
	second chan struct{}
	put    map[string][]byte
}

func (c *switchCache) Get(ctx context.Context, k string) ([]byte, error) {
	c.mu.Lock()
	defer c.mu.Unlock()
	if v, ok := c.put[k]; ok {
		return append([]byte(nil), v...), nil
	}
	if k != c.key {
		return nil, autocert.ErrCacheMiss
	}
	c.n++
	if c.n == 1 {
		return append([]byte(nil), c.first...), nil
	}
	if c.n == 2 {
		close(c.second)
	}
	if c.then == nil {
		return nil, autocert.ErrCacheMiss
	}
	return append([]byte(nil), c.then...), nil
}
func (c *switchCache) Put(ctx context.Context, k string, d []byte) error {
	c.mu.Lock()
	defer c.mu.Unlock()
	c.put[k] = append([]byte(nil), d...)
	return nil
}
func (c *switchCache) Delete(ctx context.Context, k string) error {
	c.mu.Lock()
	defer c.mu.Unlock()
	delete(c.put, k)
	return nil
}

type relCombo struct{ Path, Class string }

func relCombos() []relCombo {
	var l []relCombo
	for _, c := range relCacheClasses {
		l = append(l, relCombo{"cache", c})
	}
	for _, c := range []string{"control-ec256", "ec256-negated", "ec256-same-y", "ec256-d-plus-1", "ec256-other-curve-same-x", "ec384-negated", "rsa-same-n-other-e", "control-rsa"} {
		l = append(l, relCombo{"renewal-cache", c})
	}
	for _, c := range []string{"control", "negated", "same-y", "d-plus-1", "other-curve-same-x", "negated"} {
		l = append(l, relCombo{"ca", c})
	}
	for _, c := range []string{"control", "negated", "same-y", "d-plus-1"} {
		l = append(l, relCombo{"renewal-ca", c})
	}
	return l
}

// caTamper returns the CSR-key transformation for the class; classes that are
// not constructible for the manager's freshly generated key fall back to negation.
func caTamper(class string, used *usedClass) func(crypto.PublicKey) crypto.PublicKey {
	return func(pub crypto.PublicKey) crypto.PublicKey {
		ep, ok := pub.(*ecdsa.PublicKey)
		if class == "control" || !ok {
			used.set("control")
			return pub
		}
		if p, ok := ecRelated(ep, class); ok {
			used.set("ec256-" + class)
			return p
		}
		p, _ := ecRelated(ep, "negated")
		used.set("ec256-negated")
		return p
	}
}

// usedClass is written by the proxy's handler goroutine and read by the scenario.
type usedClass struct {
	mu sync.Mutex
	v  string
}

func (u *usedClass) set(v string) { u.mu.Lock(); u.v = v; u.mu.Unlock() }
func (u *usedClass) get() string  { u.mu.Lock(); defer u.mu.Unlock(); return u.v }

// relatedKeyScenario runs one (path, class) combination.
func relatedKeyScenario(t *testing.T, m *mon.M, px *caProxy, r *rand.Rand, idx int64, tag, base string, now0 time.Time) {
	combos := relCombos()
	cb := combos[int(idx)%len(combos)]
	log := &scenLog{}
	day := 24 * time.Hour
	acceptAll := func(context.Context, string) error { return nil }
	in := benignName(r, base)
	m.Count("related_key_scenarios", 1)
	m.Count("related_key_"+cb.Path, 1)
	switch cb.Path {
	case "cache":
		b := mkRelBundle(cb.Class, base, now0.Add(-time.Hour), now0.Add(60*day))
		mc := newMemCache()
		key := base
		if b.RSASlot {
			key += "+rsa"
		}
		mc.m[key] = b.PEM
		e := newManager(t, px, tag, log, mc, acceptAll, false, now0)
		o := e.call(in, b.Hello, true)
		var hs *hostileSeed
		if b.Mismatch {
			hs = &hostileSeed{Kind: cb.Class, Path: "cache"} // no DERs: one key per defect (the key-match invariant)
		}
		judgeCall(m, e, o, hs, "related-key/cache/"+cb.Class)
		relCount(m, b.Mismatch, o)

	case "renewal-cache", "renewal-ca":
		// A: valid, matching, about to expire (the renewal timer fires at once)
		var b relBundle
		used := &usedClass{v: cb.Class}
		if cb.Path == "renewal-cache" {
			b = mkRelBundle(cb.Class, base, now0.Add(-time.Hour), now0.Add(60*day))
		} else {
			b = relBundle{Class: cb.Class, Hello: "both", Mismatch: cb.Class != "control"}
		}
		var ka crypto.Signer = c51EC[4]
		if b.RSASlot {
			ka = c51RSA[1]
		}
		aLeaf := mkLeaf(ka.Public(), now0.Add(-59*time.Minute), now0.Add(time.Minute), base)
		key := base
		if b.RSASlot {
			key += "+rsa"
		}
		sw := &switchCache{key: key, first: append(pemKey(ka, ""), pemCerts(aLeaf)...), then: b.PEM, second: make(chan struct{}), put: map[string][]byte{}}
		e := newManager(t, px, tag, log, sw, acceptAll, cb.Path == "renewal-ca", now0)
		if cb.Path == "renewal-ca" {
			px.setTamper(e.reg, caTamper(cb.Class, used))
		}
		o := e.call(in, b.Hello, true)
		judgeCall(m, e, o, nil, "related-key/"+cb.Path+"/"+cb.Class)
		if o.cert == nil || !bytes.Equal(o.cert.Certificate[0], aLeaf) {
			m.Count("related_key_renewal_setup_not_served", 1)
			return
		}
		wd := time.NewTimer(60 * time.Second)
		defer wd.Stop()
		select {
		case <-sw.second:
			m.Count("related_key_renewal_cache_rereads", 1)
		case <-wd.C:
			m.Inconclusive(fmt.Sprintf("related-key %s/%s: the renewal loop did not re-read the cache within 60s", cb.Path, cb.Class))
			return
		}
		// keep asking until the renewal loop has visibly moved on
		after := 0
		for k := 0; k < 20000; k++ {
			o = e.call(in, b.Hello, false)
			hs := &hostileSeed{Kind: used.get(), Path: cb.Path}
			judgeCall(m, e, o, hs, "related-key/"+cb.Path+"/"+cb.Class)
			if o.cert != nil && !bytes.Equal(o.cert.Certificate[0], aLeaf) {
				m.Count("related_key_renewal_replaced_state", 1)
				break
			}
			moved := px.downHitsFor(tag) > 0
			if cb.Path == "renewal-ca" {
				moved = px.fetchesWithTag(tag) > 0
			}
			if moved {
				if after++; after > 40 {
					m.Count("related_key_renewal_kept_state", 1)
					break
				}
			}
			time.Sleep(time.Millisecond)
		}
		relCount(m, b.Mismatch, o)

	case "ca":
		used := &usedClass{v: cb.Class}
		e := newManager(t, px, tag, log, newMemCache(), acceptAll, true, now0)
		px.setTamper(e.reg, caTamper(cb.Class, used))
		o := e.call(in, "both", true)
		e.reg.mu.Lock()
		hs := &hostileSeed{Kind: used.get(), Path: "ca"}
		n := len(e.reg.leaves)
		e.reg.mu.Unlock()
		if cb.Class == "control" {
			hs = nil
		}
		judgeCall(m, e, o, hs, "related-key/ca/"+cb.Class)
		if n > 0 {
			m.Count("related_key_ca_chains_substituted", 1)
		}
		relCount(m, cb.Class != "control", o)
	}
}

func relCount(m *mon.M, mismatch bool, o callObs) {
	switch {
	case mismatch && o.cert == nil:
		m.Count("related_key_mismatch_refused", 1)
	case mismatch:
		m.Count("related_key_mismatch_replaced_or_kept_old", 1)
	case o.cert != nil:
		m.Count("related_key_control_served", 1)
	}
}

// TestRelatedKeyConstructions checks the constructions themselves: each
// related key is a valid public key, differs from the original, and shares the
// advertised part.
func TestRelatedKeyConstructions(t *testing.T) {
	for _, cv := range []elliptic.Curve{elliptic.P256(), elliptic.P384()} {
		for _, class := range []string{"negated", "same-y", "d-plus-1", "other-curve-same-x"} {
			if cv.Params().Name == "P-384" && class == "other-curve-same-x" {
				continue
			}
			k, p := ecKeyFor(cv, class)
			if p.Equal(k.Public()) || !p.Curve.IsOnCurve(p.X, p.Y) {
				t.Errorf("%s/%s: not a different valid point", cv.Params().Name, class)
			}
			switch class {
			case "negated", "other-curve-same-x":
				if p.X.Cmp(k.X) != 0 {
					t.Errorf("%s/%s: X differs", cv.Params().Name, class)
				}
			case "same-y":
				if p.Y.Cmp(k.Y) != 0 || p.X.Cmp(k.X) == 0 {
					t.Errorf("%s/%s: want same Y, other X", cv.Params().Name, class)
				}
			case "d-plus-1":
				d1 := new(big.Int).Add(k.D, big.NewInt(1))
				x, y := cv.ScalarBaseMult(d1.Bytes())
				if x.Cmp(p.X) != 0 || y.Cmp(p.Y) != 0 {
					t.Errorf("%s/%s: not (d+1)G", cv.Params().Name, class)
				}
			}
			// the certificate factory and the parser accept it
			der := mkLeaf(p, time.Now().Add(-time.Hour), time.Now().Add(time.Hour), "x.example.org")
			c, err := x509.ParseCertificate(der)
			if err != nil || !p.Equal(c.PublicKey) {
				t.Errorf("%s/%s: leaf round trip: %v", cv.Params().Name, class, err)
			}
		}
	}
	c51Init()
	for _, class := range []string{"same-n-other-e", "n-one-bit", "n-times-3"} {
		p := rsaRelated(&c51RSA[0].PublicKey, class)
		if p.Equal(c51RSA[0].Public()) {
			t.Errorf("rsa %s: equal", class)
		}
		der := mkLeaf(p, time.Now().Add(-time.Hour), time.Now().Add(time.Hour), "x.example.org")
		c, err := x509.ParseCertificate(der)
		if err != nil || !p.Equal(c.PublicKey) {
			t.Errorf("rsa %s: leaf round trip: %v", class, err)
		}
	}
}

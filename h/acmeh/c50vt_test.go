package acmeh

import (
	"context"
	"fmt"
	"math/rand/v2"
	"net/http"
	"testing/synctest"
	"time"

	"golang.org/x/crypto/acme"
	"verif/mon"
)

// vtCase runs inside a testing/synctest bubble: the clock is virtual, the
// transport is in-memory, so every sleep of the client is observable as a
// difference of virtual instants and costs no wall time.
func vtCase(m *mon.M, i int64, r *rand.Rand) {
	start := time.Now()
	s := newFakeCA("http://ca.test")
	s.now = func() int64 { return int64(time.Since(start)) }
	hc := &http.Client{Transport: &tagTransport{base: &memTransport{h: s}}}
	bo := &backoffCtl{s: s, pol: map[string]boPolicy{}}
	c := &acme.Client{Key: ecKey(r), DirectoryURL: s.base + "/dir", HTTPClient: hc, KID: acme.KeyID(s.base + "/acct/1")}
	j := &judge{m: m, s: s}
	id := fmt.Sprintf("v%d", i)

	switch i % 4 {
	case 0, 3:
		// default policy (RetryBackoff == nil): measure the delay before each retry
		sp := specByKind(mon.Pick(r, []string{"AuthorizeOrder", "GetAuthorization", "Accept", "FetchCert", "RevokeCert", "GetReg"}))
		p := &opPlan{ID: id, Kind: sp.kind, Phase: "V"}
		nf := 1 + r.IntN(5)
		for k := 0; k < nf; k++ {
			a := action{Kind: "err"}
			switch x := r.IntN(10); {
			case x < 3 || (i%4 == 0 && k == 0):
				a.Status, a.Problem = mon.Pick(r, []int{500, 503}), "urn:ietf:params:acme:error:serverInternal"
			case x < 6 || (i%4 == 3 && k == 0):
				a.Status, a.Problem = 429, "urn:ietf:params:acme:error:rateLimited"
				if r.IntN(3) == 0 {
					a.RADateIn = 2 + r.IntN(5)
				} else {
					a.RetryAfter = fmt.Sprint(2 + r.IntN(5))
				}
			case x < 8:
				a.Status, a.Problem = 503, ""
				a.RetryAfter = fmt.Sprint(2 + r.IntN(5))
			default:
				a.Status, a.Problem = 400, badNonceURN
			}
			a.NoNonce = r.IntN(4) == 0
			p.Post = append(p.Post, a)
		}
		oc := &opCase{plan: p, spec: sp, sig: fmt.Sprintf("vt-default|%s|f%d", sp.kind, min(nf, 3))}
		o := runOp(s, c, bo, oc, true)
		j.judgeOp(o)
		ev := s.opEvents(p)
		n := 0
		var last *event
		for k := range ev {
			e := ev[k]
			if e.Class != "main" || e.Method != "POST" {
				continue
			}
			switch {
			case e.T == "reply" && e.Final == "err":
				n++
				last = &ev[k]
			case e.T == "reply":
				n, last = 0, nil
			case e.T == "req" && last != nil:
				gap := time.Duration(e.VT - last.VT)
				act := p0(oc, n-1)
				wit := map[string]any{"retry_n": n, "gap": gap.String(), "failed_reply": *last, "scripted": act, "op_log": tailEvents(ev, 40)}
				switch {
				case act.RetryAfter != "" || act.RADateIn > 0:
					want := time.Duration(act.RADateIn) * time.Second
					if act.RetryAfter != "" {
						var sec int
						fmt.Sscan(act.RetryAfter, &sec)
						want = time.Duration(sec) * time.Second
					} else {
						want -= time.Second // HTTP-date has one second resolution
					}
					m.Count("vt_retry_after_gaps", 1)
					if gap < want {
						m.Violation("default-backoff-ignores-retry-after", wit)
					} else if gap > want+2*time.Second {
						m.Count("vt_gap_above_retry_after_plus_jitter", 1)
					}
				case isBadNonceProblem(act.Problem):
					m.Count("vt_badnonce_gaps", 1)
				default:
					// documented: 2^n seconds + jitter (implementation: 2^(n-1)), ceiling 10 s
					lo := min(time.Duration(1<<uint(min(n-1, 10)))*time.Second, 10*time.Second)
					m.Count("vt_default_backoff_gaps", 1)
					if gap < lo {
						m.Violation("default-backoff-shorter-than-documented", wit)
					} else if gap > 10*time.Second+time.Second {
						m.Count("vt_gap_above_ceiling", 1)
					}
				}
				last = nil
			}
		}
		if o.res.Err == nil {
			m.Count("vt_default_policy_retried_to_success", 1)
		}

	case 1:
		// cancellation while the client sleeps between retries
		sp := specByKind(mon.Pick(r, []string{"AuthorizeOrder", "GetAuthorization", "Accept", "FetchCert", "WaitOrder", "CreateOrderCert"}))
		p := &opPlan{ID: id, Kind: sp.kind, Phase: "V", Polls: []string{"valid"}, FinalizeStat: "valid"}
		nf := 1 + r.IntN(4)
		cancelAfter := 1 + r.IntN(nf)
		for k := 0; k < nf+2; k++ {
			p.Post = append(p.Post, action{Kind: "err", Status: mon.Pick(r, []int{500, 503, 429}), Problem: "urn:ietf:params:acme:error:serverInternal",
				NoNonce: r.IntN(3) == 0, RetryAfter: mon.Pick(r, []string{"", "", "30", "3600"})})
		}
		custom := r.IntN(2) == 0
		if custom {
			c.RetryBackoff = bo.fn
			bo.set(id, boPolicy{K: 100, Pos: mon.Pick(r, []time.Duration{time.Hour, time.Minute, 24 * time.Hour}), Stop: -1})
		}
		at := make(chan struct{}, 1)
		nrep := 0
		p.onReply = func(e event) {
			if e.Class == "main" && e.Method == "POST" && e.Final == "err" {
				if nrep++; nrep == cancelAfter {
					at <- struct{}{}
				}
			}
		}
		s.addOp(p)
		s.curOp = id
		ctx, cancel := context.WithCancel(withOp(context.Background(), id))
		done := make(chan opResult, 1)
		go func() { done <- sp.run(ctx, c, s, p) }()
		select {
		case <-at:
		case res := <-done:
			m.Inconclusive(fmt.Sprintf("vt case %d: operation ended before the scripted cancel point: %v", i, res.Err))
			cancel()
			return
		}
		synctest.Wait() // the client is now asleep in its backoff
		t0 := time.Now()
		s.logCancel(p)
		cancel()
		synctest.Wait()
		o := opOutcome{oc: &opCase{plan: p, spec: sp, sig: fmt.Sprintf("vt-cancel-backoff|%s|custom=%v", sp.kind, custom)}, cancelled: true}
		select {
		case o.res = <-done:
			m.Count("vt_cancel_during_backoff", 1)
		default:
			o.res = <-done
			m.Count("vt_cancel_during_backoff", 1)
			m.Violation("backoff-sleep-ignores-cancel", map[string]any{"op_kind": sp.kind, "custom_backoff": custom, "virtual_delay_after_cancel": time.Since(t0).String(),
				"returned": fmt.Sprint(o.res.Err), "op_log": tailEvents(s.opEvents(p), 40)})
		}
		s.logReturn(p, fmt.Sprint(o.res.Err))
		j.judgeOp(o)

	case 2:
		// cancellation while WaitOrder / WaitAuthorization sleeps between polls
		sp := specByKind(mon.Pick(r, []string{"WaitOrder", "WaitAuthorization", "CreateOrderCert"}))
		p := &opPlan{ID: id, Kind: sp.kind, Phase: "V", FinalizeStat: "processing"}
		for range 12 {
			p.Polls = append(p.Polls, mon.Pick(r, []string{"pending", "processing"}))
		}
		s.pollRetryAfter = mon.Pick(r, []string{"", "0", "3", "120", "junk"})
		c.RetryBackoff = bo.fn
		bo.set(id, boPolicy{K: 3, Pos: time.Second, Stop: -1})
		cancelAfter := 1 + r.IntN(4)
		at := make(chan struct{}, 1)
		nrep := 0
		var pollVT []int64
		p.onReply = func(e event) {
			if e.Class == "main" && e.Method == "POST" && e.Final == "cont" && e.Path != "" && (len(e.Path) > 7 && (e.Path[:7] == "/order/" || e.Path[:7] == "/authz/")) {
				pollVT = append(pollVT, e.VT)
				if nrep++; nrep == cancelAfter {
					at <- struct{}{}
				}
			}
		}
		s.addOp(p)
		s.curOp = id
		ctx, cancel := context.WithCancel(withOp(context.Background(), id))
		done := make(chan opResult, 1)
		go func() { done <- sp.run(ctx, c, s, p) }()
		select {
		case <-at:
		case res := <-done:
			m.Inconclusive(fmt.Sprintf("vt case %d: operation ended before the scripted cancel point: %v", i, res.Err))
			cancel()
			return
		}
		synctest.Wait()
		t0 := time.Now()
		s.logCancel(p)
		cancel()
		synctest.Wait()
		o := opOutcome{oc: &opCase{plan: p, spec: sp, sig: fmt.Sprintf("vt-cancel-poll|%s|ra=%s", sp.kind, s.pollRetryAfter)}, cancelled: true}
		select {
		case o.res = <-done:
			m.Count("vt_cancel_during_poll_sleep", 1)
		default:
			o.res = <-done
			m.Count("vt_cancel_during_poll_sleep", 1)
			m.Violation("poll-sleep-ignores-cancel", map[string]any{"op_kind": sp.kind, "virtual_delay_after_cancel": time.Since(t0).String(),
				"returned": fmt.Sprint(o.res.Err), "op_log": tailEvents(s.opEvents(p), 40)})
		}
		s.logReturn(p, fmt.Sprint(o.res.Err))
		j.judgeOp(o)
		for k := 1; k < len(pollVT); k++ {
			m.Count("vt_poll_gaps_seen", 1)
			gap := time.Duration(pollVT[k] - pollVT[k-1])
			switch s.pollRetryAfter {
			case "3", "120":
				var sec int
				fmt.Sscan(s.pollRetryAfter, &sec)
				if gap == time.Duration(sec)*time.Second {
					m.Count("vt_poll_gap_equals_retry_after", 1)
				} else {
					m.Count("vt_poll_gap_differs_from_retry_after", 1)
				}
			default:
				if gap == time.Second {
					m.Count("vt_poll_gap_default_1s", 1)
				}
			}
		}
	}
	j.judgeSession(0)
}

// p0 returns the k-th scripted POST action of the operation as generated
// (scripts are consumed by the server; the harness keeps its own copy).
func p0(oc *opCase, k int) action {
	if oc.script == nil || k < 0 || k >= len(oc.script) {
		return action{}
	}
	return oc.script[k]
}

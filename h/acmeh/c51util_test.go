package acmeh

import (
	"bytes"
	"context"
	"crypto"
	"crypto/ecdsa"
	"crypto/elliptic"
	crand "crypto/rand"
	"crypto/rsa"
	"crypto/tls"
	"crypto/x509"
	"crypto/x509/pkix"
	"encoding/base64"
	"encoding/json"
	"encoding/pem"
	"fmt"
	"io"
	"math/big"
	"net/http"
	"net/http/httptest"
	"runtime"
	"strconv"
	"strings"
	"sync"
	"testing"
	"time"

	"golang.org/x/crypto/acme"
	"golang.org/x/crypto/acme/autocert"
)

// ---- goroutine identity (to tell a call's own cache/policy activity from background renewals) --

func goid() int64 {
	var b [64]byte
	n := runtime.Stack(b[:], false)
	f := strings.Fields(string(b[:n]))
	if len(f) < 2 {
		return -1
	}
	id, _ := strconv.ParseInt(f[1], 10, 64)
	return id
}

// ---- scenario event log -------------------------------------------------------------

type cev struct {
	Seq  int    `json:"seq"`
	T    string `json:"t"` // call | ret | policy | cache-get | cache-put | cache-del | ca-order
	Name string `json:"name,omitempty"`
	OK   bool   `json:"ok,omitempty"`
	G    int64  `json:"g,omitempty"`
	Note string `json:"note,omitempty"`
}

type scenLog struct {
	mu  sync.Mutex
	ev  []cev
	bad []string // cache keys violating the documented key contract
}

func (l *scenLog) add(e cev) int {
	l.mu.Lock()
	defer l.mu.Unlock()
	e.Seq = len(l.ev) + 1
	l.ev = append(l.ev, e)
	return e.Seq
}

func (l *scenLog) snapshot() []cev {
	l.mu.Lock()
	defer l.mu.Unlock()
	return append([]cev(nil), l.ev...)
}

// ---- logging Cache ---------------------------------------------------------------------

type logCache struct {
	log   *scenLog
	inner autocert.Cache
}

type memCache struct {
	mu sync.Mutex
	m  map[string][]byte
}

func newMemCache() *memCache { return &memCache{m: map[string][]byte{}} }
func (c *memCache) Get(ctx context.Context, k string) ([]byte, error) {
	c.mu.Lock()
	defer c.mu.Unlock()
	v, ok := c.m[k]
	if !ok {
		return nil, autocert.ErrCacheMiss
	}
	return append([]byte(nil), v...), nil
}
func (c *memCache) Put(ctx context.Context, k string, d []byte) error {
	c.mu.Lock()
	defer c.mu.Unlock()
	c.m[k] = append([]byte(nil), d...)
	return nil
}
func (c *memCache) Delete(ctx context.Context, k string) error {
	c.mu.Lock()
	defer c.mu.Unlock()
	delete(c.m, k)
	return nil
}

// keyProblem classifies a cache key against the documented Cache key contract
// ("any printable ASCII characters, except \/:*?"<>|") and path-likeness.
func keyProblem(k string) string {
	if k == "" || k == "." || k == ".." || strings.ContainsAny(k, "/\\\x00") || strings.HasPrefix(k, "../") {
		return "path-like"
	}
	for i := 0; i < len(k); i++ {
		c := k[i]
		if c < 0x20 || c > 0x7e || strings.IndexByte(`:*?"<>|`, c) >= 0 {
			return "outside-documented-charset"
		}
	}
	return ""
}

func (c *logCache) note(t, k string) {
	c.log.add(cev{T: t, Name: k, G: goid()})
	if p := keyProblem(k); p != "" {
		c.log.mu.Lock()
		c.log.bad = append(c.log.bad, p+"\x00"+k)
		c.log.mu.Unlock()
	}
}
func (c *logCache) Get(ctx context.Context, k string) ([]byte, error) {
	c.note("cache-get", k)
	return c.inner.Get(ctx, k)
}
func (c *logCache) Put(ctx context.Context, k string, d []byte) error {
	c.note("cache-put", k)
	return c.inner.Put(ctx, k, d)
}
func (c *logCache) Delete(ctx context.Context, k string) error {
	c.note("cache-del", k)
	return c.inner.Delete(ctx, k)
}

// ---- logging HostPolicy ------------------------------------------------------------------

func logPolicy(l *scenLog, inner autocert.HostPolicy) autocert.HostPolicy {
	return func(ctx context.Context, host string) error {
		err := inner(ctx, host)
		l.add(cev{T: "policy", Name: host, OK: err == nil, G: goid()})
		return err
	}
}

func setPolicy(names ...string) autocert.HostPolicy {
	set := map[string]bool{}
	for _, n := range names {
		set[n] = true
	}
	return func(_ context.Context, host string) error {
		if set[host] {
			return nil
		}
		return fmt.Errorf("verif policy: %q not allowed", host)
	}
}

// ---- key pool and certificate factory (independent of the repo's test CA) ---------------------

var (
	c51Once   sync.Once
	c51EC     []*ecdsa.PrivateKey
	c51RSA    []*rsa.PrivateKey
	c51Root   *x509.Certificate
	c51RootK  *ecdsa.PrivateKey
	c51RootDE []byte
	serialCtr int64
	serialMu  sync.Mutex
)

func c51Init() {
	c51Once.Do(func() {
		for range 6 {
			k, err := ecdsa.GenerateKey(elliptic.P256(), crand.Reader)
			if err != nil {
				panic(err)
			}
			c51EC = append(c51EC, k)
		}
		for range 2 {
			k, err := rsa.GenerateKey(crand.Reader, 2048)
			if err != nil {
				panic(err)
			}
			c51RSA = append(c51RSA, k)
		}
		c51RootK, _ = ecdsa.GenerateKey(elliptic.P256(), crand.Reader)
		tmpl := &x509.Certificate{SerialNumber: big.NewInt(1), Subject: pkix.Name{Organization: []string{"Verif Harness CA"}, CommonName: "verif root"},
			NotBefore: time.Date(2000, 1, 1, 0, 0, 0, 0, time.UTC), NotAfter: time.Date(2200, 1, 1, 0, 0, 0, 0, time.UTC),
			KeyUsage: x509.KeyUsageCertSign, BasicConstraintsValid: true, IsCA: true}
		der, err := x509.CreateCertificate(crand.Reader, tmpl, tmpl, &c51RootK.PublicKey, c51RootK)
		if err != nil {
			panic(err)
		}
		c51RootDE = der
		c51Root, _ = x509.ParseCertificate(der)
	})
}

func nextSerial() *big.Int {
	serialMu.Lock()
	defer serialMu.Unlock()
	serialCtr++
	return big.NewInt(1000 + serialCtr)
}

// mkLeaf issues a leaf for names with the given public key.
func mkLeaf(pub crypto.PublicKey, nb, na time.Time, names ...string) []byte {
	c51Init()
	tmpl := &x509.Certificate{SerialNumber: nextSerial(), Subject: pkix.Name{Organization: []string{"Verif Harness"}},
		NotBefore: nb, NotAfter: na, KeyUsage: x509.KeyUsageDigitalSignature | x509.KeyUsageKeyEncipherment,
		ExtKeyUsage: []x509.ExtKeyUsage{x509.ExtKeyUsageServerAuth}, DNSNames: names, BasicConstraintsValid: true}
	der, err := x509.CreateCertificate(crand.Reader, tmpl, c51Root, pub, c51RootK)
	if err != nil {
		panic(err)
	}
	return der
}

func pemKey(k crypto.Signer, form string) []byte {
	var b bytes.Buffer
	switch k := k.(type) {
	case *ecdsa.PrivateKey:
		if form == "pkcs8" {
			d, _ := x509.MarshalPKCS8PrivateKey(k)
			pem.Encode(&b, &pem.Block{Type: "PRIVATE KEY", Bytes: d})
		} else {
			d, _ := x509.MarshalECPrivateKey(k)
			pem.Encode(&b, &pem.Block{Type: "EC PRIVATE KEY", Bytes: d})
		}
	case *rsa.PrivateKey:
		if form == "pkcs8" {
			d, _ := x509.MarshalPKCS8PrivateKey(k)
			pem.Encode(&b, &pem.Block{Type: "PRIVATE KEY", Bytes: d})
		} else {
			pem.Encode(&b, &pem.Block{Type: "RSA PRIVATE KEY", Bytes: x509.MarshalPKCS1PrivateKey(k)})
		}
	}
	return b.Bytes()
}

func pemCerts(ders ...[]byte) []byte {
	var b bytes.Buffer
	for _, d := range ders {
		pem.Encode(&b, &pem.Block{Type: "CERTIFICATE", Bytes: d})
	}
	return b.Bytes()
}

// ---- counting reverse proxy in front of the repo's fake CA ---------------------------------------

type caProxy struct {
	ca    *autocert.VerifCAServer
	caURL string
	srv   *httptest.Server
	hc    *http.Client

	mu       sync.Mutex
	orders   map[string]int // new-order POSTs per identifier (lower-cased)
	orderOf  map[string]string // CA order id → identifier
	finals   map[string]int    // finalize (certificate issuance) POSTs per identifier
	accounts int
	managers map[string]*proxyReg // scenario tag → registration
	downHits map[string]int       // requests to the "CA down" endpoint per scenario tag
	fetches  map[string]int       // issued-certificate downloads per identifier
	tampered map[string][]byte    // CA order id → PEM chain the proxy substitutes for the CA's
}

type proxyReg struct {
	getCert func(*tls.ClientHelloInfo) (*tls.Certificate, error)
	log     *scenLog
	// tamper, if set, makes the proxy answer the certificate download with a chain whose leaf
	// carries tamper(CSR public key) instead of the CSR's key (valid at now, for the CSR's names)
	tamper func(pub crypto.PublicKey) crypto.PublicKey
	now    time.Time
	mu     sync.Mutex
	leaves [][]byte // leaves substituted so far
}

var (
	proxyOnce sync.Once
	theProxy  *caProxy
)

func sharedProxy(t *testing.T) *caProxy {
	proxyOnce.Do(func() {
		ca := autocert.VerifNewCAServer(t).ChallengeTypes("tls-alpn-01").Start()
		p := &caProxy{ca: ca, caURL: ca.URL(), orders: map[string]int{}, orderOf: map[string]string{}, finals: map[string]int{}, managers: map[string]*proxyReg{},
			downHits: map[string]int{}, fetches: map[string]int{}, tampered: map[string][]byte{},
			hc: &http.Client{Transport: &http.Transport{MaxIdleConnsPerHost: 32}}}
		p.srv = httptest.NewServer(p)
		theProxy = p
	})
	return theProxy
}

func (p *caProxy) URL() string     { return p.srv.URL + "/" }
func (p *caProxy) DownURL(tag string) string { return p.srv.URL + "/down/" + tag + "/" }

func (p *caProxy) downHitsFor(tag string) int {
	p.mu.Lock()
	defer p.mu.Unlock()
	return p.downHits[tag]
}

// fetchesWithTag sums issued-certificate downloads whose identifier contains tag.
func (p *caProxy) fetchesWithTag(tag string) (n int) {
	p.mu.Lock()
	defer p.mu.Unlock()
	for id, c := range p.fetches {
		if strings.Contains(id, tag) {
			n += c
		}
	}
	return
}

func (p *caProxy) setTamper(reg *proxyReg, f func(crypto.PublicKey) crypto.PublicKey) {
	p.mu.Lock()
	reg.tamper = f
	p.mu.Unlock()
}

func (p *caProxy) regFor(ident string) *proxyReg {
	var reg *proxyReg
	for tag, rg := range p.managers {
		if strings.Contains(ident, tag) {
			reg = rg
		}
	}
	return reg
}

func (p *caProxy) register(tag string, reg *proxyReg) {
	p.mu.Lock()
	p.managers[tag] = reg
	p.mu.Unlock()
}
func (p *caProxy) unregister(tag string) {
	p.mu.Lock()
	delete(p.managers, tag)
	p.mu.Unlock()
}
func (p *caProxy) orderCount(ident string) int {
	p.mu.Lock()
	defer p.mu.Unlock()
	return p.orders[strings.ToLower(ident)]
}

// finalsWithTag sums finalize POSTs (certificates requested from the CA) whose identifier contains tag.
func (p *caProxy) finalsWithTag(tag string) (n int) {
	p.mu.Lock()
	defer p.mu.Unlock()
	for id, c := range p.finals {
		if strings.Contains(id, tag) {
			n += c
		}
	}
	return
}

// ordersWithTag sums new-order POSTs whose identifier contains tag.
func (p *caProxy) ordersWithTag(tag string) (n int, idents []string) {
	p.mu.Lock()
	defer p.mu.Unlock()
	for id, c := range p.orders {
		if strings.Contains(id, tag) {
			n += c
			idents = append(idents, fmt.Sprintf("%s x%d", id, c))
		}
	}
	return
}

func (p *caProxy) ServeHTTP(w http.ResponseWriter, r *http.Request) {
	body, _ := io.ReadAll(r.Body)
	path := r.URL.Path
	if strings.HasPrefix(path, "/down/") {
		if f := strings.SplitN(strings.TrimPrefix(path, "/down/"), "/", 2); len(f) > 0 {
			p.mu.Lock()
			p.downHits[f[0]]++
			p.mu.Unlock()
		}
		w.Header().Set("Content-Type", "application/problem+json")
		w.WriteHeader(403)
		w.Write([]byte(`{"type":"urn:ietf:params:acme:error:unauthorized","detail":"verif: CA is down for this scenario","status":403}`))
		return
	}
	if path == "/new-account" {
		p.mu.Lock()
		p.accounts++
		n := p.accounts
		p.mu.Unlock()
		w.Header().Set("Replay-Nonce", fmt.Sprintf("px-%d", n))
		w.Header().Set("Location", fmt.Sprintf("%s/accounts/%d", p.srv.URL, n))
		w.WriteHeader(201)
		w.Write([]byte(`{"status":"valid"}`))
		return
	}
	if path == "/new-order" {
		var outer struct{ Payload string }
		var pay struct{ Identifiers []struct{ Value string } }
		if json.Unmarshal(body, &outer) == nil {
			if b, err := base64.RawURLEncoding.DecodeString(outer.Payload); err == nil {
				json.Unmarshal(b, &pay)
			}
		}
		for _, id := range pay.Identifiers {
			low := strings.ToLower(id.Value)
			p.mu.Lock()
			p.orders[low]++
			var reg *proxyReg
			for tag, rg := range p.managers {
				if strings.Contains(low, tag) {
					reg = rg
				}
			}
			p.mu.Unlock()
			if reg != nil {
				reg.log.add(cev{T: "ca-order", Name: id.Value, G: goid()})
				// let the CA reach the manager for tls-alpn-01 validation of exactly this identifier
				p.ca.ResolveGetCertificate(id.Value, reg.getCert)
			}
		}
	}
	var orderIdents []string
	if path == "/new-order" {
		var outer struct{ Payload string }
		var pay struct{ Identifiers []struct{ Value string } }
		if json.Unmarshal(body, &outer) == nil {
			if b, err := base64.RawURLEncoding.DecodeString(outer.Payload); err == nil {
				json.Unmarshal(b, &pay)
			}
		}
		for _, id := range pay.Identifiers {
			orderIdents = append(orderIdents, strings.ToLower(id.Value))
		}
	}
	if strings.HasPrefix(path, "/new-cert/") {
		oid := strings.TrimPrefix(path, "/new-cert/")
		p.mu.Lock()
		id, ok := p.orderOf[oid]
		var reg *proxyReg
		var tamper func(crypto.PublicKey) crypto.PublicKey
		if ok {
			p.finals[id]++
			if reg = p.regFor(id); reg != nil {
				tamper = reg.tamper
			}
		}
		p.mu.Unlock()
		if tamper != nil {
			var outer struct{ Payload string }
			var pay struct{ CSR string }
			if json.Unmarshal(body, &outer) == nil {
				if b, err := base64.RawURLEncoding.DecodeString(outer.Payload); err == nil {
					json.Unmarshal(b, &pay)
				}
			}
			if der, err := base64.RawURLEncoding.DecodeString(pay.CSR); err == nil {
				if csr, err := x509.ParseCertificateRequest(der); err == nil {
					names := csr.DNSNames
					if len(names) == 0 {
						names = []string{csr.Subject.CommonName}
					}
					leaf := mkLeaf(tamper(csr.PublicKey), reg.now.Add(-time.Hour), reg.now.Add(60*24*time.Hour), names...)
					reg.mu.Lock()
					reg.leaves = append(reg.leaves, leaf)
					reg.mu.Unlock()
					p.mu.Lock()
					p.tampered[oid] = pemCerts(leaf, c51RootDE)
					p.mu.Unlock()
				}
			}
		}
	}
	var substitute []byte
	if strings.HasPrefix(path, "/issued-cert/") {
		oid := strings.TrimPrefix(path, "/issued-cert/")
		p.mu.Lock()
		if id, ok := p.orderOf[oid]; ok {
			p.fetches[id]++
		}
		substitute = p.tampered[oid]
		p.mu.Unlock()
	}
	req, err := http.NewRequestWithContext(r.Context(), r.Method, p.caURL+path, bytes.NewReader(body))
	if err != nil {
		http.Error(w, err.Error(), 500)
		return
	}
	if ct := r.Header.Get("Content-Type"); ct != "" {
		req.Header.Set("Content-Type", ct)
	}
	res, err := p.hc.Do(req)
	if err != nil {
		http.Error(w, err.Error(), 502)
		return
	}
	defer res.Body.Close()
	if loc := res.Header.Get("Location"); len(orderIdents) > 0 && strings.Contains(loc, "/orders/") {
		p.mu.Lock()
		p.orderOf[loc[strings.LastIndex(loc, "/")+1:]] = orderIdents[0]
		p.mu.Unlock()
	}
	out, _ := io.ReadAll(res.Body)
	out = bytes.ReplaceAll(out, []byte(p.caURL), []byte(p.srv.URL))
	if substitute != nil && res.StatusCode == 200 {
		out = substitute
	}
	for k, vs := range res.Header {
		if k == "Content-Length" {
			continue
		}
		for _, v := range vs {
			w.Header().Add(k, strings.ReplaceAll(v, p.caURL, p.srv.URL))
		}
	}
	w.WriteHeader(res.StatusCode)
	w.Write(out)
}

// ---- client hellos with known capabilities ----------------------------------------------------------

var (
	suitesRSA   = []uint16{tls.TLS_ECDHE_RSA_WITH_CHACHA20_POLY1305, tls.TLS_ECDHE_RSA_WITH_AES_128_GCM_SHA256, tls.TLS_RSA_WITH_AES_128_GCM_SHA256}
	suitesECDSA = []uint16{tls.TLS_ECDHE_ECDSA_WITH_CHACHA20_POLY1305, tls.TLS_ECDHE_ECDSA_WITH_AES_128_GCM_SHA256, tls.TLS_ECDHE_ECDSA_WITH_AES_256_GCM_SHA384}
)

var helloKinds = []string{"both", "both-explicit", "ecdsa-only", "rsa-only-suites", "rsa-only-sigalgs", "rsa-only-curves", "rsa-only-all"}

func helloFor(name, kind string) *tls.ClientHelloInfo {
	h := &tls.ClientHelloInfo{ServerName: name, SupportedVersions: []uint16{tls.VersionTLS12}}
	both := append(append([]uint16{}, suitesRSA[:2]...), suitesECDSA[:2]...)
	switch kind {
	case "both":
		h.CipherSuites = both
	case "both-explicit":
		h.CipherSuites = both
		h.SignatureSchemes = []tls.SignatureScheme{tls.PSSWithSHA256, tls.ECDSAWithP256AndSHA256, tls.PKCS1WithSHA256}
		h.SupportedCurves = []tls.CurveID{tls.X25519, tls.CurveP256}
	case "ecdsa-only":
		h.CipherSuites = append([]uint16{}, suitesECDSA...)
		h.SignatureSchemes = []tls.SignatureScheme{tls.ECDSAWithP256AndSHA256, tls.ECDSAWithP384AndSHA384}
		h.SupportedCurves = []tls.CurveID{tls.CurveP256, tls.CurveP384}
	case "rsa-only-suites":
		h.CipherSuites = append([]uint16{}, suitesRSA...)
	case "rsa-only-sigalgs":
		h.CipherSuites = both
		h.SignatureSchemes = []tls.SignatureScheme{tls.PSSWithSHA256, tls.PKCS1WithSHA256, tls.PKCS1WithSHA1}
	case "rsa-only-curves":
		h.CipherSuites = both
		h.SignatureSchemes = []tls.SignatureScheme{tls.PSSWithSHA256, tls.ECDSAWithP384AndSHA384, tls.ECDSAWithP256AndSHA256}
		h.SupportedCurves = []tls.CurveID{tls.X25519, tls.CurveP384}
	case "rsa-only-all":
		h.CipherSuites = append([]uint16{}, suitesRSA...)
		h.SignatureSchemes = []tls.SignatureScheme{tls.PSSWithSHA256, tls.PKCS1WithSHA256}
		h.SupportedCurves = []tls.CurveID{tls.X25519}
	}
	return h
}

func isECDSASuite(s uint16) bool {
	for _, x := range []uint16{tls.TLS_ECDHE_ECDSA_WITH_RC4_128_SHA, tls.TLS_ECDHE_ECDSA_WITH_AES_128_CBC_SHA, tls.TLS_ECDHE_ECDSA_WITH_AES_256_CBC_SHA,
		tls.TLS_ECDHE_ECDSA_WITH_AES_128_CBC_SHA256, tls.TLS_ECDHE_ECDSA_WITH_AES_128_GCM_SHA256, tls.TLS_ECDHE_ECDSA_WITH_AES_256_GCM_SHA384, tls.TLS_ECDHE_ECDSA_WITH_CHACHA20_POLY1305} {
		if s == x {
			return true
		}
	}
	return false
}

// canUse reports, from TLS 1.2 semantics alone (RFC 5246 7.4.1.4.1, RFC 8422
// 5.1/5.3), whether a client that sent hello can authenticate a server
// presenting leaf. "" means yes.
func canUse(h *tls.ClientHelloInfo, leaf *x509.Certificate) string {
	switch pub := leaf.PublicKey.(type) {
	case *ecdsa.PublicKey:
		ok := false
		for _, s := range h.CipherSuites {
			ok = ok || isECDSASuite(s)
		}
		if !ok {
			return "client offers no ECDSA cipher suite"
		}
		if h.SignatureSchemes != nil {
			ok = false
			for _, s := range h.SignatureSchemes {
				switch s {
				case tls.ECDSAWithSHA1, tls.ECDSAWithP256AndSHA256, tls.ECDSAWithP384AndSHA384, tls.ECDSAWithP521AndSHA512:
					ok = true
				}
			}
			if !ok {
				return "client's signature_algorithms has no ECDSA scheme"
			}
		}
		if h.SupportedCurves != nil {
			var want tls.CurveID
			switch pub.Curve.Params().Name {
			case "P-256":
				want = tls.CurveP256
			case "P-384":
				want = tls.CurveP384
			case "P-521":
				want = tls.CurveP521
			}
			ok = false
			for _, c := range h.SupportedCurves {
				ok = ok || c == want
			}
			if !ok {
				return "client's supported_groups lacks the certificate's curve"
			}
		}
	case *rsa.PublicKey:
		ok := false
		for _, s := range h.CipherSuites {
			ok = ok || !isECDSASuite(s)
		}
		if !ok {
			return "client offers only ECDSA cipher suites"
		}
	default:
		return "unknown leaf key type"
	}
	return ""
}

// ---- manager construction ------------------------------------------------------------------------------

type mgrEnv struct {
	man   *autocert.Manager
	log   *scenLog
	cache *logCache
	now   time.Time
	tag   string
	reg   *proxyReg
}

func newManager(t *testing.T, px *caProxy, tag string, log *scenLog, cache autocert.Cache, policy autocert.HostPolicy, caUp bool, now time.Time) *mgrEnv {
	lc := &logCache{log: log, inner: cache}
	url := px.URL()
	if !caUp {
		url = px.DownURL(tag)
	}
	man := &autocert.Manager{
		Prompt:     autocert.AcceptTOS,
		Cache:      lc,
		HostPolicy: logPolicy(log, policy),
		Client: &acme.Client{DirectoryURL: url, Key: c51EC[0],
			RetryBackoff: func(n int, r *http.Request, res *http.Response) time.Duration {
				if n > 2 {
					return -1
				}
				return time.Millisecond
			}},
	}
	autocert.VerifSetNow(man, func() time.Time { return now })
	reg := &proxyReg{getCert: man.GetCertificate, log: log, now: now}
	px.register(tag, reg)
	return &mgrEnv{man: man, log: log, cache: lc, now: now, tag: tag, reg: reg}
}

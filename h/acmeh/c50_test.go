package acmeh

import (
	"context"
	"crypto"
	"crypto/ecdsa"
	"crypto/elliptic"
	crand "crypto/rand"
	"crypto/rsa"
	"errors"
	"fmt"
	"math/rand/v2"
	"net/http"
	"net/http/httptest"
	"path"
	"sort"
	"strconv"
	"strings"
	"sync"
	"testing"
	"testing/synctest"
	"time"

	"golang.org/x/crypto/acme"
	"verif/mon"
)

// ---- key pool (account keys; generation is not what is monitored) -------------

var (
	keyOnce sync.Once
	ecKeys  []*ecdsa.PrivateKey
	rsaOnce sync.Once
	rsaKey  *rsa.PrivateKey
)

func ecKey(r *rand.Rand) *ecdsa.PrivateKey {
	keyOnce.Do(func() {
		for _, c := range []elliptic.Curve{elliptic.P256(), elliptic.P256(), elliptic.P256(), elliptic.P256(), elliptic.P384()} {
			k, err := ecdsa.GenerateKey(c, crand.Reader)
			if err != nil {
				panic(err)
			}
			ecKeys = append(ecKeys, k)
		}
	})
	return ecKeys[r.IntN(len(ecKeys))]
}

func theRSAKey() *rsa.PrivateKey {
	rsaOnce.Do(func() {
		k, err := rsa.GenerateKey(crand.Reader, 2048)
		if err != nil {
			panic(err)
		}
		rsaKey = k
	})
	return rsaKey
}

// ---- recorded RetryBackoff ------------------------------------------------------

type boPolicy struct {
	K    int           // retries 1..K get Pos, retry K+1 gets Stop
	Pos  time.Duration // > 0
	Stop time.Duration // <= 0
}

type backoffCtl struct {
	s   *fakeCA
	mu  sync.Mutex
	pol map[string]boPolicy
}

func (b *backoffCtl) set(op string, p boPolicy) { b.mu.Lock(); b.pol[op] = p; b.mu.Unlock() }

func (b *backoffCtl) fn(n int, req *http.Request, resp *http.Response) time.Duration {
	id := opOf(req.Context())
	if id == "" {
		b.s.mu.Lock()
		id = b.s.curOp
		b.s.mu.Unlock()
	}
	b.mu.Lock()
	p, ok := b.pol[id]
	b.mu.Unlock()
	if !ok {
		p = boPolicy{K: 3, Pos: 1, Stop: -1}
	}
	d := p.Pos
	if n > p.K {
		d = p.Stop
	}
	rs, _ := strconv.ParseInt(resp.Header.Get(replyHeader), 10, 64)
	b.s.logBackoff(id, n, req.URL.Path, rs, resp.StatusCode, d)
	return d
}

// ---- client operations ------------------------------------------------------------

type opResult struct {
	Marker string // marker of the server reply the returned value was decoded from ("" → not checked)
	Err    error
}

type opSpec struct {
	kind     string
	conc     bool // may run concurrently with other operations on one Client
	polls    bool // consumes opPlan.Polls
	finalize bool
	noBody   bool // the method does not decode the success body
	run      func(ctx context.Context, c *acme.Client, s *fakeCA, p *opPlan) opResult
}

func tokMarker(tok string) string { return strings.TrimPrefix(tok, "tok-") }

var opSpecs = []opSpec{
	{kind: "Register", conc: true, run: func(ctx context.Context, c *acme.Client, s *fakeCA, p *opPlan) opResult {
		a, err := c.Register(ctx, &acme.Account{Contact: []string{"mailto:x@example.org"}}, acme.AcceptTOS)
		if err != nil {
			return opResult{Err: err}
		}
		return opResult{Marker: path.Base(a.OrdersURL)}
	}},
	{kind: "GetReg", conc: true, run: func(ctx context.Context, c *acme.Client, s *fakeCA, p *opPlan) opResult {
		a, err := c.GetReg(ctx, "")
		if err != nil {
			return opResult{Err: err}
		}
		return opResult{Marker: path.Base(a.OrdersURL)}
	}},
	{kind: "UpdateReg", conc: true, run: func(ctx context.Context, c *acme.Client, s *fakeCA, p *opPlan) opResult {
		a, err := c.UpdateReg(ctx, &acme.Account{Contact: []string{"mailto:y@example.org"}})
		if err != nil {
			return opResult{Err: err}
		}
		return opResult{Marker: path.Base(a.OrdersURL)}
	}},
	{kind: "AuthorizeOrder", conc: true, run: func(ctx context.Context, c *acme.Client, s *fakeCA, p *opPlan) opResult {
		o, err := c.AuthorizeOrder(ctx, acme.DomainIDs(p.ID+".example"))
		if err != nil {
			return opResult{Err: err}
		}
		return opResult{Marker: path.Base(o.FinalizeURL)}
	}},
	{kind: "Authorize", conc: true, run: func(ctx context.Context, c *acme.Client, s *fakeCA, p *opPlan) opResult {
		z, err := c.Authorize(ctx, p.ID+".example")
		if err != nil {
			return opResult{Err: err}
		}
		if len(z.Challenges) == 0 {
			return opResult{Marker: "no-challenges"}
		}
		return opResult{Marker: tokMarker(z.Challenges[0].Token)}
	}},
	{kind: "GetOrder", conc: true, polls: true, run: func(ctx context.Context, c *acme.Client, s *fakeCA, p *opPlan) opResult {
		o, err := c.GetOrder(ctx, s.base+"/order/"+p.ID)
		if err != nil {
			return opResult{Err: err}
		}
		return opResult{Marker: path.Base(o.FinalizeURL)}
	}},
	{kind: "WaitOrder", conc: true, polls: true, run: func(ctx context.Context, c *acme.Client, s *fakeCA, p *opPlan) opResult {
		o, err := c.WaitOrder(ctx, s.base+"/order/"+p.ID)
		if err != nil {
			return opResult{Err: err}
		}
		return opResult{Marker: path.Base(o.FinalizeURL)}
	}},
	{kind: "GetAuthorization", conc: true, polls: true, run: func(ctx context.Context, c *acme.Client, s *fakeCA, p *opPlan) opResult {
		z, err := c.GetAuthorization(ctx, s.base+"/authz/"+p.ID)
		if err != nil {
			return opResult{Err: err}
		}
		if len(z.Challenges) == 0 {
			return opResult{Marker: "no-challenges"}
		}
		return opResult{Marker: tokMarker(z.Challenges[0].Token)}
	}},
	{kind: "WaitAuthorization", conc: true, polls: true, run: func(ctx context.Context, c *acme.Client, s *fakeCA, p *opPlan) opResult {
		z, err := c.WaitAuthorization(ctx, s.base+"/authz/"+p.ID)
		if err != nil {
			return opResult{Err: err}
		}
		if len(z.Challenges) == 0 {
			return opResult{Marker: "no-challenges"}
		}
		return opResult{Marker: tokMarker(z.Challenges[0].Token)}
	}},
	{kind: "RevokeAuthorization", conc: true, noBody: true, run: func(ctx context.Context, c *acme.Client, s *fakeCA, p *opPlan) opResult {
		return opResult{Err: c.RevokeAuthorization(ctx, s.base+"/authz/"+p.ID)}
	}},
	{kind: "Accept", conc: true, run: func(ctx context.Context, c *acme.Client, s *fakeCA, p *opPlan) opResult {
		ch, err := c.Accept(ctx, &acme.Challenge{URI: s.base + "/chal/" + p.ID, Type: "http-01", Token: "t"})
		if err != nil {
			return opResult{Err: err}
		}
		return opResult{Marker: tokMarker(ch.Token)}
	}},
	{kind: "GetChallenge", conc: true, run: func(ctx context.Context, c *acme.Client, s *fakeCA, p *opPlan) opResult {
		ch, err := c.GetChallenge(ctx, s.base+"/chal/"+p.ID)
		if err != nil {
			return opResult{Err: err}
		}
		return opResult{Marker: tokMarker(ch.Token)}
	}},
	{kind: "CreateOrderCert", conc: true, polls: true, finalize: true, run: func(ctx context.Context, c *acme.Client, s *fakeCA, p *opPlan) opResult {
		der, _, err := c.CreateOrderCert(ctx, s.base+"/finalize/"+p.ID+"/x", []byte("csr-"+p.ID), true)
		if err != nil {
			return opResult{Err: err}
		}
		if len(der) == 0 {
			return opResult{Marker: "empty-chain"}
		}
		return opResult{Marker: strings.TrimPrefix(string(der[0]), "leaf-")}
	}},
	{kind: "FetchCert", conc: true, run: func(ctx context.Context, c *acme.Client, s *fakeCA, p *opPlan) opResult {
		der, err := c.FetchCert(ctx, s.base+"/cert/"+p.ID, p.ID[len(p.ID)-1]%2 == 0)
		if err != nil {
			return opResult{Err: err}
		}
		if len(der) == 0 {
			return opResult{Marker: "empty-chain"}
		}
		return opResult{Marker: strings.TrimPrefix(string(der[0]), "leaf-")}
	}},
	{kind: "ListCertAlternates", conc: true, noBody: true, run: func(ctx context.Context, c *acme.Client, s *fakeCA, p *opPlan) opResult {
		alts, err := c.ListCertAlternates(ctx, s.base+"/cert/"+p.ID)
		if err != nil {
			return opResult{Err: err}
		}
		if len(alts) == 0 {
			return opResult{Marker: "no-alternates"}
		}
		return opResult{Marker: path.Base(alts[0])}
	}},
	{kind: "RevokeCert", conc: true, noBody: true, run: func(ctx context.Context, c *acme.Client, s *fakeCA, p *opPlan) opResult {
		var k crypto.Signer
		if p.ID[len(p.ID)-1]%2 == 0 {
			k = ecKeys[1] // revocation authenticated by the certificate key (JWK form)
		}
		return opResult{Err: c.RevokeCert(ctx, k, []byte("cert-"+p.ID), acme.CRLReasonSuperseded)}
	}},
	{kind: "DeactivateReg", conc: true, noBody: true, run: func(ctx context.Context, c *acme.Client, s *fakeCA, p *opPlan) opResult {
		return opResult{Err: c.DeactivateReg(ctx)}
	}},
	{kind: "AccountKeyRollover", conc: false, noBody: true, run: func(ctx context.Context, c *acme.Client, s *fakeCA, p *opPlan) opResult {
		return opResult{Err: c.AccountKeyRollover(ctx, ecKeys[int(p.ID[len(p.ID)-1])%len(ecKeys)])}
	}},
}

func specByKind(k string) *opSpec {
	for i := range opSpecs {
		if opSpecs[i].kind == k {
			return &opSpecs[i]
		}
	}
	return nil
}

// ---- script generation -------------------------------------------------------------

var pastDate = "Thu, 01 Jan 1970 00:00:01 GMT"

func genFailure(r *rand.Rand) action {
	a := action{Kind: "err"}
	switch x := r.IntN(100); {
	case x < 34:
		a.Status, a.Problem = 400, badNonceURN
		if r.IntN(5) == 0 {
			a.Problem = "urn:acme:error:badNonce" // pre-RFC spelling still seen in the wild (isBadNonce doc)
		}
		a.NoNonce = r.IntN(3) == 0
	case x < 64:
		a.Status = mon.Pick(r, []int{500, 502, 503, 504})
		if r.IntN(3) > 0 {
			a.Problem = "urn:ietf:params:acme:error:serverInternal"
		}
		a.NoNonce = r.IntN(4) == 0
		if r.IntN(4) == 0 {
			a.RetryAfter = mon.Pick(r, []string{"0", "1", "7", pastDate})
		}
	case x < 90:
		a.Status, a.Problem = 429, "urn:ietf:params:acme:error:rateLimited"
		a.RetryAfter = mon.Pick(r, []string{"0", "1", "3", "120", pastDate, "soon"})
		a.NoNonce = r.IntN(5) == 0
	default:
		a.Status = mon.Pick(r, []int{204, 304}) // not the wanted status, "retriable" (< 400)
		a.NoNonce = r.IntN(3) == 0
	}
	return a
}

func genTerminal(r *rand.Rand) action {
	a := action{Kind: "err", Status: mon.Pick(r, []int{400, 403, 404, 409, 410})}
	a.Problem = mon.Pick(r, []string{"urn:ietf:params:acme:error:unauthorized", "urn:ietf:params:acme:error:malformed", "urn:ietf:params:acme:error:rejectedIdentifier", ""})
	a.NoNonce = r.IntN(4) == 0
	return a
}

type opCase struct {
	plan      *opPlan
	spec      *opSpec
	pol       boPolicy
	holdMode  string // "" | release | cancel
	preCancel bool
	nFail     int
	sig       string
	script    []action // harness copy of plan.Post as generated
}

// genOp draws one operation with its server script and retry policy.
// force ∈ "", badnonce, stop, cancel, release, precancel.
func genOp(r *rand.Rand, id string, spec *opSpec, phase, force string) *opCase {
	p := &opPlan{ID: id, Kind: spec.kind, Phase: phase}
	oc := &opCase{plan: p, spec: spec}
	nFail := 0
	switch x := r.IntN(100); {
	case x < 35:
	case x < 60:
		nFail = 1
	case x < 78:
		nFail = 2
	case x < 90:
		nFail = 3
	default:
		nFail = 4 + r.IntN(2)
	}
	if (force == "badnonce" || force == "stop") && nFail == 0 {
		nFail = 1 + r.IntN(3)
	}
	// polling ops: statuses the resource goes through
	if spec.polls {
		np := r.IntN(4)
		for range np {
			p.Polls = append(p.Polls, mon.Pick(r, []string{"pending", "processing"}))
		}
		fin := mon.Pick(r, []string{"valid", "valid", "ready", "invalid"})
		if strings.Contains(spec.kind, "Authorization") {
			fin = mon.Pick(r, []string{"valid", "valid", "invalid"}) // the only final authorization states WaitAuthorization stops at
		}
		if spec.kind == "CreateOrderCert" && r.IntN(3) > 0 {
			fin = "valid"
		}
		p.Polls = append(p.Polls, fin)
	}
	if spec.finalize {
		p.FinalizeStat = mon.Pick(r, []string{"valid", "valid", "processing", "processing", "ready", "invalid"})
	}
	if spec.kind == "Register" {
		p.AcctExists = r.IntN(5) == 0
	}
	// request script: failures, interleaved with explicit oks for multi-request ops
	for i := 0; i < nFail; i++ {
		p.Post = append(p.Post, genFailure(r))
		if (spec.polls || spec.finalize) && r.IntN(3) == 0 {
			p.Post = append(p.Post, action{Kind: "ok", NoNonce: r.IntN(3) == 0})
		}
	}
	if force == "badnonce" {
		p.Post[0] = action{Kind: "err", Status: 400, Problem: badNonceURN, NoNonce: r.IntN(3) == 0}
	}
	switch x := r.IntN(100); {
	case x < 12 && force == "":
		p.Post = append(p.Post, genTerminal(r))
	case x < 17 && force == "" && !spec.noBody:
		p.Post = append(p.Post, action{Kind: "ok", Garbage: true})
	case x < 32:
		p.Post = append(p.Post, action{Kind: "ok", NoNonce: true})
	}
	if force == "" && spec.kind == "RevokeCert" && r.IntN(4) == 0 {
		p.Post = append(p.Post, action{Kind: "err", Status: 400, Problem: "urn:ietf:params:acme:error:alreadyRevoked"})
	}
	if force == "" && spec.kind == "GetReg" && r.IntN(4) == 0 {
		p.Post = append(p.Post, action{Kind: "err", Status: 400, Problem: "urn:ietf:params:acme:error:accountDoesNotExist"})
	}
	if force == "" && r.IntN(20) == 0 && len(p.Post) > 0 {
		p.Post[r.IntN(len(p.Post))] = action{Kind: "reset"}
	}
	// nonce fetch script
	if r.IntN(7) == 0 {
		p.Head = append(p.Head, mon.Pick(r, []action{
			{Kind: "ok", NoNonce: true}, {Kind: "err", Status: 503, NoNonce: true}, {Kind: "err", Status: 503},
			{Kind: "err", Status: 429, NoNonce: true, RetryAfter: "1"}, {Kind: "reset"}}))
	}
	// retry policy
	pol := boPolicy{Pos: mon.Pick(r, []time.Duration{1, 1, time.Microsecond, 20 * time.Microsecond}),
		Stop: mon.Pick(r, []time.Duration{0, -1, -time.Hour})}
	if force == "stop" || (force == "" && nFail > 0 && r.IntN(10) < 3) {
		pol.K = r.IntN(nFail) // fewer retries than scripted consecutive failures are possible
	} else {
		pol.K = nFail + r.IntN(3)
	}
	oc.pol = pol
	oc.nFail = nFail
	// held replies
	switch {
	case force == "cancel" || force == "release":
		oc.holdMode = force
	case force == "" && phase != "0" && r.IntN(8) == 0:
		oc.holdMode = mon.Pick(r, []string{"release", "cancel"})
	}
	if oc.holdMode != "" {
		j := 0
		if len(p.Post) > 0 && force == "" {
			j = r.IntN(len(p.Post) + 1)
		}
		if force != "" {
			p.Head = nil
		}
		var then action
		if j < len(p.Post) {
			then = p.Post[j]
			if then.Kind == "reset" {
				then = action{Kind: "ok"}
			}
			p.Post[j] = action{Kind: "hold", Then: &then}
		} else {
			then = action{Kind: "ok"}
			p.Post = append(p.Post, action{Kind: "hold", Then: &then})
		}
	}
	if force == "precancel" || (force == "" && r.IntN(40) == 0) {
		oc.preCancel = true
		oc.holdMode = ""
	}
	has := map[string]bool{}
	for _, a := range p.Post {
		if a.Kind == "hold" && a.Then != nil {
			a = *a.Then
		}
		switch {
		case a.Kind == "err" && isBadNonceProblem(a.Problem):
			has["badNonce"] = true
		case a.Kind == "err" && a.Status == 429:
			has["429"] = true
		case a.Kind == "err" && a.Status >= 500:
			has["5xx"] = true
		case a.Kind == "reset":
			has["reset"] = true
		}
	}
	var sg []string
	for k := range has {
		sg = append(sg, k)
	}
	sort.Strings(sg)
	oc.sig = fmt.Sprintf("%s|%s|stop=%v|hold=%s|pre=%v|phase=%s", spec.kind, strings.Join(sg, ","), pol.K < nFail, oc.holdMode, oc.preCancel, phase)
	return oc
}

// ---- running one operation ---------------------------------------------------------

type opOutcome struct {
	oc        *opCase
	res       opResult
	cancelled bool // the harness cancelled the context (held request or before the start)
	heldSeen  bool
}

func runOp(s *fakeCA, c *acme.Client, bo *backoffCtl, oc *opCase, sequential bool) opOutcome {
	oc.script = append([]action(nil), oc.plan.Post...)
	s.addOp(oc.plan)
	bo.set(oc.plan.ID, oc.pol)
	if sequential {
		s.mu.Lock()
		s.curOp = oc.plan.ID
		s.mu.Unlock()
	}
	ctx, cancel := context.WithCancel(withOp(context.Background(), oc.plan.ID))
	defer cancel()
	out := opOutcome{oc: oc}
	if oc.preCancel {
		s.logCancel(oc.plan)
		cancel()
		out.cancelled = true
	}
	done := make(chan opResult, 1)
	go func() { done <- oc.spec.run(ctx, c, s, oc.plan) }()
	if oc.holdMode != "" {
		select {
		case <-oc.plan.held:
			out.heldSeen = true
			if oc.holdMode == "cancel" {
				// quiescent point: the operation's only in-flight request is parked in the server
				s.logCancel(oc.plan)
				cancel()
				out.cancelled = true
			} else {
				close(oc.plan.release)
			}
			out.res = <-done
		case out.res = <-done:
			// the operation ended before reaching the scripted hold
		}
	} else {
		out.res = <-done
	}
	note := "nil"
	if out.res.Err != nil {
		note = fmt.Sprintf("%T: %v", out.res.Err, out.res.Err)
	}
	s.logReturn(oc.plan, note)
	return out
}

// ---- the judge ------------------------------------------------------------------------

type judge struct {
	m *mon.M
	s *fakeCA
}

func (j *judge) viol(key string, o opOutcome, ev []event, extra map[string]any) {
	d := map[string]any{"op": o.oc.plan.ID, "op_kind": o.oc.spec.kind, "phase": o.oc.plan.Phase, "policy": fmt.Sprintf("%+v", o.oc.pol),
		"hold": o.oc.holdMode, "pre_cancel": o.oc.preCancel, "returned": fmt.Sprintf("marker=%q err=%v (%T)", o.res.Marker, o.res.Err, o.res.Err), "op_log": tailEvents(ev, 60)}
	for k, v := range extra {
		d[k] = v
	}
	j.m.Violation(key, d)
}

func nonRetriableReply(e event) bool {
	return e.T == "reply" && e.Final == "err" && e.Method != "HEAD" && !retriableStatus(e.Status) && !isBadNonceProblem(e.Problem)
}

// judgeOp evaluates the per-operation rules on the operation's event log.
func (j *judge) judgeOp(o opOutcome) {
	m := j.m
	ev := j.s.opEvents(o.oc.plan)
	m.Eval()
	m.Distinct(o.oc.sig)
	kind := o.oc.spec.kind
	err := o.res.Err

	// --- retry bookkeeping: RetryBackoff arguments and stop rule
	fails := map[string]int{}
	stopped := false // a terminal failure of a non-lookup request was seen
	stoppedWhy := ""
	attempts := 0
	for i, e := range ev {
		switch e.T {
		case "req":
			if e.Method == "POST" {
				attempts++
			}
			if stopped {
				j.viol("request-after-"+stoppedWhy, o, ev, map[string]any{"offending_seq": e.Seq})
				stopped = false
			}
		case "reply":
			if e.Method == "HEAD" {
				continue
			}
			key := e.Class + " " + e.Path
			if e.Final == "err" {
				fails[key]++
				if isBadNonceProblem(e.Problem) {
					m.Count("op_badnonce_replies", 1)
				}
				if nonRetriableReply(e) {
					fails[key] = 0
					m.Count("nonretriable_4xx_seen", 1)
					if e.Class != "kidlookup" {
						stopped, stoppedWhy = true, "nonretriable-4xx"
					}
				}
			} else {
				fails[key] = 0
			}
		case "backoff":
			m.Count("backoff_calls", 1)
			if i == 0 || ev[i-1].T != "reply" || ev[i-1].Seq != e.RespSeq || ev[i-1].Path != e.Path {
				j.viol("backoff-args-not-last-failed-attempt", o, ev, map[string]any{"backoff_seq": e.Seq})
				continue
			}
			prev := ev[i-1]
			key := prev.Class + " " + prev.Path
			if prev.Final != "err" || nonRetriableReply(prev) {
				j.viol("backoff-called-for-unretriable-reply", o, ev, map[string]any{"backoff_seq": e.Seq})
			}
			if e.N != fails[key] {
				j.viol("backoff-n-mismatch", o, ev, map[string]any{"backoff_seq": e.Seq, "n": e.N, "failed_attempts_in_loop": fails[key]})
			}
			if e.RetNs <= 0 {
				fails[key] = 0
				m.Count("backoff_stops", 1)
				if e.RetNs == 0 {
					m.Count("backoff_stops_zero", 1)
				}
				if prev.Class != "kidlookup" {
					stopped, stoppedWhy = true, "backoff-stop"
				}
			} else {
				m.Count("backoff_continues", 1)
				if isBadNonceProblem(prev.Problem) {
					m.Count("badnonce_retries", 1)
				}
			}
		}
	}
	if attempts > 1 {
		m.Count("ops_with_retries", 1)
	}

	// --- cancellation (server side violations are raised in the handler)
	if o.cancelled {
		if o.oc.preCancel {
			m.Count("ops_precancelled", 1)
			for _, e := range ev {
				if e.T == "req" {
					// also raised by the handler; keep the op-level witness
					j.viol("request-after-cancel", o, ev, nil)
					break
				}
			}
			if err == nil {
				j.viol("success-after-cancel-before-start", o, ev, nil)
			}
		} else {
			m.Count("ops_cancelled_midway", 1)
		}
	}
	if o.heldSeen && !o.cancelled {
		m.Count("ops_slow_reply_released", 1)
	}

	// --- result correspondence: L = the last thing the server did for this operation
	var L *event
	for i := range ev {
		if ev[i].T == "reply" || ev[i].T == "abort" {
			L = &ev[i]
		}
	}
	var ae *acme.Error
	isAcme := errors.As(err, &ae)
	if _, direct := err.(*acme.Error); !direct {
		isAcme = false // OrderError etc. carry an embedded problem from a 200 body, not an HTTP error reply
	}
	switch {
	case err == nil:
		m.Count("ops_succeeded", 1)
		switch {
		case L == nil:
			j.viol("result-without-server-reply", o, ev, nil)
		case kind == "RevokeCert" && L.Final == "err" && L.Problem == "urn:ietf:params:acme:error:alreadyRevoked":
			m.Count("already_revoked_as_success", 1)
		case L.Final != "ok":
			j.viol("success-not-from-final-reply", o, ev, map[string]any{"last_reply": *L})
		case o.res.Marker != "" && o.res.Marker != L.Marker:
			j.viol("result-from-stale-reply", o, ev, map[string]any{"last_reply": *L, "returned_marker": o.res.Marker})
		default:
			m.Count("results_matched_final_reply", 1)
		}
	case isAcme:
		m.Count("ops_failed_acme_error", 1)
		ok := L != nil && L.T == "reply" && L.Final == "err" && L.Status == ae.StatusCode
		if ok && L.Method != "HEAD" && L.Status != 204 && L.Status != 304 {
			ok = ae.Detail == L.Detail && ae.ProblemType == L.Problem
		}
		if !ok {
			j.viol("error-not-from-final-reply", o, ev, map[string]any{"last_reply": L, "acme_error": fmt.Sprintf("%d %q %q", ae.StatusCode, ae.ProblemType, ae.Detail)})
		} else {
			m.Count("errors_matched_final_reply", 1)
		}
	default:
		m.Count("ops_failed_other_error", 1)
		switch {
		case err == acme.ErrAccountAlreadyExists:
			if L == nil || L.Final != "ok" || L.Status != 200 || L.Path != "/new-acct" {
				j.viol("error-not-from-final-reply:already-exists", o, ev, map[string]any{"last_reply": L})
			} else {
				m.Count("results_matched_final_reply", 1)
			}
		case o.cancelled:
			if errors.Is(err, context.Canceled) {
				m.Count("cancel_returned_ctx_error", 1)
			}
		case L != nil && L.Final == "ok":
			j.viol("error-despite-final-success-reply", o, ev, map[string]any{"last_reply": *L})
		case L != nil && L.T == "reply" && L.Final == "err" && L.Method != "HEAD" && L.Class != "kidlookup":
			// an HTTP error reply was the last word: the caller must get it as *acme.Error
			// (documented sentinel mappings excepted)
			if err == acme.ErrNoAccount && strings.HasSuffix(L.Problem, ":accountDoesNotExist") {
				break
			}
			j.viol("error-not-from-final-reply:lost-acme-error", o, ev, map[string]any{"last_reply": *L})
		case L != nil && L.Final == "invalid":
			var oe *acme.OrderError
			var ze *acme.AuthorizationError
			if errors.As(err, &oe) || errors.As(err, &ze) {
				m.Count("invalid_status_errors_matched", 1)
			} else {
				j.viol("error-not-from-final-reply:invalid-status", o, ev, map[string]any{"last_reply": *L})
			}
		}
	}
}

// judgeSession: ledger-wide rules that need the whole session.
func (j *judge) judgeSession(seqPhaseStart int64) {
	s := j.s
	s.mu.Lock()
	defer s.mu.Unlock()
	for _, v := range s.viol {
		j.m.Violation(v.Key, v.Detail)
	}
	for k, n := range s.counts {
		j.m.Count(k, n)
	}
	if s.counts["requests_untagged"] > 0 {
		// a request made on behalf of an operation whose context does not descend from the
		// caller's context cannot be cancelled by the caller
		var ex []event
		for _, e := range s.all {
			if e.Untagged {
				ex = append(ex, e)
			}
		}
		j.m.Violation("request-without-callers-context", map[string]any{"untagged_requests": s.counts["requests_untagged"], "examples": tailEvents(ex, 5), "log": tailEvents(s.all, 40)})
	}
	// after a badNonce reply the next signed request (sequential phase only:
	// no other operation can add older nonces back) uses a nonce issued at or
	// after that reply
	var all []event
	for _, op := range s.ops {
		all = append(all, op.events...)
	}
	sort.Slice(all, func(a, b int) bool { return all[a].Seq < all[b].Seq })
	var badAt int64
	var badEv event
	for _, e := range all {
		if e.Seq < seqPhaseStart {
			continue
		}
		switch {
		case e.T == "reply" && isBadNonceProblem(e.Problem):
			badAt, badEv = e.Seq, e
		case e.T == "req" && e.Method == "POST" && badAt != 0:
			rec := s.nonces[e.Nonce]
			if rec != nil {
				j.m.Count("post_after_badnonce_checked", 1)
				if rec.IssuedAt < badAt {
					j.m.Violation("badnonce-retry-used-stale-nonce", map[string]any{"badnonce_reply": badEv, "next_post": e, "nonce_issued_at_seq": rec.IssuedAt,
						"log": tailEvents(all, 60)})
				}
			}
			badAt = 0
		}
	}
	j.m.Eval()
}

// ---- one session -------------------------------------------------------------------------

type sessionCfg struct {
	G        int    // goroutines in the concurrent phase (0: none)
	NB       int    // sequential operations
	KidMode  string // register | preset | none
	Force    string
	RSA      bool
	idPrefix string
}

func pickSpec(r *rand.Rand, concOnly bool) *opSpec {
	for {
		sp := &opSpecs[r.IntN(len(opSpecs))]
		if concOnly && !sp.conc {
			continue
		}
		if sp.kind == "Register" && r.IntN(3) > 0 {
			continue
		}
		return sp
	}
}

func runSession(m *mon.M, r *rand.Rand, cfg sessionCfg, s *fakeCA, hc *http.Client) {
	bo := &backoffCtl{s: s, pol: map[string]boPolicy{}}
	var key crypto.Signer = ecKey(r)
	if cfg.RSA {
		key = theRSAKey()
	}
	c := &acme.Client{Key: key, DirectoryURL: s.base + "/dir", HTTPClient: hc, RetryBackoff: bo.fn}
	j := &judge{m: m, s: s}
	nop := 0
	id := func() string { nop++; return fmt.Sprintf("%so%d", cfg.idPrefix, nop) }

	// directory script
	s.noNonceURL = r.IntN(8) == 0
	s.dirNoNonce = r.IntN(3) == 0
	for range r.IntN(3) / 2 {
		a := genFailure(r)
		if isBadNonceProblem(a.Problem) {
			a = action{Kind: "err", Status: 503}
		}
		s.dirPlan = append(s.dirPlan, a)
	}

	// phase 0: account
	switch cfg.KidMode {
	case "register":
		oc := genOp(r, id(), specByKind("Register"), "0", "")
		oc.pol.K = oc.nFail + 2 // let registration succeed unless a terminal error is scripted
		j.judgeOp(runOp(s, c, bo, oc, true))
	case "preset":
		c.KID = acme.KeyID(s.base + "/acct/1")
	}

	// phase A: concurrent operations sharing the Client
	if cfg.G > 0 {
		m.Count("concurrent_phases", 1)
		m.Count(fmt.Sprintf("concurrent_phases_G%d", cfg.G), 1)
		var wg sync.WaitGroup
		outs := make([][]opOutcome, cfg.G)
		s.mu.Lock()
		s.curOp = ""
		s.mu.Unlock()
		for g := 0; g < cfg.G; g++ {
			var ocs []*opCase
			for range 1 + r.IntN(3) {
				ocs = append(ocs, genOp(r, id(), pickSpec(r, true), "A", ""))
			}
			wg.Add(1)
			go func(g int, ocs []*opCase) {
				defer wg.Done()
				for _, oc := range ocs {
					outs[g] = append(outs[g], runOp(s, c, bo, oc, false))
				}
			}(g, ocs)
		}
		wg.Wait()
		for _, os := range outs {
			for _, o := range os {
				j.judgeOp(o)
			}
		}
	}

	// phase B: sequential operations
	s.mu.Lock()
	phaseB := s.seq + 1
	s.mu.Unlock()
	for k := 0; k < cfg.NB; k++ {
		force := ""
		if k == 0 {
			force = cfg.Force
		}
		sp := pickSpec(r, false)
		if force == "cancel" || force == "release" {
			// make sure a request reaches the hold: no kid lookup in the way is needed, any op works
		}
		oc := genOp(r, id(), sp, "B", force)
		o := runOp(s, c, bo, oc, true)
		j.judgeOp(o)
		if force == "cancel" && o.heldSeen && o.cancelled {
			m.Count("forced_cancel_while_held", 1)
		}
	}
	j.judgeSession(phaseB)
}

// one loopback server per process; the handler is swapped per session
type swapHandler struct {
	mu sync.Mutex
	h  http.Handler
}

func (w *swapHandler) set(h http.Handler) { w.mu.Lock(); w.h = h; w.mu.Unlock() }
func (w *swapHandler) ServeHTTP(rw http.ResponseWriter, r *http.Request) {
	w.mu.Lock()
	h := w.h
	w.mu.Unlock()
	if h == nil {
		http.Error(rw, "no session", 500)
		return
	}
	h.ServeHTTP(rw, r)
}

var (
	srvOnce sync.Once
	theSrv  *httptest.Server
	theSwap *swapHandler
)

func sharedServer() (*httptest.Server, *swapHandler) {
	srvOnce.Do(func() {
		theSwap = &swapHandler{}
		theSrv = httptest.NewServer(theSwap)
	})
	return theSrv, theSwap
}

// ---- the check -------------------------------------------------------------------------------

func TestC50(t *testing.T) {
	m := mon.New(t, "C50")
	defer m.Done()
	m.Rule("case = one session of a real acme.Client (public API only) against a scripted fake RFC 8555 server written in the harness: optional Register, a concurrent phase (G=1..8 goroutines x 1..3 operations sharing the Client) and a sequential phase (2..7 operations) drawn from 18 client methods; each operation has a PRNG-drawn server script (badNonce with/without fresh nonce, 5xx, 429+Retry-After, 204/304, non-retriable 4xx, replies without Replay-Nonce, garbage bodies, connection resets, held replies released or answered by cancelling the caller's context, failing nonce fetches) and a recorded RetryBackoff (K positive tiny delays, then 0/-1/-1h). The server decodes every JWS protected header and keeps the nonce ledger; per-operation event logs (request, reply, backoff call, cancel, return in one logical clock) are judged after the operation. Stream vt: the same server behind an in-memory transport inside a testing/synctest bubble (virtual time) for the default backoff policy, Retry-After and cancellation during sleeps. distinct = (method, set of reply kinds, failures, stopped?, hold mode); non-trivial = at least one signed request reached the server")
	m.Assume("net/http does not put a request on the wire whose context is already done, and does not replay POST requests it has written (Transport contract)")
	m.Assume("the harness' fake server/ledger (h/acmeh/fakeca_test.go) is correct; it was written from RFC 8555/7515 and shares no code with x/crypto")
	m.Assume("virtual-time stream: testing/synctest fake clock; verdicts use only that clock")
	ecKey(rand.New(rand.NewPCG(1, 2)))

	total := m.N(1000, 20000)
	m.Cases("sessions", total, func(i int64, r *rand.Rand) {
		cfg := sessionCfg{NB: 2 + r.IntN(6), idPrefix: fmt.Sprintf("c%d", i)}
		switch i % 4 {
		case 0:
			cfg.Force = "badnonce"
		case 1:
			cfg.Force = "stop"
		case 2:
			cfg.Force = "cancel"
		case 3:
			cfg.G = 2 + r.IntN(7)
			cfg.Force = mon.Pick(r, []string{"release", "precancel", "badnonce"})
		}
		if cfg.G == 0 && r.IntN(3) == 0 {
			cfg.G = 1 + r.IntN(8)
		}
		cfg.KidMode = mon.Pick(r, []string{"register", "register", "preset", "preset", "none"})
		cfg.RSA = r.IntN(40) == 0
		srv, swap := sharedServer()
		s := newFakeCA(srv.URL)
		swap.set(s)
		tr := &http.Transport{MaxIdleConnsPerHost: 16}
		hc := &http.Client{Transport: &tagTransport{base: tr}}
		runSession(m, r, cfg, s, hc)
		tr.CloseIdleConnections()
		swap.set(nil)
		if i < 3 {
			s.mu.Lock()
			m.Sample(map[string]any{"session": i, "cfg": fmt.Sprintf("%+v", cfg), "first_events": tailEvents(s.all[:min(len(s.all), 25)], 25)})
			s.mu.Unlock()
		}
	})

	m.Cases("vt", m.N(320, 4000), func(i int64, r *rand.Rand) {
		synctest.Test(t, func(t *testing.T) { vtCase(m, i, r) })
	})

	m.Gate("badnonce_retries", 100, "a badNonce reply followed by a retry was observed (forced in every 4th session)")
	m.Gate("post_after_badnonce_checked", 100, "the stale-nonce rule was evaluated")
	m.Gate("backoff_stops", 100, "RetryBackoff returned <= 0 and the stop rule was evaluated (forced in every 4th session)")
	m.Gate("forced_cancel_while_held", 100, "a context was cancelled while the server held the operation's request (forced in every 4th session)")
	m.Gate("concurrent_phases", 100, "operations shared one Client concurrently (forced in every 4th session)")
	m.Gate("nonce_fetch_heads", 100, "HEAD newNonce fetches were observed")
	m.Gate("replies_without_replay_nonce", 100, "replies without Replay-Nonce were observed")
	m.Gate("results_matched_final_reply", 500, "successful results were matched against the final reply")
	m.Gate("errors_matched_final_reply", 100, "returned *acme.Error values were matched against the final reply")
	m.Gate("vt_default_backoff_gaps", 50, "default-policy retry delays were measured in virtual time")
	m.Gate("vt_retry_after_gaps", 50, "Retry-After delays under the default policy were measured in virtual time")
	m.Gate("vt_cancel_during_backoff", 50, "cancellation during a backoff sleep was observed in virtual time")
	m.Gate("vt_cancel_during_poll_sleep", 50, "cancellation during a WaitOrder/WaitAuthorization poll sleep was observed in virtual time")
}

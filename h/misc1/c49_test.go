package misc1

import (
	"bytes"
	"context"
	"crypto"
	"crypto/ecdsa"
	"crypto/ed25519"
	"crypto/elliptic"
	"crypto/hmac"
	"crypto/rand"
	"crypto/rsa"
	"crypto/sha256"
	"encoding/json"
	"fmt"
	"math/big"
	mrand "math/rand/v2"
	"net/http"
	"net/http/httptest"
	"reflect"
	"sort"
	"strings"
	"testing"
	"time"

	jose "github.com/go-jose/go-jose/v4"
	"golang.org/x/crypto/acme"
	"verif/mon"
	"verif/ref/jwsref"
)

// C49: what the ACME client sends is a standards-conformant JWS.
func TestC49(t *testing.T) {
	m := mon.New(t, "C49")
	defer m.Done()
	m.Rule("conc = shared-value concurrency: ONE acme.Client with ONE account key (plain, crypto.Signer-only, or yielding inside Sign) used by 6 goroutines at once after a barrier for POST-as-GET reads, Accept posts and JWKThumbprint/key authorizations; unique URLs match every recorded body to its expectation, judged as below; the server's ledger must show every nonce used exactly once; half of the rounds under GOMAXPROCS(1); also built with the race detector (variant verif,race runs only this stream). session = one acme.Client with one account key (RSA 2048/3072/odd sizes and exponents, P-256/384/521; plain, crypto.Signer-only wrapper, or a nonce-choosing ECDSA signer) talking to a recording fake CA through an in-memory transport or a loopback httptest server: Register (with/without external account binding), GetReg, AuthorizeOrder, GetOrder/GetAuthorization/GetChallenge (POST-as-GET), Accept, UpdateReg, RevokeCert (account key and certificate key), AccountKeyRollover, DeactivateReg with random contacts, identifiers, URLs, nonces and key IDs; every recorded POST body is judged: flattened JWS JSON with exactly protected/payload/signature, strict base64url, protected header = alg+nonce+url+(jwk xor kid), alg per key, url/kid/nonce as given by the server, jwk = RFC 7518 members with fixed-width coordinates / minimal integers, signature length 2·⌈bits/8⌉ (modulus length for RSA), verification by go-jose v4 with the account public key (stdlib verification as tie-breaker), payload content per operation, EAB inner JWS = HS256 over the account JWK, key-change inner JWS per RFC 8555 §7.3.5; thumb = JWKThumbprint vs RFC 7638 reference vs go-jose. Keys with X/Y one byte short come from trial generation, two bytes short from embedded scalars; signatures with short r/s are collected from ≥3000 real signatures per curve and forced by a nonce-choosing signer. Distinct key = op × key class × form × signer wrapper; non-trivial = reached verification")
	m.Assume("go-jose v4 (JWS parsing/verification, JWK thumbprint), crypto/ecdsa, crypto/rsa, crypto/hmac of the standard library; h/ref/jwsref (RFC 7638 vector, RFC 4648 vectors) for JWK members and thumbprints")
	w := &c49w{t: t, m: m}
	if mon.RaceBuild {
		// race-detector variant: only the shared-client concurrency stream
		w.concurrent()
		w.concGates()
		return
	}
	w.concurrent()
	w.concGates()
	w.sessions()
	w.thumbprints()
	for _, k := range []string{"p256", "p384", "p521"} {
		m.Gate("sig_real:"+k, m.N(3000, 20000), "real ECDSA signatures of the client on this curve judged")
		m.Gate("sig_real_short:"+k, 1, "real signatures whose r or s needed left padding (P-521: two bytes)")
		m.Gate("forced_r1:"+k, m.N(8, 100), "forced signatures with r one byte short (P-521: two)")
		m.Gate("forced_r2:"+k, m.N(8, 100), "forced signatures with r two bytes short")
		m.Gate("forced_s1:"+k, m.N(8, 100), "forced signatures with s one byte short (P-521: two)")
		m.Gate("jwk_short_x1:"+k, m.N(3, 40), "JWKs sent with X one byte short (trial generation)")
		m.Gate("jwk_short_y1:"+k, m.N(3, 40), "JWKs sent with Y one byte short")
		m.Gate("jwk_short_x2:"+k, m.N(3, 40), "JWKs sent with X two bytes short (embedded scalars)")
		m.Gate("jwk_short_y2:"+k, m.N(3, 40), "JWKs sent with Y two bytes short")
	}
	m.Gate("forced_s2:p256", m.N(2, 20), "forced signatures with s two bytes short")
	m.Gate("sig_real:rsa", m.N(300, 3000), "RSA signatures judged")
	m.Gate("eab_verified", m.N(40, 500), "external account binding JWS verified")
	m.Gate("rollover_verified", m.N(30, 400), "key-change inner JWS verified")
	m.Gate("post_as_get", m.N(2000, 15000), "POST-as-GET requests judged")
	m.Gate("form_jwk", m.N(250, 2000), "requests in jwk form judged")
	m.Gate("form_kid", m.N(5000, 40000), "requests in kid form judged")
	m.Gate("opaque_signer_requests", m.N(1000, 8000), "requests signed through a crypto.Signer-only wrapper")
	m.Gate("tcp_requests", m.N(100, 1000), "requests that went over a loopback httptest server")
	m.Gate("thumb_compared", m.N(200, 5000), "thumbprints compared with both references")
}

type c49w struct {
	t         *testing.T
	m         *mon.M
	nextClass string // coordinate class of the next EC key made (set by the session for its account key)
}

var ecClasses = []string{"any", "x1", "y1", "x2", "y2", "any"}

// pubInfo is what the judge needs to know about a key.
type pubInfo struct {
	kind string // rsa | p256 | p384 | p521
	pub  crypto.PublicKey
	jwk  map[string]string
}

func infoOf(pub crypto.PublicKey) pubInfo {
	switch p := pub.(type) {
	case *rsa.PublicKey:
		return pubInfo{kind: "rsa", pub: p, jwk: jwsref.RSAJWK(p.N, p.E)}
	case *ecdsa.PublicKey:
		kind := map[string]string{"P-256": "p256", "P-384": "p384", "P-521": "p521"}[p.Params().Name]
		return pubInfo{kind: kind, pub: p, jwk: jwsref.ECJWK(p.Params().Name, p.X, p.Y)}
	}
	panic("infoOf: key type")
}

// expectation for one recorded request
type c49exp struct {
	op        string
	key       pubInfo
	form      string // jwk | kid
	kid       string
	url       string
	postAsGet bool
	payload   any // expected payload as a Go value (nil: not compared)
	eab       *acme.ExternalAccountBinding
	rollover  *pubInfo // new key (inner JWS)
	forced    *forcedSig
	wrapper   string
	keyClass  string
	transport string
	conc      bool // request made by one of several goroutines sharing the client
}

func normJSON(v any) any {
	b, err := json.Marshal(v)
	if err != nil {
		panic(err)
	}
	var out any
	json.Unmarshal(b, &out)
	return out
}

// verifyOwn checks an ES*/RS256 JWS signature with the standard library.
func verifyOwn(k pubInfo, signingInput, sig []byte) bool {
	h := hashOf(k.kind).New()
	h.Write(signingInput)
	d := h.Sum(nil)
	switch p := k.pub.(type) {
	case *rsa.PublicKey:
		return rsa.VerifyPKCS1v15(p, crypto.SHA256, d, sig) == nil
	case *ecdsa.PublicKey:
		n := coordSize(p.Curve)
		if len(sig) != 2*n {
			return false
		}
		return ecdsa.Verify(p, d, new(big.Int).SetBytes(sig[:n]), new(big.Int).SetBytes(sig[n:]))
	}
	return false
}

// judgeJWS checks one JWS (outer request or key-change inner object).
// inner=true: RFC 8555 §7.3.5 inner JWS (jwk, no nonce).
func (w *c49w) judgeJWS(body []byte, e c49exp, inner bool, ca *fakeCA) (f *jwsref.Flattened, ok bool) {
	m := w.m
	tag := e.op
	if inner {
		tag += "/inner"
	}
	wit := map[string]any{"op": tag, "key": e.key.kind, "class": e.keyClass, "wrapper": e.wrapper, "form": e.form, "body": string(body)}
	bad := func(key string, extra ...any) {
		if len(extra) > 0 {
			wit["detail"] = fmt.Sprint(extra...)
		}
		if e.conc {
			// the same request shape is established single-threaded by the session stream: what differs here is the overlap
			wit["single_threaded_key"] = key
			key = "concurrent-jws-differs:shared:acme.Client." + e.op
		}
		m.Violation(key, wit)
		ok = false
	}
	ok = true
	f, err := jwsref.ParseFlattened(body)
	if err != nil {
		bad("jws:not-flattened-jws-json", err)
		return nil, false
	}
	// --- protected header members ---
	names := append([]string{}, f.HeaderNames...)
	sort.Strings(names)
	wantNames := []string{"alg", e.form, "nonce", "url"}
	if inner {
		wantNames = []string{"alg", "jwk", "url"}
	}
	sort.Strings(wantNames)
	if !reflect.DeepEqual(names, wantNames) {
		_, hasJWK := f.Header["jwk"]
		_, hasKID := f.Header["kid"]
		switch {
		case hasJWK && hasKID:
			bad("jws:jwk-and-kid-both-present", names)
		case !hasJWK && !hasKID:
			bad("jws:neither-jwk-nor-kid", names)
		case (e.form == "jwk") != hasJWK:
			bad("jws:wrong-key-identification-form:"+e.op, names)
		default:
			bad("jws:protected-header-members", fmt.Sprint(names, " want ", wantNames))
		}
	}
	if alg, _ := jwsref.StringMember(f.Header, "alg"); alg != algOf(e.key.kind) {
		bad("jws:alg-does-not-match-key:"+e.key.kind, alg)
	}
	if u, _ := jwsref.StringMember(f.Header, "url"); u != e.url {
		bad("jws:url-not-the-request-url", u, " want ", e.url)
	}
	if !inner {
		if n, has := jwsref.StringMember(f.Header, "nonce"); !has || n == "" {
			bad("jws:nonce-missing")
		} else if ca != nil && !ca.nonceIssued(n) {
			bad("jws:nonce-not-issued-by-server", n)
		}
	}
	if e.form == "kid" && !inner {
		if k, _ := jwsref.StringMember(f.Header, "kid"); k != e.kid {
			bad("jws:kid-not-the-account-url", k, " want ", e.kid)
		}
	}
	if raw, has := f.Header["jwk"]; has {
		_, jv, err := jwsref.Members(raw)
		if err != nil {
			bad("jws:jwk-not-an-object", err)
		} else {
			for name, want := range e.key.jwk {
				got, _ := jwsref.StringMember(jv, name)
				if got != want {
					bad("jws:jwk-member-wrong:"+e.key.kind+":"+name, got, " want ", want)
				}
			}
			for name := range jv {
				if _, req := e.key.jwk[name]; !req {
					m.Count("jwk_extra_member:"+name, 1)
					if name == "d" || name == "p" || name == "q" || name == "dp" || name == "dq" || name == "qi" {
						bad("jws:jwk-carries-private-member:" + name)
					}
				}
			}
		}
	}
	// --- payload ---
	if e.postAsGet {
		if f.Payload != "" {
			bad("jws:post-as-get-payload-not-empty", f.Payload)
		}
	} else if e.payload != nil {
		var got any
		if err := json.Unmarshal(f.PayloadBytes, &got); err != nil {
			bad("jws:payload-not-json:"+e.op, err)
		} else if !reflect.DeepEqual(got, normJSON(e.payload)) {
			bad("jws:payload-content:"+e.op, string(f.PayloadBytes))
		}
	}
	// --- signature ---
	wantLen := 0
	switch p := e.key.pub.(type) {
	case *rsa.PublicKey:
		wantLen = (p.N.BitLen() + 7) / 8
	case *ecdsa.PublicKey:
		wantLen = 2 * coordSize(p.Curve)
	}
	if len(f.Sig) != wantLen {
		bad("jws:signature-length:"+algOf(e.key.kind), len(f.Sig), " want ", wantLen)
	}
	if e.forced != nil && e.key.kind != "rsa" {
		n := wantLen / 2
		want := append(jwsref.FixedWidth(e.forced.r, n), jwsref.FixedWidth(e.forced.s, n)...)
		if !bytes.Equal(f.Sig, want) {
			bad("jws:signature-not-fixed-width-r-s:"+algOf(e.key.kind), fmt.Sprintf("got %x want %x", f.Sig, want))
		}
	}
	// independent JOSE implementation
	joseOK := false
	var joseErr error
	if obj, err := jose.ParseSigned(string(body), []jose.SignatureAlgorithm{jose.SignatureAlgorithm(algOf(e.key.kind))}); err != nil {
		joseErr = err
	} else if pl, err := obj.Verify(e.key.pub); err != nil {
		joseErr = err
	} else {
		joseOK = bytes.Equal(pl, f.PayloadBytes)
		if !joseOK {
			joseErr = fmt.Errorf("payload differs")
		}
		if len(obj.Signatures) == 1 {
			if h := obj.Signatures[0].Protected; h.JSONWebKey != nil {
				// go-jose's own reading of the embedded key must be the account key
				if !reflect.DeepEqual(h.JSONWebKey.Key, e.key.pub) {
					bad("jws:embedded-jwk-is-not-the-signing-key(go-jose)")
				}
			}
		}
	}
	if !joseOK {
		if verifyOwn(e.key, f.SigningInput(), f.Sig) {
			m.Inconclusive(fmt.Sprintf("C49 oracle conflict: go-jose rejects (%v), stdlib verifies; op=%s key=%s", joseErr, tag, e.key.kind))
		} else {
			bad("jws:signature-does-not-verify:"+algOf(e.key.kind), joseErr)
		}
	}
	return f, ok
}

// judge handles one recorded request completely (outer JWS, EAB, key change).
func (w *c49w) judge(rc caRecord, e c49exp, ca *fakeCA) {
	m := w.m
	m.Eval()
	if rc.ContentType != "application/jose+json" {
		m.Violation("http:content-type-not-application/jose+json", map[string]any{"op": e.op, "content_type": rc.ContentType})
	}
	if rc.URL != e.url {
		m.Count("request_url_differs_from_given_url", 1) // net/url normalisation, not judged
	}
	f, ok := w.judgeJWS(rc.Body, e, false, ca)
	if f == nil {
		return
	}
	m.Count("requests_judged", 1)
	m.Count("form_"+e.form, 1)
	if e.forced == nil {
		m.Count("sig_real:"+e.key.kind, 1)
	}
	m.Count("transport_"+e.transport, 1)
	if e.transport == "tcp" {
		m.Count("tcp_requests", 1)
	}
	if e.postAsGet {
		m.Count("post_as_get", 1)
	}
	if e.wrapper == "opaque" {
		m.Count("opaque_signer_requests", 1)
	}
	m.Distinct(fmt.Sprintf("%s %s %s %s %s", e.op, e.key.kind, e.keyClass, e.form, e.wrapper))
	if pk, isEC := e.key.pub.(*ecdsa.PublicKey); isEC && len(f.Sig) == 2*coordSize(pk.Curve) {
		n := coordSize(pk.Curve)
		zr, zs := 0, 0
		for zr < n && f.Sig[zr] == 0 {
			zr++
		}
		for zs < n && f.Sig[n+zs] == 0 {
			zs++
		}
		need := 1
		if e.key.kind == "p521" {
			need = 2
		}
		if e.forced == nil || e.forced.shape == "normal" {
			if zr >= need || zs >= need {
				m.Count("sig_real_short:"+e.key.kind, 1)
			}
			if zr >= need+1 || zs >= need+1 {
				m.Count("sig_real_short2:"+e.key.kind, 1)
			}
		} else if ok {
			m.Count("forced_"+e.forced.shape+":"+e.key.kind, 1)
		}
		if e.form == "jwk" {
			for _, c := range []struct {
				name string
				v    *big.Int
			}{{"x", pk.X}, {"y", pk.Y}} {
				z := leadZeros(c.v, n)
				if z >= need {
					m.Count("jwk_short_"+c.name+"1:"+e.key.kind, 1)
				}
				if z >= 2 {
					m.Count("jwk_short_"+c.name+"2:"+e.key.kind, 1)
				}
			}
		}
	}
	// --- external account binding (RFC 8555 §7.3.4) ---
	if e.eab != nil {
		var pl struct {
			EAB json.RawMessage `json:"externalAccountBinding"`
		}
		json.Unmarshal(f.PayloadBytes, &pl)
		wit := map[string]any{"op": e.op, "key": e.key.kind, "eab": string(pl.EAB), "mac_key": mon.FullHex(e.eab.Key)}
		in, err := jwsref.ParseFlattened(pl.EAB)
		if err != nil {
			wit["detail"] = err.Error()
			m.Violation("eab:not-flattened-jws-json", wit)
			return
		}
		names := append([]string{}, in.HeaderNames...)
		sort.Strings(names)
		if !reflect.DeepEqual(names, []string{"alg", "kid", "url"}) {
			wit["detail"] = fmt.Sprint(names)
			m.Violation("eab:protected-header-members", wit)
		}
		if a, _ := jwsref.StringMember(in.Header, "alg"); a != "HS256" {
			m.Violation("eab:alg-not-HS256", wit)
		}
		if k, _ := jwsref.StringMember(in.Header, "kid"); k != e.eab.KID {
			m.Violation("eab:kid-not-the-binding-key-id", wit)
		}
		if u, _ := jwsref.StringMember(in.Header, "url"); u != e.url {
			m.Violation("eab:url-not-the-newAccount-url", wit)
		}
		// payload = the account key as JWK, the same key as the outer jwk
		_, jv, err := jwsref.Members(in.PayloadBytes)
		if err != nil {
			m.Violation("eab:payload-not-a-jwk", wit)
		} else {
			for name, want := range e.key.jwk {
				if got, _ := jwsref.StringMember(jv, name); got != want {
					wit["detail"] = name
					m.Violation("eab:payload-jwk-member-wrong:"+name, wit)
				}
			}
		}
		mac := hmac.New(sha256.New, e.eab.Key)
		mac.Write(in.SigningInput())
		macOK := hmac.Equal(mac.Sum(nil), in.Sig)
		joseOK := false
		if len(e.eab.Key) < 32 {
			// go-jose refuses HMAC keys shorter than the hash (RFC 7518 §3.2); the client's
			// documentation sets no minimum, so only crypto/hmac speaks here
			joseOK = macOK
			m.Count("eab_short_mac_key", 1)
		} else if obj, err := jose.ParseSigned(string(pl.EAB), []jose.SignatureAlgorithm{jose.HS256}); err == nil {
			if p, err := obj.Verify(e.eab.Key); err == nil && bytes.Equal(p, in.PayloadBytes) {
				joseOK = true
			}
		}
		switch {
		case macOK && joseOK:
			m.Count("eab_verified", 1)
		case !macOK && !joseOK:
			m.Violation("eab:mac-does-not-verify", wit)
		default:
			m.Inconclusive(fmt.Sprintf("C49 oracle conflict on EAB MAC: hmac=%v go-jose=%v", macOK, joseOK))
		}
	}
	// --- key change (RFC 8555 §7.3.5) ---
	if e.rollover != nil {
		ie := c49exp{op: e.op, key: *e.rollover, form: "jwk", url: e.url, wrapper: e.wrapper, keyClass: e.keyClass,
			payload: map[string]any{"account": e.kid, "oldKey": e.key.jwk}}
		if in, ok := w.judgeJWS(f.PayloadBytes, ie, true, nil); in != nil && ok {
			m.Count("rollover_verified", 1)
		}
	}
}

// ---- sessions ----------------------------------------------------------------------------

type c49key struct {
	signer  crypto.Signer
	info    pubInfo
	class   string
	wrapper string
	force   *forceSigner
}

func (w *c49w) makeKey(kind string, r *mrand.Rand, wantForce bool) c49key {
	if kind == "rsa" {
		name := mrandPick(r, []string{"rsa2048a", "rsa2048b", "rsa2048c", "rsa2048d", "rsa3072a", "rsa2048e3", "rsa2048e17", "rsa2048e257", "rsa2048ebig", "rsa2047", "rsa2056", "rsa2049"})
		k := rsaKey(name)
		ck := c49key{signer: k, info: infoOf(&k.PublicKey), class: name, wrapper: "plain"}
		if r.IntN(3) == 0 {
			ck.signer, ck.wrapper = opaqueSigner{k}, "opaque"
		}
		return ck
	}
	class := mrandPick(r, ecClasses)
	if w.nextClass != "" {
		class, w.nextClass = w.nextClass, ""
	}
	k, _ := ecKeyClass(kind, class, r)
	ck := c49key{signer: k, info: infoOf(&k.PublicKey), class: class, wrapper: "plain"}
	switch {
	case wantForce:
		ck.force = newForceSigner(kind, k, r)
		ck.signer, ck.wrapper = ck.force, "force"
	case r.IntN(3) == 0:
		ck.signer, ck.wrapper = opaqueSigner{k}, "opaque"
	}
	return ck
}

func randASCII(r *mrand.Rand, n int, alphabet string) string {
	b := make([]byte, n)
	for i := range b {
		b[i] = alphabet[r.IntN(len(alphabet))]
	}
	return string(b)
}

func randText(r *mrand.Rand) string {
	return mrandPick(r, []string{"plain", "with \"quotes\" and \\backslash", "tab\tnl\n", "<html>&amp;", "ünïcödé ✓ 日本", " sep", "emoji 😀", ""}) + randASCII(r, r.IntN(6), "abcxyz019")
}

func (w *c49w) sessions() {
	m := w.m
	ctx := context.Background()
	m.Cases("session", m.N(336, 2400), func(i int64, r *mrand.Rand) {
		var kind string
		force := false
		nOps := 42
		switch i % 8 {
		case 0, 3:
			kind = "p256"
		case 1, 4:
			kind = "p384"
		case 2, 5:
			kind = "p521"
		case 6:
			kind, nOps = "rsa", 16
		default:
			kind, force, nOps = []string{"p256", "p384", "p521"}[(i/8)%3], true, 10
		}
		reseed(w.t, fmt.Sprintf("c49|%d", i))
		// the account key's coordinate class and whether the session registers are functions of the
		// index, so that every (curve, class) pair sends its JWK in every run
		w.nextClass = ecClasses[(i/8)%6]
		if kind == "rsa" {
			w.nextClass = ""
		}
		key := w.makeKey(kind, r, force)
		// transport
		var ca *fakeCA
		var hc *http.Client
		transport := "mem"
		if i%16 == 9 || i%16 == 6 {
			transport = "tcp"
			ca = newFakeCA("", r)
			srv := httptest.NewServer(ca)
			defer srv.Close()
			ca.mu.Lock()
			ca.base = srv.URL
			ca.acctURL = srv.URL + "/acct/77" + ca.suffix
			if ca.terms != "" {
				ca.terms = srv.URL + "/terms"
			}
			ca.mu.Unlock()
			hc = srv.Client()
		} else {
			ca = newFakeCA("https://"+mrandPick(r, []string{"ca.example", "acme-v02.api.test:14000", "xn--bcher-kva.example"}), r)
			hc = &http.Client{Transport: memTransport{ca}}
		}
		cl := &acme.Client{Key: key.signer, DirectoryURL: ca.base + "/dir", HTTPClient: hc, UserAgent: "verif-c49",
			RetryBackoff: func(int, *http.Request, *http.Response) time.Duration { return -1 }}
		kid := ca.acctURL
		base := c49exp{key: key.info, wrapper: key.wrapper, keyClass: key.class, transport: transport}
		exp := func(op, form, url string) c49exp {
			e := base
			e.op, e.form, e.url, e.kid = op, form, url, kid
			return e
		}
		fail := func(op string, err error) {
			m.Violation("client:operation-fails:"+op, map[string]any{"key": key.info.kind, "class": key.class, "wrapper": key.wrapper, "err": fmt.Sprint(err)})
		}
		shapeIdx := 0 // advances with every signature the forcing signer made
		// settle: judge what the server recorded for the operation just made
		settle := func(op string, e c49exp) {
			recs := ca.take()
			var forced []forcedSig
			if key.force != nil {
				forced = key.force.take()
			}
			if len(recs) != 1 {
				m.Violation("client:unexpected-number-of-posts:"+op, map[string]any{"n": len(recs)})
				return
			}
			if key.force != nil && len(forced) == 1 && sameKey(e.key, key.info) {
				e.forced = &forced[0]
				shapeIdx++
			}
			w.judge(recs[0], e, ca)
		}
		if i < 4 {
			m.Sample(map[string]any{"key": key.info.kind, "class": key.class, "wrapper": key.wrapper, "transport": transport, "jwk": key.info.jwk})
		}
		newAcct := ca.base + "/new-acct" + ca.suffix
		// --- account: register (half with EAB) or preset KID ---
		presetKID := (i/48)%4 == 3
		if presetKID {
			if _, err := cl.Discover(ctx); err != nil {
				fail("Discover", err)
				return
			}
			kid = mrandPick(r, []string{ca.acctURL, "https://other.example/acct/1?x=\"q\"&y=<z>", "urn:kid:" + randText(r), "k"})
			cl.KID = acme.KeyID(kid)
		} else {
			acct := &acme.Account{}
			var wantPayload = map[string]any{}
			if n := r.IntN(3); n > 0 {
				for k := 0; k < n; k++ {
					acct.Contact = append(acct.Contact, "mailto:"+randText(r)+"@example.org")
				}
				wantPayload["contact"] = acct.Contact
			}
			if ca.terms != "" {
				wantPayload["termsOfServiceAgreed"] = true
			}
			e := exp("Register", "jwk", newAcct)
			if r.IntN(2) == 0 {
				acct.ExternalAccountBinding = &acme.ExternalAccountBinding{KID: "eab-" + randText(r), Key: mon.Bytes(r, mrandPick(r, []int{1, 16, 32, 64, 65, 200}))}
				e.eab = acct.ExternalAccountBinding
				e.op = "Register+EAB"
				e.payload = nil // compared member-wise below (it contains the binding object)
			} else {
				e.payload = wantPayload
			}
			if key.force != nil {
				key.force.setShape("normal")
			}
			if _, err := cl.Register(ctx, acct, acme.AcceptTOS); err != nil {
				fail("Register", err)
				return
			}
			settle("Register", e)
			if r.IntN(3) == 0 {
				cl.KID = "" // forget: the client has to look the account up again (newAccount, onlyReturnExisting, jwk form)
				if _, err := cl.GetReg(ctx, ""); err != nil {
					fail("GetReg", err)
					return
				}
				e := exp("GetReg", "jwk", newAcct)
				e.payload = map[string]any{"onlyReturnExisting": true}
				settle("GetReg", e)
				cl.KID = acme.KeyID(kid)
			}
		}
		shapes := []string{"r1", "s1", "r2", "normal", "r1", "s1", "r2", "r1", "s1", "r2"}
		if (kind == "p256" && (i/24)%2 == 0) || (kind == "p384" && m.Thorough() && (i/24)%8 == 0) {
			shapes[3] = "s2" // ~65 000 point additions per signature: rationed
		}
		rolled := false
		shapeIdx = 0
		for op := 0; op < nOps; op++ {
			if key.force != nil {
				key.force.setShape(shapes[shapeIdx%len(shapes)])
			}
			resURL := func(kind string) string {
				return ca.base + "/" + kind + "/" + randASCII(r, 1+r.IntN(12), "abcdefXYZ0123456789-_~.") + mrandPick(r, []string{"", "?a=1&b=<2>", "?q=%22x%22", "?v=%C3%A9&w='s'"})
			}
			choice := r.IntN(100)
			if force || kind == "rsa" {
				choice = r.IntN(130) // more of the rare operations in the short sessions
			}
			if op == nOps-1 && (force || kind == "rsa" || r.IntN(4) == 0) {
				choice = 120 // end the session with a key change (if applicable)
			}
			// operations that are not applicable become a GetOrder, so every step signs exactly once
			if choice >= 86 && choice < 92 && kid != ca.acctURL { // a made-up key ID is not a URL one can POST to
				choice = 0
			}
			if choice >= 115 && (rolled || kid != ca.acctURL) {
				choice = 0
			}
			if force && op < 7 && choice >= 100 { // the first seven steps of a forcing session are signed by the forcing signer
				choice = 0
			}
			switch {
			case choice < 35:
				u := resURL("order")
				if _, err := cl.GetOrder(ctx, u); err != nil {
					fail("GetOrder", err)
					return
				}
				e := exp("GetOrder", "kid", u)
				e.postAsGet = true
				settle("GetOrder", e)
			case choice < 55:
				u := resURL("authz")
				if _, err := cl.GetAuthorization(ctx, u); err != nil {
					fail("GetAuthorization", err)
					return
				}
				e := exp("GetAuthorization", "kid", u)
				e.postAsGet = true
				settle("GetAuthorization", e)
			case choice < 65:
				u := resURL("chal")
				if _, err := cl.GetChallenge(ctx, u); err != nil {
					fail("GetChallenge", err)
					return
				}
				e := exp("GetChallenge", "kid", u)
				e.postAsGet = true
				settle("GetChallenge", e)
			case choice < 78:
				var ids []acme.AuthzID
				var wantIDs []map[string]any
				for k := 0; k < 1+r.IntN(3); k++ {
					id := acme.AuthzID{Type: mrandPick(r, []string{"dns", "ip"}), Value: randText(r) + ".example"}
					ids = append(ids, id)
					wantIDs = append(wantIDs, map[string]any{"type": id.Type, "value": id.Value})
				}
				want := map[string]any{"identifiers": wantIDs}
				var opts []acme.OrderOption
				if r.IntN(3) == 0 {
					nb := time.Unix(1700000000+int64(r.IntN(1e8)), 0).UTC()
					opts = append(opts, acme.WithOrderNotBefore(nb))
					want["notBefore"] = nb.Format(time.RFC3339)
				}
				if r.IntN(3) == 0 {
					na := time.Unix(1800000000+int64(r.IntN(1e8)), 0).In(time.FixedZone("x", 3600))
					opts = append(opts, acme.WithOrderNotAfter(na))
					want["notAfter"] = na.Format(time.RFC3339)
				}
				if _, err := cl.AuthorizeOrder(ctx, ids, opts...); err != nil {
					fail("AuthorizeOrder", err)
					return
				}
				e := exp("AuthorizeOrder", "kid", ca.base+"/new-order"+ca.suffix)
				e.payload = want
				settle("AuthorizeOrder", e)
			case choice < 86:
				u := resURL("chal")
				ch := &acme.Challenge{URI: u, Type: "http-01", Token: "tok"}
				want := any(map[string]any{})
				if r.IntN(3) == 0 {
					ch.Payload = json.RawMessage(`{"x":["` + randASCII(r, 5, "abc") + `",1,true]}`)
					var v any
					json.Unmarshal(ch.Payload, &v)
					want = v
				}
				if _, err := cl.Accept(ctx, ch); err != nil {
					fail("Accept", err)
					return
				}
				e := exp("Accept", "kid", u)
				e.payload = want
				settle("Accept", e)
			case choice < 92:
				if kid != ca.acctURL {
					continue // a made-up key ID is not a URL one can POST to
				}
				a := &acme.Account{Contact: []string{"mailto:" + randText(r) + "@example.net"}}
				if _, err := cl.UpdateReg(ctx, a); err != nil {
					fail("UpdateReg", err)
					return
				}
				e := exp("UpdateReg", "kid", kid)
				e.payload = map[string]any{"contact": a.Contact}
				settle("UpdateReg", e)
			case choice < 100:
				der := mon.Bytes(r, 100+r.IntN(900))
				reason := acme.CRLReasonCode(r.IntN(11))
				if err := cl.RevokeCert(ctx, nil, der, reason); err != nil {
					fail("RevokeCert(account)", err)
					return
				}
				e := exp("RevokeCert(account-key)", "kid", ca.base+"/revoke-cert"+ca.suffix)
				e.payload = map[string]any{"certificate": jwsref.B64(der), "reason": int(reason)}
				settle("RevokeCert(account)", e)
			case choice < 115:
				// revocation authenticated by the certificate's key: jwk form with THAT key
				ck := w.makeKey(mrandPick(r, []string{"p256", "p384", "p521", "rsa"}), r, false)
				der := mon.Bytes(r, 100+r.IntN(900))
				reason := acme.CRLReasonCode(r.IntN(11))
				if err := cl.RevokeCert(ctx, ck.signer, der, reason); err != nil {
					fail("RevokeCert(cert-key)", err)
					return
				}
				e := exp("RevokeCert(cert-key)", "jwk", ca.base+"/revoke-cert"+ca.suffix)
				e.key, e.keyClass, e.wrapper = ck.info, ck.class, ck.wrapper
				e.payload = map[string]any{"certificate": jwsref.B64(der), "reason": int(reason)}
				settle("RevokeCert(cert-key)", e)
			default:
				if rolled || presetKID && kid != ca.acctURL {
					continue
				}
				nk := w.makeKey(mrandPick(r, []string{"p256", "p384", "p521", "rsa"}), r, false)
				if err := cl.AccountKeyRollover(ctx, nk.signer); err != nil {
					fail("AccountKeyRollover", err)
					return
				}
				e := exp("AccountKeyRollover", "kid", ca.base+"/key-change"+ca.suffix)
				e.rollover = &nk.info
				settle("AccountKeyRollover", e)
				// from now on the new key signs
				rolled = true
				key = nk
				base.key, base.keyClass, base.wrapper = nk.info, nk.class, nk.wrapper
			}
		}
		if r.IntN(4) == 0 && kid == ca.acctURL {
			if key.force != nil {
				key.force.setShape("normal")
			}
			if err := cl.DeactivateReg(ctx); err != nil {
				fail("DeactivateReg", err)
				return
			}
			e := exp("DeactivateReg", "kid", kid)
			e.payload = map[string]any{"status": "deactivated"}
			settle("DeactivateReg", e)
		}
		m.Count("sessions", 1)
		if key.force != nil {
			m.Count("force_search_iterations", int(key.force.iters))
		}
	})
}

func sameKey(a, b pubInfo) bool { return reflect.DeepEqual(a.jwk, b.jwk) }

// ---- thumbprints -----------------------------------------------------------------------------

func (w *c49w) thumbprints() {
	m := w.m
	m.Cases("thumb", m.N(320, 8000), func(i int64, r *mrand.Rand) {
		reseed(w.t, fmt.Sprintf("thumb|%d", i))
		kind := []string{"p256", "p384", "p521", "rsa"}[i%4]
		if kind != "rsa" {
			w.nextClass = ecClasses[(i/4)%6]
		}
		key := w.makeKey(kind, r, false)
		pub := key.info.pub
		got, err := acme.JWKThumbprint(pub)
		m.Eval()
		wit := map[string]any{"key": kind, "class": key.class, "jwk": key.info.jwk, "got": got}
		if err != nil {
			wit["err"] = err.Error()
			m.Violation("thumb:fails-on-supported-key:"+kind, wit)
			return
		}
		want := jwsref.Thumbprint(key.info.jwk)
		jk := jose.JSONWebKey{Key: pub}
		jt, jerr := jk.Thumbprint(crypto.SHA256)
		if jerr != nil || jwsref.B64(jt) != want {
			m.Inconclusive(fmt.Sprintf("C49 oracle conflict on thumbprint (%s %s): ref=%s go-jose=%s err=%v", kind, key.class, want, jwsref.B64(jt), jerr))
			return
		}
		m.Count("thumb_compared", 1)
		m.Count("thumb_class:"+kind+":"+key.class, 1)
		m.Distinct("thumb " + kind + " " + key.class)
		if got != want {
			wit["want"] = want
			m.Violation("thumb:not-rfc7638:"+kind, wit)
		}
		// derived values documented in terms of the thumbprint (RFC 8555 §8.1, §8.3, §8.4)
		cl := &acme.Client{Key: key.signer}
		tok := randASCII(r, 1+r.IntN(40), b64urlChars)
		if v, err := cl.HTTP01ChallengeResponse(tok); err != nil || v != tok+"."+want {
			wit["http01"] = v
			m.Violation("thumb:http-01-key-authorization", wit)
		}
		d := sha256.Sum256([]byte(tok + "." + want))
		if v, err := cl.DNS01ChallengeRecord(tok); err != nil || v != jwsref.B64(d[:]) {
			wit["dns01"] = v
			m.Violation("thumb:dns-01-record", wit)
		}
	})
	// keys the package documents as unsupported must be refused, not mis-encoded
	m.Each("unsupported", 3, func(i int64, r *mrand.Rand) {
		reseed(w.t, fmt.Sprintf("unsup|%d", i))
		var signer crypto.Signer
		var name string
		switch i {
		case 0:
			_, k, _ := ed25519.GenerateKey(rand.Reader)
			signer, name = k, "ed25519"
		case 1:
			k, _ := ecdsa.GenerateKey(elliptic.P224(), rand.Reader)
			signer, name = k, "p224"
		default:
			signer, name = nil, "nil"
		}
		ca := newFakeCA("https://ca.example", r)
		cl := &acme.Client{Key: signer, DirectoryURL: ca.base + "/dir", HTTPClient: &http.Client{Transport: memTransport{ca}},
			RetryBackoff: func(int, *http.Request, *http.Response) time.Duration { return -1 }}
		_, err := cl.Register(context.Background(), &acme.Account{}, acme.AcceptTOS)
		m.Eval()
		m.Count("unsupported_keys", 1)
		if err == nil || len(ca.take()) != 0 {
			m.Violation("client:signs-with-unsupported-key:"+name, map[string]any{"err": fmt.Sprint(err)})
		}
		if signer != nil && name == "ed25519" {
			if _, err := acme.JWKThumbprint(signer.Public()); err == nil {
				m.Violation("thumb:accepts-unsupported-key:"+name, nil)
			}
		}
	})
}

var _ = strings.Contains

package misc1

import (
	"bytes"
	"crypto"
	"crypto/x509"
	"fmt"
	"math/big"
	mrand "math/rand/v2"
	"os"
	"path/filepath"
	"regexp"
	"strings"
	"time"

	"golang.org/x/crypto/ocsp"
	"verif/ext"
	"verif/mon"
	"verif/ref/ocspref"
)

// ---- totality -------------------------------------------------------------------------

var derTags = []byte{0x30, 0x30, 0x30, 0x31, 0xa0, 0xa0, 0xa1, 0xa2, 0xa3, 0x02, 0x0a, 0x04, 0x03, 0x06, 0x18, 0x17, 0x05, 0x01, 0x80, 0x81, 0x82, 0x0c, 0x13, 0x16, 0x1e, 0x24, 0x23, 0x00, 0x1f, 0xbf}

func randPrimitive(r *mrand.Rand, tag byte) []byte {
	switch tag {
	case 0x02, 0x0a:
		switch r.IntN(4) {
		case 0:
			return nil
		case 1:
			return append([]byte{0x00}, mon.Bytes(r, r.IntN(4))...)
		case 2:
			return append([]byte{0xff}, mon.Bytes(r, r.IntN(4))...)
		}
		return mon.Bytes(r, 1+r.IntN(24))
	case 0x06:
		if r.IntN(2) == 0 {
			return mon.Pick(r, [][]byte{{0x2b, 0x06, 0x01, 0x05, 0x05, 0x07, 0x30, 0x01, 0x01}, {0x2b, 0x0e, 0x03, 0x02, 0x1a}, {0x60, 0x86, 0x48, 0x01, 0x65, 0x03, 0x04, 0x02, 0x01}, {0x2a, 0x86, 0x48, 0x86, 0xf7, 0x0d, 0x01, 0x01, 0x0b}, {0x2a, 0x86, 0x48, 0xce, 0x3d, 0x04, 0x03, 0x02}})
		}
		return mon.Bytes(r, r.IntN(12))
	case 0x18:
		return []byte(mon.Pick(r, []string{"20240229235959Z", "20240229235959", "2024022923595Z", "20240229235959.5Z", "20240229235959+0100", "99991231235959Z", "00000101000000Z", "20241301000000Z", "", "2024"}))
	case 0x17:
		return []byte(mon.Pick(r, []string{"240229235959Z", "2402292359Z", "490101000000Z", "500101000000Z", ""}))
	case 0x03:
		if r.IntN(3) == 0 {
			return nil
		}
		return append([]byte{byte(r.IntN(10))}, mon.Bytes(r, r.IntN(40))...)
	case 0x01:
		return mon.Bytes(r, r.IntN(3))
	case 0x05, 0x80, 0x82:
		if r.IntN(3) > 0 {
			return nil
		}
	}
	return mon.Bytes(r, r.IntN(30))
}

func randLen(r *mrand.Rand, n int) []byte {
	switch r.IntN(24) {
	case 0:
		return []byte{0x80} // indefinite
	case 1:
		return []byte{0x81, byte(n)} // possibly non-minimal
	case 2:
		return []byte{0x82, byte(n >> 8), byte(n)}
	case 3:
		return []byte{0x84, 0xff, 0xff, 0xff, 0xff}
	case 4:
		return []byte{0x88, 0x7f, 0xff, 0xff, 0xff, 0xff, 0xff, 0xff, 0xff}
	case 5:
		return []byte{byte(n + 1 + r.IntN(3))} // claims more than there is
	case 6:
		return []byte{0xff}
	}
	switch {
	case n < 0x80:
		return []byte{byte(n)}
	case n < 0x100:
		return []byte{0x81, byte(n)}
	}
	return []byte{0x82, byte(n >> 8), byte(n)}
}

func randDER(r *mrand.Rand, depth int) []byte {
	tag := mon.Pick(r, derTags)
	var content []byte
	if tag&0x20 != 0 && depth < 7 {
		n := r.IntN(5)
		for k := 0; k < n; k++ {
			content = append(content, randDER(r, depth+1)...)
		}
	} else {
		content = randPrimitive(r, tag)
	}
	out := []byte{tag}
	out = append(out, randLen(r, len(content))...)
	return append(out, content...)
}

// ocspShaped wraps random/hostile material at the positions the parsers look at.
func ocspShaped(r *mrand.Rand) []byte {
	status := ocspref.Enum(int64(mon.Pick(r, []int{0, 0, 0, 1, 2, 3, 5, 6, 4, 7, -1, 256})))
	var basic []byte
	switch r.IntN(4) {
	case 0:
		basic = randDER(r, 0)
	case 1:
		basic = ocspref.Seq(randDER(r, 1), randDER(r, 1), randDER(r, 1))
	default:
		tbs := ocspref.Seq(ocspref.Ctx(1+r.IntN(2), randDER(r, 2)), ocspref.GenTimeTLV("20300101000000Z"), ocspref.Seq(randDER(r, 2), randDER(r, 2)))
		parts := [][]byte{tbs, ocspref.AlgID([]int{1, 2, 840, 113549, 1, 1, 11}, true), ocspref.BitString(mon.Bytes(r, r.IntN(64)))}
		if r.IntN(2) == 0 {
			parts = append(parts, ocspref.Ctx(0, ocspref.Seq(randDER(r, 2))))
		}
		basic = ocspref.Seq(parts...)
	}
	oid := ocspref.OID([]int{1, 3, 6, 1, 5, 5, 7, 48, 1, 1})
	if r.IntN(8) == 0 {
		oid = ocspref.OID([]int{1, 3, 6, 1, 5, 5, 7, 48, 1, 2})
	}
	out := ocspref.Seq(status, ocspref.Ctx(0, ocspref.Seq(oid, ocspref.Octets(basic))))
	if r.IntN(8) == 0 {
		out = append(out, mon.Bytes(r, 1+r.IntN(4))...)
	}
	return out
}

func corrupt(r *mrand.Rand, in []byte) []byte {
	out := append([]byte{}, in...)
	switch r.IntN(6) {
	case 0: // truncate
		out = out[:r.IntN(len(out)+1)]
	case 1: // splice a random TLV somewhere
		p := r.IntN(len(out) + 1)
		out = append(out[:p:p], append(randDER(r, 3), out[p:]...)...)
	case 2: // delete a run
		p := r.IntN(len(out))
		q := p + r.IntN(min(40, len(out)-p)+1)
		out = append(out[:p:p], out[q:]...)
	case 3: // duplicate a run
		p := r.IntN(len(out))
		q := p + r.IntN(min(60, len(out)-p)+1)
		out = append(out[:q:q], append(append([]byte{}, out[p:q]...), out[q:]...)...)
	default: // a few byte hits
		n := 1 + r.IntN(6)
		for k := 0; k < n && len(out) > 0; k++ {
			out[r.IntN(len(out))] = byte(r.Uint32())
		}
	}
	return out
}

func (w *c48w) totality() {
	m := w.m
	p := getPKI(w.t, "p256", "rsa", false)
	reseed(w.t, "totality-bases")
	br := m.Rand("totality-bases", 0)
	var bases [][]byte
	for k := 0; k < 6; k++ {
		signer, responder := p.issuer.key, p.issuer
		var certs []*certInfo
		if k%2 == 1 {
			signer, responder, certs = p.delegate.key, p.delegate, []*certInfo{p.delegate}
		}
		s, _ := genSerial(br)
		this, _ := genTimeOK(br)
		reason := int64(4)
		bases = append(bases, buildResponse(p.issuer.cert, &issuerHashes[k%4], k%3 == 0, responder.cert, this,
			[]builtSingle{{serial: s, status: k % 3, revoked: this, reason: &reason, this: this, next: &this, exts: []ocspref.BExt{{OID: []int{2, 5, 29, 21}, Value: []byte{10, 1, 1}}}}, {serial: big.NewInt(7), status: 0, this: this}}[:1+k%2],
			nil, signer, sigAlgByAlg(defaultAlg(signer.kind)), certs))
	}
	reqBase, _ := ocsp.CreateRequest(p.leaf.cert, p.issuer.cert, nil)
	m.Cases("totality", m.N(6000, 200000), func(i int64, r *mrand.Rand) {
		var in []byte
		var cls string
		switch i % 6 {
		case 0:
			in, cls = randDER(r, 0), "random-der"
		case 1:
			in, cls = ocspShaped(r), "ocsp-shaped"
		case 2, 3:
			in, cls = corrupt(r, mon.Pick(r, bases)), "corrupted-response"
		case 4:
			in, cls = corrupt(r, reqBase), "corrupted-request"
		default:
			in, cls = mon.Bytes(r, r.IntN(200)), "random-bytes"
		}
		wit := map[string]any{"class": cls, "input": mon.FullHex(in)}
		entry := []struct {
			name string
			fn   func()
		}{
			{"ParseResponse(nil)", func() { ocsp.ParseResponse(in, nil) }},
			{"ParseResponse(issuer)", func() { ocsp.ParseResponse(in, p.issuer.cert) }},
			{"ParseResponseForCert(leaf,issuer)", func() { ocsp.ParseResponseForCert(in, p.leaf.cert, p.issuer.cert) }},
			{"ParseRequest", func() { ocsp.ParseRequest(in) }},
		}
		for _, e := range entry {
			pv, stack := mon.Panics(e.fn)
			m.Eval()
			if pv != nil {
				wit["panic"], wit["entry"] = fmt.Sprint(pv), e.name
				m.Violation("totality:panic:"+e.name+":"+mon.PanicSite(stack), wit)
			}
		}
		m.Count("total_inputs", 1)
		m.Count("total_class:"+cls, 1)
		// a corrupted signed response that is still accepted with the issuer must still carry the issuer's signature
		if cls == "corrupted-response" {
			if got, err := ocsp.ParseResponse(in, p.issuer.cert); err == nil {
				m.Count("total_corrupted_accepted", 1)
				ok := false
				if ref, rerr := ocspref.Parse(in); rerr == nil && ref.HasBasic {
					ok = verifyRaw(p.issuer.cert.PublicKey, ref.SigAlgOID, ref.TBSBytes(), ref.SigBytes) ||
						(len(ref.Certs) > 0 && verifyRaw(p.delegate.cert.PublicKey, ref.SigAlgOID, ref.TBSBytes(), ref.SigBytes))
				} else {
					// not DER any more for the walker: compare against what Go says it verified
					ok = verifyRaw(p.issuer.cert.PublicKey, oidOfAlg(got.SignatureAlgorithm), got.TBSResponseData, got.Signature) ||
						(got.Certificate != nil && verifyRaw(p.delegate.cert.PublicKey, oidOfAlg(got.SignatureAlgorithm), got.TBSResponseData, got.Signature))
				}
				if !ok {
					m.Violation("totality:corrupted-response-accepted-without-valid-signature", wit)
				}
			}
		}
		m.Distinct("total " + cls)
	})
}

func oidOfAlg(a x509.SignatureAlgorithm) string {
	if i := sigAlgByAlg(a); i != nil {
		return i.oidS
	}
	return ""
}

// ---- request --------------------------------------------------------------------------

func (w *c48w) request() {
	m := w.m
	m.Cases("request", m.N(240, 6000), func(i int64, r *mrand.Rand) {
		kind := c48Kinds[int(i)%4]
		p := getPKI(w.t, kind, kind, (i/4)%2 == 1)
		serial, scls := genSerial(r)
		if i%2 == 0 {
			// through CreateRequest
			var opts *ocsp.RequestOptions
			wantHash := crypto.SHA1
			hcls := "nil-opts"
			expectErr := false
			switch r.IntN(7) {
			case 0:
			case 1:
				opts, hcls = &ocsp.RequestOptions{}, "zero-hash"
			case 2:
				h := mon.Pick(r, []crypto.Hash{crypto.MD5, crypto.SHA224, crypto.SHA3_256, crypto.Hash(77)})
				opts, hcls, expectErr = &ocsp.RequestOptions{Hash: h}, "unsupported", true
			default:
				hi := issuerHashes[r.IntN(4)]
				opts, hcls, wantHash = &ocsp.RequestOptions{Hash: hi.h}, hi.name, hi.h
			}
			cert := &x509.Certificate{SerialNumber: serial}
			der, err := ocsp.CreateRequest(cert, p.issuer.cert, opts)
			m.Eval()
			wit := map[string]any{"serial": serial.Text(16), "hash": hcls, "pki": p.name, "der": mon.FullHex(der), "err": fmt.Sprint(err)}
			if expectErr {
				m.Count("req_unsupported_hash", 1)
				if err == nil {
					m.Violation("request:create-accepts-unsupported-hash", wit)
				}
				return
			}
			if err != nil {
				m.Violation("request:create-fails", wit)
				return
			}
			got, err := ocsp.ParseRequest(der)
			if err != nil {
				wit["err"] = err.Error()
				m.Violation("request:parse-rejects-created-request", wit)
				return
			}
			nh, kh := issuerHashesOf(p.issuer.cert, wantHash)
			m.Count("req_compared", 1)
			m.Distinct("req create " + hcls + " " + scls + " " + kind)
			if got.HashAlgorithm != wantHash || got.SerialNumber.Cmp(serial) != 0 || !bytes.Equal(got.IssuerNameHash, nh) || !bytes.Equal(got.IssuerKeyHash, kh) {
				wit["got"] = fmt.Sprintf("%v %x %x %x", got.HashAlgorithm, got.SerialNumber, got.IssuerNameHash, got.IssuerKeyHash)
				m.Violation("request:roundtrip-field-mismatch", wit)
			}
			ref, rerr := ocspref.ParseRequest(der)
			if rerr != nil {
				wit["walker"] = rerr.Error()
				m.Violation("request:create-emits-non-der-request", wit)
			} else if ref.HashOID != hashInfoFor(wantHash).oidS || ref.Serial.Cmp(serial) != 0 || !bytes.Equal(ref.NameHash, nh) || !bytes.Equal(ref.KeyHash, kh) || ref.N != 1 {
				wit["walker"] = fmt.Sprintf("%+v", ref)
				m.Violation("request:created-der-carries-wrong-fields", wit)
			}
			if serial.BitLen() > 64 {
				m.Count("req_serial_gt64", 1)
			}
			return
		}
		// Request.Marshal → ParseRequest with arbitrary hash strings
		hi := issuerHashes[r.IntN(4)]
		req := &ocsp.Request{HashAlgorithm: hi.h, IssuerNameHash: mon.Bytes(r, mon.Pick(r, []int{0, 1, 20, 32, 48, 64, 127, 128, 200})), IssuerKeyHash: mon.Bytes(r, mon.Pick(r, []int{0, 1, 20, 32, 48, 64, 300})), SerialNumber: serial}
		der, err := req.Marshal()
		m.Eval()
		wit := map[string]any{"serial": serial.Text(16), "hash": hi.name, "der": mon.FullHex(der), "err": fmt.Sprint(err)}
		if err != nil {
			m.Violation("request:marshal-fails", wit)
			return
		}
		got, err := ocsp.ParseRequest(der)
		if err != nil {
			wit["err"] = err.Error()
			m.Violation("request:parse-rejects-marshaled-request", wit)
			return
		}
		m.Count("req_compared", 1)
		m.Distinct("req marshal " + hi.name + " " + scls)
		if got.HashAlgorithm != req.HashAlgorithm || got.SerialNumber.Cmp(serial) != 0 || !bytes.Equal(got.IssuerNameHash, req.IssuerNameHash) || !bytes.Equal(got.IssuerKeyHash, req.IssuerKeyHash) {
			m.Violation("request:marshal-roundtrip-field-mismatch", wit)
		}
		if ref, rerr := ocspref.ParseRequest(der); rerr != nil || ref.Serial.Cmp(serial) != 0 || !bytes.Equal(ref.NameHash, req.IssuerNameHash) || !bytes.Equal(ref.KeyHash, req.IssuerKeyHash) || ref.HashOID != hi.oidS {
			wit["walker"] = fmt.Sprint(rerr)
			m.Violation("request:marshaled-der-carries-wrong-fields", wit)
		}
	})
}

// ---- OpenSSL witness --------------------------------------------------------------------

var (
	reSerial  = regexp.MustCompile(`Serial Number: ([0-9A-Fa-f]+)`)
	reStatus  = regexp.MustCompile(`Cert Status: (\w+)`)
	reThis    = regexp.MustCompile(`This Update: (.+)`)
	reNext    = regexp.MustCompile(`Next Update: (.+)`)
	reRevTime = regexp.MustCompile(`Revocation Time: (.+)`)
	reReason  = regexp.MustCompile(`Revocation Reason: [^\n]*\(0x([0-9a-fA-F]+)\)`) // name may be "(UNKNOWN)" for codes OpenSSL has no string for
	reProd    = regexp.MustCompile(`Produced At: (.+)`)
)

func osslTime(s string) (time.Time, error) {
	return time.Parse("Jan _2 15:04:05 2006 MST", strings.TrimSpace(s))
}

var osslReasons = map[int]string{1: "keyCompromise", 2: "CACompromise", 3: "affiliationChanged", 4: "superseded", 5: "cessationOfOperation", 6: "certificateHold"}

func (w *c48w) ossl() {
	m := w.m
	if _, _, err := ext.Run(nil, nil, "openssl", "version"); err != nil {
		m.Note("openssl witness unavailable: " + err.Error())
		return
	}
	dir, err := ext.TempDir("misc1-c48-")
	if err != nil {
		m.Note("no scratch dir for the openssl witness: " + err.Error())
		return
	}
	defer os.RemoveAll(dir)
	write := func(name string, b []byte) string {
		p := filepath.Join(dir, name)
		os.WriteFile(p, b, 0o600)
		return p
	}
	// --- Go creates, OpenSSL verifies and prints ---
	m.Cases("ossl-verify", m.N(24, 600), func(i int64, r *mrand.Rand) {
		issuerKind := c48Kinds[int(i)%4]
		delegKind := c48Kinds[int(i/4)%4]
		useDelegate := (i/2)%2 == 1
		p := getPKI(w.t, issuerKind, delegKind, false)
		reseed(w.t, fmt.Sprintf("osslv|%d", i))
		signer, responder := p.issuer.key, p.issuer
		if useDelegate {
			signer, responder = p.delegate.key, p.delegate
		}
		alg := mon.Pick(r, algsFor(signer.kind)[1:])
		serial, scls := genSerial(r)
		if serial.Sign() < 0 {
			serial.Neg(serial)
		}
		mk := func() time.Time {
			return time.Date(1971+r.IntN(120), time.Month(1+r.IntN(12)), 1+r.IntN(28), r.IntN(24), r.IntN(60), r.IntN(60), r.IntN(1e9), time.UTC)
		}
		tmpl := ocsp.Response{Status: int(i/3) % 3, SerialNumber: serial, ThisUpdate: mk(), SignatureAlgorithm: alg, IssuerHash: issuerHashes[r.IntN(4)].h}
		if r.IntN(3) > 0 {
			tmpl.NextUpdate = mk()
		}
		if tmpl.Status == ocsp.Revoked {
			tmpl.RevokedAt = mk()
			tmpl.RevocationReason = mon.Pick(r, docReasons)
		}
		if useDelegate {
			tmpl.Certificate = p.delegate.cert
		}
		der, err := w.create(time.Duration(i)*1013*time.Hour, p.issuer.cert, responder.cert, tmpl, signer.key)
		if err != nil {
			m.Violation("ossl-verify:create-fails", map[string]any{"err": err.Error()})
			return
		}
		tag := fmt.Sprintf("v%d", i)
		ca := write(tag+"-ca.pem", pemCert(p.issuer.cert))
		rp := write(tag+"-resp.der", der)
		args := []string{"ocsp", "-respin", rp, "-resp_text", "-CAfile", ca}
		if !useDelegate {
			args = append(args, "-VAfile", ca)
		}
		so, se, rerr := ext.Run(nil, nil, "openssl", args...)
		m.Eval()
		os.Remove(ca)
		os.Remove(rp)
		txt := strings.ReplaceAll(so+se, "\\\n", "") // OpenSSL wraps long integers with backslash-newline
		wit := map[string]any{"pki": p.name, "delegate": useDelegate, "alg": sigAlgByAlg(alg).name, "der": mon.FullHex(der), "openssl": txt}
		ref, perr := ocspref.Parse(der)
		selfOK := perr == nil && verifyRaw(signer.key.Public(), ref.SigAlgOID, ref.TBSBytes(), ref.SigBytes)
		verified := rerr == nil && strings.Contains(txt, "Response verify OK")
		if !verified && !strings.Contains(txt, "Response Verify Failure") && !strings.Contains(txt, "OCSP Response Data") {
			// the tool did not run to a verdict (fork failure under load …): the witness is simply absent for this case
			m.Count("ossl_tool_no_verdict", 1)
			return
		}
		switch {
		case verified && selfOK:
			m.Count("ossl_verified", 1)
		case !verified && !selfOK:
			m.Violation("ossl-verify:created-response-fails-verification", wit)
			return
		default:
			m.Inconclusive(fmt.Sprintf("ossl-verify case %d: openssl verified=%v, stdlib verified=%v", i, verified, selfOK))
			return
		}
		m.Distinct(fmt.Sprintf("osslv %s/%s delegate=%v %s st=%d %s", issuerKind, delegKind, useDelegate, sigAlgByAlg(alg).name, tmpl.Status, scls))
		// fields as OpenSSL prints them
		var bad []string
		want := map[int]string{ocsp.Good: "good", ocsp.Revoked: "revoked", ocsp.Unknown: "unknown"}[tmpl.Status]
		if x := reStatus.FindStringSubmatch(txt); x == nil || x[1] != want {
			bad = append(bad, "status")
		}
		if x := reSerial.FindStringSubmatch(txt); x == nil {
			bad = append(bad, "serial(missing)")
		} else if v, ok := new(big.Int).SetString(x[1], 16); !ok || v.Cmp(serial) != 0 {
			bad = append(bad, "serial")
		}
		chk := func(re *regexp.Regexp, name string, want time.Time, present bool) {
			x := re.FindStringSubmatch(txt)
			if !present {
				if x != nil {
					bad = append(bad, name+"(unexpected)")
				}
				return
			}
			if x == nil {
				bad = append(bad, name+"(missing)")
				return
			}
			t, err := osslTime(x[1])
			if err != nil || !t.Equal(want.Truncate(time.Second)) {
				bad = append(bad, name)
			}
		}
		chk(reThis, "thisUpdate", tmpl.ThisUpdate, true)
		chk(reNext, "nextUpdate", tmpl.NextUpdate, !tmpl.NextUpdate.IsZero())
		chk(reRevTime, "revocationTime", tmpl.RevokedAt, tmpl.Status == ocsp.Revoked)
		if tmpl.Status == ocsp.Revoked && tmpl.RevocationReason != 0 {
			if x := reReason.FindStringSubmatch(txt); x == nil {
				bad = append(bad, "reason(missing)")
			} else if v, ok := new(big.Int).SetString(x[1], 16); !ok || v.Int64() != int64(tmpl.RevocationReason) {
				bad = append(bad, "reason")
			}
		}
		if len(bad) > 0 {
			wit["fields"] = bad
			// the walker is the tie-breaker between Go's encoder and OpenSSL's printer
			s := ref.Singles[0]
			walkerAgreesWithTemplate := s.Status == tmpl.Status && s.Serial.Cmp(serial) == 0 && s.ThisUpdate.Equal(tmpl.ThisUpdate.Truncate(time.Second)) &&
				s.HasNext == !tmpl.NextUpdate.IsZero() && (!s.HasNext || s.NextUpdate.Equal(tmpl.NextUpdate.Truncate(time.Second))) &&
				(tmpl.Status != ocsp.Revoked || (s.RevokedAt.Equal(tmpl.RevokedAt.Truncate(time.Second)) && s.Reason == int64(tmpl.RevocationReason)))
			if walkerAgreesWithTemplate {
				// the response carries the template (independent walker); OpenSSL's text omits or renders a
				// field in a way this reader does not expect: an observation about the printer, not a verdict
				m.Count("ossl_text_not_understood", 1)
				m.Count("ossl_text_not_understood:"+bad[0], 1)
			} else {
				m.Violation("ossl-verify:created-response-carries-wrong-field:"+bad[0], wit)
			}
			return
		}
		m.Count("ossl_fields_agree", 1)
	})

	// --- OpenSSL creates (from a Go-created request), Go parses ---
	m.Cases("ossl-create", m.N(16, 400), func(i int64, r *mrand.Rand) {
		issuerKind := c48Kinds[int(i)%4]
		delegKind := c48Kinds[int(i/4)%4]
		p := getPKI(w.t, issuerKind, delegKind, false)
		mode := int(i/2) % 4 // 0 CA signs, embeds itself; 1 CA signs, no certs; 2 delegate signs (embedded); 3 CA signs, byKey, no certs
		status := int(i) % 3
		serial, scls := genSerial(r)
		if serial.Sign() <= 0 {
			serial = serial.Neg(serial).Add(serial, big.NewInt(1))
		}
		reqHash := mon.Pick(r, []hashInfo{issuerHashes[0], issuerHashes[0], issuerHashes[1]})
		reqDER, err := ocsp.CreateRequest(&x509.Certificate{SerialNumber: serial}, p.issuer.cert, &ocsp.RequestOptions{Hash: reqHash.h})
		if err != nil {
			m.Violation("ossl-create:request-fails", map[string]any{"err": err.Error()})
			return
		}
		tag := fmt.Sprintf("c%d", i)
		ca := write(tag+"-ca.pem", pemCert(p.issuer.cert))
		caKey := write(tag+"-ca.key", pemKey(p.issuer.key.key))
		rq := write(tag+"-req.der", reqDER)
		rp := filepath.Join(dir, tag+"-resp.der")
		hexSerial := strings.ToUpper(serial.Text(16))
		if len(hexSerial)%2 == 1 {
			hexSerial = "0" + hexSerial
		}
		revAt := time.Date(2001+r.IntN(20), time.Month(1+r.IntN(12)), 1+r.IntN(28), r.IntN(24), r.IntN(60), r.IntN(60), 0, time.UTC)
		reason := 1 + r.IntN(6)
		var idx string
		switch status {
		case ocsp.Good:
			idx = fmt.Sprintf("V\t491231235959Z\t\t%s\tunknown\t/CN=leaf\n", hexSerial)
		case ocsp.Revoked:
			idx = fmt.Sprintf("R\t491231235959Z\t%s,%s\t%s\tunknown\t/CN=leaf\n", revAt.Format("060102150405Z"), osslReasons[reason], hexSerial)
		default:
			idx = "V\t491231235959Z\t\t0123456789ABCDEF0123456789\tunknown\t/CN=someone-else\n"
		}
		ix := write(tag+"-index.txt", []byte(idx))
		md := mon.Pick(r, []string{"sha256", "sha384", "sha512", "sha1"})
		args := []string{"ocsp", "-index", ix, "-CA", ca, "-reqin", rq, "-respout", rp, "-rmd", md, "-ndays", fmt.Sprint(1 + r.IntN(30))}
		var dk, dc string
		switch mode {
		case 0:
			args = append(args, "-rsigner", ca, "-rkey", caKey)
		case 1:
			args = append(args, "-rsigner", ca, "-rkey", caKey, "-resp_no_certs")
		case 2:
			dc = write(tag+"-dg.pem", pemCert(p.delegate.cert))
			dk = write(tag+"-dg.key", pemKey(p.delegate.key.key))
			args = append(args, "-rsigner", dc, "-rkey", dk)
		case 3:
			args = append(args, "-rsigner", ca, "-rkey", caKey, "-resp_no_certs", "-resp_key_id")
		}
		so, se, rerr := ext.Run(nil, nil, "openssl", args...)
		der, ferr := os.ReadFile(rp)
		for _, f := range []string{ca, caKey, rq, rp, ix, dk, dc} {
			if f != "" {
				os.Remove(f)
			}
		}
		m.Eval()
		if rerr != nil || ferr != nil {
			m.Count("ossl_create_failed", 1)
			m.Note(fmt.Sprintf("ossl-create case %d: openssl responder failed (%v): %s", i, rerr, strings.TrimSpace(so+se)))
			return
		}
		wit := map[string]any{"pki": p.name, "mode": mode, "status": status, "serial": hexSerial, "rmd": md, "req_hash": reqHash.name, "der": mon.FullHex(der)}
		ref, perr := ocspref.Parse(der)
		if perr != nil || !ref.HasBasic || len(ref.Singles) != 1 {
			m.Inconclusive(fmt.Sprintf("ossl-create case %d: walker cannot read the OpenSSL response: %v", i, perr))
			return
		}
		s := ref.Singles[0]
		if s.Status != status || s.Serial.Cmp(serial) != 0 || (status == ocsp.Revoked && (!s.RevokedAt.Equal(revAt) || s.Reason != int64(reason))) {
			m.Inconclusive(fmt.Sprintf("ossl-create case %d: OpenSSL response does not carry the index entry per the walker", i))
			return
		}
		m.Distinct(fmt.Sprintf("osslc %s/%s mode=%d st=%d %s %s", issuerKind, delegKind, mode, status, md, scls))
		for _, v := range []struct {
			name   string
			cert   *x509.Certificate
			accept bool
		}{{"issuer", p.issuer.cert, true}, {"nil", nil, true}, {"wrong", p.wrong.cert, false}, {"same-name", p.sameName.cert, false}} {
			got, err := ocsp.ParseResponse(der, v.cert)
			m.Eval()
			wit["verify_with"], wit["err"] = v.name, fmt.Sprint(err)
			if !v.accept {
				m.Count("ossl_wrong_issuer_checked", 1)
				if err == nil {
					m.Violation("ossl-create:accepted-under-wrong-issuer:"+v.name, wit)
				}
				continue
			}
			if err != nil {
				if md == "sha1" {
					m.Count("ossl_sha1_rejected", 1)
					continue
				}
				m.Violation("ossl-create:rejects-openssl-response:verify="+v.name, wit)
				continue
			}
			m.Count("ossl_created_parsed", 1)
			if bad := cmpGoRef(got, ref, 0); len(bad) > 0 {
				wit["fields"] = bad
				m.Violation("ossl-create:field-mismatch:"+bad[0], wit)
			}
			if got.SerialNumber.BitLen() > 64 {
				m.Count("ossl_serial_gt64", 1)
			}
		}
	})
	m.Gate("ossl_verified", m.N(20, 500), "Go-created responses verified by OpenSSL")
	m.Gate("ossl_created_parsed", m.N(20, 500), "OpenSSL-created responses parsed by Go")
}

package misc1

// A minimal RFC 8555 server for C49. It does not judge anything: it answers
// every request plausibly, hands out nonces and RECORDS what the client sent
// (the observation point of the property). Written from RFC 8555 §7.1–7.6; no
// code shared with x/crypto/acme or its test helpers.

import (
	"encoding/base64"
	"encoding/json"
	"fmt"
	"io"
	mrand "math/rand/v2"
	"net/http"
	"net/http/httptest"
	"strings"
	"sync"
)

type caRecord struct {
	Method      string
	URL         string // absolute URL the client addressed
	ContentType string
	Body        []byte
}

type fakeCA struct {
	mu           sync.Mutex
	base         string // scheme://host as the client sees it
	rnd          *mrand.Rand
	recs         []caRecord
	issued       map[string]bool
	used         map[string]int
	reused       []string
	uniqueNonces bool
	nonceSeq     int
	acctURL      string
	terms        string
	eabNeeded    bool
	seq          int
	suffix       string // query string with JSON/HTML-hostile characters appended to resource URLs
}

func newFakeCA(base string, r *mrand.Rand) *fakeCA {
	ca := &fakeCA{base: base, rnd: r, issued: map[string]bool{}}
	if r.IntN(2) == 0 {
		ca.terms = base + "/terms?v=<2>&x=é"
	}
	ca.eabNeeded = r.IntN(2) == 0
	ca.suffix = mrandPick(r, []string{"", "?a=1&b=2", "?q=%3Cx%3E&z=%C3%A9", "?t='q'&u=a+b"})
	ca.acctURL = base + "/acct/" + fmt.Sprint(1000+r.IntN(9000)) + ca.suffix
	return ca
}

func mrandPick[T any](r *mrand.Rand, xs []T) T { return xs[r.IntN(len(xs))] }

const b64urlChars = "ABCDEFGHIJKLMNOPQRSTUVWXYZabcdefghijklmnopqrstuvwxyz0123456789-_"

func (ca *fakeCA) newNonce() string {
	n := mrandPick(ca.rnd, []int{1, 8, 16, 22, 43, 64, 120})
	b := make([]byte, n)
	for i := range b {
		b[i] = b64urlChars[ca.rnd.IntN(64)]
	}
	s := string(b)
	if ca.uniqueNonces {
		ca.nonceSeq++
		s = fmt.Sprintf("%d-%s", ca.nonceSeq, s) // never the same nonce twice: reuse can then only be the client's doing
	}
	ca.issued[s] = true
	return s
}

func (ca *fakeCA) url(path string) string { return ca.base + path }

func (ca *fakeCA) take() []caRecord {
	ca.mu.Lock()
	defer ca.mu.Unlock()
	r := ca.recs
	ca.recs = nil
	return r
}

func (ca *fakeCA) nonceIssued(n string) bool {
	ca.mu.Lock()
	defer ca.mu.Unlock()
	return ca.issued[n]
}

func (ca *fakeCA) ServeHTTP(w http.ResponseWriter, r *http.Request) {
	ca.mu.Lock()
	defer ca.mu.Unlock()
	abs := ca.base + r.URL.RequestURI()
	var body []byte
	if r.Body != nil {
		body, _ = io.ReadAll(r.Body)
	}
	w.Header().Set("Replay-Nonce", ca.newNonce())
	w.Header().Set("Cache-Control", "no-store")
	path := r.URL.Path
	if r.Method == "GET" && path == "/dir" {
		dir := map[string]any{
			"newNonce":   ca.url("/new-nonce"),
			"newAccount": ca.url("/new-acct" + ca.suffix),
			"newOrder":   ca.url("/new-order" + ca.suffix),
			"revokeCert": ca.url("/revoke-cert" + ca.suffix),
			"keyChange":  ca.url("/key-change" + ca.suffix),
		}
		meta := map[string]any{"externalAccountRequired": ca.eabNeeded}
		if ca.terms != "" {
			meta["termsOfService"] = ca.terms
		}
		dir["meta"] = meta
		w.Header().Set("Content-Type", "application/json")
		json.NewEncoder(w).Encode(dir)
		return
	}
	if path == "/new-nonce" {
		if r.Method == "HEAD" {
			w.WriteHeader(http.StatusOK)
		} else {
			w.WriteHeader(http.StatusNoContent)
		}
		return
	}
	if r.Method != "POST" {
		http.Error(w, "method", http.StatusMethodNotAllowed)
		return
	}
	ca.recs = append(ca.recs, caRecord{Method: r.Method, URL: abs, ContentType: r.Header.Get("Content-Type"), Body: body})
	// lenient peek at the payload, only to pick a plausible answer
	var env struct{ Payload, Protected string }
	json.Unmarshal(body, &env)
	payload, _ := base64.RawURLEncoding.DecodeString(env.Payload)
	// nonce ledger (RFC 8555 §6.5: a nonce is good for one request)
	if ph, err := base64.RawURLEncoding.DecodeString(env.Protected); err == nil {
		var h struct{ Nonce string }
		json.Unmarshal(ph, &h)
		if ca.used == nil {
			ca.used = map[string]int{}
		}
		ca.used[h.Nonce]++
		if ca.used[h.Nonce] > 1 {
			ca.reused = append(ca.reused, h.Nonce)
		}
	}
	w.Header().Set("Content-Type", "application/json")
	ca.seq++
	switch {
	case path == "/new-acct":
		w.Header().Set("Location", ca.acctURL)
		if strings.Contains(string(payload), "onlyReturnExisting") {
			w.WriteHeader(http.StatusOK)
		} else {
			w.WriteHeader(http.StatusCreated)
		}
		fmt.Fprintf(w, `{"status":"valid","contact":["mailto:a@example.org"],"orders":%q}`, ca.url("/orders/1"))
	case path == "/new-order":
		w.Header().Set("Location", ca.url(fmt.Sprintf("/order/%d%s", ca.seq, ca.suffix)))
		w.WriteHeader(http.StatusCreated)
		fmt.Fprintf(w, `{"status":"pending","identifiers":[{"type":"dns","value":"example.org"}],"authorizations":[%q],"finalize":%q}`,
			ca.url(fmt.Sprintf("/authz/%d", ca.seq)), ca.url(fmt.Sprintf("/finalize/%d", ca.seq)))
	case strings.HasPrefix(path, "/order/"):
		w.Header().Set("Location", abs)
		fmt.Fprintf(w, `{"status":"pending","identifiers":[{"type":"dns","value":"example.org"}],"authorizations":[%q],"finalize":%q}`, ca.url("/authz/1"), ca.url("/finalize/1"))
	case strings.HasPrefix(path, "/authz/"):
		fmt.Fprintf(w, `{"status":"pending","identifier":{"type":"dns","value":"example.org"},"challenges":[{"type":"http-01","url":%q,"token":"tok","status":"pending"}]}`, ca.url("/chal/1"))
	case strings.HasPrefix(path, "/chal/"):
		fmt.Fprintf(w, `{"type":"http-01","url":%q,"token":"tok","status":"pending"}`, abs)
	case strings.HasPrefix(path, "/acct/"):
		w.Header().Set("Location", ca.acctURL)
		fmt.Fprint(w, `{"status":"valid","contact":["mailto:b@example.org"]}`)
	default: // revoke-cert, key-change, anything else
		fmt.Fprint(w, `{}`)
	}
}

// memTransport hands requests to the handler without a socket.
type memTransport struct{ h http.Handler }

func (t memTransport) RoundTrip(req *http.Request) (*http.Response, error) {
	rr := httptest.NewRecorder()
	t.h.ServeHTTP(rr, req)
	res := rr.Result()
	res.Request = req
	return res, nil
}

package misc1

import (
	"bytes"
	"crypto"
	"crypto/x509"
	"crypto/x509/pkix"
	"encoding/asn1"
	"fmt"
	"math/big"
	mrand "math/rand/v2"
	"testing"
	"testing/synctest"
	"time"

	"golang.org/x/crypto/ocsp"
	"verif/mon"
	"verif/ref/ocspref"
)

// C48: OCSP responses round-trip and are accepted only when signed by the
// issuer (or an issuer-signed embedded certificate); signed bytes are bound;
// requests round-trip; parsers are total.
func TestC48(t *testing.T) {
	m := mon.New(t, "C48")
	defer m.Done()
	m.Rule("streams: conc = shared-value concurrency: 6 goroutines call ParseResponse/ParseResponseForCert/CheckSignatureFrom/ParseRequest/CreateRequest/CreateResponse at once on the same issuer certificates, response/request bytes and (yielding) signer, after a barrier, each in its own task order, half of the rounds under GOMAXPROCS(1); outcomes are compared after the join with a single-threaded run of the same calls (CreateResponse: walker + stdlib verification + template); also built with the race detector (variant verif,race runs only this stream); roundtrip =random ocsp.Response templates (status × reason × time classes × serial classes incl. >64-bit and leading 0x80/0xff × extensions × issuer hash × signature algorithm × responder = issuer|delegate × embedded cert) through CreateResponse → ParseResponse/ParseResponseForCert, compared with the template, with an independent DER walker (ref/ocspref) and with a stdlib signature check over the walker's tbs bytes; clock = CreateResponse inside a testing/synctest bubble at chosen instants (ProducedAt); binding = who-signed-what scenarios (issuer/delegate/attacker/other CA × embedded certificate lists × verifying certificate) produced by CreateResponse or by the walker's TLV builder, verdict from key identities known by construction; mutate = EVERY byte of base responses altered (xor 1, xor random, …) and re-parsed with the issuer, region of the byte from the walker; relabel = valid direct and delegated responses whose unsigned outer signatureAlgorithm is rewritten (lengths re-encoded) to each of 24 OIDs × 4 parameter forms (MD2/MD4/MD5/SHA-1/SHA-2 with RSA, RSASSA-PSS, DSA, ECDSA, Ed25519/Ed448, digest OIDs, unknown arcs), once with the original tbs and once with the tbs of another response (good instead of revoked): acceptance through ParseResponse/ParseResponseForCert/CheckSignatureFrom is a violation unless a stdlib verification under the STATED algorithm succeeds; multi =built multi-status responses through ParseResponseForCert; totality = random DER, spliced/truncated/mutated responses through all parsers; request = CreateRequest/Marshal → ParseRequest; ossl-* = OpenSSL verifies/prints Go-created responses and Go parses OpenSSL-created ones. Distinct key = stream + class tuple (key kind, alg, serial/time class, scenario, region); non-trivial = reached an oracle comparison")
	m.Assume("crypto/x509, crypto/rsa, crypto/ecdsa, encoding/asn1 (standard library) are trusted; ref/ocspref walker/builder is validated by its own tests (real-world response, OpenSSL accepts its output); key identities in the harness decide who signed what")
	w := &c48w{t: t, m: m}
	if mon.RaceBuild {
		// race-detector variant: only the shared-value concurrency stream (the detector costs 5-15x)
		w.concurrent()
		w.concGates()
		return
	}
	w.concurrent()
	w.concGates()
	w.roundtrip()
	w.clock()
	w.binding()
	w.mutate()
	w.relabel()
	w.multi()
	w.totality()
	w.request()
	w.ossl()
	m.Gate("rt_compared", m.N(500, 12000), "templates that went through create→parse→field comparison")
	m.Gate("rt_serial_gt64", m.N(150, 4000), "round trips with serials wider than 64 bits")
	m.Gate("rt_serial_hibit", m.N(150, 4000), "round trips with serials whose top content byte is ≥ 0x80")
	m.Gate("rt_revoked", m.N(150, 4000), "revoked templates compared (RevokedAt, reason)")
	m.Gate("rt_embedded_cert", m.N(200, 5000), "round trips with an embedded delegate certificate")
	m.Gate("rt_sig_checked", m.N(600, 15000), "created responses whose signature was verified over the walker's tbs bytes")
	m.Gate("clock_cases", m.N(20, 300), "ProducedAt observed under a fake clock")
	m.Gate("bind_must_reject", m.N(1500, 30000), "parses of responses not signed by the issuer or an issuer-signed embedded cert")
	m.Gate("bind_must_accept", m.N(300, 6000), "parses of properly signed responses")
	m.Gate("bind_forged_delegate", m.N(32, 640), "attacker-signed response embedding a certificate that names the issuer but is not signed by it")
	m.Gate("bind_wrong_issuer", m.N(150, 3000), "correctly signed responses checked against another CA")
	m.Gate("mut_signed_region", m.N(10000, 200000), "mutations inside tbsResponseData/signature/delegate cert tbs+signature")
	m.Gate("mut_bases_complete", m.N(8, 72), "base responses whose every byte was mutated")
	m.Gate("relabel_bases:direct", m.N(32, 800), "issuer-signed base responses put through the signatureAlgorithm relabelling table")
	m.Gate("relabel_bases:delegated", m.N(32, 800), "delegate-signed base responses put through the relabelling table")
	m.Gate("relabel_must_reject:forged", m.N(15000, 400000), "relabelled responses carrying a tbs the signature was not made for")
	m.Gate("relabel_must_reject:intact", m.N(15000, 400000), "relabelled responses whose stated algorithm is not the one used")
	m.Gate("relabel_weak_digest_cases", m.N(5000, 120000), "relabelling to MD2/MD5/SHA-1 algorithms")
	m.Gate("multi_cases", m.N(80, 2000), "multi-status responses")
	m.Gate("total_inputs", m.N(6000, 200000), "hostile inputs through the parsers")
	m.Gate("req_compared", m.N(180, 4500), "request round trips")
}

type c48w struct {
	t *testing.T
	m *mon.M
}

// ---- roundtrip ---------------------------------------------------------------------

func (w *c48w) roundtrip() {
	m := w.m
	m.Cases("roundtrip", m.N(1600, 40000), func(i int64, r *mrand.Rand) {
		issuerKind := c48Kinds[int(i)%4]
		delegKind := c48Kinds[int(i/4)%4]
		inter := (i/16)%3 == 2
		p := getPKI(w.t, issuerKind, delegKind, inter)
		reseed(w.t, fmt.Sprintf("rt|%d", i))

		// who responds
		useDelegate := (i/2)%2 == 1
		signer, responder := p.issuer.key, p.issuer
		if useDelegate {
			signer, responder = p.delegate.key, p.delegate
		}
		var tmpl ocsp.Response
		var cls []string
		expectErr := "" // non-empty: CreateResponse may (not must) fail
		parseEither := ""
		oddStatus := false

		// status
		switch r.IntN(10) {
		case 0, 1, 2:
			tmpl.Status = ocsp.Good
		case 3, 4, 5, 6:
			tmpl.Status = ocsp.Revoked
		case 7, 8:
			tmpl.Status = ocsp.Unknown
		default:
			tmpl.Status = mon.Pick(r, []int{ocsp.ServerFailed, 4, -1, 255})
			oddStatus = true
		}
		if i%5 == 0 {
			tmpl.Status = ocsp.Revoked
			oddStatus = false
		}
		cls = append(cls, fmt.Sprint("st", tmpl.Status))
		var serialCls string
		tmpl.SerialNumber, serialCls = genSerial(r)
		cls = append(cls, serialCls)
		var tcls string
		var ok bool
		tmpl.ThisUpdate, tcls, ok = genTime(r)
		if !ok {
			expectErr = "time-out-of-range"
		}
		cls = append(cls, tcls)
		hasNext := r.IntN(4) != 0
		if hasNext {
			tmpl.NextUpdate, _, ok = genTime(r)
			if !ok {
				expectErr = "time-out-of-range"
			}
		}
		if tmpl.Status == ocsp.Revoked || r.IntN(6) == 0 {
			var rc string
			tmpl.RevokedAt, rc, ok = genTime(r)
			if !ok && tmpl.Status == ocsp.Revoked {
				expectErr = "time-out-of-range"
			}
			if r.IntN(5) == 0 {
				tmpl.RevocationReason = mon.Pick(r, []int{7, 11, 127, 128, 255, 256, -1, 1<<31 - 1})
			} else {
				tmpl.RevocationReason = mon.Pick(r, docReasons)
			}
			if tmpl.Status == ocsp.Revoked {
				cls = append(cls, "rev:"+rc, fmt.Sprint("reason", tmpl.RevocationReason))
			}
		}
		tmpl.ExtraExtensions = genExts(r, true)
		for _, e := range tmpl.ExtraExtensions {
			if e.Critical {
				parseEither = "critical-extension"
			}
		}
		if r.IntN(3) == 0 {
			tmpl.Extensions = genExts(r, false) // documented as ignored when marshaling
		}
		tmpl.ProducedAt = time.Date(1999, 9, 9, 9, 9, 9, 9, time.UTC) // ignored: ProducedAt is "set to the current date"
		// issuer hash
		switch r.IntN(8) {
		case 0:
			tmpl.IssuerHash = 0
		case 1:
			tmpl.IssuerHash = mon.Pick(r, []crypto.Hash{crypto.MD5, crypto.SHA224, crypto.SHA512_256, crypto.SHA3_256, crypto.Hash(99)})
			expectErr = "unsupported-issuer-hash"
		default:
			tmpl.IssuerHash = issuerHashes[r.IntN(4)].h
		}
		cls = append(cls, fmt.Sprint("ih", int(tmpl.IssuerHash)))
		// signature algorithm
		wantAlg := defaultAlg(signer.kind)
		switch r.IntN(8) {
		case 0, 1:
		case 2:
			// algorithm of the other key family, or one no key can use
			other := "rsa"
			if signer.kind == "rsa" {
				other = "p256"
			}
			tmpl.SignatureAlgorithm = mon.Pick(r, append(algsFor(other), x509.MD2WithRSA, x509.DSAWithSHA1, x509.PureEd25519, x509.SHA256WithRSAPSS))
			expectErr = "sigalg-key-mismatch"
		case 3:
			if signer.kind == "rsa" {
				tmpl.SignatureAlgorithm = x509.MD5WithRSA
				wantAlg = x509.MD5WithRSA
				parseEither = "md5"
			}
		default:
			tmpl.SignatureAlgorithm = mon.Pick(r, algsFor(signer.kind))
			wantAlg = tmpl.SignatureAlgorithm
		}
		ai := sigAlgByAlg(wantAlg)
		if ai != nil && ai.hash == crypto.SHA1 {
			parseEither = orStr(parseEither, "sha1-signature")
		}
		cls = append(cls, signer.kind, fmt.Sprint("alg", int(tmpl.SignatureAlgorithm)))
		embed := useDelegate || r.IntN(3) == 0
		if embed {
			tmpl.Certificate = responder.cert
		}
		wit := map[string]any{"pki": p.name, "responder": responder.label, "status": tmpl.Status, "serial": tmpl.SerialNumber.Text(16),
			"thisUpdate": tmpl.ThisUpdate.Format(time.RFC3339Nano), "nextUpdate": tmpl.NextUpdate.Format(time.RFC3339Nano), "revokedAt": tmpl.RevokedAt.Format(time.RFC3339Nano),
			"reason": tmpl.RevocationReason, "issuerHash": int(tmpl.IssuerHash), "sigAlg": int(tmpl.SignatureAlgorithm), "embed": embed, "nExt": len(tmpl.ExtraExtensions)}
		if i < 3 {
			m.Sample(wit)
		}

		der, err := w.create(time.Duration(i%100000)*time.Hour, p.issuer.cert, responder.cert, tmpl, signer.key)
		m.Eval()
		if err != nil {
			m.Count("rt_create_errors", 1)
			if expectErr == "" {
				wit["err"] = err.Error()
				m.Violation("roundtrip:create-fails-on-valid-template", wit)
			} else {
				m.Count("rt_create_error:"+expectErr, 1)
				m.Distinct("rt create-error " + expectErr)
			}
			return
		}
		wit["der"] = mon.FullHex(der)
		if expectErr == "unsupported-issuer-hash" || expectErr == "sigalg-key-mismatch" {
			// CreateResponse produced something for parameters it cannot honour
			m.Violation("roundtrip:create-accepts-"+expectErr, wit)
			return
		}
		// independent reading of what was produced
		ref, rerr := ocspref.Parse(der)
		if rerr != nil || !ref.HasBasic || len(ref.Singles) != 1 {
			if expectErr != "" || oddStatus {
				m.Count("rt_unjudged:"+orStr(expectErr, "undocumented-status"), 1)
				return
			}
			wit["walker"] = fmt.Sprint(rerr)
			m.Violation("roundtrip:create-emits-non-der-response", wit)
			return
		}
		// signature must be over the DER of tbsResponseData as it stands in the response
		if ai != nil {
			m.Count("rt_sig_checked", 1)
			if ref.SigAlgOID != ai.oidS {
				wit["sigAlgOID"] = ref.SigAlgOID
				m.Violation("roundtrip:create-wrong-signature-algorithm-oid", wit)
			} else if !verifyRaw(signer.key.Public(), ref.SigAlgOID, ref.TBSBytes(), ref.SigBytes) {
				m.Violation("roundtrip:create-signature-not-over-tbs-bytes", wit)
			}
		}
		// CertID hashes: "The issuer cert is used to populate the IssuerNameHash and IssuerKeyHash fields"
		if hi := hashInfoFor(tmpl.IssuerHash); hi != nil {
			nh, kh := issuerHashesOf(p.issuer.cert, hi.h)
			s := ref.Singles[0]
			if s.HashOID != hi.oidS || !bytes.Equal(s.NameHash, nh) || !bytes.Equal(s.KeyHash, kh) {
				wit["certid"] = fmt.Sprintf("%s %x %x", s.HashOID, s.NameHash, s.KeyHash)
				m.Violation("roundtrip:create-wrong-certid-hashes", wit)
			}
		}
		var verifyWith *x509.Certificate
		vw := "nil"
		if r.IntN(4) != 0 {
			verifyWith, vw = p.issuer.cert, "issuer"
		}
		var forCert *x509.Certificate
		if r.IntN(2) == 0 {
			forCert = &x509.Certificate{SerialNumber: new(big.Int).Set(tmpl.SerialNumber)}
		}
		got, perr := ocsp.ParseResponseForCert(der, forCert, verifyWith)
		if perr != nil {
			wit["parse_err"] = perr.Error()
			if parseEither != "" || expectErr != "" || oddStatus {
				m.Count("rt_parse_rejects:"+orStr(orStr(parseEither, expectErr), "undocumented-status"), 1)
				return
			}
			if embed && !useDelegate && inter && verifyWith != nil {
				// documented consequence of "issuer will be used to verify the signature on the embedded
				// certificate": an issuer that is not self-signed cannot embed its own certificate
				m.Count("rt_obs_intermediate_issuer_embedding_itself_rejected", 1)
				return
			}
			m.Violation("roundtrip:parse-rejects-created-response:"+vw, wit)
			return
		}
		if expectErr != "" || oddStatus {
			// produced and parsed although the template is outside the documented domain: nothing to compare
			m.Count("rt_unjudged:"+orStr(expectErr, "undocumented-status"), 1)
			return
		}
		m.Count("rt_compared", 1)
		m.Distinct("rt " + fmt.Sprint(cls) + " verify=" + vw)
		var bad []string
		if got.Status != tmpl.Status {
			bad = append(bad, "Status")
		}
		if got.SerialNumber == nil || got.SerialNumber.Cmp(tmpl.SerialNumber) != 0 {
			bad = append(bad, "SerialNumber")
		}
		if !got.ThisUpdate.Equal(tmpl.ThisUpdate.Truncate(time.Second)) {
			bad = append(bad, "ThisUpdate")
		}
		// (a zero NextUpdate means "absent"; 0001-01-01T00:00:00Z is that same value)
		if !got.NextUpdate.Equal(tmpl.NextUpdate.Truncate(time.Second)) {
			bad = append(bad, "NextUpdate")
		}
		if tmpl.Status == ocsp.Revoked {
			m.Count("rt_revoked", 1)
			if !got.RevokedAt.Equal(tmpl.RevokedAt.Truncate(time.Second)) {
				bad = append(bad, "RevokedAt")
			}
			if got.RevocationReason != tmpl.RevocationReason {
				bad = append(bad, "RevocationReason")
			}
		}
		wantHash := tmpl.IssuerHash
		if wantHash == 0 {
			wantHash = crypto.SHA1
		}
		if got.IssuerHash != wantHash {
			bad = append(bad, "IssuerHash")
		}
		if got.SignatureAlgorithm != wantAlg {
			bad = append(bad, "SignatureAlgorithm")
		}
		if !bytes.Equal(got.RawResponderName, responder.cert.RawSubject) || len(got.ResponderKeyHash) != 0 {
			bad = append(bad, "ResponderID")
		}
		if embed {
			m.Count("rt_embedded_cert", 1)
			if got.Certificate == nil || !bytes.Equal(got.Certificate.Raw, responder.cert.Raw) {
				bad = append(bad, "Certificate")
			}
		} else if got.Certificate != nil {
			bad = append(bad, "Certificate")
		}
		if len(got.Extensions) != len(tmpl.ExtraExtensions) {
			bad = append(bad, "Extensions(len)")
		} else {
			for k, e := range tmpl.ExtraExtensions {
				g := got.Extensions[k]
				if !g.Id.Equal(e.Id) || g.Critical != e.Critical || !bytes.Equal(g.Value, e.Value) {
					bad = append(bad, "Extensions")
					break
				}
			}
		}
		if len(got.ExtraExtensions) != 0 {
			bad = append(bad, "ExtraExtensions(populated by parse)")
		}
		if !bytes.Equal(got.Raw, der) {
			bad = append(bad, "Raw")
		}
		if got.ProducedAt.Second() != 0 || got.ProducedAt.Nanosecond() != 0 {
			bad = append(bad, "ProducedAt(not on a minute)")
		}
		bad = append(bad, cmpGoRef(got, ref, 0)...)
		if len(bad) > 0 {
			wit["fields"] = bad
			m.Violation("roundtrip:field-mismatch:"+bad[0], wit)
		}
		if tmpl.SerialNumber.BitLen() > 64 {
			m.Count("rt_serial_gt64", 1)
		}
		if sd := ref.Singles[0].SerialDER; len(sd) > 1 && sd[0] == 0 && sd[1]&0x80 != 0 || tmpl.SerialNumber.Sign() < 0 {
			m.Count("rt_serial_hibit", 1)
		}
		// the other entry point must agree
		got2, perr2 := ocsp.ParseResponse(der, nil)
		if perr2 != nil || !signedFieldsEqual(got, got2) {
			wit["parse2_err"] = fmt.Sprint(perr2)
			m.Violation("roundtrip:ParseResponse-disagrees-with-ParseResponseForCert", wit)
		}
		// a certificate with another serial: "otherwise it will return an error"
		other := &x509.Certificate{SerialNumber: new(big.Int).Add(tmpl.SerialNumber, big.NewInt(1))}
		if _, e := ocsp.ParseResponseForCert(der, other, verifyWith); e == nil {
			m.Violation("roundtrip:ParseResponseForCert-returns-status-of-another-serial", wit)
		}
		// … also one that agrees with it in the low 64 bits
		other = &x509.Certificate{SerialNumber: new(big.Int).Add(tmpl.SerialNumber, new(big.Int).Lsh(big.NewInt(1), 64))}
		if _, e := ocsp.ParseResponseForCert(der, other, verifyWith); e == nil {
			m.Violation("roundtrip:ParseResponseForCert-returns-status-of-another-serial", wit)
		}
		m.Count("rt_other_serial_rejected", 1)
	})
}

// create runs ocsp.CreateResponse under a fake clock (testing/synctest bubble,
// 2000-01-01T00:00:00Z + off) so that the produced bytes — ProducedAt and with
// it the signature — are a pure function of the case, not of the wall clock.
func (w *c48w) create(off time.Duration, issuer, responder *x509.Certificate, tmpl ocsp.Response, key crypto.Signer) (der []byte, err error) {
	var pv any
	var stack string
	synctest.Test(w.t, func(*testing.T) {
		if off > 0 {
			time.Sleep(off)
		}
		pv, stack = mon.Panics(func() { der, err = ocsp.CreateResponse(issuer, responder, tmpl, key) })
	})
	if pv != nil {
		w.m.Violation("panic:"+mon.PanicSite(stack), map[string]any{"entry": "CreateResponse", "panic": fmt.Sprint(pv), "serial": fmt.Sprint(tmpl.SerialNumber), "status": tmpl.Status})
		return nil, fmt.Errorf("CreateResponse panicked: %v", pv)
	}
	return
}

func orStr(a, b string) string {
	if a != "" {
		return a
	}
	return b
}

// ---- clock: ProducedAt under a fake clock ------------------------------------------

func (w *c48w) clock() {
	m := w.m
	m.Cases("clock", m.N(40, 600), func(i int64, r *mrand.Rand) {
		kind := c48Kinds[int(i)%4]
		p := getPKI(w.t, kind, kind, false)
		// instant = bubble start (2000-01-01T00:00:00Z) + off
		var off time.Duration
		var cls string
		days := time.Duration(r.IntN(36500)) * 24 * time.Hour
		switch i % 8 {
		case 0:
			off, cls = days+59*time.Second+999999999, "59.999999999s"
		case 1:
			off, cls = days, "00.000s"
		case 2:
			off, cls = days+29*time.Second+999*time.Millisecond, "29.999s"
		case 3:
			off, cls = days+30*time.Second, "30.000s"
		case 4:
			off, cls = days+30*time.Second+time.Millisecond, "30.001s"
		case 5:
			off, cls = days+23*time.Hour+59*time.Minute+59*time.Second+500*time.Millisecond, "23:59:59.5"
		default:
			off, cls = days+time.Duration(r.Int64N(int64(24*time.Hour))), "rand"
		}
		var now time.Time
		var der []byte
		var cerr error
		var pv any
		synctest.Test(w.t, func(bt *testing.T) {
			reseed(bt, fmt.Sprintf("clock|%d", i))
			time.Sleep(off)
			now = time.Now()
			pv, _ = mon.Panics(func() {
				der, cerr = ocsp.CreateResponse(p.issuer.cert, p.issuer.cert, ocsp.Response{Status: ocsp.Good, SerialNumber: big.NewInt(i + 1), ThisUpdate: now, NextUpdate: now.Add(time.Hour)}, p.issuer.key.key)
			})
		})
		m.Eval()
		wit := map[string]any{"now": now.Format(time.RFC3339Nano), "class": cls}
		if pv != nil || cerr != nil {
			wit["err"] = fmt.Sprint(pv, cerr)
			m.Violation("clock:create-fails", wit)
			return
		}
		got, err := ocsp.ParseResponse(der, p.issuer.cert)
		if err != nil {
			wit["err"] = err.Error()
			m.Violation("clock:parse-fails", wit)
			return
		}
		m.Count("clock_cases", 1)
		m.Distinct("clock " + cls + " " + kind)
		// "set to the current date, to the nearest minute": both truncation and rounding are readings
		if !got.ProducedAt.Equal(now.Truncate(time.Minute)) && !got.ProducedAt.Equal(now.Round(time.Minute)) {
			wit["producedAt"] = got.ProducedAt.Format(time.RFC3339Nano)
			m.Violation("clock:producedAt-not-current-minute", wit)
		}
		if !got.ThisUpdate.Equal(now.Truncate(time.Second)) {
			m.Violation("clock:thisUpdate-mismatch", wit)
		}
	})
}

// keep imports used in later files referenced here
var _ = asn1.ObjectIdentifier{}
var _ = pkix.Extension{}

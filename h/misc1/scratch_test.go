package misc1

import (
	"crypto/elliptic"
	"crypto/rand"
	"fmt"
	"math/big"
	"os"
	"testing"
	"time"
)

// TestScratchSearch: offline search for scalars whose public point has short X / short Y.
func TestScratchSearch(t *testing.T) {
	if os.Getenv("MISC1_SEARCH") == "" {
		t.Skip()
	}
	for _, c := range []elliptic.Curve{elliptic.P256(), elliptic.P384(), elliptic.P521()} {
		size := (c.Params().BitSize + 7) / 8
		n := c.Params().N
		s, _ := rand.Int(rand.Reader, new(big.Int).Sub(n, big.NewInt(1<<40)))
		x, y := c.ScalarBaseMult(s.Bytes())
		gx, gy := c.Params().Gx, c.Params().Gy
		one := big.NewInt(1)
		needX, needY := 3, 3
		t0 := time.Now()
		it := 0
		for needX > 0 || needY > 0 {
			x, y = c.Add(x, y, gx, gy)
			s.Add(s, one)
			it++
			if len(x.Bytes()) <= size-2 && needX > 0 {
				needX--
				fmt.Printf("%s shortX2 d=%x  xlen=%d ylen=%d\n", c.Params().Name, s, len(x.Bytes()), len(y.Bytes()))
			}
			if len(y.Bytes()) <= size-2 && needY > 0 {
				needY--
				fmt.Printf("%s shortY2 d=%x  xlen=%d ylen=%d\n", c.Params().Name, s, len(x.Bytes()), len(y.Bytes()))
			}
		}
		fmt.Printf("%s: %d iterations in %v (%v/it)\n", c.Params().Name, it, time.Since(t0), time.Since(t0)/time.Duration(it))
	}
}

package misc1

import (
	"crypto"
	"crypto/x509"
	"math/big"
	"testing"
	"testing/synctest"
	"time"

	"golang.org/x/crypto/ocsp"
	"verif/ref/ocspref"
)

func TestScratch(t *testing.T) {
	for _, kind := range []string{"rsa", "p256", "p384", "p521"} {
		t0 := time.Now()
		p := getPKI(t, kind, kind, false)
		t.Logf("%s: pki build %v", kind, time.Since(t0))
		for _, alg := range []x509.SignatureAlgorithm{0, x509.SHA1WithRSA, x509.SHA256WithRSA, x509.SHA384WithRSA, x509.SHA512WithRSA, x509.ECDSAWithSHA1, x509.ECDSAWithSHA256, x509.ECDSAWithSHA384, x509.ECDSAWithSHA512, x509.MD5WithRSA} {
			tmpl := ocsp.Response{Status: ocsp.Good, SerialNumber: big.NewInt(5), ThisUpdate: time.Unix(1e9, 0), NextUpdate: time.Unix(1e9+1000, 0), SignatureAlgorithm: alg, IssuerHash: crypto.SHA256}
			reseed(t, "x")
			t0 = time.Now()
			b, err := ocsp.CreateResponse(p.issuer.cert, p.issuer.cert, tmpl, p.issuer.key.key)
			d1 := time.Since(t0)
			if err != nil {
				t.Logf("%s alg=%v create err: %v", kind, alg, err)
				continue
			}
			reseed(t, "x")
			b2, _ := ocsp.CreateResponse(p.issuer.cert, p.issuer.cert, tmpl, p.issuer.key.key)
			t0 = time.Now()
			r, err := ocsp.ParseResponse(b, p.issuer.cert)
			d2 := time.Since(t0)
			w, werr := ocspref.Parse(b)
			t.Logf("%s alg=%v len=%d create=%v parse=%v err=%v deterministic=%v ref=%v", kind, alg, len(b), d1, d2, err, string(b) == string(b2), werr)
			if err == nil {
				t.Logf("   producedAt=%v refProducedAt=%v sigalg=%v", r.ProducedAt, w.ProducedAt, r.SignatureAlgorithm)
			}
		}
	}
	synctest.Test(t, func(t *testing.T) {
		p := getPKI(t, "p256", "p256", false)
		time.Sleep(59*time.Second + 999*time.Millisecond + 300*24*time.Hour)
		now := time.Now()
		tmpl := ocsp.Response{Status: ocsp.Good, SerialNumber: big.NewInt(5), ThisUpdate: time.Unix(1e9, 0)}
		b, err := ocsp.CreateResponse(p.issuer.cert, p.issuer.cert, tmpl, p.issuer.key.key)
		if err != nil {
			t.Fatal(err)
		}
		r, err := ocsp.ParseResponse(b, p.issuer.cert)
		t.Logf("bubble now=%v producedAt=%v err=%v", now, r.ProducedAt, err)
	})
}

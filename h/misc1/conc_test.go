package misc1

// Shared-value concurrency helpers for C48/C49.

import (
	"crypto"
	"fmt"
	"io"
	"runtime"
	"sync"
	"sync/atomic"

	"verif/mon"
)

// concRun starts n goroutines that meet at a barrier and then run fn(id,
// yield). yield is a legal suspension point the workers call between tasks;
// it also samples the number of workers in flight. With single=true the round
// runs under GOMAXPROCS(1) (per-P pools collide there). It returns the
// largest number of workers seen in flight at once and the panics that
// escaped fn.
func concRun(n int, single bool, fn func(id int, yield func())) (maxInFlight int, panics []string) {
	if single {
		prev := runtime.GOMAXPROCS(1)
		defer runtime.GOMAXPROCS(prev)
	}
	var inflight, maxSeen atomic.Int32
	note := func() {
		cur := inflight.Load()
		for {
			old := maxSeen.Load()
			if cur <= old || maxSeen.CompareAndSwap(old, cur) {
				return
			}
		}
	}
	start := make(chan struct{})
	var wg sync.WaitGroup
	var mu sync.Mutex
	for id := 0; id < n; id++ {
		wg.Add(1)
		go func(id int) {
			defer wg.Done()
			<-start
			inflight.Add(1)
			note()
			pv, stack := mon.Panics(func() {
				fn(id, func() { note(); runtime.Gosched(); note() })
			})
			note()
			inflight.Add(-1)
			if pv != nil {
				mu.Lock()
				panics = append(panics, fmt.Sprintf("%v @ %s", pv, mon.PanicSite(stack)))
				mu.Unlock()
			}
		}(id)
	}
	close(start)
	wg.Wait()
	return int(maxSeen.Load()), panics
}

// yieldSigner is a crypto.Signer-only wrapper whose Sign yields the processor
// before and after the real signature: user code the library calls back into
// is a legal place to be descheduled.
type yieldSigner struct{ inner crypto.Signer }

func (y yieldSigner) Public() crypto.PublicKey { return y.inner.Public() }
func (y yieldSigner) Sign(r io.Reader, digest []byte, opts crypto.SignerOpts) ([]byte, error) {
	runtime.Gosched()
	s, err := y.inner.Sign(r, digest, opts)
	runtime.Gosched()
	return s, err
}

package misc1

import (
	"bytes"
	"crypto"
	"crypto/ecdsa"
	"crypto/rand"
	"crypto/rsa"
	_ "crypto/sha1"
	_ "crypto/sha256"
	_ "crypto/sha512"
	"crypto/x509"
	"crypto/x509/pkix"
	"encoding/asn1"
	"fmt"
	"math/big"
	mrand "math/rand/v2"
	"strings"
	"time"

	"golang.org/x/crypto/ocsp"
	"verif/mon"
	"verif/ref/ocspref"
)

var c48Kinds = []string{"rsa", "p256", "p384", "p521"}

// ---- signature algorithms (own table, RFC 3279 / RFC 4055 / RFC 5758 OIDs) ----

type sigAlgInfo struct {
	alg   x509.SignatureAlgorithm
	oid   []int
	oidS  string
	hash  crypto.Hash
	rsa   bool
	name  string
	null  bool // RSA algorithms carry NULL parameters
	osslN string
}

var sigAlgTable = []sigAlgInfo{
	{x509.SHA1WithRSA, []int{1, 2, 840, 113549, 1, 1, 5}, "1.2.840.113549.1.1.5", crypto.SHA1, true, "sha1-rsa", true, "sha1WithRSAEncryption"},
	{x509.SHA256WithRSA, []int{1, 2, 840, 113549, 1, 1, 11}, "1.2.840.113549.1.1.11", crypto.SHA256, true, "sha256-rsa", true, "sha256WithRSAEncryption"},
	{x509.SHA384WithRSA, []int{1, 2, 840, 113549, 1, 1, 12}, "1.2.840.113549.1.1.12", crypto.SHA384, true, "sha384-rsa", true, "sha384WithRSAEncryption"},
	{x509.SHA512WithRSA, []int{1, 2, 840, 113549, 1, 1, 13}, "1.2.840.113549.1.1.13", crypto.SHA512, true, "sha512-rsa", true, "sha512WithRSAEncryption"},
	{x509.ECDSAWithSHA1, []int{1, 2, 840, 10045, 4, 1}, "1.2.840.10045.4.1", crypto.SHA1, false, "sha1-ecdsa", false, "ecdsa-with-SHA1"},
	{x509.ECDSAWithSHA256, []int{1, 2, 840, 10045, 4, 3, 2}, "1.2.840.10045.4.3.2", crypto.SHA256, false, "sha256-ecdsa", false, "ecdsa-with-SHA256"},
	{x509.ECDSAWithSHA384, []int{1, 2, 840, 10045, 4, 3, 3}, "1.2.840.10045.4.3.3", crypto.SHA384, false, "sha384-ecdsa", false, "ecdsa-with-SHA384"},
	{x509.ECDSAWithSHA512, []int{1, 2, 840, 10045, 4, 3, 4}, "1.2.840.10045.4.3.4", crypto.SHA512, false, "sha512-ecdsa", false, "ecdsa-with-SHA512"},
}

func sigAlgByAlg(a x509.SignatureAlgorithm) *sigAlgInfo {
	for i := range sigAlgTable {
		if sigAlgTable[i].alg == a {
			return &sigAlgTable[i]
		}
	}
	return nil
}

func sigAlgByOID(s string) *sigAlgInfo {
	for i := range sigAlgTable {
		if sigAlgTable[i].oidS == s {
			return &sigAlgTable[i]
		}
	}
	return nil
}

// defaultAlg is what CreateResponse documents/does for SignatureAlgorithm 0
// (the crypto/x509 defaults: SHA-256 for RSA and P-256, SHA-384 for P-384,
// SHA-512 for P-521).
func defaultAlg(kind string) x509.SignatureAlgorithm {
	switch kind {
	case "rsa":
		return x509.SHA256WithRSA
	case "p256":
		return x509.ECDSAWithSHA256
	case "p384":
		return x509.ECDSAWithSHA384
	}
	return x509.ECDSAWithSHA512
}

func algsFor(kind string) []x509.SignatureAlgorithm {
	if kind == "rsa" {
		return []x509.SignatureAlgorithm{x509.SHA1WithRSA, x509.SHA256WithRSA, x509.SHA384WithRSA, x509.SHA512WithRSA}
	}
	return []x509.SignatureAlgorithm{x509.ECDSAWithSHA1, x509.ECDSAWithSHA256, x509.ECDSAWithSHA384, x509.ECDSAWithSHA512}
}

// signRaw signs msg with the stdlib primitives (never through x/crypto).
func signRaw(k *signerKey, a *sigAlgInfo, msg []byte) []byte {
	h := a.hash.New()
	h.Write(msg)
	d := h.Sum(nil)
	switch key := k.key.(type) {
	case *rsa.PrivateKey:
		s, err := rsa.SignPKCS1v15(nil, key, a.hash, d)
		if err != nil {
			panic(err)
		}
		return s
	case *ecdsa.PrivateKey:
		s, err := ecdsa.SignASN1(rand.Reader, key, d)
		if err != nil {
			panic(err)
		}
		return s
	}
	panic("signRaw: key type")
}

// verifyRaw checks sig over msg with the stdlib primitives and the harness's
// own OID table.
func verifyRaw(pub crypto.PublicKey, oid string, msg, sig []byte) bool {
	a := sigAlgByOID(oid)
	if a == nil {
		return false
	}
	h := a.hash.New()
	h.Write(msg)
	d := h.Sum(nil)
	switch p := pub.(type) {
	case *rsa.PublicKey:
		return a.rsa && rsa.VerifyPKCS1v15(p, a.hash, d, sig) == nil
	case *ecdsa.PublicKey:
		return !a.rsa && ecdsa.VerifyASN1(p, d, sig)
	}
	return false
}

// ---- issuer hashes -------------------------------------------------------------

type hashInfo struct {
	h    crypto.Hash
	oid  []int
	oidS string
	name string
}

var issuerHashes = []hashInfo{
	{crypto.SHA1, []int{1, 3, 14, 3, 2, 26}, "1.3.14.3.2.26", "sha1"},
	{crypto.SHA256, []int{2, 16, 840, 1, 101, 3, 4, 2, 1}, "2.16.840.1.101.3.4.2.1", "sha256"},
	{crypto.SHA384, []int{2, 16, 840, 1, 101, 3, 4, 2, 2}, "2.16.840.1.101.3.4.2.2", "sha384"},
	{crypto.SHA512, []int{2, 16, 840, 1, 101, 3, 4, 2, 3}, "2.16.840.1.101.3.4.2.3", "sha512"},
}

func hashInfoFor(h crypto.Hash) *hashInfo {
	if h == 0 {
		h = crypto.SHA1
	}
	for i := range issuerHashes {
		if issuerHashes[i].h == h {
			return &issuerHashes[i]
		}
	}
	return nil
}

// issuerHashesOf computes (nameHash, keyHash) of RFC 6960 §4.1.1 from the
// certificate DER with the walker's own field extraction.
func issuerHashesOf(c *x509.Certificate, h crypto.Hash) (nameHash, keyHash []byte) {
	subj, key, err := ocspref.CertSubjectAndKey(c.Raw)
	if err != nil {
		panic(err)
	}
	hh := h.New()
	hh.Write(subj)
	nameHash = hh.Sum(nil)
	hh.Reset()
	hh.Write(key)
	keyHash = hh.Sum(nil)
	return
}

func keyHashSHA1(c *x509.Certificate) []byte {
	_, kh := issuerHashesOf(c, crypto.SHA1)
	return kh
}

// ---- generators -----------------------------------------------------------------

func bigFromBytes(b []byte) *big.Int { return new(big.Int).SetBytes(b) }

// genSerial draws a serial number; class names the boundary it sits on.
func genSerial(r *mrand.Rand) (*big.Int, string) {
	nb := func(n int, first byte) *big.Int {
		b := mon.Bytes(r, n)
		b[0] = first
		return bigFromBytes(b)
	}
	switch r.IntN(20) {
	case 0:
		return big.NewInt(int64(r.IntN(128))), "small"
	case 1:
		return big.NewInt(int64(128 + r.IntN(128))), "1B-hibit"
	case 2:
		return new(big.Int).SetUint64(1<<63 - 1), "int64max"
	case 3:
		return new(big.Int).SetUint64(1 << 63), "2^63"
	case 4:
		return new(big.Int).SetUint64(^uint64(0)), "uint64max"
	case 5:
		return new(big.Int).Lsh(big.NewInt(1), 64), "2^64"
	case 6:
		return nb(8, 0x80|byte(r.IntN(128))), "8B-hibit"
	case 7:
		return nb(8, byte(1+r.IntN(127))), "8B"
	case 8:
		return nb(9, byte(1+r.IntN(255))), "9B"
	case 9:
		return nb(16, byte(1+r.IntN(255))), "16B"
	case 10:
		return nb(20, 0x80), "20B-0x80"
	case 11:
		return nb(20, 0xff), "20B-0xff"
	case 12:
		return nb(20, 0x7f), "20B-0x7f"
	case 13:
		return nb(21, 0x80|byte(r.IntN(128))), "21B-hibit"
	case 14:
		return nb(33+r.IntN(30), byte(1+r.IntN(255))), ">32B"
	case 15:
		return big.NewInt(0), "zero"
	case 16:
		return big.NewInt(-1 - int64(r.IntN(300))), "neg-small"
	case 17:
		v := nb(9+r.IntN(12), byte(1+r.IntN(255)))
		return v.Neg(v), "neg-big"
	case 18:
		return nb(2+r.IntN(6), 0x80), "short-0x80"
	default:
		return nb(1+r.IntN(20), byte(1+r.IntN(255))), "rand"
	}
}

// genTime draws an instant. inRange says whether GeneralizedTime can carry it
// (UTC year 1..9999); year 0 is class "year0" with inRange=false because
// neither X.680 nor the package says what happens there.
func genTime(r *mrand.Rand) (time.Time, string, bool) {
	ns := r.IntN(1e9)
	var t time.Time
	var cls string
	switch r.IntN(36) {
	case 0:
		t, cls = time.Date(1, 1, 1, 0, 0, r.IntN(60), ns, time.UTC), "year1"
	case 1:
		t, cls = time.Date(9999, 12, 31, 23, 59, 59, ns, time.UTC), "year9999-end"
	case 2:
		t, cls = time.Date(2049, 12, 31, 23, 59, 59, ns, time.UTC), "2049-end"
	case 3:
		t, cls = time.Date(2050, 1, 1, 0, 0, 0, 0, time.UTC), "2050-start"
	case 4:
		t, cls = time.Date(2024, 2, 29, 12, r.IntN(60), r.IntN(60), ns, time.UTC), "leapday"
	case 5:
		t, cls = time.Unix(0, 0).UTC(), "epoch0"
	case 6:
		t, cls = time.Unix(1<<31-1+int64(r.IntN(3)), int64(ns)).UTC(), "y2038"
	case 7:
		t, cls = time.Date(1950+r.IntN(150), time.Month(1+r.IntN(12)), 1+r.IntN(28), r.IntN(24), r.IntN(60), r.IntN(60), 999999999, time.UTC), "subsec-max"
	case 8:
		z := time.FixedZone("east", 5*3600+1800)
		t, cls = time.Date(1950+r.IntN(150), time.Month(1+r.IntN(12)), 1+r.IntN(28), r.IntN(24), r.IntN(60), r.IntN(60), ns, z), "zone+0530"
	case 9:
		z := time.FixedZone("west", -8*3600)
		t, cls = time.Date(1950+r.IntN(150), 12, 31, 16+r.IntN(8), r.IntN(60), r.IntN(60), ns, z), "zone-0800-yearwrap"
	case 10:
		t, cls = time.Date(10000+r.IntN(5), 1, 1, 0, 0, 0, 0, time.UTC), "year>9999"
	case 11:
		t, cls = time.Date(-1-r.IntN(5), 6, 1, 0, 0, 0, 0, time.UTC), "year<0"
	case 12:
		t, cls = time.Date(0, 6, 1, 0, 0, 0, 0, time.UTC), "year0"
	case 13, 14:
		t, cls = time.Date(1000+r.IntN(900), time.Month(1+r.IntN(12)), 1+r.IntN(28), r.IntN(24), r.IntN(60), r.IntN(60), ns, time.UTC), "pre-1900"
	default:
		t, cls = time.Date(1950+r.IntN(150), time.Month(1+r.IntN(12)), 1+r.IntN(28), r.IntN(24), r.IntN(60), r.IntN(60), ns, time.UTC), "rand"
	}
	y := t.UTC().Year()
	return t, cls, y >= 1 && y <= 9999
}

// genTimeOK draws only representable instants.
func genTimeOK(r *mrand.Rand) (time.Time, string) {
	for {
		t, c, ok := genTime(r)
		if ok {
			return t, c
		}
	}
}

func genOID(r *mrand.Rand) []int {
	first := r.IntN(3)
	second := r.IntN(40)
	if first == 2 && r.IntN(3) == 0 {
		second = 40 + r.IntN(1000)
	}
	out := []int{first, second}
	n := r.IntN(9)
	for i := 0; i < n; i++ {
		switch r.IntN(5) {
		case 0:
			out = append(out, r.IntN(128))
		case 1:
			out = append(out, 127+r.IntN(3))
		case 2:
			out = append(out, 1<<31-1)
		case 3:
			out = append(out, 16383+r.IntN(3))
		default:
			out = append(out, r.IntN(1<<20))
		}
	}
	return out
}

func genExts(r *mrand.Rand, allowCritical bool) []pkix.Extension {
	n := 0
	switch r.IntN(4) {
	case 0:
		n = 0
	case 1:
		n = 1
	default:
		n = 1 + r.IntN(3)
	}
	var out []pkix.Extension
	for i := 0; i < n; i++ {
		e := pkix.Extension{Id: asn1.ObjectIdentifier(genOID(r))}
		switch r.IntN(4) {
		case 0:
			e.Value = []byte{}
		case 1:
			e.Value = mon.Bytes(r, 1+r.IntN(4))
		case 2:
			e.Value = mon.Bytes(r, 120+r.IntN(20)) // around the 1/2-byte length boundary
		default:
			e.Value = mon.Bytes(r, r.IntN(40))
		}
		if allowCritical && r.IntN(8) == 0 {
			e.Critical = true
		}
		out = append(out, e)
	}
	return out
}

var docReasons = []int{ocsp.Unspecified, ocsp.KeyCompromise, ocsp.CACompromise, ocsp.AffiliationChanged, ocsp.Superseded, ocsp.CessationOfOperation, ocsp.CertificateHold, ocsp.RemoveFromCRL, ocsp.PrivilegeWithdrawn, ocsp.AACompromise}

// ---- field comparison: Go parse vs walker -----------------------------------------

func oidString(o asn1.ObjectIdentifier) string {
	var p []string
	for _, a := range o {
		p = append(p, fmt.Sprint(a))
	}
	return strings.Join(p, ".")
}

// cmpGoRef lists the fields on which ocsp's parse of a response differs from
// the walker's reading of SingleResponse idx.
func cmpGoRef(got *ocsp.Response, w *ocspref.Resp, idx int) []string {
	var bad []string
	s := w.Singles[idx]
	if got.Status != s.Status {
		bad = append(bad, "Status")
	}
	if got.SerialNumber == nil || got.SerialNumber.Cmp(s.Serial) != 0 {
		bad = append(bad, "SerialNumber")
	}
	if !got.ProducedAt.Equal(w.ProducedAt) {
		bad = append(bad, "ProducedAt")
	}
	if !got.ThisUpdate.Equal(s.ThisUpdate) {
		bad = append(bad, "ThisUpdate")
	}
	// an absent nextUpdate is reported as the zero time.Time, which is also the
	// representable instant 0001-01-01T00:00:00Z: the API cannot tell them apart
	wantNext := time.Time{}
	if s.HasNext {
		wantNext = s.NextUpdate
	}
	if !got.NextUpdate.Equal(wantNext) {
		bad = append(bad, "NextUpdate")
	}
	if s.Status == 1 {
		if !got.RevokedAt.Equal(s.RevokedAt) {
			bad = append(bad, "RevokedAt")
		}
		if int64(got.RevocationReason) != s.Reason {
			bad = append(bad, "RevocationReason")
		}
	}
	if !bytes.Equal(got.TBSResponseData, w.TBSBytes()) {
		bad = append(bad, "TBSResponseData")
	}
	if !bytes.Equal(got.Signature, w.SigBytes) {
		bad = append(bad, "Signature")
	}
	if a := sigAlgByOID(w.SigAlgOID); a != nil && got.SignatureAlgorithm != a.alg {
		bad = append(bad, "SignatureAlgorithm")
	}
	if hi := func() *hashInfo {
		for i := range issuerHashes {
			if issuerHashes[i].oidS == s.HashOID {
				return &issuerHashes[i]
			}
		}
		return nil
	}(); hi != nil && got.IssuerHash != hi.h {
		bad = append(bad, "IssuerHash")
	}
	if !bytes.Equal(got.RawResponderName, w.ResponderName) || (w.ResponderName != nil) != (len(got.RawResponderName) > 0) {
		bad = append(bad, "RawResponderName")
	}
	if !bytes.Equal(got.ResponderKeyHash, w.ResponderKeyHash) {
		bad = append(bad, "ResponderKeyHash")
	}
	if len(got.Extensions) != len(s.Exts) {
		bad = append(bad, "Extensions(len)")
	} else {
		for i, e := range s.Exts {
			g := got.Extensions[i]
			if oidString(g.Id) != e.OID || g.Critical != e.Critical || !bytes.Equal(g.Value, e.Value) {
				bad = append(bad, "Extensions")
				break
			}
		}
	}
	if (got.Certificate != nil) != (len(w.Certs) > 0) {
		bad = append(bad, "Certificate(presence)")
	} else if got.Certificate != nil {
		c := w.Certs[0].Whole
		if !bytes.Equal(got.Certificate.Raw, w.Raw[c.Off:c.End()]) {
			bad = append(bad, "Certificate")
		}
	}
	return bad
}

// signedFieldsEqual compares the fields of two parses that derive from the
// signed tbsResponseData.
func signedFieldsEqual(a, b *ocsp.Response) bool {
	if a.Status != b.Status || a.SerialNumber.Cmp(b.SerialNumber) != 0 || !a.ProducedAt.Equal(b.ProducedAt) ||
		!a.ThisUpdate.Equal(b.ThisUpdate) || !a.NextUpdate.Equal(b.NextUpdate) || !a.RevokedAt.Equal(b.RevokedAt) ||
		a.RevocationReason != b.RevocationReason || a.IssuerHash != b.IssuerHash ||
		!bytes.Equal(a.TBSResponseData, b.TBSResponseData) || !bytes.Equal(a.RawResponderName, b.RawResponderName) ||
		!bytes.Equal(a.ResponderKeyHash, b.ResponderKeyHash) || len(a.Extensions) != len(b.Extensions) {
		return false
	}
	for i := range a.Extensions {
		if !a.Extensions[i].Id.Equal(b.Extensions[i].Id) || a.Extensions[i].Critical != b.Extensions[i].Critical || !bytes.Equal(a.Extensions[i].Value, b.Extensions[i].Value) {
			return false
		}
	}
	return true
}

// ---- own-built responses ----------------------------------------------------------

type builtSingle struct {
	serial  *big.Int
	status  int
	revoked time.Time
	reason  *int64
	this    time.Time
	next    *time.Time
	exts    []ocspref.BExt
}

// buildResponse assembles and signs a response with the TLV builder.
func buildResponse(issuer *x509.Certificate, ih *hashInfo, byKey bool, responder *x509.Certificate, producedAt time.Time,
	singles []builtSingle, respExts []ocspref.BExt, signer *signerKey, a *sigAlgInfo, certs []*certInfo) []byte {
	nh, kh := issuerHashesOf(issuer, ih.h)
	spec := ocspref.BSpec{ProducedAt: ocspref.GenTime(producedAt), RespExts: respExts}
	if byKey {
		spec.ResponderKeyHash = keyHashSHA1(responder)
	} else {
		spec.ResponderName = responder.RawSubject
	}
	for _, s := range singles {
		bs := ocspref.BSingle{HashOID: ih.oid, NameHash: nh, KeyHash: kh, Serial: s.serial, Status: s.status, Reason: s.reason,
			ThisUpdate: ocspref.GenTime(s.this), Exts: s.exts}
		if s.status == 1 {
			bs.RevokedAt = ocspref.GenTime(s.revoked)
		}
		if s.next != nil {
			bs.NextUpdate = ocspref.GenTime(*s.next)
		}
		spec.Singles = append(spec.Singles, bs)
	}
	tbs := ocspref.BuildTBS(spec)
	sig := signRaw(signer, a, tbs)
	var raw [][]byte
	for _, c := range certs {
		raw = append(raw, c.cert.Raw)
	}
	return ocspref.Assemble(tbs, a.oid, a.null, sig, raw)
}

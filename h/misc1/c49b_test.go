package misc1

import (
	"context"
	"crypto"
	"encoding/json"
	"fmt"
	mrand "math/rand/v2"
	"net/http"
	"time"

	"golang.org/x/crypto/acme"
	"verif/mon"
	"verif/ref/jwsref"
)

// ---- conc: one acme.Client and one account key shared by several goroutines ------------
//
// acme.Client is documented for concurrent use (autocert does it); its nonce
// pool, directory cache and the signing path are shared. 6 goroutines make
// POST-as-GET reads and Accept posts through ONE client at once and compute
// JWKThumbprint / key authorizations of the shared key in between. Every URL
// is unique, so each recorded body is matched to its expectation and judged
// exactly like in the single-threaded sessions; the server's nonce ledger
// must show every nonce used once. Half of the rounds run under
// GOMAXPROCS(1); in half the shared key is wrapped in a signer that yields
// inside Sign.

type concOp struct {
	kind    string // GetOrder | GetAuthorization | GetChallenge | Accept | Thumb
	url     string
	payload json.RawMessage
	token   string
}

func (w *c49w) concurrent() {
	m := w.m
	const G = 6
	ctx := context.Background()
	m.Cases("conc", m.N(32, 320), func(i int64, r *mrand.Rand) {
		kind := []string{"p256", "p384", "p521", "rsa"}[i%4]
		single := (i/4)%2 == 1
		yielding := (i/8)%2 == 1
		reseed(w.t, fmt.Sprintf("conc49|%d", i))
		w.nextClass = ecClasses[(i/16)%6]
		if kind == "rsa" {
			w.nextClass = ""
		}
		key := w.makeKey(kind, r, false)
		wrapper := key.wrapper
		var signer crypto.Signer = key.signer
		if yielding {
			signer, wrapper = yieldSigner{key.signer}, "yield"
		}
		ca := newFakeCA("https://conc.example", mrand.New(mrand.NewPCG(r.Uint64(), r.Uint64())))
		ca.uniqueNonces = true
		cl := &acme.Client{Key: signer, DirectoryURL: ca.base + "/dir", HTTPClient: &http.Client{Transport: memTransport{ca}}, UserAgent: "verif-c49-conc",
			RetryBackoff: func(int, *http.Request, *http.Response) time.Duration { return -1 }}
		// registration happens before the barrier (the account URL becomes the shared kid)
		if _, err := cl.Register(ctx, &acme.Account{}, acme.AcceptTOS); err != nil {
			m.Violation("client:operation-fails:Register", map[string]any{"err": err.Error(), "key": kind})
			return
		}
		ca.take()
		kid := ca.acctURL
		wantThumb := jwsref.Thumbprint(key.info.jwk)
		// everything the goroutines will ask for, fixed before the barrier
		nOps := 10
		plans := make([][]concOp, G)
		expByURL := map[string]c49exp{}
		for g := 0; g < G; g++ {
			for k := 0; k < nOps; k++ {
				op := concOp{}
				switch r.IntN(6) {
				case 0:
					op.kind = "GetOrder"
				case 1:
					op.kind = "GetAuthorization"
				case 2:
					op.kind = "GetChallenge"
				case 3, 4:
					op.kind = "Accept"
					if r.IntN(2) == 0 {
						op.payload = json.RawMessage(fmt.Sprintf(`{"g":%d,"k":%d,"x":"%s"}`, g, k, randASCII(r, 8, "abcdef")))
					}
				default:
					op.kind, op.token = "Thumb", randASCII(r, 1+r.IntN(30), b64urlChars)
				}
				if op.kind != "Thumb" {
					op.url = fmt.Sprintf("%s/%s/g%d-k%d-%s%s", ca.base, map[string]string{"GetOrder": "order", "GetAuthorization": "authz", "GetChallenge": "chal", "Accept": "chal"}[op.kind], g, k, randASCII(r, 6, "abcXYZ019"), mrandPick(r, []string{"", "?a=1&b=<2>"}))
					e := c49exp{op: op.kind, key: key.info, form: "kid", kid: kid, url: op.url, wrapper: wrapper, keyClass: key.class, transport: "mem", conc: true}
					if op.kind == "Accept" {
						e.payload = map[string]any{}
						if op.payload != nil {
							var v any
							json.Unmarshal(op.payload, &v)
							e.payload = v
						}
					} else {
						e.postAsGet = true
					}
					expByURL[op.url] = e
				}
				plans[g] = append(plans[g], op)
			}
		}
		type res struct {
			err   string
			thumb string
			http  string
		}
		results := make([][]res, G)
		maxIn, panics := concRun(G, single, func(id int, yield func()) {
			out := make([]res, 0, nOps)
			for _, op := range plans[id] {
				var rs res
				var err error
				switch op.kind {
				case "GetOrder":
					_, err = cl.GetOrder(ctx, op.url)
				case "GetAuthorization":
					_, err = cl.GetAuthorization(ctx, op.url)
				case "GetChallenge":
					_, err = cl.GetChallenge(ctx, op.url)
				case "Accept":
					_, err = cl.Accept(ctx, &acme.Challenge{URI: op.url, Type: "http-01", Token: "tok", Payload: op.payload})
				default:
					rs.thumb, err = acme.JWKThumbprint(signer.Public())
					if err == nil {
						rs.http, err = cl.HTTP01ChallengeResponse(op.token)
					}
				}
				if err != nil {
					rs.err = err.Error()
				}
				out = append(out, rs)
				yield()
			}
			results[id] = out
		})
		m.Count("conc_rounds", 1)
		if single {
			m.Count("conc_rounds_gomaxprocs1", 1)
		}
		if yielding {
			m.Count("conc_rounds_yielding_signer", 1)
		}
		if maxIn >= 2 {
			m.Count("conc_rounds_overlapped", 1)
		}
		base := map[string]any{"key": kind, "class": key.class, "wrapper": wrapper, "gomaxprocs1": single}
		for _, pv := range panics {
			base["panic"] = pv
			m.Violation("concurrent-panic:shared:acme.Client", base)
		}
		for g := 0; g < G; g++ {
			for k, op := range plans[g] {
				if k >= len(results[g]) {
					break
				}
				rs := results[g][k]
				m.Eval()
				if rs.err != "" {
					m.Violation("concurrent-call-differs:shared:acme.Client."+op.kind, map[string]any{"err": rs.err, "key": kind, "wrapper": wrapper, "gomaxprocs1": single})
					continue
				}
				if op.kind == "Thumb" {
					m.Count("conc_thumbprints", 1)
					if rs.thumb != wantThumb || rs.http != op.token+"."+wantThumb {
						m.Violation("concurrent-thumbprint-differs:shared:acme.JWKThumbprint", map[string]any{"got": rs.thumb, "http01": rs.http, "want": wantThumb, "key": kind, "class": key.class})
					}
				}
			}
		}
		// what the server saw
		recs := ca.take()
		seenURL := map[string]int{}
		for _, rc := range recs {
			e, ok := expByURL[rc.URL]
			if !ok {
				m.Violation("concurrent-request-differs:shared:acme.Client.post", map[string]any{"unexpected_url": rc.URL, "key": kind})
				continue
			}
			seenURL[rc.URL]++
			m.Eval()
			if f, ok := w.judgeJWS(rc.Body, e, false, ca); f != nil && ok {
				m.Count("conc_requests_verified", 1)
				m.Count("conc_requests_verified:"+kind, 1)
			}
			if rc.ContentType != "application/jose+json" {
				m.Violation("concurrent-jws-differs:shared:acme.Client."+e.op, map[string]any{"content_type": rc.ContentType})
			}
		}
		for u, e := range expByURL {
			if seenURL[u] != 1 {
				m.Violation("concurrent-request-differs:shared:acme.Client."+e.op, map[string]any{"url": u, "times_seen": seenURL[u], "key": kind})
			}
		}
		ca.mu.Lock()
		reused := append([]string{}, ca.reused...)
		nUsed := len(ca.used)
		ca.mu.Unlock()
		m.Count("conc_nonces_used_once", nUsed-len(reused))
		if len(reused) > 0 {
			m.Violation("concurrent-nonce-reused:shared:acme.Client", map[string]any{"nonces": reused, "key": kind, "wrapper": wrapper, "gomaxprocs1": single})
		}
		m.Distinct(fmt.Sprintf("conc %s %s single=%v", kind, wrapper, single))
	})
}

func (w *c49w) concGates() {
	m := w.m
	m.Gate("conc_rounds_overlapped", m.N(32, 320), "rounds in which at least two goroutines were using the shared client at once")
	m.Gate("conc_rounds_gomaxprocs1", m.N(16, 160), "rounds run under GOMAXPROCS(1)")
	m.Gate("conc_rounds_yielding_signer", m.N(16, 160), "rounds whose shared key yields inside Sign")
	m.Gate("conc_requests_verified", m.N(1200, 12000), "JWS sent by concurrently running goroutines through one client, verified")
	m.Gate("conc_nonces_used_once", m.N(1200, 12000), "nonces the server saw exactly once")
	m.Gate("conc_thumbprints", m.N(150, 1500), "thumbprints computed while other goroutines were signing")
}

var _ = mon.Hex

package misc1

import (
	"bytes"
	"crypto"
	"crypto/sha256"
	"crypto/x509"
	"fmt"
	"math/big"
	mrand "math/rand/v2"
	"time"

	"golang.org/x/crypto/ocsp"
	"verif/mon"
	"verif/ref/ocspref"
)

// ---- conc: the package-level functions used by several goroutines at once --------------
//
// Programs call ocsp.ParseResponse & co. from many goroutines with the same
// issuer certificate and often the same bytes. Every task's expected outcome
// is computed single-threaded first; then 6 goroutines run all tasks (each in
// its own order) after a barrier and the outcomes are compared after the
// join. Interleavings are whatever the scheduler does; half of the rounds run
// under GOMAXPROCS(1), and the signer handed to CreateResponse yields inside
// Sign.

func respSummary(r *ocsp.Response, err error) string {
	if err != nil {
		return "ERR"
	}
	t := sha256.Sum256(r.TBSResponseData)
	s := sha256.Sum256(r.Signature)
	raw := sha256.Sum256(r.Raw)
	cert := "-"
	if r.Certificate != nil {
		c := sha256.Sum256(r.Certificate.Raw)
		cert = fmt.Sprintf("%x", c[:6])
	}
	ext := ""
	for _, e := range r.Extensions {
		ext += fmt.Sprintf("%v/%v/%x;", e.Id, e.Critical, e.Value)
	}
	return fmt.Sprintf("st=%d sn=%x prod=%d this=%d next=%d rev=%d reason=%d ih=%d alg=%d name=%x kh=%x tbs=%x sig=%x raw=%x cert=%s ext=%s",
		r.Status, r.SerialNumber, r.ProducedAt.Unix(), r.ThisUpdate.Unix(), r.NextUpdate.Unix(), r.RevokedAt.Unix(), r.RevocationReason, r.IssuerHash,
		r.SignatureAlgorithm, r.RawResponderName, r.ResponderKeyHash, t[:8], s[:8], raw[:8], cert, ext)
}

func reqSummary(r *ocsp.Request, err error) string {
	if err != nil {
		return "ERR"
	}
	return fmt.Sprintf("h=%d n=%x k=%x s=%x", r.HashAlgorithm, r.IssuerNameHash, r.IssuerKeyHash, r.SerialNumber)
}

type concTask struct {
	api string
	run func() string // returns an outcome summary; must only read shared data
}

func (w *c48w) concurrent() {
	m := w.m
	const G = 6
	m.Cases("conc", m.N(16, 240), func(i int64, r *mrand.Rand) {
		issuerKind := c48Kinds[int(i)%4]
		delegKind := c48Kinds[(int(i)%4+2*(int(i/4)%2))%4] // 8 PKIs in all: building one under the race detector is not free
		single := (i/2)%2 == 1
		p := getPKI(w.t, issuerKind, delegKind, false)
		reseed(w.t, fmt.Sprintf("conc48|%d", i))
		issuer := p.issuer.cert
		this := time.Date(2001+r.IntN(90), time.Month(1+r.IntN(12)), 1+r.IntN(28), r.IntN(24), r.IntN(60), r.IntN(60), 0, time.UTC)
		next := this.Add(48 * time.Hour)
		reason := int64(ocsp.Superseded)
		// shared inputs, all made before the barrier
		var singles []builtSingle
		var serials []*big.Int
		seen := map[string]bool{}
		for k := 0; k < 4; k++ {
			s, _ := genSerial(r)
			for seen[s.String()] {
				s = new(big.Int).Add(s, big.NewInt(3))
			}
			seen[s.String()] = true
			serials = append(serials, s)
			singles = append(singles, builtSingle{serial: s, status: k % 3, revoked: this.Add(-time.Hour), reason: &reason, this: this, next: &next,
				exts: []ocspref.BExt{{OID: []int{1, 3, 6, 1, 5, 5, 7, 48, 1, 99}, Value: mon.Bytes(r, 1+r.IntN(20))}}})
		}
		aiI := sigAlgByAlg(mon.Pick(r, algsFor(p.issuer.key.kind)[1:]))
		aiD := sigAlgByAlg(mon.Pick(r, algsFor(p.delegate.key.kind)[1:]))
		direct := buildResponse(issuer, &issuerHashes[r.IntN(4)], r.IntN(2) == 0, issuer, this, singles[:1], nil, p.issuer.key, aiI, nil)
		deleg := buildResponse(issuer, &issuerHashes[r.IntN(4)], r.IntN(2) == 0, p.delegate.cert, this, singles[1:2], nil, p.delegate.key, aiD, []*certInfo{p.delegate})
		multi := buildResponse(issuer, &issuerHashes[r.IntN(4)], false, issuer, this, singles, nil, p.issuer.key, aiI, nil)
		forged := buildResponse(issuer, &issuerHashes[0], false, p.forged.cert, this, singles[:1], nil, p.attacker, sigAlgByAlg(defaultAlg(p.attacker.kind)), []*certInfo{p.forged})
		tampered := append([]byte{}, direct...)
		if ref, err := ocspref.Parse(direct); err == nil {
			tampered[ref.TBS.Off+ref.TBS.Hdr+ref.TBS.Len-1] ^= 0x01
		}
		reqCert := &x509.Certificate{SerialNumber: serials[0]}
		reqDER, err := ocsp.CreateRequest(reqCert, issuer, &ocsp.RequestOptions{Hash: crypto.SHA256})
		if err != nil {
			m.Violation("conc:setup-create-request-fails", map[string]any{"err": err.Error()})
			return
		}
		signer := crypto.Signer(yieldSigner{p.delegate.key.key})
		tmpl := ocsp.Response{Status: ocsp.Revoked, RevokedAt: this.Add(-time.Hour), RevocationReason: ocsp.KeyCompromise, SerialNumber: serials[2], ThisUpdate: this, NextUpdate: next,
			Certificate: p.delegate.cert, IssuerHash: crypto.SHA256, ExtraExtensions: genExts(r, false)}

		tasks := []concTask{
			{"ocsp.ParseResponse", func() string { return respSummary(ocsp.ParseResponse(direct, issuer)) }},
			{"ocsp.ParseResponse", func() string { return respSummary(ocsp.ParseResponse(deleg, issuer)) }},
			{"ocsp.ParseResponse", func() string { return respSummary(ocsp.ParseResponse(tampered, issuer)) }},
			{"ocsp.ParseResponse", func() string { return respSummary(ocsp.ParseResponse(forged, issuer)) }},
			{"ocsp.ParseResponse", func() string { return respSummary(ocsp.ParseResponse(deleg, p.wrong.cert)) }},
			{"ocsp.ParseResponse", func() string { return respSummary(ocsp.ParseResponse(multi, issuer)) }},
			{"ocsp.Response.CheckSignatureFrom", func() string {
				resp, err := ocsp.ParseResponse(direct, nil)
				if err != nil {
					return "ERR"
				}
				return fmt.Sprint(resp.CheckSignatureFrom(issuer) == nil, resp.CheckSignatureFrom(p.wrong.cert) == nil)
			}},
			{"ocsp.ParseRequest", func() string { return reqSummary(ocsp.ParseRequest(reqDER)) }},
			{"ocsp.CreateRequest", func() string {
				b, err := ocsp.CreateRequest(reqCert, issuer, &ocsp.RequestOptions{Hash: crypto.SHA256})
				return fmt.Sprintf("%x %v", b, err)
			}},
			{"ocsp.CreateRequest", func() string {
				b, err := ocsp.CreateRequest(&x509.Certificate{SerialNumber: serials[3]}, p.wrong.cert, nil)
				return fmt.Sprintf("%x %v", b, err)
			}},
			{"ocsp.CreateResponse", func() string {
				// randomised (ECDSA) and clocked (ProducedAt): judged on its own merits
				der, err := ocsp.CreateResponse(issuer, p.delegate.cert, tmpl, signer)
				if err != nil {
					return "create-error: " + err.Error()
				}
				ref, err := ocspref.Parse(der)
				if err != nil || len(ref.Singles) != 1 {
					return "not-der"
				}
				if !verifyRaw(p.delegate.cert.PublicKey, ref.SigAlgOID, ref.TBSBytes(), ref.SigBytes) {
					return "signature-does-not-verify"
				}
				got, err := ocsp.ParseResponse(der, issuer)
				if err != nil {
					return "parse-error: " + err.Error()
				}
				s := ref.Singles[0]
				nh, kh := issuerHashesOf(issuer, crypto.SHA256)
				if got.Status != ocsp.Revoked || got.SerialNumber.Cmp(serials[2]) != 0 || !got.ThisUpdate.Equal(this) || !got.NextUpdate.Equal(next) || !got.RevokedAt.Equal(tmpl.RevokedAt) ||
					got.RevocationReason != ocsp.KeyCompromise || len(got.Extensions) != len(tmpl.ExtraExtensions) || got.Certificate == nil || !bytes.Equal(got.Certificate.Raw, p.delegate.cert.Raw) ||
					!bytes.Equal(s.NameHash, nh) || !bytes.Equal(s.KeyHash, kh) || !bytes.Equal(got.RawResponderName, p.delegate.cert.RawSubject) || len(cmpGoRef(got, ref, 0)) != 0 {
					return "fields-differ"
				}
				for k, e := range tmpl.ExtraExtensions {
					if !got.Extensions[k].Id.Equal(e.Id) || !bytes.Equal(got.Extensions[k].Value, e.Value) {
						return "extensions-differ"
					}
				}
				return "ok"
			}},
		}
		for k, s := range serials {
			c := &x509.Certificate{SerialNumber: s}
			_ = k
			tasks = append(tasks, concTask{"ocsp.ParseResponseForCert", func() string { return respSummary(ocsp.ParseResponseForCert(multi, c, issuer)) }})
		}
		// expected outcomes: single-threaded run of the same calls (their correctness is what the other streams establish)
		want := make([]string, len(tasks))
		for k, t := range tasks {
			want[k] = t.run()
		}
		// sanity of the setup by construction
		if want[0] == "ERR" || want[1] == "ERR" || want[2] != "ERR" || want[3] != "ERR" || want[4] != "ERR" || want[5] != "ERR" || want[6] != "true false" || want[10] != "ok" {
			m.Violation("conc:single-threaded-baseline-wrong", map[string]any{"pki": p.name, "want": want[:11]})
			return
		}
		// per-goroutine task orders, fixed before the barrier
		orders := make([][]int, G)
		for g := range orders {
			o := r.Perm(len(tasks))
			orders[g] = append(o, r.Perm(len(tasks))...)
		}
		got := make([][]string, G)
		maxIn, panics := concRun(G, single, func(id int, yield func()) {
			out := make([]string, 0, len(orders[id]))
			for _, k := range orders[id] {
				out = append(out, tasks[k].run())
				yield()
			}
			got[id] = out
		})
		m.Count("conc_rounds", 1)
		if single {
			m.Count("conc_rounds_gomaxprocs1", 1)
		}
		if maxIn >= 2 {
			m.Count("conc_rounds_overlapped", 1)
		}
		m.Count("conc_max_in_flight_sum", maxIn)
		for _, pv := range panics {
			m.Violation("concurrent-panic:shared:ocsp", map[string]any{"panic": pv, "pki": p.name})
		}
		for g := 0; g < G; g++ {
			for j, k := range orders[g] {
				if j >= len(got[g]) {
					break
				}
				m.Eval()
				m.Count("conc_calls", 1)
				m.Count("conc_calls:"+tasks[k].api, 1)
				if got[g][j] != want[k] {
					m.Violation("concurrent-result-differs:shared:"+tasks[k].api, map[string]any{"pki": p.name, "goroutine": g, "task": k, "gomaxprocs1": single,
						"got": got[g][j], "want": want[k], "direct": mon.FullHex(direct), "delegated": mon.FullHex(deleg), "multi": mon.FullHex(multi)})
				}
			}
		}
		m.Distinct(fmt.Sprintf("conc %s/%s single=%v", issuerKind, delegKind, single))
	})
}

func (w *c48w) concGates() {
	m := w.m
	m.Gate("conc_rounds_overlapped", m.N(16, 240), "rounds in which at least two goroutines were inside the package at once")
	m.Gate("conc_rounds_gomaxprocs1", m.N(8, 100), "rounds run under GOMAXPROCS(1)")
	m.Gate("conc_calls", m.N(2800, 40000), "calls made from concurrently running goroutines and compared with the single-threaded outcome")
}

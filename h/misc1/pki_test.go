package misc1

// Key pool and small PKIs for C48/C49. Everything is a pure function of
// VERIF_SEED: RSA keys are static PEM (rsakeys_test.go), ECDSA keys and every
// signature/serial drawn from crypto/rand are made deterministic with
// testing/cryptotest.SetGlobalRandom, reseeded per PKI / per case from a label.

import (
	"crypto"
	"crypto/ecdsa"
	"crypto/elliptic"
	"crypto/rand"
	"crypto/rsa"
	"crypto/x509"
	"crypto/x509/pkix"
	"encoding/pem"
	"fmt"
	"hash/fnv"
	"math/big"
	"os"
	"sync"
	"testing"
	"testing/cryptotest"
	"time"
)

// reseed makes crypto/rand (and every implicit randomness source of the
// standard crypto packages) a deterministic function of (VERIF_SEED, label).
func reseed(t *testing.T, label string) {
	h := fnv.New64a()
	fmt.Fprintf(h, "%s|%s", os.Getenv("VERIF_SEED"), label)
	cryptotest.SetGlobalRandom(t, h.Sum64())
}

var (
	keyMu    sync.Mutex
	rsaCache = map[string]*rsa.PrivateKey{}
	ecCache  = map[string]*ecdsa.PrivateKey{}
)

func rsaKey(name string) *rsa.PrivateKey {
	keyMu.Lock()
	defer keyMu.Unlock()
	if k, ok := rsaCache[name]; ok {
		return k
	}
	p, _ := pem.Decode([]byte(rsaPEM[name]))
	if p == nil {
		panic("no such static RSA key: " + name)
	}
	k, err := x509.ParsePKCS1PrivateKey(p.Bytes)
	if err != nil {
		panic("static RSA key " + name + ": " + err.Error())
	}
	rsaCache[name] = k
	return k
}

func curveOf(kind string) elliptic.Curve {
	switch kind {
	case "p256":
		return elliptic.P256()
	case "p384":
		return elliptic.P384()
	case "p521":
		return elliptic.P521()
	}
	return nil
}

// ecKey returns the idx-th deterministic key of a curve.
func ecKey(t *testing.T, kind string, idx int) *ecdsa.PrivateKey {
	name := fmt.Sprintf("%s#%d", kind, idx)
	keyMu.Lock()
	defer keyMu.Unlock()
	if k, ok := ecCache[name]; ok {
		return k
	}
	reseed(t, "eckey|"+name)
	k, err := ecdsa.GenerateKey(curveOf(kind), rand.Reader)
	if err != nil {
		panic(err)
	}
	ecCache[name] = k
	return k
}

var rsaRole = []string{"rsa2048a", "rsa2048b", "rsa2048c", "rsa2048d", "rsa3072a"}

// signerKey is a private key with a stable identity (who-signed-what is
// decided by comparing ids, never by looking at bytes).
type signerKey struct {
	id   string
	kind string // rsa | p256 | p384 | p521
	key  crypto.Signer
}

func poolKey(t *testing.T, kind string, role int) *signerKey {
	if kind == "rsa" {
		n := rsaRole[role%len(rsaRole)]
		return &signerKey{id: n, kind: kind, key: rsaKey(n)}
	}
	return &signerKey{id: fmt.Sprintf("%s#%d", kind, role), kind: kind, key: ecKey(t, kind, role)}
}

// certInfo is a certificate plus the harness's knowledge about it.
type certInfo struct {
	label    string
	cert     *x509.Certificate
	key      *signerKey // subject key
	signedBy string     // id of the key that really signed it
	clean    bool       // ordinary delegate/CA: valid, right EKU
}

var (
	farPast   = time.Date(2000, 1, 1, 0, 0, 0, 0, time.UTC)
	farFuture = time.Date(2100, 1, 1, 0, 0, 0, 0, time.UTC)
)

func mkCert(label string, serial int64, subject pkix.Name, subjKey *signerKey, parent *x509.Certificate, parentKey *signerKey, ca bool, ocspEKU bool, mod func(*x509.Certificate)) *certInfo {
	tmpl := &x509.Certificate{
		SerialNumber: big.NewInt(serial),
		Subject:      subject,
		NotBefore:    farPast,
		NotAfter:     farFuture,
	}
	if ca {
		tmpl.IsCA, tmpl.BasicConstraintsValid = true, true
		tmpl.KeyUsage = x509.KeyUsageCertSign | x509.KeyUsageCRLSign | x509.KeyUsageDigitalSignature
	} else {
		tmpl.KeyUsage = x509.KeyUsageDigitalSignature
		if ocspEKU {
			tmpl.ExtKeyUsage = []x509.ExtKeyUsage{x509.ExtKeyUsageOCSPSigning}
		}
	}
	if mod != nil {
		mod(tmpl)
	}
	if parent == nil {
		parent = tmpl
	}
	der, err := x509.CreateCertificate(rand.Reader, tmpl, parent, subjKey.key.Public(), parentKey.key)
	if err != nil {
		panic(fmt.Sprintf("mkCert %s: %v", label, err))
	}
	c, err := x509.ParseCertificate(der)
	if err != nil {
		panic(fmt.Sprintf("mkCert %s parse: %v", label, err))
	}
	return &certInfo{label: label, cert: c, key: subjKey, signedBy: parentKey.id, clean: true}
}

// pki is one little world: who is the issuer, its delegates and the
// adversaries. All members are fixed by (issuerKind, delegKind, inter).
type pki struct {
	name         string
	root         *certInfo // self-signed
	issuer       *certInfo // == root unless inter
	delegate     *certInfo // OCSPSigning EKU, signed by issuer
	delegNoEKU   *certInfo // no EKU, signed by issuer (acceptance not promised either way)
	delegExpired *certInfo // EKU, validity long over, signed by issuer (ditto)
	forged       *certInfo // attacker key, Issuer name/AKI = issuer's, but signed by the attacker
	attackerSelf *certInfo // attacker key, self-signed, OCSPSigning EKU
	wrong        *certInfo // another CA: other key, other name
	sameName     *certInfo // another CA: other key, SAME subject name and SKI as issuer
	sameKey      *certInfo // same key as issuer, other name (self-signed)
	delegOfWrong *certInfo // delegate legitimately issued by `wrong`
	leaf         *certInfo // end-entity the responses talk about
	attacker     *signerKey
}

var (
	pkiMu    sync.Mutex
	pkiCache = map[string]*pki{}
)

// getPKI builds (once per process) the PKI for a key-kind combination. It
// reseeds the global randomness: callers reseed for their case afterwards.
func getPKI(t *testing.T, issuerKind, delegKind string, inter bool) *pki {
	name := fmt.Sprintf("%s/%s/inter=%v", issuerKind, delegKind, inter)
	pkiMu.Lock()
	defer pkiMu.Unlock()
	if p, ok := pkiCache[name]; ok {
		return p
	}
	rootK := poolKey(t, issuerKind, 0)
	interK := poolKey(t, issuerKind, 1)
	delegK := poolKey(t, delegKind, 2)
	attK := poolKey(t, delegKind, 3)
	wrongK := poolKey(t, issuerKind, 4)
	if issuerKind == delegKind && issuerKind == "rsa" {
		// keep roles on distinct static keys: a,b,c,d,3072a already distinct
	}
	reseed(t, "pki|"+name)
	p := &pki{name: name, attacker: attK}
	p.root = mkCert("root", 1, pkix.Name{CommonName: "C48 Root " + issuerKind, Organization: []string{"verif"}}, rootK, nil, rootK, true, false, nil)
	p.issuer = p.root
	issuerK := rootK
	if inter {
		p.issuer = mkCert("inter", 2, pkix.Name{CommonName: "C48 Issuing CA " + issuerKind, Organization: []string{"verif"}}, interK, p.root.cert, rootK, true, false, nil)
		issuerK = interK
	}
	p.delegate = mkCert("delegate", 10, pkix.Name{CommonName: "C48 OCSP Responder"}, delegK, p.issuer.cert, issuerK, false, true, nil)
	p.delegNoEKU = mkCert("delegate-noeku", 11, pkix.Name{CommonName: "C48 OCSP Responder (no EKU)"}, delegK, p.issuer.cert, issuerK, false, false, nil)
	p.delegNoEKU.clean = false
	p.delegExpired = mkCert("delegate-expired", 12, pkix.Name{CommonName: "C48 OCSP Responder (expired)"}, delegK, p.issuer.cert, issuerK, false, true, func(c *x509.Certificate) {
		c.NotBefore, c.NotAfter = time.Date(1990, 1, 1, 0, 0, 0, 0, time.UTC), time.Date(1991, 1, 1, 0, 0, 0, 0, time.UTC)
	})
	p.delegExpired.clean = false
	// forged: names the issuer as its Issuer (and copies its key id) but is signed by the attacker's own key
	fakeParent := &x509.Certificate{Subject: p.issuer.cert.Subject, RawSubject: p.issuer.cert.RawSubject, SubjectKeyId: p.issuer.cert.SubjectKeyId}
	p.forged = mkCert("forged", 10, pkix.Name{CommonName: "C48 OCSP Responder"}, attK, fakeParent, attK, false, true, nil)
	p.forged.clean = false
	p.attackerSelf = mkCert("attacker-self", 66, pkix.Name{CommonName: "C48 Mallory"}, attK, nil, attK, false, true, nil)
	p.attackerSelf.clean = false
	p.wrong = mkCert("wrong", 1, pkix.Name{CommonName: "C48 Other CA " + issuerKind, Organization: []string{"verif"}}, wrongK, nil, wrongK, true, false, nil)
	p.sameName = mkCert("same-name", 1, p.issuer.cert.Subject, wrongK, nil, wrongK, true, false, func(c *x509.Certificate) {
		c.SubjectKeyId = p.issuer.cert.SubjectKeyId
	})
	p.sameKey = mkCert("same-key", 7, pkix.Name{CommonName: "C48 Renamed CA"}, issuerK, nil, issuerK, true, false, nil)
	p.delegOfWrong = mkCert("delegate-of-wrong", 10, pkix.Name{CommonName: "C48 OCSP Responder"}, delegK, p.wrong.cert, wrongK, false, true, nil)
	p.delegOfWrong.clean = false
	p.leaf = mkCert("leaf", 1000, pkix.Name{CommonName: "leaf.example"}, attK, p.issuer.cert, issuerK, false, false, nil)
	pkiCache[name] = p
	return p
}

func pemCert(c *x509.Certificate) []byte {
	return pem.EncodeToMemory(&pem.Block{Type: "CERTIFICATE", Bytes: c.Raw})
}

func pemKey(k crypto.Signer) []byte {
	der, err := x509.MarshalPKCS8PrivateKey(k)
	if err != nil {
		panic(err)
	}
	return pem.EncodeToMemory(&pem.Block{Type: "PRIVATE KEY", Bytes: der})
}

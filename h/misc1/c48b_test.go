package misc1

import (
	"crypto/x509"
	"fmt"
	"math/big"
	mrand "math/rand/v2"
	"sync"
	"time"

	"golang.org/x/crypto/ocsp"
	"verif/mon"
	"verif/ref/ocspref"
)

// ---- binding: accepted only if signed by the issuer or an issuer-signed embedded cert ----

type bindScen struct {
	name   string
	signer func(p *pki) *signerKey
	certs  func(p *pki) []*certInfo
	// responder certificate used for the responder ID (any cert of the signer's key)
	responder func(p *pki) *certInfo
}

var bindScens = []bindScen{
	{"issuer-signed/no-cert", func(p *pki) *signerKey { return p.issuer.key }, nil, func(p *pki) *certInfo { return p.issuer }},
	{"delegate-signed/[delegate]", func(p *pki) *signerKey { return p.delegate.key }, func(p *pki) []*certInfo { return []*certInfo{p.delegate} }, func(p *pki) *certInfo { return p.delegate }},
	{"attacker-signed/no-cert", func(p *pki) *signerKey { return p.attacker }, nil, func(p *pki) *certInfo { return p.attackerSelf }},
	{"attacker-signed/[forged]", func(p *pki) *signerKey { return p.attacker }, func(p *pki) []*certInfo { return []*certInfo{p.forged} }, func(p *pki) *certInfo { return p.forged }},
	{"attacker-signed/[attacker-self]", func(p *pki) *signerKey { return p.attacker }, func(p *pki) []*certInfo { return []*certInfo{p.attackerSelf} }, func(p *pki) *certInfo { return p.attackerSelf }},
	{"attacker-signed/[delegate]", func(p *pki) *signerKey { return p.attacker }, func(p *pki) []*certInfo { return []*certInfo{p.delegate} }, func(p *pki) *certInfo { return p.delegate }},
	{"delegate-signed/no-cert", func(p *pki) *signerKey { return p.delegate.key }, nil, func(p *pki) *certInfo { return p.delegate }},
	{"issuer-signed/[delegate]", func(p *pki) *signerKey { return p.issuer.key }, func(p *pki) []*certInfo { return []*certInfo{p.delegate} }, func(p *pki) *certInfo { return p.issuer }},
	{"issuer-signed/[issuer]", func(p *pki) *signerKey { return p.issuer.key }, func(p *pki) []*certInfo { return []*certInfo{p.issuer} }, func(p *pki) *certInfo { return p.issuer }},
	{"delegate-signed/[delegate-noeku]", func(p *pki) *signerKey { return p.delegate.key }, func(p *pki) []*certInfo { return []*certInfo{p.delegNoEKU} }, func(p *pki) *certInfo { return p.delegNoEKU }},
	{"delegate-signed/[delegate-expired]", func(p *pki) *signerKey { return p.delegate.key }, func(p *pki) []*certInfo { return []*certInfo{p.delegExpired} }, func(p *pki) *certInfo { return p.delegExpired }},
	{"delegate-signed/[delegate-of-wrong]", func(p *pki) *signerKey { return p.delegate.key }, func(p *pki) []*certInfo { return []*certInfo{p.delegOfWrong} }, func(p *pki) *certInfo { return p.delegOfWrong }},
	{"delegate-signed/[forged,delegate]", func(p *pki) *signerKey { return p.delegate.key }, func(p *pki) []*certInfo { return []*certInfo{p.forged, p.delegate} }, func(p *pki) *certInfo { return p.delegate }},
	{"delegate-signed/[delegate,forged]", func(p *pki) *signerKey { return p.delegate.key }, func(p *pki) []*certInfo { return []*certInfo{p.delegate, p.forged} }, func(p *pki) *certInfo { return p.delegate }},
	{"attacker-signed/[attacker-self,delegate]", func(p *pki) *signerKey { return p.attacker }, func(p *pki) []*certInfo { return []*certInfo{p.attackerSelf, p.delegate} }, func(p *pki) *certInfo { return p.attackerSelf }},
	{"attacker-signed/[delegate,attacker-self]", func(p *pki) *signerKey { return p.attacker }, func(p *pki) []*certInfo { return []*certInfo{p.delegate, p.attackerSelf} }, func(p *pki) *certInfo { return p.attackerSelf }},
	{"attacker-signed/[forged,delegate]", func(p *pki) *signerKey { return p.attacker }, func(p *pki) []*certInfo { return []*certInfo{p.forged, p.delegate} }, func(p *pki) *certInfo { return p.forged }},
	{"other-ca-signed/no-cert", func(p *pki) *signerKey { return p.wrong.key }, nil, func(p *pki) *certInfo { return p.wrong }},
}

// bindExpect derives the verdict from key identities alone.
//
//	mustReject: the signer is neither the verifying certificate's key nor the
//	  key of an embedded certificate signed by that key (property statement);
//	  with a nil issuer: an embedded certificate is present and its key did
//	  not sign ("that certificate will be used to verify the response
//	  signature").
//	mustAccept: what ParseResponse documents as sufficient: no certificate and
//	  signed by the issuer key; or exactly one ordinary delegate certificate
//	  (OCSPSigning, in validity) whose key signed and which the issuer signed.
//	otherwise neither (the text does not decide: EKU, expiry, several
//	  certificates, issuer-signed responses carrying some other certificate).
func bindExpect(signer *signerKey, certs []*certInfo, v *certInfo) (mustAccept, mustReject bool) {
	if v == nil {
		if len(certs) == 0 {
			return true, false
		}
		if signer.id == certs[0].key.id {
			return len(certs) == 1, false
		}
		for _, c := range certs[1:] {
			if signer.id == c.key.id {
				return false, false // a later certificate matches: not decided
			}
		}
		return false, true
	}
	vid := v.key.id
	authorized := signer.id == vid
	for _, c := range certs {
		if signer.id == c.key.id && c.signedBy == vid {
			authorized = true
		}
	}
	if !authorized {
		return false, true
	}
	if len(certs) == 0 {
		return true, false
	}
	f := certs[0]
	if len(certs) == 1 && signer.id == f.key.id && f.signedBy == vid && f.clean {
		return true, false
	}
	return false, false
}

func (w *c48w) binding() {
	m := w.m
	nS := len(bindScens)
	m.Cases("binding", m.N(18*16*2, 18*16*40), func(i int64, r *mrand.Rand) {
		sc := bindScens[int(i)%nS]
		combo := int(i/int64(nS)) % 16
		issuerKind, delegKind := c48Kinds[combo%4], c48Kinds[combo/4]
		inter := (i/int64(nS*16))%2 == 1
		p := getPKI(w.t, issuerKind, delegKind, inter)
		reseed(w.t, fmt.Sprintf("bind|%d", i))
		signer := sc.signer(p)
		var certs []*certInfo
		if sc.certs != nil {
			certs = sc.certs(p)
		}
		responder := sc.responder(p)
		alg := mon.Pick(r, algsFor(signer.kind))
		ai := sigAlgByAlg(alg)
		serial, _ := genSerial(r)
		this, _ := genTimeOK(r)
		useBuilder := len(certs) > 1 || r.IntN(2) == 0
		var der []byte
		prod := "CreateResponse"
		if useBuilder {
			prod = "builder"
			byKey := r.IntN(2) == 0
			if byKey {
				prod = "builder-byKey"
			}
			der = buildResponse(p.issuer.cert, &issuerHashes[r.IntN(4)], byKey, responder.cert, this, []builtSingle{{serial: serial, status: ocsp.Good, this: this}}, nil, signer, ai, certs)
		} else {
			tmpl := ocsp.Response{Status: ocsp.Good, SerialNumber: serial, ThisUpdate: this, SignatureAlgorithm: alg}
			if len(certs) == 1 {
				tmpl.Certificate = certs[0].cert
			}
			var err error
			der, err = w.create(time.Duration(i%100000)*time.Hour, p.issuer.cert, responder.cert, tmpl, signer.key)
			if err != nil {
				m.Violation("binding:create-fails", map[string]any{"scenario": sc.name, "pki": p.name, "err": err.Error()})
				return
			}
		}
		verifiers := []*certInfo{p.issuer, p.wrong, p.sameName, p.sameKey, nil}
		if inter {
			verifiers = append(verifiers, p.root)
		}
		for _, v := range verifiers {
			vname := "nil"
			var vc *x509.Certificate
			if v != nil {
				vname, vc = v.label, v.cert
			}
			mustAccept, mustReject := bindExpect(signer, certs, v)
			if ai.hash.String() == "SHA-1" {
				mustAccept = false // crypto/x509 documents SHA-1 acceptance in CheckSignature as "currently"
			}
			got, err := ocsp.ParseResponse(der, vc)
			m.Eval()
			wit := map[string]any{"scenario": sc.name, "pki": p.name, "verify_with": vname, "producer": prod, "alg": ai.name, "der": mon.FullHex(der), "err": fmt.Sprint(err)}
			m.Distinct(fmt.Sprintf("bind %s verify=%s %s/%s inter=%v %s", sc.name, vname, issuerKind, delegKind, inter, prod))
			switch {
			case mustReject:
				m.Count("bind_must_reject", 1)
				if sc.name == "attacker-signed/[forged]" && vname == "root" || sc.name == "attacker-signed/[forged]" && vname == "issuer" {
					m.Count("bind_forged_delegate", 1)
				}
				if v != nil && v != p.issuer && v != p.sameKey && (sc.name == "issuer-signed/no-cert" || sc.name == "delegate-signed/[delegate]") {
					m.Count("bind_wrong_issuer", 1)
				}
				if err == nil {
					m.Violation(fmt.Sprintf("binding:accepted-unauthorized:%s:verify=%s", sc.name, vname), wit)
				}
			case mustAccept:
				m.Count("bind_must_accept", 1)
				if err != nil {
					m.Violation(fmt.Sprintf("binding:rejected-authorized:%s:verify=%s", sc.name, vname), wit)
				} else if got.SerialNumber.Cmp(serial) != 0 || !got.ThisUpdate.Equal(this.Truncate(time.Second)) {
					m.Violation("binding:accepted-with-wrong-fields", wit)
				}
			default:
				if err == nil {
					m.Count("bind_undecided_accepted", 1)
					m.Count("bind_undecided_accepted:"+sc.name+":verify="+vname, 1)
				} else {
					m.Count("bind_undecided_rejected", 1)
					m.Count("bind_undecided_rejected:"+sc.name+":verify="+vname, 1)
				}
			}
		}
		if i < int64(nS) && i%7 == 0 {
			m.Sample(map[string]any{"scenario": sc.name, "pki": p.name, "producer": prod, "alg": ai.name, "len": len(der)})
		}
	})
}

// ---- mutate: every byte of base responses ------------------------------------------

type mutBase struct {
	issuerKind, delegKind string
	inter                 bool
	delegate              bool // delegate-signed with embedded cert, else issuer-signed without
	builder               bool
}

var mutBasesQuick = []mutBase{
	{"rsa", "rsa", false, false, false},
	{"rsa", "p256", false, true, false},
	{"p256", "p256", false, false, true},
	{"p256", "rsa", true, true, true},
	{"p384", "p384", false, true, false},
	{"p384", "p256", true, false, false},
	{"p521", "p256", false, false, false},
	{"p256", "p521", false, true, true},
}

func allMutBases() []mutBase {
	out := append([]mutBase{}, mutBasesQuick...)
	for _, ik := range c48Kinds {
		for _, dk := range c48Kinds {
			for _, d := range []bool{false, true} {
				out = append(out, mutBase{ik, dk, d, d, !d}, mutBase{ik, dk, !d, !d, !d})
			}
		}
	}
	return out
}

type mutBuilt struct {
	der  []byte
	p    *pki
	ref  *ocspref.Resp
	orig *ocsp.Response
	err  error
}

var (
	mutMu    sync.Mutex
	mutCache = map[int]*mutBuilt{}
)

func (w *c48w) mutBaseResponse(idx int, b mutBase) *mutBuilt {
	mutMu.Lock()
	defer mutMu.Unlock()
	if x, ok := mutCache[idx]; ok {
		return x
	}
	p := getPKI(w.t, b.issuerKind, b.delegKind, b.inter)
	reseed(w.t, fmt.Sprintf("mutbase|%d", idx))
	r := w.m.Rand("mutbase", int64(idx))
	signer, responder := p.issuer.key, p.issuer
	var certs []*certInfo
	if b.delegate {
		signer, responder = p.delegate.key, p.delegate
		certs = []*certInfo{p.delegate}
	}
	alg := mon.Pick(r, algsFor(signer.kind)[1:]) // SHA-2 only: acceptance of the unmutated base must be certain
	ai := sigAlgByAlg(alg)
	serial, _ := genSerial(r)
	this, _ := genTimeOK(r)
	for y := this.UTC().Year(); y < 2 || y > 9998; y = this.UTC().Year() {
		this, _ = genTimeOK(r) // room for revokedAt = this-1h and nextUpdate = this+72h
	}
	next := this.Add(72 * time.Hour)
	reason := int64(ocsp.KeyCompromise)
	x := &mutBuilt{p: p}
	if b.builder {
		exts := []ocspref.BExt{{OID: []int{1, 3, 6, 1, 5, 5, 7, 48, 1, 99}, Value: mon.Bytes(r, 9)}}
		x.der = buildResponse(p.issuer.cert, &issuerHashes[r.IntN(4)], true, responder.cert, this, []builtSingle{{serial: serial, status: ocsp.Revoked, revoked: this.Add(-time.Hour), reason: &reason, this: this, next: &next, exts: exts}},
			[]ocspref.BExt{{OID: []int{1, 3, 6, 1, 5, 5, 7, 48, 1, 2}, Value: append([]byte{4, 16}, mon.Bytes(r, 16)...)}}, // responseExtensions (nonce): signed bytes the Go struct has no field for
			signer, ai, certs)
	} else {
		tmpl := ocsp.Response{Status: ocsp.Revoked, RevokedAt: this.Add(-time.Hour), RevocationReason: ocsp.KeyCompromise, SerialNumber: serial, ThisUpdate: this, NextUpdate: next, SignatureAlgorithm: alg, ExtraExtensions: genExts(r, false)}
		if b.delegate {
			tmpl.Certificate = p.delegate.cert
		}
		x.der, x.err = w.create(time.Duration(idx)*977*time.Hour, p.issuer.cert, responder.cert, tmpl, signer.key)
	}
	if x.err == nil {
		x.ref, x.err = ocspref.Parse(x.der)
	}
	if x.err == nil {
		x.orig, x.err = ocsp.ParseResponse(x.der, p.issuer.cert)
	}
	mutCache[idx] = x
	return x
}

const (
	mutChunk  = 32
	mutMaxLen = 2304
)

func (w *c48w) mutate() {
	m := w.m
	bases := mutBasesQuick
	if m.Thorough() {
		bases = allMutBases()
	}
	chunks := mutMaxLen / mutChunk
	m.Cases("mutate", len(bases)*chunks, func(i int64, r *mrand.Rand) {
		bi, ci := int(i)/chunks, int(i)%chunks
		b := bases[bi]
		x := w.mutBaseResponse(bi, b)
		desc := fmt.Sprintf("%s/%s inter=%v delegate=%v builder=%v", b.issuerKind, b.delegKind, b.inter, b.delegate, b.builder)
		if x.err != nil {
			if ci == 0 {
				m.Violation("mutate:base-response-not-accepted", map[string]any{"base": desc, "err": x.err.Error(), "der": mon.FullHex(x.der)})
			}
			return
		}
		if len(x.der) > mutMaxLen {
			if ci == 0 {
				m.Inconclusive(fmt.Sprintf("mutate: base %s is %d bytes > %d", desc, len(x.der), mutMaxLen))
			}
			return
		}
		lo, hi := ci*mutChunk, (ci+1)*mutChunk
		if hi > len(x.der) {
			hi = len(x.der)
		}
		if ci == 0 {
			m.Count("mut_bases", 1)
			m.Count("mut_base_bytes", len(x.der))
		}
		if lo < len(x.der) && hi == len(x.der) {
			m.Count("mut_bases_complete", 1) // the chunk holding the last byte ran; all earlier chunks are cases of this stream too
		}
		for pos := lo; pos < hi; pos++ {
			region := x.ref.Region(pos)
			deltas := []byte{0x01, byte(1 + r.IntN(255))}
			if m.Thorough() {
				deltas = append(deltas, 0x80, 0x20, x.der[pos], ^x.der[pos]) // → 0x00, → 0xff
			}
			seen := map[byte]bool{}
			for _, d := range deltas {
				if d == 0 || seen[d] {
					continue
				}
				seen[d] = true
				mut := append([]byte{}, x.der...)
				mut[pos] ^= d
				signedRegion := region == "tbs" || region == "sig" || (b.delegate && (region == "cert0-tbs" || region == "cert0-sig"))
				for _, withIssuer := range []bool{true, false} {
					var vc *x509.Certificate
					if withIssuer {
						vc = x.p.issuer.cert
					} else if !(b.delegate && (region == "tbs" || region == "sig")) {
						continue // nil issuer: only the embedded-certificate signature check is promised
					}
					got, err := ocsp.ParseResponse(mut, vc)
					m.Eval()
					m.Count("mut_positions", 1)
					m.Distinct(fmt.Sprintf("mut %s %s issuer=%v", desc, region, withIssuer))
					wit := map[string]any{"base": desc, "pos": pos, "xor": d, "region": region, "with_issuer": withIssuer, "der": mon.FullHex(x.der)}
					if signedRegion {
						m.Count("mut_signed_region", 1)
						m.Count("mut_region:"+region, 1)
						if err == nil && !withIssuer && got.Certificate == nil {
							// the mutation made the certificate list unreadable (e.g. a length byte that swallows
							// its tag); without issuer and certificate no signature check is promised
							m.Count("mut_nil_issuer_cert_vanished", 1)
							continue
						}
						if err == nil {
							m.Violation(fmt.Sprintf("mutate:accepted-modified-signed-bytes:%s:issuer=%v", region, withIssuer), wit)
						}
						continue
					}
					m.Count("mut_region:"+region, 1)
					if err == nil {
						m.Count("mut_outside_accepted", 1)
						m.Count("mut_outside_accepted:"+region, 1)
						if !signedFieldsEqual(got, x.orig) {
							m.Violation("mutate:unsigned-byte-changes-signed-fields:"+region, wit)
						}
					}
				}
			}
		}
	})
}

// ---- multi: several SingleResponses through ParseResponseForCert ---------------------

func (w *c48w) multi() {
	m := w.m
	m.Cases("multi", m.N(80, 2000), func(i int64, r *mrand.Rand) {
		kind := c48Kinds[int(i)%4]
		p := getPKI(w.t, kind, kind, false)
		reseed(w.t, fmt.Sprintf("multi|%d", i))
		n := 2 + r.IntN(5)
		var singles []builtSingle
		used := map[string]bool{}
		for k := 0; k < n; k++ {
			s, _ := genSerial(r)
			for used[s.String()] {
				s = new(big.Int).Add(s, big.NewInt(int64(1+r.IntN(9))))
			}
			used[s.String()] = true
			this, _ := genTimeOK(r)
			bs := builtSingle{serial: s, status: r.IntN(3), this: this}
			if bs.status == ocsp.Revoked {
				bs.revoked, _ = genTimeOK(r)
				if r.IntN(2) == 0 {
					v := int64(mon.Pick(r, docReasons))
					bs.reason = &v
				}
			}
			if r.IntN(2) == 0 {
				nx, _ := genTimeOK(r)
				bs.next = &nx
			}
			singles = append(singles, bs)
		}
		dup := r.IntN(4) == 0
		if dup { // the same serial twice: "the first status which contains a matching serial"
			d := singles[0]
			d.status = (d.status + 1) % 3
			d.revoked, _ = genTimeOK(r)
			singles = append(singles, d)
		}
		var respExts []ocspref.BExt
		if r.IntN(3) == 0 { // e.g. a nonce: RFC 6960 responseExtensions
			respExts = []ocspref.BExt{{OID: []int{1, 3, 6, 1, 5, 5, 7, 48, 1, 2}, Value: append([]byte{4, 8}, mon.Bytes(r, 8)...)}}
		}
		ai := sigAlgByAlg(mon.Pick(r, algsFor(kind)[1:]))
		produced, _ := genTimeOK(r)
		der := buildResponse(p.issuer.cert, &issuerHashes[r.IntN(4)], r.IntN(2) == 0, p.issuer.cert, produced, singles, respExts, p.issuer.key, ai, nil)
		ref, err := ocspref.Parse(der)
		if err != nil {
			m.Inconclusive("multi: walker rejects its own builder output: " + err.Error())
			return
		}
		m.Count("multi_cases", 1)
		m.Distinct(fmt.Sprintf("multi n=%d dup=%v respExts=%v %s", len(singles), dup, respExts != nil, kind))
		wit := map[string]any{"n": len(singles), "dup": dup, "der": mon.FullHex(der)}
		// nil cert and several statuses: documented error
		if _, err := ocsp.ParseResponseForCert(der, nil, p.issuer.cert); err == nil {
			m.Violation("multi:nil-cert-accepts-several-statuses", wit)
		}
		m.Eval()
		for k, s := range singles {
			want := k
			if dup && k == len(singles)-1 {
				want = 0
			}
			got, err := ocsp.ParseResponseForCert(der, &x509.Certificate{SerialNumber: new(big.Int).Set(s.serial)}, p.issuer.cert)
			m.Eval()
			if err != nil {
				wit["err"], wit["k"] = err.Error(), k
				m.Violation("multi:matching-serial-rejected", wit)
				continue
			}
			if bad := cmpGoRef(got, ref, want); len(bad) > 0 {
				wit["fields"], wit["k"] = bad, k
				m.Violation("multi:wrong-status-returned:"+bad[0], wit)
			}
			m.Count("multi_lookups", 1)
		}
		// a serial that is not there
		absent := new(big.Int).Add(singles[0].serial, big.NewInt(1))
		for used[absent.String()] {
			absent.Add(absent, big.NewInt(1))
		}
		if _, err := ocsp.ParseResponseForCert(der, &x509.Certificate{SerialNumber: absent}, p.issuer.cert); err == nil {
			m.Violation("multi:absent-serial-accepted", wit)
		}
		// wrong issuer must still be rejected for a multi-status response
		if _, err := ocsp.ParseResponseForCert(der, &x509.Certificate{SerialNumber: singles[0].serial}, p.wrong.cert); err == nil {
			m.Violation("multi:accepted-under-wrong-issuer", wit)
		}
	})
}

package misc1

// Keys and signers for C49.

import (
	"crypto"
	"crypto/ecdsa"
	"crypto/elliptic"
	"crypto/rand"
	"errors"
	"fmt"
	"io"
	"math/big"
	mrand "math/rand/v2"
	"sync"
	"testing"
)

// Scalars found once by an offline search (consecutive P+G steps from a
// random start): d·G has an X (resp. Y) coordinate at least two bytes shorter
// than the field. As private keys they give JWKs whose x / y need two bytes of
// left padding; as ECDSA nonces k they give r = x(kG) mod n that needs it.
var shortX2 = map[string][]string{
	"p256": {
		"2c597278436bdc0124c9c23255e31ecac0da1afc516c9c57ce5ba11230fc63ea",
		"2c597278436bdc0124c9c23255e31ecac0da1afc516c9c57ce5ba11230fd8e76",
		"2c597278436bdc0124c9c23255e31ecac0da1afc516c9c57ce5ba11230fe9b2a",
	},
	"p384": {
		"4957b9f1de085b235c897f910df087a2b661b941dc9f28bbd25c13cd6126815fe376f8601054b23fbb4972fe26df853",
		"4957b9f1de085b235c897f910df087a2b661b941dc9f28bbd25c13cd6126815fe376f8601054b23fbb4972fe26f28f7",
		"4957b9f1de085b235c897f910df087a2b661b941dc9f28bbd25c13cd6126815fe376f8601054b23fbb4972fe26f33b4",
	},
	"p521": {
		"746ca8db76494250146f2a660a0252409ee230e504aee8d71fbfe83c01e313714af8f7712f47a27436532c6b4a64662fd3f704e8e632c35cd29b805a7492de91e3",
		"746ca8db76494250146f2a660a0252409ee230e504aee8d71fbfe83c01e313714af8f7712f47a27436532c6b4a64662fd3f704e8e632c35cd29b805a7492de9273",
		"746ca8db76494250146f2a660a0252409ee230e504aee8d71fbfe83c01e313714af8f7712f47a27436532c6b4a64662fd3f704e8e632c35cd29b805a7492de99af",
	},
}

var shortY2 = map[string][]string{
	"p256": {
		"2c597278436bdc0124c9c23255e31ecac0da1afc516c9c57ce5ba11230fdf292",
		"2c597278436bdc0124c9c23255e31ecac0da1afc516c9c57ce5ba11230ff015e",
		"2c597278436bdc0124c9c23255e31ecac0da1afc516c9c57ce5ba11230ff9d30",
	},
	"p384": {
		"4957b9f1de085b235c897f910df087a2b661b941dc9f28bbd25c13cd6126815fe376f8601054b23fbb4972fe26c8445",
		"4957b9f1de085b235c897f910df087a2b661b941dc9f28bbd25c13cd6126815fe376f8601054b23fbb4972fe26d9fe1",
		"4957b9f1de085b235c897f910df087a2b661b941dc9f28bbd25c13cd6126815fe376f8601054b23fbb4972fe26e20e4",
	},
	"p521": {
		"746ca8db76494250146f2a660a0252409ee230e504aee8d71fbfe83c01e313714af8f7712f47a27436532c6b4a64662fd3f704e8e632c35cd29b805a7492de920b",
		"746ca8db76494250146f2a660a0252409ee230e504aee8d71fbfe83c01e313714af8f7712f47a27436532c6b4a64662fd3f704e8e632c35cd29b805a7492de94c8",
		"746ca8db76494250146f2a660a0252409ee230e504aee8d71fbfe83c01e313714af8f7712f47a27436532c6b4a64662fd3f704e8e632c35cd29b805a7492de9534",
	},
}

func coordSize(c elliptic.Curve) int { return (c.Params().BitSize + 7) / 8 }

func crvName(kind string) string {
	return map[string]string{"p256": "P-256", "p384": "P-384", "p521": "P-521"}[kind]
}

func algOf(kind string) string {
	return map[string]string{"p256": "ES256", "p384": "ES384", "p521": "ES512", "rsa": "RS256"}[kind]
}

func hashOf(kind string) crypto.Hash {
	return map[string]crypto.Hash{"p256": crypto.SHA256, "p384": crypto.SHA384, "p521": crypto.SHA512, "rsa": crypto.SHA256}[kind]
}

func hexBig(s string) *big.Int {
	v, ok := new(big.Int).SetString(s, 16)
	if !ok {
		panic("bad hex scalar")
	}
	return v
}

// ecFromScalar builds a private key from d with the standard library's raw
// key import.
func ecFromScalar(kind string, d *big.Int) *ecdsa.PrivateKey {
	c := curveOf(kind)
	b := d.FillBytes(make([]byte, coordSize(c)))
	k, err := ecdsa.ParseRawPrivateKey(c, b)
	if err != nil {
		panic(fmt.Sprintf("ecFromScalar(%s): %v", kind, err))
	}
	return k
}

// leadZeros is the number of bytes v is shorter than size.
func leadZeros(v *big.Int, size int) int { return size - len(v.Bytes()) }

// ecKeyClass returns a key of the wanted coordinate class:
//
//	"any"   fresh key
//	"x1"/"y1"  found by trial generation: X (Y) at least one byte short
//	           (P-521: at least two, one being trivial there)
//	"x2"/"y2"  from the embedded scalars: at least two bytes short
//
// The global randomness must have been reseeded by the caller.
func ecKeyClass(kind, class string, r *mrand.Rand) (*ecdsa.PrivateKey, int) {
	c := curveOf(kind)
	size := coordSize(c)
	switch class {
	case "x2":
		return ecFromScalar(kind, hexBig(shortX2[kind][r.IntN(3)])), 0
	case "y2":
		return ecFromScalar(kind, hexBig(shortY2[kind][r.IntN(3)])), 0
	}
	want := 1
	if kind == "p521" {
		want = 2
	}
	for tries := 1; ; tries++ {
		k, err := ecdsa.GenerateKey(c, rand.Reader)
		if err != nil {
			panic(err)
		}
		switch class {
		case "x1":
			if leadZeros(k.X, size) >= want {
				return k, tries
			}
		case "y1":
			if leadZeros(k.Y, size) >= want {
				return k, tries
			}
		default:
			return k, tries
		}
		if tries > 2000000 {
			panic("ecKeyClass: search did not terminate")
		}
	}
}

// opaqueSigner hides the concrete key type: only crypto.Signer is visible
// ("crypto.Signer-only keys", e.g. an HSM handle).
type opaqueSigner struct{ inner crypto.Signer }

func (o opaqueSigner) Public() crypto.PublicKey { return o.inner.Public() }
func (o opaqueSigner) Sign(r io.Reader, digest []byte, opts crypto.SignerOpts) ([]byte, error) {
	return o.inner.Sign(r, digest, opts)
}

// forceSigner is an ECDSA signer written with math/big + crypto/elliptic
// point arithmetic that chooses its nonce so that r or s has a wanted number
// of leading zero bytes. It is the harness's way to put the DER→R‖S
// conversion of the client in front of short integers by construction.
type forceSigner struct {
	kind  string
	curve elliptic.Curve
	d     *big.Int
	pub   *ecdsa.PublicKey
	rnd   *mrand.Rand

	mu    sync.Mutex
	shape string // normal | r1 | r2 | s1 | s2
	log   []forcedSig
	iters int64
}

type forcedSig struct {
	r, s  *big.Int
	shape string
}

func newForceSigner(kind string, key *ecdsa.PrivateKey, r *mrand.Rand) *forceSigner {
	return &forceSigner{kind: kind, curve: key.Curve, d: new(big.Int).Set(key.D), pub: &key.PublicKey, rnd: r, shape: "normal"}
}

func (f *forceSigner) Public() crypto.PublicKey { return f.pub }

func (f *forceSigner) setShape(s string) { f.mu.Lock(); f.shape = s; f.mu.Unlock() }

func (f *forceSigner) take() []forcedSig {
	f.mu.Lock()
	defer f.mu.Unlock()
	l := f.log
	f.log = nil
	return l
}

func derInt(v *big.Int) []byte {
	b := v.Bytes()
	if len(b) == 0 {
		b = []byte{0}
	}
	if b[0]&0x80 != 0 {
		b = append([]byte{0}, b...)
	}
	return append([]byte{0x02, byte(len(b))}, b...)
}

func derSeq(parts ...[]byte) []byte {
	var c []byte
	for _, p := range parts {
		c = append(c, p...)
	}
	if len(c) < 0x80 {
		return append([]byte{0x30, byte(len(c))}, c...)
	}
	return append([]byte{0x30, 0x81, byte(len(c))}, c...)
}

func (f *forceSigner) Sign(_ io.Reader, digest []byte, opts crypto.SignerOpts) ([]byte, error) {
	f.mu.Lock()
	defer f.mu.Unlock()
	n := f.curve.Params().N
	size := coordSize(f.curve)
	// FIPS 186-4 §6.4: z = leftmost min(len(n), len(digest)) bits of the digest
	z := new(big.Int).SetBytes(digest)
	if excess := 8*len(digest) - n.BitLen(); excess > 0 {
		z.Rsh(z, uint(excess))
	}
	shape := f.shape
	finish := func(k, r *big.Int) *big.Int {
		kinv := new(big.Int).ModInverse(k, n)
		s := new(big.Int).Mul(r, f.d)
		s.Add(s, z).Mul(s, kinv).Mod(s, n)
		return s
	}
	var r, s *big.Int
	if shape == "r2" {
		list := shortX2[f.kind]
		for _, h := range list {
			k := hexBig(h)
			x, _ := f.curve.ScalarBaseMult(k.Bytes())
			r = new(big.Int).Mod(x, n)
			s = finish(k, r)
			if r.Sign() != 0 && s.Sign() != 0 {
				break
			}
		}
	} else {
		// walk k, k+1, … with one point addition per step
		k := new(big.Int).SetBytes(func() []byte {
			b := make([]byte, size-1)
			for i := range b {
				b[i] = byte(f.rnd.Uint32())
			}
			b[0] |= 1
			return b
		}())
		x, y := f.curve.ScalarBaseMult(k.Bytes())
		gx, gy := f.curve.Params().Gx, f.curve.Params().Gy
		one := big.NewInt(1)
		wantR, wantS := 0, 0
		switch shape {
		case "r1":
			wantR = 1
		case "s1":
			wantS = 1
		case "s2":
			wantS = 2
		}
		if f.kind == "p521" { // one zero byte is the common case there: ask for one more
			if wantR > 0 {
				wantR++
			}
			if wantS > 0 {
				wantS++
			}
		}
		for it := 0; ; it++ {
			if it > 50000000 {
				return nil, errors.New("forceSigner: search did not terminate")
			}
			f.iters++
			r = new(big.Int).Mod(x, n)
			if r.Sign() != 0 && leadZeros(r, size) >= wantR {
				s = finish(k, r)
				if s.Sign() != 0 && leadZeros(s, size) >= wantS {
					break
				}
			}
			x, y = f.curve.Add(x, y, gx, gy)
			k.Add(k, one)
		}
	}
	f.log = append(f.log, forcedSig{r: r, s: s, shape: shape})
	return derSeq(derInt(r), derInt(s)), nil
}

var _ = testing.Short

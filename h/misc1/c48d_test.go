package misc1

import (
	"bytes"
	"crypto/x509"
	"fmt"
	"math/big"
	mrand "math/rand/v2"
	"time"

	"golang.org/x/crypto/ocsp"
	"verif/mon"
	"verif/ref/ocspref"
)

// ---- sigalg-relabel: the outer signatureAlgorithm is not signed ------------------------
//
// BasicOCSPResponse.signatureAlgorithm lies outside tbsResponseData, so an
// attacker can rewrite it freely. Whatever it is rewritten to, a response is
// only acceptable if the signature verifies, under the algorithm it now
// states, over the tbs bytes it now carries, with the issuer's (or the
// issuer-signed delegate's) key. Two families per base response:
//
//	forged : tbs of ANOTHER response (good instead of revoked …) + the
//	         original signature + relabelled algorithm   → never acceptable
//	intact : original tbs + original signature + relabelled algorithm
//	         → acceptable only if the stated algorithm is the one really used

type relabelOID struct {
	name string
	arcs []int
}

var relabelOIDs = []relabelOID{
	{"md2WithRSA", []int{1, 2, 840, 113549, 1, 1, 2}},
	{"md4WithRSA", []int{1, 2, 840, 113549, 1, 1, 3}},
	{"md5WithRSA", []int{1, 2, 840, 113549, 1, 1, 4}},
	{"sha1WithRSA", []int{1, 2, 840, 113549, 1, 1, 5}},
	{"sha256WithRSA", []int{1, 2, 840, 113549, 1, 1, 11}},
	{"sha384WithRSA", []int{1, 2, 840, 113549, 1, 1, 12}},
	{"sha512WithRSA", []int{1, 2, 840, 113549, 1, 1, 13}},
	{"sha224WithRSA", []int{1, 2, 840, 113549, 1, 1, 14}},
	{"rsassaPss", []int{1, 2, 840, 113549, 1, 1, 10}},
	{"rsaEncryption", []int{1, 2, 840, 113549, 1, 1, 1}},
	{"sha1WithRSA-oiw", []int{1, 3, 14, 3, 2, 29}},
	{"dsaWithSHA1", []int{1, 2, 840, 10040, 4, 3}},
	{"dsaWithSHA256", []int{2, 16, 840, 1, 101, 3, 4, 3, 2}},
	{"ecdsaWithSHA1", []int{1, 2, 840, 10045, 4, 1}},
	{"ecdsaWithSHA224", []int{1, 2, 840, 10045, 4, 3, 1}},
	{"ecdsaWithSHA256", []int{1, 2, 840, 10045, 4, 3, 2}},
	{"ecdsaWithSHA384", []int{1, 2, 840, 10045, 4, 3, 3}},
	{"ecdsaWithSHA512", []int{1, 2, 840, 10045, 4, 3, 4}},
	{"ed25519", []int{1, 3, 101, 112}},
	{"ed448", []int{1, 3, 101, 113}},
	{"md5-digest", []int{1, 2, 840, 113549, 2, 5}},
	{"sha256-digest", []int{2, 16, 840, 1, 101, 3, 4, 2, 1}},
	{"unknown-private-arc", []int{1, 3, 6, 1, 4, 1, 99999, 1, 2}},
	{"gost2012-256", []int{1, 2, 643, 7, 1, 1, 3, 2}},
}

// RSASSA-PSS-params for SHA-256/MGF1-SHA-256/salt 32 (RFC 4055 §3.1)
var pssParamsSHA256 = ocspref.Seq(
	ocspref.Ctx(0, ocspref.Seq(ocspref.OID([]int{2, 16, 840, 1, 101, 3, 4, 2, 1}), ocspref.Null())),
	ocspref.Ctx(1, ocspref.Seq(ocspref.OID([]int{1, 2, 840, 113549, 1, 1, 8}), ocspref.Seq(ocspref.OID([]int{2, 16, 840, 1, 101, 3, 4, 2, 1}), ocspref.Null()))),
	ocspref.Ctx(2, ocspref.Int(big.NewInt(32))),
)

var relabelParams = []struct {
	name string
	der  []byte
}{
	{"absent", nil},
	{"null", []byte{0x05, 0x00}},
	{"empty-octets", []byte{0x04, 0x00}},
	{"pss-sha256", pssParamsSHA256},
}

func oidDotted(arcs []int) string {
	s := ""
	for i, a := range arcs {
		if i > 0 {
			s += "."
		}
		s += fmt.Sprint(a)
	}
	return s
}

func (w *c48w) relabel() {
	m := w.m
	m.Cases("relabel", m.N(64, 1600), func(i int64, r *mrand.Rand) {
		issuerKind := c48Kinds[int(i)%4]
		delegKind := c48Kinds[int(i/4)%4]
		delegated := (i/16)%2 == 1
		builder := (i/32)%2 == 1
		inter := (i/64)%2 == 1
		p := getPKI(w.t, issuerKind, delegKind, inter)
		reseed(w.t, fmt.Sprintf("relabel|%d", i))
		path := "direct"
		signer, responder := p.issuer.key, p.issuer
		var certs []*certInfo
		if delegated {
			path = "delegated"
			signer, responder, certs = p.delegate.key, p.delegate, []*certInfo{p.delegate}
		}
		alg := mon.Pick(r, algsFor(signer.kind)[1:]) // really signed with a SHA-2 algorithm
		ai := sigAlgByAlg(alg)
		serial, _ := genSerial(r)
		this, _ := genTimeOK(r)
		for y := this.UTC().Year(); y < 2 || y > 9998; y = this.UTC().Year() {
			this, _ = genTimeOK(r) // room for revokedAt = this-1h and nextUpdate = this+96h
		}
		next := this.Add(96 * time.Hour)
		revoked := this.Add(-time.Hour)
		// A: what the responder signed (revoked). B: what the attacker would like it to say (good).
		var derA, derB []byte
		if builder {
			reason := int64(ocsp.KeyCompromise)
			ih := &issuerHashes[r.IntN(4)]
			byKey := r.IntN(2) == 0
			derA = buildResponse(p.issuer.cert, ih, byKey, responder.cert, this, []builtSingle{{serial: serial, status: ocsp.Revoked, revoked: revoked, reason: &reason, this: this, next: &next}}, nil, signer, ai, certs)
			derB = buildResponse(p.issuer.cert, ih, byKey, responder.cert, this, []builtSingle{{serial: serial, status: ocsp.Good, this: this, next: &next}}, nil, signer, ai, certs)
		} else {
			tA := ocsp.Response{Status: ocsp.Revoked, RevokedAt: revoked, RevocationReason: ocsp.KeyCompromise, SerialNumber: serial, ThisUpdate: this, NextUpdate: next, SignatureAlgorithm: alg}
			tB := ocsp.Response{Status: ocsp.Good, SerialNumber: serial, ThisUpdate: this, NextUpdate: next, SignatureAlgorithm: alg}
			if delegated {
				tA.Certificate, tB.Certificate = p.delegate.cert, p.delegate.cert
			}
			var err error
			off := time.Duration(i%5000) * 31 * time.Hour
			if derA, err = w.create(off, p.issuer.cert, responder.cert, tA, signer.key); err == nil {
				derB, err = w.create(off, p.issuer.cert, responder.cert, tB, signer.key)
			}
			if err != nil {
				m.Violation("relabel:create-fails", map[string]any{"pki": p.name, "err": err.Error()})
				return
			}
		}
		refA, errA := ocspref.Parse(derA)
		refB, errB := ocspref.Parse(derB)
		if errA != nil || errB != nil {
			m.Inconclusive(fmt.Sprintf("relabel case %d: walker cannot read the base responses: %v %v", i, errA, errB))
			return
		}
		tbsA, tbsB, sigA := refA.TBSBytes(), refB.TBSBytes(), refA.SigBytes
		rawCerts := refA.CertsRaw()
		// harness self-check: reassembling A with its own AlgorithmIdentifier gives A back, and A is accepted
		if !bytes.Equal(ocspref.AssembleRaw(tbsA, refA.SigAlgRaw(), sigA, rawCerts), derA) || bytes.Equal(tbsA, tbsB) {
			m.Inconclusive(fmt.Sprintf("relabel case %d: reassembly of the base response is not the identity", i))
			return
		}
		if _, err := ocsp.ParseResponse(derA, p.issuer.cert); err != nil {
			m.Violation("relabel:base-response-rejected:"+path, map[string]any{"pki": p.name, "alg": ai.name, "err": err.Error(), "der": mon.FullHex(derA)})
			return
		}
		m.Count("relabel_bases", 1)
		m.Count("relabel_bases:"+path, 1)
		signerPub := signer.key.Public()
		forCert := &x509.Certificate{SerialNumber: new(big.Int).Set(serial)}
		for _, o := range relabelOIDs {
			for _, pv := range relabelParams {
				algID := ocspref.Seq(ocspref.OID(o.arcs), pv.der)
				for _, family := range []string{"forged", "intact"} {
					tbs := tbsA
					if family == "forged" {
						tbs = tbsB
					}
					der := ocspref.AssembleRaw(tbs, algID, sigA, rawCerts)
					// the only legitimate acceptance: the stated algorithm verifies the carried tbs under the signer's key
					legit := verifyRaw(signerPub, oidDotted(o.arcs), tbs, sigA)
					if family == "forged" && legit {
						m.Inconclusive("relabel: a signature verifies over a tbs it was not made for")
						continue
					}
					wit := map[string]any{"pki": p.name, "path": path, "producer": map[bool]string{true: "builder", false: "CreateResponse"}[builder], "signed_with": ai.name,
						"stated": o.name, "stated_oid": oidDotted(o.arcs), "params": pv.name, "family": family, "der": mon.FullHex(der)}
					key := fmt.Sprintf("forgery-accepted:sigalg-relabel:%s:%s", o.name, path)
					judge := func(entry string, err error, got *ocsp.Response) {
						m.Eval()
						if legit {
							if err == nil {
								m.Count("relabel_legit_accepted", 1)
							} else {
								m.Count("relabel_legit_rejected", 1) // e.g. odd parameters: rejecting is allowed
							}
							return
						}
						m.Count("relabel_must_reject", 1)
						m.Count("relabel_must_reject:"+family, 1)
						if o.name == "md5WithRSA" || o.name == "md2WithRSA" || o.name == "sha1WithRSA" || o.name == "ecdsaWithSHA1" || o.name == "dsaWithSHA1" {
							m.Count("relabel_weak_digest_cases", 1)
						}
						if err == nil {
							wit["entry"] = entry
							if got != nil {
								wit["accepted_status"] = got.Status
							}
							m.Violation(key, wit)
						}
					}
					got, err := ocsp.ParseResponse(der, p.issuer.cert)
					judge("ParseResponse(issuer)", err, got)
					got, err = ocsp.ParseResponseForCert(der, forCert, p.issuer.cert)
					judge("ParseResponseForCert(cert,issuer)", err, got)
					// without issuer: the embedded certificate still has to verify the response; and
					// CheckSignatureFrom is the documented way to check a response parsed without issuer
					got, err = ocsp.ParseResponse(der, nil)
					if delegated {
						judge("ParseResponse(nil)+embedded-cert", err, got)
					}
					if err == nil && got != nil {
						judge("CheckSignatureFrom(signer-cert)", got.CheckSignatureFrom(responder.cert), got)
						if !legit {
							// and certainly not under anyone else's certificate
							if got.CheckSignatureFrom(p.wrong.cert) == nil {
								wit["entry"] = "CheckSignatureFrom(other-ca)"
								m.Violation(key, wit)
							}
						}
					} else if !delegated {
						m.Count("relabel_unparseable_without_issuer", 1)
					}
					m.Distinct(fmt.Sprintf("relabel %s %s %s %s signer=%s", path, o.name, pv.name, family, signer.kind))
				}
			}
		}
	})
}

// Package punycode is a small executable specification of the RFC 3492
// Punycode encoder (Bootstring with the Punycode parameters) plus the
// "xn--" ACE label rule of IDNA, written from the RFC text only. It shares no
// code with golang.org/x/net/idna. It is the independent witness the ACME
// harness uses for "what is the ASCII form of this internationalised name".
//
// Scope: labels are lower-cased with the simple Unicode lower-case mapping
// before encoding. That equals the UTS #46 mapping only for code points whose
// mapping is plain case folding; callers restrict themselves to such
// alphabets (Latin-1 letters without sharp s, Cyrillic, Greek without final
// sigma, CJK), see ToASCIISimple.
package punycode

import (
	"errors"
	"strings"
	"unicode"
)

// RFC 3492 section 5: parameter values for Punycode.
const (
	base        = 36
	tmin        = 1
	tmax        = 26
	skew        = 38
	damp        = 700
	initialBias = 72
	initialN    = 128
)

// digit returns the basic code point whose value is d (0..35): a..z, 0..9.
func digit(d int) byte {
	if d < 26 {
		return byte('a' + d)
	}
	return byte('0' + d - 26)
}

// adapt is the bias adaptation function of RFC 3492 section 6.1.
func adapt(delta, numpoints int, firsttime bool) int {
	if firsttime {
		delta = delta / damp
	} else {
		delta = delta / 2
	}
	delta += delta / numpoints
	k := 0
	for delta > ((base-tmin)*tmax)/2 {
		delta = delta / (base - tmin)
		k += base
	}
	return k + (((base - tmin + 1) * delta) / (delta + skew))
}

// Encode implements RFC 3492 section 6.3 (encoding procedure). The input is a
// sequence of code points; the output is the Punycode string (no ACE prefix).
func Encode(input []rune) (string, error) {
	n := initialN
	delta := 0
	bias := initialBias
	var out []byte
	for _, c := range input {
		if c < 0x80 {
			out = append(out, byte(c))
		}
	}
	b := len(out)
	h := b
	if b > 0 {
		out = append(out, '-')
	}
	for h < len(input) {
		// m = the minimum {non-basic} code point >= n in the input
		m := rune(0x7fffffff)
		for _, c := range input {
			if int(c) >= n && c < m {
				m = c
			}
		}
		inc := (int(m) - n) * (h + 1)
		if inc < 0 || delta+inc < delta {
			return "", errors.New("punycode: overflow")
		}
		delta += inc
		n = int(m)
		for _, c := range input {
			if int(c) < n {
				delta++
				if delta < 0 {
					return "", errors.New("punycode: overflow")
				}
			}
			if int(c) == n {
				q := delta
				for k := base; ; k += base {
					var t int
					switch {
					case k <= bias:
						t = tmin
					case k >= bias+tmax:
						t = tmax
					default:
						t = k - bias
					}
					if q < t {
						break
					}
					out = append(out, digit(t+((q-t)%(base-t))))
					q = (q - t) / (base - t)
				}
				out = append(out, digit(q))
				bias = adapt(delta, h+1, h == b)
				delta = 0
				h++
			}
		}
		delta++
		n++
	}
	return string(out), nil
}

// ToASCIISimple converts a dotted name to its ASCII (A-label) form: each label
// is lower-cased; labels containing non-ASCII code points become "xn--" +
// Encode(label). Empty labels (leading/trailing/double dots) are preserved as
// they are. No validation is performed.
func ToASCIISimple(name string) (string, error) {
	labels := strings.Split(name, ".")
	for i, l := range labels {
		rs := []rune(l)
		ascii := true
		for j, c := range rs {
			rs[j] = unicode.ToLower(c)
			if rs[j] >= 0x80 {
				ascii = false
			}
		}
		if ascii {
			labels[i] = string(rs)
			continue
		}
		p, err := Encode(rs)
		if err != nil {
			return "", err
		}
		labels[i] = "xn--" + p
	}
	return strings.Join(labels, "."), nil
}

package punycode

import (
	"strings"
	"testing"
)

func runes(cps ...int) []rune {
	r := make([]rune, len(cps))
	for i, c := range cps {
		r[i] = rune(c)
	}
	return r
}

// RFC 3492 section 7.1 sample strings.
func TestRFC3492Samples(t *testing.T) {
	tests := []struct {
		name string
		in   []rune
		want string
	}{
		{"A arabic", runes(0x0644, 0x064A, 0x0647, 0x0645, 0x0627, 0x0628, 0x062A, 0x0643, 0x0644, 0x0645, 0x0648, 0x0634, 0x0639, 0x0631, 0x0628, 0x064A, 0x061F), "egbpdaj6bu4bxfgehfvwxn"},
		{"B chinese simplified", runes(0x4ED6, 0x4EEC, 0x4E3A, 0x4EC0, 0x4E48, 0x4E0D, 0x8BF4, 0x4E2D, 0x6587), "ihqwcrb4cv8a8dqg056pqjye"},
		{"C chinese traditional", runes(0x4ED6, 0x5011, 0x7232, 0x4EC0, 0x9EBD, 0x4E0D, 0x8AAA, 0x4E2D, 0x6587), "ihqwctvzc91f659drss3x8bo0yb"},
		{"D czech", runes(0x0050, 0x0072, 0x006F, 0x010D, 0x0070, 0x0072, 0x006F, 0x0073, 0x0074, 0x011B, 0x006E, 0x0065, 0x006D, 0x006C, 0x0075, 0x0076, 0x00ED, 0x010D, 0x0065, 0x0073, 0x006B, 0x0079), "Proprostnemluvesky-uyb24dma41a"},
		{"I russian", runes(0x043F, 0x043E, 0x0447, 0x0435, 0x043C, 0x0443, 0x0436, 0x0435, 0x043E, 0x043D, 0x0438, 0x043D, 0x0435, 0x0433, 0x043E, 0x0432, 0x043E, 0x0440, 0x044F, 0x0442, 0x043F, 0x043E, 0x0440, 0x0443, 0x0441, 0x0441, 0x043A, 0x0438), "b1abfaaepdrnnbgefbadotcwatmq2g4l"},
		{"L 3nenB", runes(0x0033, 0x5E74, 0x0042, 0x7D44, 0x91D1, 0x516B, 0x5148, 0x751F), "3B-ww4c5e180e575a65lsy2b"},
		{"S ascii", []rune("-> $1.00 <-"), "-> $1.00 <--"},
	}
	for _, tt := range tests {
		got, err := Encode(tt.in)
		if err != nil || got != tt.want {
			t.Errorf("%s: Encode = %q, %v; want %q", tt.name, got, err, tt.want)
		}
	}
}

// Widely published A-labels (IDNA examples, registries' documentation).
func TestKnownALabels(t *testing.T) {
	tests := map[string]string{
		"bücher.example":   "xn--bcher-kva.example",
		"MÜNCHEN.example":  "xn--mnchen-3ya.example",
		"éÉ.com":           "xn--9caa.com",
		"例え.jp":            "xn--r8jz45g.jp",
		"пример.испытание": "xn--e1afmkfd.xn--80akhbyknj4f",
		"EXAMPLE.org.":     "example.org.",
		"παράδειγμα.test":  "xn--hxajbheg2az3al.test",
	}
	for in, want := range tests {
		got, err := ToASCIISimple(in)
		if err != nil || got != want {
			t.Errorf("ToASCIISimple(%q) = %q, %v; want %q", in, got, err, want)
		}
		if strings.ContainsFunc(got, func(r rune) bool { return r >= 0x80 }) {
			t.Errorf("non-ASCII output %q", got)
		}
	}
}

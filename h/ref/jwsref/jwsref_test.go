package jwsref

import (
	"bytes"
	"encoding/hex"
	"math/big"
	"testing"
)

// RFC 7638 §3.1 example.
func TestThumbprintRFC7638(t *testing.T) {
	nB64 := "0vx7agoebGcQSuuPiLJXZptN9nndrQmbXEps2aiAFbWhM78LhWx4cbbfAAtVT86zwu1RK7aPFFxuhDR1L6tSoc_BJECPebWKRXjBZCiFV4n3oknjhMstn64tZ_2W-5JsGY4Hc5n9yBXArwl93lqt7_RN5w6Cf0h4QyQ5v-65YGjQR0_FDW2QvzqY368QQMicAtaSqzs8KJZgnYb9c7d0zgdAZHzu6qMQvRL5hajrn1n91CbOpbISD08qNLyrdkt-bFTWhAI4vMQFh6WeZu0fM4lFd2NcRwr3XPksINHaQ-G_xBniIqbw0Ls1jF44-csFCur-kEgU8awapJzKnqDKgw"
	n, err := UnB64(nB64)
	if err != nil {
		t.Fatal(err)
	}
	got := Thumbprint(RSAJWK(new(big.Int).SetBytes(n), 65537))
	if got != "NzbLsXh8uDCcd-6MNwXF4W_7noWXFZAfHkxZsRGC9Xs" {
		t.Errorf("thumbprint %s", got)
	}
	if UInt(big.NewInt(65537)) != "AQAB" || UInt(new(big.Int).SetBytes(n)) != nB64 {
		t.Errorf("UInt")
	}
}

// RFC 7515 Appendix A.3 / RFC 7517 A.1 style EC key: the P-256 key of RFC 7515 A.3.1.
func TestECJWKFixedWidth(t *testing.T) {
	x, _ := UnB64("f83OJ3D2xF1Bg8vub9tLe1gHMzV76e8Tus9uPHvRVEU")
	y, _ := UnB64("x_FEzRu9m36HLN_tue659LNpXW6pCyStikYjKIWI5a0")
	j := ECJWK("P-256", new(big.Int).SetBytes(x), new(big.Int).SetBytes(y))
	if j["x"] != "f83OJ3D2xF1Bg8vub9tLe1gHMzV76e8Tus9uPHvRVEU" || j["y"] != "x_FEzRu9m36HLN_tue659LNpXW6pCyStikYjKIWI5a0" {
		t.Errorf("%v", j)
	}
	// a coordinate with leading zero octets keeps its width
	j = ECJWK("P-521", big.NewInt(1), big.NewInt(0x1ff))
	bx, _ := UnB64(j["x"])
	by, _ := UnB64(j["y"])
	if len(bx) != 66 || len(by) != 66 || bx[65] != 1 || by[64] != 1 || by[65] != 0xff {
		t.Errorf("width %d %d", len(bx), len(by))
	}
	if len(FixedWidth(big.NewInt(0), 32)) != 32 {
		t.Errorf("zero width")
	}
}

// RFC 4648 §10 vectors (base64url, padding stripped) + strictness.
func TestB64(t *testing.T) {
	for in, want := range map[string]string{"": "", "f": "Zg", "fo": "Zm8", "foo": "Zm9v", "foob": "Zm9vYg", "fooba": "Zm9vYmE", "foobar": "Zm9vYmFy"} {
		if B64([]byte(in)) != want {
			t.Errorf("B64(%q)=%s", in, B64([]byte(in)))
		}
		b, err := UnB64(want)
		if err != nil || string(b) != in {
			t.Errorf("UnB64(%q)=%q,%v", want, b, err)
		}
	}
	if B64([]byte{0xfb, 0xff}) != "-_8" {
		t.Errorf("alphabet")
	}
	for _, bad := range []string{"Zg==", "Zm8=", "Z", "Zm9vY", "Zh", "Zm9", "+/8", "Zm 9v", "Zm9v\n"} {
		if _, err := UnB64(bad); err == nil {
			t.Errorf("UnB64(%q) accepted", bad)
		}
	}
	raw, _ := hex.DecodeString("00ff10")
	back, _ := UnB64(B64(raw))
	if !bytes.Equal(raw, back) {
		t.Errorf("roundtrip")
	}
}

func TestMembersAndFlattened(t *testing.T) {
	if _, _, err := Members([]byte(`{"a":1,"a":2}`)); err == nil {
		t.Errorf("duplicate accepted")
	}
	if _, _, err := Members([]byte(`{"a":1} x`)); err == nil {
		t.Errorf("trailing accepted")
	}
	if _, _, err := Members([]byte(`[1]`)); err == nil {
		t.Errorf("array accepted")
	}
	// RFC 7515 A.7-style flattened object (header {"alg":"ES256"} protected)
	body := `{"payload":"eyJpc3MiOiJqb2UifQ","protected":"eyJhbGciOiJFUzI1NiJ9","signature":"AAEC"}`
	f, err := ParseFlattened([]byte(body))
	if err != nil {
		t.Fatal(err)
	}
	alg, _ := StringMember(f.Header, "alg")
	if alg != "ES256" || string(f.PayloadBytes) != `{"iss":"joe"}` || !bytes.Equal(f.Sig, []byte{0, 1, 2}) || string(f.SigningInput()) != "eyJhbGciOiJFUzI1NiJ9.eyJpc3MiOiJqb2UifQ" {
		t.Errorf("%+v", f)
	}
	for _, bad := range []string{
		`{"payload":"","protected":"eyJhbGciOiJFUzI1NiJ9","signature":"AAEC","header":{}}`,
		`{"payload":"","protected":"eyJhbGciOiJFUzI1NiJ9"}`,
		`{"payload":"","protected":"eyJhbGciOiJFUzI1NiJ9=","signature":"AAEC"}`,
		`{"payload":"","signatures":[]}`,
	} {
		if _, err := ParseFlattened([]byte(bad)); err == nil {
			t.Errorf("accepted %s", bad)
		}
	}
}

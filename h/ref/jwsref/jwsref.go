// Package jwsref is an executable reading of the parts of RFC 7515 (JWS),
// RFC 7517/7518 (JWK parameters for RSA and EC keys), RFC 7638 (JWK
// thumbprint) and RFC 8555 §6.2 that the ACME client has to get right. It is
// written from the RFC texts, shares no code with golang.org/x/crypto/acme
// and does not use a JOSE library.
package jwsref

import (
	"bytes"
	"crypto/sha256"
	"encoding/json"
	"errors"
	"fmt"
	"io"
	"math/big"
	"sort"
	"strings"
)

const b64alphabet = "ABCDEFGHIJKLMNOPQRSTUVWXYZabcdefghijklmnopqrstuvwxyz0123456789-_"

// B64 encodes per RFC 7515 §2 "Base64url Encoding": URL-safe alphabet, all
// trailing '=' omitted.
func B64(b []byte) string {
	var sb strings.Builder
	for i := 0; i < len(b); i += 3 {
		var v uint32
		n := len(b) - i
		if n > 3 {
			n = 3
		}
		for k := 0; k < 3; k++ {
			v <<= 8
			if k < n {
				v |= uint32(b[i+k])
			}
		}
		sb.WriteByte(b64alphabet[v>>18&63])
		sb.WriteByte(b64alphabet[v>>12&63])
		if n > 1 {
			sb.WriteByte(b64alphabet[v>>6&63])
		}
		if n > 2 {
			sb.WriteByte(b64alphabet[v&63])
		}
	}
	return sb.String()
}

// UnB64 decodes strictly: only the URL-safe alphabet, no padding, no
// whitespace, no impossible length (len%4 == 1), and unused trailing bits
// must be zero (canonical form).
func UnB64(s string) ([]byte, error) {
	if len(s)%4 == 1 {
		return nil, errors.New("jwsref: impossible base64url length")
	}
	var out []byte
	var acc uint32
	bits := 0
	for i := 0; i < len(s); i++ {
		k := strings.IndexByte(b64alphabet, s[i])
		if k < 0 {
			return nil, fmt.Errorf("jwsref: character %q outside the base64url alphabet", s[i])
		}
		acc = acc<<6 | uint32(k)
		bits += 6
		if bits >= 8 {
			bits -= 8
			out = append(out, byte(acc>>uint(bits)))
			acc &= 1<<uint(bits) - 1
		}
	}
	if acc != 0 {
		return nil, errors.New("jwsref: non-zero trailing bits")
	}
	if out == nil {
		out = []byte{}
	}
	return out, nil
}

// ---- JWK ------------------------------------------------------------------------

// FixedWidth returns v as exactly n big-endian octets (RFC 7518 §6.2.1.2: "the
// length of this octet string MUST be the full size of a coordinate for the
// curve"; RFC 7518 §3.4 for R and S).
func FixedWidth(v *big.Int, n int) []byte {
	b := v.Bytes()
	if len(b) > n {
		panic("jwsref: value wider than field")
	}
	out := make([]byte, n)
	copy(out[n-len(b):], b)
	return out
}

// CoordLen is ⌈bits/8⌉ for the three JWS curves.
func CoordLen(crv string) int {
	switch crv {
	case "P-256":
		return 32
	case "P-384":
		return 48
	case "P-521":
		return 66
	}
	return 0
}

// UInt is Base64urlUInt (RFC 7518 §2): minimal big-endian octets, zero is one
// zero octet.
func UInt(v *big.Int) string {
	b := v.Bytes()
	if len(b) == 0 {
		b = []byte{0}
	}
	return B64(b)
}

// ECJWK returns the required members of an EC public JWK.
func ECJWK(crv string, x, y *big.Int) map[string]string {
	n := CoordLen(crv)
	return map[string]string{"kty": "EC", "crv": crv, "x": B64(FixedWidth(x, n)), "y": B64(FixedWidth(y, n))}
}

// RSAJWK returns the required members of an RSA public JWK.
func RSAJWK(n *big.Int, e int) map[string]string {
	return map[string]string{"kty": "RSA", "n": UInt(n), "e": UInt(big.NewInt(int64(e)))}
}

// jsonString renders a JSON string the way RFC 7638 §3.3 needs for the
// values that occur in RSA/EC JWKs (base64url text and short ASCII names: no
// character needs escaping).
func jsonString(s string) string {
	for i := 0; i < len(s); i++ {
		if s[i] < 0x20 || s[i] == '"' || s[i] == '\\' || s[i] >= 0x7f {
			panic("jwsref: member value needs JSON escaping")
		}
	}
	return `"` + s + `"`
}

// Thumbprint is RFC 7638 §3: SHA-256 over the UTF-8 of the JSON object with
// only the required members, ordered lexicographically by member name, no
// whitespace; rendered base64url (RFC 8555 §8.1).
func Thumbprint(required map[string]string) string {
	names := make([]string, 0, len(required))
	for k := range required {
		names = append(names, k)
	}
	sort.Strings(names)
	var sb strings.Builder
	sb.WriteByte('{')
	for i, k := range names {
		if i > 0 {
			sb.WriteByte(',')
		}
		sb.WriteString(jsonString(k) + ":" + jsonString(required[k]))
	}
	sb.WriteByte('}')
	d := sha256.Sum256([]byte(sb.String()))
	return B64(d[:])
}

// ---- JSON object inspection -------------------------------------------------------

// Members decodes a JSON text that must be a single object and returns its
// member names in order of appearance with their raw values. Duplicate names
// are reported (RFC 7515 §4: "Header Parameter names within the JOSE Header
// MUST be unique").
func Members(text []byte) (names []string, vals map[string]json.RawMessage, err error) {
	dec := json.NewDecoder(bytes.NewReader(text))
	tok, err := dec.Token()
	if err != nil {
		return nil, nil, err
	}
	if d, ok := tok.(json.Delim); !ok || d != '{' {
		return nil, nil, errors.New("jwsref: not a JSON object")
	}
	vals = map[string]json.RawMessage{}
	for dec.More() {
		kt, err := dec.Token()
		if err != nil {
			return nil, nil, err
		}
		k, ok := kt.(string)
		if !ok {
			return nil, nil, errors.New("jwsref: member name not a string")
		}
		var raw json.RawMessage
		if err := dec.Decode(&raw); err != nil {
			return nil, nil, err
		}
		if _, dup := vals[k]; dup {
			return nil, nil, fmt.Errorf("jwsref: duplicate member %q", k)
		}
		names = append(names, k)
		vals[k] = raw
	}
	if _, err := dec.Token(); err != nil {
		return nil, nil, err
	}
	if _, err := dec.Token(); err != io.EOF {
		return nil, nil, errors.New("jwsref: trailing data after JSON object")
	}
	return names, vals, nil
}

// StringMember returns member k as a string.
func StringMember(vals map[string]json.RawMessage, k string) (string, bool) {
	raw, ok := vals[k]
	if !ok {
		return "", false
	}
	var s string
	if json.Unmarshal(raw, &s) != nil {
		return "", false
	}
	return s, true
}

// Flattened is a Flattened JWS JSON Serialization (RFC 7515 §7.2.2) as ACME
// uses it (RFC 8555 §6.2): exactly protected, payload, signature.
type Flattened struct {
	Protected, Payload, Signature string // the base64url texts
	Header                        map[string]json.RawMessage
	HeaderNames                   []string
	HeaderJSON, PayloadBytes, Sig []byte
}

// ParseFlattened checks the envelope and decodes its three parts strictly.
func ParseFlattened(body []byte) (*Flattened, error) {
	names, vals, err := Members(body)
	if err != nil {
		return nil, err
	}
	if len(names) != 3 {
		return nil, fmt.Errorf("jwsref: JWS object has members %v, want protected, payload, signature", names)
	}
	f := &Flattened{}
	var ok bool
	if f.Protected, ok = StringMember(vals, "protected"); !ok {
		return nil, errors.New("jwsref: no protected string")
	}
	if f.Payload, ok = StringMember(vals, "payload"); !ok {
		return nil, errors.New("jwsref: no payload string")
	}
	if f.Signature, ok = StringMember(vals, "signature"); !ok {
		return nil, errors.New("jwsref: no signature string")
	}
	if f.HeaderJSON, err = UnB64(f.Protected); err != nil {
		return nil, fmt.Errorf("protected: %w", err)
	}
	if f.PayloadBytes, err = UnB64(f.Payload); err != nil {
		return nil, fmt.Errorf("payload: %w", err)
	}
	if f.Sig, err = UnB64(f.Signature); err != nil {
		return nil, fmt.Errorf("signature: %w", err)
	}
	if f.HeaderNames, f.Header, err = Members(f.HeaderJSON); err != nil {
		return nil, fmt.Errorf("protected header: %w", err)
	}
	return f, nil
}

// SigningInput is RFC 7515 §5.1 step 5: ASCII(BASE64URL(UTF8(header)) || '.' || BASE64URL(payload)).
func (f *Flattened) SigningInput() []byte { return []byte(f.Protected + "." + f.Payload) }

package tearef

import (
	"bytes"
	"encoding/hex"
	"testing"
)

func uh(s string) []byte { b, _ := hex.DecodeString(s); return b }

func TestTEAVectors(t *testing.T) {
	// widely published word-level vector: key 0, v 0, 32 cycles -> 41EA3A0A 94BAA940
	if got := TEAEncryptWords([2]uint32{}, [4]uint32{}, 32); got != [2]uint32{0x41EA3A0A, 0x94BAA940} {
		t.Fatalf("TEA zero vector: %08x", got)
	}
	vecs := []struct {
		cycles      int
		key, pt, ct string
	}{
		{32, "00000000000000000000000000000000", "0000000000000000", "41ea3a0a94baa940"},
		{32, "ffffffffffffffffffffffffffffffff", "ffffffffffffffff", "319bbefb016abdb2"},
		{8, "00000000000000000000000000000000", "0000000000000000", "ed285da1455b33c1"},
	}
	for _, v := range vecs {
		if got := TEA(true, uh(v.key), uh(v.pt), v.cycles); !bytes.Equal(got, uh(v.ct)) {
			t.Errorf("TEA %v: got %x", v, got)
		}
		if got := TEA(false, uh(v.key), uh(v.ct), v.cycles); !bytes.Equal(got, uh(v.pt)) {
			t.Errorf("TEA dec %v: got %x", v, got)
		}
	}
}

func TestXTEAVectors(t *testing.T) {
	// Bouncy Castle XTEA vectors (32 cycles)
	vecs := []struct{ key, pt, ct string }{
		{"00000000000000000000000000000000", "0000000000000000", "dee9d4d8f7131ed9"},
		{"00000000000000000000000000000000", "0102030405060708", "065c1b8975c6a816"},
		{"0123456712345678234567893456789a", "0000000000000000", "1ff9a0261ac64264"},
		{"0123456712345678234567893456789a", "0102030405060708", "8c67155b2ef91ead"},
		{"000102030405060708090a0b0c0d0e0f", "4142434445464748", "497df3d072612cb5"},
		{"000102030405060708090a0b0c0d0e0f", "4141414141414141", "e78f2d13744341d8"},
	}
	for _, v := range vecs {
		if got := XTEA(true, uh(v.key), uh(v.pt), 32); !bytes.Equal(got, uh(v.ct)) {
			t.Errorf("XTEA %v: got %x", v, got)
		}
		if got := XTEA(false, uh(v.key), uh(v.ct), 32); !bytes.Equal(got, uh(v.pt)) {
			t.Errorf("XTEA dec %v: got %x", v, got)
		}
	}
}

// Package tearef is an executable specification of TEA (Wheeler & Needham,
// "TEA, a Tiny Encryption Algorithm", FSE 1994) and XTEA ("Tea extensions",
// 1997), transcribed from the routines printed in the reports. Both are
// defined on two 32-bit words and four 32-bit key words with a cycle count n
// (one cycle = two Feistel rounds; the reports use n = 32). The byte wrappers
// use big-endian words, the convention of the published byte-level vectors
// (Bouncy Castle, ironclad). No code is shared with golang.org/x/crypto.
package tearef

const delta uint32 = 0x9e3779b9

// TEAEncryptWords: the report's `code` routine with n cycles.
func TEAEncryptWords(v [2]uint32, k [4]uint32, n int) [2]uint32 {
	y, z := v[0], v[1]
	var sum uint32
	for ; n > 0; n-- {
		sum += delta
		y += ((z << 4) + k[0]) ^ (z + sum) ^ ((z >> 5) + k[1])
		z += ((y << 4) + k[2]) ^ (y + sum) ^ ((y >> 5) + k[3])
	}
	return [2]uint32{y, z}
}

// TEADecryptWords: the report's `decode` routine (sum starts at n·delta).
func TEADecryptWords(v [2]uint32, k [4]uint32, n int) [2]uint32 {
	y, z := v[0], v[1]
	var sum uint32
	for i := 0; i < n; i++ {
		sum += delta
	}
	for ; n > 0; n-- {
		z -= ((y << 4) + k[2]) ^ (y + sum) ^ ((y >> 5) + k[3])
		y -= ((z << 4) + k[0]) ^ (z + sum) ^ ((z >> 5) + k[1])
		sum -= delta
	}
	return [2]uint32{y, z}
}

// XTEAEncryptWords: the report's `tean` coding branch with N = n cycles.
func XTEAEncryptWords(v [2]uint32, k [4]uint32, n int) [2]uint32 {
	y, z := v[0], v[1]
	var sum uint32
	for i := 0; i < n; i++ {
		y += (((z << 4) ^ (z >> 5)) + z) ^ (sum + k[sum&3])
		sum += delta
		z += (((y << 4) ^ (y >> 5)) + y) ^ (sum + k[(sum>>11)&3])
	}
	return [2]uint32{y, z}
}

// XTEADecryptWords: the decoding branch.
func XTEADecryptWords(v [2]uint32, k [4]uint32, n int) [2]uint32 {
	y, z := v[0], v[1]
	var sum uint32
	for i := 0; i < n; i++ {
		sum += delta
	}
	for i := 0; i < n; i++ {
		z -= (((y << 4) ^ (y >> 5)) + y) ^ (sum + k[(sum>>11)&3])
		sum -= delta
		y -= (((z << 4) ^ (z >> 5)) + z) ^ (sum + k[sum&3])
	}
	return [2]uint32{y, z}
}

func be(b []byte) uint32 {
	return uint32(b[0])<<24 | uint32(b[1])<<16 | uint32(b[2])<<8 | uint32(b[3])
}

func words(key, blk []byte) (k [4]uint32, v [2]uint32) {
	for i := range k {
		k[i] = be(key[4*i:])
	}
	v[0], v[1] = be(blk), be(blk[4:])
	return
}

func bytesOf(v [2]uint32) []byte {
	out := make([]byte, 8)
	for i, w := range v {
		out[4*i], out[4*i+1], out[4*i+2], out[4*i+3] = byte(w>>24), byte(w>>16), byte(w>>8), byte(w)
	}
	return out
}

// TEA encrypts/decrypts an 8-byte block under a 16-byte key with n cycles.
func TEA(enc bool, key, blk []byte, cycles int) []byte {
	k, v := words(key, blk)
	if enc {
		return bytesOf(TEAEncryptWords(v, k, cycles))
	}
	return bytesOf(TEADecryptWords(v, k, cycles))
}

// XTEA encrypts/decrypts an 8-byte block under a 16-byte key with n cycles (standard: 32).
func XTEA(enc bool, key, blk []byte, cycles int) []byte {
	k, v := words(key, blk)
	if enc {
		return bytesOf(XTEAEncryptWords(v, k, cycles))
	}
	return bytesOf(XTEADecryptWords(v, k, cycles))
}

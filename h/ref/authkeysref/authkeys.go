// Package authkeysref is a reference reader for one line of an OpenSSH
// authorized_keys or known_hosts file, written from the sshd(8) manual page
// (sections AUTHORIZED_KEYS FILE FORMAT and SSH_KNOWN_HOSTS FILE FORMAT):
//
//	"Each line of the file contains one key (empty lines and lines starting
//	with a '#' are ignored as comments). Public keys consist of the following
//	space-separated fields: options, keytype, base64-encoded key, comment.
//	The options field is optional. […] The options (if present) consist of
//	comma-separated option specifications. No spaces are permitted, except
//	within double quotes. […] A quote may be included in the command by
//	quoting it with a backslash."
//
//	"Each line in these files contains the following fields: marker
//	(optional), hostnames, keytype, base64-encoded key, comment. The fields
//	are separated by spaces. The marker is optional, but if it is present
//	then it must be one of "@cert-authority" […] or "@revoked" […].
//	Hostnames is a comma-separated list of patterns […]"
//
// It shares no code with golang.org/x/crypto and deliberately works on
// strings with explicit index loops.
package authkeysref

import "strings"

// KeyTypes are the key type names listed by sshd(8) plus their certificate
// forms.
var KeyTypes = []string{
	"sk-ecdsa-sha2-nistp256@openssh.com",
	"ecdsa-sha2-nistp256",
	"ecdsa-sha2-nistp384",
	"ecdsa-sha2-nistp521",
	"sk-ssh-ed25519@openssh.com",
	"ssh-ed25519",
	"ssh-dss",
	"ssh-rsa",
	"sk-ecdsa-sha2-nistp256-cert-v01@openssh.com",
	"ecdsa-sha2-nistp256-cert-v01@openssh.com",
	"ecdsa-sha2-nistp384-cert-v01@openssh.com",
	"ecdsa-sha2-nistp521-cert-v01@openssh.com",
	"sk-ssh-ed25519-cert-v01@openssh.com",
	"ssh-ed25519-cert-v01@openssh.com",
	"ssh-dss-cert-v01@openssh.com",
	"ssh-rsa-cert-v01@openssh.com",
}

// IsKeyType reports whether s is one of KeyTypes.
func IsKeyType(s string) bool {
	for _, t := range KeyTypes {
		if s == t {
			return true
		}
	}
	return false
}

func blank(c byte) bool { return c == ' ' || c == '\t' }

// ScanOptions returns the options field at the start of s: it ends at the
// first blank that is not inside double quotes; a double quote preceded by a
// backslash does not open or close a quotation. ok is false when the line
// ends before such a blank (no further fields, or an unterminated quotation).
func ScanOptions(s string) (field, rest string, ok bool) {
	quoted := false
	for i := 0; i < len(s); i++ {
		c := s[i]
		switch {
		case c == '"' && (i == 0 || s[i-1] != '\\'):
			quoted = !quoted
		case blank(c) && !quoted:
			return s[:i], s[i:], true
		}
	}
	return "", "", false
}

// SplitOptions splits an options field into its comma-separated option
// specifications; commas inside double quotes do not separate.
func SplitOptions(field string) []string {
	var out []string
	quoted := false
	start := 0
	for i := 0; i < len(field); i++ {
		c := field[i]
		switch {
		case c == '"' && (i == 0 || field[i-1] != '\\'):
			quoted = !quoted
		case c == ',' && !quoted:
			out = append(out, field[start:i])
			start = i + 1
		}
	}
	return append(out, field[start:])
}

// WellFormedOptions reports whether every specification is non-empty and
// every quotation is closed (what the manual page describes; anything else is
// outside its grammar).
func WellFormedOptions(field string) bool {
	quoted := false
	for i := 0; i < len(field); i++ {
		if field[i] == '"' && (i == 0 || field[i-1] != '\\') {
			quoted = !quoted
		}
	}
	if quoted || field == "" {
		return false
	}
	for _, o := range SplitOptions(field) {
		if o == "" {
			return false
		}
	}
	return true
}

func skipBlanks(s string) string {
	for len(s) > 0 && blank(s[0]) {
		s = s[1:]
	}
	return s
}

func token(s string) (tok, rest string) {
	i := 0
	for i < len(s) && !blank(s[i]) {
		i++
	}
	return s[:i], s[i:]
}

func trimBlanks(s string) string {
	s = skipBlanks(s)
	for len(s) > 0 && (blank(s[len(s)-1]) || s[len(s)-1] == '\r') {
		s = s[:len(s)-1]
	}
	return s
}

// AuthLine is a decomposed authorized_keys line.
type AuthLine struct {
	HasOptions bool
	OptField   string
	Options    []string
	Type       string
	B64        string
	Comment    string
}

// Kind of a line.
const (
	Skip    = "skip"    // empty or comment
	Key     = "key"     // all fields found
	Invalid = "invalid" // neither
)

// ParseAuthLine decomposes one line (without its newline).
func ParseAuthLine(line string) (AuthLine, string) {
	var l AuthLine
	s := trimBlanks(line)
	if s == "" || s[0] == '#' {
		return l, Skip
	}
	first, _ := token(s)
	if !IsKeyType(first) {
		f, rest, ok := ScanOptions(s)
		if !ok {
			return l, Invalid
		}
		l.HasOptions, l.OptField, l.Options = true, f, SplitOptions(f)
		s = skipBlanks(rest)
	}
	l.Type, s = token(s)
	if !IsKeyType(l.Type) {
		return l, Invalid
	}
	s = skipBlanks(s)
	l.B64, s = token(s)
	if l.B64 == "" {
		return l, Invalid
	}
	l.Comment = trimBlanks(s)
	return l, Key
}

// HostLine is a decomposed known_hosts line.
type HostLine struct {
	Marker  string // without '@'; "" if none
	Hosts   []string
	Type    string
	B64     string
	Comment string
}

// ParseHostLine decomposes one known_hosts line.
func ParseHostLine(line string) (HostLine, string) {
	var l HostLine
	s := trimBlanks(line)
	if s == "" || s[0] == '#' {
		return l, Skip
	}
	var tok string
	tok, s = token(s)
	if tok[0] == '@' {
		l.Marker = tok[1:]
		if l.Marker != "cert-authority" && l.Marker != "revoked" {
			return l, Invalid
		}
		tok, s = token(skipBlanks(s))
	}
	if tok == "" {
		return l, Invalid
	}
	l.Hosts = strings.Split(tok, ",")
	l.Type, s = token(skipBlanks(s))
	if !IsKeyType(l.Type) {
		return l, Invalid
	}
	l.B64, s = token(skipBlanks(s))
	if l.B64 == "" {
		return l, Invalid
	}
	l.Comment = trimBlanks(s)
	return l, Key
}

// ---- literal transcriptions of OpenSSH's two scanners --------------------------------
// (auth2-pubkeyfile.c auth_check_authkey_line / ssh-keygen.c do_fingerprint for
// the line splitting, auth-options.c opt_dequote for quoted values). Both treat
// exactly the two-character sequence backslash,quote as an escaped quote; a
// backslash before anything else (another backslash, a comma, a blank, the end
// of the value) is an ordinary character. Consequences: in `\\"` the quote is
// escaped (the character before it is a backslash), a value can never end in a
// backslash (`"dir C:\"` is an unterminated quotation).

// ScanOptionsPairs is the sshd loop: advance over the options, skipping
// backslash-quote pairs, toggling on other quotes, stopping at the first
// unquoted blank. It returns the index of that blank, or -1 when the line ends
// first (no key can follow / quotation never closed).
func ScanOptionsPairs(s string) int {
	quoted := false
	i := 0
	for ; i < len(s) && (quoted || !blank(s[i])); i++ {
		if s[i] == '\\' && i+1 < len(s) && s[i+1] == '"' {
			i++ // skip both
		} else if s[i] == '"' {
			quoted = !quoted
		}
	}
	if i >= len(s) {
		return -1
	}
	return i
}

// Dequote is opt_dequote: s must start with a double quote; the value runs to
// the next quote that is not part of a backslash-quote pair, with each such
// pair reduced to a quote. rest is what follows the closing quote.
func Dequote(s string) (val, rest string, ok bool) {
	if len(s) == 0 || s[0] != '"' {
		return "", "", false // missing start quote
	}
	i := 1
	var out []byte
	for i < len(s) && s[i] != '"' {
		if s[i] == '\\' && i+1 < len(s) && s[i+1] == '"' {
			i++
		}
		out = append(out, s[i])
		i++
	}
	if i >= len(s) {
		return "", "", false // missing end quote
	}
	return string(out), s[i+1:], true
}

package authkeysref

import (
	"reflect"
	"testing"
)

// The example lines of sshd(8) (keys abbreviated exactly as in the manual).
func TestManualExamples(t *testing.T) {
	cases := []struct {
		line    string
		kind    string
		opts    []string
		typ     string
		b64     string
		comment string
	}{
		{"# Comments are allowed at start of line. Blank lines are allowed.", Skip, nil, "", "", ""},
		{"", Skip, nil, "", "", ""},
		{"ssh-rsa AAAAB3Nza...LiPk== user@example.net", Key, nil, "ssh-rsa", "AAAAB3Nza...LiPk==", "user@example.net"},
		{`from="*.sales.example.net,!pc.sales.example.net" ssh-rsa AAAAB2...19Q== john@example.net`, Key,
			[]string{`from="*.sales.example.net,!pc.sales.example.net"`}, "ssh-rsa", "AAAAB2...19Q==", "john@example.net"},
		{`command="dump /home",no-pty,no-port-forwarding ssh-rsa AAAAC3...51R== example.net`, Key,
			[]string{`command="dump /home"`, "no-pty", "no-port-forwarding"}, "ssh-rsa", "AAAAC3...51R==", "example.net"},
		{`permitopen="192.0.2.1:80",permitopen="192.0.2.2:25" ssh-rsa AAAAB5...21S==`, Key,
			[]string{`permitopen="192.0.2.1:80"`, `permitopen="192.0.2.2:25"`}, "ssh-rsa", "AAAAB5...21S==", ""},
		{`permitlisten="localhost:8080",permitlisten="[::1]:22000" ssh-rsa AAAAB5...21S==`, Key,
			[]string{`permitlisten="localhost:8080"`, `permitlisten="[::1]:22000"`}, "ssh-rsa", "AAAAB5...21S==", ""},
		{`tunnel="0",command="sh /etc/netstart tun0" ssh-rsa AAAA...== jane@example.net`, Key,
			[]string{`tunnel="0"`, `command="sh /etc/netstart tun0"`}, "ssh-rsa", "AAAA...==", "jane@example.net"},
		{`restrict,command="uptime" ssh-rsa AAAA1C8...32Tv== user@example.net`, Key,
			[]string{"restrict", `command="uptime"`}, "ssh-rsa", "AAAA1C8...32Tv==", "user@example.net"},
		{`restrict,pty,command="nethack" ssh-rsa AAAA1f8...IrrC5== user@example.net`, Key,
			[]string{"restrict", "pty", `command="nethack"`}, "ssh-rsa", "AAAA1f8...IrrC5==", "user@example.net"},
		{`no-touch-required sk-ecdsa-sha2-nistp256@openssh.com AAAAInN...Ko== user@example.net`, Key,
			[]string{"no-touch-required"}, "sk-ecdsa-sha2-nistp256@openssh.com", "AAAAInN...Ko==", "user@example.net"},
		{`cert-authority,no-touch-required,principals="user_a" ssh-rsa AAAA... ca comment with blanks`, Key,
			[]string{"cert-authority", "no-touch-required", `principals="user_a"`}, "ssh-rsa", "AAAA...", "ca comment with blanks"},
		// "A quote may be included in the command by quoting it with a backslash."
		{`command="echo \"a, b\" c",no-pty ssh-ed25519 AAAA x`, Key,
			[]string{`command="echo \"a, b\" c"`, "no-pty"}, "ssh-ed25519", "AAAA", "x"},
		{"  \tssh-ed25519 \t AAAA \t two  words\t \r", Key, nil, "ssh-ed25519", "AAAA", "two  words"},
		{`command="never closed ssh-ed25519 AAAA x`, Invalid, nil, "", "", ""},
		{"ssh-ed25519", Invalid, nil, "", "", ""},
		{"no-pty ssh-foo AAAA", Invalid, nil, "", "", ""},
	}
	for _, c := range cases {
		l, kind := ParseAuthLine(c.line)
		if kind != c.kind {
			t.Errorf("%q: kind %s want %s", c.line, kind, c.kind)
			continue
		}
		if kind != Key {
			continue
		}
		if !reflect.DeepEqual(l.Options, c.opts) || l.Type != c.typ || l.B64 != c.b64 || l.Comment != c.comment {
			t.Errorf("%q: got %+v", c.line, l)
		}
		if l.HasOptions && !WellFormedOptions(l.OptField) {
			t.Errorf("%q: options reported malformed", c.line)
		}
	}
	for _, bad := range []string{"", "a,,b", ",a", "a,", `a="x`, `a="x",`} {
		if WellFormedOptions(bad) {
			t.Errorf("%q reported well formed", bad)
		}
	}
}

func TestKnownHostsExamples(t *testing.T) {
	cases := []struct {
		line    string
		kind    string
		marker  string
		hosts   []string
		typ     string
		comment string
	}{
		{"# Comments allowed at start of line", Skip, "", nil, "", ""},
		{"cvs.example.net,192.0.2.10 ssh-rsa AAAA1234.....=", Key, "", []string{"cvs.example.net", "192.0.2.10"}, "ssh-rsa", ""},
		{"|1|JfKTdBh7rNbXkVAQCRp4OQoPfmI=|USECr3SWf1JUPsms5AqfD5QfxkM= ssh-rsa AAAA1234.....=", Key, "",
			[]string{"|1|JfKTdBh7rNbXkVAQCRp4OQoPfmI=|USECr3SWf1JUPsms5AqfD5QfxkM="}, "ssh-rsa", ""},
		{"@revoked * ssh-rsa AAAAB5W...", Key, "revoked", []string{"*"}, "ssh-rsa", ""},
		{"@cert-authority *.mydomain.org,*.mydomain.com ssh-rsa AAAAB5W... ca", Key, "cert-authority",
			[]string{"*.mydomain.org", "*.mydomain.com"}, "ssh-rsa", "ca"},
		{"[host.example]:2222,!other ssh-ed25519 AAAA c1 c2", Key, "", []string{"[host.example]:2222", "!other"}, "ssh-ed25519", "c1 c2"},
		{"@bogus host ssh-rsa AAAA", Invalid, "", nil, "", ""},
		{"host ssh-rsa", Invalid, "", nil, "", ""},
	}
	for _, c := range cases {
		l, kind := ParseHostLine(c.line)
		if kind != c.kind {
			t.Errorf("%q: kind %s want %s", c.line, kind, c.kind)
			continue
		}
		if kind == Key && (l.Marker != c.marker || !reflect.DeepEqual(l.Hosts, c.hosts) || l.Type != c.typ || l.Comment != c.comment) {
			t.Errorf("%q: got %+v", c.line, l)
		}
	}
}

// The look-behind reading used by ScanOptions/SplitOptions and the literal
// pair-skipping loop of sshd agree on every string over the characters that
// matter (exhaustive up to length 8).
func TestScannersAgree(t *testing.T) {
	abc := []byte{'\\', '"', ',', ' ', 'a'}
	var rec func(b []byte, n int)
	count := 0
	rec = func(b []byte, n int) {
		s := string(b)
		count++
		f, _, ok := ScanOptions(s)
		j := ScanOptionsPairs(s)
		if ok != (j >= 0) || (ok && len(f) != j) {
			t.Fatalf("%q: look-behind (%q,%v) vs pairs %d", s, f, ok, j)
		}
		if n == 0 {
			return
		}
		for _, c := range abc {
			rec(append(b, c), n-1)
		}
	}
	rec(nil, 8)
	if count < 400000 {
		t.Fatalf("only %d strings", count)
	}
}

// Quoted-option escapes, expectations written out by hand from the two loops.
func TestQuotedOptionEscapes(t *testing.T) {
	const key = " ssh-ed25519 AAAA c"
	acc := []struct {
		field string
		opts  []string
	}{
		{`command="a\" b"`, []string{`command="a\" b"`}},                // 1 backslash: escaped
		{`command="a\\" b"`, []string{`command="a\\" b"`}},              // 2: the quote is still preceded by a backslash
		{`command="a\\\" b"`, []string{`command="a\\\" b"`}},            // 3
		{`command="a\\\\" b"`, []string{`command="a\\\\" b"`}},          // 4
		{`command="a\,b",no-pty`, []string{`command="a\,b"`, "no-pty"}}, // backslash before comma: nothing special, comma is quoted
		{`command="a\ b"`, []string{`command="a\ b"`}},                  // backslash before blank, quoted
		{`command="a\nb\\c"`, []string{`command="a\nb\\c"`}},            // backslashes before other characters
		{`foo\,bar`, []string{`foo\`, `bar`}},                           // unquoted: the comma separates
		{`a"b c"d`, []string{`a"b c"d`}},                                // quotation inside unquoted text
		{`a"b,c"d,e`, []string{`a"b,c"d`, "e"}},                         //
		{`command="\"a"`, []string{`command="\"a"`}},                    // escaped quote first
		{`command="a\""`, []string{`command="a\""`}},                    // escaped quote last
		{`command="\""`, []string{`command="\""`}},                      //
		{`command="",no-pty`, []string{`command=""`, "no-pty"}},         // empty value
		{`a\"b`, []string{`a\"b`}},                                      // escaped quote outside a quotation opens nothing
		{`a\"b,c`, []string{`a\"b`, "c"}},                               //
		{`from="x",command="\\\"",pty`, []string{`from="x"`, `command="\\\""`, "pty"}},
	}
	for _, c := range acc {
		for _, sep := range []string{" ", "\t", "  ", " \t"} {
			l, kind := ParseAuthLine(c.field + sep + key[1:])
			if kind != Key || !reflect.DeepEqual(l.Options, c.opts) || l.Type != "ssh-ed25519" || l.B64 != "AAAA" || l.Comment != "c" {
				t.Errorf("%q: kind %s got %+v want %q", c.field, kind, l, c.opts)
			}
		}
	}
	rej := []string{
		`command="a" b"`,            // 0 backslashes: the quote closes, ` b"` is not a key type
		`command="dir C:\"`,         // value cannot end in a backslash: unterminated
		`command="dir C:\\"`,        // nor in two
		`command="dir C:\\\"`,       //
		`command="dir C:\\\\"`,      //
		`command="dir C:\\",no-pty`, // the rest of the line is swallowed by the open quotation
		`command="abc`,              // unterminated
		`command="abc\`,             // … with trailing backslashes
		`command="abc\\`,            //
		`foo\ bar`,                  // unquoted blank ends the options whatever precedes it
		`\"x y\"`,                   // escaped quotes do not quote the blank
		`"`,                         //
	}
	for _, f := range rej {
		if l, kind := ParseAuthLine(f + key); kind != Invalid {
			t.Errorf("%q: kind %s (%+v), want invalid", f, kind, l)
		}
	}
	// opt_dequote on the values above
	dq := []struct{ in, val, rest string }{
		{`"a\" b"`, `a" b`, ""}, {`"a\\" b",x`, `a\" b`, ",x"}, {`"a\\\" b"`, `a\\" b`, ""}, {`"a\,b"`, `a\,b`, ""},
		{`"\""`, `"`, ""}, {`""`, "", ""}, {`"a\nb\\c"`, `a\nb\\c`, ""}, {`"1"y`, "1", "y"},
	}
	for _, c := range dq {
		v, rest, ok := Dequote(c.in)
		if !ok || v != c.val || rest != c.rest {
			t.Errorf("Dequote(%q) = %q,%q,%v want %q,%q", c.in, v, rest, ok, c.val, c.rest)
		}
	}
	for _, bad := range []string{`a`, ``, `"abc`, `"dir C:\"`, `"dir C:\\"`, `"abc\`} {
		if _, _, ok := Dequote(bad); ok {
			t.Errorf("Dequote(%q) accepted", bad)
		}
	}
}

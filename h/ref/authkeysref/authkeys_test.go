package authkeysref

import (
	"reflect"
	"testing"
)

// The example lines of sshd(8) (keys abbreviated exactly as in the manual).
func TestManualExamples(t *testing.T) {
	cases := []struct {
		line    string
		kind    string
		opts    []string
		typ     string
		b64     string
		comment string
	}{
		{"# Comments are allowed at start of line. Blank lines are allowed.", Skip, nil, "", "", ""},
		{"", Skip, nil, "", "", ""},
		{"ssh-rsa AAAAB3Nza...LiPk== user@example.net", Key, nil, "ssh-rsa", "AAAAB3Nza...LiPk==", "user@example.net"},
		{`from="*.sales.example.net,!pc.sales.example.net" ssh-rsa AAAAB2...19Q== john@example.net`, Key,
			[]string{`from="*.sales.example.net,!pc.sales.example.net"`}, "ssh-rsa", "AAAAB2...19Q==", "john@example.net"},
		{`command="dump /home",no-pty,no-port-forwarding ssh-rsa AAAAC3...51R== example.net`, Key,
			[]string{`command="dump /home"`, "no-pty", "no-port-forwarding"}, "ssh-rsa", "AAAAC3...51R==", "example.net"},
		{`permitopen="192.0.2.1:80",permitopen="192.0.2.2:25" ssh-rsa AAAAB5...21S==`, Key,
			[]string{`permitopen="192.0.2.1:80"`, `permitopen="192.0.2.2:25"`}, "ssh-rsa", "AAAAB5...21S==", ""},
		{`permitlisten="localhost:8080",permitlisten="[::1]:22000" ssh-rsa AAAAB5...21S==`, Key,
			[]string{`permitlisten="localhost:8080"`, `permitlisten="[::1]:22000"`}, "ssh-rsa", "AAAAB5...21S==", ""},
		{`tunnel="0",command="sh /etc/netstart tun0" ssh-rsa AAAA...== jane@example.net`, Key,
			[]string{`tunnel="0"`, `command="sh /etc/netstart tun0"`}, "ssh-rsa", "AAAA...==", "jane@example.net"},
		{`restrict,command="uptime" ssh-rsa AAAA1C8...32Tv== user@example.net`, Key,
			[]string{"restrict", `command="uptime"`}, "ssh-rsa", "AAAA1C8...32Tv==", "user@example.net"},
		{`restrict,pty,command="nethack" ssh-rsa AAAA1f8...IrrC5== user@example.net`, Key,
			[]string{"restrict", "pty", `command="nethack"`}, "ssh-rsa", "AAAA1f8...IrrC5==", "user@example.net"},
		{`no-touch-required sk-ecdsa-sha2-nistp256@openssh.com AAAAInN...Ko== user@example.net`, Key,
			[]string{"no-touch-required"}, "sk-ecdsa-sha2-nistp256@openssh.com", "AAAAInN...Ko==", "user@example.net"},
		{`cert-authority,no-touch-required,principals="user_a" ssh-rsa AAAA... ca comment with blanks`, Key,
			[]string{"cert-authority", "no-touch-required", `principals="user_a"`}, "ssh-rsa", "AAAA...", "ca comment with blanks"},
		// "A quote may be included in the command by quoting it with a backslash."
		{`command="echo \"a, b\" c",no-pty ssh-ed25519 AAAA x`, Key,
			[]string{`command="echo \"a, b\" c"`, "no-pty"}, "ssh-ed25519", "AAAA", "x"},
		{"  \tssh-ed25519 \t AAAA \t two  words\t \r", Key, nil, "ssh-ed25519", "AAAA", "two  words"},
		{`command="never closed ssh-ed25519 AAAA x`, Invalid, nil, "", "", ""},
		{"ssh-ed25519", Invalid, nil, "", "", ""},
		{"no-pty ssh-foo AAAA", Invalid, nil, "", "", ""},
	}
	for _, c := range cases {
		l, kind := ParseAuthLine(c.line)
		if kind != c.kind {
			t.Errorf("%q: kind %s want %s", c.line, kind, c.kind)
			continue
		}
		if kind != Key {
			continue
		}
		if !reflect.DeepEqual(l.Options, c.opts) || l.Type != c.typ || l.B64 != c.b64 || l.Comment != c.comment {
			t.Errorf("%q: got %+v", c.line, l)
		}
		if l.HasOptions && !WellFormedOptions(l.OptField) {
			t.Errorf("%q: options reported malformed", c.line)
		}
	}
	for _, bad := range []string{"", "a,,b", ",a", "a,", `a="x`, `a="x",`} {
		if WellFormedOptions(bad) {
			t.Errorf("%q reported well formed", bad)
		}
	}
}

func TestKnownHostsExamples(t *testing.T) {
	cases := []struct {
		line    string
		kind    string
		marker  string
		hosts   []string
		typ     string
		comment string
	}{
		{"# Comments allowed at start of line", Skip, "", nil, "", ""},
		{"cvs.example.net,192.0.2.10 ssh-rsa AAAA1234.....=", Key, "", []string{"cvs.example.net", "192.0.2.10"}, "ssh-rsa", ""},
		{"|1|JfKTdBh7rNbXkVAQCRp4OQoPfmI=|USECr3SWf1JUPsms5AqfD5QfxkM= ssh-rsa AAAA1234.....=", Key, "",
			[]string{"|1|JfKTdBh7rNbXkVAQCRp4OQoPfmI=|USECr3SWf1JUPsms5AqfD5QfxkM="}, "ssh-rsa", ""},
		{"@revoked * ssh-rsa AAAAB5W...", Key, "revoked", []string{"*"}, "ssh-rsa", ""},
		{"@cert-authority *.mydomain.org,*.mydomain.com ssh-rsa AAAAB5W... ca", Key, "cert-authority",
			[]string{"*.mydomain.org", "*.mydomain.com"}, "ssh-rsa", "ca"},
		{"[host.example]:2222,!other ssh-ed25519 AAAA c1 c2", Key, "", []string{"[host.example]:2222", "!other"}, "ssh-ed25519", "c1 c2"},
		{"@bogus host ssh-rsa AAAA", Invalid, "", nil, "", ""},
		{"host ssh-rsa", Invalid, "", nil, "", ""},
	}
	for _, c := range cases {
		l, kind := ParseHostLine(c.line)
		if kind != c.kind {
			t.Errorf("%q: kind %s want %s", c.line, kind, c.kind)
			continue
		}
		if kind == Key && (l.Marker != c.marker || !reflect.DeepEqual(l.Hosts, c.hosts) || l.Type != c.typ || l.Comment != c.comment) {
			t.Errorf("%q: got %+v", c.line, l)
		}
	}
}

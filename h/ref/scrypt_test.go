package ref

import (
	"encoding/hex"
	"testing"
)

func TestScryptRFCVectors(t *testing.T) {
	got := hex.EncodeToString(Scrypt([]byte(""), []byte(""), 16, 1, 1, 64))
	want := "77d6576238657b203b19ca42c18a0497f16b4844e3074ae8dfdffa3fede21442fcd0069ded0948f8326a753a0fc81f17e8d3e0fb2e0d3628cf35e20c38d18906"
	if got != want {
		t.Fatalf("vector1 %s", got)
	}
	got = hex.EncodeToString(Scrypt([]byte("password"), []byte("NaCl"), 1024, 8, 16, 64))
	want = "fdbabe1c9d3472007856e7190d01e9fe7c6ad7cbc8237830e77376634b3731622eaf30d92e22a3886ff109279d9830dac727afb94a83ee6d8360cbdfa2cc0640"
	if got != want {
		t.Fatalf("vector2 %s", got)
	}
}

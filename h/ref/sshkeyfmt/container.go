package sshkeyfmt

import (
	"bytes"
	"encoding/base64"
	"errors"
	"fmt"
	"math/big"
	"strings"
)

// Magic is the openssh-key-v1 AUTH_MAGIC (PROTOCOL.key §1).
const Magic = "openssh-key-v1\x00"

// Container is the outer openssh-key-v1 structure:
//
//	byte[] AUTH_MAGIC; string ciphername; string kdfname; string kdfoptions;
//	uint32 nkeys; string publickey1..N; string encrypted-private-section
type Container struct {
	Cipher  string
	KDF     string
	KDFOpts []byte
	NKeys   uint32
	Pubs    [][]byte // outer (unencrypted) public key blobs
	Priv    []byte   // private section, encrypted or not
	Trailer []byte   // bytes after the private section (normally none)
}

func (c *Container) Marshal() []byte {
	w := &W{}
	w.Raw([]byte(Magic)).S(c.Cipher).S(c.KDF).Str(c.KDFOpts).U32(c.NKeys)
	for _, p := range c.Pubs {
		w.Str(p)
	}
	w.Str(c.Priv)
	w.Raw(c.Trailer)
	return w.B
}

func ParseContainer(b []byte) (*Container, error) {
	if !bytes.HasPrefix(b, []byte(Magic)) {
		return nil, errors.New("sshkeyfmt: bad magic")
	}
	r := &R{B: b[len(Magic):]}
	c := &Container{}
	c.Cipher = r.S()
	c.KDF = r.S()
	c.KDFOpts = r.Str()
	c.NKeys = r.U32()
	if r.Err != nil {
		return nil, r.Err
	}
	if c.NKeys > 16 {
		return nil, errors.New("sshkeyfmt: too many keys")
	}
	for i := uint32(0); i < c.NKeys; i++ {
		c.Pubs = append(c.Pubs, r.Str())
	}
	c.Priv = r.Str()
	if r.Err != nil {
		return nil, r.Err
	}
	c.Trailer = r.B
	return c, nil
}

// KDFOpts for kdfname "bcrypt": string salt; uint32 rounds.
func BcryptOpts(salt []byte, rounds uint32) []byte {
	return (&W{}).Str(salt).U32(rounds).B
}

func ParseBcryptOpts(b []byte) (salt []byte, rounds uint32, err error) {
	r := &R{B: b}
	salt = r.Str()
	rounds = r.U32()
	if !r.Done() {
		return nil, 0, errors.New("sshkeyfmt: bad bcrypt kdfoptions")
	}
	return
}

// PrivSection is the decrypted private section for one key:
//
//	uint32 checkint; uint32 checkint; <keytype-specific: string keytype + fields>;
//	string comment; byte 1,2,3,... padding up to the cipher block size
type PrivSection struct {
	Check1, Check2 uint32
	KeyType        string
	RSA            *RSAFields
	Ed             *EdFields
	EC             *ECFields
	DSA            *DSAFields
	Comment        string
	Pad            []byte
}

// RSAFields: mpint n, e, d, iqmp, p, q (PROTOCOL.key / sshkey_private_serialize).
type RSAFields struct{ N, E, D, Iqmp, P, Q *big.Int }

// EdFields: string pk (32); string sk‖pk (64).
type EdFields struct{ Pub, Priv []byte }

// ECFields: string curve name; string Q (SEC1 point); mpint d.
type ECFields struct {
	Curve string
	Pub   []byte
	D     *big.Int
	DBody []byte // when non-nil: the raw mpint body to write instead of the minimal encoding of D
}

// DSAFields: mpint p, q, g, y, x.
type DSAFields struct{ P, Q, G, Y, X *big.Int }

func (p *PrivSection) Marshal() []byte {
	w := &W{}
	w.U32(p.Check1).U32(p.Check2).S(p.KeyType)
	switch {
	case p.RSA != nil:
		k := p.RSA
		w.Mpint(k.N).Mpint(k.E).Mpint(k.D).Mpint(k.Iqmp).Mpint(k.P).Mpint(k.Q)
	case p.Ed != nil:
		w.Str(p.Ed.Pub).Str(p.Ed.Priv)
	case p.EC != nil:
		w.S(p.EC.Curve).Str(p.EC.Pub)
		if p.EC.DBody != nil {
			w.Str(p.EC.DBody)
		} else {
			w.Mpint(p.EC.D)
		}
	case p.DSA != nil:
		k := p.DSA
		w.Mpint(k.P).Mpint(k.Q).Mpint(k.G).Mpint(k.Y).Mpint(k.X)
	}
	w.S(p.Comment)
	w.Raw(p.Pad)
	return w.B
}

// Padding returns the PROTOCOL.key padding (1,2,3,…) that brings n up to a
// multiple of block.
func Padding(n, block int) []byte {
	var pad []byte
	for i := 1; (n+len(pad))%block != 0; i++ {
		pad = append(pad, byte(i))
	}
	return pad
}

// MarshalPadded marshals the section with correct padding for block.
func (p *PrivSection) MarshalPadded(block int) []byte {
	q := *p
	q.Pad = nil
	b := q.Marshal()
	return append(b, Padding(len(b), block)...)
}

func ParsePrivSection(b []byte) (*PrivSection, error) {
	r := &R{B: b}
	p := &PrivSection{}
	p.Check1 = r.U32()
	p.Check2 = r.U32()
	p.KeyType = r.S()
	if r.Err != nil {
		return nil, r.Err
	}
	switch p.KeyType {
	case "ssh-rsa":
		p.RSA = &RSAFields{N: r.Mpint(), E: r.Mpint(), D: r.Mpint(), Iqmp: r.Mpint(), P: r.Mpint(), Q: r.Mpint()}
	case "ssh-ed25519":
		p.Ed = &EdFields{Pub: r.Str(), Priv: r.Str()}
	case "ecdsa-sha2-nistp256", "ecdsa-sha2-nistp384", "ecdsa-sha2-nistp521":
		p.EC = &ECFields{Curve: r.S(), Pub: r.Str(), D: r.Mpint()}
	case "ssh-dss":
		p.DSA = &DSAFields{P: r.Mpint(), Q: r.Mpint(), G: r.Mpint(), Y: r.Mpint(), X: r.Mpint()}
	default:
		return nil, fmt.Errorf("sshkeyfmt: unknown key type %q", p.KeyType)
	}
	p.Comment = r.S()
	if r.Err != nil {
		return nil, r.Err
	}
	p.Pad = r.B
	return p, nil
}

// PadOK reports whether pad is 1,2,3,…
func PadOK(pad []byte) bool {
	for i, b := range pad {
		if b != byte(i+1) {
			return false
		}
	}
	return true
}

// ---- PEM armour (RFC 7468 style, as written by ssh-keygen: 70 columns) ----

const pemType = "OPENSSH PRIVATE KEY"

// EncodePEM writes the armour ssh-keygen writes (70-column base64).
func EncodePEM(body []byte) []byte {
	var sb strings.Builder
	sb.WriteString("-----BEGIN " + pemType + "-----\n")
	s := base64.StdEncoding.EncodeToString(body)
	for len(s) > 70 {
		sb.WriteString(s[:70])
		sb.WriteByte('\n')
		s = s[70:]
	}
	if len(s) > 0 {
		sb.WriteString(s)
		sb.WriteByte('\n')
	}
	sb.WriteString("-----END " + pemType + "-----\n")
	return []byte(sb.String())
}

// DecodePEM extracts the container bytes from an OPENSSH PRIVATE KEY armour
// (tolerant of line width and CRLF).
func DecodePEM(b []byte) ([]byte, error) {
	s := string(b)
	begin := "-----BEGIN " + pemType + "-----"
	end := "-----END " + pemType + "-----"
	i := strings.Index(s, begin)
	j := strings.Index(s, end)
	if i < 0 || j < i {
		return nil, errors.New("sshkeyfmt: no OPENSSH PRIVATE KEY armour")
	}
	body := s[i+len(begin) : j]
	body = strings.Map(func(r rune) rune {
		if r == '\n' || r == '\r' || r == ' ' || r == '\t' {
			return -1
		}
		return r
	}, body)
	return base64.StdEncoding.DecodeString(body)
}

// ParseAuthorizedLine splits a "type base64 [comment]" public key line
// (the .pub file / ssh-keygen -y output) into type, blob and comment.
func ParseAuthorizedLine(line string) (typ string, blob []byte, comment string, err error) {
	line = strings.TrimRight(line, "\r\n")
	f := strings.SplitN(line, " ", 3)
	if len(f) < 2 {
		return "", nil, "", errors.New("sshkeyfmt: bad public key line")
	}
	blob, err = base64.StdEncoding.DecodeString(f[1])
	if err != nil {
		return "", nil, "", err
	}
	if len(f) == 3 {
		comment = f[2]
	}
	r := &R{B: blob}
	if t := r.S(); r.Err != nil || t != f[0] {
		return "", nil, "", fmt.Errorf("sshkeyfmt: type %q does not match blob type %q", f[0], t)
	}
	return f[0], blob, comment, nil
}

package sshkeyfmt

import (
	"bytes"
	"crypto/dsa"
	"crypto/ecdsa"
	"crypto/ed25519"
	"crypto/rand"
	"crypto/rsa"
	"crypto/sha1"
	"crypto/sha256"
	"crypto/sha512"
	"encoding/binary"
	"errors"
	"fmt"
	"math/big"
)

// FormatsFor lists the signature formats legal for a plain key type
// (RFC 8332 §2 for ssh-rsa; every other key type signs only as itself).
func FormatsFor(keyType string) []string {
	if keyType == TRSA {
		return []string{FRSA256, FRSA512, TRSA}
	}
	return []string{keyType}
}

// AllFormats is the cross-product axis: every signature format name the
// property names, the DSA name, certificate algorithm names (never legal as a
// signature format) and junk.
func AllFormats() []string {
	return []string{
		TRSA, FRSA256, FRSA512, TEC256, TEC384, TEC521, TEd, TSKEC, TSKEd, TDSA,
		"ssh-rsa-cert-v01@openssh.com", "rsa-sha2-256-cert-v01@openssh.com", "rsa-sha2-512-cert-v01@openssh.com",
		"ecdsa-sha2-nistp256-cert-v01@openssh.com", "ecdsa-sha2-nistp384-cert-v01@openssh.com", "ecdsa-sha2-nistp521-cert-v01@openssh.com",
		"ssh-ed25519-cert-v01@openssh.com", "sk-ecdsa-sha2-nistp256-cert-v01@openssh.com", "sk-ssh-ed25519-cert-v01@openssh.com",
		"ssh-dss-cert-v01@openssh.com",
		"", "ssh-rsa ", "SSH-RSA", "rsa-sha2-384", "ecdsa-sha2-nistp224", "ssh-ed448", "webauthn-sk-ecdsa-sha2-nistp256@openssh.com", "x",
	}
}

// digest hashes data as the signature format prescribes; ok=false for formats
// that do not pre-hash or are unknown.
func digest(format string, data []byte) (d []byte, prefix []byte, ok bool) {
	switch format {
	case TRSA, TDSA:
		h := sha1.Sum(data)
		return h[:], []byte{0x30, 0x21, 0x30, 0x09, 0x06, 0x05, 0x2b, 0x0e, 0x03, 0x02, 0x1a, 0x05, 0x00, 0x04, 0x14}, true
	case FRSA256, TEC256, TSKEC, TSKEd:
		h := sha256.Sum256(data)
		return h[:], []byte{0x30, 0x31, 0x30, 0x0d, 0x06, 0x09, 0x60, 0x86, 0x48, 0x01, 0x65, 0x03, 0x04, 0x02, 0x01, 0x05, 0x00, 0x04, 0x20}, true
	case TEC384:
		h := sha512.Sum384(data)
		return h[:], nil, true
	case FRSA512, TEC521:
		h := sha512.Sum512(data)
		return h[:], []byte{0x30, 0x51, 0x30, 0x0d, 0x06, 0x09, 0x60, 0x86, 0x48, 0x01, 0x65, 0x03, 0x04, 0x02, 0x03, 0x05, 0x00, 0x04, 0x40}, true
	}
	return nil, nil, false
}

// emsaPKCS1 builds EM = 00 01 FF…FF 00 DigestInfo (RFC 8017 §9.2) of length k.
func emsaPKCS1(format string, data []byte, k int) ([]byte, error) {
	d, prefix, ok := digest(format, data)
	if !ok || prefix == nil {
		return nil, fmt.Errorf("sshkeyfmt: %q is not an RSA signature format", format)
	}
	t := append(append([]byte{}, prefix...), d...)
	if k < len(t)+11 {
		return nil, errors.New("sshkeyfmt: modulus too short")
	}
	em := make([]byte, k)
	em[1] = 1
	for i := 2; i < k-len(t)-1; i++ {
		em[i] = 0xff
	}
	copy(em[k-len(t):], t)
	return em, nil
}

// SKMessage is the byte string a FIDO token signs (PROTOCOL.u2f):
// SHA256(application) ‖ flags ‖ counter(be32) ‖ SHA256(data).
func SKMessage(app string, flags byte, counter uint32, data []byte) []byte {
	a := sha256.Sum256([]byte(app))
	m := sha256.Sum256(data)
	b := append([]byte{}, a[:]...)
	b = append(b, flags)
	b = binary.BigEndian.AppendUint32(b, counter)
	return append(b, m[:]...)
}

// SKRest encodes the trailing signature fields: byte flags; uint32 counter.
func SKRest(flags byte, counter uint32) []byte {
	return binary.BigEndian.AppendUint32([]byte{flags}, counter)
}

// ECBlob encodes mpint r; mpint s.
func ECBlob(r, s *big.Int) []byte { return (&W{}).Mpint(r).Mpint(s).B }

// ParseECBlob decodes mpint r; mpint s strictly (no trailing bytes).
func ParseECBlob(b []byte) (r, s *big.Int, err error) {
	rd := &R{B: b}
	r, s = rd.Mpint(), rd.Mpint()
	if !rd.Done() {
		return nil, nil, errors.New("sshkeyfmt: malformed ecdsa signature blob")
	}
	return
}

// Verify checks a signature (format, blob, rest) on data under a plain key,
// with this package's own framing, hash selection and PKCS#1 arithmetic.
// It implements the standards strictly: the format must be legal for the key
// type, RSA blobs are at most the modulus length (exactly, for rsa-sha2-*),
// ECDSA r,s are in [1,n-1], SK signatures carry exactly flags‖counter.
// It does NOT apply the user-presence policy (that is a policy of the caller).
func Verify(p *Pub, format string, blob, rest, data []byte) error {
	legal := false
	for _, f := range FormatsFor(p.Type) {
		if f == format {
			legal = true
		}
	}
	if !legal {
		return fmt.Errorf("sshkeyfmt: format %q illegal for key type %q", format, p.Type)
	}
	if p.Type != TSKEC && p.Type != TSKEd && len(rest) != 0 {
		return errors.New("sshkeyfmt: trailing data after signature blob")
	}
	switch p.Type {
	case TRSA:
		k := (p.RSA.N.BitLen() + 7) / 8
		if len(blob) > k || (format != TRSA && len(blob) != k) {
			return errors.New("sshkeyfmt: rsa signature length")
		}
		s := new(big.Int).SetBytes(blob)
		if s.Cmp(p.RSA.N) >= 0 {
			return errors.New("sshkeyfmt: rsa signature representative out of range")
		}
		m := new(big.Int).Exp(s, big.NewInt(int64(p.RSA.E)), p.RSA.N)
		em, err := emsaPKCS1(format, data, k)
		if err != nil {
			return err
		}
		if !bytes.Equal(m.FillBytes(make([]byte, k)), em) {
			return errors.New("sshkeyfmt: rsa signature does not verify")
		}
		return nil
	case TEC256, TEC384, TEC521:
		r, s, err := ParseECBlob(blob)
		if err != nil {
			return err
		}
		d, _, _ := digest(format, data)
		return ecVerify(p.EC, d, r, s)
	case TEd:
		if len(blob) != ed25519.SignatureSize {
			return errors.New("sshkeyfmt: ed25519 signature length")
		}
		if !ed25519.Verify(p.Ed, data, blob) {
			return errors.New("sshkeyfmt: ed25519 signature does not verify")
		}
		return nil
	case TDSA:
		if len(blob) != 40 {
			return errors.New("sshkeyfmt: dsa signature length")
		}
		d, _, _ := digest(format, data)
		r := new(big.Int).SetBytes(blob[:20])
		s := new(big.Int).SetBytes(blob[20:])
		if !dsa.Verify(p.DSA, d, r, s) {
			return errors.New("sshkeyfmt: dsa signature does not verify")
		}
		return nil
	case TSKEC, TSKEd:
		if len(rest) != 5 {
			return errors.New("sshkeyfmt: sk signature needs flags and counter")
		}
		msg := SKMessage(p.App, rest[0], binary.BigEndian.Uint32(rest[1:]), data)
		if p.Type == TSKEd {
			if len(blob) != ed25519.SignatureSize {
				return errors.New("sshkeyfmt: sk-ed25519 signature length")
			}
			if !ed25519.Verify(p.Ed, msg, blob) {
				return errors.New("sshkeyfmt: sk-ed25519 signature does not verify")
			}
			return nil
		}
		r, s, err := ParseECBlob(blob)
		if err != nil {
			return err
		}
		d := sha256.Sum256(msg)
		return ecVerify(p.EC, d[:], r, s)
	}
	return errors.New("sshkeyfmt: unsupported key type")
}

func ecVerify(pub *ecdsa.PublicKey, d []byte, r, s *big.Int) error {
	n := pub.Curve.Params().N
	if r.Sign() <= 0 || s.Sign() <= 0 || r.Cmp(n) >= 0 || s.Cmp(n) >= 0 {
		return errors.New("sshkeyfmt: ecdsa r/s out of range")
	}
	if !ecdsa.Verify(pub, d, r, s) {
		return errors.New("sshkeyfmt: ecdsa signature does not verify")
	}
	return nil
}

// ---- signing by the harness (a signer that shares nothing with x/crypto/ssh) ----

// SignRSA produces the rsa_signature_blob for format with plain math/big
// (s = EM^d mod n), full modulus length.
func SignRSA(k *rsa.PrivateKey, format string, data []byte) ([]byte, error) {
	sz := (k.N.BitLen() + 7) / 8
	em, err := emsaPKCS1(format, data, sz)
	if err != nil {
		return nil, err
	}
	s := new(big.Int).Exp(new(big.Int).SetBytes(em), k.D, k.N)
	return s.FillBytes(make([]byte, sz)), nil
}

// SignECRaw returns (r, s) over the digest the format prescribes.
func SignECRaw(k *ecdsa.PrivateKey, format string, data []byte) (r, s *big.Int, err error) {
	d, _, ok := digest(format, data)
	if !ok {
		return nil, nil, fmt.Errorf("sshkeyfmt: %q does not hash", format)
	}
	return ecdsa.Sign(rand.Reader, k, d)
}

// SignEC returns the ecdsa_signature_blob.
func SignEC(k *ecdsa.PrivateKey, data []byte) ([]byte, error) {
	r, s, err := SignECRaw(k, "ecdsa-sha2-"+CurveName(k.Curve), data)
	if err != nil {
		return nil, err
	}
	return ECBlob(r, s), nil
}

// SKSignEC is the software "token" for sk-ecdsa: returns blob (mpint r, s) and rest.
func SKSignEC(k *ecdsa.PrivateKey, app string, flags byte, counter uint32, data []byte) (blob, rest []byte, err error) {
	d := sha256.Sum256(SKMessage(app, flags, counter, data))
	r, s, err := ecdsa.Sign(rand.Reader, k, d[:])
	if err != nil {
		return nil, nil, err
	}
	return ECBlob(r, s), SKRest(flags, counter), nil
}

// SKSignEd is the software "token" for sk-ed25519.
func SKSignEd(k ed25519.PrivateKey, app string, flags byte, counter uint32, data []byte) (blob, rest []byte) {
	return ed25519.Sign(k, SKMessage(app, flags, counter, data)), SKRest(flags, counter)
}

// Package sshkeyfmt is an independent (no x/crypto) executable description of
// the byte formats the C39/C40 monitors need: RFC 4251 wire primitives, the
// openssh-key-v1 private key container (OpenSSH PROTOCOL.key), SSH public key
// blobs (RFC 4253 §6.6, RFC 5656 §3.1, RFC 8709, PROTOCOL.u2f) and signature
// blobs (RFC 4253, RFC 5656 §3.1.2, RFC 8332, RFC 8709, PROTOCOL.u2f) with a
// verifier that does its own framing/hash selection and its own
// EMSA-PKCS1-v1_5 arithmetic (math/big); the ECDSA/Ed25519 group arithmetic is
// the standard library's (trusted base, not part of x/crypto/ssh).
package sshkeyfmt

import (
	"encoding/binary"
	"errors"
	"math/big"
)

// W is an append-only RFC 4251 writer.
type W struct{ B []byte }

func (w *W) Raw(b []byte) *W     { w.B = append(w.B, b...); return w }
func (w *W) Byte(v byte) *W      { w.B = append(w.B, v); return w }
func (w *W) U32(v uint32) *W     { w.B = binary.BigEndian.AppendUint32(w.B, v); return w }
func (w *W) Str(b []byte) *W     { w.U32(uint32(len(b))); return w.Raw(b) }
func (w *W) S(s string) *W       { return w.Str([]byte(s)) }
func (w *W) Mpint(v *big.Int) *W { return w.Str(MpintBody(v)) }

// MpintBody is the minimal two's complement big-endian body of an mpint
// (RFC 4251 §5): zero is empty, positive numbers whose top bit is set get a
// 0x00 prefix, negative numbers are two's complement with minimal length.
func MpintBody(v *big.Int) []byte {
	switch v.Sign() {
	case 0:
		return nil
	case 1:
		b := v.Bytes()
		if b[0]&0x80 != 0 {
			b = append([]byte{0}, b...)
		}
		return b
	}
	// negative: smallest n with -2^(8n-1) <= v
	n := 1
	for {
		lim := new(big.Int).Lsh(big.NewInt(1), uint(8*n-1))
		lim.Neg(lim)
		if v.Cmp(lim) >= 0 {
			break
		}
		n++
	}
	mod := new(big.Int).Lsh(big.NewInt(1), uint(8*n))
	t := new(big.Int).Add(mod, v)
	b := t.Bytes()
	for len(b) < n {
		b = append([]byte{0xff}, b...) // cannot happen (t >= 2^(8n-1)), kept for clarity
	}
	return b
}

// MpintFromBody decodes any (also non-minimal) two's complement body.
func MpintFromBody(b []byte) *big.Int {
	v := new(big.Int).SetBytes(b)
	if len(b) > 0 && b[0]&0x80 != 0 {
		mod := new(big.Int).Lsh(big.NewInt(1), uint(8*len(b)))
		v.Sub(v, mod)
	}
	return v
}

// R is an RFC 4251 reader with sticky error.
type R struct {
	B   []byte
	Err error
}

var ErrShort = errors.New("sshkeyfmt: short buffer")

func (r *R) Byte() byte {
	if r.Err != nil || len(r.B) < 1 {
		r.Err = ErrShort
		return 0
	}
	v := r.B[0]
	r.B = r.B[1:]
	return v
}

func (r *R) U32() uint32 {
	if r.Err != nil || len(r.B) < 4 {
		r.Err = ErrShort
		return 0
	}
	v := binary.BigEndian.Uint32(r.B)
	r.B = r.B[4:]
	return v
}

func (r *R) Str() []byte {
	n := r.U32()
	if r.Err != nil {
		return nil
	}
	if uint64(n) > uint64(len(r.B)) {
		r.Err = ErrShort
		return nil
	}
	v := r.B[:n:n]
	r.B = r.B[n:]
	return v
}

func (r *R) S() string { return string(r.Str()) }

func (r *R) Mpint() *big.Int {
	b := r.Str()
	if r.Err != nil {
		return new(big.Int)
	}
	return MpintFromBody(b)
}

// Take returns the next n raw bytes.
func (r *R) Take(n int) []byte {
	if r.Err != nil || len(r.B) < n {
		r.Err = ErrShort
		return nil
	}
	v := r.B[:n:n]
	r.B = r.B[n:]
	return v
}

// Done reports that everything was consumed without error.
func (r *R) Done() bool { return r.Err == nil && len(r.B) == 0 }

package sshkeyfmt

import (
	"crypto/dsa"
	"crypto/ecdsa"
	"crypto/ed25519"
	"crypto/elliptic"
	"crypto/rsa"
	"errors"
	"fmt"
	"math/big"
)

// Key type names.
const (
	TRSA     = "ssh-rsa"
	TDSA     = "ssh-dss"
	TEC256   = "ecdsa-sha2-nistp256"
	TEC384   = "ecdsa-sha2-nistp384"
	TEC521   = "ecdsa-sha2-nistp521"
	TEd      = "ssh-ed25519"
	TSKEC    = "sk-ecdsa-sha2-nistp256@openssh.com"
	TSKEd    = "sk-ssh-ed25519@openssh.com"
	FRSA256  = "rsa-sha2-256"
	FRSA512  = "rsa-sha2-512"
	certTail = "-cert-v01@openssh.com"
)

// Pub is a decoded plain (non-certificate) public key.
type Pub struct {
	Type string
	RSA  *rsa.PublicKey
	EC   *ecdsa.PublicKey
	Ed   ed25519.PublicKey
	DSA  *dsa.PublicKey
	App  string // sk- keys: application
}

func CurveName(c elliptic.Curve) string {
	switch c.Params().BitSize {
	case 256:
		return "nistp256"
	case 384:
		return "nistp384"
	case 521:
		return "nistp521"
	}
	return ""
}

func CurveByName(n string) elliptic.Curve {
	switch n {
	case "nistp256":
		return elliptic.P256()
	case "nistp384":
		return elliptic.P384()
	case "nistp521":
		return elliptic.P521()
	}
	return nil
}

// ECPoint is the SEC1 uncompressed encoding 04‖X‖Y with fixed coordinate width.
func ECPoint(c elliptic.Curve, x, y *big.Int) []byte {
	n := (c.Params().BitSize + 7) / 8
	b := make([]byte, 1+2*n)
	b[0] = 4
	x.FillBytes(b[1 : 1+n])
	y.FillBytes(b[1+n:])
	return b
}

func BlobRSA(e, n *big.Int) []byte { return (&W{}).S(TRSA).Mpint(e).Mpint(n).B }
func BlobEd(pk []byte) []byte      { return (&W{}).S(TEd).Str(pk).B }
func BlobEC(curve string, q []byte) []byte {
	return (&W{}).S("ecdsa-sha2-" + curve).S(curve).Str(q).B
}
func BlobDSA(p, q, g, y *big.Int) []byte {
	return (&W{}).S(TDSA).Mpint(p).Mpint(q).Mpint(g).Mpint(y).B
}
func BlobSKEC(q []byte, app string) []byte {
	return (&W{}).S(TSKEC).S("nistp256").Str(q).S(app).B
}
func BlobSKEd(pk []byte, app string) []byte { return (&W{}).S(TSKEd).Str(pk).S(app).B }

// BlobFromCrypto encodes a standard-library public key.
func BlobFromCrypto(k any) ([]byte, error) {
	switch k := k.(type) {
	case *rsa.PublicKey:
		return BlobRSA(big.NewInt(int64(k.E)), k.N), nil
	case *ecdsa.PublicKey:
		cn := CurveName(k.Curve)
		if cn == "" {
			return nil, errors.New("sshkeyfmt: unsupported curve")
		}
		return BlobEC(cn, ECPoint(k.Curve, k.X, k.Y)), nil
	case ed25519.PublicKey:
		return BlobEd(k), nil
	case *dsa.PublicKey:
		return BlobDSA(k.P, k.Q, k.G, k.Y), nil
	}
	return nil, fmt.Errorf("sshkeyfmt: unsupported key %T", k)
}

// ParsePub decodes a plain public key blob strictly (no trailing bytes).
func ParsePub(blob []byte) (*Pub, error) {
	r := &R{B: blob}
	p := &Pub{Type: r.S()}
	switch p.Type {
	case TRSA:
		e, n := r.Mpint(), r.Mpint()
		if r.Err == nil {
			if e.Sign() <= 0 || !e.IsInt64() || e.Int64() > 1<<31-1 || n.Sign() <= 0 {
				return nil, errors.New("sshkeyfmt: bad rsa key")
			}
			p.RSA = &rsa.PublicKey{N: n, E: int(e.Int64())}
		}
	case TEC256, TEC384, TEC521, TSKEC:
		cn := r.S()
		q := r.Str()
		if p.Type == TSKEC {
			p.App = r.S()
			if r.Err == nil && cn != "nistp256" {
				return nil, errors.New("sshkeyfmt: sk-ecdsa curve")
			}
		} else if r.Err == nil && "ecdsa-sha2-"+cn != p.Type {
			return nil, errors.New("sshkeyfmt: curve/type mismatch")
		}
		if r.Err == nil {
			c := CurveByName(cn)
			if c == nil {
				return nil, errors.New("sshkeyfmt: unknown curve")
			}
			n := (c.Params().BitSize + 7) / 8
			if len(q) != 1+2*n || q[0] != 4 {
				return nil, errors.New("sshkeyfmt: bad point encoding")
			}
			x := new(big.Int).SetBytes(q[1 : 1+n])
			y := new(big.Int).SetBytes(q[1+n:])
			if !onCurve(c, x, y) {
				return nil, errors.New("sshkeyfmt: point not on curve")
			}
			p.EC = &ecdsa.PublicKey{Curve: c, X: x, Y: y}
		}
	case TEd, TSKEd:
		pk := r.Str()
		if p.Type == TSKEd {
			p.App = r.S()
		}
		if r.Err == nil {
			if len(pk) != 32 {
				return nil, errors.New("sshkeyfmt: bad ed25519 key length")
			}
			p.Ed = ed25519.PublicKey(pk)
		}
	case TDSA:
		P, Q, G, Y := r.Mpint(), r.Mpint(), r.Mpint(), r.Mpint()
		if r.Err == nil {
			p.DSA = &dsa.PublicKey{Parameters: dsa.Parameters{P: P, Q: Q, G: G}, Y: Y}
		}
	default:
		return nil, fmt.Errorf("sshkeyfmt: unknown key type %q", p.Type)
	}
	if !r.Done() {
		return nil, errors.New("sshkeyfmt: malformed public key blob")
	}
	return p, nil
}

// onCurve: y² = x³ − 3x + b (mod p) with plain math/big.
func onCurve(c elliptic.Curve, x, y *big.Int) bool {
	pr := c.Params()
	if x.Sign() < 0 || y.Sign() < 0 || x.Cmp(pr.P) >= 0 || y.Cmp(pr.P) >= 0 {
		return false
	}
	l := new(big.Int).Mul(y, y)
	l.Mod(l, pr.P)
	rhs := new(big.Int).Mul(x, x)
	rhs.Mul(rhs, x)
	rhs.Sub(rhs, new(big.Int).Mul(big.NewInt(3), x))
	rhs.Add(rhs, pr.B)
	rhs.Mod(rhs, pr.P)
	return l.Cmp(rhs) == 0
}

// IsCertType reports a *-cert-v01@openssh.com name.
func IsCertType(t string) bool {
	return len(t) > len(certTail) && t[len(t)-len(certTail):] == certTail
}

package sshkeyfmt

import (
	"bytes"
	"crypto"
	"crypto/ecdsa"
	"crypto/ed25519"
	"crypto/elliptic"
	"crypto/rand"
	"crypto/rsa"
	"crypto/sha256"
	"crypto/sha512"
	"crypto/x509"
	"encoding/asn1"
	"encoding/hex"
	"encoding/pem"
	"math/big"
	"os"
	"os/exec"
	"path/filepath"
	"strings"
	"testing"

	"verif/ext"
)

func unhex(t *testing.T, s string) []byte {
	b, err := hex.DecodeString(s)
	if err != nil {
		t.Fatal(err)
	}
	return b
}

// RFC 4251 §5 mpint examples.
func TestMpintRFC4251(t *testing.T) {
	neg := func(s string) *big.Int { v, _ := new(big.Int).SetString(s, 16); return v.Neg(v) }
	pos := func(s string) *big.Int { v, _ := new(big.Int).SetString(s, 16); return v }
	for _, c := range []struct {
		v    *big.Int
		want string
	}{
		{big.NewInt(0), "00000000"},
		{pos("9a378f9b2e332a7"), "0000000809a378f9b2e332a7"},
		{pos("80"), "000000020080"},
		{neg("1234"), "00000002edcc"},
		{neg("deadbeef"), "00000005ff21524111"},
		{big.NewInt(-1), "00000001ff"},
		{big.NewInt(-128), "0000000180"},
		{big.NewInt(-129), "00000002ff7f"},
		{big.NewInt(127), "000000017f"},
		{big.NewInt(128), "000000020080"},
		{big.NewInt(-256), "00000002ff00"},
	} {
		got := (&W{}).Mpint(c.v).B
		if hex.EncodeToString(got) != c.want {
			t.Errorf("mpint(%v) = %x want %s", c.v, got, c.want)
		}
		r := &R{B: got}
		if back := r.Mpint(); !r.Done() || back.Cmp(c.v) != 0 {
			t.Errorf("decode(%s) = %v want %v", c.want, back, c.v)
		}
	}
	// non-minimal encodings decode to the same value
	if v := MpintFromBody([]byte{0, 0, 0x7f}); v.Int64() != 127 {
		t.Errorf("non-minimal positive: %v", v)
	}
	if v := MpintFromBody([]byte{0xff, 0xff, 0x80}); v.Int64() != -128 {
		t.Errorf("non-minimal negative: %v", v)
	}
}

// Signatures made by real FIDO tokens (test data published with OpenSSH interop
// tests, also shipped in x/crypto/ssh/testdata as data): the SK message layout
// and framing of this package must accept them.
func TestSKTokenVectors(t *testing.T) {
	for _, v := range []struct{ pub, data, sig string }{
		{"sk-ecdsa-sha2-nistp256@openssh.com AAAAInNrLWVjZHNhLXNoYTItbmlzdHAyNTZAb3BlbnNzaC5jb20AAAAIbmlzdHAyNTYAAABBBGRNqlFgED/pf4zXz8IzqA6CALNwYcwgd4MQDmIS1GOtn1SySFObiuyJaOlpqkV5FeEifhxfIC2ejKKtNyO4CysAAAAEc3NoOg== user@host",
			"00000020A4DE1F50DE0EF3F66DCD156C78F5C93B07EEE89D5B5A6531656E835FA1C87B323200000006736B696E6E650000000E7373682D636F6E6E656374696F6E000000097075626C69636B65790100000022736B2D65636473612D736861322D6E69737470323536406F70656E7373682E636F6D0000007F00000022736B2D65636473612D736861322D6E69737470323536406F70656E7373682E636F6D000000086E697374703235360000004104644DAA5160103FE97F8CD7CFC233A80E8200B37061CC207783100E6212D463AD9F54B248539B8AEC8968E969AA457915E1227E1C5F202D9E8CA2AD3723B80B2B000000047373683A",
			"0000007800000022736B2D65636473612D736861322D6E69737470323536406F70656E7373682E636F6D000000490000002016CC1A3070E180621CB206C2C6313D1CC5F094DB844A61D06001E243C608875F0000002100E4BD45D6B9DAA11489AEA8D76C222AA3FD6D50FBFFDA8049526D5D61F63B2C5601000000F9"},
		{"sk-ssh-ed25519@openssh.com AAAAGnNrLXNzaC1lZDI1NTE5QG9wZW5zc2guY29tAAAAIJjzc2a20RjCvN/0ibH6UpGuN9F9hDvD7x182bOesNhHAAAABHNzaDo= user@host",
			"000000204CFE6EA65CCB99B69348339165C7F38E359D95807A377EEE8E603C71DC3316FA3200000006736B696E6E650000000E7373682D636F6E6E656374696F6E000000097075626C69636B6579010000001A736B2D7373682D65643235353139406F70656E7373682E636F6D0000004A0000001A736B2D7373682D65643235353139406F70656E7373682E636F6D0000002098F37366B6D118C2BCDFF489B1FA5291AE37D17D843BC3EF1D7CD9B39EB0D847000000047373683A",
			"000000670000001A736B2D7373682D65643235353139406F70656E7373682E636F6D000000404BF5CA0CAA553099306518732317B3FE4BA6C75365BC0CB02019FBE65A1647016CBD7A682C26928DF234C378ADDBC5077B47F72381144840BF00FB2DA2FB6A0A010000009E"},
	} {
		_, blob, _, err := ParseAuthorizedLine(v.pub)
		if err != nil {
			t.Fatal(err)
		}
		p, err := ParsePub(blob)
		if err != nil {
			t.Fatal(err)
		}
		if p.App != "ssh:" {
			t.Fatalf("application %q", p.App)
		}
		r := &R{B: unhex(t, v.sig)}
		body := &R{B: r.Str()}
		format := body.S()
		sb := body.Str()
		rest := body.B
		if err := Verify(p, format, sb, rest, unhex(t, v.data)); err != nil {
			t.Errorf("%s: token vector rejected: %v", p.Type, err)
		}
		// flags / counter / data are covered by the signature
		for _, mut := range [][]byte{{rest[0] ^ 4, rest[1], rest[2], rest[3], rest[4]}, {rest[0], rest[1], rest[2], rest[3], rest[4] ^ 1}} {
			if Verify(p, format, sb, mut, unhex(t, v.data)) == nil {
				t.Errorf("%s: modified flags/counter accepted", p.Type)
			}
		}
		if Verify(p, format, sb, rest, append(unhex(t, v.data), 0)) == nil {
			t.Errorf("%s: modified data accepted", p.Type)
		}
	}
}

// The PKCS#1 arithmetic, framing and hash table agree with the standard library
// and with openssl in both directions.
func TestSigAgainstStdlibAndOpenSSL(t *testing.T) {
	rk, err := rsa.GenerateKey(rand.Reader, 2048)
	if err != nil {
		t.Fatal(err)
	}
	data := []byte("the quick brown fox")
	rp := &Pub{Type: TRSA, RSA: &rk.PublicKey}
	for f, h := range map[string]crypto.Hash{TRSA: crypto.SHA1, FRSA256: crypto.SHA256, FRSA512: crypto.SHA512} {
		hh := h.New()
		hh.Write(data)
		std, err := rsa.SignPKCS1v15(nil, rk, h, hh.Sum(nil))
		if err != nil {
			t.Fatal(err)
		}
		if err := Verify(rp, f, std, nil, data); err != nil {
			t.Errorf("%s: stdlib signature rejected: %v", f, err)
		}
		mine, err := SignRSA(rk, f, data)
		if err != nil {
			t.Fatal(err)
		}
		if !bytes.Equal(mine, std) {
			t.Errorf("%s: SignRSA differs from stdlib (PKCS#1 v1.5 is deterministic)", f)
		}
		for _, g := range []string{TRSA, FRSA256, FRSA512, TEd} {
			if g != f && Verify(rp, g, std, nil, data) == nil {
				t.Errorf("signature for %s accepted as %s", f, g)
			}
		}
	}
	for _, c := range []elliptic.Curve{elliptic.P256(), elliptic.P384(), elliptic.P521()} {
		k, _ := ecdsa.GenerateKey(c, rand.Reader)
		blob, err := SignEC(k, data)
		if err != nil {
			t.Fatal(err)
		}
		p := &Pub{Type: "ecdsa-sha2-" + CurveName(c), EC: &k.PublicKey}
		if err := Verify(p, p.Type, blob, nil, data); err != nil {
			t.Errorf("%s: %v", p.Type, err)
		}
		if Verify(p, p.Type, blob, nil, append(data, 1)) == nil {
			t.Errorf("%s: other data accepted", p.Type)
		}
		if Verify(p, p.Type, append(blob, 0), nil, data) == nil {
			t.Errorf("%s: trailing byte accepted", p.Type)
		}
		bl, _ := BlobFromCrypto(&k.PublicKey)
		if q, err := ParsePub(bl); err != nil || q.EC.X.Cmp(k.X) != 0 || q.Type != p.Type {
			t.Errorf("%s: blob roundtrip: %v", p.Type, err)
		}
	}
	if _, err := exec.LookPath("openssl"); err != nil {
		t.Skip("no openssl")
	}
	dir, err := ext.TempDir("sshkeyfmt")
	if err != nil {
		t.Fatal(err)
	}
	defer os.RemoveAll(dir)
	// openssl signs, this package verifies
	der, _ := x509.MarshalPKCS8PrivateKey(rk)
	os.WriteFile(filepath.Join(dir, "rsa.pem"), pem.EncodeToMemory(&pem.Block{Type: "PRIVATE KEY", Bytes: der}), 0o600)
	os.WriteFile(filepath.Join(dir, "data"), data, 0o600)
	for f, dg := range map[string]string{TRSA: "-sha1", FRSA256: "-sha256", FRSA512: "-sha512"} {
		out, err := exec.Command("openssl", "dgst", dg, "-sign", filepath.Join(dir, "rsa.pem"), filepath.Join(dir, "data")).Output()
		if err != nil {
			t.Fatalf("openssl: %v", err)
		}
		if err := Verify(rp, f, out, nil, data); err != nil {
			t.Errorf("%s: openssl signature rejected: %v", f, err)
		}
	}
	ek, _ := ecdsa.GenerateKey(elliptic.P384(), rand.Reader)
	der, _ = x509.MarshalPKCS8PrivateKey(ek)
	os.WriteFile(filepath.Join(dir, "ec.pem"), pem.EncodeToMemory(&pem.Block{Type: "PRIVATE KEY", Bytes: der}), 0o600)
	out, err := exec.Command("openssl", "dgst", "-sha384", "-sign", filepath.Join(dir, "ec.pem"), filepath.Join(dir, "data")).Output()
	if err != nil {
		t.Fatalf("openssl: %v", err)
	}
	var rs struct{ R, S *big.Int }
	if _, err := asn1.Unmarshal(out, &rs); err != nil {
		t.Fatal(err)
	}
	if err := Verify(&Pub{Type: TEC384, EC: &ek.PublicKey}, TEC384, ECBlob(rs.R, rs.S), nil, data); err != nil {
		t.Errorf("openssl P-384 signature rejected: %v", err)
	}
	_ = sha256.Sum256
	_ = sha512.Sum512
}

// The container codec reads what ssh-keygen writes (all types), finds the
// documented redundancy in it (check ints, padding, three copies of the
// public key), re-encodes byte-identically, and ssh-keygen reads back what the
// encoder builds from scratch.
func TestContainerAgainstSSHKeygen(t *testing.T) {
	if _, err := exec.LookPath("ssh-keygen"); err != nil {
		t.Skip("no ssh-keygen")
	}
	dir, err := ext.TempDir("sshkeyfmt")
	if err != nil {
		t.Fatal(err)
	}
	defer os.RemoveAll(dir)
	for _, typ := range [][]string{{"ed25519"}, {"ecdsa", "-b", "256"}, {"ecdsa", "-b", "384"}, {"ecdsa", "-b", "521"}, {"rsa", "-b", "2048"}, {"dsa"}} {
		name := filepath.Join(dir, strings.Join(typ, "_"))
		args := append([]string{"-q", "-t"}, typ...)
		args = append(args, "-N", "", "-C", "a comment", "-f", name)
		if out, err := exec.Command("ssh-keygen", args...).CombinedOutput(); err != nil {
			t.Fatalf("ssh-keygen %v: %v %s", typ, err, out)
		}
		pemb, _ := os.ReadFile(name)
		publ, _ := os.ReadFile(name + ".pub")
		_, pubBlob, comment, err := ParseAuthorizedLine(string(publ))
		if err != nil {
			t.Fatal(err)
		}
		if comment != "a comment" {
			t.Errorf("comment %q", comment)
		}
		body, err := DecodePEM(pemb)
		if err != nil {
			t.Fatal(err)
		}
		c, err := ParseContainer(body)
		if err != nil {
			t.Fatal(err)
		}
		if c.Cipher != "none" || c.KDF != "none" || len(c.KDFOpts) != 0 || c.NKeys != 1 || len(c.Trailer) != 0 {
			t.Errorf("%v: header %+v", typ, c)
		}
		if !bytes.Equal(c.Pubs[0], pubBlob) {
			t.Errorf("%v: outer public key differs from .pub", typ)
		}
		if !bytes.Equal(c.Marshal(), body) {
			t.Errorf("%v: container re-encoding differs", typ)
		}
		if !bytes.Equal(EncodePEM(body), pemb) {
			t.Errorf("%v: PEM re-encoding differs", typ)
		}
		ps, err := ParsePrivSection(c.Priv)
		if err != nil {
			t.Fatal(err)
		}
		if ps.Check1 != ps.Check2 || !PadOK(ps.Pad) || len(c.Priv)%8 != 0 || ps.Comment != "a comment" {
			t.Errorf("%v: private section redundancy: %+v", typ, ps)
		}
		if !bytes.Equal(ps.Marshal(), c.Priv) || !bytes.Equal(ps.MarshalPadded(8), c.Priv) {
			t.Errorf("%v: private section re-encoding differs", typ)
		}
		// the private components determine the outer public key
		var derived []byte
		switch {
		case ps.Ed != nil:
			sk := ed25519.NewKeyFromSeed(ps.Ed.Priv[:32])
			if !bytes.Equal(sk[32:], ps.Ed.Pub) || !bytes.Equal(ps.Ed.Priv[32:], ps.Ed.Pub) {
				t.Errorf("ed25519 halves")
			}
			derived = BlobEd(sk[32:])
		case ps.EC != nil:
			cv := CurveByName(ps.EC.Curve)
			x, y := cv.ScalarBaseMult(ps.EC.D.Bytes())
			derived = BlobEC(ps.EC.Curve, ECPoint(cv, x, y))
			if !bytes.Equal(ECPoint(cv, x, y), ps.EC.Pub) {
				t.Errorf("ecdsa point")
			}
		case ps.RSA != nil:
			k := ps.RSA
			if new(big.Int).Mul(k.P, k.Q).Cmp(k.N) != 0 {
				t.Errorf("rsa n != p*q")
			}
			if new(big.Int).Mod(new(big.Int).Mul(k.Iqmp, k.Q), k.P).Cmp(big.NewInt(1)) != 0 {
				t.Errorf("rsa iqmp")
			}
			derived = BlobRSA(k.E, k.N)
		case ps.DSA != nil:
			k := ps.DSA
			if new(big.Int).Exp(k.G, k.X, k.P).Cmp(k.Y) != 0 {
				t.Errorf("dsa y")
			}
			derived = BlobDSA(k.P, k.Q, k.G, k.Y)
		}
		if !bytes.Equal(derived, pubBlob) {
			t.Errorf("%v: public key derived from private components differs from .pub", typ)
		}
		if _, err := ParsePub(pubBlob); err != nil {
			t.Errorf("%v: ParsePub: %v", typ, err)
		}
		// encoder from scratch -> ssh-keygen -y prints the same public key
		ps2 := *ps
		ps2.Check1, ps2.Check2 = 0x01020304, 0x01020304
		ps2.Comment = "rebuilt"
		c2 := &Container{Cipher: "none", KDF: "none", NKeys: 1, Pubs: [][]byte{pubBlob}, Priv: ps2.MarshalPadded(8)}
		f2 := name + ".rebuilt"
		os.WriteFile(f2, EncodePEM(c2.Marshal()), 0o600)
		out, err := exec.Command("ssh-keygen", "-y", "-f", f2).CombinedOutput()
		if err != nil {
			t.Fatalf("%v: ssh-keygen -y on rebuilt file: %v %s", typ, err, out)
		}
		_, b2, _, err := ParseAuthorizedLine(strings.TrimSpace(string(out)))
		if err != nil || !bytes.Equal(b2, pubBlob) {
			t.Errorf("%v: ssh-keygen -y of rebuilt file prints another key (%v)", typ, err)
		}
	}
}

// Package agentmodel is an executable specification of an SSH agent as an
// abstract sequential state machine, written from draft-miller-ssh-agent
// (sections 4.2-4.7: add/constrain, remove, list, sign, lock/unlock,
// extension) and from the documented behaviour of
// golang.org/x/crypto/ssh/agent (doc comments of Agent, ExtendedAgent,
// NewKeyring, keyring.Add, keyring.Lock). It shares no code with x/crypto.
//
// State: map key blob -> {comment, optional expiry, confirm flag}; locked flag;
// passphrase. Time is a logical duration supplied by the caller with every
// step (never a clock read).
//
// The specification is deliberately non-deterministic where the texts do not
// decide (Tri value Either): the observed result resolves the choice and the
// state follows the observation. Step returns the list of contradictions
// between an observed result and every reading of the specification.
package agentmodel

import (
	"bytes"
	"fmt"
	"sort"
	"strings"
	"time"
)

// Kind of an agent operation.
type Kind int

const (
	Add Kind = iota
	Remove
	RemoveAll
	Lock
	Unlock
	List
	Sign
	Signers
	Extension
)

var kindNames = [...]string{"Add", "Remove", "RemoveAll", "Lock", "Unlock", "List", "Sign", "Signers", "Extension"}

func (k Kind) String() string { return kindNames[k] }

// Signature flag bits of SSH_AGENTC_SIGN_REQUEST (draft section 4.5.1).
const (
	FlagReserved  = 1
	FlagRSASHA256 = 2
	FlagRSASHA512 = 4
)

// Profile selects the readings that differ between implementations and are
// fixed by their documentation.
type Profile struct {
	Name string
	// ConfirmSupported: false = an add with the confirm constraint is refused
	// (x/crypto keyring: "Add returns an error if key contains
	// ConstraintExtensions or ConfirmBeforeUse"); true = accepted and every
	// use needs a confirmation.
	ConfirmSupported bool
	// ConfirmDenied (only with ConfirmSupported): the confirmation dialog of
	// the closed system always answers no, so signing with such a key fails.
	ConfirmDenied bool
}

// GoKeyring is the profile of agent.NewKeyring (also behind ServeAgent).
var GoKeyring = Profile{Name: "go-keyring"}

// OpenSSH is the profile of OpenSSH's ssh-agent run with a denying askpass.
var OpenSSH = Profile{Name: "openssh", ConfirmSupported: true, ConfirmDenied: true}

// Entry is one identity held by the abstract agent.
type Entry struct {
	Comment   string
	HasExpiry bool
	Expiry    time.Duration // logical time at which the lifetime ends
	Confirm   bool
}

// Model is the abstract agent.
type Model struct {
	P      Profile
	Keys   map[string]Entry // key blob -> entry
	Locked bool
	Pass   []byte
}

// New returns an empty, unlocked agent.
func New(p Profile) *Model { return &Model{P: p, Keys: map[string]Entry{}} }

// Clone returns a deep copy.
func (m *Model) Clone() *Model {
	c := &Model{P: m.P, Keys: make(map[string]Entry, len(m.Keys)), Locked: m.Locked, Pass: append([]byte(nil), m.Pass...)}
	for k, v := range m.Keys {
		c.Keys[k] = v
	}
	return c
}

// Equal compares two states.
func (m *Model) Equal(o *Model) bool {
	if m.Locked != o.Locked || !bytes.Equal(m.Pass, o.Pass) || len(m.Keys) != len(o.Keys) {
		return false
	}
	for k, v := range m.Keys {
		if w, ok := o.Keys[k]; !ok || v != w {
			return false
		}
	}
	return true
}

// Canon is a canonical rendering of the state (for debugging / hashing).
func (m *Model) Canon() string {
	var ks []string
	for k, v := range m.Keys {
		ks = append(ks, fmt.Sprintf("%x:%q:%v:%d:%v", k, v.Comment, v.HasExpiry, v.Expiry, v.Confirm))
	}
	sort.Strings(ks)
	return fmt.Sprintf("locked=%v pass=%x keys=[%s]", m.Locked, m.Pass, strings.Join(ks, " "))
}

// Life is the status of an identity at a logical time.
type Life int

const (
	Absent   Life = iota
	Alive         // present, lifetime not over
	Boundary      // now == expiry exactly: the texts disagree (">" in code, ">=" in its comment and in OpenSSH)
	Expired       // lifetime over; the implementation may not have reaped it yet
)

func (l Life) String() string { return [...]string{"absent", "alive", "boundary", "expired"}[l] }

// Status returns the life status of blob at time now.
func (m *Model) Status(blob string, now time.Duration) Life {
	e, ok := m.Keys[blob]
	if !ok {
		return Absent
	}
	if !e.HasExpiry || now < e.Expiry {
		return Alive
	}
	if now == e.Expiry {
		return Boundary
	}
	return Expired
}

// Op is one operation with its inputs.
type Op struct {
	Kind Kind
	Now  time.Duration // logical time of the call

	Blob    string // key blob (Add, Remove, Sign)
	KeyAlgo string // base signature algorithm of the key: "ssh-rsa", "ssh-dss", "ecdsa-sha2-nistp256", ..., "ssh-ed25519" (Sign)
	Comment string // Add
	// Lifetime in seconds, 0 = none (Add).
	Lifetime uint32
	Confirm  bool // Add
	// UnknownConstraint: the add carries a constraint extension no agent
	// implements; it must be refused (draft 4.2.1: "MUST refuse").
	UnknownConstraint bool
	Pass              []byte // Lock, Unlock
	Flags             uint32 // Sign
	// ViaList: Signers is implemented by listing (agent client): a locked
	// agent yields an empty result instead of an error.
	ViaList bool
}

// KeyObs is one listed identity.
type KeyObs struct {
	Blob    string
	Format  string
	Comment string
}

// Obs is the observed result of an operation.
type Obs struct {
	Err bool
	// ErrUnsupported: the error is "extension unsupported" (Extension).
	ErrUnsupported bool
	Keys           []KeyObs // List; Signers (Blob only)
	// Sign: format name inside the signature and whether an independent
	// verifier accepted it under the requested key with that algorithm.
	SigFormat string
	SigValid  bool
}

// Finding is a contradiction between observation and specification.
type Finding struct {
	Key string // stable, specific
	Msg string
}

func one(key, format string, a ...any) []Finding {
	return []Finding{{Key: key, Msg: fmt.Sprintf(format, a...)}}
}

// AllowedSigFormats returns the signature formats the specification allows
// for a key with base algorithm algo and request flags, and whether refusing
// the request is also allowed for a usable key.
func AllowedSigFormats(algo string, flags uint32) (formats []string, mayRefuse bool) {
	if algo != "ssh-rsa" {
		// Flags only define RSA variants. For other keys with flags set the
		// draft says nothing: signing with the key's algorithm (OpenSSH) and
		// refusing (x/crypto keyring) are both accepted.
		return []string{algo}, flags != 0
	}
	switch flags {
	case 0:
		return []string{"ssh-rsa"}, false
	case FlagRSASHA256:
		return []string{"rsa-sha2-256"}, false
	case FlagRSASHA512:
		return []string{"rsa-sha2-512"}, false
	}
	// reserved / unknown / combined bits: unspecified
	return []string{"ssh-rsa", "rsa-sha2-256", "rsa-sha2-512"}, true
}

// Step judges obs for op in the current state and advances the state. The
// state follows the observation wherever the specification leaves a choice
// (and also after a contradiction, so that one defect is reported once).
func (m *Model) Step(op Op, obs Obs) []Finding {
	switch op.Kind {
	case Add:
		return m.stepAdd(op, obs)
	case Remove:
		return m.stepRemove(op, obs)
	case RemoveAll:
		if m.Locked {
			if !obs.Err {
				m.Keys = map[string]Entry{}
				return one("removeall-while-locked-accepted", "RemoveAll succeeded on a locked agent")
			}
			return nil
		}
		if obs.Err {
			return one("removeall-refused", "RemoveAll failed on an unlocked agent")
		}
		m.Keys = map[string]Entry{}
		return nil
	case Lock:
		if m.Locked {
			if !obs.Err {
				m.Pass = append([]byte(nil), op.Pass...)
				return one("lock-while-locked-accepted", "Lock succeeded on an already locked agent")
			}
			return nil
		}
		if obs.Err {
			if len(op.Pass) == 0 {
				return nil // refusing an empty passphrase is a permitted reading (OpenSSH)
			}
			return one("lock-refused", "Lock with a non-empty passphrase failed on an unlocked agent")
		}
		m.Locked = true
		m.Pass = append([]byte(nil), op.Pass...)
		return nil
	case Unlock:
		if !m.Locked {
			if !obs.Err {
				return one("unlock-not-locked-accepted", "Unlock succeeded on an agent that is not locked")
			}
			return nil
		}
		if bytes.Equal(op.Pass, m.Pass) {
			if obs.Err {
				return one("unlock-right-passphrase-refused", "Unlock with the locking passphrase failed")
			}
			m.Locked, m.Pass = false, nil
			return nil
		}
		if !obs.Err {
			m.Locked, m.Pass = false, nil
			return one("unlock-wrong-passphrase-accepted", "Unlock with passphrase %x succeeded, agent was locked with %x", op.Pass, m.Pass)
		}
		return nil
	case List:
		return m.stepList(op, obs, true)
	case Signers:
		if m.Locked {
			if obs.Err {
				return nil
			}
			if len(obs.Keys) != 0 {
				return one("signers-while-locked-nonempty", "Signers returned %d signers on a locked agent", len(obs.Keys))
			}
			return nil
		}
		return m.stepList(op, obs, false)
	case Sign:
		return m.stepSign(op, obs)
	case Extension:
		// Neither profile implements the extension names the workloads use.
		if !obs.Err {
			return one("extension-unsupported-succeeded", "an unsupported extension request succeeded")
		}
		if !obs.ErrUnsupported {
			return one("extension-unsupported-wrong-error", "an unsupported extension request did not yield the extension-unsupported error")
		}
		return nil
	}
	return one("model-unknown-op", "unknown op kind %d", op.Kind)
}

func (m *Model) stepAdd(op Op, obs Obs) []Finding {
	ent := Entry{Comment: op.Comment, Confirm: op.Confirm}
	if op.Lifetime > 0 {
		ent.HasExpiry = true
		ent.Expiry = op.Now + time.Duration(op.Lifetime)*time.Second
	}
	mustFail, key := false, ""
	switch {
	case m.Locked:
		mustFail, key = true, "add-while-locked-accepted"
	case op.UnknownConstraint:
		mustFail, key = true, "add-unknown-constraint-accepted"
	case op.Confirm && !m.P.ConfirmSupported:
		mustFail, key = true, "add-unsupported-confirm-accepted"
	}
	if mustFail {
		if !obs.Err {
			m.Keys[op.Blob] = ent
			return one(key, "Add succeeded but must be refused (locked=%v confirm=%v unknownConstraint=%v)", m.Locked, op.Confirm, op.UnknownConstraint)
		}
		return nil
	}
	if obs.Err {
		return one("add-refused", "Add of a supported key failed on an unlocked agent")
	}
	m.Keys[op.Blob] = ent // insert, or replace the single entry with this blob
	return nil
}

func (m *Model) stepRemove(op Op, obs Obs) []Finding {
	if m.Locked {
		if !obs.Err {
			delete(m.Keys, op.Blob)
			return one("remove-while-locked-accepted", "Remove succeeded on a locked agent")
		}
		return nil
	}
	st := m.Status(op.Blob, op.Now)
	delete(m.Keys, op.Blob)
	switch st {
	case Absent:
		if !obs.Err {
			return one("remove-absent-succeeded", "Remove of a key that is not held succeeded")
		}
	case Alive:
		if obs.Err {
			return one("remove-present-failed", "Remove of a held key failed")
		}
	case Boundary, Expired:
		// a not yet reaped expired identity: both answers are accepted; it is gone afterwards
	}
	return nil
}

// stepList judges List (withComments) and unlocked Signers.
func (m *Model) stepList(op Op, obs Obs, isList bool) []Finding {
	name := "list"
	if !isList {
		name = "signers"
	}
	if m.Locked { // only List gets here when locked
		if obs.Err {
			// documented: "List will return an empty list"
			return one("list-while-locked-error", "List failed on a locked agent (documented: returns an empty list)")
		}
		if len(obs.Keys) != 0 {
			return one("list-while-locked-nonempty", "List returned %d identities on a locked agent", len(obs.Keys))
		}
		return nil
	}
	if obs.Err {
		return one(name+"-refused", "%s failed on an unlocked agent", name)
	}
	var out []Finding
	seen := map[string]bool{}
	for _, k := range obs.Keys {
		if seen[k.Blob] {
			out = append(out, Finding{name + "-duplicate-key", fmt.Sprintf("identity %x… listed twice", prefix(k.Blob))})
			continue
		}
		seen[k.Blob] = true
		e := m.Keys[k.Blob]
		switch m.Status(k.Blob, op.Now) {
		case Absent:
			out = append(out, Finding{name + "-stale-key", fmt.Sprintf("identity %x… is listed but not held (never added, removed or replaced)", prefix(k.Blob))})
		case Expired:
			out = append(out, Finding{name + "-expired-key", fmt.Sprintf("identity %x… is listed after its lifetime ended", prefix(k.Blob))})
		default:
			if isList && k.Comment != e.Comment {
				out = append(out, Finding{"list-wrong-comment", fmt.Sprintf("identity %x… listed with comment %q, held with %q", prefix(k.Blob), k.Comment, e.Comment)})
			}
		}
	}
	for b := range m.Keys {
		switch m.Status(b, op.Now) {
		case Alive:
			if !seen[b] {
				out = append(out, Finding{name + "-missing-key", fmt.Sprintf("held identity %x… (comment %q) is not listed", prefix(b), m.Keys[b].Comment)})
			}
		case Boundary:
			if !seen[b] {
				delete(m.Keys, b) // reaped at the boundary instant: permitted
			}
		case Expired:
			delete(m.Keys, b) // listing reaps
		}
	}
	// follow the observation for stale keys so one defect is reported once
	return out
}

func (m *Model) stepSign(op Op, obs Obs) []Finding {
	if m.Locked {
		if !obs.Err {
			return one("sign-while-locked", "a locked agent produced a signature")
		}
		return nil
	}
	st := m.Status(op.Blob, op.Now)
	e := m.Keys[op.Blob]
	switch st {
	case Absent:
		if !obs.Err {
			return one("sign-absent-key-succeeded", "signature produced for a key that is not held")
		}
		return nil
	case Expired:
		delete(m.Keys, op.Blob)
		if !obs.Err {
			return one("sign-expired-key-succeeded", "signature produced after the key's lifetime ended")
		}
		return nil
	}
	formats, mayRefuse := AllowedSigFormats(op.KeyAlgo, op.Flags)
	if e.Confirm && m.P.ConfirmDenied {
		if !obs.Err {
			return one("sign-unconfirmed-succeeded", "signature produced with a confirm-constrained key although confirmation is denied")
		}
		return nil
	}
	if obs.Err {
		if mayRefuse {
			return nil // also at the boundary: the refusal says nothing about reaping
		}
		if st == Boundary {
			delete(m.Keys, op.Blob) // reaped at the boundary instant (no other reason to fail)
			return nil
		}
		return one("sign-present-key-failed", "no signature for a held, unexpired key on an unlocked agent (flags=%d)", op.Flags)
	}
	ok := false
	for _, f := range formats {
		if obs.SigFormat == f {
			ok = true
		}
	}
	if !ok {
		return one("signature-wrong-algorithm", "signature format %q for key algorithm %q with flags %d; allowed %v", obs.SigFormat, op.KeyAlgo, op.Flags, formats)
	}
	if !obs.SigValid {
		return one("signature-does-not-verify", "signature (format %q) does not verify under the requested key", obs.SigFormat)
	}
	return nil
}

func prefix(s string) string {
	// skip the common "type name" head so that different keys of one type differ
	if len(s) > 40 {
		return s[len(s)-12:]
	}
	return s
}

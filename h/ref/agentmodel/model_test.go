package agentmodel

import (
	"testing"
	"time"
)

type step struct {
	op   Op
	obs  Obs
	want string // "" = accepted, else the finding key
}

func run(t *testing.T, name string, p Profile, steps []step) *Model {
	t.Helper()
	m := New(p)
	for i, s := range steps {
		f := m.Step(s.op, s.obs)
		got := ""
		if len(f) > 0 {
			got = f[0].Key
		}
		if got != s.want {
			t.Fatalf("%s step %d (%v): got finding %q (%v), want %q", name, i, s.op.Kind, got, f, s.want)
		}
	}
	return m
}

const sec = time.Second

var (
	ok   = Obs{}
	fail = Obs{Err: true}
)

func keys(kv ...string) Obs {
	var o Obs
	for i := 0; i+1 < len(kv); i += 2 {
		o.Keys = append(o.Keys, KeyObs{Blob: kv[i], Comment: kv[i+1]})
	}
	return o
}

func sig(format string, valid bool) Obs { return Obs{SigFormat: format, SigValid: valid} }

// Scenarios written from draft-miller-ssh-agent 4.2-4.6 and the package docs.
func TestScenarios(t *testing.T) {
	A, B := "blob-A", "blob-B"
	// add, list, replace (single entry, comment updated), remove, remove again
	run(t, "basic", GoKeyring, []step{
		{Op{Kind: List}, keys(), ""},
		{Op{Kind: Add, Blob: A, Comment: "a1"}, ok, ""},
		{Op{Kind: Add, Blob: B, Comment: "b1"}, ok, ""},
		{Op{Kind: List}, keys(B, "b1", A, "a1"), ""}, // order free
		{Op{Kind: Add, Blob: A, Comment: "a2"}, ok, ""},
		{Op{Kind: List}, keys(A, "a2", B, "b1"), ""},
		{Op{Kind: Remove, Blob: A}, ok, ""},
		{Op{Kind: Remove, Blob: A}, fail, ""},
		{Op{Kind: List}, keys(B, "b1"), ""},
		{Op{Kind: RemoveAll}, ok, ""},
		{Op{Kind: List}, keys(), ""},
	})
	// wrong observations are rejected with specific keys
	run(t, "stale duplicate", GoKeyring, []step{
		{Op{Kind: Add, Blob: A, Comment: "a"}, ok, ""},
		{Op{Kind: Add, Blob: B, Comment: "b"}, ok, ""},
		{Op{Kind: Remove, Blob: A}, ok, ""},
		{Op{Kind: List}, keys(B, "b", B, "b"), "list-duplicate-key"},
	})
	run(t, "stale", GoKeyring, []step{
		{Op{Kind: Add, Blob: A, Comment: "a"}, ok, ""},
		{Op{Kind: Remove, Blob: A}, ok, ""},
		{Op{Kind: List}, keys(A, "a"), "list-stale-key"},
	})
	run(t, "old comment", GoKeyring, []step{
		{Op{Kind: Add, Blob: A, Comment: "a"}, ok, ""},
		{Op{Kind: Add, Blob: A, Comment: "a'"}, ok, ""},
		{Op{Kind: List}, keys(A, "a"), "list-wrong-comment"},
	})
	run(t, "missing", GoKeyring, []step{
		{Op{Kind: Add, Blob: A, Comment: "a"}, ok, ""},
		{Op{Kind: List}, keys(), "list-missing-key"},
	})
	run(t, "remove absent ok", GoKeyring, []step{
		{Op{Kind: Remove, Blob: A}, ok, "remove-absent-succeeded"},
	})
	run(t, "remove present fails", GoKeyring, []step{
		{Op{Kind: Add, Blob: A}, ok, ""},
		{Op{Kind: Remove, Blob: A}, fail, "remove-present-failed"},
	})
}

func TestLock(t *testing.T) {
	A := "blob-A"
	pw, bad := []byte("secret"), []byte("secreT")
	run(t, "lock", GoKeyring, []step{
		{Op{Kind: Add, Blob: A, Comment: "a", KeyAlgo: "ssh-ed25519"}, ok, ""},
		{Op{Kind: Unlock, Pass: pw}, fail, ""}, // not locked
		{Op{Kind: Lock, Pass: pw}, ok, ""},
		{Op{Kind: Lock, Pass: pw}, fail, ""}, // double lock
		{Op{Kind: List}, keys(), ""},         // locked agents list nothing, without error
		{Op{Kind: Sign, Blob: A, KeyAlgo: "ssh-ed25519"}, fail, ""},
		{Op{Kind: Add, Blob: "blob-B"}, fail, ""},
		{Op{Kind: Remove, Blob: A}, fail, ""},
		{Op{Kind: RemoveAll}, fail, ""},
		{Op{Kind: Signers}, fail, ""},
		{Op{Kind: Signers, ViaList: true}, keys(), ""},
		{Op{Kind: Unlock, Pass: bad}, fail, ""},
		{Op{Kind: Unlock, Pass: nil}, fail, ""},
		{Op{Kind: List}, keys(), ""},
		{Op{Kind: Unlock, Pass: pw}, ok, ""},
		{Op{Kind: List}, keys(A, "a"), ""}, // nothing was removed while locked
		{Op{Kind: Sign, Blob: A, KeyAlgo: "ssh-ed25519"}, sig("ssh-ed25519", true), ""},
	})
	for _, c := range []struct {
		op   Op
		obs  Obs
		want string
	}{
		{Op{Kind: List}, keys(A, "a"), "list-while-locked-nonempty"},
		{Op{Kind: List}, fail, "list-while-locked-error"},
		{Op{Kind: Sign, Blob: A, KeyAlgo: "ssh-ed25519"}, sig("ssh-ed25519", true), "sign-while-locked"},
		{Op{Kind: RemoveAll}, ok, "removeall-while-locked-accepted"},
		{Op{Kind: Remove, Blob: A}, ok, "remove-while-locked-accepted"},
		{Op{Kind: Add, Blob: "blob-B"}, ok, "add-while-locked-accepted"},
		{Op{Kind: Lock, Pass: bad}, ok, "lock-while-locked-accepted"},
		{Op{Kind: Unlock, Pass: bad}, ok, "unlock-wrong-passphrase-accepted"},
		{Op{Kind: Unlock, Pass: []byte("secre")}, ok, "unlock-wrong-passphrase-accepted"},
		{Op{Kind: Unlock, Pass: pw}, fail, "unlock-right-passphrase-refused"},
		{Op{Kind: Signers}, keys(A, ""), "signers-while-locked-nonempty"},
	} {
		run(t, "locked/"+c.want, GoKeyring, []step{
			{Op{Kind: Add, Blob: A, Comment: "a"}, ok, ""},
			{Op{Kind: Lock, Pass: pw}, ok, ""},
			{c.op, c.obs, c.want},
		})
	}
	run(t, "unlock not locked", GoKeyring, []step{{Op{Kind: Unlock, Pass: pw}, ok, "unlock-not-locked-accepted"}})
	// empty passphrase: both readings, state follows
	m := run(t, "empty pass refused", GoKeyring, []step{{Op{Kind: Lock}, fail, ""}})
	if m.Locked {
		t.Fatal("refused lock must leave the agent unlocked")
	}
	m = run(t, "empty pass accepted", GoKeyring, []step{{Op{Kind: Lock}, ok, ""}, {Op{Kind: Unlock, Pass: []byte{}}, ok, ""}})
	if m.Locked {
		t.Fatal("unlock with the empty passphrase")
	}
}

func TestLifetime(t *testing.T) {
	A := "blob-A"
	add := Op{Kind: Add, Blob: A, Comment: "a", Lifetime: 10, Now: 5 * sec, KeyAlgo: "ssh-ed25519"}
	sg := func(now time.Duration) Op { return Op{Kind: Sign, Blob: A, KeyAlgo: "ssh-ed25519", Now: now} }
	run(t, "before", GoKeyring, []step{{add, ok, ""},
		{Op{Kind: List, Now: 15*sec - 1}, keys(A, "a"), ""},
		{sg(15*sec - 1), sig("ssh-ed25519", true), ""},
		{sg(14 * sec), fail, "sign-present-key-failed"}})
	run(t, "at-kept", GoKeyring, []step{{add, ok, ""},
		{Op{Kind: List, Now: 15 * sec}, keys(A, "a"), ""},
		{sg(15 * sec), sig("ssh-ed25519", true), ""},
		{sg(15*sec + 1), fail, ""}})
	run(t, "at-reaped", GoKeyring, []step{{add, ok, ""},
		{Op{Kind: List, Now: 15 * sec}, keys(), ""},
		{sg(15 * sec), fail, ""},
		{Op{Kind: List, Now: 15 * sec}, keys(A, "a"), "list-stale-key"}})
	// a refusal for another permitted reason at the boundary instant does not mean "reaped"
	run(t, "at-refused-flags", GoKeyring, []step{{add, ok, ""},
		{Op{Kind: Sign, Blob: A, KeyAlgo: "ssh-ed25519", Flags: 6, Now: 15 * sec}, fail, ""},
		{sg(15 * sec), sig("ssh-ed25519", true), ""},
		{Op{Kind: List, Now: 15 * sec}, keys(A, "a"), ""}})
	run(t, "after", GoKeyring, []step{{add, ok, ""},
		{Op{Kind: List, Now: 15*sec + 1}, keys(A, "a"), "list-expired-key"}})
	run(t, "after-sign", GoKeyring, []step{{add, ok, ""},
		{sg(16 * sec), sig("ssh-ed25519", true), "sign-expired-key-succeeded"}})
	run(t, "after-remove-either", GoKeyring, []step{{add, ok, ""},
		{Op{Kind: Remove, Blob: A, Now: 16 * sec}, ok, ""},
		{Op{Kind: Remove, Blob: A, Now: 16 * sec}, ok, "remove-absent-succeeded"}})
	run(t, "after-remove-either2", GoKeyring, []step{{add, ok, ""},
		{Op{Kind: Remove, Blob: A, Now: 16 * sec}, fail, ""}})
	// re-add without lifetime clears the expiry; re-add with lifetime restarts it
	run(t, "readd", GoKeyring, []step{{add, ok, ""},
		{Op{Kind: Add, Blob: A, Comment: "a2", Now: 14 * sec}, ok, ""},
		{Op{Kind: List, Now: 1000 * sec}, keys(A, "a2"), ""},
		{Op{Kind: Add, Blob: A, Comment: "a3", Lifetime: 1, Now: 1000 * sec}, ok, ""},
		{Op{Kind: List, Now: 1001*sec + 1}, keys(), ""}})
	// expiry while locked: nothing listed while locked, gone after unlock
	run(t, "locked-expiry", GoKeyring, []step{{add, ok, ""},
		{Op{Kind: Lock, Pass: []byte("p"), Now: 6 * sec}, ok, ""},
		{Op{Kind: List, Now: 20 * sec}, keys(), ""},
		{Op{Kind: Unlock, Pass: []byte("p"), Now: 20 * sec}, ok, ""},
		{Op{Kind: List, Now: 20 * sec}, keys(A, "a"), "list-expired-key"}})
}

func TestSignFormats(t *testing.T) {
	R, E := "blob-rsa", "blob-ec"
	pre := []step{{Op{Kind: Add, Blob: R}, ok, ""}, {Op{Kind: Add, Blob: E}, ok, ""}}
	cases := []step{
		{Op{Kind: Sign, Blob: R, KeyAlgo: "ssh-rsa"}, sig("ssh-rsa", true), ""},
		{Op{Kind: Sign, Blob: R, KeyAlgo: "ssh-rsa"}, sig("rsa-sha2-256", true), "signature-wrong-algorithm"},
		{Op{Kind: Sign, Blob: R, KeyAlgo: "ssh-rsa", Flags: FlagRSASHA256}, sig("rsa-sha2-256", true), ""},
		{Op{Kind: Sign, Blob: R, KeyAlgo: "ssh-rsa", Flags: FlagRSASHA256}, sig("ssh-rsa", true), "signature-wrong-algorithm"},
		{Op{Kind: Sign, Blob: R, KeyAlgo: "ssh-rsa", Flags: FlagRSASHA512}, sig("rsa-sha2-512", true), ""},
		{Op{Kind: Sign, Blob: R, KeyAlgo: "ssh-rsa", Flags: FlagRSASHA512}, sig("rsa-sha2-256", true), "signature-wrong-algorithm"},
		{Op{Kind: Sign, Blob: R, KeyAlgo: "ssh-rsa", Flags: FlagRSASHA512}, sig("rsa-sha2-512", false), "signature-does-not-verify"},
		{Op{Kind: Sign, Blob: R, KeyAlgo: "ssh-rsa", Flags: FlagRSASHA512}, fail, "sign-present-key-failed"},
		{Op{Kind: Sign, Blob: R, KeyAlgo: "ssh-rsa", Flags: 6}, fail, ""},
		{Op{Kind: Sign, Blob: R, KeyAlgo: "ssh-rsa", Flags: 6}, sig("rsa-sha2-256", true), ""},
		{Op{Kind: Sign, Blob: R, KeyAlgo: "ssh-rsa", Flags: 1}, sig("ssh-rsa", true), ""},
		{Op{Kind: Sign, Blob: R, KeyAlgo: "ssh-rsa", Flags: 1}, sig("ssh-rsa", false), "signature-does-not-verify"},
		{Op{Kind: Sign, Blob: E, KeyAlgo: "ecdsa-sha2-nistp256", Flags: FlagRSASHA256}, fail, ""},
		{Op{Kind: Sign, Blob: E, KeyAlgo: "ecdsa-sha2-nistp256", Flags: FlagRSASHA256}, sig("ecdsa-sha2-nistp256", true), ""},
		{Op{Kind: Sign, Blob: E, KeyAlgo: "ecdsa-sha2-nistp256", Flags: FlagRSASHA256}, sig("rsa-sha2-256", true), "signature-wrong-algorithm"},
		{Op{Kind: Sign, Blob: E, KeyAlgo: "ecdsa-sha2-nistp256"}, fail, "sign-present-key-failed"},
		{Op{Kind: Sign, Blob: "other", KeyAlgo: "ssh-ed25519"}, sig("ssh-ed25519", true), "sign-absent-key-succeeded"},
		{Op{Kind: Sign, Blob: "other", KeyAlgo: "ssh-ed25519"}, fail, ""},
	}
	for i, c := range cases {
		run(t, "sign"+string(rune('a'+i)), GoKeyring, append(append([]step{}, pre...), c))
	}
}

func TestConstraintsAndExtension(t *testing.T) {
	A := "blob-A"
	run(t, "go confirm", GoKeyring, []step{
		{Op{Kind: Add, Blob: A, Confirm: true}, fail, ""},
		{Op{Kind: List}, keys(), ""},
		{Op{Kind: Add, Blob: A, Confirm: true}, ok, "add-unsupported-confirm-accepted"}})
	run(t, "openssh confirm", OpenSSH, []step{
		{Op{Kind: Add, Blob: A, Confirm: true, Comment: "c"}, ok, ""},
		{Op{Kind: List}, keys(A, "c"), ""},
		{Op{Kind: Sign, Blob: A, KeyAlgo: "ssh-ed25519"}, fail, ""},
		{Op{Kind: Sign, Blob: A, KeyAlgo: "ssh-ed25519"}, sig("ssh-ed25519", true), "sign-unconfirmed-succeeded"},
		{Op{Kind: Add, Blob: A, Comment: "c2"}, ok, ""}, // re-add without the constraint lifts it
		{Op{Kind: Sign, Blob: A, KeyAlgo: "ssh-ed25519"}, sig("ssh-ed25519", true), ""}})
	run(t, "unknown constraint", GoKeyring, []step{
		{Op{Kind: Add, Blob: A, UnknownConstraint: true}, fail, ""},
		{Op{Kind: Add, Blob: A, UnknownConstraint: true}, ok, "add-unknown-constraint-accepted"}})
	run(t, "ext", GoKeyring, []step{
		{Op{Kind: Extension}, Obs{Err: true, ErrUnsupported: true}, ""},
		{Op{Kind: Extension}, Obs{Err: true}, "extension-unsupported-wrong-error"},
		{Op{Kind: Extension}, ok, "extension-unsupported-succeeded"}})
}

func TestCloneEqual(t *testing.T) {
	m := New(GoKeyring)
	m.Step(Op{Kind: Add, Blob: "a", Comment: "x", Lifetime: 3}, ok)
	c := m.Clone()
	if !m.Equal(c) || m.Canon() != c.Canon() {
		t.Fatal("clone differs")
	}
	c.Step(Op{Kind: Lock, Pass: []byte("p")}, ok)
	if m.Equal(c) || m.Locked {
		t.Fatal("clone shares state")
	}
}

package poly1305big

import (
	"bytes"
	"encoding/hex"
	"math/big"
	"math/rand/v2"
	"strings"
	"testing"
)

func unhex(s string) []byte {
	s = strings.NewReplacer(" ", "", "\n", "", "\t", "", ":", "", "|", "").Replace(s)
	b, err := hex.DecodeString(s)
	if err != nil {
		panic(err)
	}
	return b
}

func rep(b byte, n int) string { return strings.Repeat(hex.EncodeToString([]byte{b}), n) }

func mkKey(r, s string) *[32]byte {
	var k [32]byte
	copy(k[:16], unhex(r))
	copy(k[16:], unhex(s))
	return &k
}

func TestRFC8439Vectors(t *testing.T) {
	type vec struct {
		name      string
		r, s, msg string
		msgRaw    []byte
		tag       string
	}
	r1 := "01" + rep(0, 15)
	r2 := "02" + rep(0, 15)
	z := rep(0, 16)
	vecs := []vec{
		{name: "2.5.2", r: "85d6be7857556d337f4452fe42d506a8", s: "0103808afb0db2fd4abff6af4149f51b",
			msgRaw: []byte("Cryptographic Forum Research Group"), tag: "a8061dc1305136c6c22b8baf0c0127a9"},
		{name: "A.3#1", r: z, s: z, msg: rep(0, 64), tag: z},
		{name: "A.3#5", r: r2, s: z, msg: rep(0xff, 16), tag: "03" + rep(0, 15)},
		{name: "A.3#6", r: r2, s: rep(0xff, 16), msg: "02" + rep(0, 15), tag: "03" + rep(0, 15)},
		{name: "A.3#7", r: r1, s: z, msg: rep(0xff, 16) + "f0" + rep(0xff, 15) + "11" + rep(0, 15), tag: "05" + rep(0, 15)},
		{name: "A.3#8", r: r1, s: z, msg: rep(0xff, 16) + "fb" + rep(0xfe, 15) + rep(0x01, 16), tag: z},
		{name: "A.3#9", r: r2, s: z, msg: "fd" + rep(0xff, 15), tag: "fa" + rep(0xff, 15)},
		{name: "A.3#10", r: "01000000000000000400000000000000", s: z,
			msg: "e33594d7505e43b90000000000000000" + "3394d7505e4379cd0100000000000000" + z + "01" + rep(0, 15),
			tag: "14000000000000005500000000000000"},
		{name: "A.3#11", r: "01000000000000000400000000000000", s: z,
			msg: "e33594d7505e43b90000000000000000" + "3394d7505e4379cd0100000000000000" + z,
			tag: "13" + rep(0, 15)},
	}
	for _, v := range vecs {
		msg := v.msgRaw
		if msg == nil {
			msg = unhex(v.msg)
		}
		got, info := TagInfo(mkKey(v.r, v.s), msg)
		if !bytes.Equal(got[:], unhex(v.tag)) {
			t.Errorf("%s: got %x want %s", v.name, got, v.tag)
		}
		checkInfo(t, v.name, info)
	}
}

// RFC 8439 A.3 #2/#3 shape: r = 0 → tag = s; s = 0, single-term sanity.
func TestDegenerate(t *testing.T) {
	k := mkKey(rep(0, 16), "36e5f6b5c5e06070f0efca96227a863e")
	got := Tag(k, []byte("Any submission to the IETF intended by the Contributor for publication"))
	if !bytes.Equal(got[:], k[16:]) {
		t.Fatalf("r=0: got %x", got)
	}
	var zero [32]byte
	if Tag(&zero, nil) != [16]byte{} {
		t.Fatal("empty message, zero key")
	}
}

func checkInfo(t *testing.T, name string, info Info) {
	t.Helper()
	if new(big.Int).Mod(info.LazyH, P).Cmp(info.Canon) != 0 {
		t.Errorf("%s: lazy accumulator not congruent", name)
	}
	if info.LazyH.Cmp(new(big.Int).Lsh(P, 1)) >= 0 {
		t.Errorf("%s: lazy accumulator ≥ 2p", name)
	}
	if info.GeP != (info.Band || info.Wide) || (info.Band && info.Wide) {
		t.Errorf("%s: inconsistent flags", name)
	}
}

func TestLazyModelAndSolve(t *testing.T) {
	rnd := rand.New(rand.NewPCG(1, 2))
	solved, band, wide, below := 0, 0, 0, 0
	for it := 0; it < 3000; it++ {
		var key [32]byte
		for i := range key {
			key[i] = byte(rnd.Uint32())
		}
		pre := make([]byte, 16*rnd.IntN(4))
		suf := make([]byte, rnd.IntN(40))
		for i := range pre {
			pre[i] = byte(rnd.Uint32())
		}
		for i := range suf {
			suf[i] = byte(rnd.Uint32())
		}
		var target *big.Int
		switch it % 3 {
		case 0:
			target = big.NewInt(int64(rnd.IntN(5))) // lazy = p+v: band
		case 1:
			target = big.NewInt(int64(5 + rnd.IntN(8))) // lazy = 2^130 + (v−5)
		case 2:
			target = new(big.Int).Sub(P, big.NewInt(int64(1+rnd.IntN(8)))) // just below p
		}
		x, ok := SolveBlock(&key, pre, suf, target)
		if !ok {
			continue
		}
		solved++
		msg := append(append(append([]byte{}, pre...), x[:]...), suf...)
		_, info := TagInfo(&key, msg)
		checkInfo(t, "solve", info)
		if info.Canon.Cmp(target) != 0 {
			t.Fatalf("solve: canonical accumulator %v, target %v", info.Canon, target)
		}
		switch {
		case info.Band:
			band++
		case info.Wide:
			wide++
		case info.JustBelow:
			below++
		}
	}
	if solved < 500 || band < 150 || wide < 150 || below < 150 {
		t.Fatalf("solved=%d band=%d wide=%d below=%d", solved, band, wide, below)
	}
	t.Logf("solved=%d band=%d wide=%d below=%d", solved, band, wide, below)
}

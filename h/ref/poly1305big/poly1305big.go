// Package poly1305big is an executable specification of Poly1305 (RFC 8439
// §2.5) in math/big:
//
//	tag = ((Σ_i (le(block_i) + 2^(8·len(block_i))) · r^(q-i+1)) mod 2^130−5) + s) mod 2^128
//
// evaluated by Horner's rule with a full reduction after every block. Beside
// the tag it reports where a *lazily* reduced accumulator (one fold
// h ← (t mod 2^130) + 5·(t >> 130) per block, the textbook partial reduction
// every limb implementation uses) stands relative to p before the final
// reduction; that report only steers and counts workloads (it tells whether a
// case exercised the final conditional subtraction), the tag never depends on
// it. The package also solves for a message block that drives the accumulator
// to a chosen residue. No code shared with x/crypto.
package poly1305big

import "math/big"

var (
	one  = big.NewInt(1)
	five = big.NewInt(5)
	// P is 2^130 − 5.
	P = new(big.Int).Sub(new(big.Int).Lsh(one, 130), five)
	// Two130 is 2^130.
	Two130   = new(big.Int).Lsh(one, 130)
	two128   = new(big.Int).Lsh(one, 128)
	mask130  = new(big.Int).Sub(Two130, one)
	clamp, _ = new(big.Int).SetString("0ffffffc0ffffffc0ffffffc0fffffff", 16)
)

func le(b []byte) *big.Int {
	rev := make([]byte, len(b))
	for i := range b {
		rev[len(b)-1-i] = b[i]
	}
	return new(big.Int).SetBytes(rev)
}

// R is the clamped multiplier of the one-time key (RFC 8439 §2.5: key[0:16]
// little-endian, AND 0x0ffffffc0ffffffc0ffffffc0fffffff).
func R(key *[32]byte) *big.Int { return new(big.Int).And(le(key[:16]), clamp) }

// S is key[16:32] little-endian.
func S(key *[32]byte) *big.Int { return le(key[16:]) }

// BlockValue is le(chunk) + 2^(8·len(chunk)) for a chunk of 1..16 bytes.
func BlockValue(chunk []byte) *big.Int {
	if len(chunk) == 0 || len(chunk) > 16 {
		panic("poly1305big: chunk length")
	}
	return new(big.Int).Add(le(chunk), new(big.Int).Lsh(one, uint(8*len(chunk))))
}

// Info describes the accumulator at finalisation.
type Info struct {
	Blocks    int
	Canon     *big.Int // fully reduced accumulator, in [0, p)
	LazyH     *big.Int // lazily (one fold per block) reduced accumulator; ≡ Canon mod p, < 2p
	GeP       bool     // LazyH ≥ p: the final conditional subtraction must fire
	Band      bool     // p ≤ LazyH < 2^130: the 5 values only a full-width compare sees
	Wide      bool     // LazyH ≥ 2^130
	JustBelow bool     // p−16 ≤ LazyH < p: the subtraction must NOT fire, by a hair
	MaxLazy   *big.Int // largest lazy accumulator seen after any block
}

// TagInfo computes the tag and the accumulator report.
func TagInfo(key *[32]byte, msg []byte) (tag [16]byte, info Info) {
	r, s := R(key), S(key)
	canon, lazy, maxLazy := new(big.Int), new(big.Int), new(big.Int)
	for off := 0; off < len(msg); off += 16 {
		end := off + 16
		if end > len(msg) {
			end = len(msg)
		}
		m := BlockValue(msg[off:end])
		// specification: a = ((a + m) · r) mod p
		canon.Add(canon, m).Mul(canon, r).Mod(canon, P)
		// lazy model: t = (h + m)·r ; h = (t mod 2^130) + 5·(t >> 130)
		t := new(big.Int).Add(lazy, m)
		t.Mul(t, r)
		hi := new(big.Int).Rsh(t, 130)
		lazy = new(big.Int).And(t, mask130)
		lazy.Add(lazy, hi.Mul(hi, five))
		if lazy.Cmp(maxLazy) > 0 {
			maxLazy.Set(lazy)
		}
		info.Blocks++
	}
	out := new(big.Int).Add(canon, s)
	out.Mod(out, two128)
	b := out.Bytes() // big-endian, ≤ 16 bytes
	for i := range b {
		tag[i] = b[len(b)-1-i]
	}
	info.Canon, info.LazyH, info.MaxLazy = canon, lazy, maxLazy
	info.GeP = lazy.Cmp(P) >= 0
	info.Wide = lazy.Cmp(Two130) >= 0
	info.Band = info.GeP && !info.Wide
	info.JustBelow = !info.GeP && new(big.Int).Sub(P, lazy).Cmp(big.NewInt(16)) <= 0
	return
}

// Tag computes the Poly1305 tag of msg under key.
func Tag(key *[32]byte, msg []byte) [16]byte {
	t, _ := TagInfo(key, msg)
	return t
}

// SolveBlock returns the 16-byte block X for which the fully reduced
// accumulator after prefix‖X‖suffix equals target (mod p). len(prefix) must be
// a multiple of 16 (suffix may end in a partial block). ok is false when r = 0
// or when the required block value is not of the form 2^128 + x, x < 2^128
// (about three times out of four: re-randomise something and retry).
func SolveBlock(key *[32]byte, prefix, suffix []byte, target *big.Int) (x [16]byte, ok bool) {
	if len(prefix)%16 != 0 {
		panic("poly1305big: prefix must be whole blocks")
	}
	r := R(key)
	if r.Sign() == 0 {
		return x, false
	}
	rinv := new(big.Int).ModInverse(r, P)
	// accumulator after the prefix
	hp := new(big.Int)
	for off := 0; off < len(prefix); off += 16 {
		hp.Add(hp, BlockValue(prefix[off:off+16])).Mul(hp, r).Mod(hp, P)
	}
	// walk the suffix backwards: h_before = h_after·r⁻¹ − m
	var chunks [][]byte
	for off := 0; off < len(suffix); off += 16 {
		end := off + 16
		if end > len(suffix) {
			end = len(suffix)
		}
		chunks = append(chunks, suffix[off:end])
	}
	need := new(big.Int).Mod(target, P)
	for i := len(chunks) - 1; i >= 0; i-- {
		need.Mul(need, rinv).Sub(need, BlockValue(chunks[i])).Mod(need, P)
	}
	// need = (hp + mX)·r  →  mX = need·r⁻¹ − hp
	mx := new(big.Int).Mul(need, rinv)
	mx.Sub(mx, hp).Mod(mx, P)
	mx.Sub(mx, two128)
	if mx.Sign() < 0 || mx.Cmp(two128) >= 0 {
		return x, false
	}
	b := mx.Bytes()
	for i := range b {
		x[i] = b[len(b)-1-i]
	}
	return x, true
}

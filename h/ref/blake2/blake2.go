// Package blake2 is an executable specification of BLAKE2b / BLAKE2s
// (RFC 7693 pseudocode, section 3) and of the BLAKE2X extendable-output
// construction (blake2x.pdf, section 2), written for obviousness, not speed.
//
// It shares no code with golang.org/x/crypto or the standard library: words
// are held in uint64 and reduced mod 2^w by hand, the IV is derived from the
// square roots of the first eight primes with math/big, the message schedule
// SIGMA is typed from RFC 7693 section 2.7. Every hash takes a RAW parameter
// block (RFC 7693 section 2.5 / blake2.pdf section 2.8) so that the same
// compression code serves sequential hashing and the BLAKE2X root/node
// hashes.
package blake2

import (
	"fmt"
	"math/big"
)

// Alg describes one member of the family (RFC 7693 section 2.1).
type Alg struct {
	Name   string
	W      uint      // bits in word
	Rounds int       // rounds in F
	BB     int       // block bytes
	Out    int       // maximum hash bytes
	R      [4]uint   // G rotation constants
	IV     [8]uint64 // initialisation vector
	mask   uint64
}

// B is BLAKE2b, S is BLAKE2s.
var (
	B = newAlg("BLAKE2b", 64, 12, [4]uint{32, 24, 16, 63})
	S = newAlg("BLAKE2s", 32, 10, [4]uint{16, 12, 8, 7})
)

// sigma: RFC 7693 section 2.7, message word schedule permutations.
var sigma = [10][16]int{
	{0, 1, 2, 3, 4, 5, 6, 7, 8, 9, 10, 11, 12, 13, 14, 15},
	{14, 10, 4, 8, 9, 15, 13, 6, 1, 12, 0, 2, 11, 7, 5, 3},
	{11, 8, 12, 0, 5, 2, 15, 13, 10, 14, 3, 6, 7, 1, 9, 4},
	{7, 9, 3, 1, 13, 12, 11, 14, 2, 6, 5, 10, 4, 0, 15, 8},
	{9, 0, 5, 7, 2, 4, 10, 15, 14, 1, 11, 12, 6, 8, 3, 13},
	{2, 12, 6, 10, 0, 11, 8, 3, 4, 13, 7, 5, 15, 14, 1, 9},
	{12, 5, 1, 15, 14, 13, 4, 10, 0, 7, 6, 3, 9, 2, 8, 11},
	{13, 11, 7, 14, 12, 1, 3, 9, 5, 0, 15, 4, 8, 6, 2, 10},
	{6, 15, 14, 9, 11, 3, 0, 8, 12, 2, 13, 7, 1, 4, 10, 5},
	{10, 2, 8, 4, 7, 6, 1, 5, 15, 11, 9, 14, 3, 12, 13, 0},
}

func newAlg(name string, w uint, rounds int, rot [4]uint) *Alg {
	// block = 16 words, hash = 8 words of w/8 bytes each
	a := &Alg{Name: name, W: w, Rounds: rounds, BB: 16 * int(w) / 8, Out: 8 * int(w) / 8, R: rot}
	if w == 64 {
		a.mask = ^uint64(0)
	} else {
		a.mask = (uint64(1) << w) - 1
	}
	// IV[i] = floor(2^w * frac(sqrt(prime(i+1)))) (RFC 7693 section 2.6)
	primes := []int64{2, 3, 5, 7, 11, 13, 17, 19}
	for i, p := range primes {
		x := new(big.Int).Lsh(big.NewInt(p), 2*w) // p * 2^(2w)
		x.Sqrt(x)                                 // floor(sqrt(p) * 2^w)
		x.And(x, new(big.Int).SetUint64(a.mask))  // fractional part, w bits
		a.IV[i] = x.Uint64()
	}
	return a
}

func (a *Alg) rotr(x uint64, n uint) uint64 {
	x &= a.mask
	return ((x >> n) | (x << (a.W - n))) & a.mask
}

// g is the mixing function G (RFC 7693 section 3.1).
func (a *Alg) g(v *[16]uint64, ia, ib, ic, id int, x, y uint64) {
	v[ia] = (v[ia] + v[ib] + x) & a.mask
	v[id] = a.rotr(v[id]^v[ia], a.R[0])
	v[ic] = (v[ic] + v[id]) & a.mask
	v[ib] = a.rotr(v[ib]^v[ic], a.R[1])
	v[ia] = (v[ia] + v[ib] + y) & a.mask
	v[id] = a.rotr(v[id]^v[ia], a.R[2])
	v[ic] = (v[ic] + v[id]) & a.mask
	v[ib] = a.rotr(v[ib]^v[ic], a.R[3])
}

// f is the compression function F (RFC 7693 section 3.2). t is the 2w-bit
// offset counter given as a big.Int-free pair (low word, high word).
func (a *Alg) f(h *[8]uint64, block []byte, tlo, thi uint64, final bool) {
	if len(block) != a.BB {
		panic("ref/blake2: bad block length")
	}
	var m [16]uint64
	wb := int(a.W / 8)
	for i := 0; i < 16; i++ {
		var x uint64
		for j := wb - 1; j >= 0; j-- { // little-endian word
			x = x<<8 | uint64(block[i*wb+j])
		}
		m[i] = x
	}
	var v [16]uint64
	for i := 0; i < 8; i++ {
		v[i] = h[i]
		v[i+8] = a.IV[i]
	}
	v[12] ^= tlo & a.mask
	v[13] ^= thi & a.mask
	if final {
		v[14] ^= a.mask
	}
	for i := 0; i < a.Rounds; i++ {
		s := sigma[i%10]
		a.g(&v, 0, 4, 8, 12, m[s[0]], m[s[1]])
		a.g(&v, 1, 5, 9, 13, m[s[2]], m[s[3]])
		a.g(&v, 2, 6, 10, 14, m[s[4]], m[s[5]])
		a.g(&v, 3, 7, 11, 15, m[s[6]], m[s[7]])
		a.g(&v, 0, 5, 10, 15, m[s[8]], m[s[9]])
		a.g(&v, 1, 6, 11, 12, m[s[10]], m[s[11]])
		a.g(&v, 2, 7, 8, 13, m[s[12]], m[s[13]])
		a.g(&v, 3, 4, 9, 14, m[s[14]], m[s[15]])
	}
	for i := 0; i < 8; i++ {
		h[i] ^= v[i] ^ v[i+8]
	}
}

// ParamLen is the length of the parameter block (8 words).
func (a *Alg) ParamLen() int { return int(a.W) }

// HashParam is RFC 7693 section 3.3 with h := IV xor P for a caller-supplied
// raw parameter block P (the RFC's h[0] ^= 0x0101kknn is the sequential-mode
// P). key (0..Out bytes) is prepended as a zero-padded block when non-empty.
// All Out bytes of the final chaining value are returned; the caller
// truncates to the digest length.
func (a *Alg) HashParam(param, key, msg []byte) []byte {
	if len(param) != a.ParamLen() {
		panic("ref/blake2: parameter block length")
	}
	if len(key) > a.Out {
		panic("ref/blake2: key too long")
	}
	wb := int(a.W / 8)
	var h [8]uint64
	for i := 0; i < 8; i++ {
		var x uint64
		for j := wb - 1; j >= 0; j-- {
			x = x<<8 | uint64(param[i*wb+j])
		}
		h[i] = a.IV[i] ^ x
	}
	// d = padded key block (if any) followed by the message, split in bb-byte
	// blocks, the last one zero padded; at least one block.
	var data []byte
	if len(key) > 0 {
		kb := make([]byte, a.BB)
		copy(kb, key)
		data = append(data, kb...)
	}
	data = append(data, msg...)
	total := uint64(len(data)) // = ll (+ bb when keyed)
	dd := (len(data) + a.BB - 1) / a.BB
	if dd == 0 {
		dd = 1
	}
	padded := make([]byte, dd*a.BB)
	copy(padded, data)
	for i := 0; i < dd-1; i++ {
		t := uint64(i+1) * uint64(a.BB)
		a.f(&h, padded[i*a.BB:(i+1)*a.BB], t&a.mask, a.hi(t), false)
	}
	a.f(&h, padded[(dd-1)*a.BB:], total&a.mask, a.hi(total), true)
	out := make([]byte, 0, a.Out)
	for i := 0; i < 8; i++ {
		for j := 0; j < wb; j++ {
			out = append(out, byte(h[i]>>(8*uint(j))))
		}
	}
	return out
}

// hi returns the high word of a byte counter that fits in 64 bits.
func (a *Alg) hi(t uint64) uint64 {
	if a.W == 64 {
		return 0
	}
	return t >> a.W
}

// SeqParam is the sequential-mode parameter block: digest length nn, key
// length kk, fanout 1, depth 1, everything else zero.
func (a *Alg) SeqParam(nn, kk int) []byte {
	if nn < 1 || nn > a.Out || kk < 0 || kk > a.Out {
		panic(fmt.Sprintf("ref/blake2: bad nn=%d kk=%d", nn, kk))
	}
	p := make([]byte, a.ParamLen())
	p[0], p[1], p[2], p[3] = byte(nn), byte(kk), 1, 1
	return p
}

// Sum is BLAKE2(d, ll, kk, nn) of RFC 7693: the nn-byte (keyed) digest.
func (a *Alg) Sum(nn int, key, msg []byte) []byte {
	return a.HashParam(a.SeqParam(nn, len(key)), key, msg)[:nn]
}

// X is a BLAKE2X output stream (blake2x.pdf section 2): H0 = BLAKE2(M) with
// the XOF length in the parameter block, output = B2(0,64,H0) || B2(1,64,H0)
// || ... || B2(last, L mod 64 or 64, H0).
type X struct {
	a       *Alg
	unknown bool
	l       uint64 // declared length (ignored when unknown)
	enc     uint64 // value of the xof_length parameter field
	h0      []byte
}

// MaxKnown is the largest declarable output length (field all-ones is
// reserved for "unknown").
func (a *Alg) MaxKnown() uint64 {
	if a.W == 64 {
		return 1<<32 - 2
	}
	return 1<<16 - 2
}

// xofFieldBytes: width of the xof_length parameter (4 bytes for BLAKE2b at
// offset 12; 2 bytes for BLAKE2s at offset 12).
func (a *Alg) xofFieldBytes() int {
	if a.W == 64 {
		return 4
	}
	return 2
}

// NewX computes the root hash. unknown selects the all-ones length field.
func (a *Alg) NewX(l uint64, unknown bool, key, msg []byte) *X {
	x := &X{a: a, unknown: unknown, l: l}
	if unknown {
		x.enc = a.MaxKnown() + 1
	} else {
		if l < 1 || l > a.MaxKnown() {
			panic("ref/blake2: bad XOF length")
		}
		x.enc = l
	}
	p := a.SeqParam(a.Out, len(key)) // digest length Out, key length kk, fanout 1, depth 1
	for i := 0; i < a.xofFieldBytes(); i++ {
		p[12+i] = byte(x.enc >> (8 * uint(i)))
	}
	x.h0 = a.HashParam(p, key, msg)
	return x
}

// Node returns B2(i, digest length, H0): the i-th output block.
func (x *X) Node(i uint64) []byte {
	a := x.a
	out := uint64(a.Out)
	dl := out
	if !x.unknown {
		if i*out >= x.l {
			panic("ref/blake2: node beyond output")
		}
		if rem := x.l - i*out; rem < out {
			dl = rem
		}
	}
	if i >= 1<<32 {
		panic("ref/blake2: node offset overflow")
	}
	p := make([]byte, a.ParamLen())
	p[0] = byte(dl)    // digest length
	p[1] = 0           // key length 0 (even when the root was keyed)
	p[2] = 0           // fanout 0
	p[3] = 0           // depth 0
	p[4] = byte(a.Out) // leaf length = Out (32-bit LE)
	for k := 0; k < 4; k++ {
		p[8+k] = byte(i >> (8 * uint(k))) // node offset (32 bit)
	}
	for k := 0; k < a.xofFieldBytes(); k++ {
		p[12+k] = byte(x.enc >> (8 * uint(k))) // xof length
	}
	if a.W == 64 {
		p[16] = 0           // node depth
		p[17] = byte(a.Out) // inner length
	} else {
		p[14] = 0
		p[15] = byte(a.Out)
	}
	return a.HashParam(p, nil, x.h0)[:dl]
}

// Len returns the declared length, or ok=false when unknown.
func (x *X) Len() (uint64, bool) { return x.l, !x.unknown }

// Range returns output bytes [from, from+n), clipped to the declared length.
func (x *X) Range(from uint64, n int) []byte {
	end := from + uint64(n)
	if !x.unknown && end > x.l {
		end = x.l
	}
	if end <= from {
		return nil
	}
	out := uint64(x.a.Out)
	res := make([]byte, 0, end-from)
	for i := from / out; i*out < end; i++ {
		nb := x.Node(i)
		lo, hi := uint64(0), uint64(len(nb))
		if from > i*out {
			lo = from - i*out
		}
		if end < i*out+hi {
			hi = end - i*out
		}
		res = append(res, nb[lo:hi]...)
	}
	return res
}

// SelfTest runs the RFC 7693 appendix A/B "abc" vectors and one BLAKE2X
// known answer through the spec; harnesses call it before trusting it.
func SelfTest() error {
	hx := func(b []byte) string { return fmt.Sprintf("%x", b) }
	if got := hx(B.Sum(64, nil, []byte("abc"))); got != "ba80a53f981c4d0d6a2797b69f12f6e94c212f14685ac4b74b12bb6fdbffa2d17d87c5392aab792dc252d5de4533cc9518d38aa8dbf1925ab92386edd4009923" {
		return fmt.Errorf("BLAKE2b-512(abc) = %s", got)
	}
	if got := hx(S.Sum(32, nil, []byte("abc"))); got != "508c5e8c327c14e2e1a72ba34eeb452f37458b209ed63a294d999b4c86675982" {
		return fmt.Errorf("BLAKE2s-256(abc) = %s", got)
	}
	if B.IV[0] != 0x6a09e667f3bcc908 || B.IV[7] != 0x5be0cd19137e2179 || S.IV[0] != 0x6a09e667 || S.IV[7] != 0x5be0cd19 {
		return fmt.Errorf("IV derivation")
	}
	// BLAKE2Xb, key 00..3f, input 00..ff, unknown length: first 64 bytes
	// (golang/crypto blake2b_test.go; cross-checked by the full KAT set in
	// this package's unit test).
	key := make([]byte, 64)
	in := make([]byte, 256)
	for i := range key {
		key[i] = byte(i)
	}
	for i := range in {
		in[i] = byte(i)
	}
	if got := hx(B.NewX(0, true, key, in).Range(0, 64)); got != "3dbba8516da76bf7330055c66ea36cf1005e92714262b24d9710f51d9e126406e1bcd6497059f9331f1091c3634b695428d475ed432f987040575520a1c29f5e" {
		return fmt.Errorf("BLAKE2Xb unknown-length = %s", got)
	}
	if got := hx(S.NewX(0, true, key[:32], in).Range(0, 64)); got != "2a9a6977d915a2c4dd07dbcafe1918bf1682e56d9c8e567ecd19bfd7cd93528833c764d12b34a5e2a219c9fd463dab45e972c5574d73f45de5b2e23af72530d8" {
		return fmt.Errorf("BLAKE2Xs unknown-length = %s", got)
	}
	return nil
}

// Resume continues RFC 7693 hashing from an intermediate state and returns the
// nn-byte digest: h is the chaining value after the blocks compressed so far,
// (tlo, thi) the 2w-bit offset counter t = number of bytes compressed so far,
// buf the bytes received but not yet compressed (0..bb bytes; a full block may
// be pending because the last block is only compressed with the final flag),
// more the bytes still to be absorbed. Exactly the loop of section 3.3:
// every block except the last advances t by bb and is compressed without the
// final flag; the last (zero padded, possibly empty) block advances t by its
// byte count and is compressed with it. The counter arithmetic is done mod
// 2^(2w) with an explicit carry from the low into the high word.
func (a *Alg) Resume(h [8]uint64, tlo, thi uint64, buf, more []byte, nn int) []byte {
	if len(buf) > a.BB || nn < 1 || nn > a.Out {
		panic("ref/blake2: bad resume state")
	}
	add := func(n uint64) {
		lo := (tlo + n) & a.mask
		if lo < tlo&a.mask { // wrapped
			thi = (thi + 1) & a.mask
		}
		tlo = lo
	}
	tlo &= a.mask
	thi &= a.mask
	data := append(append([]byte{}, buf...), more...)
	for len(data) > a.BB {
		add(uint64(a.BB))
		a.f(&h, data[:a.BB], tlo, thi, false)
		data = data[a.BB:]
	}
	last := make([]byte, a.BB)
	copy(last, data)
	add(uint64(len(data)))
	a.f(&h, last, tlo, thi, true)
	wb := int(a.W / 8)
	out := make([]byte, 0, a.Out)
	for i := 0; i < 8; i++ {
		for j := 0; j < wb; j++ {
			out = append(out, byte(h[i]>>(8*uint(j))))
		}
	}
	return out[:nn]
}

// InitialH is the chaining value before any block: IV xor parameter block.
func (a *Alg) InitialH(param []byte) (h [8]uint64) {
	wb := int(a.W / 8)
	for i := 0; i < 8; i++ {
		var x uint64
		for j := wb - 1; j >= 0; j-- {
			x = x<<8 | uint64(param[i*wb+j])
		}
		h[i] = a.IV[i] ^ x
	}
	return h
}

package blake2

import (
	"bytes"
	"encoding/hex"
	"fmt"
	"math/rand/v2"
	"os"
	"regexp"
	"strings"
	"testing"

	"verif/ext"
)

func TestSelf(t *testing.T) {
	if err := SelfTest(); err != nil {
		t.Fatal(err)
	}
}

// RFC 7693 section 2.6: the IV listing.
func TestIV(t *testing.T) {
	wantB := [8]uint64{0x6a09e667f3bcc908, 0xbb67ae8584caa73b, 0x3c6ef372fe94f82b, 0xa54ff53a5f1d36f1,
		0x510e527fade682d1, 0x9b05688c2b3e6c1f, 0x1f83d9abfb41bd6b, 0x5be0cd19137e2179}
	wantS := [8]uint64{0x6a09e667, 0xbb67ae85, 0x3c6ef372, 0xa54ff53a, 0x510e527f, 0x9b05688c, 0x1f83d9ab, 0x5be0cd19}
	if B.IV != wantB || S.IV != wantS {
		t.Fatalf("IV: %x %x", B.IV, S.IV)
	}
	if B.BB != 128 || B.Out != 64 || S.BB != 64 || S.Out != 32 {
		t.Fatal("sizes")
	}
}

func seq(n int, seed uint32) []byte {
	out := make([]byte, n)
	a := 0xDEAD4BAD * seed
	b := uint32(1)
	for i := range out {
		t := a + b
		a = b
		b = t
		out[i] = byte(t >> 24)
	}
	return out
}

// RFC 7693 appendix E: the self-test "hash of hashes".
func TestRFCAppendixE(t *testing.T) {
	run := func(a *Alg, mdLens, inLens []int, want string) {
		var all []byte
		for _, outlen := range mdLens {
			for _, inlen := range inLens {
				in := seq(inlen, uint32(inlen))
				all = append(all, a.Sum(outlen, nil, in)...)
				key := seq(outlen, uint32(outlen))
				all = append(all, a.Sum(outlen, key, in)...)
			}
		}
		if got := hex.EncodeToString(a.Sum(32, nil, all)); got != want {
			t.Errorf("%s selftest: got %s want %s", a.Name, got, want)
		}
	}
	run(B, []int{20, 32, 48, 64}, []int{0, 3, 128, 129, 255, 1024}, "c23a7800d98123bd10f506c61e29da5603d763b8bbad2e737f5e765a7bccd475")
	run(S, []int{16, 20, 28, 32}, []int{0, 3, 64, 65, 255, 1024}, "6a411f08ce25adcdfb02aba641451cec53c598b24f4fc787fbdc88797f4c1dfe")
}

// vectors pulls a `var name = []string{ "hex", ... }` table out of a /repo
// test file (official blake2-kat vectors; data only, no code shared).
func vectors(t *testing.T, file, name string) []string {
	repo := os.Getenv("VERIF_REPO")
	if repo == "" {
		repo = "/repo"
	}
	src, err := os.ReadFile(repo + "/" + file)
	if err != nil {
		t.Skipf("no vectors: %v", err)
	}
	s := string(src)
	i := strings.Index(s, "var "+name+" = []string{")
	if i < 0 {
		t.Fatalf("table %s not found in %s", name, file)
	}
	s = s[i:]
	s = s[:strings.Index(s, "\n}")]
	return regexp.MustCompile(`"([0-9a-f]*)"`).FindAllString(s, -1)
}

func iota8(n int) []byte {
	b := make([]byte, n)
	for i := range b {
		b[i] = byte(i)
	}
	return b
}

func TestKATKeyed(t *testing.T) {
	for _, c := range []struct {
		a          *Alg
		file, name string
		nn         int
	}{
		{B, "blake2b/blake2b_test.go", "hashes", 64},
		{S, "blake2s/blake2s_test.go", "hashes", 32},
		{S, "blake2s/blake2s_test.go", "hashes128", 16},
	} {
		vs := vectors(t, c.file, c.name)
		if len(vs) < 255 {
			t.Fatalf("%s: only %d vectors", c.name, len(vs))
		}
		key := iota8(c.a.Out)
		in := iota8(255)
		for i, v := range vs {
			want := strings.Trim(v, `"`)
			if got := hex.EncodeToString(c.a.Sum(c.nn, key, in[:i])); got != want {
				t.Fatalf("%s %s #%d: got %s want %s", c.a.Name, c.name, i, got, want)
			}
		}
		t.Logf("%s/%s: %d keyed KATs reproduced", c.a.Name, c.name, len(vs))
	}
}

func TestKAT2X(t *testing.T) {
	for _, c := range []struct {
		a    *Alg
		file string
	}{{B, "blake2b/blake2b_test.go"}, {S, "blake2s/blake2s_test.go"}} {
		vs := vectors(t, c.file, "hashes2X")
		if len(vs) < 200 {
			t.Fatalf("only %d 2X vectors", len(vs))
		}
		key := iota8(c.a.Out)
		in := iota8(256)
		for i, v := range vs {
			want := strings.Trim(v, `"`)
			l := uint64(len(want) / 2)
			x := c.a.NewX(l, false, key, in)
			if got := hex.EncodeToString(x.Range(0, int(l)+10)); got != want {
				t.Fatalf("%sX #%d (L=%d): got %s want %s", c.a.Name, i, l, got, want)
			}
			// piecewise ranges must agree with the whole
			whole, _ := hex.DecodeString(want)
			for from := uint64(0); from < l; from += 37 {
				if got := x.Range(from, 50); !bytes.Equal(got, whole[from:min(l, from+50)]) {
					t.Fatalf("%sX #%d Range(%d,50) mismatch", c.a.Name, i, from)
				}
			}
		}
		t.Logf("%sX: %d KATs reproduced (lengths 1..%d)", c.a.Name, len(vs), len(vs))
	}
}

// Cross-check of the sequential hash against python hashlib (the reference C
// implementation) over all digest sizes / key lengths and boundary lengths.
func TestAgainstHashlib(t *testing.T) {
	py, err := ext.StartPy()
	if err != nil {
		t.Skip(err)
	}
	defer py.Close()
	r := rand.New(rand.NewPCG(1, 2))
	n := 0
	for _, a := range []*Alg{B, S} {
		op := "blake2b"
		if a == S {
			op = "blake2s"
		}
		for nn := 1; nn <= a.Out; nn++ {
			for _, kk := range []int{0, 1, a.Out / 2, a.Out - 1, a.Out, r.IntN(a.Out + 1)} {
				for _, ll := range []int{0, 1, a.BB - 1, a.BB, a.BB + 1, 2 * a.BB, 2*a.BB + 1, r.IntN(700)} {
					key := make([]byte, kk)
					msg := make([]byte, ll)
					for i := range key {
						key[i] = byte(r.Uint32())
					}
					for i := range msg {
						msg[i] = byte(r.Uint32())
					}
					want, err := py.Bytes(map[string]any{"op": op, "msg": ext.Hx(msg), "size": nn, "key": ext.Hx(key)})
					if err != nil {
						t.Fatal(err)
					}
					if got := a.Sum(nn, key, msg); !bytes.Equal(got, want) {
						t.Fatalf("%s nn=%d kk=%d ll=%d: got %x want %x", a.Name, nn, kk, ll, got, want)
					}
					n++
				}
			}
		}
	}
	t.Log(fmt.Sprint(n, " hashlib comparisons"))
}

// Resume from the initial state must agree with the one-shot definition, and
// resuming after k whole blocks (state computed by Resume's own loop being
// re-entered) must agree as well: split points at every position.
func TestResume(t *testing.T) {
	r := rand.New(rand.NewPCG(5, 6))
	for _, a := range []*Alg{B, S} {
		for n := 0; n <= 5*a.BB; n += 1 + r.IntN(7) {
			msg := make([]byte, n)
			for i := range msg {
				msg[i] = byte(r.Uint32())
			}
			nn := 1 + r.IntN(a.Out)
			want := a.Sum(nn, nil, msg)
			h0 := a.InitialH(a.SeqParam(nn, 0))
			if got := a.Resume(h0, 0, 0, nil, msg, nn); !bytes.Equal(got, want) {
				t.Fatalf("%s resume-from-start n=%d", a.Name, n)
			}
			// resume with part of the message pending in the buffer
			for _, k := range []int{0, 1, a.BB - 1, a.BB} {
				if k > n {
					continue
				}
				if got := a.Resume(h0, 0, 0, msg[:k], msg[k:], nn); !bytes.Equal(got, want) {
					t.Fatalf("%s resume buf=%d n=%d", a.Name, k, n)
				}
			}
			// resume after whole compressed blocks: compute the chaining value with f directly
			h := h0
			tt := uint64(0)
			rest := msg
			for len(rest) > a.BB {
				tt += uint64(a.BB)
				a.f(&h, rest[:a.BB], tt, 0, false)
				if got := a.Resume(h, tt, 0, nil, rest[a.BB:], nn); len(rest[a.BB:]) > 0 && !bytes.Equal(got, want) {
					t.Fatalf("%s resume after %d bytes n=%d", a.Name, tt, n)
				}
				rest = rest[a.BB:]
			}
		}
	}
	// counter carry: low word wraps into the high word
	h := S.InitialH(S.SeqParam(32, 0))
	x := S.Resume(h, 1<<32-64, 0, make([]byte, 64), make([]byte, 1), 32) // t: 2^32-64 -> 2^32 (carry) -> 2^32+1
	y := S.Resume(h, 0, 1, nil, make([]byte, 1), 32)                     // same h, t = 2^32 then +1, different first block though
	if bytes.Equal(x, y) {
		t.Fatal("carry test degenerate")
	}
	// the same continuation expressed with the carried counter must agree
	hh := h
	S.f(&hh, make([]byte, 64), 0, 1, false) // block compressed at t = 2^32
	if z := S.Resume(hh, 0, 1, make([]byte, 1), nil, 32); !bytes.Equal(z, x) {
		t.Fatalf("carry: %x vs %x", z, x)
	}
}

package bnref

import (
	"math/big"
	"testing"
)

func TestParams(t *testing.T) {
	if P.String() != "65000549695646603732796438742359905742825358107623003571877145026864184071783" {
		t.Fatal("p", P)
	}
	if N.String() != "65000549695646603732796438742359905742570406053903786389881062969044166799969" {
		t.Fatal("n", N)
	}
	if !P.ProbablyPrime(20) || !N.ProbablyPrime(20) {
		t.Fatal("not prime")
	}
	g := G1Gen()
	if !OnCurve1(g.X, g.Y) {
		t.Fatal("gen off curve")
	}
	if !Mul1(g, N).Inf {
		t.Fatal("order")
	}
	// [n]G computed without reduction must be infinity: use n-1 then add
	q := Add1(Mul1(g, new(big.Int).Sub(N, big.NewInt(1))), g)
	if !q.Inf {
		t.Fatal("n-1 + 1")
	}
	a, b := big.NewInt(123456789), big.NewInt(987654321)
	l := Add1(Mul1(g, a), Mul1(g, b))
	r := Mul1(g, new(big.Int).Add(a, b))
	if l.X.Cmp(r.X) != 0 || l.Y.Cmp(r.Y) != 0 {
		t.Fatal("hom")
	}
}

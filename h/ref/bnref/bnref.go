// Package bnref is an executable specification of the groups G1 and G2 of the
// 256-bit Barreto–Naehrig curve used by golang.org/x/crypto/bn256, in affine
// coordinates over math/big. It shares no code with the package under test.
//
// Parameters are derived from the published BN parameter u = 1868033^3:
// p = 36u^4+36u^3+24u^2+6u+1, n = 36u^4+36u^3+18u^2+6u+1.
// G1: y^2 = x^3 + 3 over F_p. G2: y^2 = x^3 + 3/xi over F_p^2 = F_p[i]/(i^2+1),
// xi = i + 3.
package bnref

import "math/big"

var (
	U, P, N *big.Int
	TwistB  F2
)

func init() {
	v := big.NewInt(1868033)
	U = new(big.Int).Exp(v, big.NewInt(3), nil)
	u2 := new(big.Int).Mul(U, U)
	u3 := new(big.Int).Mul(u2, U)
	u4 := new(big.Int).Mul(u3, U)
	mk := func(c4, c3, c2, c1, c0 int64) *big.Int {
		r := new(big.Int).Mul(u4, big.NewInt(c4))
		r.Add(r, new(big.Int).Mul(u3, big.NewInt(c3)))
		r.Add(r, new(big.Int).Mul(u2, big.NewInt(c2)))
		r.Add(r, new(big.Int).Mul(U, big.NewInt(c1)))
		return r.Add(r, big.NewInt(c0))
	}
	P = mk(36, 36, 24, 6, 1)
	N = mk(36, 36, 18, 6, 1)
	// 3/xi
	xi := F2{Re: big.NewInt(3), Im: big.NewInt(1)}
	TwistB = xi.Inv().MulScalar(big.NewInt(3))
}

func mod(x *big.Int) *big.Int { return x.Mod(x, P) }

// ---------- G1 ----------

// P1 is an affine point of G1; Inf marks the point at infinity.
type P1 struct {
	X, Y *big.Int
	Inf  bool
}

// G1Gen is the generator (1, -2).
func G1Gen() P1 { return P1{X: big.NewInt(1), Y: new(big.Int).Sub(P, big.NewInt(2))} }

// OnCurve1 reports y^2 == x^3+3 (mod p) for 0 <= x,y < p.
func OnCurve1(x, y *big.Int) bool {
	if x.Sign() < 0 || y.Sign() < 0 || x.Cmp(P) >= 0 || y.Cmp(P) >= 0 {
		return false
	}
	l := mod(new(big.Int).Mul(y, y))
	r := new(big.Int).Mul(x, x)
	r.Mul(r, x)
	r.Add(r, big.NewInt(3))
	return l.Cmp(mod(r)) == 0
}

func Add1(a, b P1) P1 {
	if a.Inf {
		return b
	}
	if b.Inf {
		return a
	}
	var lam *big.Int
	if a.X.Cmp(b.X) == 0 {
		if new(big.Int).Add(a.Y, b.Y).Mod(new(big.Int).Add(a.Y, b.Y), P).Sign() == 0 {
			return P1{Inf: true}
		}
		num := new(big.Int).Mul(a.X, a.X)
		num.Mul(num, big.NewInt(3))
		den := new(big.Int).Lsh(a.Y, 1)
		lam = num.Mul(num, den.ModInverse(den, P))
	} else {
		num := new(big.Int).Sub(b.Y, a.Y)
		den := new(big.Int).Sub(b.X, a.X)
		den.Mod(den, P)
		lam = num.Mul(num, den.ModInverse(den, P))
	}
	mod(lam)
	x := new(big.Int).Mul(lam, lam)
	x.Sub(x, a.X).Sub(x, b.X)
	mod(x)
	y := new(big.Int).Sub(a.X, x)
	y.Mul(y, lam).Sub(y, a.Y)
	mod(y)
	return P1{X: x, Y: y}
}

func Neg1(a P1) P1 {
	if a.Inf {
		return a
	}
	return P1{X: new(big.Int).Set(a.X), Y: mod(new(big.Int).Neg(a.Y))}
}

// Mul1 computes [k mod n]a (k may be any integer).
func Mul1(a P1, k *big.Int) P1 {
	k = new(big.Int).Mod(k, N)
	r := P1{Inf: true}
	for i := k.BitLen() - 1; i >= 0; i-- {
		r = Add1(r, r)
		if k.Bit(i) == 1 {
			r = Add1(r, a)
		}
	}
	return r
}

func be32(x *big.Int) []byte { return x.FillBytes(make([]byte, 32)) }

// Enc1 is the canonical 64-byte encoding (infinity = all zero).
func Enc1(a P1) []byte {
	if a.Inf {
		return make([]byte, 64)
	}
	return append(be32(a.X), be32(a.Y)...)
}

// ---------- F_p^2 ----------

// F2 is Re + Im*i with i^2 = -1.
type F2 struct{ Re, Im *big.Int }

func (a F2) Add(b F2) F2 {
	return F2{mod(new(big.Int).Add(a.Re, b.Re)), mod(new(big.Int).Add(a.Im, b.Im))}
}
func (a F2) Sub(b F2) F2 {
	return F2{mod(new(big.Int).Sub(a.Re, b.Re)), mod(new(big.Int).Sub(a.Im, b.Im))}
}
func (a F2) Mul(b F2) F2 {
	re := new(big.Int).Mul(a.Re, b.Re)
	re.Sub(re, new(big.Int).Mul(a.Im, b.Im))
	im := new(big.Int).Mul(a.Re, b.Im)
	im.Add(im, new(big.Int).Mul(a.Im, b.Re))
	return F2{mod(re), mod(im)}
}
func (a F2) MulScalar(k *big.Int) F2 {
	return F2{mod(new(big.Int).Mul(a.Re, k)), mod(new(big.Int).Mul(a.Im, k))}
}
func (a F2) Inv() F2 {
	d := new(big.Int).Mul(a.Re, a.Re)
	d.Add(d, new(big.Int).Mul(a.Im, a.Im))
	mod(d)
	d.ModInverse(d, P)
	return F2{mod(new(big.Int).Mul(a.Re, d)), mod(new(big.Int).Mul(new(big.Int).Neg(a.Im), d))}
}
func (a F2) IsZero() bool    { return a.Re.Sign() == 0 && a.Im.Sign() == 0 }
func (a F2) Eq(b F2) bool    { return a.Re.Cmp(b.Re) == 0 && a.Im.Cmp(b.Im) == 0 }
func (a F2) Neg() F2         { return F2{mod(new(big.Int).Neg(a.Re)), mod(new(big.Int).Neg(a.Im))} }
func (a F2) Canonical() bool { return a.Re.Sign() >= 0 && a.Im.Sign() >= 0 && a.Re.Cmp(P) < 0 && a.Im.Cmp(P) < 0 }

// ---------- G2 (twist) ----------

type P2 struct {
	X, Y F2
	Inf  bool
}

// OnCurve2 reports y^2 == x^3 + 3/xi for canonical coordinates.
func OnCurve2(x, y F2) bool {
	if !x.Canonical() || !y.Canonical() {
		return false
	}
	return y.Mul(y).Eq(x.Mul(x).Mul(x).Add(TwistB))
}

func Add2(a, b P2) P2 {
	if a.Inf {
		return b
	}
	if b.Inf {
		return a
	}
	var lam F2
	if a.X.Eq(b.X) {
		if a.Y.Add(b.Y).IsZero() {
			return P2{Inf: true}
		}
		lam = a.X.Mul(a.X).MulScalar(big.NewInt(3)).Mul(a.Y.MulScalar(big.NewInt(2)).Inv())
	} else {
		lam = b.Y.Sub(a.Y).Mul(b.X.Sub(a.X).Inv())
	}
	x := lam.Mul(lam).Sub(a.X).Sub(b.X)
	y := a.X.Sub(x).Mul(lam).Sub(a.Y)
	return P2{X: x, Y: y}
}

func Neg2(a P2) P2 {
	if a.Inf {
		return a
	}
	return P2{X: a.X, Y: a.Y.Neg()}
}

func Mul2(a P2, k *big.Int) P2 {
	k = new(big.Int).Mod(k, N)
	r := P2{Inf: true}
	for i := k.BitLen() - 1; i >= 0; i-- {
		r = Add2(r, r)
		if k.Bit(i) == 1 {
			r = Add2(r, a)
		}
	}
	return r
}

// MulRaw2 computes [k]a for k >= 0 without reducing k mod n (for order checks).
func MulRaw2(a P2, k *big.Int) P2 {
	r := P2{Inf: true}
	for i := k.BitLen() - 1; i >= 0; i-- {
		r = Add2(r, r)
		if k.Bit(i) == 1 {
			r = Add2(r, a)
		}
	}
	return r
}

// Enc2 is the canonical 128-byte encoding used by bn256: x.Im, x.Re, y.Im, y.Re.
func Enc2(a P2) []byte {
	if a.Inf {
		return make([]byte, 128)
	}
	var out []byte
	for _, v := range []*big.Int{a.X.Im, a.X.Re, a.Y.Im, a.Y.Re} {
		out = append(out, be32(v)...)
	}
	return out
}

// Dec2 parses 128 bytes into raw (unreduced) coordinates.
func Dec2(b []byte) (x, y F2) {
	g := func(i int) *big.Int { return new(big.Int).SetBytes(b[32*i : 32*i+32]) }
	return F2{Re: g(1), Im: g(0)}, F2{Re: g(3), Im: g(2)}
}

package twofishref

import (
	"bytes"
	"encoding/hex"
	"math/rand/v2"
	"testing"

	"verif/clib/gcryptcipher"
	"verif/clib/nettlecipher"
)

func uh(s string) []byte { b, _ := hex.DecodeString(s); return b }

// Known-answer vectors from the Twofish paper (Appendix A / ecb_ival.txt).
func TestPaperVectors(t *testing.T) {
	vecs := []struct{ key, pt, ct string }{
		{"00000000000000000000000000000000", "00000000000000000000000000000000", "9F589F5CF6122C32B6BFEC2F2AE8C35A"},
		{"0123456789ABCDEFFEDCBA98765432100011223344556677", "00000000000000000000000000000000", "CFD1D2E5A9BE9CDF501F13B892BD2248"},
		{"0123456789ABCDEFFEDCBA987654321000112233445566778899AABBCCDDEEFF", "00000000000000000000000000000000", "37527BE0052334B89F0CFCCAE87CFA20"},
	}
	for _, v := range vecs {
		k, err := New(uh(v.key))
		if err != nil {
			t.Fatal(err)
		}
		got := k.Encrypt(uh(v.pt))
		if !bytes.Equal(got, uh(v.ct)) {
			t.Errorf("key %s: got %X want %s", v.key, got, v.ct)
		}
		if back := k.Decrypt(got); !bytes.Equal(back, uh(v.pt)) {
			t.Errorf("key %s: decrypt got %X", v.key, back)
		}
	}
}

func TestQIsPermutation(t *testing.T) {
	for w := 0; w < 2; w++ {
		seen := map[byte]bool{}
		for x := 0; x < 256; x++ {
			seen[q(w, byte(x))] = true
		}
		if len(seen) != 256 {
			t.Fatalf("q%d is not a permutation (%d values)", w, len(seen))
		}
	}
	// q0[0]=0xA9, q1[0]=0x75 (first entries of the published 8-bit tables)
	if q(0, 0) != 0xA9 || q(1, 0) != 0x75 {
		t.Fatalf("q0[0]=%02x q1[0]=%02x", q(0, 0), q(1, 0))
	}
}

func TestAgainstCLibs(t *testing.T) {
	r := rand.New(rand.NewPCG(5, 6))
	rb := func(n int) []byte {
		b := make([]byte, n)
		for i := range b {
			b[i] = byte(r.Uint32())
		}
		return b
	}
	for it := 0; it < 600; it++ {
		klen := []int{16, 24, 32}[it%3]
		key, pt := rb(klen), rb(16)
		k, _ := New(key)
		want := k.Encrypt(pt)
		n, err := nettlecipher.Twofish(true, key, pt)
		if err != nil {
			t.Fatal(err)
		}
		if !bytes.Equal(n, want) {
			t.Fatalf("nettle differs klen=%d", klen)
		}
		if klen != 24 {
			algo := gcryptcipher.Twofish128
			if klen == 32 {
				algo = gcryptcipher.Twofish256
			}
			g, err := gcryptcipher.ECB(algo, true, key, pt)
			if err != nil {
				t.Fatal(err)
			}
			if !bytes.Equal(g, want) {
				t.Fatalf("libgcrypt differs klen=%d", klen)
			}
		}
		if !bytes.Equal(k.Decrypt(want), pt) {
			t.Fatalf("ref decrypt klen=%d", klen)
		}
	}
}

// Package twofishref is an executable specification of Twofish (Schneier,
// Kelsey, Whiting, Wagner, Hall, Ferguson: "Twofish: A 128-Bit Block Cipher",
// 1998) written from §4 of the paper: the q0/q1 permutations are BUILT from
// the 4-bit tables t0..t3 (§4.3.5), the MDS and RS multiplications are done
// with shift-and-reduce polynomial arithmetic, and h/g/F are evaluated per
// call (no key-dependent table precomputation). No code or table is shared
// with golang.org/x/crypto/twofish (which ports LibTom's precomputed 8-bit
// tables).
package twofishref

import "errors"

var qt = [2][4][16]byte{
	{ // q0
		{0x8, 0x1, 0x7, 0xD, 0x6, 0xF, 0x3, 0x2, 0x0, 0xB, 0x5, 0x9, 0xE, 0xC, 0xA, 0x4},
		{0xE, 0xC, 0xB, 0x8, 0x1, 0x2, 0x3, 0x5, 0xF, 0x4, 0xA, 0x6, 0x7, 0x0, 0x9, 0xD},
		{0xB, 0xA, 0x5, 0xE, 0x6, 0xD, 0x9, 0x0, 0xC, 0x8, 0xF, 0x3, 0x2, 0x4, 0x7, 0x1},
		{0xD, 0x7, 0xF, 0x4, 0x1, 0x2, 0x6, 0xE, 0x9, 0xB, 0x3, 0x0, 0x8, 0x5, 0xC, 0xA},
	},
	{ // q1
		{0x2, 0x8, 0xB, 0xD, 0xF, 0x7, 0x6, 0xE, 0x3, 0x1, 0x9, 0x4, 0x0, 0xA, 0xC, 0x5},
		{0x1, 0xE, 0x2, 0xB, 0x4, 0xC, 0x3, 0x7, 0x6, 0xD, 0xA, 0x5, 0xF, 0x9, 0x0, 0x8},
		{0x4, 0xC, 0x7, 0x5, 0x1, 0x6, 0x9, 0xA, 0x0, 0xE, 0xD, 0x8, 0x2, 0xB, 0x3, 0xF},
		{0xB, 0x9, 0x5, 0x1, 0xC, 0x3, 0xD, 0xE, 0x6, 0x4, 0x7, 0xF, 0x2, 0x0, 0x8, 0xA},
	},
}

func ror4(x byte, n uint) byte { return ((x >> n) | (x << (4 - n))) & 0xf }

// q evaluates permutation q0 (which=0) or q1 (which=1) per §4.3.5.
func q(which int, x byte) byte {
	t := &qt[which]
	a0, b0 := x>>4, x&0xf
	a1 := a0 ^ b0
	b1 := a0 ^ ror4(b0, 1) ^ ((8 * a0) & 0xf)
	a2, b2 := t[0][a1], t[1][b1]
	a3 := a2 ^ b2
	b3 := a2 ^ ror4(b2, 1) ^ ((8 * a2) & 0xf)
	a4, b4 := t[2][a3], t[3][b3]
	return b4<<4 | a4
}

// gfMul multiplies a·b in GF(2^8) modulo the degree-8 polynomial poly.
func gfMul(a, b byte, poly uint) byte {
	var acc uint
	x := uint(a)
	for i := uint(0); i < 8; i++ {
		if b>>i&1 == 1 {
			acc ^= x << i
		}
	}
	for bit := 15; bit >= 8; bit-- {
		if acc>>uint(bit)&1 == 1 {
			acc ^= poly << uint(bit-8)
		}
	}
	return byte(acc)
}

const (
	mdsPoly = 0x169 // x^8+x^6+x^5+x^3+1
	rsPoly  = 0x14d // x^8+x^6+x^3+x^2+1
)

var mds = [4][4]byte{
	{0x01, 0xEF, 0x5B, 0x5B},
	{0x5B, 0xEF, 0xEF, 0x01},
	{0xEF, 0x5B, 0x01, 0xEF},
	{0xEF, 0x01, 0xEF, 0x5B},
}

var rs = [4][8]byte{
	{0x01, 0xA4, 0x55, 0x87, 0x5A, 0x58, 0xDB, 0x9E},
	{0xA4, 0x56, 0x82, 0xF3, 0x1E, 0xC6, 0x68, 0xE5},
	{0x02, 0xA1, 0xFC, 0xC1, 0x47, 0xAE, 0x3D, 0x19},
	{0xA4, 0x55, 0x87, 0x5A, 0x58, 0xDB, 0x9E, 0x03},
}

func rol(x uint32, n uint) uint32 { return x<<n | x>>(32-n) }
func ror(x uint32, n uint) uint32 { return x>>n | x<<(32-n) }

func le32(b []byte) uint32 {
	return uint32(b[0]) | uint32(b[1])<<8 | uint32(b[2])<<16 | uint32(b[3])<<24
}

// h is the function of §4.3.2; L has k words.
func h(X uint32, L []uint32) uint32 {
	k := len(L)
	var y [4]byte
	for j := range y {
		y[j] = byte(X >> (8 * uint(j)))
	}
	l := func(i, j int) byte { return byte(L[i] >> (8 * uint(j))) }
	if k == 4 {
		y[0] = q(1, y[0]) ^ l(3, 0)
		y[1] = q(0, y[1]) ^ l(3, 1)
		y[2] = q(0, y[2]) ^ l(3, 2)
		y[3] = q(1, y[3]) ^ l(3, 3)
	}
	if k >= 3 {
		y[0] = q(1, y[0]) ^ l(2, 0)
		y[1] = q(1, y[1]) ^ l(2, 1)
		y[2] = q(0, y[2]) ^ l(2, 2)
		y[3] = q(0, y[3]) ^ l(2, 3)
	}
	y[0] = q(1, q(0, q(0, y[0])^l(1, 0))^l(0, 0))
	y[1] = q(0, q(0, q(1, y[1])^l(1, 1))^l(0, 1))
	y[2] = q(1, q(1, q(0, y[2])^l(1, 2))^l(0, 2))
	y[3] = q(0, q(1, q(1, y[3])^l(1, 3))^l(0, 3))
	var Z uint32
	for i := 0; i < 4; i++ {
		var z byte
		for j := 0; j < 4; j++ {
			z ^= gfMul(mds[i][j], y[j], mdsPoly)
		}
		Z |= uint32(z) << (8 * uint(i))
	}
	return Z
}

// Key is an expanded Twofish key.
type Key struct {
	K [40]uint32
	S []uint32 // (S_{k-1}, …, S_0)
}

// New expands a 16-, 24- or 32-byte key (§4.3).
func New(key []byte) (*Key, error) {
	if len(key) != 16 && len(key) != 24 && len(key) != 32 {
		return nil, errors.New("twofishref: key must be 16, 24 or 32 bytes")
	}
	k := len(key) / 8
	var me, mo []uint32
	for i := 0; i < 2*k; i++ {
		w := le32(key[4*i:])
		if i%2 == 0 {
			me = append(me, w)
		} else {
			mo = append(mo, w)
		}
	}
	S := make([]uint32, k)
	for i := 0; i < k; i++ {
		var w uint32
		for r := 0; r < 4; r++ {
			var s byte
			for c := 0; c < 8; c++ {
				s ^= gfMul(rs[r][c], key[8*i+c], rsPoly)
			}
			w |= uint32(s) << (8 * uint(r))
		}
		S[k-1-i] = w
	}
	kk := &Key{S: S}
	const rho = 0x01010101
	for i := uint32(0); i < 20; i++ {
		A := h(2*i*rho, me)
		B := rol(h((2*i+1)*rho, mo), 8)
		kk.K[2*i] = A + B
		kk.K[2*i+1] = rol(A+2*B, 9)
	}
	return kk, nil
}

func (k *Key) g(x uint32) uint32 { return h(x, k.S) }

// Encrypt encrypts one 16-byte block.
func (k *Key) Encrypt(in []byte) []byte {
	var R [4]uint32
	for i := range R {
		R[i] = le32(in[4*i:]) ^ k.K[i]
	}
	for r := 0; r < 16; r++ {
		t0 := k.g(R[0])
		t1 := k.g(rol(R[1], 8))
		f0 := t0 + t1 + k.K[2*r+8]
		f1 := t0 + 2*t1 + k.K[2*r+9]
		n0 := ror(R[2]^f0, 1)
		n1 := rol(R[3], 1) ^ f1
		R = [4]uint32{n0, n1, R[0], R[1]}
	}
	out := make([]byte, 16)
	for i := 0; i < 4; i++ {
		c := R[(i+2)%4] ^ k.K[i+4]
		out[4*i], out[4*i+1], out[4*i+2], out[4*i+3] = byte(c), byte(c>>8), byte(c>>16), byte(c>>24)
	}
	return out
}

// Decrypt inverts Encrypt.
func (k *Key) Decrypt(in []byte) []byte {
	var C [4]uint32
	for i := range C {
		C[i] = le32(in[4*i:]) ^ k.K[i+4]
	}
	// C_i = R16[(i+2)%4]  =>  R16[j] = C[(j+2)%4]
	R := [4]uint32{C[2], C[3], C[0], C[1]}
	for r := 15; r >= 0; r-- {
		// R = (n0, n1, p0, p1) where p = previous R[0], R[1]
		p0, p1 := R[2], R[3]
		t0 := k.g(p0)
		t1 := k.g(rol(p1, 8))
		f0 := t0 + t1 + k.K[2*r+8]
		f1 := t0 + 2*t1 + k.K[2*r+9]
		p2 := rol(R[0], 1) ^ f0
		p3 := ror(R[1]^f1, 1)
		R = [4]uint32{p0, p1, p2, p3}
	}
	out := make([]byte, 16)
	for i := 0; i < 4; i++ {
		c := R[i] ^ k.K[i]
		out[4*i], out[4*i+1], out[4*i+2], out[4*i+3] = byte(c), byte(c>>8), byte(c>>16), byte(c>>24)
	}
	return out
}

package keccakleg

import (
	"bytes"
	"encoding/hex"
	"math/rand/v2"
	"testing"

	"verif/ext"
)

func TestLegacyVectors(t *testing.T) {
	for _, c := range []struct {
		f        func([]byte) []byte
		in, want string
	}{
		{Legacy256, "", "c5d2460186f7233c927e7db2dcc703c0e500b653ca82273b7bfad8045d85a470"},
		{Legacy256, "abc", "4e03657aea45a94fc7d47ba826c8d667c0d1e6e33a64a036ec44f58fa12d6c45"},
		{Legacy512, "", "0eab42de4c3ceb9235fc91acffe746b29c29a8c366b7c60e4e67c466f36a4304c00fa9caf9d87976ba469bcbe06713b435f091ef2769fb160cdab33d3670680e"},
		{Legacy512, "abc", "18587dc2ea106b9a1563e32b3312421ca164c7f1f07bc922a9c83d77cea3a1e5d0c69910739025372dc14ac9642629379540c17e2a65b19d77aa511a9d00bb96"},
	} {
		if got := hex.EncodeToString(c.f([]byte(c.in))); got != c.want {
			t.Errorf("%q: got %s want %s", c.in, got, c.want)
		}
	}
}

// The permutation and sponge are shared with SHA-3/SHAKE up to the domain
// byte: validate them against python hashlib on lengths around the rates.
func TestAgainstHashlib(t *testing.T) {
	py, err := ext.StartPy()
	if err != nil {
		t.Skip(err)
	}
	defer py.Close()
	r := rand.New(rand.NewPCG(3, 4))
	n := 0
	for _, c := range []struct {
		name      string
		rate, out int
		ds        byte
	}{{"sha3_256", 136, 32, 6}, {"sha3_512", 72, 64, 6}, {"shake_128", 168, 500, 0x1f}, {"shake_256", 136, 300, 0x1f}} {
		for _, l := range []int{0, 1, c.rate - 2, c.rate - 1, c.rate, c.rate + 1, 2*c.rate - 1, 2 * c.rate, 2*c.rate + 1, 700, r.IntN(1000)} {
			msg := make([]byte, l)
			for i := range msg {
				msg[i] = byte(r.Uint32())
			}
			want, err := py.Bytes(map[string]any{"op": "hash", "name": c.name, "msg": ext.Hx(msg), "outlen": c.out})
			if err != nil {
				t.Fatal(err)
			}
			if got := Sponge(c.rate, c.ds, msg, c.out); !bytes.Equal(got, want) {
				t.Fatalf("%s len %d mismatch", c.name, l)
			}
			n++
		}
	}
	t.Logf("%d hashlib comparisons", n)
}

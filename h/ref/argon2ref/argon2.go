package argon2ref

import "encoding/binary"

// Argon2 types (RFC 9106 §3.1, parameter y).
const (
	Argon2d  = 0
	Argon2i  = 1
	Argon2id = 2
)

const version = 0x13

type blk [128]uint64

//go:norace
func le32(v uint32) []byte { var b [4]byte; binary.LittleEndian.PutUint32(b[:], v); return b[:] }

// HPrime is the variable-length hash H' of RFC 9106 §3.3.
//
//go:norace
func HPrime(tagLen int, in []byte) []byte {
	msg := append(le32(uint32(tagLen)), in...)
	if tagLen <= 64 {
		return Blake2b(tagLen, msg)
	}
	r := (tagLen+31)/32 - 2
	v := Blake2b(64, msg) // V1
	out := append([]byte(nil), v[:32]...)
	for i := 2; i <= r; i++ {
		v = Blake2b(64, v)
		out = append(out, v[:32]...)
	}
	v = Blake2b(tagLen-32*r, v) // V_{r+1}
	return append(out, v...)
}

// gb is the BlaMka quarter round GB of RFC 9106 §3.6.
//
//go:norace
func gb(v *[16]uint64, a, b, c, d int) {
	lo := func(x uint64) uint64 { return x & 0xffffffff }
	v[a] = v[a] + v[b] + 2*lo(v[a])*lo(v[b])
	v[d] = rotr64(v[d]^v[a], 32)
	v[c] = v[c] + v[d] + 2*lo(v[c])*lo(v[d])
	v[b] = rotr64(v[b]^v[c], 24)
	v[a] = v[a] + v[b] + 2*lo(v[a])*lo(v[b])
	v[d] = rotr64(v[d]^v[a], 16)
	v[c] = v[c] + v[d] + 2*lo(v[c])*lo(v[d])
	v[b] = rotr64(v[b]^v[c], 63)
}

// permP is the permutation P on eight 16-byte registers given as the word
// indices of v0..v15.
//
//go:norace
func permP(r *blk, idx [16]int) {
	var v [16]uint64
	for i, k := range idx {
		v[i] = r[k]
	}
	gb(&v, 0, 4, 8, 12)
	gb(&v, 1, 5, 9, 13)
	gb(&v, 2, 6, 10, 14)
	gb(&v, 3, 7, 11, 15)
	gb(&v, 0, 5, 10, 15)
	gb(&v, 1, 6, 11, 12)
	gb(&v, 2, 7, 8, 13)
	gb(&v, 3, 4, 9, 14)
	for i, k := range idx {
		r[k] = v[i]
	}
}

// compressG is G(X, Y) of RFC 9106 §3.5.
//
//go:norace
func compressG(x, y *blk) blk {
	var r blk
	for i := range r {
		r[i] = x[i] ^ y[i]
	}
	z := r
	for row := 0; row < 8; row++ {
		var idx [16]int
		for k := range idx {
			idx[k] = 16*row + k
		}
		permP(&z, idx)
	}
	for col := 0; col < 8; col++ {
		var idx [16]int
		for k := 0; k < 8; k++ {
			idx[2*k] = 16*k + 2*col
			idx[2*k+1] = 16*k + 2*col + 1
		}
		permP(&z, idx)
	}
	for i := range z {
		z[i] ^= r[i]
	}
	return z
}

//go:norace
func blkFromBytes(b []byte) (o blk) {
	for i := range o {
		o[i] = binary.LittleEndian.Uint64(b[8*i:])
	}
	return
}

//go:norace
func (b *blk) bytes() []byte {
	out := make([]byte, 1024)
	for i, w := range b {
		binary.LittleEndian.PutUint64(out[8*i:], w)
	}
	return out
}

// Hash computes the Argon2 tag. memBlocks is the number of 1 KiB blocks that
// are actually used (the caller decides m', RFC 9106: 4·p·⌊m/4p⌋); mParam is
// the value of m that enters H0. For the RFC they coincide up to rounding.
//
//go:norace
func Hash(y int, pw, salt, secret, ad []byte, t, mParam, memBlocks, p uint32, tagLen int) []byte {
	if t < 1 || p < 1 || tagLen < 1 || memBlocks < 8*p || memBlocks%(4*p) != 0 {
		panic("argon2ref: parameters out of domain")
	}
	// H0
	var h0in []byte
	h0in = append(h0in, le32(p)...)
	h0in = append(h0in, le32(uint32(tagLen))...)
	h0in = append(h0in, le32(mParam)...)
	h0in = append(h0in, le32(t)...)
	h0in = append(h0in, le32(version)...)
	h0in = append(h0in, le32(uint32(y))...)
	for _, f := range [][]byte{pw, salt, secret, ad} {
		h0in = append(h0in, le32(uint32(len(f)))...)
		h0in = append(h0in, f...)
	}
	h0 := Blake2b(64, h0in)

	q := memBlocks / p // columns per lane
	seg := q / 4       // blocks per segment
	B := make([][]blk, p)
	for i := range B {
		B[i] = make([]blk, q)
		for j := uint32(0); j < 2; j++ {
			in := append(append(append([]byte(nil), h0...), le32(j)...), le32(uint32(i))...)
			B[i][j] = blkFromBytes(HPrime(1024, in))
		}
	}

	var zero blk
	for pass := uint32(0); pass < t; pass++ {
		for slice := uint32(0); slice < 4; slice++ {
			// lanes are independent within a slice: compute them one after another
			for lane := uint32(0); lane < p; lane++ {
				independent := y == Argon2i || (y == Argon2id && pass == 0 && slice < 2)
				var addr blk
				var ctr uint64
				nextAddr := func() {
					ctr++
					var z blk
					z[0], z[1], z[2], z[3], z[4], z[5], z[6] = uint64(pass), uint64(lane), uint64(slice), uint64(memBlocks), uint64(t), uint64(y), ctr
					inner := compressG(&zero, &z)
					addr = compressG(&zero, &inner)
				}
				for idx := uint32(0); idx < seg; idx++ {
					if independent && idx%128 == 0 {
						nextAddr()
					}
					if pass == 0 && slice == 0 && idx < 2 {
						continue
					}
					j := slice*seg + idx // column
					prevCol := (j + q - 1) % q
					var j1, j2 uint32
					if independent {
						j1, j2 = uint32(addr[idx%128]), uint32(addr[idx%128]>>32)
					} else {
						j1, j2 = uint32(B[lane][prevCol][0]), uint32(B[lane][prevCol][0]>>32)
					}
					l := j2 % p
					if pass == 0 && slice == 0 {
						l = lane
					}
					// size of the reference set W (RFC 9106 §3.4.1.1/§3.4.2)
					var area uint32
					if pass == 0 {
						area = slice * seg // finished segments of this pass
					} else {
						area = q - seg // the last three segments (all lanes finished them)
					}
					if l == lane {
						area += idx - 1 // blocks of the current segment so far, without B[i][j-1]
					} else if idx == 0 {
						area-- // first block of a segment: the last finished block is excluded too
					}
					x := (uint64(j1) * uint64(j1)) >> 32
					yy := (uint64(area) * x) >> 32
					zz := uint64(area) - 1 - yy
					start := uint64(0)
					if pass != 0 && slice != 3 {
						start = uint64(slice+1) * uint64(seg)
					}
					refCol := uint32((start + zz) % uint64(q))
					nb := compressG(&B[lane][prevCol], &B[l][refCol])
					if pass > 0 {
						for k := range nb {
							nb[k] ^= B[lane][j][k]
						}
					}
					B[lane][j] = nb
				}
			}
		}
	}
	c := B[0][q-1]
	for i := uint32(1); i < p; i++ {
		for k := range c {
			c[k] ^= B[i][q-1][k]
		}
	}
	return HPrime(tagLen, c.bytes())
}

// RFC computes exactly RFC 9106 §3.2: m' = 4·p·⌊m/(4·p)⌋ (requires m ≥ 8p).
//
//go:norace
func RFC(y int, pw, salt, secret, ad []byte, t, m, p uint32, tagLen int) []byte {
	return Hash(y, pw, salt, secret, ad, t, m, m/(4*p)*(4*p), p, tagLen)
}

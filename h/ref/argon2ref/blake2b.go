// Package argon2ref is an executable specification of Argon2 (RFC 9106,
// version 0x13), single-threaded and written for obviousness, together with
// the unkeyed BLAKE2b of RFC 7693 that it needs. It imports nothing from
// golang.org/x/crypto.
package argon2ref

import "encoding/binary"

var b2iv = [8]uint64{
	0x6a09e667f3bcc908, 0xbb67ae8584caa73b, 0x3c6ef372fe94f82b, 0xa54ff53a5f1d36f1,
	0x510e527fade682d1, 0x9b05688c2b3e6c1f, 0x1f83d9abfb41bd6b, 0x5be0cd19137e2179,
}

var b2sigma = [12][16]int{
	{0, 1, 2, 3, 4, 5, 6, 7, 8, 9, 10, 11, 12, 13, 14, 15},
	{14, 10, 4, 8, 9, 15, 13, 6, 1, 12, 0, 2, 11, 7, 5, 3},
	{11, 8, 12, 0, 5, 2, 15, 13, 10, 14, 3, 6, 7, 1, 9, 4},
	{7, 9, 3, 1, 13, 12, 11, 14, 2, 6, 5, 10, 4, 0, 15, 8},
	{9, 0, 5, 7, 2, 4, 10, 15, 14, 1, 11, 12, 6, 8, 3, 13},
	{2, 12, 6, 10, 0, 11, 8, 3, 4, 13, 7, 5, 15, 14, 1, 9},
	{12, 5, 1, 15, 14, 13, 4, 10, 0, 7, 6, 3, 9, 2, 8, 11},
	{13, 11, 7, 14, 12, 1, 3, 9, 5, 0, 15, 4, 8, 6, 2, 10},
	{6, 15, 14, 9, 11, 3, 0, 8, 12, 2, 13, 7, 1, 4, 10, 5},
	{10, 2, 8, 4, 7, 6, 1, 5, 15, 11, 9, 14, 3, 12, 13, 0},
	{0, 1, 2, 3, 4, 5, 6, 7, 8, 9, 10, 11, 12, 13, 14, 15},
	{14, 10, 4, 8, 9, 15, 13, 6, 1, 12, 0, 2, 11, 7, 5, 3},
}

//go:norace
func rotr64(x uint64, n uint) uint64 { return x>>n | x<<(64-n) }

//go:norace
func b2mix(v *[16]uint64, a, b, c, d int, x, y uint64) {
	v[a] = v[a] + v[b] + x
	v[d] = rotr64(v[d]^v[a], 32)
	v[c] = v[c] + v[d]
	v[b] = rotr64(v[b]^v[c], 24)
	v[a] = v[a] + v[b] + y
	v[d] = rotr64(v[d]^v[a], 16)
	v[c] = v[c] + v[d]
	v[b] = rotr64(v[b]^v[c], 63)
}

// b2compress is F of RFC 7693 §3.2 (t < 2^64 is enough here).
//
//go:norace
func b2compress(h *[8]uint64, blk []byte, t uint64, last bool) {
	var m [16]uint64
	for i := range m {
		m[i] = binary.LittleEndian.Uint64(blk[8*i:])
	}
	var v [16]uint64
	copy(v[:8], h[:])
	copy(v[8:], b2iv[:])
	v[12] ^= t
	if last {
		v[14] = ^v[14]
	}
	for r := 0; r < 12; r++ {
		s := &b2sigma[r]
		b2mix(&v, 0, 4, 8, 12, m[s[0]], m[s[1]])
		b2mix(&v, 1, 5, 9, 13, m[s[2]], m[s[3]])
		b2mix(&v, 2, 6, 10, 14, m[s[4]], m[s[5]])
		b2mix(&v, 3, 7, 11, 15, m[s[6]], m[s[7]])
		b2mix(&v, 0, 5, 10, 15, m[s[8]], m[s[9]])
		b2mix(&v, 1, 6, 11, 12, m[s[10]], m[s[11]])
		b2mix(&v, 2, 7, 8, 13, m[s[12]], m[s[13]])
		b2mix(&v, 3, 4, 9, 14, m[s[14]], m[s[15]])
	}
	for i := 0; i < 8; i++ {
		h[i] ^= v[i] ^ v[i+8]
	}
}

// Blake2b is unkeyed BLAKE2b with an outLen-byte digest (1..64), RFC 7693 §3.3.
//
//go:norace
func Blake2b(outLen int, data []byte) []byte {
	if outLen < 1 || outLen > 64 {
		panic("argon2ref: bad BLAKE2b output length")
	}
	h := b2iv
	h[0] ^= 0x01010000 ^ uint64(outLen)
	var t uint64
	for len(data) > 128 {
		t += 128
		b2compress(&h, data[:128], t, false)
		data = data[128:]
	}
	var last [128]byte
	copy(last[:], data)
	t += uint64(len(data))
	b2compress(&h, last[:], t, true)
	var out [64]byte
	for i, w := range h {
		binary.LittleEndian.PutUint64(out[8*i:], w)
	}
	return append([]byte(nil), out[:outLen]...)
}

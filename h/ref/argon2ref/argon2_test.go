package argon2ref

import (
	"bytes"
	"encoding/hex"
	"math/rand/v2"
	"testing"

	"verif/clib/gcryptkdf"
	"verif/clib/sodiumpwhash"
)

func TestBlake2bRFC7693(t *testing.T) {
	// RFC 7693 Appendix A: BLAKE2b-512("abc")
	want := "ba80a53f981c4d0d6a2797b69f12f6e94c212f14685ac4b74b12bb6fdbffa2d17d87c5392aab792dc252d5de4533cc9518d38aa8dbf1925ab92386edd4009923"
	if got := hex.EncodeToString(Blake2b(64, []byte("abc"))); got != want {
		t.Fatalf("got %s", got)
	}
	// BLAKE2b-512("") well-known value
	want0 := "786a02f742015903c6c6fd852552d272912f4740e15847618a86e217f71f5419d25e1031afee585313896444934eb04b903a685b1448b755d56f701afe9be2ce"
	if got := hex.EncodeToString(Blake2b(64, nil)); got != want0 {
		t.Fatalf("got %s", got)
	}
}

func rep(b byte, n int) []byte { return bytes.Repeat([]byte{b}, n) }

func TestRFC9106Vectors(t *testing.T) {
	for _, v := range []struct {
		y    int
		want string
	}{
		{Argon2d, "512b391b6f1162975371d30919734294f868e3be3984f3c1a13a4db9fabe4acb"},
		{Argon2i, "c814d9d1dc7f37aa13f0d77f2494bda1c8de6b016dd388d29952a4c4672b6ce8"},
		{Argon2id, "0d640df58d78766c08c037a34a8b53c9d01ef0452d75b65eb52520e96b01e659"},
	} {
		got := RFC(v.y, rep(1, 32), rep(2, 16), rep(3, 8), rep(4, 12), 3, 32, 4, 32)
		if hex.EncodeToString(got) != v.want {
			t.Errorf("y=%d: got %x want %s", v.y, got, v.want)
		}
	}
}

func TestPHCVectors(t *testing.T) {
	for _, v := range []struct {
		y       int
		t, m, p uint32
		want    string
	}{
		{Argon2i, 2, 1 << 8, 1, "89e9029f4637b295beb027056a7336c414fadd43f6b208645281cb214a56452f"},
		{Argon2i, 2, 1 << 8, 2, "4ff5ce2769a1d7f4c8a491df09d41a9fbe90e5eb02155a13e4c01e20cd4eab61"},
		{Argon2id, 2, 1 << 8, 1, "9dfeb910e80bad0311fee20f9c0e2b12c17987b4cac90c2ef54d5b3021c68bfe"},
		{Argon2id, 2, 1 << 8, 2, "6d093c501fd5999645e0ea3bf620d7b8be7fd2db59c20d9fff9539da2bf57037"},
	} {
		got := RFC(v.y, []byte("password"), []byte("somesalt"), nil, nil, v.t, v.m, v.p, 32)
		if hex.EncodeToString(got) != v.want {
			t.Errorf("y=%d t=%d m=%d p=%d: got %x want %s", v.y, v.t, v.m, v.p, got, v.want)
		}
	}
}

// Cross-check against two independent C implementations over the parameter
// shapes the C15 monitor uses (many lanes, long tags, odd memory).
func TestAgainstCLibs(t *testing.T) {
	r := rand.New(rand.NewPCG(1, 2))
	tagLens := []int{1, 4, 16, 31, 32, 33, 63, 64, 65, 96, 97, 128, 129, 300}
	lanes := []uint32{1, 2, 3, 4, 5, 8, 16}
	nG, nS := 0, 0
	for i := 0; i < 300; i++ {
		y := Argon2i + r.IntN(2)
		p := lanes[r.IntN(len(lanes))]
		tt := uint32(1 + r.IntN(3))
		m := 8*p + uint32(r.IntN(200))
		tl := tagLens[r.IntN(len(tagLens))]
		pw := make([]byte, 1+r.IntN(40))
		salt := make([]byte, 16)
		for k := range pw {
			pw[k] = byte(r.Uint32())
		}
		for k := range salt {
			salt[k] = byte(r.Uint32())
		}
		want := RFC(y, pw, salt, nil, nil, tt, m, p, tl)
		g, err := gcryptkdf.Argon2(y, pw, salt, nil, nil, tt, m, p, tl)
		if err != nil {
			t.Fatal(err)
		}
		nG++
		if !bytes.Equal(g, want) {
			t.Fatalf("libgcrypt differs: y=%d t=%d m=%d p=%d tl=%d", y, tt, m, p, tl)
		}
		if p == 1 && sodiumpwhash.Usable(y == Argon2id, 16, tt, m, tl) {
			s, err := sodiumpwhash.Hash(y == Argon2id, pw, salt, tt, m, tl)
			if err != nil {
				t.Fatal(err)
			}
			nS++
			if !bytes.Equal(s, want) {
				t.Fatalf("libsodium differs: y=%d t=%d m=%d tl=%d", y, tt, m, tl)
			}
		}
	}
	// empty password: libsodium only
	for _, y := range []int{Argon2i, Argon2id} {
		salt := rep(7, 16)
		want := RFC(y, nil, salt, nil, nil, 3, 24, 1, 32)
		s, err := sodiumpwhash.Hash(y == Argon2id, nil, salt, 3, 24, 32)
		if err != nil || !bytes.Equal(s, want) {
			t.Fatalf("libsodium empty password differs (y=%d): %v", y, err)
		}
		nS++
	}
	t.Logf("libgcrypt comparisons %d, libsodium comparisons %d", nG, nS)
	if nS < 5 {
		t.Fatal("too few libsodium comparisons")
	}
}

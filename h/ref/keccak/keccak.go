// Package keccak is an executable specification of FIPS 202 (Keccak-f[1600],
// sponge, SHA-3, SHAKE), SP 800-185 cSHAKE and the pre-standard ("legacy")
// Keccak-256/512 padding. It is written for obviousness, not speed, and shares
// no code with golang.org/x/crypto/sha3 or the standard library crypto/sha3:
// the ρ offsets and ι round constants are *derived* with the FIPS 202
// algorithms (§3.2.2 and Algorithm 5), not pasted.
package keccak

// lane A[x][y] is the 64-bit word holding bits z=0..63 (bit z = (lane>>z)&1),
// exactly the FIPS 202 §3.1.2 state array with w=64.
type stateArray [5][5]uint64

func rotl(v uint64, n int) uint64 {
	n %= 64
	if n == 0 {
		return v
	}
	return v<<uint(n) | v>>uint(64-n)
}

// theta: FIPS 202 Algorithm 1.
func theta(a stateArray) stateArray {
	var c, d [5]uint64
	for x := 0; x < 5; x++ {
		c[x] = a[x][0] ^ a[x][1] ^ a[x][2] ^ a[x][3] ^ a[x][4]
	}
	for x := 0; x < 5; x++ {
		// D[x,z] = C[(x-1) mod 5, z] xor C[(x+1) mod 5, (z-1) mod w]
		d[x] = c[(x+4)%5] ^ rotl(c[(x+1)%5], 1)
	}
	var out stateArray
	for x := 0; x < 5; x++ {
		for y := 0; y < 5; y++ {
			out[x][y] = a[x][y] ^ d[x]
		}
	}
	return out
}

// rhoOffsets: FIPS 202 Algorithm 2 steps 2-3: (x,y)=(1,0); for t=0..23:
// offset[x][y] = (t+1)(t+2)/2 ; (x,y) = (y, (2x+3y) mod 5).
func rhoOffsets() [5][5]int {
	var off [5][5]int
	x, y := 1, 0
	for t := 0; t < 24; t++ {
		off[x][y] = ((t + 1) * (t + 2) / 2) % 64
		x, y = y, (2*x+3*y)%5
	}
	return off
}

// rho: FIPS 202 Algorithm 2. A'[x,y,z] = A[x,y,(z-offset) mod w], i.e. a left
// rotation of the lane by offset.
func rho(a stateArray) stateArray {
	off := rhoOffsets()
	var out stateArray
	for x := 0; x < 5; x++ {
		for y := 0; y < 5; y++ {
			out[x][y] = rotl(a[x][y], off[x][y])
		}
	}
	return out
}

// pi: FIPS 202 Algorithm 3. A'[x,y] = A[(x+3y) mod 5, x].
func pi(a stateArray) stateArray {
	var out stateArray
	for x := 0; x < 5; x++ {
		for y := 0; y < 5; y++ {
			out[x][y] = a[(x+3*y)%5][x]
		}
	}
	return out
}

// chi: FIPS 202 Algorithm 4. A'[x,y] = A[x,y] xor ((A[x+1,y] xor 1) and A[x+2,y]).
func chi(a stateArray) stateArray {
	var out stateArray
	for x := 0; x < 5; x++ {
		for y := 0; y < 5; y++ {
			out[x][y] = a[x][y] ^ (^a[(x+1)%5][y] & a[(x+2)%5][y])
		}
	}
	return out
}

// rcBit: FIPS 202 Algorithm 5 rc(t): LFSR x^8+x^6+x^5+x^4+1.
func rcBit(t int) uint64 {
	t %= 255
	if t < 0 {
		t += 255
	}
	if t == 0 {
		return 1
	}
	// R = 10000000 (R[0]=1)
	var r [9]uint8
	r8 := [8]uint8{1, 0, 0, 0, 0, 0, 0, 0}
	for i := 1; i <= t; i++ {
		// R = 0 || R
		r[0] = 0
		copy(r[1:], r8[:])
		r[0] ^= r[8]
		r[4] ^= r[8]
		r[5] ^= r[8]
		r[6] ^= r[8]
		copy(r8[:], r[:8])
	}
	return uint64(r8[0])
}

// RoundConstant: FIPS 202 Algorithm 6 steps 2-3: RC[2^j - 1] = rc(j + 7 ir), j=0..6.
func RoundConstant(ir int) uint64 {
	var rc uint64
	for j := 0; j <= 6; j++ {
		rc |= rcBit(j+7*ir) << uint((1<<uint(j))-1)
	}
	return rc
}

// iota: FIPS 202 Algorithm 6.
func iota_(a stateArray, ir int) stateArray {
	a[0][0] ^= RoundConstant(ir)
	return a
}

var rcTable = func() (t [24]uint64) {
	for i := range t {
		t[i] = RoundConstant(i)
	}
	return
}()

var rhoTable = rhoOffsets()

// round with the precomputed (derived) tables; same five step mappings.
func round(a stateArray, ir int) stateArray {
	a = theta(a)
	var b stateArray
	for x := 0; x < 5; x++ {
		for y := 0; y < 5; y++ {
			b[x][y] = rotl(a[x][y], rhoTable[x][y])
		}
	}
	b = pi(b)
	b = chi(b)
	b[0][0] ^= rcTable[ir]
	return b
}

// F1600 applies Keccak-p[1600,24] to the 200-byte string s (FIPS 202 §3.1.2
// string<->state conversion: lane (x,y) is bytes 8(5y+x).. little-endian).
func F1600(s *[200]byte) {
	var a stateArray
	for y := 0; y < 5; y++ {
		for x := 0; x < 5; x++ {
			var v uint64
			for k := 0; k < 8; k++ {
				v |= uint64(s[8*(5*y+x)+k]) << uint(8*k)
			}
			a[x][y] = v
		}
	}
	for ir := 0; ir < 24; ir++ {
		a = round(a, ir)
	}
	for y := 0; y < 5; y++ {
		for x := 0; x < 5; x++ {
			for k := 0; k < 8; k++ {
				s[8*(5*y+x)+k] = byte(a[x][y] >> uint(8*k))
			}
		}
	}
}

// F1600Slow is F1600 with every step mapping recomputing its constants from
// the FIPS algorithms (used by the unit test to cross-check the tables).
func F1600Slow(s *[200]byte) {
	var a stateArray
	for y := 0; y < 5; y++ {
		for x := 0; x < 5; x++ {
			var v uint64
			for k := 0; k < 8; k++ {
				v |= uint64(s[8*(5*y+x)+k]) << uint(8*k)
			}
			a[x][y] = v
		}
	}
	for ir := 0; ir < 24; ir++ {
		a = iota_(chi(pi(rho(theta(a)))), ir)
	}
	for y := 0; y < 5; y++ {
		for x := 0; x < 5; x++ {
			for k := 0; k < 8; k++ {
				s[8*(5*y+x)+k] = byte(a[x][y] >> uint(8*k))
			}
		}
	}
}

// Domain-separation bytes: suffix bits followed by the first pad10*1 bit,
// little-endian bit order within the byte.
const (
	DsSHA3   = 0x06 // M || 01, then 1
	DsSHAKE  = 0x1f // M || 1111, then 1
	DsCSHAKE = 0x04 // M || 00, then 1
	DsKeccak = 0x01 // M, then 1 (pre-standard Keccak)
)

// Sponge computes SPONGE[Keccak-p[1600,24], pad10*1, 8*rate](msg||suffix, 8*outLen)
// for byte-aligned messages: ds carries the suffix bits and the first padding bit.
func Sponge(rate int, ds byte, msg []byte, outLen int) []byte {
	if rate <= 0 || rate >= 200 || rate%8 != 0 {
		panic("keccak ref: bad rate")
	}
	// P = msg || ds || 0* || 0x80 (the last two may coincide in one byte)
	padLen := rate - len(msg)%rate
	p := make([]byte, 0, len(msg)+padLen)
	p = append(p, msg...)
	p = append(p, make([]byte, padLen)...)
	p[len(msg)] ^= ds
	p[len(p)-1] ^= 0x80
	var s [200]byte
	for off := 0; off < len(p); off += rate {
		for i := 0; i < rate; i++ {
			s[i] ^= p[off+i]
		}
		F1600(&s)
	}
	out := make([]byte, 0, outLen+rate)
	for {
		out = append(out, s[:rate]...)
		if len(out) >= outLen {
			return out[:outLen]
		}
		F1600(&s)
	}
}

func SHA3_224(m []byte) []byte { return Sponge(144, DsSHA3, m, 28) }
func SHA3_256(m []byte) []byte { return Sponge(136, DsSHA3, m, 32) }
func SHA3_384(m []byte) []byte { return Sponge(104, DsSHA3, m, 48) }
func SHA3_512(m []byte) []byte { return Sponge(72, DsSHA3, m, 64) }

func SHAKE128(m []byte, n int) []byte { return Sponge(168, DsSHAKE, m, n) }
func SHAKE256(m []byte, n int) []byte { return Sponge(136, DsSHAKE, m, n) }

// LegacyKeccak256/512: Keccak[c=512]/Keccak[c=1024] with the original padding.
func LegacyKeccak256(m []byte) []byte { return Sponge(136, DsKeccak, m, 32) }
func LegacyKeccak512(m []byte) []byte { return Sponge(72, DsKeccak, m, 64) }

// LeftEncode: SP 800-185 §2.3.1.
func LeftEncode(x uint64) []byte {
	n := 1
	for v := x >> 8; v != 0; v >>= 8 {
		n++
	}
	out := []byte{byte(n)}
	for i := n - 1; i >= 0; i-- {
		out = append(out, byte(x>>uint(8*i)))
	}
	return out
}

// EncodeString: SP 800-185 §2.3.2: left_encode(len(S) in bits) || S.
func EncodeString(s []byte) []byte {
	return append(LeftEncode(uint64(len(s))*8), s...)
}

// Bytepad: SP 800-185 §2.3.3.
func Bytepad(x []byte, w int) []byte {
	z := append(LeftEncode(uint64(w)), x...)
	for len(z)%w != 0 {
		z = append(z, 0)
	}
	return z
}

// CSHAKE: SP 800-185 §3.3. Empty N and S ⇒ SHAKE.
func CSHAKE(rate int, n, s, m []byte, outLen int) []byte {
	if len(n) == 0 && len(s) == 0 {
		return Sponge(rate, DsSHAKE, m, outLen)
	}
	pre := Bytepad(append(EncodeString(n), EncodeString(s)...), rate)
	return Sponge(rate, DsCSHAKE, append(pre, m...), outLen)
}

func CSHAKE128(n, s, m []byte, outLen int) []byte { return CSHAKE(168, n, s, m, outLen) }
func CSHAKE256(n, s, m []byte, outLen int) []byte { return CSHAKE(136, n, s, m, outLen) }

// CSHAKEPrefixLen is the length of the bytepad(...) prefix (0 for plain SHAKE);
// used by workloads to classify prefix/rate boundary cases.
func CSHAKEPrefixUnpadded(n, s []byte) int {
	if len(n) == 0 && len(s) == 0 {
		return 0
	}
	return len(LeftEncode(168)) + len(EncodeString(n)) + len(EncodeString(s))
}

package keccak

import (
	"bytes"
	"encoding/hex"
	"math/rand/v2"
	"testing"

	"verif/ext"
)

func unhex(s string) []byte {
	b, err := hex.DecodeString(s)
	if err != nil {
		panic(err)
	}
	return b
}

// Published values: FIPS 202 (empty message / "abc" examples from the NIST
// example-values pages), SP 800-185 cSHAKE samples #1-#4, and the well known
// pre-standard Keccak-256/512 digests (empty string, "abc").
func TestKnownAnswers(t *testing.T) {
	seq := func(n int) []byte {
		b := make([]byte, n)
		for i := range b {
			b[i] = byte(i)
		}
		return b
	}
	cases := []struct {
		name string
		got  []byte
		want string
	}{
		{"sha3-224 empty", SHA3_224(nil), "6b4e03423667dbb73b6e15454f0eb1abd4597f9a1b078e3f5b5a6bc7"},
		{"sha3-256 empty", SHA3_256(nil), "a7ffc6f8bf1ed76651c14756a061d662f580ff4de43b49fa82d80a4b80f8434a"},
		{"sha3-384 empty", SHA3_384(nil), "0c63a75b845e4f7d01107d852e4c2485c51a50aaaa94fc61995e71bbee983a2ac3713831264adb47fb6bd1e058d5f004"},
		{"sha3-512 empty", SHA3_512(nil), "a69f73cca23a9ac5c8b567dc185a756e97c982164fe25859e0d1dcc1475c80a615b2123af1f5f94c11e3e9402c3ac558f500199d95b6d3e301758586281dcd26"},
		{"sha3-256 abc", SHA3_256([]byte("abc")), "3a985da74fe225b2045c172d6bd390bd855f086e3e9d525b46bfe24511431532"},
		{"sha3-512 abc", SHA3_512([]byte("abc")), "b751850b1a57168a5693cd924b6b096e08f621827444f70d884f5d0240d2712e10e116e9192af3c91a7ec57647e3934057340b4cf408d5a56592f8274eec53f0"},
		{"shake128 empty", SHAKE128(nil, 32), "7f9c2ba4e88f827d616045507605853ed73b8093f6efbc88eb1a6eacfa66ef26"},
		{"shake256 empty", SHAKE256(nil, 64), "46b9dd2b0ba88d13233b3feb743eeb243fcd52ea62b81b82b50c27646ed5762fd75dc4ddd8c0f200cb05019d67b592f6fc821c49479ab48640292eacb3b7c4be"},
		{"keccak256 empty", LegacyKeccak256(nil), "c5d2460186f7233c927e7db2dcc703c0e500b653ca82273b7bfad8045d85a470"},
		{"keccak256 abc", LegacyKeccak256([]byte("abc")), "4e03657aea45a94fc7d47ba826c8d667c0d1e6e33a64a036ec44f58fa12d6c45"},
		{"keccak512 empty", LegacyKeccak512(nil), "0eab42de4c3ceb9235fc91acffe746b29c29a8c366b7c60e4e67c466f36a4304c00fa9caf9d87976ba469bcbe06713b435f091ef2769fb160cdab33d3670680e"},
		{"keccak512 abc", LegacyKeccak512([]byte("abc")), "18587dc2ea106b9a1563e32b3312421ca164c7f1f07bc922a9c83d77cea3a1e5d0c69910739025372dc14ac9642629379540c17e2a65b19d77aa511a9d00bb96"},
		{"cshake128 #1", CSHAKE128(nil, []byte("Email Signature"), seq(4), 32), "c1c36925b6409a04f1b504fcbca9d82b4017277cb5ed2b2065fc1d3814d5aaf5"},
		{"cshake128 #2", CSHAKE128(nil, []byte("Email Signature"), seq(200), 32), "c5221d50e4f822d96a2e8881a961420f294b7b24fe3d2094baed2c6524cc166b"},
		{"cshake256 #3", CSHAKE256(nil, []byte("Email Signature"), seq(4), 64), "d008828e2b80ac9d2218ffee1d070c48b8e4c87bff32c9699d5b6896eee0edd164020e2be0560858d9c00c037e34a96937c561a74c412bb4c746469527281c8c"},
		{"cshake256 #4", CSHAKE256(nil, []byte("Email Signature"), seq(200), 64), "07dc27b11e51fbac75bc7b3c1d983e8b4b85fb1defaf218912ac86430273091727f42b17ed1df63e8ec118f04b23633c1dfb1574c8fb55cb45da8e25afb092bb"},
	}
	for _, c := range cases {
		if !bytes.Equal(c.got, unhex(c.want)) {
			t.Errorf("%s: got %x want %s", c.name, c.got, c.want)
		}
	}
}

// The derived constants must equal the published tables (FIPS 202 Table 2 /
// the Keccak reference round constants) at the spots everyone knows.
func TestDerivedConstants(t *testing.T) {
	if RoundConstant(0) != 0x0000000000000001 || RoundConstant(1) != 0x0000000000008082 ||
		RoundConstant(2) != 0x800000000000808A || RoundConstant(23) != 0x8000000080008008 {
		t.Errorf("round constants: %x %x %x %x", RoundConstant(0), RoundConstant(1), RoundConstant(2), RoundConstant(23))
	}
	off := rhoOffsets()
	// FIPS 202 Table 2 (mod 64): (x=1,y=0)=1, (0,2)=3, (2,1)=6, (1,2)=10, (3,0)=28, (4,4)=78 mod 64=14, (2,2)=171 mod 64=43
	want := map[[2]int]int{{0, 0}: 0, {1, 0}: 1, {0, 2}: 3, {2, 1}: 6, {1, 2}: 10, {3, 0}: 28, {4, 4}: 14, {2, 2}: 43, {4, 0}: 27, {0, 1}: 36}
	for k, v := range want {
		if off[k[0]][k[1]] != v {
			t.Errorf("rho offset (%d,%d) = %d want %d", k[0], k[1], off[k[0]][k[1]], v)
		}
	}
	// tables vs per-step recomputation
	r := rand.New(rand.NewPCG(1, 2))
	for i := 0; i < 50; i++ {
		var a, b [200]byte
		for j := range a {
			a[j] = byte(r.Uint32())
		}
		b = a
		F1600(&a)
		F1600Slow(&b)
		if a != b {
			t.Fatalf("F1600 != F1600Slow")
		}
	}
}

func TestEncodings(t *testing.T) {
	if !bytes.Equal(LeftEncode(0), []byte{1, 0}) || !bytes.Equal(LeftEncode(255), []byte{1, 255}) ||
		!bytes.Equal(LeftEncode(256), []byte{2, 1, 0}) || !bytes.Equal(LeftEncode(168), []byte{1, 168}) ||
		!bytes.Equal(LeftEncode(65536), []byte{3, 1, 0, 0}) {
		t.Error("left_encode")
	}
	if !bytes.Equal(EncodeString(nil), []byte{1, 0}) || !bytes.Equal(EncodeString([]byte("ab")), []byte{1, 16, 'a', 'b'}) {
		t.Error("encode_string")
	}
	if got := Bytepad([]byte{9, 9, 9}, 8); !bytes.Equal(got, []byte{1, 8, 9, 9, 9, 0, 0, 0}) {
		t.Errorf("bytepad %x", got)
	}
	if got := Bytepad(make([]byte, 6), 8); len(got) != 8 {
		t.Errorf("bytepad exact fit: %d", len(got))
	}
	if got := Bytepad(make([]byte, 7), 8); len(got) != 16 {
		t.Errorf("bytepad overflow: %d", len(got))
	}
}

// Cross-check against python hashlib (OpenSSL/XKCP implementation) for every
// message length 0..420 (covers 0..2 blocks of every rate) and long outputs.
func TestAgainstHashlib(t *testing.T) {
	py, err := ext.StartPy()
	if err != nil {
		t.Skip("python3 unavailable: ", err)
	}
	defer py.Close()
	r := rand.New(rand.NewPCG(7, 7))
	fixed := []struct {
		name string
		f    func([]byte) []byte
	}{{"sha3_224", SHA3_224}, {"sha3_256", SHA3_256}, {"sha3_384", SHA3_384}, {"sha3_512", SHA3_512}}
	for n := 0; n <= 420; n++ {
		msg := make([]byte, n)
		for i := range msg {
			msg[i] = byte(r.Uint32())
		}
		for _, f := range fixed {
			w, err := py.Bytes(map[string]any{"op": "hash", "name": f.name, "msg": ext.Hx(msg)})
			if err != nil {
				t.Fatal(err)
			}
			if !bytes.Equal(w, f.f(msg)) {
				t.Fatalf("%s len %d mismatch", f.name, n)
			}
		}
		outlen := r.IntN(700)
		w, err := py.Bytes(map[string]any{"op": "hash", "name": "shake_128", "msg": ext.Hx(msg), "outlen": outlen})
		if err != nil {
			t.Fatal(err)
		}
		if !bytes.Equal(w, SHAKE128(msg, outlen)) {
			t.Fatalf("shake128 len %d out %d mismatch", n, outlen)
		}
		w, err = py.Bytes(map[string]any{"op": "hash", "name": "shake_256", "msg": ext.Hx(msg), "outlen": outlen})
		if err != nil {
			t.Fatal(err)
		}
		if !bytes.Equal(w, SHAKE256(msg, outlen)) {
			t.Fatalf("shake256 len %d out %d mismatch", n, outlen)
		}
	}
}
